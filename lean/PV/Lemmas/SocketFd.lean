import PV.Lemmas.SocketCalls
/-!
# Descriptor-level lemmas of the socket family (property C10)

* `cloexec_new`, `cloexec_accept`: close-on-exec on every descriptor that is kept, given the kernel
  contract `fcntlFdOk` (with `example`s of what the code does when `F_GETFD` / `F_SETFD` fails).
* `fd_closed_once` (+ `_balanced`, `_all_freed`, `_run`): descriptor balance along any sequence of API calls
  from the empty world.  Kernel contract, as predicates on the trace: `FreshFrom []` (numbers handed out by
  `socket()` / `accept()` are not open at that moment) and `ClosesSucceed` (every `close()` returns 0).
  Caller discipline `WCall.Disciplined`: new objects go to empty slots; `WCall.newFromFd` (adoption of a
  caller-owned descriptor) is excluded from the sequences.
  Per-call effects on `fdTable`: `new_fdTable`, `accept_fdTable`, `close_fdTable`, `free_fdTable`,
  `callM_fdn` + `callM_keeps` (all other calls), `wstep_fdTable` (one world step).
* Tools: `M.bind_ok` / `sys_ok` (run decomposition), `RetAll` (+ tactic `ret_all`) — the counterpart of `TrAll`
  for returned values, `new_ok` / `accept_ok` / `close_ok` / `free_ok` (shape of one run of these functions).
-/
set_option linter.unusedSimpArgs false
set_option linter.unusedVariables false
namespace PV.Socket
open PV.Generated.Socket

/-! ## running a computation: decomposition of `bind` -/

theorem M.bind_ok {α β} {m : M α} {k : α → M β} {st st' : St} {b : β} {evs : List Ev}
    (h : (m >>= k) st = .ok b st' evs) :
    ∃ a st1 evs1 evs2, m st = .ok a st1 evs1 ∧ k a st1 = .ok b st' evs2 ∧ evs = evs1 ++ evs2 := by
  rw [M.bind_apply] at h
  unfold M.bind at h
  cases hm : m st with
  | stop w => simp [hm] at h
  | ok a st1 evs1 =>
    simp only [hm] at h
    cases hk : k a st1 with
    | stop w => simp [hk] at h
    | ok b' st'' evs2 =>
      simp only [hk] at h
      injection h with h1 h2 h3
      exact ⟨a, st1, evs1, evs2, rfl, by rw [hk, h1, h2], h3.symm⟩

theorem M.pure_ok {α} {a b : α} {st st' : St} {evs : List Ev} (h : (pure a : M α) st = .ok b st' evs) :
    b = a ∧ st' = st ∧ evs = [] := by
  rw [M.pure_apply] at h
  injection h with h1 h2 h3
  exact ⟨h1.symm, h2.symm, h3.symm⟩

theorem sys_ok {c : Issued} {st st' : St} {r : Res} {evs : List Ev} (h : sys c st = .ok r st' evs) :
    evs = [⟨c, r⟩] ∧ r.sys = c.sys := by
  unfold sys at h
  cases hs : st.script with
  | nil => simp [hs] at h
  | cons a t =>
    simp only [hs] at h
    by_cases hsys : a.sys = c.sys
    · simp only [hsys, if_true] at h
      injection h with h1 h2 h3
      subst h1
      exact ⟨h3.symm, hsys⟩
    · simp [hsys] at h

theorem errnoErr_ok {msg : String} {b : Bool} {st st' : St} {pe : PErr} {evs : List Ev}
    (h : errnoErr msg b st = .ok pe st' evs) : evs = [] := by
  unfold errnoErr at h
  injection h with h1 h2 h3
  exact h3.symm

theorem TrAll.elim {α} {P : Ev → Prop} {m : M α} (h : TrAll P m) {st st' : St} {a : α} {evs : List Ev}
    (hm : m st = .ok a st' evs) : ∀ ev ∈ evs, P ev := by
  unfold TrAll at h
  have := h st
  rw [hm] at this
  exact this

end PV.Socket

namespace PV.Socket
open PV.Generated.Socket

/-! ## close-on-exec: the kernel-side function `cloexecAfter` -/

theorem cloexecAfter_cons (fd : Int) (ev : Ev) (rest : List Ev) (b : Bool) :
    cloexecAfter fd (ev :: rest) b = cloexecAfter fd rest (cloexecAfter fd [ev] b) := rfl

theorem cloexecAfter_append (fd : Int) (a b : List Ev) (init : Bool) :
    cloexecAfter fd (a ++ b) init = cloexecAfter fd b (cloexecAfter fd a init) := by
  induction a generalizing init with
  | nil => rfl
  | cons ev a ih =>
    rw [List.cons_append, cloexecAfter_cons, ih, cloexecAfter_cons fd ev a]

theorem fcntlFdOk_append (fd : Int) (a b : List Ev) :
    fcntlFdOk fd (a ++ b) = (fcntlFdOk fd a && fcntlFdOk fd b) := by
  unfold fcntlFdOk; rw [List.all_append]

/-- the event leaves the close-on-exec flag of descriptor `fd` as it is -/
def CxKeep (fd : Int) (ev : Ev) : Prop := ∀ b, cloexecAfter fd [ev] b = b

theorem cloexecAfter_keep (fd : Int) (tr : List Ev) (h : ∀ ev ∈ tr, CxKeep fd ev) (b : Bool) :
    cloexecAfter fd tr b = b := by
  induction tr generalizing b with
  | nil => rfl
  | cons ev tr ih =>
    rw [cloexecAfter_cons, h ev (by simp) b]
    exact ih (fun ev' h' => h ev' (by simp [h'])) b

/-- a native call other than `socket`, `accept`, `fcntl` does not touch the flag -/
theorem cxKeep_other (fd : Int) (c : Issued) (r : Res)
    (h : c.sys ≠ .socket ∧ c.sys ≠ .accept ∧ c.sys ≠ .fcntl) : CxKeep fd ⟨c, r⟩ := by
  intro b
  cases c <;> simp [Issued.sys] at h <;> simp [cloexecAfter]

/-- `fcntl` with a command other than `F_GETFD` / `F_SETFD` (here: `F_GETFL`, `F_SETFL`) does not touch the flag -/
theorem cxKeep_fcntl (fd f cmd arg : Int) (r : Res) (h1 : cmd ≠ F_GETFD) (h2 : cmd ≠ F_SETFD) :
    CxKeep fd ⟨.fcntl f cmd arg, r⟩ := by
  intro b
  cases hr : r.ret <;> simp [cloexecAfter, hr, h1, h2]

/-- a failed `accept` / `socket` does not touch the flag of any descriptor -/
theorem cxKeep_failed (fd : Int) (c : Issued) (r : Res) (h : r.failed = true) : CxKeep fd ⟨c, r⟩ := by
  intro b
  cases hr : r.ret with
  | ok v => simp [Res.failed, hr] at h
  | err x => cases c <;> simp [cloexecAfter, hr]

theorem or_one_and_one (v : Nat) : (v ||| 1) &&& 1 = 1 := by
  rw [Nat.and_one_is_mod]
  have h := Nat.or_mod_two_pow (a := v) (b := 1) (n := 1)
  simp only [Nat.pow_one] at h
  rw [h]
  rcases Nat.mod_two_eq_zero_or_one v with h | h <;> rw [h] <;> decide

theorem setFdBlocking_cx (fd fd' : Int) (b : Bool) : TrAll (CxKeep fd) (setFdBlocking fd' b) := by
  unfold setFdBlocking
  tr_all (exact cxKeep_fcntl _ _ _ _ _ (by decide) (by decide))

theorem setDetails_cx (fd : Int) (s : Sock) : TrAll (CxKeep fd) (setDetailsFromFd s) := by
  unfold setDetailsFromFd
  tr_all (exact cxKeep_other _ _ _ (by simp [Issued.sys]))

theorem newFromFd_cx (fd fd' : Int) : TrAll (CxKeep fd) (newFromFd fd') := by
  unfold newFromFd
  tr_all (exact cxKeep_other _ _ _ (by simp [Issued.sys]))
  all_goals first | exact setDetails_cx _ _ | exact setFdBlocking_cx _ _ _

theorem close_cx (fd : Int) (s : Sock) : TrAll (CxKeep fd) (close s) := by
  unfold close
  tr_all (exact cxKeep_other _ _ _ (by simp [Issued.sys]))

/-- **the `F_GETFD` / `F_SETFD` block**: if its `fcntl`s on `fd` do not fail, the flag of `fd` is set
    afterwards, whatever it was before -/
theorem fdCloexecBlock_sets (fd : Int) (st st' : St) (u : Unit) (evs : List Ev)
    (h : fdCloexecBlock true fd F_GETFD FD_CLOEXEC FD_CLOEXEC F_SETFD st = .ok u st' evs)
    (hk : fcntlFdOk fd evs = true) (b : Bool) : cloexecAfter fd evs b = true := by
  unfold fdCloexecBlock at h
  simp only [if_true] at h
  obtain ⟨r, st1, evs1, evs2, h1, h2, rfl⟩ := M.bind_ok h
  obtain ⟨rfl, _⟩ := sys_ok h1
  cases hr : r.ret with
  | err x =>
    simp [fcntlFdOk, Res.failed, hr] at hk
  | ok v =>
    simp only [hr] at h2
    by_cases hz : v &&& FD_CLOEXEC.toNat = 0
    · simp only [hz, if_true] at h2
      obtain ⟨r2, st2, evs3, evs4, h3, h4, rfl⟩ := M.bind_ok h2
      obtain ⟨rfl, _⟩ := sys_ok h3
      obtain ⟨_, _, rfl⟩ := M.pure_ok h4
      cases hr2 : r2.ret with
      | err x => simp [fcntlFdOk, Res.failed, hr2] at hk
      | ok v2 =>
        have : FD_CLOEXEC.toNat = 1 := by decide
        simp [cloexecAfter, hr, hr2, this, or_one_and_one]
    · simp only [hz, if_false] at h2
      obtain ⟨_, _, rfl⟩ := M.pure_ok h2
      simp [cloexecAfter, hr]
      exact ⟨by decide, hz⟩

end PV.Socket

namespace PV.Socket
open PV.Generated.Socket

/-! ## properties of the value a computation returns -/

/-- on every script, the value `m` returns satisfies `Q` -/
def RetAll {α} (Q : α → Prop) (m : M α) : Prop :=
  ∀ st, match m st with
    | .ok a _ _ => Q a
    | .stop _ => True

theorem RetAll.pure {α} {Q : α → Prop} {a : α} (h : Q a) : RetAll Q (pure a : M α) := by
  intro st; simpa [Pure.pure, M.pure] using h

theorem RetAll.bind {α β} {R : α → Prop} {Q : β → Prop} {m : M α} {k : α → M β}
    (hm : RetAll R m) (hk : ∀ a, R a → RetAll Q (k a)) : RetAll Q (m >>= k) := by
  intro st
  have h1 := hm st
  show match M.bind m k st with | .ok a _ _ => Q a | .stop _ => True
  unfold M.bind
  cases hms : m st with
  | stop w => simp
  | ok a st' evs =>
    simp only [hms] at h1
    have h2 := hk a h1 st'
    simp only []
    cases hks : k a st' with
    | stop w => simp
    | ok b st'' evs' => simpa [hks] using h2

theorem RetAll.bind' {α β} {Q : β → Prop} {m : M α} {k : α → M β}
    (hk : ∀ a, RetAll Q (k a)) : RetAll Q (m >>= k) :=
  RetAll.bind (R := fun _ => True) (by intro st; cases m st <;> simp) (fun a _ => hk a)

theorem RetAll.bind_sys {β} {Q : β → Prop} (c : Issued) {k : Res → M β}
    (hk : ∀ a, RetAll Q (k a)) : RetAll Q (sys c >>= k) := RetAll.bind' hk
theorem RetAll.bind_errnoErr {β} {Q : β → Prop} (msg : String) (b : Bool) {k : PErr → M β}
    (hk : ∀ a, RetAll Q (k a)) : RetAll Q (errnoErr msg b >>= k) := RetAll.bind' hk
theorem RetAll.bind_getErrno {β} {Q : β → Prop} {k : Int → M β}
    (hk : ∀ a, RetAll Q (k a)) : RetAll Q (getErrno >>= k) := RetAll.bind' hk

theorem RetAll.stopWith {α} {Q : α → Prop} (w : Stop) : RetAll Q (stopWith w : M α) := by
  intro st; simp [PV.Socket.stopWith]

theorem RetAll.elim {α} {Q : α → Prop} {m : M α} (h : RetAll Q m) {st st' : St} {a : α} {evs : List Ev}
    (hm : m st = .ok a st' evs) : Q a := by
  have := h st
  rw [hm] at this
  exact this

attribute [irreducible] RetAll

/-- decompose a `RetAll` goal along a `do` block whose binds are native calls; `t` proves the property at a `return` -/
macro "ret_all" "(" t:tactic ")" : tactic => `(tactic|
  repeat' (first
    | with_reducible apply RetAll.stopWith
    | ((with_reducible apply RetAll.pure); $t; done)
    | with_reducible apply RetAll.bind_sys
    | with_reducible apply RetAll.bind_errnoErr
    | with_reducible apply RetAll.bind_getErrno
    | split
    | intro _
    | dsimp only))

/-- the same, passing over every bind without recording anything about the bound value -/
macro "ret_all'" "(" t:tactic ")" : tactic => `(tactic|
  repeat' (first
    | with_reducible apply RetAll.stopWith
    | ((with_reducible apply RetAll.pure); $t; done)
    | with_reducible apply RetAll.bind'
    | split
    | intro _
    | dsimp only))

/-- `pp_socket_set_details_from_fd` changes neither `fd` nor `closed` -/
theorem setDetails_ret (s : Sock) :
    RetAll (fun p => p.1.fd = s.fd ∧ p.1.closed = s.closed) (setDetailsFromFd s) := by
  unfold setDetailsFromFd
  ret_all (exact ⟨rfl, rfl⟩)
  all_goals apply RetAll.bind (R := fun a => a.fd = s.fd ∧ a.closed = s.closed)
  all_goals ret_all (first | exact ⟨rfl, rfl⟩ | (split <;> exact ⟨rfl, rfl⟩) | assumption)

/-- `p_socket_new_from_fd fd` returns an open socket object whose descriptor is `fd` -/
theorem newFromFd_ret (fd : Int) :
    RetAll (fun p => ∀ ns, p.1 = some ns → ns.fd = fd ∧ ns.closed = false) (newFromFd fd) := by
  unfold newFromFd
  ret_all (simp)
  apply RetAll.bind (setDetails_ret _)
  intro a ha
  ret_all' (simp)
  all_goals (apply RetAll.pure; intro ns h; injection h with h; subst h; exact ha)

end PV.Socket

namespace PV.Socket
open PV.Generated.Socket

/-! ## what `close`, `free`, `new` do, as facts about one run -/

/-- `p_socket_close`: nothing on a closed socket; otherwise exactly `close (fd)`, and the object is marked
    closed (fd := −1) iff that call returned 0 -/
theorem close_ok {s s' : Sock} {e : Option PErr} {b : Bool} {st st' : St} {evs : List Ev}
    (h : close s st = .ok (s', e, b) st' evs) :
    (s.closed = true ∧ evs = [] ∧ s' = s) ∨
    (s.closed = false ∧ ∃ rc, evs = [⟨.close s.fd, rc⟩] ∧
      ((rc.ret = .ok 0 ∧ s' = { s with connected := false, closed := true, listening := false, fd := -1 }) ∨
       (rc.ret ≠ .ok 0 ∧ s' = s))) := by
  unfold close at h
  cases hc : s.closed with
  | true =>
    simp only [hc, if_true] at h
    obtain ⟨h1, _, h3⟩ := M.pure_ok h
    left; exact ⟨rfl, h3, by injection h1⟩
  | false =>
    simp only [hc, Bool.false_eq_true, if_false] at h
    obtain ⟨rc, st1, evs1, evs2, h1, h2, rfl⟩ := M.bind_ok h
    obtain ⟨rfl, _⟩ := sys_ok h1
    right; refine ⟨rfl, rc, ?_⟩
    by_cases h0 : rc.ret = .ok 0
    · simp only [h0, if_true] at h2
      obtain ⟨h3, _, rfl⟩ := M.pure_ok h2
      refine ⟨rfl, Or.inl ⟨h0, ?_⟩⟩
      injection h3
    · simp only [h0, if_false] at h2
      obtain ⟨pe, st2, evs3, evs4, h3, h4, rfl⟩ := M.bind_ok h2
      have := errnoErr_ok h3; subst this
      obtain ⟨h5, _, rfl⟩ := M.pure_ok h4
      refine ⟨rfl, Or.inr ⟨h0, ?_⟩⟩
      injection h5

/-- `p_socket_free`: `close (fd)` once if the object is not marked closed, nothing otherwise -/
theorem free_ok {s : Sock} {u : Unit} {st st' : St} {evs : List Ev} (h : free s st = .ok u st' evs) :
    (s.closed = true ∧ evs = []) ∨ (s.closed = false ∧ ∃ rc, evs = [⟨.close s.fd, rc⟩]) := by
  unfold free at h
  obtain ⟨⟨s', e, b⟩, st1, evs1, evs2, h1, h2, rfl⟩ := M.bind_ok h
  obtain ⟨_, _, rfl⟩ := M.pure_ok h2
  rcases close_ok h1 with ⟨hc, rfl, _⟩ | ⟨hc, rc, rfl, _⟩
  · left; exact ⟨hc, rfl⟩
  · right; exact ⟨hc, rc, rfl⟩

theorem or_and_self (x m : Nat) : (x ||| m) &&& m = m := by
  apply Nat.eq_of_testBit_eq
  intro i
  rw [Nat.testBit_and, Nat.testBit_or]
  cases x.testBit i <;> cases m.testBit i <;> rfl

/-- the three ways `p_socket_new` can run -/
theorem new_ok {f t p : Int} {st st' : St} {so : Option Sock} {err : Option PErr} {evs : List Ev}
    (h : new f t p st = .ok (so, err) st' evs) :
    (so = none ∧ evs = []) ∨
    (∃ nt r, so = none ∧ r.failed = true ∧ evs = [⟨.socket f nt p, r⟩]) ∨
    (∃ nt r v st1 st2 st3 evsB evsF x, r.ret = .ok v ∧ nt.toNat &&& newSocketTypeOr.toNat = newSocketTypeOr.toNat ∧
      fdCloexecBlock newFdCloexecBlock (Int.ofNat v) newGetCmd newMask newOr newSetCmd st1 = .ok () st2 evsB ∧
      setFdBlocking (Int.ofNat v) false st2 = .ok x st3 evsF ∧
      ((∃ s, so = some s ∧ s.fd = Int.ofNat v ∧ s.closed = false ∧ evs = ⟨.socket f nt p, r⟩ :: (evsB ++ evsF)) ∨
       (so = none ∧ ∃ rc, evs = ⟨.socket f nt p, r⟩ :: (evsB ++ evsF ++ [⟨.close (Int.ofNat v), rc⟩])))) := by
  unfold new at h
  split at h
  · obtain ⟨h1, _, rfl⟩ := M.pure_ok h
    left; injection h1 with h1 _; exact ⟨h1, rfl⟩
  · dsimp only at h
    generalize (if t = P_SOCKET_TYPE_STREAM then some SOCK_STREAM else _) = nt at h
    cases nt with
    | none =>
      obtain ⟨h1, _, rfl⟩ := M.pure_ok h
      left; injection h1 with h1 _; exact ⟨h1, rfl⟩
    | some nt0 =>
      simp only [] at h
      obtain ⟨r, st1, evs1, evs2, h1, h2, rfl⟩ := M.bind_ok h
      obtain ⟨rfl, _⟩ := sys_ok h1
      cases hr : r.ret with
      | err x =>
        simp only [hr] at h2
        obtain ⟨pe, st2, evs3, evs4, h3, h4, rfl⟩ := M.bind_ok h2
        have := errnoErr_ok h3; subst this
        obtain ⟨h5, _, rfl⟩ := M.pure_ok h4
        right; left
        injection h5 with h5 _
        exact ⟨_, r, h5, by simp [Res.failed, hr], rfl⟩
      | ok v =>
        simp only [hr] at h2
        obtain ⟨u, st2, evsB, evs3, h3, h4, rfl⟩ := M.bind_ok h2
        obtain ⟨x, st3, evsF, evs4, h5, h6, rfl⟩ := M.bind_ok h4
        right; right
        refine ⟨Int.ofNat (nt0.toNat ||| newSocketTypeOr.toNat), r, v, st1, st2, st3, evsB, evsF, x, hr, ?_, h3, h5, ?_⟩
        · have h2 : ∀ n : Nat, (Int.ofNat n).toNat = n := fun n => rfl
          rw [h2, or_and_self]
        · cases x with
          | none =>
            simp only [] at h6
            obtain ⟨h7, _, rfl⟩ := M.pure_ok h6
            left
            injection h7 with h7 _
            refine ⟨_, h7, ?_, ?_, by simp⟩
            all_goals simp
          | some e =>
            simp only [] at h6
            obtain ⟨u2, st4, evs5, evs6, h7, h8, rfl⟩ := M.bind_ok h6
            obtain ⟨h9, _, rfl⟩ := M.pure_ok h8
            right
            injection h9 with h9 _
            rcases free_ok h7 with ⟨hc, _⟩ | ⟨_, rc, rfl⟩
            · simp at hc
            · exact ⟨h9, rc, by simp⟩

end PV.Socket

namespace PV.Socket
open PV.Generated.Socket

/-! ## what `accept` does, as facts about one run -/

theorem liftLoop_ok {l : List Res → Int → LoopR} {st st1 : St} {x : Except PErr Res} {evs : List Ev}
    (h : liftLoop l st = .ok x st1 evs) :
    evs = (l st.script st.errno).evs ∧
    ((∃ r, x = .ok r ∧ (l st.script st.errno).fin = .done r) ∨
     (∃ pe, x = .error pe ∧ (l st.script st.errno).fin = .fail pe)) := by
  unfold liftLoop at h
  cases hf : (l st.script st.errno).fin with
  | stop w => simp [hf] at h
  | done r =>
    simp only [hf] at h
    injection h with h1 h2 h3
    exact ⟨h3.symm, Or.inl ⟨r, h1.symm, rfl⟩⟩
  | fail pe =>
    simp only [hf] at h
    injection h with h1 h2 h3
    exact ⟨h3.symm, Or.inr ⟨pe, h1.symm, rfl⟩⟩

/-- the ways `p_socket_accept` can run on a socket that is not closed: the loop fails; or the loop ends with
    the answer `r` of a successful `accept()`, then the close-on-exec block and `p_socket_new_from_fd` run on
    `retVal r`, and either the new object is returned or — `new_from_fd` having failed — `close (retVal r)` is issued -/
theorem accept_ok {s : Sock} (hc : s.closed = false) {st st' : St} {o : Outcome} {evs : List Ev}
    (h : accept s st = .ok o st' evs) :
    (∃ pe, (ioLoop (acceptCfg s) (startPhase (acceptCfg s)) st.script st.errno).fin = .fail pe ∧
      evs = (ioLoop (acceptCfg s) (startPhase (acceptCfg s)) st.script st.errno).evs ∧ o.sock = none) ∨
    (∃ r st1 st2 st3 evsB evsN ns e,
      (ioLoop (acceptCfg s) (startPhase (acceptCfg s)) st.script st.errno).fin = .done r ∧
      fdCloexecBlock acceptFdCloexecBlock (retVal r) acceptGetCmd acceptMask acceptOr acceptSetCmd st1 = .ok () st2 evsB ∧
      newFromFd (retVal r) st2 = .ok (ns, e) st3 evsN ∧
      ((∃ n, ns = some n ∧ o.sock = some { n with protocol := s.protocol } ∧
          evs = (ioLoop (acceptCfg s) (startPhase (acceptCfg s)) st.script st.errno).evs ++ (evsB ++ evsN)) ∨
       (ns = none ∧ o.sock = none ∧ ∃ rc,
          evs = (ioLoop (acceptCfg s) (startPhase (acceptCfg s)) st.script st.errno).evs ++
                  (evsB ++ (evsN ++ [⟨.close (retVal r), rc⟩]))))) := by
  unfold accept at h
  unfold acceptCfg
  simp only [check, hc, Bool.false_eq_true, if_false] at h
  obtain ⟨x, st1, evs1, evs2, h1, h2, rfl⟩ := M.bind_ok h
  obtain ⟨rfl, hx⟩ := liftLoop_ok h1
  rcases hx with ⟨r, rfl, hf⟩ | ⟨pe, rfl, hf⟩
  · simp only [] at h2
    obtain ⟨u, st2, evsB, evs3, h3, h4, rfl⟩ := M.bind_ok h2
    obtain ⟨⟨ns, e⟩, st3, evsN, evs4, h5, h6, rfl⟩ := M.bind_ok h4
    right
    refine ⟨r, st1, st2, st3, evsB, evsN, ns, e, hf, h3, h5, ?_⟩
    cases ns with
    | none =>
      simp only [] at h6
      obtain ⟨rc, st4, evs5, evs6, h7, h8, rfl⟩ := M.bind_ok h6
      obtain ⟨rfl, _⟩ := sys_ok h7
      obtain ⟨rfl, _, rfl⟩ := M.pure_ok h8
      right
      exact ⟨rfl, rfl, rc, by simp⟩
    | some n =>
      simp only [] at h6
      obtain ⟨rfl, _, rfl⟩ := M.pure_ok h6
      left
      exact ⟨n, rfl, rfl, by simp⟩
  · simp only [] at h2
    obtain ⟨rfl, _, rfl⟩ := M.pure_ok h2
    left
    exact ⟨pe, hf, by simp, rfl⟩

/-! ## C10 `cloexec` -/

theorem runM_ok {α} {m : M α} {script : Script} {e : Int} {a : α} {st : St} {evs : List Ev}
    (h : runM m script e = .ok (a, st, evs)) : m { script := script, errno := e } = .ok a st evs := by
  unfold runM at h
  cases hm : m { script := script, errno := e } with
  | stop w => simp [hm] at h
  | ok a' st' evs' =>
    simp only [hm] at h
    injection h with h
    injection h with h1 h2
    injection h2 with h2 h3
    rw [h1, h2, h3]

/-- T6 facts: the block of `p_socket_new` / `p_socket_accept` is present and is `F_GETFD`, `& FD_CLOEXEC`, `| FD_CLOEXEC`, `F_SETFD` -/
theorem new_block_eq (fd : Int) :
    fdCloexecBlock newFdCloexecBlock fd newGetCmd newMask newOr newSetCmd =
      fdCloexecBlock true fd F_GETFD FD_CLOEXEC FD_CLOEXEC F_SETFD := rfl
theorem accept_block_eq (fd : Int) :
    fdCloexecBlock acceptFdCloexecBlock fd acceptGetCmd acceptMask acceptOr acceptSetCmd =
      fdCloexecBlock true fd F_GETFD FD_CLOEXEC FD_CLOEXEC F_SETFD := rfl

/-- **cloexec (`p_socket_new`)**: the descriptor of every socket object `p_socket_new` returns has
    close-on-exec set when the call returns — given the kernel contract `fcntlFdOk` (the
    `fcntl (F_GETFD / F_SETFD)` calls on that descriptor do not fail).  `SOCK_CLOEXEC` is in the type given
    to `socket()`; whatever `F_GETFD` then reports, the flag is set afterwards: if it reports "not set",
    the `F_SETFD` that follows sets it; `F_GETFL` / `F_SETFL` do not touch it. -/
theorem cloexec_new (f t p : Int) (script : Script) (e : Int) (s : Sock) (err : Option PErr) (st : St)
    (evs : List Ev) (h : runM (new f t p) script e = .ok ((some s, err), st, evs))
    (hk : fcntlFdOk s.fd evs = true) : cloexecAfter s.fd evs false = true := by
  have h := runM_ok h
  rcases new_ok h with ⟨h1, _⟩ | ⟨_, _, h1, _⟩ | ⟨nt, r, v, st1, st2, st3, evsB, evsF, x, hr, hnt, hB, hF, h1⟩
  · cases h1
  · cases h1
  · rcases h1 with ⟨s', hs, hfd, _, rfl⟩ | ⟨h1, _⟩
    · injection hs with hs; subst hs
      rw [hfd] at hk ⊢
      rw [← List.singleton_append, fcntlFdOk_append, fcntlFdOk_append] at hk
      simp only [Bool.and_eq_true] at hk
      rw [← List.singleton_append, cloexecAfter_append, cloexecAfter_append,
        fdCloexecBlock_sets _ _ _ _ _ (new_block_eq _ ▸ hB) hk.2.1]
      exact cloexecAfter_keep _ _ (TrAll.elim (setFdBlocking_cx _ _ _) hF) _
    · cases h1

theorem call_ok {s : Sock} {c : Call} {script : Script} {e : Int} {r : CallResult}
    (h : call s c script e = .ok r) :
    callM s c { script := script, errno := e } = .ok (r.sock, r.out) { script := r.rest, errno := r.errno } r.tr := by
  unfold call at h
  cases hm : callM s c { script := script, errno := e } with
  | stop w => simp [hm] at h
  | ok a st evs =>
    obtain ⟨s', o⟩ := a
    simp only [hm] at h
    injection h with h
    subst h
    rfl

theorem accept_closed {s : Sock} (hc : s.closed = true) {st st' : St} {o : Outcome} {evs : List Ev}
    (h : accept s st = .ok o st' evs) : o.sock = none ∧ evs = [] := by
  unfold accept at h
  simp only [check, hc, if_true] at h
  obtain ⟨rfl, _, rfl⟩ := M.pure_ok h
  exact ⟨rfl, rfl⟩

/-- `callM s .accept` is `accept s` -/
theorem callM_accept_ok {s s' : Sock} {o : Outcome} {st st' : St} {evs : List Ev}
    (h : callM s .accept st = .ok (s', o) st' evs) : s' = s ∧ accept s st = .ok o st' evs := by
  simp only [callM] at h
  obtain ⟨o', st1, evs1, evs2, h1, h2, rfl⟩ := M.bind_ok h
  obtain ⟨h3, rfl, rfl⟩ := M.pure_ok h2
  injection h3 with h3 h4
  subst h3; subst h4
  exact ⟨rfl, by simpa using h1⟩

/-- **cloexec (`p_socket_accept`)**: the descriptor of every socket object `p_socket_accept` returns has
    close-on-exec set when the call returns, given `fcntlFdOk` for that descriptor.  (`accept()` yields a
    descriptor without the flag; `F_GETFD` reports it, `F_SETFD (flags | FD_CLOEXEC)` sets it; nothing
    `p_socket_new_from_fd` does afterwards touches it.) -/
theorem cloexec_accept (s : Sock) (script : Script) (e : Int) (r : CallResult) (ns : Sock)
    (h : call s .accept script e = .ok r) (hs : r.out.sock = some ns)
    (hk : fcntlFdOk ns.fd r.tr = true) : cloexecAfter ns.fd r.tr false = true := by
  obtain ⟨_, h⟩ := callM_accept_ok (call_ok h)
  cases hc : s.closed with
  | true =>
    rw [(accept_closed hc h).1] at hs; cases hs
  | false =>
    rcases accept_ok hc h with ⟨pe, _, _, h1⟩ | ⟨r0, st1, st2, st3, evsB, evsN, so, er, hf, hB, hN, h1⟩
    · rw [h1] at hs; cases hs
    · rcases h1 with ⟨n, rfl, ho, htr⟩ | ⟨_, ho, _⟩
      · rw [ho] at hs
        injection hs with hs
        have hfd : ns.fd = retVal r0 := by
          rw [← hs]; exact ((RetAll.elim (newFromFd_ret _) hN) n rfl).1
        rw [htr, hfd] at hk ⊢
        rw [fcntlFdOk_append, fcntlFdOk_append] at hk
        simp only [Bool.and_eq_true] at hk
        rw [cloexecAfter_append, cloexecAfter_append,
          fdCloexecBlock_sets _ _ _ _ _ (accept_block_eq _ ▸ hB) hk.2.1]
        exact cloexecAfter_keep _ _ (TrAll.elim (newFromFd_cx _ _) hN) _
      · rw [ho] at hs; cases hs

/-! ### outside the contract: what the code does when `fcntl` on the fresh descriptor fails

`p_socket_accept` only logs a warning when `fcntl (F_GETFD)` / `fcntl (F_SETFD)` fails and goes on: the
socket object **is returned, without close-on-exec**. -/

def demoListener : Sock :=
  { family := AF_INET, protocol := 6, type := 1, fd := 5, listen_backlog := 5, blocking := true, listening := true }

/-- the native answers `p_socket_new_from_fd` needs to succeed on an AF_INET stream socket -/
def newFromFdAnswers : Script :=
  [{ sys := .getsockopt, ret := .ok 0, val := 1, len := 4 },       -- SO_TYPE = SOCK_STREAM
   { sys := .getsockname, ret := .ok 0, sa := [2, 0, 0, 80] },      -- AF_INET
   { sys := .getpeername, ret := .ok 0 },
   { sys := .getsockopt, ret := .ok 0, val := 0, len := 4 },        -- SO_KEEPALIVE
   { sys := .fcntl, ret := .ok 2 },                                  -- F_GETFL
   { sys := .fcntl, ret := .ok 0 }]                                  -- F_SETFL

/-- `accept()` → 7, `F_GETFD` → 0, **`F_SETFD` fails** (EBADF): object for fd 7 returned, flag not set -/
example :
    (call demoListener .accept
      ([{ sys := .poll, ret := .ok 1 }, { sys := .accept, ret := .ok 7 },
        { sys := .fcntl, ret := .ok 0 }, { sys := .fcntl, ret := .err EBADF }] ++ newFromFdAnswers)).toOption.map
      (fun r => (r.out.ret, r.out.sock.map (·.fd), fcntlFdOk 7 r.tr, cloexecAfter 7 r.tr false)) =
    some (1, some 7, false, false) := by decide

/-- `accept()` → 7, **`F_GETFD` fails**: no `F_SETFD` is attempted, object for fd 7 returned, flag not set -/
example :
    (call demoListener .accept
      ([{ sys := .poll, ret := .ok 1 }, { sys := .accept, ret := .ok 7 },
        { sys := .fcntl, ret := .err EBADF }] ++ newFromFdAnswers)).toOption.map
      (fun r => (r.out.ret, r.out.sock.map (·.fd), fcntlFdOk 7 r.tr, cloexecAfter 7 r.tr false,
                 r.tr.map (·.call) |>.filter (fun c => c.sys == .fcntl))) =
    some (1, some 7, false, false, [.fcntl 7 F_GETFD 0, .fcntl 7 F_GETFL 0, .fcntl 7 F_SETFL 2050]) := by decide

/-- inside the contract (same script, `F_SETFD` succeeds): flag set — instance of `cloexec_accept` -/
example :
    (call demoListener .accept
      ([{ sys := .poll, ret := .ok 1 }, { sys := .accept, ret := .ok 7 },
        { sys := .fcntl, ret := .ok 0 }, { sys := .fcntl, ret := .ok 0 }] ++ newFromFdAnswers)).toOption.map
      (fun r => (r.out.ret, r.out.sock.map (·.fd), fcntlFdOk 7 r.tr, cloexecAfter 7 r.tr false)) =
    some (1, some 7, true, true) := by decide

/-- the same for `p_socket_new`: `socket()` → 7 with SOCK_CLOEXEC, but `F_GETFD` answers "not set" and
    `F_SETFD` fails: object returned, flag (as the kernel reported it) not set -/
example :
    (runM (new AF_INET P_SOCKET_TYPE_STREAM P_SOCKET_PROTOCOL_TCP)
      [{ sys := .socket, ret := .ok 7 }, { sys := .fcntl, ret := .ok 0 }, { sys := .fcntl, ret := .err EBADF },
       { sys := .fcntl, ret := .ok 2 }, { sys := .fcntl, ret := .ok 0 }] 0).toOption.map
      (fun x => (x.1.1.map (·.fd), fcntlFdOk 7 x.2.2, cloexecAfter 7 x.2.2 false)) =
    some (some 7, false, false) := by decide

end PV.Socket

namespace PV.Socket
open PV.Generated.Socket

/-! ## descriptor balance: the kernel-side function `fdTable` -/

theorem fdTable_append (a b : List Ev) (t : List Int) :
    fdTable (a ++ b) t = (fdTable a t).bind (fdTable b) := by
  induction a generalizing t with
  | nil => rfl
  | cons ev a ih =>
    simp only [List.cons_append, fdTable]
    split
    · split
      · rfl
      · exact ih _
    · split
      · rfl
      · exact ih _
    · split
      · exact ih _
      · rfl
    · exact ih _

/-- the event neither opens nor closes a descriptor -/
def FdNeutral (ev : Ev) : Prop := ∀ rest t, fdTable (ev :: rest) t = fdTable rest t

theorem fdTable_neutral (a : List Ev) (h : ∀ ev ∈ a, FdNeutral ev) (b : List Ev) (t : List Int) :
    fdTable (a ++ b) t = fdTable b t := by
  induction a with
  | nil => rfl
  | cons ev a ih =>
    rw [List.cons_append, h ev (by simp)]
    exact ih (fun ev' h' => h ev' (by simp [h']))

theorem fdTable_neutral' (a : List Ev) (h : ∀ ev ∈ a, FdNeutral ev) (t : List Int) :
    fdTable a t = some t := by
  have := fdTable_neutral a h [] t
  simpa [fdTable] using this

theorem fdNeutral_other (c : Issued) (r : Res)
    (h : c.sys ≠ .socket ∧ c.sys ≠ .accept ∧ c.sys ≠ .close) : FdNeutral ⟨c, r⟩ := by
  intro rest t
  cases c <;> simp [Issued.sys] at h <;> simp [fdTable]

/-- a failed `socket()` / `accept()` opens nothing -/
theorem fdNeutral_failed (c : Issued) (r : Res) (hc : c.sys ≠ .close) (h : r.failed = true) : FdNeutral ⟨c, r⟩ := by
  intro rest t
  cases hr : r.ret with
  | ok v => simp [Res.failed, hr] at h
  | err x => cases c <;> simp [Issued.sys] at hc <;> simp [fdTable, hr]

/-- the descriptor number an event hands out: a successful `socket()` or `accept()` -/
def Ev.obtains (ev : Ev) : Option Int :=
  match ev.call, ev.res.ret with
  | .socket .., .ok v => some (Int.ofNat v)
  | .accept _, .ok v => some (Int.ofNat v)
  | _, _ => none

theorem fdTable_obtain (ev : Ev) (v : Int) (h : ev.obtains = some v) (rest : List Ev) (t : List Int) (hv : v ∉ t) :
    fdTable (ev :: rest) t = fdTable rest (v :: t) := by
  obtain ⟨c, r⟩ := ev
  unfold Ev.obtains at h
  cases hr : r.ret with
  | err x => cases c <;> simp [hr] at h
  | ok n =>
    cases c <;> simp [hr] at h <;> (subst h; simp [fdTable, hr, hv])

theorem fdTable_close (fd : Int) (rc : Res) (rest : List Ev) (t : List Int) (h : fd ∈ t) :
    fdTable (⟨.close fd, rc⟩ :: rest) t = fdTable rest (t.erase fd) := by
  simp [fdTable, h]

end PV.Socket

namespace PV.Socket
open PV.Generated.Socket

/-! ## the kernel contract of `fd_closed_once`, as predicates on the trace -/

/-- **kernel contract (fresh numbers)**: starting from the table `T`, whenever `socket()` / `accept()`
    hands out a number and the table just before that call is defined, the number is not in it
    (the kernel never returns a descriptor number that is still open) -/
def FreshFrom (T : List Int) (tr : List Ev) : Prop :=
  ∀ pre ev post v T1, tr = pre ++ ev :: post → ev.obtains = some v → fdTable pre T = some T1 → v ∉ T1

/-- **kernel contract (close works)**: every `close()` of the trace returns 0 -/
def ClosesSucceed (tr : List Ev) : Prop := ∀ ev ∈ tr, ev.call.sys = .close → ev.res.ret = .ok 0

theorem FreshFrom.left {T : List Int} {a b : List Ev} (h : FreshFrom T (a ++ b)) : FreshFrom T a := by
  intro pre ev post v T1 ha hv ht
  exact h pre ev (post ++ b) v T1 (by rw [ha]; simp) hv ht

theorem FreshFrom.right {T T' : List Int} {a b : List Ev} (h : FreshFrom T (a ++ b)) (ha : fdTable a T = some T') :
    FreshFrom T' b := by
  intro pre ev post v T1 hb hv ht
  refine h (a ++ pre) ev post v T1 (by rw [hb]; simp) hv ?_
  rw [fdTable_append, ha]; exact ht

theorem FreshFrom.head {T : List Int} {ev : Ev} {rest : List Ev} {v : Int} (h : FreshFrom T (ev :: rest))
    (hv : ev.obtains = some v) : v ∉ T :=
  h [] ev rest v T rfl hv rfl

theorem ClosesSucceed.left {a b : List Ev} (h : ClosesSucceed (a ++ b)) : ClosesSucceed a :=
  fun ev hev => h ev (by simp [hev])
theorem ClosesSucceed.right {a b : List Ev} (h : ClosesSucceed (a ++ b)) : ClosesSucceed b :=
  fun ev hev => h ev (by simp [hev])

/-! ## which library code is neutral for the descriptor table -/

theorem setFdBlocking_fdn (fd' : Int) (b : Bool) : TrAll FdNeutral (setFdBlocking fd' b) := by
  unfold setFdBlocking
  tr_all (exact fdNeutral_other _ _ (by simp [Issued.sys]))
theorem setDetails_fdn (s : Sock) : TrAll FdNeutral (setDetailsFromFd s) := by
  unfold setDetailsFromFd
  tr_all (exact fdNeutral_other _ _ (by simp [Issued.sys]))
theorem cloexecBlock_fdn (p : Bool) (a b c d e : Int) : TrAll FdNeutral (fdCloexecBlock p a b c d e) := by
  unfold fdCloexecBlock
  tr_all (exact fdNeutral_other _ _ (by simp [Issued.sys]))
theorem newFromFd_fdn (fd' : Int) : TrAll FdNeutral (newFromFd fd') := by
  unfold newFromFd
  tr_all (exact fdNeutral_other _ _ (by simp [Issued.sys]))
  all_goals first | exact setDetails_fdn _ | exact setFdBlocking_fdn _ _
theorem checkConnectResult_fdn (s : Sock) : TrAll FdNeutral (checkConnectResult s) := by
  unfold checkConnectResult
  tr_all (exact fdNeutral_other _ _ (by simp [Issued.sys]))
theorem ioWait_fdn (s : Sock) (cond : Int) : TrAll FdNeutral (ioWait s cond) := by
  unfold ioWait
  tr_all (exact fdNeutral_other _ _ (by simp [Issued.sys]))
  apply TrAll.liftLoop
  intro sc e ev hev
  have h := pollLoop_calls _ _ _ ev hev
  obtain ⟨c, r⟩ := ev
  simp only at h; subst h
  exact fdNeutral_other _ _ (by simp [pollCall, Issued.sys])

/-- a data loop whose data call is not `socket` / `accept` / `close` is neutral -/
theorem loop_fdn (s : Sock) (cond : Int) (call : Issued) (msg : String)
    (hc : call.sys ≠ .socket ∧ call.sys ≠ .accept ∧ call.sys ≠ .close) :
    TrAll FdNeutral (runLoop (loopCfg s cond call msg)) := by
  unfold runLoop
  apply TrAll.liftLoop
  intro sc e ev hev
  obtain ⟨c, r⟩ := ev
  rcases ioLoop_calls _ _ _ _ _ hev with h | h <;> (simp only [loopCfg] at h; subst h)
  · exact fdNeutral_other _ _ (by simp [pollCall, Issued.sys])
  · exact fdNeutral_other _ _ hc

theorem dataStep_again_failed (c : LoopCfg) (r : Res) (e' : Int) (h : dataStep c r = .again e') : r.failed = true := by
  unfold dataStep at h
  cases hr : r.ret with
  | ok v => simp [hr] at h
  | err x => simp [Res.failed, hr]
theorem dataStep_fail_failed (c : LoopCfg) (r : Res) (pe : PErr) (e' : Int) (h : dataStep c r = .fail pe e') : r.failed = true := by
  unfold dataStep at h
  cases hr : r.ret with
  | ok v => simp [hr] at h
  | err x => simp [Res.failed, hr]

/-- in a loop that did not end with a successful data call, every data call made had failed -/
theorem ioLoop_notdone_failed (c : LoopCfg) : ∀ (ph : Phase) (s : List Res) (e : Int),
    (∀ r, (ioLoop c ph s e).fin ≠ .done r) →
    ∀ ev ∈ (ioLoop c ph s e).evs, ev.call = c.poll ∨ (ev.call = c.call ∧ ev.res.failed = true) := by
  intro ph s
  induction s generalizing ph with
  | nil => intro e _ ev h; cases ph <;> simp [ioLoop] at h
  | cons r s ih =>
    intro e hnd ev h
    cases ph with
    | wait =>
      rw [ioLoop_wait_cons] at h hnd
      split at h
      · simp at h
      · rename_i hsys
        simp only [hsys, if_false] at hnd
        cases hp : pollStep r e with
        | again e' =>
          simp only [hp, LoopR.cons, List.mem_cons] at h hnd
          rcases h with h | h
          · simp [h]
          · exact ih _ _ hnd _ h
        | ready =>
          simp only [hp, LoopR.cons, List.mem_cons] at h hnd
          rcases h with h | h
          · simp [h]
          · exact ih _ _ hnd _ h
        | fail pe e' => simp [hp] at h; simp [h]
    | data =>
      rw [ioLoop_data_cons] at h hnd
      split at h
      · simp at h
      · rename_i hsys
        simp only [hsys, if_false] at hnd
        cases hd : dataStep c r with
        | done => simp [hd] at hnd
        | again e' =>
          simp only [hd, LoopR.cons, List.mem_cons] at h hnd
          rcases h with h | h
          · right; simp [h, dataStep_again_failed c r e' hd]
          · exact ih _ _ hnd _ h
        | fail pe e' =>
          simp [hd] at h
          right; simp [h, dataStep_fail_failed c r pe e' hd]

end PV.Socket

namespace PV.Socket
open PV.Generated.Socket

/-! ## effect of each API call on the descriptor table -/

/-- **`p_socket_new`**: success adds exactly the new object's descriptor (a fresh number, object open);
    on every failure path the table is unchanged — including the path where `pp_socket_set_fd_blocking`
    fails after `socket()` succeeded: `p_socket_free` closes that descriptor -/
theorem new_fdTable {f t p : Int} {st st' : St} {so : Option Sock} {err : Option PErr} {evs : List Ev}
    (h : new f t p st = .ok (so, err) st' evs) (T : List Int) (hfr : FreshFrom T evs) :
    match so with
    | some s => s.closed = false ∧ s.fd ∉ T ∧ fdTable evs T = some (s.fd :: T)
    | none => fdTable evs T = some T := by
  rcases new_ok h with ⟨rfl, rfl⟩ | ⟨nt, r, rfl, hr, rfl⟩ |
      ⟨nt, r, v, st1, st2, st3, evsB, evsF, x, hr, _, hB, hF, h1⟩
  · rfl
  · exact fdTable_neutral' _ (by intro ev hev; simp at hev; subst hev; exact fdNeutral_failed _ _ (by simp [Issued.sys]) hr) T
  · have hob : (⟨.socket f nt p, r⟩ : Ev).obtains = some (Int.ofNat v) := by simp [Ev.obtains, hr]
    have hnB := TrAll.elim (cloexecBlock_fdn _ _ _ _ _ _) hB
    have hnF := TrAll.elim (setFdBlocking_fdn _ _) hF
    rcases h1 with ⟨s, rfl, hfd, hcl, rfl⟩ | ⟨rfl, rc, rfl⟩
    · have hv := hfr.head hob
      refine ⟨hcl, hfd ▸ hv, ?_⟩
      rw [fdTable_obtain _ _ hob _ _ hv, hfd]
      exact fdTable_neutral' _ (by intro ev hev; rcases List.mem_append.1 hev with h | h; exact hnB _ h; exact hnF _ h) _
    · have hv := hfr.head hob
      show fdTable _ T = some T
      rw [fdTable_obtain _ _ hob _ _ hv, List.append_assoc, fdTable_neutral _ hnB, fdTable_neutral _ hnF,
        fdTable_close _ _ _ _ (by simp)]
      simp [fdTable]

/-- **`p_socket_accept`** on an open socket: success adds exactly the new object's descriptor; failure leaves
    the table unchanged — including the path where `p_socket_new_from_fd` fails on the accepted descriptor:
    `p_socket_accept` closes it itself -/
theorem accept_fdTable {s : Sock} (hc : s.closed = false) {st st' : St} {o : Outcome} {evs : List Ev}
    (h : accept s st = .ok o st' evs) (T : List Int) (hfr : FreshFrom T evs) :
    match o.sock with
    | some ns => ns.closed = false ∧ ns.fd ∉ T ∧ fdTable evs T = some (ns.fd :: T)
    | none => fdTable evs T = some T := by
  have hpc : (acceptCfg s).poll ≠ (acceptCfg s).call := by simp [acceptCfg, loopCfg, pollCall]
  have hpoll : ∀ r, FdNeutral ⟨(acceptCfg s).poll, r⟩ := fun r =>
    fdNeutral_other _ _ (by simp [acceptCfg, loopCfg, pollCall, Issued.sys])
  have hfail : ∀ r, r.failed = true → FdNeutral ⟨(acceptCfg s).call, r⟩ := fun r hr =>
    fdNeutral_failed _ _ (by simp [acceptCfg, loopCfg, Issued.sys]) hr
  rcases accept_ok hc h with ⟨pe, hf, rfl, ho⟩ | ⟨r, st1, st2, st3, evsB, evsN, so, er, hf, hB, hN, h1⟩
  · rw [ho]
    apply fdTable_neutral'
    intro ev hev
    obtain ⟨c, x⟩ := ev
    rcases ioLoop_notdone_failed _ _ _ _ (by intro r; rw [hf]; simp) _ hev with h | ⟨h, hx⟩ <;>
      (simp only at h; subst h)
    · exact hpoll _
    · exact hfail _ hx
  · obtain ⟨pre, hevs, hpre, hrf, _, _⟩ := ioLoop_done _ hpc _ _ _ _ hf
    have hnpre : ∀ ev ∈ pre, FdNeutral ev := by
      intro ev hev
      obtain ⟨c, x⟩ := ev
      rcases ioLoop_calls _ _ _ _ ⟨c, x⟩ (by rw [hevs]; simp [hev]) with h | h
      · simp only at h; subst h; exact hpoll _
      · have := hpre _ hev h
        simp only at h; subst h; exact hfail _ this
    have hnB := TrAll.elim (cloexecBlock_fdn _ _ _ _ _ _) hB
    have hnN := TrAll.elim (newFromFd_fdn _) hN
    cases hret : r.ret with
    | err x => simp [Res.failed, hret] at hrf
    | ok v =>
      have hrv : retVal r = Int.ofNat v := by simp [retVal, hret]
      have hob : (⟨(acceptCfg s).call, r⟩ : Ev).obtains = some (Int.ofNat v) := by
        simp [Ev.obtains, acceptCfg, loopCfg, hret]
      rcases h1 with ⟨n, rfl, ho, rfl⟩ | ⟨rfl, ho, rc, rfl⟩
      · rw [ho]
        have hn := (RetAll.elim (newFromFd_ret _) hN) n rfl
        rw [hevs, List.append_assoc] at hfr ⊢
        have hv : Int.ofNat v ∉ T :=
          hfr pre _ (evsB ++ evsN) _ T rfl hob (fdTable_neutral' _ hnpre T)
        simp only
        rw [hn.1, hrv]
        refine ⟨hn.2, hv, ?_⟩
        rw [fdTable_neutral _ hnpre, List.singleton_append, fdTable_obtain _ _ hob _ _ hv]
        exact fdTable_neutral' _ (by intro ev hev; rcases List.mem_append.1 hev with h | h; exact hnB _ h; exact hnN _ h) _
      · rw [ho]
        rw [hevs, List.append_assoc] at hfr ⊢
        have hv : Int.ofNat v ∉ T :=
          hfr pre _ (evsB ++ (evsN ++ [⟨.close (retVal r), rc⟩])) _ T rfl hob (fdTable_neutral' _ hnpre T)
        show fdTable _ T = some T
        rw [fdTable_neutral _ hnpre, List.singleton_append, fdTable_obtain _ _ hob _ _ hv,
          fdTable_neutral _ hnB, fdTable_neutral _ hnN, hrv, fdTable_close _ _ _ _ (by simp)]
        simp [fdTable]

end PV.Socket

namespace PV.Socket
open PV.Generated.Socket

/-! ## the calls other than `accept` and `close`: table untouched, `fd` and `closed` of the object kept -/

theorem RetAll.bind_liftLoop {β} {Q : β → Prop} (l : List Res → Int → LoopR) {k : Except PErr Res → M β}
    (hk : ∀ a, RetAll Q (k a)) : RetAll Q (liftLoop l >>= k) := RetAll.bind' hk
theorem RetAll.bind_runLoop {β} {Q : β → Prop} (c : LoopCfg) {k : Except PErr Res → M β}
    (hk : ∀ a, RetAll Q (k a)) : RetAll Q (runLoop c >>= k) := RetAll.bind' hk
theorem RetAll.bind_ioWait {β} {Q : β → Prop} (s : Sock) (cond : Int) {k : Option PErr → M β}
    (hk : ∀ a, RetAll Q (k a)) : RetAll Q (ioWait s cond >>= k) := RetAll.bind' hk

/-- `ret_all`, also passing over the retry loops -/
macro "ret_all_l" "(" t:tactic ")" : tactic => `(tactic|
  repeat' (first
    | with_reducible apply RetAll.stopWith
    | ((with_reducible apply RetAll.pure); $t; done)
    | with_reducible apply RetAll.bind_sys
    | with_reducible apply RetAll.bind_errnoErr
    | with_reducible apply RetAll.bind_getErrno
    | with_reducible apply RetAll.bind_liftLoop
    | with_reducible apply RetAll.bind_runLoop
    | with_reducible apply RetAll.bind_ioWait
    | split
    | intro _
    | dsimp only))

/-- what the calls keep: the object's descriptor and `closed` flag; and they create no socket object -/
@[reducible] def Keeps (s : Sock) (p : Sock × Outcome) : Prop := p.1.fd = s.fd ∧ p.1.closed = s.closed ∧ p.2.sock = none

theorem checkConnectResult_keeps (s : Sock) : RetAll (Keeps s) (checkConnectResult s) := by
  unfold checkConnectResult
  ret_all_l (exact ⟨rfl, rfl, rfl⟩)

theorem connect_keeps (s : Sock) (a : Addr) : RetAll (Keeps s) (connect s a) := by
  unfold connect
  ret_all_l (exact ⟨rfl, rfl, rfl⟩)
  apply RetAll.bind (checkConnectResult_keeps s)
  intro x hx
  ret_all_l (first | exact ⟨hx.1, hx.2.1, rfl⟩ | exact hx)

theorem listen_keeps (s : Sock) : RetAll (Keeps s) (listen s) := by
  unfold listen
  ret_all_l (exact ⟨rfl, rfl, rfl⟩)
theorem shutdown_keeps (s : Sock) (rd wr : Bool) : RetAll (Keeps s) (shutdown s rd wr) := by
  unfold shutdown
  ret_all_l (first | exact ⟨rfl, rfl, rfl⟩ | (refine ⟨?_, ?_, rfl⟩ <;> split <;> rfl))

theorem bind_nosock (s : Sock) (a : Addr) (r : Bool) : RetAll (fun o => o.sock = none) (bind s a r) := by
  unfold bind
  ret_all_l (exact rfl)
theorem receive_nosock (s : Sock) (bn : Bool) (n : Nat) : RetAll (fun o => o.sock = none) (receive s bn n) := by
  unfold receive
  ret_all_l (exact rfl)
theorem receiveFrom_nosock (s : Sock) (w bn : Bool) (n : Nat) : RetAll (fun o => o.sock = none) (receiveFrom s w bn n) := by
  unfold receiveFrom
  ret_all_l (exact rfl)
theorem send_nosock (s : Sock) (b : Option Bytes) (n : Nat) : RetAll (fun o => o.sock = none) (send s b n) := by
  unfold send
  ret_all_l (exact rfl)
theorem sendTo_nosock (s : Sock) (a : Addr) (b : Option Bytes) (n : Nat) : RetAll (fun o => o.sock = none) (sendTo s a b n) := by
  unfold sendTo
  ret_all_l (exact rfl)
theorem setBufferSize_nosock (s : Sock) (d : Int) (n : Nat) : RetAll (fun o => o.sock = none) (setBufferSize s d n) := by
  unfold setBufferSize
  ret_all_l (exact rfl)
theorem getAddress_nosock (s : Sock) (b : Bool) : RetAll (fun o => o.sock = none) (getAddress s b) := by
  unfold getAddress
  ret_all_l (exact rfl)
theorem setKeepalive_keeps (s : Sock) (k : Bool) :
    RetAll (fun s' => s'.fd = s.fd ∧ s'.closed = s.closed) (setKeepalive s k) := by
  unfold setKeepalive
  ret_all_l (exact ⟨rfl, rfl⟩)

/-- every call except `accept` and `close` keeps the object's `fd` and `closed`, and creates no object -/
theorem callM_keeps (s : Sock) (c : Call) (h1 : c ≠ .accept) (h2 : c ≠ .close) : RetAll (Keeps s) (callM s c) := by
  cases c <;> simp only [callM]
  case accept => exact absurd rfl h1
  case close => exact absurd rfl h2
  case connect a => exact connect_keeps s a
  case listen => exact listen_keeps s
  case shutdown r w => exact shutdown_keeps s r w
  case checkConnectResult => exact checkConnectResult_keeps s
  case bind a r => exact RetAll.bind (bind_nosock s a r) (fun o ho => RetAll.pure ⟨rfl, rfl, ho⟩)
  case receive bn n => exact RetAll.bind (receive_nosock s bn n) (fun o ho => RetAll.pure ⟨rfl, rfl, ho⟩)
  case receiveFrom w bn n => exact RetAll.bind (receiveFrom_nosock s w bn n) (fun o ho => RetAll.pure ⟨rfl, rfl, ho⟩)
  case send b n => exact RetAll.bind (send_nosock s b n) (fun o ho => RetAll.pure ⟨rfl, rfl, ho⟩)
  case sendTo a b n => exact RetAll.bind (sendTo_nosock s a b n) (fun o ho => RetAll.pure ⟨rfl, rfl, ho⟩)
  case setBufferSize d n => exact RetAll.bind (setBufferSize_nosock s d n) (fun o ho => RetAll.pure ⟨rfl, rfl, ho⟩)
  case getLocal => exact RetAll.bind (getAddress_nosock s false) (fun o ho => RetAll.pure ⟨rfl, rfl, ho⟩)
  case getRemote => exact RetAll.bind (getAddress_nosock s true) (fun o ho => RetAll.pure ⟨rfl, rfl, ho⟩)
  case setKeepalive k => exact RetAll.bind (setKeepalive_keeps s k) (fun o ho => RetAll.pure ⟨ho.1, ho.2, rfl⟩)
  case ioWait cnd => ret_all_l (exact ⟨rfl, rfl, rfl⟩)
  case setBlocking b => exact RetAll.pure ⟨rfl, rfl, rfl⟩
  case setBacklog n => exact RetAll.pure ⟨by unfold setListenBacklog; split <;> rfl, by unfold setListenBacklog; split <;> rfl, rfl⟩
  case setTimeout n => exact RetAll.pure ⟨rfl, rfl, rfl⟩

/-- every call except `accept` and `close` issues no `socket()`, no successful `accept()`, no `close()` -/
theorem callM_fdn (s : Sock) (c : Call) (h1 : c ≠ .accept) (h2 : c ≠ .close) : TrAll FdNeutral (callM s c) := by
  cases c <;> simp only [callM]
  case accept => exact absurd rfl h1
  case close => exact absurd rfl h2
  case bind a r => unfold bind; tr_all (exact fdNeutral_other _ _ (by simp [Issued.sys]))
  case listen => unfold listen; tr_all (exact fdNeutral_other _ _ (by simp [Issued.sys]))
  case shutdown => unfold shutdown; tr_all (exact fdNeutral_other _ _ (by simp [Issued.sys]))
  case setBufferSize => unfold setBufferSize; tr_all (exact fdNeutral_other _ _ (by simp [Issued.sys]))
  case setKeepalive => unfold setKeepalive; tr_all (exact fdNeutral_other _ _ (by simp [Issued.sys]))
  case setBlocking => tr_all (exact fdNeutral_other _ _ (by simp [Issued.sys]))
  case setBacklog => tr_all (exact fdNeutral_other _ _ (by simp [Issued.sys]))
  case setTimeout => tr_all (exact fdNeutral_other _ _ (by simp [Issued.sys]))
  case getLocal => unfold getAddress; tr_all (first | exact fdNeutral_other _ _ (by simp [Issued.sys]) | exact fdNeutral_other _ _ (by split <;> simp [Issued.sys]))
  case getRemote => unfold getAddress; tr_all (first | exact fdNeutral_other _ _ (by simp [Issued.sys]) | exact fdNeutral_other _ _ (by split <;> simp [Issued.sys]))
  case checkConnectResult => exact checkConnectResult_fdn _
  case ioWait cnd => tr_all (exact fdNeutral_other _ _ (by simp [Issued.sys])); exact ioWait_fdn _ _
  case receive bn n =>
    unfold receive; tr_all (exact fdNeutral_other _ _ (by simp [Issued.sys]))
    exact loop_fdn _ _ _ _ (by simp [recvCall, Issued.sys])
  case receiveFrom w bn n =>
    unfold receiveFrom; tr_all (exact fdNeutral_other _ _ (by simp [Issued.sys]))
    exact loop_fdn _ _ _ _ (by simp [recvfromCall, Issued.sys])
  case send b n =>
    unfold send; tr_all (exact fdNeutral_other _ _ (by simp [Issued.sys]))
    exact loop_fdn _ _ _ _ (by simp [sendCall, Issued.sys])
  case sendTo a b n =>
    unfold sendTo; tr_all (exact fdNeutral_other _ _ (by simp [Issued.sys]))
    exact loop_fdn _ _ _ _ (by simp [sendtoCall, Issued.sys])
  case connect a =>
    unfold connect; tr_all (exact fdNeutral_other _ _ (by simp [Issued.sys]))
    all_goals first
      | exact ioWait_fdn _ _
      | exact checkConnectResult_fdn _
      | (apply TrAll.liftLoop
         intro sc e ev hev
         have h := connLoop_calls _ _ _ ev hev
         obtain ⟨c, r⟩ := ev
         simp only at h; subst h
         exact fdNeutral_other _ _ (by simp [Issued.sys]))

end PV.Socket

namespace PV.Socket
open PV.Generated.Socket

/-! ## worlds of socket objects -/

/-- the descriptor an object holds (none once it is marked closed) -/
def openFdOf (s : Sock) : List Int := if s.closed then [] else [s.fd]

/-- the descriptors held by the live, not-closed objects of a world -/
def World.openFds (w : World) : List Int := w.flatMap (fun p => openFdOf p.2)

def World.keys (w : World) : List Nat := w.map (·.1)

theorem World.openFds_cons (k : Nat) (s : Sock) (w : World) :
    World.openFds ((k, s) :: w) = openFdOf s ++ World.openFds w := by
  simp [World.openFds]

theorem World.openFds_set (w : World) (slot : Nat) (s : Sock) :
    (w.set slot s).openFds = openFdOf s ++ (w.del slot).openFds := World.openFds_cons _ _ _

theorem World.del_of_get_none {w : World} {slot : Nat} (h : w.get slot = none) : w.del slot = w := by
  unfold World.get at h
  unfold World.del
  rw [List.filter_eq_self]
  intro a ha
  simp only [Option.map_eq_none_iff, List.find?_eq_none] at h
  simpa using h a ha

theorem World.get_del_self (w : World) (slot : Nat) : (w.del slot).get slot = none := by
  unfold World.get World.del
  simp only [Option.map_eq_none_iff, List.find?_eq_none]
  intro a ha
  simpa using (List.mem_filter.1 ha).2

theorem World.get_del_of_none {w : World} {a b : Nat} (h : w.get a = none) : (w.del b).get a = none := by
  unfold World.get at h ⊢
  unfold World.del
  simp only [Option.map_eq_none_iff, List.find?_eq_none] at h ⊢
  intro x hx
  exact h x (List.mem_filter.1 hx).1

theorem World.get_set_ne {w : World} {a b : Nat} (s : Sock) (hab : a ≠ b) (h : w.get a = none) :
    (w.set b s).get a = none := by
  have h2 := World.get_del_of_none (b := b) h
  unfold World.set World.get at *
  simp only [Option.map_eq_none_iff] at h2 ⊢
  rw [List.find?_cons]
  have : decide ((b, s).1 = a) = false := by simpa using fun h => hab h.symm
  rw [this]
  exact h2

theorem World.keys_del_nodup {w : World} (slot : Nat) (h : w.keys.Nodup) : (w.del slot).keys.Nodup := by
  unfold World.keys World.del
  exact List.Nodup.sublist (List.Sublist.map _ (List.filter_sublist)) h

theorem World.not_mem_keys_del (w : World) (slot : Nat) : slot ∉ (w.del slot).keys := by
  unfold World.keys World.del
  intro h
  obtain ⟨x, hx, hx1⟩ := List.mem_map.1 h
  have := (List.mem_filter.1 hx).2
  simp at this
  exact this hx1

theorem World.keys_set_nodup {w : World} (slot : Nat) (s : Sock) (h : w.keys.Nodup) : (w.set slot s).keys.Nodup := by
  unfold World.set
  show ((slot, s).1 :: (w.del slot).keys).Nodup
  exact List.nodup_cons.2 ⟨World.not_mem_keys_del w slot, World.keys_del_nodup slot h⟩

/-- with distinct keys, a world is its entry at `slot` plus the rest -/
theorem World.perm_of_get {w : World} (hk : w.keys.Nodup) {slot : Nat} {s : Sock} (h : w.get slot = some s) :
    List.Perm w ((slot, s) :: w.del slot) := by
  induction w with
  | nil => simp [World.get] at h
  | cons x w ih =>
    obtain ⟨k, y⟩ := x
    have hk' : (k :: World.keys w).Nodup := hk
    obtain ⟨hkn, hkw⟩ := List.nodup_cons.1 hk'
    by_cases hks : k = slot
    · subst hks
      have hy : y = s := by simpa [World.get] using h
      subst hy
      have hdel : World.del ((k, y) :: w) k = w := by
        unfold World.del
        rw [List.filter_cons]
        simp only [ne_eq, not_true_eq_false, decide_false, Bool.false_eq_true, if_false]
        rw [List.filter_eq_self]
        intro a ha
        have : a.1 ≠ k := fun h => hkn (h ▸ List.mem_map.2 ⟨a, ha, rfl⟩)
        simpa using this
      rw [hdel]
    · have hget : World.get w slot = some s := by
        unfold World.get at h ⊢
        rw [List.find?_cons] at h
        have : decide ((k, y).1 = slot) = false := by simpa using hks
        rw [this] at h
        exact h
      have hdel : World.del ((k, y) :: w) slot = (k, y) :: World.del w slot := by
        unfold World.del
        rw [List.filter_cons]
        have : decide ((k, y).1 ≠ slot) = true := by simpa using hks
        rw [this]; rfl
      rw [hdel]
      exact ((ih hkw hget).cons (k, y)).trans (List.Perm.swap _ _ _)

theorem World.openFds_of_get {w : World} (hk : w.keys.Nodup) {slot : Nat} {s : Sock} (h : w.get slot = some s) :
    List.Perm w.openFds (openFdOf s ++ (w.del slot).openFds) := by
  have := (World.perm_of_get hk h).flatMap_right (fun p => openFdOf p.2)
  rw [← World.openFds_cons slot s]
  exact this

end PV.Socket

namespace PV.Socket
open PV.Generated.Socket

/-! ## the invariant of `fd_closed_once` -/

/-- the kernel's table `T` is, up to order, the list of descriptors held by the live not-closed objects,
    without repetition; slots are distinct -/
structure FdInv (w : World) (T : List Int) : Prop where
  keys : w.keys.Nodup
  perm : List.Perm T w.openFds
  nodup : T.Nodup

theorem openFdOf_open {s : Sock} (h : s.closed = false) : openFdOf s = [s.fd] := by simp [openFdOf, h]
theorem openFdOf_closed {s : Sock} (h : s.closed = true) : openFdOf s = [] := by simp [openFdOf, h]
theorem openFdOf_congr {s s' : Sock} (h1 : s'.fd = s.fd) (h2 : s'.closed = s.closed) : openFdOf s' = openFdOf s := by
  simp [openFdOf, h1, h2]

theorem FdInv.empty : FdInv [] [] := ⟨List.nodup_nil, List.Perm.refl _, List.nodup_nil⟩

theorem FdInv.add {w : World} {T : List Int} (h : FdInv w T) {slot : Nat} {s : Sock} (hg : w.get slot = none)
    (hc : s.closed = false) (hn : s.fd ∉ T) : FdInv (w.set slot s) (s.fd :: T) := by
  refine ⟨World.keys_set_nodup _ _ h.keys, ?_, List.nodup_cons.2 ⟨hn, h.nodup⟩⟩
  rw [World.openFds_set, World.del_of_get_none hg, openFdOf_open hc]
  exact h.perm.cons _

theorem FdInv.replace {w : World} {T : List Int} (h : FdInv w T) {slot : Nat} {s s' : Sock} (hg : w.get slot = some s)
    (h1 : s'.fd = s.fd) (h2 : s'.closed = s.closed) : FdInv (w.set slot s') T := by
  refine ⟨World.keys_set_nodup _ _ h.keys, ?_, h.nodup⟩
  rw [World.openFds_set, openFdOf_congr h1 h2]
  exact h.perm.trans (World.openFds_of_get h.keys hg)

theorem FdInv.mem {w : World} {T : List Int} (h : FdInv w T) {slot : Nat} {s : Sock} (hg : w.get slot = some s)
    (hc : s.closed = false) : s.fd ∈ T := by
  have := h.perm.trans (World.openFds_of_get h.keys hg)
  rw [openFdOf_open hc] at this
  exact this.mem_iff.2 (by simp)

theorem FdInv.free_open {w : World} {T : List Int} (h : FdInv w T) {slot : Nat} {s : Sock} (hg : w.get slot = some s)
    (hc : s.closed = false) : FdInv (w.del slot) (T.erase s.fd) := by
  refine ⟨World.keys_del_nodup _ h.keys, ?_, h.nodup.erase _⟩
  have := (h.perm.trans (World.openFds_of_get h.keys hg)).erase s.fd
  rw [openFdOf_open hc] at this
  simpa using this

theorem FdInv.free_closed {w : World} {T : List Int} (h : FdInv w T) {slot : Nat} {s : Sock} (hg : w.get slot = some s)
    (hc : s.closed = true) : FdInv (w.del slot) T := by
  refine ⟨World.keys_del_nodup _ h.keys, ?_, h.nodup⟩
  have := h.perm.trans (World.openFds_of_get h.keys hg)
  rw [openFdOf_closed hc] at this
  simpa using this

theorem FdInv.close {w : World} {T : List Int} (h : FdInv w T) {slot : Nat} {s s' : Sock} (hg : w.get slot = some s)
    (hc : s.closed = false) (hc' : s'.closed = true) : FdInv (w.set slot s') (T.erase s.fd) := by
  have h1 := h.free_open hg hc
  refine ⟨World.keys_set_nodup _ _ h.keys, ?_, h1.nodup⟩
  rw [World.openFds_set, openFdOf_closed hc']
  exact h1.perm

end PV.Socket

namespace PV.Socket
open PV.Generated.Socket

/-! ## one world-level call -/

/-- what the caller must respect for descriptor accounting to be about the *library*:
    * a new object (`new`, the result of `accept`) is stored in an empty slot — overwriting a live pointer
      would leak that object, which is the caller's leak, not the library's;
    * `p_socket_new_from_fd` on a caller-supplied descriptor is excluded: it transfers ownership of a
      descriptor that was not obtained by the library. -/
def WCall.Disciplined (w : World) : WCall → Prop
  | .new slot _ _ _ => w.get slot = none
  | .newFromFd _ _ => False
  | .on slot c newSlot => c = .accept → (w.get newSlot = none ∧ newSlot ≠ slot)
  | .free _ => True
  | .initOnce => True

theorem runM_ok_iff {α} {m : M α} {script : Script} {e : Int} {x : α × St × List Ev}
    (h : runM m script e = .ok x) : m { script := script, errno := e } = .ok x.1 x.2.1 x.2.2 := by
  obtain ⟨a, st, evs⟩ := x
  exact runM_ok h

theorem callM_close_ok {s s' : Sock} {o : Outcome} {st st' : St} {evs : List Ev}
    (h : callM s .close st = .ok (s', o) st' evs) : ∃ e b, close s st = .ok (s', e, b) st' evs := by
  simp only [callM] at h
  obtain ⟨⟨s1, e, b⟩, st1, evs1, evs2, h1, h2, rfl⟩ := M.bind_ok h
  obtain ⟨h3, rfl, rfl⟩ := M.pure_ok h2
  injection h3 with h3 h4
  subst h3
  exact ⟨e, b, by simpa using h1⟩

theorem initOnce_fdn : TrAll FdNeutral initOnce := by
  unfold initOnce
  tr_all (exact fdNeutral_other _ _ (by simp [Issued.sys]))

/-- **one API call** (any of them, on any script): given the invariant for the table `T` before the call and the
    kernel contract on the call's trace, the table after the call is defined — no stray close, no double
    close — and the invariant holds again -/
theorem wstep_fdTable {w : World} {c : WCall} {script : Script} {e : Int} {r : WResult}
    (hstep : wstep w c script e = .ok r) (hd : c.Disciplined w) {T : List Int} (hinv : FdInv w T)
    (hfr : FreshFrom T r.tr) (hcl : ClosesSucceed r.tr) :
    ∃ T', fdTable r.tr T = some T' ∧ FdInv r.world T' := by
  cases c with
  | newFromFd slot fd => exact absurd hd (by simp [WCall.Disciplined])
  | new slot f t p =>
    simp only [wstep] at hstep
    cases hrun : runM (new f t p) script e with
    | error x => simp [hrun] at hstep
    | ok a =>
      obtain ⟨⟨so, er⟩, st, evs⟩ := a
      simp only [hrun] at hstep
      injection hstep with hstep; subst hstep
      have h := new_fdTable (runM_ok hrun) T hfr
      cases so with
      | none => exact ⟨T, h, hinv⟩
      | some s =>
        obtain ⟨hc, hn, ht⟩ := h
        exact ⟨s.fd :: T, ht, hinv.add hd hc hn⟩
  | initOnce =>
    simp only [wstep] at hstep
    cases hrun : runM initOnce script e with
    | error x => simp [hrun] at hstep
    | ok a =>
      obtain ⟨u, st, evs⟩ := a
      simp only [hrun] at hstep
      injection hstep with hstep; subst hstep
      exact ⟨T, fdTable_neutral' _ (TrAll.elim initOnce_fdn (runM_ok hrun)) T, hinv⟩
  | free slot =>
    simp only [wstep] at hstep
    cases hg : w.get slot with
    | none =>
      simp only [hg] at hstep
      injection hstep with hstep; subst hstep
      exact ⟨T, rfl, hinv⟩
    | some s =>
      simp only [hg] at hstep
      cases hrun : runM (free s) script e with
      | error x => simp [hrun] at hstep
      | ok a =>
        obtain ⟨u, st, evs⟩ := a
        simp only [hrun] at hstep
        injection hstep with hstep; subst hstep
        rcases free_ok (runM_ok hrun) with ⟨hc, rfl⟩ | ⟨hc, rc, rfl⟩
        · exact ⟨T, rfl, hinv.free_closed hg hc⟩
        · refine ⟨T.erase s.fd, ?_, hinv.free_open hg hc⟩
          show fdTable [⟨.close s.fd, rc⟩] T = _
          rw [fdTable_close _ _ _ _ (hinv.mem hg hc)]; rfl
  | on slot c newSlot =>
    simp only [wstep] at hstep
    cases hg : w.get slot with
    | none =>
      simp only [hg] at hstep
      injection hstep with hstep; subst hstep
      exact ⟨T, rfl, hinv⟩
    | some s =>
      simp only [hg] at hstep
      cases hrun : runM (callM s c) script e with
      | error x => simp [hrun] at hstep
      | ok a =>
        obtain ⟨⟨s', o⟩, st, evs⟩ := a
        simp only [hrun] at hstep
        injection hstep with hstep; subst hstep
        have hrun := runM_ok hrun
        by_cases hacc : c = .accept
        · subst hacc
          obtain ⟨hnew, hne⟩ := hd rfl
          obtain ⟨hss, hrun⟩ := callM_accept_ok hrun
          subst hss
          cases hc : s'.closed with
          | true =>
            obtain ⟨ho, rfl⟩ := accept_closed hc hrun
            simp only [ho]
            exact ⟨T, rfl, hinv.replace hg rfl rfl⟩
          | false =>
            have h := accept_fdTable hc hrun T hfr
            cases ho : o.sock with
            | none =>
              simp only [ho] at h ⊢
              exact ⟨T, h, hinv.replace hg rfl rfl⟩
            | some ns =>
              simp only [ho] at h ⊢
              obtain ⟨hcn, hn, ht⟩ := h
              exact ⟨ns.fd :: T, ht, (hinv.replace hg rfl rfl).add (World.get_set_ne _ hne hnew) hcn hn⟩
        · by_cases hclose : c = .close
          · subst hclose
            obtain ⟨er, b, hrun'⟩ := callM_close_ok hrun
            have hos : o.sock = none := by
              simp only [callM] at hrun
              obtain ⟨⟨s1, e1, b1⟩, st1, evs1, evs2, h1, h2, rfl⟩ := M.bind_ok hrun
              obtain ⟨h3, _, _⟩ := M.pure_ok h2
              injection h3 with _ h4
              rw [h4]
            simp only [hos]
            rcases close_ok hrun' with ⟨hc, rfl, rfl⟩ | ⟨hc, rc, rfl, hrc⟩
            · exact ⟨T, rfl, hinv.replace hg rfl rfl⟩
            · have h0 : rc.ret = .ok 0 := hcl ⟨.close s.fd, rc⟩ (by simp) rfl
              rcases hrc with ⟨_, rfl⟩ | ⟨hne, _⟩
              · refine ⟨T.erase s.fd, ?_, hinv.close hg hc rfl⟩
                show fdTable [⟨.close s.fd, rc⟩] T = _
                rw [fdTable_close _ _ _ _ (hinv.mem hg hc)]; rfl
              · exact absurd h0 hne
          · obtain ⟨h1, h2, h3⟩ := RetAll.elim (callM_keeps s c hacc hclose) hrun
            simp only at h1 h2 h3
            simp only [h3]
            exact ⟨T, fdTable_neutral' _ (TrAll.elim (callM_fdn s c hacc hclose) hrun) T, hinv.replace hg h1 h2⟩

end PV.Socket

namespace PV.Socket
open PV.Generated.Socket

/-- **`p_socket_close`** on an open object whose descriptor is in the table, `close()` succeeding: exactly that
    number leaves the table, the object is marked closed with `fd = −1`; on a closed object: nothing -/
theorem close_fdTable {s s' : Sock} {e : Option PErr} {b : Bool} {st st' : St} {evs : List Ev}
    (h : close s st = .ok (s', e, b) st' evs) (hcl : ClosesSucceed evs) (T : List Int) (hm : s.closed = false → s.fd ∈ T) :
    (s.closed = true → evs = [] ∧ s' = s) ∧
    (s.closed = false → fdTable evs T = some (T.erase s.fd) ∧ s'.closed = true ∧ s'.fd = -1) := by
  rcases close_ok h with ⟨hc, rfl, rfl⟩ | ⟨hc, rc, rfl, hrc⟩
  · exact ⟨fun _ => ⟨rfl, rfl⟩, fun h => (by rw [hc] at h; cases h)⟩
  · refine ⟨fun h => (by rw [hc] at h; cases h), fun _ => ?_⟩
    have h0 : rc.ret = .ok 0 := hcl ⟨.close s.fd, rc⟩ (by simp) rfl
    rcases hrc with ⟨_, rfl⟩ | ⟨hne, _⟩
    · refine ⟨?_, rfl, rfl⟩
      rw [fdTable_close _ _ _ _ (hm hc)]; rfl
    · exact absurd h0 hne

/-- **`p_socket_free`**: an open object's descriptor leaves the table (whatever `close()` returns); a closed
    object: no native call -/
theorem free_fdTable {s : Sock} {u : Unit} {st st' : St} {evs : List Ev} (h : free s st = .ok u st' evs)
    (T : List Int) (hm : s.closed = false → s.fd ∈ T) :
    (s.closed = true → evs = []) ∧ (s.closed = false → fdTable evs T = some (T.erase s.fd)) := by
  rcases free_ok h with ⟨hc, rfl⟩ | ⟨hc, rc, rfl⟩
  · exact ⟨fun _ => rfl, fun h => (by rw [hc] at h; cases h)⟩
  · refine ⟨fun h => (by rw [hc] at h; cases h), fun _ => ?_⟩
    rw [fdTable_close _ _ _ _ (hm hc)]; rfl

/-! ## C10 `fd_closed_once` -/

/-- the states reachable from the empty world by disciplined API calls — each call on an arbitrary script and
    with an arbitrary `errno` at entry; `tr` is the concatenation of the traces of the calls made so far -/
inductive Reach : World → List Ev → Prop
  | init : Reach [] []
  | step {w : World} {tr : List Ev} {c : WCall} {script : Script} {e : Int} {r : WResult} :
      Reach w tr → c.Disciplined w → wstep w c script e = .ok r → Reach r.world (tr ++ r.tr)

/-- **fd_closed_once.**  Along any sequence of API calls (new / any call on a socket, incl. accept and close /
    free / init_once, in any order, on any scripts), under the kernel contract — descriptor numbers handed out
    by `socket()` / `accept()` are not currently open (`FreshFrom []`), `close()` returns 0 (`ClosesSucceed`) —
    the kernel's descriptor table of the whole trace is **defined**: no descriptor number is ever passed to
    `close()` without having been obtained, or twice; and the open numbers are exactly (as a multiset, without
    repetition) the `fd` fields of the live objects not marked closed. -/
theorem fd_closed_once {w : World} {tr : List Ev} (h : Reach w tr) (hfr : FreshFrom [] tr) (hcl : ClosesSucceed tr) :
    ∃ T, fdTable tr [] = some T ∧ FdInv w T := by
  induction h with
  | init => exact ⟨[], rfl, FdInv.empty⟩
  | step hreach hd hstep ih =>
    obtain ⟨T, hT, hinv⟩ := ih hfr.left hcl.left
    obtain ⟨T', hT', hinv'⟩ := wstep_fdTable hstep hd hinv (hfr.right hT) hcl.right
    exact ⟨T', by rw [fdTable_append, hT]; exact hT', hinv'⟩

/-- … hence once every object has been freed (or closed), every descriptor obtained from `socket()` /
    `accept()` has been passed to `close()` exactly once: the table is defined and empty -/
theorem fd_closed_once_balanced {w : World} {tr : List Ev} (h : Reach w tr) (hfr : FreshFrom [] tr)
    (hcl : ClosesSucceed tr) (hall : w.openFds = []) : fdTable tr [] = some [] := by
  obtain ⟨T, hT, hinv⟩ := fd_closed_once h hfr hcl
  have := hinv.perm
  rw [hall] at this
  rw [hT, List.Perm.eq_nil this]

theorem fd_closed_once_all_freed {tr : List Ev} (h : Reach [] tr) (hfr : FreshFrom [] tr) (hcl : ClosesSucceed tr) :
    fdTable tr [] = some [] :=
  fd_closed_once_balanced h hfr hcl rfl

/-- the same for a sequence run as a function, the script and `errno` threaded from call to call -/
def wrun (w : World) (tr : List Ev) : List WCall → Script → Int → Except Stop (World × List Ev)
  | [], _, _ => .ok (w, tr)
  | c :: cs, sc, e =>
    match wstep w c sc e with
    | .error x => .error x
    | .ok r => wrun r.world (tr ++ r.tr) cs r.rest r.errno

/-- every call of the sequence respects `WCall.Disciplined` in the world it is made in -/
def DisciplinedRun (w : World) : List WCall → Script → Int → Prop
  | [], _, _ => True
  | c :: cs, sc, e =>
    c.Disciplined w ∧
    match wstep w c sc e with
    | .error _ => True
    | .ok r => DisciplinedRun r.world cs r.rest r.errno

theorem reach_of_wrun {w : World} {tr : List Ev} (h : Reach w tr) : ∀ (cs : List WCall) (sc : Script) (e : Int)
    {w' : World} {tr' : List Ev}, DisciplinedRun w cs sc e → wrun w tr cs sc e = .ok (w', tr') → Reach w' tr' := by
  intro cs
  induction cs generalizing w tr with
  | nil =>
    intro sc e w' tr' _ hr
    simp only [wrun] at hr
    injection hr with hr
    injection hr with h1 h2
    subst h1; subst h2
    exact h
  | cons c cs ih =>
    intro sc e w' tr' hd hr
    simp only [wrun] at hr
    simp only [DisciplinedRun] at hd
    cases hs : wstep w c sc e with
    | error x => simp [hs] at hr
    | ok r =>
      simp only [hs] at hr hd
      exact ih (Reach.step h hd.1 hs) _ _ hd.2 hr

theorem fd_closed_once_run (cs : List WCall) (script : Script) (e : Int) (w : World) (tr : List Ev)
    (hd : DisciplinedRun [] cs script e) (hr : wrun [] [] cs script e = .ok (w, tr))
    (hfr : FreshFrom [] tr) (hcl : ClosesSucceed tr) :
    ∃ T, fdTable tr [] = some T ∧ FdInv w T :=
  fd_closed_once (reach_of_wrun Reach.init cs script e hd hr) hfr hcl

/-! ### outside the contract: `close()` fails

`p_socket_close` reports the error and keeps `fd` (the object is not marked closed); a later
`p_socket_free` calls `close (fd)` again: the same number is passed to `close()` twice.  (On Linux the first
`close()` has released the number even though it returned −1 — `fdTable` models that — so the second one is
a stray close: the table is `none`.) -/

def demoOpenSock : Sock := { family := AF_INET, protocol := 6, type := 1, fd := 5, listen_backlog := 5, blocking := true }

/-- `close()` → EINTR: `p_socket_close` returns FALSE with an error; the object still holds fd 5, not closed -/
example :
    (wstep [(0, demoOpenSock)] (.on 0 .close) [{ sys := .close, ret := .err EINTR }]).toOption.map
      (fun r1 => (r1.out.ret, r1.out.err.isSome, (r1.world.get 0).map (fun s => (s.fd, s.closed)))) =
    some (0, true, some (5, false)) := by decide

/-- … and the `p_socket_free` that follows passes 5 to `close()` a second time -/
example :
    ((wstep [(0, demoOpenSock)] (.on 0 .close) [{ sys := .close, ret := .err EINTR }]).toOption.bind fun r1 =>
      (wstep r1.world (.free 0) [{ sys := .close, ret := .ok 0 }]).toOption.map fun r2 =>
        ((r1.tr ++ r2.tr).map (fun ev => (ev.call, ev.res.ret)), (r2.world.get 0).isSome,
         fdTable (r1.tr ++ r2.tr) [5])) =
    some ([(.close 5, .err EINTR), (.close 5, .ok 0)], false, none) := by decide

/-- inside the contract, the path where `p_socket_new_from_fd` fails inside `p_socket_accept`
    (`getsockopt (SO_TYPE)` fails on the accepted descriptor 7): `accept` closes 7 itself, nothing is returned,
    the table is what it was -/
example :
    (call { demoOpenSock with listening := true } .accept
      [{ sys := .poll, ret := .ok 1 }, { sys := .accept, ret := .ok 7 }, { sys := .fcntl, ret := .ok 1 },
       { sys := .getsockopt, ret := .err EBADF }, { sys := .close, ret := .ok 0 }]).toOption.map
      (fun r => (r.out.ret, r.out.sock.isSome, r.tr.map (·.call) |>.filter (fun c => c.sys == .accept || c.sys == .close),
                 fdTable r.tr [5])) =
    some (0, false, [.accept 5, .close 7], some [5]) := by decide

/-- the path where `pp_socket_set_fd_blocking` fails inside `p_socket_new`: `p_socket_free` closes the descriptor -/
example :
    (runM (new AF_INET P_SOCKET_TYPE_STREAM P_SOCKET_PROTOCOL_TCP)
      [{ sys := .socket, ret := .ok 7 }, { sys := .fcntl, ret := .ok 1 }, { sys := .fcntl, ret := .ok 2 },
       { sys := .fcntl, ret := .err EBADF }, { sys := .close, ret := .ok 0 }] 0).toOption.map
      (fun x => (x.1.1.isSome, x.2.2.map (·.call) |>.filter (fun c => c.sys == .socket || c.sys == .close),
                 fdTable x.2.2 [])) =
    some (false, [.socket AF_INET 524289 P_SOCKET_PROTOCOL_TCP, .close 7], some []) := by decide

end PV.Socket

namespace PV.Socket
open PV.Generated.Socket

/-- non-vacuity: `new` → 7, `accept` on it → 8 (fd 8 adopted by `new_from_fd`), both freed:
    every number closed exactly once, table empty at the end -/
example :
    (wrun [] [] [.new 0 AF_INET P_SOCKET_TYPE_STREAM P_SOCKET_PROTOCOL_TCP, .on 0 .accept 1, .free 0, .free 1]
      ([{ sys := .socket, ret := .ok 7 }, { sys := .fcntl, ret := .ok 1 }, { sys := .fcntl, ret := .ok 2 }, { sys := .fcntl, ret := .ok 0 },
        { sys := .poll, ret := .ok 1 }, { sys := .accept, ret := .ok 8 }, { sys := .fcntl, ret := .ok 0 }, { sys := .fcntl, ret := .ok 0 }]
       ++ newFromFdAnswers ++ [{ sys := .close, ret := .ok 0 }, { sys := .close, ret := .ok 0 }]) 0).toOption.map
      (fun x => (x.1.length, x.2.map (·.call) |>.filter (fun c => c.sys == .socket || c.sys == .accept || c.sys == .close),
                 fdTable x.2 [])) =
    some (0, [.socket AF_INET 524289 P_SOCKET_PROTOCOL_TCP, .accept 7, .close 7, .close 8], some []) := by decide

end PV.Socket


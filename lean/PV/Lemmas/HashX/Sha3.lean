import PV.Model.HashX.Sha3
import PV.Spec.HashX
import PV.Lemmas.HashX.Stream
/-!
# SHA-3: the streaming context computes the FIPS 202 sponge

Everything is proved for an arbitrary rate `R` with `0 < R ≤ 200`, `8 ∣ R` and instantiated for the
four variants in `Props/C11x.lean`.
-/
namespace PV.HashX.Sha3
open PV.HashX PV.HashX.Keccak PV.HashX.Spec PV.Generated.HashX

/-! ## one block: `process` = `S ← f (S ⊕ (P ‖ 0^c))` -/

theorem foldl_xor_eq_mapIdx (f : Nat → UInt64) (q : Nat) (S : Array UInt64) :
    (List.range q).foldl (fun h i => h.set! i (h[i]! ^^^ f i)) S
      = S.mapIdx (fun i x => if i < q then x ^^^ f i else x) := by
  induction q with
  | zero =>
    apply Array.ext_getElem?
    intro i
    by_cases hi : i < S.size <;> simp [hi]
  | succ q ih =>
    rw [List.range_succ, List.foldl_append, ih]
    simp only [List.foldl_cons, List.foldl_nil]
    apply Array.ext_getElem?
    intro i
    simp only [Array.set!_eq_setIfInBounds, Array.getElem?_setIfInBounds, Array.getElem?_mapIdx, Array.size_mapIdx]
    by_cases hi : i < S.size
    · by_cases hq : q = i
      · subst hq
        simp [hi]
      · have : ¬ i = q := fun e => hq e.symm
        simp [hq, hi]
        by_cases h1 : i < q
        · have : i < q + 1 := by omega
          simp [h1, this]
        · have : ¬ i < q + 1 := by omega
          simp [h1, this]
    · simp [hi]
      intro h; omega

theorem lane_congr (a a' : Array UInt8) (i : Nat)
    (h : ∀ k, k < 8 → a[8 * i + k]?.getD 0 = a'[8 * i + k]?.getD 0) : lane a i = lane a' i := by
  simp only [lane]
  rw [h 0 (by omega), h 1 (by omega), h 2 (by omega), h 3 (by omega), h 4 (by omega), h 5 (by omega),
    h 6 (by omega), h 7 (by omega)]

theorem lane_zero (a : Array UInt8) (i : Nat) (h : ∀ k, k < 8 → a[8 * i + k]?.getD 0 = 0) : lane a i = 0 := by
  simp only [lane]
  rw [h 0 (by omega), h 1 (by omega), h 2 (by omega), h 3 (by omega), h 4 (by omega), h 5 (by omega),
    h 6 (by omega), h 7 (by omega)]
  decide

/-- the C loop `for (i < block_size / 8) hash[i] ^= data[i]` followed by the permutation is the
    standard's `f (S ⊕ (P ‖ 0^c))` -/
theorem process_eq_absorbBlock (R : Nat) (hR : R ≤ 200) (h8 : R % 8 = 0) (S : Lanes) (P : Bytes)
    (hP : P.length = R) : process R.toUInt32 S P = absorbBlock R S P := by
  unfold process absorbBlock
  have hq : (R.toUInt32 / 8).toNat = R / 8 := by simp [UInt32.toNat_div]; omega
  simp only [hq]
  rw [foldl_xor_eq_mapIdx]
  congr 1
  apply Array.ext_getElem?
  intro i
  simp only [Array.getElem?_mapIdx]
  by_cases hi : i < S.size
  · simp only [hi, getElem?_pos, Option.map_some, Option.some.injEq]
    by_cases hlt : i < R / 8
    · simp only [hlt, if_true]
      congr 1
      apply lane_congr
      intro k hk
      have : 8 * i + k < P.length := by omega
      simp [List.getElem?_append_left this]
    · simp only [hlt, if_false]
      rw [lane_zero, UInt64.xor_zero]
      intro k hk
      have : P.length ≤ 8 * i + k := by omega
      simp only [List.getElem?_toArray, List.getElem?_append_right this, List.getElem?_replicate]
      split <;> rfl
  · simp [hi]


/-! ## the streaming invariant -/

/-- state of the context after the bytes `m` (rate `R`) -/
structure SInv (R : Nat) (ctx : Ctx) (m : Bytes) : Prop where
  bs : ctx.blockSize = R.toUInt32
  len : ctx.len.toNat = m.length % R
  inv : Inv R (process R.toUInt32) zeroState ⟨ctx.hash, ctx.buf⟩ m

theorem new_inv {R : Nat} (hR0 : 0 < R) (hR : R ≤ 200) : SInv R (new R) [] := by
  refine ⟨rfl, by simp [new], ⟨?_, ?_, ?_⟩⟩
  · rw [blocks_short (show ([] : Bytes).length < R from hR0)]; rfl
  · rw [rest_short (show ([] : Bytes).length < R from hR0)]; rfl
  · show R ≤ (List.replicate sha3BufSize (0 : UInt8)).length
    rw [List.length_replicate]; exact hR

theorem reset_eq_new {R : Nat} {ctx : Ctx} (h : ctx.blockSize = R.toUInt32) : reset ctx = new R := by
  simp [reset, new, h]

theorem updateHead_spec {R : Nat} (hR0 : 0 < R) (hR : R ≤ 200) (ctx : Ctx) (hbs : ctx.blockSize = R.toUInt32)
    (k : Nat) (hlen : ctx.len.toNat = k % R) (n : Nat) (hn : n < 2 ^ 63) :
    ∃ r : UInt32, updateHead ctx n = (k % R, decide (k % R ≠ 0 ∧ R - k % R ≤ n), r) ∧ r.toNat = (k + n) % R := by
  have hkl : k % R < R := Nat.mod_lt _ hR0
  have hbsn : ctx.blockSize.toNat = R := by rw [hbs]; simp; omega
  have hle : ctx.len ≤ ctx.blockSize := by rw [UInt32.le_iff_toNat_le, hbsn, hlen]; omega
  refine ⟨_, Prod.ext ?_ (Prod.ext ?_ rfl), ?_⟩
  · exact hlen
  · simp only [updateHead]
    rw [Bool.eq_iff_iff]
    simp only [Bool.and_eq_true, bne_iff_ne, ne_eq, ge_iff_le, decide_eq_true_eq, UInt64.le_iff_toNat_le,
      UInt32.toNat_toUInt64, UInt32.toNat_sub_of_le _ _ hle, hbsn, hlen, ← UInt32.toNat_inj]
    have : n.toUInt64.toNat = n := by simp; omega
    rw [this]
    simp
  · simp only [updateHead]
    have : n.toUInt64.toNat = n := by simp; omega
    simp only [UInt64.toNat_toUInt32, UInt64.toNat_mod, UInt64.toNat_add, UInt32.toNat_toUInt64, this, hbsn, hlen]
    have h1 : (k % R + n) % 2 ^ 64 = k % R + n := Nat.mod_eq_of_lt (by omega)
    rw [h1, Nat.mod_add_mod]
    have : (k + n) % R < R := Nat.mod_lt _ hR0
    exact Nat.mod_eq_of_lt (by omega)

theorem update_inv {R : Nat} (hR0 : 0 < R) (hR : R ≤ 200) {ctx : Ctx} {m : Bytes} (h : SInv R ctx m)
    (data : Bytes) (hn : data.length < 2 ^ 63) : SInv R (update ctx data) (m ++ data) := by
  obtain ⟨r, hh, hr⟩ := updateHead_spec hR0 hR ctx h.bs m.length h.len data.length hn
  have hbsn : ctx.blockSize.toNat = R := by rw [h.bs]; simp; omega
  have hu : update ctx data = { ctx with
      buf := (feed R (process R.toUInt32) (m.length % R) (decide (m.length % R ≠ 0 ∧ R - m.length % R ≤ data.length))
        ⟨ctx.hash, ctx.buf⟩ data).buf,
      hash := (feed R (process R.toUInt32) (m.length % R) (decide (m.length % R ≠ 0 ∧ R - m.length % R ≤ data.length))
        ⟨ctx.hash, ctx.buf⟩ data).st,
      len := r } := by
    have hbsn' : R.toUInt32.toNat = R := by rw [← h.bs]; exact hbsn
    simp only [update, hh, h.bs, hbsn']
  have := feed_inv hR0 h.inv data (m.length % R) rfl _ rfl
  rw [hu]
  refine ⟨h.bs, ?_, this.1⟩
  simp only [hr, List.length_append]

theorem updateZeros_eq (ctx : Ctx) (n : Nat) : updateZeros ctx n = update ctx (List.replicate n 0) := by
  simp only [updateZeros, update, List.length_replicate, feedZ_eq]

/-! ## finishing -/

theorem orAt_append_right (a b : Bytes) (i : Nat) (v : UInt8) (h : a.length ≤ i) :
    orAt (a ++ b) i v = a ++ orAt b (i - a.length) v := by
  induction a generalizing i with
  | nil => simp
  | cons x a ih =>
    cases i with
    | zero => simp at h
    | succ i =>
      simp only [List.cons_append, orAt, List.length_cons, Nat.add_sub_add_right]
      rw [ih i (by simpa using h)]

/-- the bytes appended by FIPS 202 padding when `k` bytes of the last block are used -/
def padTail (R k : Nat) : Bytes :=
  if R - k = 1 then [0x86] else [0x06] ++ List.replicate (R - k - 2) 0 ++ [0x80]

theorem padTail_length {R k : Nat} (hk : k < R) : (padTail R k).length = R - k := by
  unfold padTail; split <;> simp <;> omega

theorem pad_eq (R : Nat) (m : Bytes) : pad R m = m ++ padTail R (m.length % R) := by
  unfold pad padTail
  simp only
  split <;> simp

theorem finish_buf {R k : Nat} (hk : k < R) (buf : Bytes) (hb : R ≤ buf.length) :
    (orAt (orAt (memcpyAt buf k (List.replicate (R - k) 0)) k sha3PadFirst) (R - 1) sha3PadLast).take R
      = buf.take k ++ padTail R k := by
  have hkl : (buf.take k).length = k := by simp; omega
  unfold memcpyAt
  simp only [List.length_replicate, List.append_assoc]
  rw [orAt_append_right _ _ _ _ (by omega), hkl, Nat.sub_self]
  obtain ⟨q, hq⟩ : ∃ q, R - k = q + 1 := ⟨R - k - 1, by omega⟩
  rw [hq, List.replicate_succ, List.cons_append]
  simp only [orAt]
  rw [orAt_append_right _ _ _ _ (by omega), hkl]
  have hidx : R - 1 - k = q := by omega
  rw [hidx]
  unfold padTail
  rw [hq]
  cases q with
  | zero =>
    simp only [orAt, List.replicate_zero, List.nil_append, Nat.zero_add, if_true]
    have hl : (buf.take k ++ [(0 ||| sha3PadFirst ||| sha3PadLast)]).length = R := by simp; omega
    have : buf.take k ++ (0 ||| sha3PadFirst ||| sha3PadLast) :: List.drop (k + 1) buf
        = (buf.take k ++ [(0 ||| sha3PadFirst ||| sha3PadLast)]) ++ List.drop (k + 1) buf := by simp
    rw [this, ← hl, List.take_left' rfl]
    rfl
  | succ q =>
    have h2 : q + 1 + 1 - 2 = q := by omega
    have hne : ¬ (q + 1 + 1 = 1) := by omega
    simp only [orAt, hne, if_false, h2]
    rw [List.replicate_succ', List.append_assoc, orAt_append_right _ _ _ _ (by simp), List.length_replicate,
      Nat.sub_self]
    simp only [List.singleton_append, orAt]
    have hl : (buf.take k ++ ((0 ||| sha3PadFirst) :: (List.replicate q 0 ++ [0 ||| sha3PadLast]))).length = R := by
      simp; omega
    have : buf.take k ++ (0 ||| sha3PadFirst) :: (List.replicate q 0 ++ (0 ||| sha3PadLast) :: List.drop (k + (q + 1 + 1)) buf)
        = (buf.take k ++ ((0 ||| sha3PadFirst) :: (List.replicate q 0 ++ [0 ||| sha3PadLast]))) ++ List.drop (k + (q + 1 + 1)) buf := by
      simp
    rw [this, ← hl, List.take_left' rfl]
    rfl

theorem blocks_length (B : Nat) (m : Bytes) : ∀ b ∈ blocks B m, b.length = B := by
  induction hn : m.length using Nat.strongRecOn generalizing m with
  | _ n ih =>
    intro b hb
    by_cases h : 0 < B ∧ B ≤ m.length
    · rw [blocks_long h.1 h.2] at hb
      rcases List.mem_cons.mp hb with rfl | hb
      · simp; omega
      · exact ih (n - B) (by omega) (m.drop B) (by simp [hn]) b hb
    · rw [blocks_eq] at hb; simp [h] at hb

theorem foldl_congr_mem {α β : Type} {l : List β} {f g : α → β → α} (h : ∀ a, ∀ b ∈ l, f a b = g a b) (s : α) :
    l.foldl f s = l.foldl g s := by
  induction l generalizing s with
  | nil => rfl
  | cons x l ih =>
    simp only [List.foldl_cons]
    rw [h s x (by simp), ih (fun a b hb => h a b (by simp [hb]))]

theorem finish_spec {R : Nat} (hR0 : 0 < R) (hR : R ≤ 200) (h8 : R % 8 = 0) {ctx : Ctx} {m : Bytes}
    (h : SInv R ctx m) : (finish ctx).hash = (blocks R (pad R m)).foldl (absorbBlock R) zeroState := by
  have hbsn : ctx.blockSize.toNat = R := by rw [h.bs]; simp; omega
  have hk : m.length % R < R := Nat.mod_lt _ hR0
  have hrl : (rest R m).length = m.length % R := rest_length hR0 m
  have hlast : (rest R m ++ padTail R (m.length % R)).length = R := by
    simp [hrl, padTail_length hk]; omega
  have hfb := finish_buf hk ctx.buf h.inv.cap
  have hbt : ctx.buf.take (m.length % R) = rest R m := by rw [← hrl]; exact h.inv.buf
  rw [hbt] at hfb
  have hf : (finish ctx).hash = process R.toUInt32 ctx.hash (rest R m ++ padTail R (m.length % R)) := by
    have hbsn' : R.toUInt32.toNat = R := by rw [← h.bs]; exact hbsn
    simp only [finish, h.len, h.bs, hbsn', hfb]
  rw [hf, process_eq_absorbBlock R hR h8 _ _ hlast, pad_eq]
  rw [(blocks_append R m _).1]
  rw [(rest_exact hR0 hlast).2]
  rw [List.foldl_append, List.foldl_cons, List.foldl_nil]
  have hst : ctx.hash = (blocks R m).foldl (absorbBlock R) zeroState := by
    have := h.inv.st
    simp only at this
    rw [this]
    exact foldl_congr_mem (fun a b hb => process_eq_absorbBlock R hR h8 a b (blocks_length R m b hb)) _
  rw [← hst]

theorem foldl_update_inv {R : Nat} (hR0 : 0 < R) (hR : R ≤ 200) (chunks : List Bytes)
    (hc : ∀ c ∈ chunks, c.length < 2 ^ 63) {ctx : Ctx} {m : Bytes} (h : SInv R ctx m) :
    SInv R (chunks.foldl update ctx) (m ++ chunks.flatten) := by
  induction chunks generalizing ctx m with
  | nil => simpa using h
  | cons c cs ih =>
    simp only [List.foldl_cons, List.flatten_cons, ← List.append_assoc]
    exact ih (fun x hx => hc x (by simp [hx])) (update_inv hR0 hR h c (hc c (by simp)))

/-- **chunking, SHA-3 with rate `R` and digest length `d ≤ R`**: any way of splitting the input into
    `update` calls (each chunk below `2^63` bytes — the C object-size limit) gives the sponge of the
    concatenation -/
theorem chunking {R d : Nat} (hR0 : 0 < R) (hR : R ≤ 200) (h8 : R % 8 = 0) (hd : d ≤ R)
    (chunks : List Bytes) (hc : ∀ c ∈ chunks, c.length < 2 ^ 63) :
    digest (finish (chunks.foldl update (new R))) d = sponge R d chunks.flatten := by
  have inv := foldl_update_inv hR0 hR chunks hc (new_inv hR0 hR)
  simp only [List.nil_append] at inv
  unfold digest sponge
  rw [finish_spec hR0 hR h8 inv, squeeze]
  have : ¬ (0 < R ∧ R < d) := by omega
  simp [this]

end PV.HashX.Sha3

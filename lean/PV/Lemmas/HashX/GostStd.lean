import PV.Lemmas.HashX.Linear
import PV.Lemmas.HashX.Gost
/-!
# The step function of `pcryptohash-gost3411.c` is χ of GOST R 34.11-94

`Gost.step` (transliteration of the C code: in-place key generation, `P_GOST_3411_P`, the unrolled
32 rounds of `P_GOST_28147_E`, the three blocks of unrolled XOR formulas) equals `GostStd.chi`
(A, P, C2…C4, E, ψ^12 / ψ / ψ^61 as the standard defines them).
* the LFSR blocks and `P`: both sides are XOR-additive (proved symbolically), so it is enough to compare
  them on the zero block and the 256 unit blocks (`Linear.ext256`; `decide +kernel`);
* key generation: word-by-word equality of XOR expressions;
* the cipher: unfolding of the round loop.
-/
namespace PV.HashX.GostProof
open PV.HashX PV.HashX.Gost PV.HashX.GostStd PV.HashX.Linear PV.HashX.Spec PV.Generated.HashX

/-! ## the model's step function cut into its source-order pieces

`Gost.step` is one straight-line definition (as the C function).  The pieces below repeat its text
(key generation; the three LFSR blocks); `step_parts` checks by `rfl` that composing them is `step`. -/

/-- key generation of `pp_crypto_hash_gost3411_process`: the four vectors `W` that are passed to
    `P_GOST_3411_P` (the in-place updates of `U[]`, `V[]` in source order) -/
def keyGenW (hash data : W8) : W8 × W8 × W8 × W8 :=
  let H0 := hash.w0; let H1 := hash.w1; let H2 := hash.w2; let H3 := hash.w3
  let H4 := hash.w4; let H5 := hash.w5; let H6 := hash.w6; let H7 := hash.w7
  let M0 := data.w0; let M1 := data.w1; let M2 := data.w2; let M3 := data.w3
  let M4 := data.w4; let M5 := data.w5; let M6 := data.w6; let M7 := data.w7
  -- memcpy (U, ctx->hash, 32); memcpy (V, data, 32);
  let U0 := H0; let U1 := H1; let U2 := H2; let U3 := H3; let U4 := H4; let U5 := H5; let U6 := H6; let U7 := H7
  let V0 := M0; let V1 := M1; let V2 := M2; let V3 := M3; let V4 := M4; let V5 := M5; let V6 := M6; let V7 := M7
  -- first key: P (U xor V)
  let W_0 : W8 := ⟨U0 ^^^ V0, U1 ^^^ V1, U2 ^^^ V2, U3 ^^^ V3, U4 ^^^ V4, U5 ^^^ V5, U6 ^^^ V6, U7 ^^^ V7⟩
  -- second key: P (A (U) xor A^2 (V))
  let W0 := U2 ^^^ V4
  let W1 := U3 ^^^ V5
  let W2 := U4 ^^^ V6
  let W3 := U5 ^^^ V7
  let V0 := V0 ^^^ V2; let W4 := U6 ^^^ V0
  let V1 := V1 ^^^ V3; let W5 := U7 ^^^ V1
  let U0 := U0 ^^^ U2; let V2 := V2 ^^^ V4; let W6 := U0 ^^^ V2
  let U1 := U1 ^^^ U3; let V3 := V3 ^^^ V5; let W7 := U1 ^^^ V3
  let W_1 : W8 := ⟨W0, W1, W2, W3, W4, W5, W6, W7⟩
  -- third key: P ((A^2 (U) + C3) xor A^4 (V))
  let U2 := U2 ^^^ (U4 ^^^ c3 0)
  let U3 := U3 ^^^ (U5 ^^^ c3 1)
  let U4 := U4 ^^^ c3 2
  let U5 := U5 ^^^ c3 3
  let U6 := U6 ^^^ c3 4
  let U7 := U7 ^^^ c3 5
  let U0 := U0 ^^^ c3 6
  let U1 := U1 ^^^ c3 7
  let W0 := U4 ^^^ V0
  let W2 := U6 ^^^ V2
  let V4 := V4 ^^^ V6; let W4 := U0 ^^^ V4
  let V6 := V6 ^^^ V0; let W6 := U2 ^^^ V6
  let W1 := U5 ^^^ V1
  let W3 := U7 ^^^ V3
  let V5 := V5 ^^^ V7; let W5 := U1 ^^^ V5
  let V7 := V7 ^^^ V1; let W7 := U3 ^^^ V7
  let W_2 : W8 := ⟨W0, W1, W2, W3, W4, W5, W6, W7⟩
  -- fourth key: P (A (A^2 (U) xor C3) xor A^6 (V))
  let W0 := U6 ^^^ V4
  let W1 := U7 ^^^ V5
  let W2 := U0 ^^^ V6
  let W3 := U1 ^^^ V7
  let V0 := V0 ^^^ V2; let W4 := U2 ^^^ V0
  let V1 := V1 ^^^ V3; let W5 := U3 ^^^ V1
  let U4 := U4 ^^^ U6; let V2 := V2 ^^^ V4; let W6 := U4 ^^^ V2
  let U5 := U5 ^^^ U7; let V3 := V3 ^^^ V5; let W7 := U5 ^^^ V3
  let W_3 : W8 := ⟨W0, W1, W2, W3, W4, W5, W6, W7⟩
  (W_0, W_1, W_2, W_3)

/-- "(12 rounds of LFSR) xor M": the new `U[]` -/
def lfsr12 (S data : W8) : W8 :=
  let S0 := S.w0
  let S1 := S.w1
  let S2 := S.w2
  let S3 := S.w3
  let S4 := S.w4
  let S5 := S.w5
  let S6 := S.w6
  let S7 := S.w7
  let M0 := data.w0
  let M1 := data.w1
  let M2 := data.w2
  let M3 := data.w3
  let M4 := data.w4
  let M5 := data.w5
  let M6 := data.w6
  let M7 := data.w7
  let U0 : UInt32 := M0 ^^^ S6
  let U1 : UInt32 := M1 ^^^ S7
  let U2 : UInt32 := M2 ^^^ (S0 &&& (0x0000FFFF : UInt32)) ^^^ (S0 >>> 16) ^^^ (S0 <<< 16) ^^^ (S1 &&& (0x0000FFFF : UInt32)) ^^^ (S1 >>> 16) ^^^ (S2 <<< 16) ^^^ (S7 &&& (0xFFFF0000 : UInt32)) ^^^ (S6 <<< 16) ^^^ (S7 >>> 16) ^^^ S6
  let U3 : UInt32 := M3 ^^^ (S0 &&& (0x0000FFFF : UInt32)) ^^^ (S0 <<< 16) ^^^ (S2 <<< 16) ^^^ (S1 &&& (0x0000FFFF : UInt32)) ^^^ (S1 <<< 16) ^^^ (S1 >>> 16) ^^^ (S7 &&& (0x0000FFFF : UInt32)) ^^^ (S2 >>> 16) ^^^ (S3 <<< 16) ^^^ (S6 <<< 16) ^^^ (S6 >>> 16) ^^^ (S7 <<< 16) ^^^ (S7 >>> 16) ^^^ S6
  let U4 : UInt32 := M4 ^^^ (S0 &&& (0xFFFF0000 : UInt32)) ^^^ (S0 <<< 16) ^^^ (S0 >>> 16) ^^^ (S1 &&& (0xFFFF0000 : UInt32)) ^^^ (S1 >>> 16) ^^^ (S2 <<< 16) ^^^ (S7 &&& (0x0000FFFF : UInt32)) ^^^ (S3 <<< 16) ^^^ (S3 >>> 16) ^^^ (S4 <<< 16) ^^^ (S6 <<< 16) ^^^ (S6 >>> 16) ^^^ (S2 >>> 16) ^^^ (S7 <<< 16) ^^^ (S7 >>> 16)
  let U5 : UInt32 := M5 ^^^ (S0 &&& (0xFFFF0000 : UInt32)) ^^^ (S0 >>> 16) ^^^ (S0 <<< 16) ^^^ (S1 &&& (0x0000FFFF : UInt32)) ^^^ (S7 >>> 16) ^^^ (S2 >>> 16) ^^^ (S7 &&& (0xFFFF0000 : UInt32)) ^^^ (S3 >>> 16) ^^^ (S4 <<< 16) ^^^ (S4 >>> 16) ^^^ (S5 <<< 16) ^^^ (S6 <<< 16) ^^^ (S6 >>> 16) ^^^ (S3 <<< 16) ^^^ (S7 <<< 16) ^^^ S2
  let U6 : UInt32 := M6 ^^^ (S4 >>> 16) ^^^ (S1 >>> 16) ^^^ (S2 <<< 16) ^^^ (S7 <<< 16) ^^^ (S3 >>> 16) ^^^ (S4 <<< 16) ^^^ (S5 <<< 16) ^^^ (S5 >>> 16) ^^^ (S6 <<< 16) ^^^ (S6 >>> 16) ^^^ S6 ^^^ S0 ^^^ S3
  let U7 : UInt32 := M7 ^^^ (S0 &&& (0xFFFF0000 : UInt32)) ^^^ (S0 <<< 16) ^^^ (S1 <<< 16) ^^^ (S1 &&& (0x0000FFFF : UInt32)) ^^^ (S2 >>> 16) ^^^ (S3 <<< 16) ^^^ (S7 &&& (0x0000FFFF : UInt32)) ^^^ (S4 >>> 16) ^^^ (S5 <<< 16) ^^^ (S5 >>> 16) ^^^ (S6 >>> 16) ^^^ (S7 <<< 16) ^^^ (S7 >>> 16) ^^^ S4
  ⟨U0, U1, U2, U3, U4, U5, U6, U7⟩

/-- "(1 round of LFSR) xor Hprev": the new `V[]` -/
def lfsr1 (U hash : W8) : W8 :=
  let U0 := U.w0
  let U1 := U.w1
  let U2 := U.w2
  let U3 := U.w3
  let U4 := U.w4
  let U5 := U.w5
  let U6 := U.w6
  let U7 := U.w7
  let H0 := hash.w0
  let H1 := hash.w1
  let H2 := hash.w2
  let H3 := hash.w3
  let H4 := hash.w4
  let H5 := hash.w5
  let H6 := hash.w6
  let H7 := hash.w7
  let V0 : UInt32 := H0 ^^^ (U1 <<< 16) ^^^ (U0 >>> 16)
  let V1 : UInt32 := H1 ^^^ (U2 <<< 16) ^^^ (U1 >>> 16)
  let V2 : UInt32 := H2 ^^^ (U3 <<< 16) ^^^ (U2 >>> 16)
  let V3 : UInt32 := H3 ^^^ (U4 <<< 16) ^^^ (U3 >>> 16)
  let V4 : UInt32 := H4 ^^^ (U5 <<< 16) ^^^ (U4 >>> 16)
  let V5 : UInt32 := H5 ^^^ (U6 <<< 16) ^^^ (U5 >>> 16)
  let V6 : UInt32 := H6 ^^^ (U7 <<< 16) ^^^ (U6 >>> 16)
  let V7 : UInt32 := H7 ^^^ (U7 >>> 16) ^^^ (U0 <<< 16) ^^^ (U1 &&& (0xFFFF0000 : UInt32)) ^^^ (U1 <<< 16) ^^^ (U7 &&& (0xFFFF0000 : UInt32)) ^^^ (U6 <<< 16) ^^^ (U0 &&& (0xFFFF0000 : UInt32))
  ⟨V0, V1, V2, V3, V4, V5, V6, V7⟩

/-- "Final 61 rounds of LFSR": the new `ctx->hash` -/
def lfsr61 (V : W8) : W8 :=
  let V0 := V.w0
  let V1 := V.w1
  let V2 := V.w2
  let V3 := V.w3
  let V4 := V.w4
  let V5 := V.w5
  let V6 := V.w6
  let V7 := V.w7
  let R0 : UInt32 := (V0 &&& (0xFFFF0000 : UInt32)) ^^^ (V0 <<< 16) ^^^ (V0 >>> 16) ^^^ (V1 &&& (0xFFFF0000 : UInt32)) ^^^ (V1 >>> 16) ^^^ (V2 <<< 16) ^^^ (V7 &&& (0x0000FFFF : UInt32)) ^^^ (V3 >>> 16) ^^^ (V4 <<< 16) ^^^ (V5 >>> 16) ^^^ (V6 >>> 16) ^^^ (V7 <<< 16) ^^^ (V7 >>> 16) ^^^ V5
  let R1 : UInt32 := (V0 &&& (0xFFFF0000 : UInt32)) ^^^ (V0 <<< 16) ^^^ (V0 >>> 16) ^^^ (V1 &&& (0x0000FFFF : UInt32)) ^^^ (V2 >>> 16) ^^^ (V3 <<< 16) ^^^ (V7 &&& (0xFFFF0000 : UInt32)) ^^^ (V4 >>> 16) ^^^ (V5 <<< 16) ^^^ (V6 <<< 16) ^^^ (V7 >>> 16) ^^^ V6 ^^^ V2
  let R2 : UInt32 := (V0 &&& (0x0000FFFF : UInt32)) ^^^ (V0 <<< 16) ^^^ (V1 <<< 16) ^^^ (V7 &&& (0x0000FFFF : UInt32)) ^^^ (V1 >>> 16) ^^^ (V2 <<< 16) ^^^ (V1 &&& (0xFFFF0000 : UInt32)) ^^^ (V3 >>> 16) ^^^ (V4 <<< 16) ^^^ (V5 >>> 16) ^^^ (V6 >>> 16) ^^^ (V7 <<< 16) ^^^ (V7 >>> 16) ^^^ V3 ^^^ V6
  let R3 : UInt32 := (V0 &&& (0xFFFF0000 : UInt32)) ^^^ (V0 <<< 16) ^^^ (V0 >>> 16) ^^^ (V1 &&& (0xFFFF0000 : UInt32)) ^^^ (V1 >>> 16) ^^^ (V2 <<< 16) ^^^ (V7 &&& (0x0000FFFF : UInt32)) ^^^ (V2 >>> 16) ^^^ (V3 <<< 16) ^^^ (V4 >>> 16) ^^^ (V5 <<< 16) ^^^ (V6 <<< 16) ^^^ (V7 >>> 16) ^^^ V2 ^^^ V4
  let R4 : UInt32 := (V0 >>> 16) ^^^ (V1 <<< 16) ^^^ (V2 >>> 16) ^^^ (V3 <<< 16) ^^^ (V3 >>> 16) ^^^ (V4 <<< 16) ^^^ (V5 >>> 16) ^^^ (V6 <<< 16) ^^^ (V6 >>> 16) ^^^ (V7 <<< 16) ^^^ V1 ^^^ V2 ^^^ V3 ^^^ V5
  let R5 : UInt32 := (V0 &&& (0xFFFF0000 : UInt32)) ^^^ (V0 <<< 16) ^^^ (V1 <<< 16) ^^^ (V1 &&& (0xFFFF0000 : UInt32)) ^^^ (V1 >>> 16) ^^^ (V2 <<< 16) ^^^ (V7 &&& (0xFFFF0000 : UInt32)) ^^^ (V3 >>> 16) ^^^ (V4 <<< 16) ^^^ (V4 >>> 16) ^^^ (V5 <<< 16) ^^^ (V6 <<< 16) ^^^ (V6 >>> 16) ^^^ (V7 <<< 16) ^^^ (V7 >>> 16) ^^^ V2 ^^^ V3 ^^^ V4 ^^^ V6
  let R6 : UInt32 := (V2 >>> 16) ^^^ (V3 <<< 16) ^^^ (V4 >>> 16) ^^^ (V5 <<< 16) ^^^ (V5 >>> 16) ^^^ (V6 <<< 16) ^^^ (V6 >>> 16) ^^^ (V7 <<< 16) ^^^ V7 ^^^ V0 ^^^ V2 ^^^ V3 ^^^ V4 ^^^ V5 ^^^ V6
  let R7 : UInt32 := (V0 >>> 16) ^^^ (V1 <<< 16) ^^^ (V1 >>> 16) ^^^ (V2 <<< 16) ^^^ (V3 >>> 16) ^^^ (V4 <<< 16) ^^^ (V5 >>> 16) ^^^ (V6 <<< 16) ^^^ (V6 >>> 16) ^^^ (V7 <<< 16) ^^^ V7 ^^^ V0 ^^^ V3 ^^^ V4 ^^^ V5
  ⟨R0, R1, R2, R3, R4, R5, R6, R7⟩

/-- key generation, `P`, four encryptions, the three LFSR blocks — composed -/
def stepParts (hash data : W8) : W8 :=
  let W := keyGenW hash data
  let K0 := transP W.1
  let K1 := transP W.2.1
  let K2 := transP W.2.2.1
  let K3 := transP W.2.2.2
  let (S0, S1) := encrypt hash.w0 hash.w1 K0
  let (S2, S3) := encrypt hash.w2 hash.w3 K1
  let (S4, S5) := encrypt hash.w4 hash.w5 K2
  let (S6, S7) := encrypt hash.w6 hash.w7 K3
  lfsr61 (lfsr1 (lfsr12 ⟨S0, S1, S2, S3, S4, S5, S6, S7⟩ data) hash)

theorem step_parts (hash data : W8) : Gost.step hash data = stepParts hash data := by
  cases hash; cases data
  simp only [Gost.step, stepParts, keyGenW, lfsr12, lfsr1, lfsr61]

/-! ## the unrolled XOR formulas as term tables

Every word of the three LFSR blocks is a XOR of terms `x`, `x & 0x0000FFFF`, `x & 0xFFFF0000`,
`x << 16`, `x >> 16` of input words.  The tables below list the terms in source order; `rfl` checks
that evaluating a table *is* the model's formula, and additivity is proved once for all tables. -/

inductive Op where
  | id | lo | hi | shl | shr

def Op.ev : Op → UInt32 → UInt32
  | .id, x => x
  | .lo, x => x &&& (0x0000FFFF : UInt32)
  | .hi, x => x &&& (0xFFFF0000 : UInt32)
  | .shl, x => x <<< 16
  | .shr, x => x >>> 16

def word (v : W8) : Nat → UInt32
  | 0 => v.w0 | 1 => v.w1 | 2 => v.w2 | 3 => v.w3 | 4 => v.w4 | 5 => v.w5 | 6 => v.w6 | _ => v.w7

abbrev Row := List (Nat × Op)
abbrev Tab := List Row

/-- `init ^ t1 ^ t2 ^ …` (left-nested, as the C expression) -/
def evalRow (init : UInt32) (row : Row) (v : W8) : UInt32 :=
  row.foldl (fun acc t => acc ^^^ t.2.ev (word v t.1)) init

/-- `t1 ^ t2 ^ …` -/
def evalRow1 (row : Row) (v : W8) : UInt32 :=
  match row with
  | [] => 0
  | t :: ts => evalRow (t.2.ev (word v t.1)) ts v

def evalTab (init : W8) (tab : Tab) (v : W8) : W8 :=
  ⟨evalRow init.w0 (tab.getD 0 []) v, evalRow init.w1 (tab.getD 1 []) v, evalRow init.w2 (tab.getD 2 []) v,
   evalRow init.w3 (tab.getD 3 []) v, evalRow init.w4 (tab.getD 4 []) v, evalRow init.w5 (tab.getD 5 []) v,
   evalRow init.w6 (tab.getD 6 []) v, evalRow init.w7 (tab.getD 7 []) v⟩

def evalTab1 (tab : Tab) (v : W8) : W8 :=
  ⟨evalRow1 (tab.getD 0 []) v, evalRow1 (tab.getD 1 []) v, evalRow1 (tab.getD 2 []) v, evalRow1 (tab.getD 3 []) v,
   evalRow1 (tab.getD 4 []) v, evalRow1 (tab.getD 5 []) v, evalRow1 (tab.getD 6 []) v, evalRow1 (tab.getD 7 []) v⟩

def t12 : Tab :=
  [[(6, .id)],
   [(7, .id)],
   [(0, .lo), (0, .shr), (0, .shl), (1, .lo), (1, .shr), (2, .shl), (7, .hi), (6, .shl), (7, .shr), (6, .id)],
   [(0, .lo), (0, .shl), (2, .shl), (1, .lo), (1, .shl), (1, .shr), (7, .lo), (2, .shr), (3, .shl), (6, .shl), (6, .shr), (7, .shl), (7, .shr), (6, .id)],
   [(0, .hi), (0, .shl), (0, .shr), (1, .hi), (1, .shr), (2, .shl), (7, .lo), (3, .shl), (3, .shr), (4, .shl), (6, .shl), (6, .shr), (2, .shr), (7, .shl), (7, .shr)],
   [(0, .hi), (0, .shr), (0, .shl), (1, .lo), (7, .shr), (2, .shr), (7, .hi), (3, .shr), (4, .shl), (4, .shr), (5, .shl), (6, .shl), (6, .shr), (3, .shl), (7, .shl), (2, .id)],
   [(4, .shr), (1, .shr), (2, .shl), (7, .shl), (3, .shr), (4, .shl), (5, .shl), (5, .shr), (6, .shl), (6, .shr), (6, .id), (0, .id), (3, .id)],
   [(0, .hi), (0, .shl), (1, .shl), (1, .lo), (2, .shr), (3, .shl), (7, .lo), (4, .shr), (5, .shl), (5, .shr), (6, .shr), (7, .shl), (7, .shr), (4, .id)]]

def t1 : Tab :=
  [[(1, .shl), (0, .shr)],
   [(2, .shl), (1, .shr)],
   [(3, .shl), (2, .shr)],
   [(4, .shl), (3, .shr)],
   [(5, .shl), (4, .shr)],
   [(6, .shl), (5, .shr)],
   [(7, .shl), (6, .shr)],
   [(7, .shr), (0, .shl), (1, .hi), (1, .shl), (7, .hi), (6, .shl), (0, .hi)]]

def t61 : Tab :=
  [[(0, .hi), (0, .shl), (0, .shr), (1, .hi), (1, .shr), (2, .shl), (7, .lo), (3, .shr), (4, .shl), (5, .shr), (6, .shr), (7, .shl), (7, .shr), (5, .id)],
   [(0, .hi), (0, .shl), (0, .shr), (1, .lo), (2, .shr), (3, .shl), (7, .hi), (4, .shr), (5, .shl), (6, .shl), (7, .shr), (6, .id), (2, .id)],
   [(0, .lo), (0, .shl), (1, .shl), (7, .lo), (1, .shr), (2, .shl), (1, .hi), (3, .shr), (4, .shl), (5, .shr), (6, .shr), (7, .shl), (7, .shr), (3, .id), (6, .id)],
   [(0, .hi), (0, .shl), (0, .shr), (1, .hi), (1, .shr), (2, .shl), (7, .lo), (2, .shr), (3, .shl), (4, .shr), (5, .shl), (6, .shl), (7, .shr), (2, .id), (4, .id)],
   [(0, .shr), (1, .shl), (2, .shr), (3, .shl), (3, .shr), (4, .shl), (5, .shr), (6, .shl), (6, .shr), (7, .shl), (1, .id), (2, .id), (3, .id), (5, .id)],
   [(0, .hi), (0, .shl), (1, .shl), (1, .hi), (1, .shr), (2, .shl), (7, .hi), (3, .shr), (4, .shl), (4, .shr), (5, .shl), (6, .shl), (6, .shr), (7, .shl), (7, .shr), (2, .id), (3, .id), (4, .id), (6, .id)],
   [(2, .shr), (3, .shl), (4, .shr), (5, .shl), (5, .shr), (6, .shl), (6, .shr), (7, .shl), (7, .id), (0, .id), (2, .id), (3, .id), (4, .id), (5, .id), (6, .id)],
   [(0, .shr), (1, .shl), (1, .shr), (2, .shl), (3, .shr), (4, .shl), (5, .shr), (6, .shl), (6, .shr), (7, .shl), (7, .id), (0, .id), (3, .id), (4, .id), (5, .id)]]

theorem lfsr12_tab (S M : W8) : lfsr12 S M = evalTab M t12 S := rfl
theorem lfsr1_tab (U H : W8) : lfsr1 U H = evalTab H t1 U := rfl
theorem lfsr61_tab (V : W8) : lfsr61 V = evalTab1 t61 V := rfl

/-! ## XOR-additivity -/

theorem and_xor (a b m : UInt32) : (a ^^^ b) &&& m = (a &&& m) ^^^ (b &&& m) := by
  apply UInt32.toNat_inj.mp
  simp only [UInt32.toNat_and, UInt32.toNat_xor, Nat.and_xor_distrib_right]

theorem Op.ev_xor (op : Op) (p q : UInt32) : op.ev (p ^^^ q) = op.ev p ^^^ op.ev q := by
  cases op <;> simp only [Op.ev, and_xor, UInt32.shiftLeft_xor, UInt32.shiftRight_xor]

theorem word_xor8 (x y : W8) (i : Nat) : word (xor8 x y) i = word x i ^^^ word y i := by
  unfold word; split <;> rfl

theorem xor4 (a b c d : UInt32) : (a ^^^ b) ^^^ (c ^^^ d) = (a ^^^ c) ^^^ (b ^^^ d) := by ac_rfl

theorem evalRow_cons (a : UInt32) (t : Nat × Op) (ts : Row) (v : W8) :
    evalRow a (t :: ts) v = evalRow (a ^^^ t.2.ev (word v t.1)) ts v := rfl

theorem evalRow_add (a b : UInt32) (row : Row) (x y : W8) :
    evalRow (a ^^^ b) row (xor8 x y) = evalRow a row x ^^^ evalRow b row y := by
  induction row generalizing a b with
  | nil => rfl
  | cons t ts ih =>
    rw [evalRow_cons, evalRow_cons, evalRow_cons, word_xor8, Op.ev_xor, xor4]
    exact ih _ _

theorem evalRow1_add (row : Row) (x y : W8) : evalRow1 row (xor8 x y) = evalRow1 row x ^^^ evalRow1 row y := by
  cases row with
  | nil => simp [evalRow1]
  | cons t ts => simp only [evalRow1, word_xor8, Op.ev_xor, evalRow_add]

theorem evalTab1_add (tab : Tab) (x y : W8) : evalTab1 tab (xor8 x y) = xor8 (evalTab1 tab x) (evalTab1 tab y) := by
  simp only [evalTab1, evalRow1_add]
  rfl

theorem evalRow_init (a c : UInt32) (row : Row) (v : W8) : evalRow (a ^^^ c) row v = a ^^^ evalRow c row v := by
  induction row generalizing c with
  | nil => rfl
  | cons t ts ih => rw [evalRow_cons, evalRow_cons, UInt32.xor_assoc]; exact ih _

theorem evalTab_split (init : W8) (tab : Tab) (v : W8) : evalTab init tab v = xor8 init (evalTab W8.zero tab v) := by
  have h : ∀ (a : UInt32) (row : Row), evalRow a row v = a ^^^ evalRow 0 row v := by
    intro a row
    have := evalRow_init a 0 row v
    rwa [UInt32.xor_zero] at this
  simp only [evalTab, xor8, W8.zero]
  rw [h init.w0, h init.w1, h init.w2, h init.w3, h init.w4, h init.w5, h init.w6, h init.w7]

theorem evalTab0_add (tab : Tab) (x y : W8) :
    evalTab W8.zero tab (xor8 x y) = xor8 (evalTab W8.zero tab x) (evalTab W8.zero tab y) := by
  have h : ∀ row : Row, evalRow 0 row (xor8 x y) = evalRow 0 row x ^^^ evalRow 0 row y := by
    intro row
    have := evalRow_add 0 0 row x y
    rwa [UInt32.xor_zero] at this
  simp only [evalTab, W8.zero, h]
  rfl

/-! ### ψ on numbers -/

theorem ofNat_xor (a b : Nat) : UInt32.ofNat (a ^^^ b) = UInt32.ofNat a ^^^ UInt32.ofNat b := by
  apply UInt32.toNat_inj.mp
  simp only [UInt32.toNat_xor, UInt32.toNat_ofNat']
  exact Nat.xor_mod_two_pow

theorem wordsOfNat_xor (a b : Nat) : wordsOfNat (a ^^^ b) = xor8 (wordsOfNat a) (wordsOfNat b) := by
  simp only [wordsOfNat, xor8, Nat.xor_div_two_pow, ofNat_xor]

theorem toNat_xor8 (x y : W8) : (xor8 x y).toNat = x.toNat ^^^ y.toNat := by
  have h : xor8 x y = wordsOfNat (x.toNat ^^^ y.toNat) := by
    rw [wordsOfNat_xor, wordsOfNat_toNat, wordsOfNat_toNat]
  rw [h, toNat_wordsOfNat]
  exact Nat.mod_eq_of_lt (Nat.xor_lt_two_pow (W8.toNat_lt x) (W8.toNat_lt y))

theorem eta_xor (a b k : Nat) : eta (a ^^^ b) k = eta a k ^^^ eta b k := by
  unfold eta
  rw [Nat.shiftRight_xor_distrib, Nat.and_xor_distrib_right]

theorem psi_xor (a b : Nat) : psi (a ^^^ b) = psi a ^^^ psi b := by
  unfold psi
  simp only [eta_xor, Nat.shiftRight_xor_distrib, Nat.shiftLeft_xor_distrib]
  generalize eta a 1 <<< 240 = a1; generalize eta a 2 <<< 240 = a2; generalize eta a 3 <<< 240 = a3
  generalize eta a 4 <<< 240 = a4; generalize eta a 13 <<< 240 = a5; generalize eta a 16 <<< 240 = a6
  generalize eta b 1 <<< 240 = b1; generalize eta b 2 <<< 240 = b2; generalize eta b 3 <<< 240 = b3
  generalize eta b 4 <<< 240 = b4; generalize eta b 13 <<< 240 = b5; generalize eta b 16 <<< 240 = b6
  generalize a >>> 16 = a0; generalize b >>> 16 = b0
  ac_rfl

theorem repeat_psi_xor (k a b : Nat) : Nat.repeat psi k (a ^^^ b) = Nat.repeat psi k a ^^^ Nat.repeat psi k b := by
  induction k with
  | zero => rfl
  | succ k ih => simp only [Nat.repeat, ih, psi_xor]

theorem psiPow_add (k : Nat) (x y : W8) : psiPow k (xor8 x y) = xor8 (psiPow k x) (psiPow k y) := by
  simp only [psiPow, toNat_xor8, repeat_psi_xor, wordsOfNat_xor]

/-! ## the three LFSR blocks are ψ^12, ψ, ψ^61 -/

set_option maxRecDepth 10000 in
/-- "Final 61 rounds of LFSR" -/
theorem lfsr61_eq (V : W8) : lfsr61 V = psiPow 61 V :=
  ext256 lfsr61 (psiPow 61) (fun x y => by simp only [lfsr61_tab, evalTab1_add]) (psiPow_add 61)
    (by decide +kernel) (by decide +kernel) V

set_option maxRecDepth 10000 in
/-- "(1 round of LFSR) xor Hprev" -/
theorem lfsr1_eq (U H : W8) : lfsr1 U H = xor8 H (psiPow 1 U) := by
  rw [lfsr1_tab, evalTab_split]
  congr 1
  exact ext256 (evalTab W8.zero t1) (psiPow 1) (evalTab0_add t1) (psiPow_add 1) (by decide +kernel) (by decide +kernel) U

set_option maxRecDepth 10000 in
/-- "(12 rounds of LFSR) xor M" -/
theorem lfsr12_eq (S M : W8) : lfsr12 S M = xor8 M (psiPow 12 S) := by
  rw [lfsr12_tab, evalTab_split]
  congr 1
  exact ext256 (evalTab W8.zero t12) (psiPow 12) (evalTab0_add t12) (psiPow_add 12) (by decide +kernel) (by decide +kernel) S

/-! ## `P_GOST_3411_P` is the byte permutation φ -/

theorem mod256_xor (a b : UInt32) : (a ^^^ b) % 256 = a % 256 ^^^ b % 256 := by
  apply UInt32.toNat_inj.mp
  simp only [UInt32.toNat_mod, UInt32.toNat_xor]
  exact Nat.xor_mod_two_pow (n := 8)

theorem mod256_and (x : UInt32) : x % (256 : UInt32) = x &&& (0x000000FF : UInt32) :=
  ext32 (· ^^^ ·) (fun x => x % (256 : UInt32)) (fun x => x &&& (0x000000FF : UInt32))
    (fun a b => by simp only [mod256_xor]) (fun a b => by simp only [and_xor]) (by decide) (by decide) x

theorem byte_0_1 (x : UInt32) : ((x) &&& (0x000000FF : UInt32)) <<< 8 = (x <<< 8) &&& (0x0000FF00 : UInt32) :=
  ext32 (· ^^^ ·) (fun x => ((x) &&& (0x000000FF : UInt32)) <<< 8) (fun x => (x <<< 8) &&& (0x0000FF00 : UInt32))
    (fun a b => by simp only [and_xor, UInt32.shiftLeft_xor, UInt32.shiftRight_xor])
    (fun a b => by simp only [and_xor, UInt32.shiftLeft_xor, UInt32.shiftRight_xor])
    (by decide) (by decide) x

theorem byte_0_2 (x : UInt32) : ((x) &&& (0x000000FF : UInt32)) <<< 16 = (x <<< 16) &&& (0x00FF0000 : UInt32) :=
  ext32 (· ^^^ ·) (fun x => ((x) &&& (0x000000FF : UInt32)) <<< 16) (fun x => (x <<< 16) &&& (0x00FF0000 : UInt32))
    (fun a b => by simp only [and_xor, UInt32.shiftLeft_xor, UInt32.shiftRight_xor])
    (fun a b => by simp only [and_xor, UInt32.shiftLeft_xor, UInt32.shiftRight_xor])
    (by decide) (by decide) x

theorem byte_0_3 (x : UInt32) : ((x) &&& (0x000000FF : UInt32)) <<< 24 = (x <<< 24) &&& (0xFF000000 : UInt32) :=
  ext32 (· ^^^ ·) (fun x => ((x) &&& (0x000000FF : UInt32)) <<< 24) (fun x => (x <<< 24) &&& (0xFF000000 : UInt32))
    (fun a b => by simp only [and_xor, UInt32.shiftLeft_xor, UInt32.shiftRight_xor])
    (fun a b => by simp only [and_xor, UInt32.shiftLeft_xor, UInt32.shiftRight_xor])
    (by decide) (by decide) x

theorem byte_1_1 (x : UInt32) : ((x >>> 8) &&& (0x000000FF : UInt32)) <<< 8 = x &&& (0x0000FF00 : UInt32) :=
  ext32 (· ^^^ ·) (fun x => ((x >>> 8) &&& (0x000000FF : UInt32)) <<< 8) (fun x => x &&& (0x0000FF00 : UInt32))
    (fun a b => by simp only [and_xor, UInt32.shiftLeft_xor, UInt32.shiftRight_xor])
    (fun a b => by simp only [and_xor, UInt32.shiftLeft_xor, UInt32.shiftRight_xor])
    (by decide) (by decide) x

theorem byte_1_2 (x : UInt32) : ((x >>> 8) &&& (0x000000FF : UInt32)) <<< 16 = (x <<< 8) &&& (0x00FF0000 : UInt32) :=
  ext32 (· ^^^ ·) (fun x => ((x >>> 8) &&& (0x000000FF : UInt32)) <<< 16) (fun x => (x <<< 8) &&& (0x00FF0000 : UInt32))
    (fun a b => by simp only [and_xor, UInt32.shiftLeft_xor, UInt32.shiftRight_xor])
    (fun a b => by simp only [and_xor, UInt32.shiftLeft_xor, UInt32.shiftRight_xor])
    (by decide) (by decide) x

theorem byte_1_3 (x : UInt32) : ((x >>> 8) &&& (0x000000FF : UInt32)) <<< 24 = (x <<< 16) &&& (0xFF000000 : UInt32) :=
  ext32 (· ^^^ ·) (fun x => ((x >>> 8) &&& (0x000000FF : UInt32)) <<< 24) (fun x => (x <<< 16) &&& (0xFF000000 : UInt32))
    (fun a b => by simp only [and_xor, UInt32.shiftLeft_xor, UInt32.shiftRight_xor])
    (fun a b => by simp only [and_xor, UInt32.shiftLeft_xor, UInt32.shiftRight_xor])
    (by decide) (by decide) x

theorem byte_2_1 (x : UInt32) : ((x >>> 16) &&& (0x000000FF : UInt32)) <<< 8 = (x >>> 8) &&& (0x0000FF00 : UInt32) :=
  ext32 (· ^^^ ·) (fun x => ((x >>> 16) &&& (0x000000FF : UInt32)) <<< 8) (fun x => (x >>> 8) &&& (0x0000FF00 : UInt32))
    (fun a b => by simp only [and_xor, UInt32.shiftLeft_xor, UInt32.shiftRight_xor])
    (fun a b => by simp only [and_xor, UInt32.shiftLeft_xor, UInt32.shiftRight_xor])
    (by decide) (by decide) x

theorem byte_2_2 (x : UInt32) : ((x >>> 16) &&& (0x000000FF : UInt32)) <<< 16 = x &&& (0x00FF0000 : UInt32) :=
  ext32 (· ^^^ ·) (fun x => ((x >>> 16) &&& (0x000000FF : UInt32)) <<< 16) (fun x => x &&& (0x00FF0000 : UInt32))
    (fun a b => by simp only [and_xor, UInt32.shiftLeft_xor, UInt32.shiftRight_xor])
    (fun a b => by simp only [and_xor, UInt32.shiftLeft_xor, UInt32.shiftRight_xor])
    (by decide) (by decide) x

theorem byte_2_3 (x : UInt32) : ((x >>> 16) &&& (0x000000FF : UInt32)) <<< 24 = (x <<< 8) &&& (0xFF000000 : UInt32) :=
  ext32 (· ^^^ ·) (fun x => ((x >>> 16) &&& (0x000000FF : UInt32)) <<< 24) (fun x => (x <<< 8) &&& (0xFF000000 : UInt32))
    (fun a b => by simp only [and_xor, UInt32.shiftLeft_xor, UInt32.shiftRight_xor])
    (fun a b => by simp only [and_xor, UInt32.shiftLeft_xor, UInt32.shiftRight_xor])
    (by decide) (by decide) x

theorem byte_3_1 (x : UInt32) : ((x >>> 24) &&& (0x000000FF : UInt32)) <<< 8 = (x >>> 16) &&& (0x0000FF00 : UInt32) :=
  ext32 (· ^^^ ·) (fun x => ((x >>> 24) &&& (0x000000FF : UInt32)) <<< 8) (fun x => (x >>> 16) &&& (0x0000FF00 : UInt32))
    (fun a b => by simp only [and_xor, UInt32.shiftLeft_xor, UInt32.shiftRight_xor])
    (fun a b => by simp only [and_xor, UInt32.shiftLeft_xor, UInt32.shiftRight_xor])
    (by decide) (by decide) x

theorem byte_3_2 (x : UInt32) : ((x >>> 24) &&& (0x000000FF : UInt32)) <<< 16 = (x >>> 8) &&& (0x00FF0000 : UInt32) :=
  ext32 (· ^^^ ·) (fun x => ((x >>> 24) &&& (0x000000FF : UInt32)) <<< 16) (fun x => (x >>> 8) &&& (0x00FF0000 : UInt32))
    (fun a b => by simp only [and_xor, UInt32.shiftLeft_xor, UInt32.shiftRight_xor])
    (fun a b => by simp only [and_xor, UInt32.shiftLeft_xor, UInt32.shiftRight_xor])
    (by decide) (by decide) x

theorem byte_3_3 (x : UInt32) : ((x >>> 24) &&& (0x000000FF : UInt32)) <<< 24 = x &&& (0xFF000000 : UInt32) :=
  ext32 (· ^^^ ·) (fun x => ((x >>> 24) &&& (0x000000FF : UInt32)) <<< 24) (fun x => x &&& (0xFF000000 : UInt32))
    (fun a b => by simp only [and_xor, UInt32.shiftLeft_xor, UInt32.shiftRight_xor])
    (fun a b => by simp only [and_xor, UInt32.shiftLeft_xor, UInt32.shiftRight_xor])
    (by decide) (by decide) x

theorem range32 : List.range 32 = [0,1,2,3,4,5,6,7,8,9,10,11,12,13,14,15,16,17,18,19,20,21,22,23,24,25,26,27,28,29,30,31] := by decide

theorem transP_eq (d : W8) : transP d = P d := by
  cases d
  symm
  simp only [P, range32, bytesOfW8, W8.toList, bytesOfWord, List.flatMap_cons, List.flatMap_nil, List.cons_append,
    List.nil_append, List.map_cons, List.map_nil, phi]
  simp [w8OfBytes, le32]
  simp only [mod256_and]
  simp only [byte_1_1, byte_1_2, byte_1_3, byte_2_1, byte_2_2, byte_2_3, byte_3_1, byte_3_2, byte_3_3]
  simp only [byte_0_1, byte_0_2, byte_0_3]
  rfl

/-! ## GOST 28147-89: the unrolled 32 rounds are `E` -/

set_option maxRecDepth 10000 in
theorem sb_table : ∀ i, i < 8 → ∀ v, v < 16 → kBlock[16 * i + v]! = UInt32.ofNat ((gostKBlock.getD i []).getD v 0) := by decide +kernel

theorem nib_lt (x : UInt32) : (x &&& (0xF : UInt32)).toNat < 16 := by
  rw [UInt32.toNat_and]
  have := Nat.and_le_right (n := x.toNat) (m := (0xF : UInt32).toNat)
  have e : (0xF : UInt32).toNat = 15 := rfl
  omega

theorem sb_eq (i : Nat) (hi : i < 8) (x : UInt32) : sb i x = sbox i (x &&& (0xF : UInt32)) := by
  unfold sb sbox
  exact sb_table i hi _ (nib_lt x)

theorem range8 : List.range 8 = [0,1,2,3,4,5,6,7] := by decide

theorem subst_eq (x : UInt32) : subst x =
    sb 0 x ||| (sb 1 (x >>> 4) <<< 4) ||| (sb 2 (x >>> 8) <<< 8) ||| (sb 3 (x >>> 12) <<< 12)
    ||| (sb 4 (x >>> 16) <<< 16) ||| (sb 5 (x >>> 20) <<< 20) ||| (sb 6 (x >>> 24) <<< 24) ||| (sb 7 (x >>> 28) <<< 28) := by
  simp only [sb_eq _ (by decide : (0:Nat) < 8), sb_eq _ (by decide : (1:Nat) < 8), sb_eq _ (by decide : (2:Nat) < 8),
    sb_eq _ (by decide : (3:Nat) < 8), sb_eq _ (by decide : (4:Nat) < 8), sb_eq _ (by decide : (5:Nat) < 8),
    sb_eq _ (by decide : (6:Nat) < 8), sb_eq _ (by decide : (7:Nat) < 8)]
  simp [subst, range8]

theorem round_eq (n0 n1 k : UInt32) : Gost.round n0 n1 k = roundE (n0, n1) k := by
  simp only [Gost.round, roundE, rotl11, subst_eq]

set_option maxRecDepth 100000 in
theorem encrypt_fold (d0 d1 : UInt32) (k : W8) :
    encrypt d0 d1 k =
      (let r := ([k.w0, k.w1, k.w2, k.w3, k.w4, k.w5, k.w6, k.w7, k.w0, k.w1, k.w2, k.w3, k.w4, k.w5, k.w6, k.w7,
                  k.w0, k.w1, k.w2, k.w3, k.w4, k.w5, k.w6, k.w7, k.w7, k.w6, k.w5, k.w4, k.w3, k.w2, k.w1, k.w0] : List UInt32).foldl
          (fun n key => Gost.round n.1 n.2 key) (d0, d1)
       (r.2, r.1)) := by
  rfl

theorem encrypt_eq (d0 d1 : UInt32) (k : W8) : encrypt d0 d1 k = E k d0 d1 := by
  rw [encrypt_fold]
  unfold E
  have hk : keyOrder.map (fun i => k.toList.getD i 0) =
      [k.w0, k.w1, k.w2, k.w3, k.w4, k.w5, k.w6, k.w7, k.w0, k.w1, k.w2, k.w3, k.w4, k.w5, k.w6, k.w7,
       k.w0, k.w1, k.w2, k.w3, k.w4, k.w5, k.w6, k.w7, k.w7, k.w6, k.w5, k.w4, k.w3, k.w2, k.w1, k.w0] := by
    cases k; rfl
  rw [← hk, List.foldl_map]
  simp only [round_eq]

/-! ## key generation: the in-place updates of `U[]`, `V[]` are `A`, `A∘A` and the constants `C2…C4` -/

theorem C3_words : C3 = ⟨0xff00ff00, 0xff00ff00, 0x00ff00ff, 0x00ff00ff, 0x00ffff00, 0xff0000ff, 0x000000ff, 0xff00ffff⟩ := by decide
theorem c3_vals : c3 0 = 0x000000FF ∧ c3 1 = 0xFF00FFFF ∧ c3 2 = 0xFF00FF00 ∧ c3 3 = 0xFF00FF00 ∧ c3 4 = 0x00FF00FF ∧
    c3 5 = 0x00FF00FF ∧ c3 6 = 0x00FFFF00 ∧ c3 7 = 0xFF0000FF := by decide

theorem keyGenW_eq (h m : W8) : keyGenW h m = keyW h m := by
  cases h; cases m
  obtain ⟨e0, e1, e2, e3, e4, e5, e6, e7⟩ := c3_vals
  simp only [keyGenW, keyW, A, xor8, C2, C4, C3_words, W8.zero, e0, e1, e2, e3, e4, e5, e6, e7, UInt32.xor_zero,
    Prod.mk.injEq, W8.mk.injEq]
  simp only [UInt32.xor_assoc, and_self]

/-- **the step function of the C code is the standard's χ** -/
theorem step_eq_chi (h m : W8) : Gost.step h m = GostStd.chi h m := by
  rw [step_parts]
  unfold stepParts GostStd.chi
  simp only [keyGenW_eq, transP_eq, encrypt_eq, lfsr12_eq, lfsr1_eq, lfsr61_eq]

end PV.HashX.GostProof

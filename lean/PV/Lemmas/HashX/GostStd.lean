import PV.Lemmas.HashX.Linear
import PV.Lemmas.HashX.Gost
/-!
# The step function of `pcryptohash-gost3411.c` is χ of GOST R 34.11-94

`Gost.step` (transliteration of the C code: in-place key generation, `P_GOST_3411_P`, the unrolled
32 rounds of `P_GOST_28147_E`, the three blocks of unrolled XOR formulas) equals `GostStd.chi`
(A, P, C2…C4, E, ψ^12 / ψ / ψ^61 as the standard defines them).
* the LFSR blocks and `P`: both sides are XOR-additive (proved symbolically), so it is enough to compare
  them on the zero block and the 256 unit blocks (`Linear.ext256`; `decide +kernel`);
* key generation: word-by-word equality of XOR expressions;
* the cipher: unfolding of the round loop.
-/
namespace PV.HashX.GostProof
open PV.HashX PV.HashX.Gost PV.HashX.GostStd PV.HashX.Linear PV.HashX.Spec PV.Generated.HashX

/-! ## the unrolled XOR formulas as term tables

Every word of the three LFSR blocks is a XOR of terms `x`, `x & 0x0000FFFF`, `x & 0xFFFF0000`,
`x << 16`, `x >> 16` of input words.  The tables below list the terms in source order; `rfl` checks
that evaluating a table *is* the model's formula, and additivity is proved once for all tables. -/

inductive Op where
  | id | lo | hi | shl | shr

def Op.ev : Op → UInt32 → UInt32
  | .id, x => x
  | .lo, x => x &&& (0x0000FFFF : UInt32)
  | .hi, x => x &&& (0xFFFF0000 : UInt32)
  | .shl, x => x <<< 16
  | .shr, x => x >>> 16

def word (v : W8) : Nat → UInt32
  | 0 => v.w0 | 1 => v.w1 | 2 => v.w2 | 3 => v.w3 | 4 => v.w4 | 5 => v.w5 | 6 => v.w6 | _ => v.w7

abbrev Row := List (Nat × Op)
abbrev Tab := List Row

/-- `init ^ t1 ^ t2 ^ …` (left-nested, as the C expression) -/
def evalRow (init : UInt32) (row : Row) (v : W8) : UInt32 :=
  row.foldl (fun acc t => acc ^^^ t.2.ev (word v t.1)) init

/-- `t1 ^ t2 ^ …` -/
def evalRow1 (row : Row) (v : W8) : UInt32 :=
  match row with
  | [] => 0
  | t :: ts => evalRow (t.2.ev (word v t.1)) ts v

def evalTab (init : W8) (tab : Tab) (v : W8) : W8 :=
  ⟨evalRow init.w0 (tab.getD 0 []) v, evalRow init.w1 (tab.getD 1 []) v, evalRow init.w2 (tab.getD 2 []) v,
   evalRow init.w3 (tab.getD 3 []) v, evalRow init.w4 (tab.getD 4 []) v, evalRow init.w5 (tab.getD 5 []) v,
   evalRow init.w6 (tab.getD 6 []) v, evalRow init.w7 (tab.getD 7 []) v⟩

def evalTab1 (tab : Tab) (v : W8) : W8 :=
  ⟨evalRow1 (tab.getD 0 []) v, evalRow1 (tab.getD 1 []) v, evalRow1 (tab.getD 2 []) v, evalRow1 (tab.getD 3 []) v,
   evalRow1 (tab.getD 4 []) v, evalRow1 (tab.getD 5 []) v, evalRow1 (tab.getD 6 []) v, evalRow1 (tab.getD 7 []) v⟩

def t12 : Tab :=
  [[(6, .id)],
   [(7, .id)],
   [(0, .lo), (0, .shr), (0, .shl), (1, .lo), (1, .shr), (2, .shl), (7, .hi), (6, .shl), (7, .shr), (6, .id)],
   [(0, .lo), (0, .shl), (2, .shl), (1, .lo), (1, .shl), (1, .shr), (7, .lo), (2, .shr), (3, .shl), (6, .shl), (6, .shr), (7, .shl), (7, .shr), (6, .id)],
   [(0, .hi), (0, .shl), (0, .shr), (1, .hi), (1, .shr), (2, .shl), (7, .lo), (3, .shl), (3, .shr), (4, .shl), (6, .shl), (6, .shr), (2, .shr), (7, .shl), (7, .shr)],
   [(0, .hi), (0, .shr), (0, .shl), (1, .lo), (7, .shr), (2, .shr), (7, .hi), (3, .shr), (4, .shl), (4, .shr), (5, .shl), (6, .shl), (6, .shr), (3, .shl), (7, .shl), (2, .id)],
   [(4, .shr), (1, .shr), (2, .shl), (7, .shl), (3, .shr), (4, .shl), (5, .shl), (5, .shr), (6, .shl), (6, .shr), (6, .id), (0, .id), (3, .id)],
   [(0, .hi), (0, .shl), (1, .shl), (1, .lo), (2, .shr), (3, .shl), (7, .lo), (4, .shr), (5, .shl), (5, .shr), (6, .shr), (7, .shl), (7, .shr), (4, .id)]]

def t1 : Tab :=
  [[(1, .shl), (0, .shr)],
   [(2, .shl), (1, .shr)],
   [(3, .shl), (2, .shr)],
   [(4, .shl), (3, .shr)],
   [(5, .shl), (4, .shr)],
   [(6, .shl), (5, .shr)],
   [(7, .shl), (6, .shr)],
   [(7, .shr), (0, .shl), (1, .hi), (1, .shl), (7, .hi), (6, .shl), (0, .hi)]]

def t61 : Tab :=
  [[(0, .hi), (0, .shl), (0, .shr), (1, .hi), (1, .shr), (2, .shl), (7, .lo), (3, .shr), (4, .shl), (5, .shr), (6, .shr), (7, .shl), (7, .shr), (5, .id)],
   [(0, .hi), (0, .shl), (0, .shr), (1, .lo), (2, .shr), (3, .shl), (7, .hi), (4, .shr), (5, .shl), (6, .shl), (7, .shr), (6, .id), (2, .id)],
   [(0, .lo), (0, .shl), (1, .shl), (7, .lo), (1, .shr), (2, .shl), (1, .hi), (3, .shr), (4, .shl), (5, .shr), (6, .shr), (7, .shl), (7, .shr), (3, .id), (6, .id)],
   [(0, .hi), (0, .shl), (0, .shr), (1, .hi), (1, .shr), (2, .shl), (7, .lo), (2, .shr), (3, .shl), (4, .shr), (5, .shl), (6, .shl), (7, .shr), (2, .id), (4, .id)],
   [(0, .shr), (1, .shl), (2, .shr), (3, .shl), (3, .shr), (4, .shl), (5, .shr), (6, .shl), (6, .shr), (7, .shl), (1, .id), (2, .id), (3, .id), (5, .id)],
   [(0, .hi), (0, .shl), (1, .shl), (1, .hi), (1, .shr), (2, .shl), (7, .hi), (3, .shr), (4, .shl), (4, .shr), (5, .shl), (6, .shl), (6, .shr), (7, .shl), (7, .shr), (2, .id), (3, .id), (4, .id), (6, .id)],
   [(2, .shr), (3, .shl), (4, .shr), (5, .shl), (5, .shr), (6, .shl), (6, .shr), (7, .shl), (7, .id), (0, .id), (2, .id), (3, .id), (4, .id), (5, .id), (6, .id)],
   [(0, .shr), (1, .shl), (1, .shr), (2, .shl), (3, .shr), (4, .shl), (5, .shr), (6, .shl), (6, .shr), (7, .shl), (7, .id), (0, .id), (3, .id), (4, .id), (5, .id)]]

theorem lfsr12_tab (S M : W8) : lfsr12 S M = evalTab M t12 S := rfl
theorem lfsr1_tab (U H : W8) : lfsr1 U H = evalTab H t1 U := rfl
theorem lfsr61_tab (V : W8) : lfsr61 V = evalTab1 t61 V := rfl

/-! ## XOR-additivity -/

theorem and_xor (a b m : UInt32) : (a ^^^ b) &&& m = (a &&& m) ^^^ (b &&& m) := by
  apply UInt32.toNat_inj.mp
  simp only [UInt32.toNat_and, UInt32.toNat_xor, Nat.and_xor_distrib_right]

theorem Op.ev_xor (op : Op) (p q : UInt32) : op.ev (p ^^^ q) = op.ev p ^^^ op.ev q := by
  cases op <;> simp only [Op.ev, and_xor, UInt32.shiftLeft_xor, UInt32.shiftRight_xor]

theorem word_xor8 (x y : W8) (i : Nat) : word (xor8 x y) i = word x i ^^^ word y i := by
  unfold word; split <;> rfl

theorem xor4 (a b c d : UInt32) : (a ^^^ b) ^^^ (c ^^^ d) = (a ^^^ c) ^^^ (b ^^^ d) := by ac_rfl

theorem evalRow_cons (a : UInt32) (t : Nat × Op) (ts : Row) (v : W8) :
    evalRow a (t :: ts) v = evalRow (a ^^^ t.2.ev (word v t.1)) ts v := rfl

theorem evalRow_add (a b : UInt32) (row : Row) (x y : W8) :
    evalRow (a ^^^ b) row (xor8 x y) = evalRow a row x ^^^ evalRow b row y := by
  induction row generalizing a b with
  | nil => rfl
  | cons t ts ih =>
    rw [evalRow_cons, evalRow_cons, evalRow_cons, word_xor8, Op.ev_xor, xor4]
    exact ih _ _

theorem evalRow1_add (row : Row) (x y : W8) : evalRow1 row (xor8 x y) = evalRow1 row x ^^^ evalRow1 row y := by
  cases row with
  | nil => simp [evalRow1]
  | cons t ts => simp only [evalRow1, word_xor8, Op.ev_xor, evalRow_add]

theorem evalTab1_add (tab : Tab) (x y : W8) : evalTab1 tab (xor8 x y) = xor8 (evalTab1 tab x) (evalTab1 tab y) := by
  simp only [evalTab1, evalRow1_add]
  rfl

theorem evalRow_init (a c : UInt32) (row : Row) (v : W8) : evalRow (a ^^^ c) row v = a ^^^ evalRow c row v := by
  induction row generalizing c with
  | nil => rfl
  | cons t ts ih => rw [evalRow_cons, evalRow_cons, UInt32.xor_assoc]; exact ih _

theorem evalTab_split (init : W8) (tab : Tab) (v : W8) : evalTab init tab v = xor8 init (evalTab W8.zero tab v) := by
  have h : ∀ (a : UInt32) (row : Row), evalRow a row v = a ^^^ evalRow 0 row v := by
    intro a row
    have := evalRow_init a 0 row v
    rwa [UInt32.xor_zero] at this
  simp only [evalTab, xor8, W8.zero]
  rw [h init.w0, h init.w1, h init.w2, h init.w3, h init.w4, h init.w5, h init.w6, h init.w7]

theorem evalTab0_add (tab : Tab) (x y : W8) :
    evalTab W8.zero tab (xor8 x y) = xor8 (evalTab W8.zero tab x) (evalTab W8.zero tab y) := by
  have h : ∀ row : Row, evalRow 0 row (xor8 x y) = evalRow 0 row x ^^^ evalRow 0 row y := by
    intro row
    have := evalRow_add 0 0 row x y
    rwa [UInt32.xor_zero] at this
  simp only [evalTab, W8.zero, h]
  rfl

/-! ### ψ on numbers -/

theorem ofNat_xor (a b : Nat) : UInt32.ofNat (a ^^^ b) = UInt32.ofNat a ^^^ UInt32.ofNat b := by
  apply UInt32.toNat_inj.mp
  simp only [UInt32.toNat_xor, UInt32.toNat_ofNat']
  exact Nat.xor_mod_two_pow

theorem wordsOfNat_xor (a b : Nat) : wordsOfNat (a ^^^ b) = xor8 (wordsOfNat a) (wordsOfNat b) := by
  simp only [wordsOfNat, xor8, Nat.xor_div_two_pow, ofNat_xor]

theorem toNat_xor8 (x y : W8) : (xor8 x y).toNat = x.toNat ^^^ y.toNat := by
  have h : xor8 x y = wordsOfNat (x.toNat ^^^ y.toNat) := by
    rw [wordsOfNat_xor, wordsOfNat_toNat, wordsOfNat_toNat]
  rw [h, toNat_wordsOfNat]
  exact Nat.mod_eq_of_lt (Nat.xor_lt_two_pow (W8.toNat_lt x) (W8.toNat_lt y))

theorem eta_xor (a b k : Nat) : eta (a ^^^ b) k = eta a k ^^^ eta b k := by
  unfold eta
  rw [Nat.shiftRight_xor_distrib, Nat.and_xor_distrib_right]

theorem psi_xor (a b : Nat) : psi (a ^^^ b) = psi a ^^^ psi b := by
  unfold psi
  simp only [eta_xor, Nat.shiftRight_xor_distrib, Nat.shiftLeft_xor_distrib]
  generalize eta a 1 <<< 240 = a1; generalize eta a 2 <<< 240 = a2; generalize eta a 3 <<< 240 = a3
  generalize eta a 4 <<< 240 = a4; generalize eta a 13 <<< 240 = a5; generalize eta a 16 <<< 240 = a6
  generalize eta b 1 <<< 240 = b1; generalize eta b 2 <<< 240 = b2; generalize eta b 3 <<< 240 = b3
  generalize eta b 4 <<< 240 = b4; generalize eta b 13 <<< 240 = b5; generalize eta b 16 <<< 240 = b6
  generalize a >>> 16 = a0; generalize b >>> 16 = b0
  ac_rfl

theorem repeat_psi_xor (k a b : Nat) : Nat.repeat psi k (a ^^^ b) = Nat.repeat psi k a ^^^ Nat.repeat psi k b := by
  induction k with
  | zero => rfl
  | succ k ih => simp only [Nat.repeat, ih, psi_xor]

theorem psiPow_add (k : Nat) (x y : W8) : psiPow k (xor8 x y) = xor8 (psiPow k x) (psiPow k y) := by
  simp only [psiPow, toNat_xor8, repeat_psi_xor, wordsOfNat_xor]

/-! ## the three LFSR blocks are ψ^12, ψ, ψ^61 -/

set_option maxRecDepth 10000 in
/-- "Final 61 rounds of LFSR" -/
theorem lfsr61_eq (V : W8) : lfsr61 V = psiPow 61 V :=
  ext256 lfsr61 (psiPow 61) (fun x y => by simp only [lfsr61_tab, evalTab1_add]) (psiPow_add 61)
    (by decide +kernel) (by decide +kernel) V

set_option maxRecDepth 10000 in
/-- "(1 round of LFSR) xor Hprev" -/
theorem lfsr1_eq (U H : W8) : lfsr1 U H = xor8 H (psiPow 1 U) := by
  rw [lfsr1_tab, evalTab_split]
  congr 1
  exact ext256 (evalTab W8.zero t1) (psiPow 1) (evalTab0_add t1) (psiPow_add 1) (by decide +kernel) (by decide +kernel) U

set_option maxRecDepth 10000 in
/-- "(12 rounds of LFSR) xor M" -/
theorem lfsr12_eq (S M : W8) : lfsr12 S M = xor8 M (psiPow 12 S) := by
  rw [lfsr12_tab, evalTab_split]
  congr 1
  exact ext256 (evalTab W8.zero t12) (psiPow 12) (evalTab0_add t12) (psiPow_add 12) (by decide +kernel) (by decide +kernel) S

/-! ## `P_GOST_3411_P` is the byte permutation φ -/

theorem mod256_xor (a b : UInt32) : (a ^^^ b) % 256 = a % 256 ^^^ b % 256 := by
  apply UInt32.toNat_inj.mp
  simp only [UInt32.toNat_mod, UInt32.toNat_xor]
  exact Nat.xor_mod_two_pow (n := 8)

theorem mod256_and (x : UInt32) : x % (256 : UInt32) = x &&& (0x000000FF : UInt32) :=
  ext32 (· ^^^ ·) (fun x => x % (256 : UInt32)) (fun x => x &&& (0x000000FF : UInt32))
    (fun a b => by simp only [mod256_xor]) (fun a b => by simp only [and_xor]) (by decide) (by decide) x

theorem byte_0_1 (x : UInt32) : ((x) &&& (0x000000FF : UInt32)) <<< 8 = (x <<< 8) &&& (0x0000FF00 : UInt32) :=
  ext32 (· ^^^ ·) (fun x => ((x) &&& (0x000000FF : UInt32)) <<< 8) (fun x => (x <<< 8) &&& (0x0000FF00 : UInt32))
    (fun a b => by simp only [and_xor, UInt32.shiftLeft_xor, UInt32.shiftRight_xor])
    (fun a b => by simp only [and_xor, UInt32.shiftLeft_xor, UInt32.shiftRight_xor])
    (by decide) (by decide) x

theorem byte_0_2 (x : UInt32) : ((x) &&& (0x000000FF : UInt32)) <<< 16 = (x <<< 16) &&& (0x00FF0000 : UInt32) :=
  ext32 (· ^^^ ·) (fun x => ((x) &&& (0x000000FF : UInt32)) <<< 16) (fun x => (x <<< 16) &&& (0x00FF0000 : UInt32))
    (fun a b => by simp only [and_xor, UInt32.shiftLeft_xor, UInt32.shiftRight_xor])
    (fun a b => by simp only [and_xor, UInt32.shiftLeft_xor, UInt32.shiftRight_xor])
    (by decide) (by decide) x

theorem byte_0_3 (x : UInt32) : ((x) &&& (0x000000FF : UInt32)) <<< 24 = (x <<< 24) &&& (0xFF000000 : UInt32) :=
  ext32 (· ^^^ ·) (fun x => ((x) &&& (0x000000FF : UInt32)) <<< 24) (fun x => (x <<< 24) &&& (0xFF000000 : UInt32))
    (fun a b => by simp only [and_xor, UInt32.shiftLeft_xor, UInt32.shiftRight_xor])
    (fun a b => by simp only [and_xor, UInt32.shiftLeft_xor, UInt32.shiftRight_xor])
    (by decide) (by decide) x

theorem byte_1_1 (x : UInt32) : ((x >>> 8) &&& (0x000000FF : UInt32)) <<< 8 = x &&& (0x0000FF00 : UInt32) :=
  ext32 (· ^^^ ·) (fun x => ((x >>> 8) &&& (0x000000FF : UInt32)) <<< 8) (fun x => x &&& (0x0000FF00 : UInt32))
    (fun a b => by simp only [and_xor, UInt32.shiftLeft_xor, UInt32.shiftRight_xor])
    (fun a b => by simp only [and_xor, UInt32.shiftLeft_xor, UInt32.shiftRight_xor])
    (by decide) (by decide) x

theorem byte_1_2 (x : UInt32) : ((x >>> 8) &&& (0x000000FF : UInt32)) <<< 16 = (x <<< 8) &&& (0x00FF0000 : UInt32) :=
  ext32 (· ^^^ ·) (fun x => ((x >>> 8) &&& (0x000000FF : UInt32)) <<< 16) (fun x => (x <<< 8) &&& (0x00FF0000 : UInt32))
    (fun a b => by simp only [and_xor, UInt32.shiftLeft_xor, UInt32.shiftRight_xor])
    (fun a b => by simp only [and_xor, UInt32.shiftLeft_xor, UInt32.shiftRight_xor])
    (by decide) (by decide) x

theorem byte_1_3 (x : UInt32) : ((x >>> 8) &&& (0x000000FF : UInt32)) <<< 24 = (x <<< 16) &&& (0xFF000000 : UInt32) :=
  ext32 (· ^^^ ·) (fun x => ((x >>> 8) &&& (0x000000FF : UInt32)) <<< 24) (fun x => (x <<< 16) &&& (0xFF000000 : UInt32))
    (fun a b => by simp only [and_xor, UInt32.shiftLeft_xor, UInt32.shiftRight_xor])
    (fun a b => by simp only [and_xor, UInt32.shiftLeft_xor, UInt32.shiftRight_xor])
    (by decide) (by decide) x

theorem byte_2_1 (x : UInt32) : ((x >>> 16) &&& (0x000000FF : UInt32)) <<< 8 = (x >>> 8) &&& (0x0000FF00 : UInt32) :=
  ext32 (· ^^^ ·) (fun x => ((x >>> 16) &&& (0x000000FF : UInt32)) <<< 8) (fun x => (x >>> 8) &&& (0x0000FF00 : UInt32))
    (fun a b => by simp only [and_xor, UInt32.shiftLeft_xor, UInt32.shiftRight_xor])
    (fun a b => by simp only [and_xor, UInt32.shiftLeft_xor, UInt32.shiftRight_xor])
    (by decide) (by decide) x

theorem byte_2_2 (x : UInt32) : ((x >>> 16) &&& (0x000000FF : UInt32)) <<< 16 = x &&& (0x00FF0000 : UInt32) :=
  ext32 (· ^^^ ·) (fun x => ((x >>> 16) &&& (0x000000FF : UInt32)) <<< 16) (fun x => x &&& (0x00FF0000 : UInt32))
    (fun a b => by simp only [and_xor, UInt32.shiftLeft_xor, UInt32.shiftRight_xor])
    (fun a b => by simp only [and_xor, UInt32.shiftLeft_xor, UInt32.shiftRight_xor])
    (by decide) (by decide) x

theorem byte_2_3 (x : UInt32) : ((x >>> 16) &&& (0x000000FF : UInt32)) <<< 24 = (x <<< 8) &&& (0xFF000000 : UInt32) :=
  ext32 (· ^^^ ·) (fun x => ((x >>> 16) &&& (0x000000FF : UInt32)) <<< 24) (fun x => (x <<< 8) &&& (0xFF000000 : UInt32))
    (fun a b => by simp only [and_xor, UInt32.shiftLeft_xor, UInt32.shiftRight_xor])
    (fun a b => by simp only [and_xor, UInt32.shiftLeft_xor, UInt32.shiftRight_xor])
    (by decide) (by decide) x

theorem byte_3_1 (x : UInt32) : ((x >>> 24) &&& (0x000000FF : UInt32)) <<< 8 = (x >>> 16) &&& (0x0000FF00 : UInt32) :=
  ext32 (· ^^^ ·) (fun x => ((x >>> 24) &&& (0x000000FF : UInt32)) <<< 8) (fun x => (x >>> 16) &&& (0x0000FF00 : UInt32))
    (fun a b => by simp only [and_xor, UInt32.shiftLeft_xor, UInt32.shiftRight_xor])
    (fun a b => by simp only [and_xor, UInt32.shiftLeft_xor, UInt32.shiftRight_xor])
    (by decide) (by decide) x

theorem byte_3_2 (x : UInt32) : ((x >>> 24) &&& (0x000000FF : UInt32)) <<< 16 = (x >>> 8) &&& (0x00FF0000 : UInt32) :=
  ext32 (· ^^^ ·) (fun x => ((x >>> 24) &&& (0x000000FF : UInt32)) <<< 16) (fun x => (x >>> 8) &&& (0x00FF0000 : UInt32))
    (fun a b => by simp only [and_xor, UInt32.shiftLeft_xor, UInt32.shiftRight_xor])
    (fun a b => by simp only [and_xor, UInt32.shiftLeft_xor, UInt32.shiftRight_xor])
    (by decide) (by decide) x

theorem byte_3_3 (x : UInt32) : ((x >>> 24) &&& (0x000000FF : UInt32)) <<< 24 = x &&& (0xFF000000 : UInt32) :=
  ext32 (· ^^^ ·) (fun x => ((x >>> 24) &&& (0x000000FF : UInt32)) <<< 24) (fun x => x &&& (0xFF000000 : UInt32))
    (fun a b => by simp only [and_xor, UInt32.shiftLeft_xor, UInt32.shiftRight_xor])
    (fun a b => by simp only [and_xor, UInt32.shiftLeft_xor, UInt32.shiftRight_xor])
    (by decide) (by decide) x

theorem range32 : List.range 32 = [0,1,2,3,4,5,6,7,8,9,10,11,12,13,14,15,16,17,18,19,20,21,22,23,24,25,26,27,28,29,30,31] := by decide

theorem transP_eq (d : W8) : transP d = P d := by
  cases d
  symm
  simp only [P, range32, bytesOfW8, W8.toList, bytesOfWord, List.flatMap_cons, List.flatMap_nil, List.cons_append,
    List.nil_append, List.map_cons, List.map_nil, phi]
  simp [w8OfBytes, le32]
  simp only [mod256_and]
  simp only [byte_1_1, byte_1_2, byte_1_3, byte_2_1, byte_2_2, byte_2_3, byte_3_1, byte_3_2, byte_3_3]
  simp only [byte_0_1, byte_0_2, byte_0_3]
  rfl

/-! ## GOST 28147-89: the unrolled 32 rounds are `E` -/

set_option maxRecDepth 10000 in
theorem sb_table : ∀ i, i < 8 → ∀ v, v < 16 → kBlock[16 * i + v]! = UInt32.ofNat ((gostKBlock.getD i []).getD v 0) := by decide +kernel

theorem nib_lt (x : UInt32) : (x &&& (0xF : UInt32)).toNat < 16 := by
  rw [UInt32.toNat_and]
  have := Nat.and_le_right (n := x.toNat) (m := (0xF : UInt32).toNat)
  have e : (0xF : UInt32).toNat = 15 := rfl
  omega

theorem sb_eq (i : Nat) (hi : i < 8) (x : UInt32) : sb i x = sbox i (x &&& (0xF : UInt32)) := by
  unfold sb sbox
  exact sb_table i hi _ (nib_lt x)

theorem range8 : List.range 8 = [0,1,2,3,4,5,6,7] := by decide

theorem subst_eq (x : UInt32) : subst x =
    sb 0 x ||| (sb 1 (x >>> 4) <<< 4) ||| (sb 2 (x >>> 8) <<< 8) ||| (sb 3 (x >>> 12) <<< 12)
    ||| (sb 4 (x >>> 16) <<< 16) ||| (sb 5 (x >>> 20) <<< 20) ||| (sb 6 (x >>> 24) <<< 24) ||| (sb 7 (x >>> 28) <<< 28) := by
  simp only [sb_eq _ (by decide : (0:Nat) < 8), sb_eq _ (by decide : (1:Nat) < 8), sb_eq _ (by decide : (2:Nat) < 8),
    sb_eq _ (by decide : (3:Nat) < 8), sb_eq _ (by decide : (4:Nat) < 8), sb_eq _ (by decide : (5:Nat) < 8),
    sb_eq _ (by decide : (6:Nat) < 8), sb_eq _ (by decide : (7:Nat) < 8)]
  simp [subst, range8]

theorem round_eq (n0 n1 k : UInt32) : Gost.round n0 n1 k = roundE (n0, n1) k := by
  simp only [Gost.round, roundE, rotl11, subst_eq]

set_option maxRecDepth 100000 in
theorem encrypt_fold (d0 d1 : UInt32) (k : W8) :
    encrypt d0 d1 k =
      (let r := ([k.w0, k.w1, k.w2, k.w3, k.w4, k.w5, k.w6, k.w7, k.w0, k.w1, k.w2, k.w3, k.w4, k.w5, k.w6, k.w7,
                  k.w0, k.w1, k.w2, k.w3, k.w4, k.w5, k.w6, k.w7, k.w7, k.w6, k.w5, k.w4, k.w3, k.w2, k.w1, k.w0] : List UInt32).foldl
          (fun n key => Gost.round n.1 n.2 key) (d0, d1)
       (r.2, r.1)) := by
  rfl

theorem encrypt_eq (d0 d1 : UInt32) (k : W8) : encrypt d0 d1 k = E k d0 d1 := by
  rw [encrypt_fold]
  unfold E
  have hk : keyOrder.map (fun i => k.toList.getD i 0) =
      [k.w0, k.w1, k.w2, k.w3, k.w4, k.w5, k.w6, k.w7, k.w0, k.w1, k.w2, k.w3, k.w4, k.w5, k.w6, k.w7,
       k.w0, k.w1, k.w2, k.w3, k.w4, k.w5, k.w6, k.w7, k.w7, k.w6, k.w5, k.w4, k.w3, k.w2, k.w1, k.w0] := by
    cases k; rfl
  rw [← hk, List.foldl_map]
  simp only [round_eq]

/-! ## key generation: the in-place updates of `U[]`, `V[]` are `A`, `A∘A` and the constants `C2…C4` -/

theorem C3_words : C3 = ⟨0xff00ff00, 0xff00ff00, 0x00ff00ff, 0x00ff00ff, 0x00ffff00, 0xff0000ff, 0x000000ff, 0xff00ffff⟩ := by decide
theorem c3_vals : c3 0 = 0x000000FF ∧ c3 1 = 0xFF00FFFF ∧ c3 2 = 0xFF00FF00 ∧ c3 3 = 0xFF00FF00 ∧ c3 4 = 0x00FF00FF ∧
    c3 5 = 0x00FF00FF ∧ c3 6 = 0x00FFFF00 ∧ c3 7 = 0xFF0000FF := by decide

theorem keyGenW_eq (h m : W8) : keyGenW h m = keyW h m := by
  cases h; cases m
  obtain ⟨e0, e1, e2, e3, e4, e5, e6, e7⟩ := c3_vals
  simp only [keyGenW, keyW, A, xor8, C2, C4, C3_words, W8.zero, e0, e1, e2, e3, e4, e5, e6, e7, UInt32.xor_zero,
    Prod.mk.injEq, W8.mk.injEq]
  simp only [UInt32.xor_assoc, and_self]

/-- **the step function of the C code is the standard's χ** -/
theorem step_eq_chi (h m : W8) : Gost.step h m = GostStd.chi h m := by
  unfold Gost.step GostStd.chi
  simp only [keyGenW_eq, transP_eq, encrypt_eq, lfsr12_eq, lfsr1_eq, lfsr61_eq]

end PV.HashX.GostProof

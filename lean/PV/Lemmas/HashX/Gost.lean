import PV.Model.HashX.Gost
import PV.Spec.HashX
import PV.Lemmas.HashX.Stream
/-!
# GOST R 34.11-94: the streaming context computes the one-shot hash

The 256-bit counters: `sum256` (the C ripple-carry loop with the exact carry) is addition modulo
`2^256`; the bit counter therefore holds `8 · (bytes so far) mod 2^256` and the checksum the sum of
the blocks, for all lengths.
-/
namespace PV.HashX.Gost
open PV.HashX PV.HashX.Spec PV.Generated.HashX

/-! ## 256-bit arithmetic -/

theorem addc_spec (a b : UInt32) (c : Bool) :
    (addc a b c).1.toNat + 2 ^ 32 * (addc a b c).2.toNat = a.toNat + b.toNat + c.toNat := by
  have ha := a.toNat_lt
  have hb := b.toNat_lt
  cases c
  · simp only [addc, Bool.false_eq_true, if_false, Bool.false_and, Bool.or_false, Bool.toNat_false, UInt32.add_zero]
    by_cases h : a + b < a
    · simp only [h, decide_true, Bool.toNat_true]
      rw [UInt32.lt_iff_toNat_lt, UInt32.toNat_add] at h
      rw [UInt32.toNat_add]
      omega
    · simp only [h, decide_false, Bool.toNat_false]
      rw [UInt32.lt_iff_toNat_lt, UInt32.toNat_add] at h
      rw [UInt32.toNat_add]
      omega
  · simp only [addc, if_true, Bool.true_and, Bool.toNat_true]
    have hr : (a + b + 1).toNat = (a.toNat + b.toNat + 1) % 2 ^ 32 := by
      rw [UInt32.toNat_add, UInt32.toNat_add]; simp
    by_cases h : a + b + 1 < a
    · simp only [h, decide_true, Bool.true_or, Bool.toNat_true]
      rw [UInt32.lt_iff_toNat_lt, hr] at h
      rw [hr]; omega
    · by_cases h2 : a + b + 1 = a
      · have := congrArg UInt32.toNat h2
        rw [hr] at this
        simp only [h2, beq_self_eq_true, Bool.or_true, Bool.toNat_true]
        omega
      · have hne : (a + b + 1 == a) = false := by simpa using h2
        simp only [h, hne, decide_false, Bool.or_false, Bool.toNat_false]
        rw [UInt32.lt_iff_toNat_lt, hr] at h
        have : (a + b + 1).toNat ≠ a.toNat := fun e => h2 (UInt32.toNat_inj.mp e)
        rw [hr] at this
        rw [hr]; omega

theorem W8.toNat_lt (a : W8) : a.toNat < 2 ^ 256 := by
  have := a.w0.toNat_lt; have := a.w1.toNat_lt; have := a.w2.toNat_lt; have := a.w3.toNat_lt
  have := a.w4.toNat_lt; have := a.w5.toNat_lt; have := a.w6.toNat_lt; have := a.w7.toNat_lt
  unfold W8.toNat
  omega

/-- **the C adder is addition modulo `2^256`** -/
theorem sum256_toNat (a b : W8) : (sum256 a b).toNat = (a.toNat + b.toNat) % 2 ^ 256 := by
  unfold sum256
  simp only
  have e0 := addc_spec a.w0 b.w0 false
  generalize addc a.w0 b.w0 false = s0 at e0 ⊢
  have e1 := addc_spec a.w1 b.w1 s0.2
  generalize addc a.w1 b.w1 s0.2 = s1 at e1 ⊢
  have e2 := addc_spec a.w2 b.w2 s1.2
  generalize addc a.w2 b.w2 s1.2 = s2 at e2 ⊢
  have e3 := addc_spec a.w3 b.w3 s2.2
  generalize addc a.w3 b.w3 s2.2 = s3 at e3 ⊢
  have e4 := addc_spec a.w4 b.w4 s3.2
  generalize addc a.w4 b.w4 s3.2 = s4 at e4 ⊢
  have e5 := addc_spec a.w5 b.w5 s4.2
  generalize addc a.w5 b.w5 s4.2 = s5 at e5 ⊢
  have e6 := addc_spec a.w6 b.w6 s5.2
  generalize addc a.w6 b.w6 s5.2 = s6 at e6 ⊢
  have e7 := addc_spec a.w7 b.w7 s6.2
  generalize addc a.w7 b.w7 s6.2 = s7 at e7 ⊢
  unfold W8.toNat
  simp only [Bool.toNat_false] at *
  have := s0.1.toNat_lt; have := s1.1.toNat_lt; have := s2.1.toNat_lt; have := s3.1.toNat_lt
  have := s4.1.toNat_lt; have := s5.1.toNat_lt; have := s6.1.toNat_lt; have := s7.1.toNat_lt
  have := Bool.toNat_le s7.2
  generalize s0.2.toNat = c1 at *
  generalize s1.2.toNat = c2 at *
  generalize s2.2.toNat = c3 at *
  generalize s3.2.toNat = c4 at *
  generalize s4.2.toNat = c5 at *
  generalize s5.2.toNat = c6 at *
  generalize s6.2.toNat = c7 at *
  generalize s7.2.toNat = c8 at *
  omega

theorem W8.ext' {a b : W8} (h0 : a.w0 = b.w0) (h1 : a.w1 = b.w1) (h2 : a.w2 = b.w2) (h3 : a.w3 = b.w3)
    (h4 : a.w4 = b.w4) (h5 : a.w5 = b.w5) (h6 : a.w6 = b.w6) (h7 : a.w7 = b.w7) : a = b := by
  cases a; cases b; simp_all

theorem wordsOfNat_toNat (a : W8) : wordsOfNat a.toNat = a := by
  have := a.w0.toNat_lt; have := a.w1.toNat_lt; have := a.w2.toNat_lt; have := a.w3.toNat_lt
  have := a.w4.toNat_lt; have := a.w5.toNat_lt; have := a.w6.toNat_lt; have := a.w7.toNat_lt
  apply W8.ext' <;> apply UInt32.toNat_inj.mp <;>
    simp only [wordsOfNat, UInt32.toNat_ofNat', W8.toNat] <;> omega

theorem toNat_wordsOfNat (n : Nat) : (wordsOfNat n).toNat = n % 2 ^ 256 := by
  simp only [wordsOfNat, UInt32.toNat_ofNat', W8.toNat]
  omega

theorem W8.toNat_inj {a b : W8} (h : a.toNat = b.toNat) : a = b := by
  rw [← wordsOfNat_toNat a, ← wordsOfNat_toNat b, h]

theorem W8.zero_toNat : W8.zero.toNat = 0 := by decide

/-! ## the counters of `update` -/

theorem W8.w0_toNat (a : W8) : a.w0.toNat = a.toNat % 2 ^ 32 := by
  have := a.w0.toNat_lt
  unfold W8.toNat; omega

theorem and_ff (x : UInt32) : (x &&& (0xFF : UInt32)).toNat = x.toNat % 256 := by
  rw [UInt32.toNat_and]
  exact Nat.and_two_pow_sub_one_eq_mod x.toNat 8

theorem left_spec (l : W8) (k : Nat) (h : l.toNat = (8 * k) % 2 ^ 256) :
    ((l.w0 &&& (0xFF : UInt32)) >>> (3 : UInt32)).toNat = k % 32 := by
  have e : (3 : UInt32).toNat % 32 = 3 := rfl
  rw [UInt32.toNat_shiftRight, e, and_ff, W8.w0_toNat, h, Nat.shiftRight_eq_div_pow]
  omega

theorem len256_toNat (n : Nat) (hn : n < 2 ^ 61) :
    (W8.mk (n.toUInt64 <<< 3).toUInt32 (n.toUInt64 >>> 29).toUInt32 0 0 0 0 0 0).toNat = 8 * n := by
  have h0 : n.toUInt64.toNat = n := by simp; omega
  simp only [W8.toNat, UInt64.toNat_toUInt32, UInt64.toNat_shiftLeft, UInt64.toNat_shiftRight, h0,
    Nat.shiftLeft_eq, Nat.shiftRight_eq_div_pow]
  simp
  omega

theorem updateHead_spec (ctx : Ctx) (k : Nat) (hlen : ctx.len.toNat = (8 * k) % 2 ^ 256) (n : Nat) (hn : n < 2 ^ 61) :
    ∃ l' : W8, updateHead ctx n = (k % 32, decide (k % 32 ≠ 0 ∧ 32 - k % 32 ≤ n), l') ∧
      l'.toNat = (8 * (k + n)) % 2 ^ 256 := by
  have hl := left_spec ctx.len k hlen
  have hk : k % 32 < 32 := Nat.mod_lt _ (by omega)
  have h0 : n.toUInt64.toNat = n := by simp; omega
  refine ⟨_, Prod.ext ?_ (Prod.ext ?_ rfl), ?_⟩
  · exact hl
  · simp only [updateHead]
    rw [Bool.eq_iff_iff]
    have hle : ((ctx.len.w0 &&& (0xFF : UInt32)) >>> (3 : UInt32)) ≤ (32 : UInt32) := by
      rw [UInt32.le_iff_toNat_le, hl]; simp; omega
    simp only [Bool.and_eq_true, bne_iff_ne, ne_eq, ge_iff_le, decide_eq_true_eq, UInt64.le_iff_toNat_le,
      UInt32.toNat_toUInt64, UInt32.toNat_sub_of_le _ _ hle, hl, h0, ← UInt32.toNat_inj]
    simp
  · simp only [updateHead]
    rw [sum256_toNat, len256_toNat n hn, hlen]
    omega

/-! ## blocks -/

theorem foldl_processBlock (bs : List Bytes) (h s : W8) :
    bs.foldl processBlock (h, s) = ((bs.map w8OfBytes).foldl step h, (bs.map w8OfBytes).foldl sum256 s) := by
  induction bs generalizing h s with
  | nil => rfl
  | cons b bs ih => simp only [List.foldl_cons, List.map_cons, processBlock, ih]

theorem foldl_add_toNat (bs : List W8) (a : Nat) :
    bs.foldl (fun s b => s + b.toNat) a = a + bs.foldl (fun s b => s + b.toNat) 0 := by
  induction bs generalizing a with
  | nil => simp
  | cons b bs ih => simp only [List.foldl_cons]; rw [ih, ih (0 + b.toNat)]; omega

theorem foldl_sum256_toNat (bs : List W8) (s : W8) :
    (bs.foldl sum256 s).toNat = (s.toNat + bs.foldl (fun s b => s + b.toNat) 0) % 2 ^ 256 := by
  induction bs generalizing s with
  | nil => simp; exact (Nat.mod_eq_of_lt (W8.toNat_lt s)).symm
  | cons b bs ih =>
    simp only [List.foldl_cons]
    rw [ih, sum256_toNat, foldl_add_toNat bs (0 + b.toNat)]
    omega

/-! ## the streaming invariant -/

structure GInv (ctx : Ctx) (m : Bytes) : Prop where
  len : ctx.len.toNat = (8 * m.length) % 2 ^ 256
  inv : Inv 32 processBlock (W8.zero, W8.zero) ⟨(ctx.hash, ctx.sum), ctx.buf⟩ m

theorem init_inv : GInv init [] := by
  refine ⟨by decide, ⟨?_, ?_, ?_⟩⟩
  · rw [blocks_short (show ([] : Bytes).length < 32 by decide)]; rfl
  · rw [rest_short (show ([] : Bytes).length < 32 by decide)]; rfl
  · decide

theorem update_inv {ctx : Ctx} {m : Bytes} (h : GInv ctx m) (data : Bytes) (hn : data.length < 2 ^ 61) :
    GInv (update ctx data) (m ++ data) := by
  obtain ⟨l', hh, hl⟩ := updateHead_spec ctx m.length h.len data.length hn
  have hu : update ctx data =
      (let c := feed 32 processBlock (m.length % 32) (decide (m.length % 32 ≠ 0 ∧ 32 - m.length % 32 ≤ data.length))
        ⟨(ctx.hash, ctx.sum), ctx.buf⟩ data
      { buf := c.buf, hash := c.st.1, len := l', sum := c.st.2 }) := by
    simp only [update, hh, gostBlock]
  have := feed_inv (B := 32) (by omega) h.inv data (m.length % 32) rfl _ rfl
  rw [hu]
  refine ⟨?_, this.1⟩
  simp only [hl, List.length_append]

theorem updateZeros_eq (ctx : Ctx) (n : Nat) : updateZeros ctx n = update ctx (List.replicate n 0) := by
  simp only [updateZeros, update, List.length_replicate, feedZ_eq]

theorem foldl_update_inv (chunks : List Bytes) (hc : ∀ c ∈ chunks, c.length < 2 ^ 61) {ctx : Ctx} {m : Bytes}
    (h : GInv ctx m) : GInv (chunks.foldl update ctx) (m ++ chunks.flatten) := by
  induction chunks generalizing ctx m with
  | nil => simpa using h
  | cons c cs ih =>
    simp only [List.foldl_cons, List.flatten_cons, ← List.append_assoc]
    exact ih (fun x hx => hc x (by simp [hx])) (update_inv h c (hc c (by simp)))

/-! ## finishing -/

theorem gostBlocks_eq (m : Bytes) :
    gostBlocks m = (blocks 32 m).map w8OfBytes ++
      (if (rest 32 m).length = 0 then [] else [w8OfBytes (rest 32 m ++ List.replicate (32 - (rest 32 m).length) 0)]) := by
  unfold gostBlocks
  simp only [List.map_append]
  split <;> simp

theorem finish_spec {ctx : Ctx} {m : Bytes} (h : GInv ctx m) : digest (finish ctx) = gost m := by
  have hk : m.length % 32 < 32 := Nat.mod_lt _ (by omega)
  have hrl : (rest 32 m).length = m.length % 32 := rest_length (by omega) m
  have hst : (ctx.hash, ctx.sum) = (((blocks 32 m).map w8OfBytes).foldl step W8.zero,
      ((blocks 32 m).map w8OfBytes).foldl sum256 W8.zero) := by
    have := h.inv.st
    simp only at this
    rw [this, foldl_processBlock]
  have hh : ctx.hash = ((blocks 32 m).map w8OfBytes).foldl step W8.zero := congrArg Prod.fst hst
  have hs : ctx.sum = ((blocks 32 m).map w8OfBytes).foldl sum256 W8.zero := congrArg Prod.snd hst
  -- the C-width tests of `finish`
  have hleft : (ctx.len.w0 &&& (0xFF : UInt32)).toNat = (8 * m.length) % 256 := by
    rw [and_ff, W8.w0_toNat, h.len]; omega
  have hsh : ((ctx.len.w0 &&& (0xFF : UInt32)) >>> (3 : UInt32)).toNat = m.length % 32 := left_spec ctx.len m.length h.len
  have hle : ((ctx.len.w0 &&& (0xFF : UInt32)) >>> (3 : UInt32)) ≤ (32 : UInt32) := by
    rw [UInt32.le_iff_toNat_le, hsh]; simp; omega
  have hlast : ((32 : UInt32) - ((ctx.len.w0 &&& (0xFF : UInt32)) >>> (3 : UInt32))).toNat = 32 - m.length % 32 := by
    rw [UInt32.toNat_sub_of_le _ _ hle, hsh]; rfl
  have hcond : (((32 : UInt32) - ((ctx.len.w0 &&& (0xFF : UInt32)) >>> (3 : UInt32))) % (32 : UInt32) != 0)
      = decide (m.length % 32 ≠ 0) := by
    rw [Bool.eq_iff_iff]
    simp only [bne_iff_ne, ne_eq, decide_eq_true_eq, ← UInt32.toNat_inj, UInt32.toNat_mod, hlast]
    simp
    omega
  have hlen : ctx.len = wordsOfNat ((8 * m.length) % 2 ^ 256) := by
    apply W8.toNat_inj
    rw [toNat_wordsOfNat, h.len]; omega
  -- both branches reach the spec's block list
  have key : ∀ (h' s' : W8), h' = (gostBlocks m).foldl step W8.zero → s' = (gostBlocks m).foldl sum256 W8.zero →
      bytesOfW8 (step (step h' ctx.len) s') = gost m := by
    intro h' s' e1 e2
    unfold gost
    simp only
    rw [← e1, hlen]
    congr 2
    rw [e2]
    apply W8.toNat_inj
    rw [toNat_wordsOfNat, foldl_sum256_toNat, W8.zero_toNat]
    omega
  unfold digest finish
  simp only [hcond]
  by_cases hz : m.length % 32 = 0
  · simp only [hz, ne_eq, not_true_eq_false, decide_false, Bool.false_eq_true, if_false]
    apply key
    · rw [gostBlocks_eq, hrl, hz]; simpa using hh
    · rw [gostBlocks_eq, hrl, hz]; simpa using hs
  · simp only [hz, ne_eq, not_false_eq_true, decide_true, if_true]
    have hbt : (memcpyAt ctx.buf (m.length % 32) (List.replicate (32 - m.length % 32) 0)).take 32
        = rest 32 m ++ List.replicate (32 - (rest 32 m).length) 0 := by
      have := memcpyAt_take (buf := ctx.buf) (off := m.length % 32) (src := List.replicate (32 - m.length % 32) 0)
        (by have := h.inv.cap; simp only at this; omega)
      simp only [List.length_replicate] at this
      have e : m.length % 32 + (32 - m.length % 32) = 32 := by omega
      rw [e] at this
      rw [this, hrl, ← hrl, h.inv.buf, hrl]
    simp only [hsh, hlast, gostBlock, hbt, processBlock]
    apply key
    · rw [gostBlocks_eq, hrl]; simp [hz, List.foldl_append, ← hh]
    · rw [gostBlocks_eq, hrl]; simp [hz, List.foldl_append, ← hs]

/-- **chunking, GOST R 34.11-94**: any way of splitting the input into `update` calls (each chunk
    below `2^61` bytes, the range of the two length words the C code fills) gives the one-shot hash of
    the concatenation, for every total length (the bit counter is `mod 2^256` as in the standard) -/
theorem chunking (chunks : List Bytes) (hc : ∀ c ∈ chunks, c.length < 2 ^ 61) :
    digest (finish (chunks.foldl update init)) = gost chunks.flatten := by
  have inv := foldl_update_inv chunks hc init_inv
  simp only [List.nil_append] at inv
  exact finish_spec inv

end PV.HashX.Gost

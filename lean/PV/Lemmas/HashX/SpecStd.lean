import PV.Spec.HashXStd
import PV.Lemmas.HashX.KeccakStd
import PV.Lemmas.HashX.GostStd
/-!
# The one-shot specs over the models' compression functions = the fully standard-structured ones
-/
namespace PV.HashX.SpecStdProof
open PV.HashX PV.HashX.Keccak PV.HashX.Spec PV.HashX.KeccakProof PV.HashX.GostProof

theorem zeroState_size : zeroState.size = 25 := by simp [zeroState]

theorem absorbBlock_eq (r : Nat) (S : Lanes) (hs : S.size = 25) (P : Bytes) :
    Spec.absorbBlock r S P = SpecStd.absorbBlock r S P ∧ (SpecStd.absorbBlock r S P).size = 25 := by
  unfold Spec.absorbBlock SpecStd.absorbBlock
  have h : (S.mapIdx fun i x => x ^^^ lane (P ++ List.replicate (200 - r) 0).toArray i).size = 25 := by
    rw [Array.size_mapIdx]; exact hs
  exact ⟨keccakF_eq _ h, stdKeccakF_size _ h⟩

theorem foldl_absorb_eq (r : Nat) (bs : List Bytes) (S : Lanes) (hs : S.size = 25) :
    bs.foldl (Spec.absorbBlock r) S = bs.foldl (SpecStd.absorbBlock r) S ∧
    (bs.foldl (SpecStd.absorbBlock r) S).size = 25 := by
  induction bs generalizing S with
  | nil => simp only [List.foldl_nil]; exact ⟨trivial, hs⟩
  | cons b bs ih =>
    simp only [List.foldl_cons]
    rw [(absorbBlock_eq r S hs b).1]
    exact ih _ (absorbBlock_eq r S hs b).2

theorem squeeze_eq (r : Nat) (d : Nat) : ∀ (S : Lanes), S.size = 25 → Spec.squeeze r S d = SpecStd.squeeze r S d := by
  induction d using Nat.strongRecOn with
  | _ d ih =>
    intro S hs
    rw [Spec.squeeze, SpecStd.squeeze]
    by_cases h : 0 < r ∧ r < d
    · simp only [h, and_self, dite_true]
      rw [keccakF_eq S hs, ih (d - r) (by omega) _ (stdKeccakF_size S hs)]
    · simp only [h, dite_false]

/-- the sponge over the C code's permutation is the sponge over Keccak-f[1600] of FIPS 202 -/
theorem sponge_eq (r d : Nat) (m : Bytes) : Spec.sponge r d m = SpecStd.sponge r d m := by
  unfold Spec.sponge SpecStd.sponge
  obtain ⟨h1, h2⟩ := foldl_absorb_eq r (blocks r (pad r m)) zeroState zeroState_size
  rw [h1, squeeze_eq r d _ h2]

theorem sha3_eq (n : Nat) (m : Bytes) : Spec.sha3 n m = SpecStd.sha3 n m := sponge_eq _ _ m

/-- the GOST one-shot hash over the C code's step function is the one over the standard's χ -/
theorem gost_eq (m : Bytes) : Spec.gost m = SpecStd.gost m := by
  have h : Gost.step = GostStd.chi := by funext a b; exact step_eq_chi a b
  unfold Spec.gost SpecStd.gost
  rw [h]

end PV.HashX.SpecStdProof

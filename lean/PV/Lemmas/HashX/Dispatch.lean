import PV.Model.HashX.Dispatch
/-!
# The dispatcher: every history of update / reset / get_string / get_digest

`specStep` is what the user relies on: the visible digest is `F` of the chunks updated since
creation or the last reset *before the first read*; reads are repeatable; updates after a read are
ignored until reset; a `get_digest` into a buffer that is too small returns length 0 and is not a read.
-/
namespace PV.HashX

inductive Op where
  | upd (d : Bytes)
  | reset
  | str
  | dig (cap : Nat)

inductive Out where
  | ok
  | hex (s : String)
  | bytes (n : Nat) (b : Bytes)
deriving DecidableEq

namespace Hash
variable {A : Impl}

def step (h : Hash A) : Op → Hash A × Out
  | .upd d => (h.update d, .ok)
  | .reset => (h.reset, .ok)
  | .str => ((h.getString).1, .hex (h.getString).2)
  | .dig cap => ((h.getDigest cap).1, .bytes (h.getDigest cap).2.1 (h.getDigest cap).2.2)

def run (h : Hash A) : List Op → List Out
  | [] => []
  | op :: ops => (h.step op).2 :: run (h.step op).1 ops

end Hash

/-- the user's view: the non-empty chunks since creation / last reset before the first read -/
structure SpecSt where
  chunks : List Bytes
  closed : Bool

def specStep (hashLen : Nat) (F : List Bytes → Bytes) (s : SpecSt) : Op → SpecSt × Out
  | .upd d => (if d.length = 0 ∨ s.closed = true then s else { s with chunks := s.chunks ++ [d] }, .ok)
  | .reset => (⟨[], false⟩, .ok)
  | .str => ({ s with closed := true }, .hex (Hash.toHex (F s.chunks)))
  | .dig cap => if hashLen > cap then (s, .bytes 0 []) else ({ s with closed := true }, .bytes hashLen (F s.chunks))

def specRun (hashLen : Nat) (F : List Bytes → Bytes) (s : SpecSt) : List Op → List Out
  | [] => []
  | op :: ops => (specStep hashLen F s op).2 :: specRun hashLen F (specStep hashLen F s op).1 ops

/-- what the dispatcher needs from an algorithm: `reset` brings every reachable context back to `create ()` -/
structure ImplOK (A : Impl) where
  P : A.σ → Prop
  create : P A.create
  update : ∀ c d, P c → P (A.update c d)
  finish : ∀ c, P c → P (A.finish c)
  reset : ∀ c, P c → A.reset c = A.create

/-- the digest the streaming functions produce for a list of chunks -/
def streamDigest (A : Impl) (cs : List Bytes) : Bytes :=
  A.digest (A.finish (cs.foldl A.update A.create)) A.hashLen

/-- how a dispatcher state and the user's view correspond -/
structure Rel {A : Impl} (ok : ImplOK A) (h : Hash A) (s : SpecSt) : Prop where
  closed : h.closed = s.closed
  p : ok.P h.ctx
  open_ : s.closed = false → h.ctx = s.chunks.foldl A.update A.create
  shut : s.closed = true → A.digest h.ctx A.hashLen = streamDigest A s.chunks

theorem step_rel {A : Impl} (ok : ImplOK A) {h : Hash A} {s : SpecSt} (r : Rel ok h s) (op : Op) :
    (h.step op).2 = (specStep A.hashLen (streamDigest A) s op).2 ∧
    Rel ok (h.step op).1 (specStep A.hashLen (streamDigest A) s op).1 := by
  have hc := r.closed
  cases op with
  | upd d =>
    refine ⟨rfl, ?_⟩
    simp only [Hash.step, Hash.update, specStep]
    by_cases hd : d.length = 0
    · simp only [hd, if_true, true_or]; exact r
    · cases hs : s.closed
      · have ho := r.open_ hs
        rw [hs] at hc
        simp only [hd, hc, if_false, Bool.false_eq_true, or_self]
        refine ⟨by simp, ok.update _ _ r.p, ?_, ?_⟩
        · intro _; simp only [ho, List.foldl_append, List.foldl_cons, List.foldl_nil]
        · intro h'; simp at h'
      · rw [hs] at hc
        simp only [hd, hc, if_true, if_false, or_true]
        exact r
  | reset =>
    refine ⟨rfl, ?_⟩
    simp only [Hash.step, Hash.reset, specStep]
    exact ⟨rfl, by rw [ok.reset _ r.p]; exact ok.create, fun _ => by rw [ok.reset _ r.p]; rfl, fun h' => by simp at h'⟩
  | str =>
    simp only [Hash.step, Hash.getString, Hash.close, specStep]
    cases hs : s.closed
    · have ho := r.open_ hs
      rw [hs] at hc
      simp only [hc, Bool.not_false, if_true]
      refine ⟨?_, rfl, ok.finish _ r.p, fun h' => by simp at h', fun _ => ?_⟩
      · simp only [streamDigest, ho]
      · simp only [streamDigest, ho]
    · have hsh := r.shut hs
      rw [hs] at hc
      simp only [hc, Bool.not_true, Bool.false_eq_true, if_false]
      refine ⟨by rw [hsh], hc, r.p, fun h' => by simp at h', fun _ => hsh⟩
  | dig cap =>
    simp only [Hash.step, Hash.getDigest, specStep]
    by_cases hcap : A.hashLen > cap
    · simp only [hcap, if_true]; exact ⟨by first | rfl | trivial, r⟩
    · simp only [hcap, if_false, Hash.close]
      cases hs : s.closed
      · have ho := r.open_ hs
        rw [hs] at hc
        simp only [hc, Bool.not_false, if_true]
        refine ⟨?_, rfl, ok.finish _ r.p, fun h' => by simp at h', fun _ => ?_⟩
        · simp only [streamDigest, ho]
        · simp only [streamDigest, ho]
      · have hsh := r.shut hs
        rw [hs] at hc
        simp only [hc, Bool.not_true, Bool.false_eq_true, if_false]
        refine ⟨by rw [hsh], hc, r.p, fun h' => by simp at h', fun _ => hsh⟩

/-- **history, dispatcher part**: for every operation sequence the answers are those of the user's
    view with `F =` the digest the streaming functions give for the recorded chunks -/
theorem run_eq_specRun {A : Impl} (ok : ImplOK A) (ops : List Op) {h : Hash A} {s : SpecSt} (r : Rel ok h s) :
    h.run ops = specRun A.hashLen (streamDigest A) s ops := by
  induction ops generalizing h s with
  | nil => rfl
  | cons op ops ih =>
    obtain ⟨h1, h2⟩ := step_rel ok r op
    simp only [Hash.run, specRun]
    rw [h1, ih h2]

theorem new_rel {A : Impl} (ok : ImplOK A) : Rel ok (Hash.new A) ⟨[], false⟩ :=
  ⟨rfl, ok.create, fun _ => rfl, fun h => by simp at h⟩

/-- all chunks recorded by the user's view while running `ops` from `s` satisfy `Q` -/
def chunksOK (Q : Bytes → Prop) (ops : List Op) : Prop := ∀ d, Op.upd d ∈ ops → Q d

/-- the user's view only ever applies `F` to lists of chunks that were passed to `update` -/
theorem specRun_congr (hashLen : Nat) (F G : List Bytes → Bytes) (Q : Bytes → Prop)
    (hFG : ∀ cs, (∀ c ∈ cs, Q c) → F cs = G cs) (ops : List Op) (hops : chunksOK Q ops) (s : SpecSt)
    (hs : ∀ c ∈ s.chunks, Q c) : specRun hashLen F s ops = specRun hashLen G s ops := by
  induction ops generalizing s with
  | nil => rfl
  | cons op ops ih =>
    have hops' : chunksOK Q ops := fun d hd => hops d (List.mem_cons_of_mem _ hd)
    simp only [specRun]
    have e : specStep hashLen F s op = specStep hashLen G s op := by
      cases op <;> simp only [specStep, hFG s.chunks hs]
    rw [e]
    congr 1
    apply ih hops'
    cases op with
    | upd d =>
      simp only [specStep]
      split
      · exact hs
      · intro c hc
        rcases List.mem_append.mp hc with hc | hc
        · exact hs c hc
        · simp only [List.mem_singleton] at hc
          subst hc
          exact hops c (by simp)
    | reset => intro c hc; simp [specStep] at hc
    | str => exact hs
    | dig cap =>
      simp only [specStep]
      split <;> exact hs

/-- **history**: combine the dispatcher part with a chunking theorem `streamDigest = H ∘ flatten` -/
theorem history {A : Impl} (ok : ImplOK A) (H : Bytes → Bytes) (Q : Bytes → Prop)
    (hchunk : ∀ cs, (∀ c ∈ cs, Q c) → streamDigest A cs = H cs.flatten)
    (ops : List Op) (hops : chunksOK Q ops) :
    (Hash.new A).run ops = specRun A.hashLen (fun cs => H cs.flatten) ⟨[], false⟩ ops := by
  rw [run_eq_specRun ok ops (new_rel ok)]
  exact specRun_congr _ _ _ Q hchunk ops hops _ (by intro c hc; simp at hc)

/-! ## hex -/

def hexChars (d : Bytes) : List Char :=
  d.flatMap fun (b : UInt8) => [Hash.hexDigit ((b >>> (4 : UInt8)) &&& (0x0F : UInt8)).toNat, Hash.hexDigit (b &&& (0x0F : UInt8)).toNat]

theorem toHex_toList (d : Bytes) : (Hash.toHex d).toList = hexChars d := by
  simp [Hash.toHex, hexChars]

theorem hexChars_length (d : Bytes) : (hexChars d).length = 2 * d.length := by
  induction d with
  | nil => rfl
  | cons b d ih => simp only [hexChars, List.flatMap_cons, List.length_append, List.length_cons, List.length_nil] at *; omega

theorem hexDigit_lower : ∀ n, n < 16 → Hash.hexDigit n ∈ ['0', '1', '2', '3', '4', '5', '6', '7', '8', '9', 'a', 'b', 'c', 'd', 'e', 'f'] := by
  decide

theorem nibble_lt (x : UInt8) : (x &&& (0x0F : UInt8)).toNat < 16 := by
  rw [UInt8.toNat_and]
  have := Nat.and_le_right (n := x.toNat) (m := (0x0F : UInt8).toNat)
  have e : (0x0F : UInt8).toNat = 15 := rfl
  omega

theorem hexChars_lower (d : Bytes) : ∀ c ∈ hexChars d,
    c ∈ ['0', '1', '2', '3', '4', '5', '6', '7', '8', '9', 'a', 'b', 'c', 'd', 'e', 'f'] := by
  intro c hc
  simp only [hexChars, List.mem_flatMap] at hc
  obtain ⟨b, _, hb⟩ := hc
  simp only [List.mem_cons, List.mem_nil_iff, or_false] at hb
  rcases hb with rfl | rfl
  · exact hexDigit_lower _ (nibble_lt _)
  · exact hexDigit_lower _ (nibble_lt _)

end PV.HashX

import PV.Model.HashX.Stream
import PV.Spec.HashX
/-!
# Buffered absorb = absorb of the concatenation (generic part of C11x)

For any block size `B`, block function `process` and fixed-size buffer: feeding chunks through the
three-phase `feed` keeps
  `st = foldl process init (blocks B m)`   and   `buf.take |rest B m| = rest B m`
where `m` is the concatenation of everything fed so far.
-/
namespace PV.HashX
open PV.HashX.Spec

/-! ## `blocks` / `rest` -/

theorem blocks_eq (B : Nat) (m : Bytes) :
    blocks B m = if 0 < B ∧ B ≤ m.length then m.take B :: blocks B (m.drop B) else [] := by
  rw [blocks]
  have : ((m.take B).length = B) = (B ≤ m.length) := by
    simp only [List.length_take, eq_iff_iff]; omega
  simp only [this]
  split <;> rfl

theorem rest_eq (B : Nat) (m : Bytes) :
    rest B m = if 0 < B ∧ B ≤ m.length then rest B (m.drop B) else m := by
  rw [rest]
  have : ((m.take B).length = B) = (B ≤ m.length) := by
    simp only [List.length_take, eq_iff_iff]; omega
  simp only [this]
  split <;> rfl

theorem blocks_short {B : Nat} {m : Bytes} (h : m.length < B) : blocks B m = [] := by
  rw [blocks_eq]; simp; omega

theorem rest_short {B : Nat} {m : Bytes} (h : m.length < B) : rest B m = m := by
  rw [rest_eq]; simp; omega

theorem blocks_long {B : Nat} {m : Bytes} (hB : 0 < B) (h : B ≤ m.length) :
    blocks B m = m.take B :: blocks B (m.drop B) := by
  rw [blocks_eq]; simp [hB, h]

theorem rest_long {B : Nat} {m : Bytes} (hB : 0 < B) (h : B ≤ m.length) :
    rest B m = rest B (m.drop B) := by
  rw [rest_eq]; simp [hB, h]

theorem rest_length {B : Nat} (hB : 0 < B) (m : Bytes) : (rest B m).length = m.length % B := by
  induction hn : m.length using Nat.strongRecOn generalizing m with
  | _ n ih =>
    by_cases h : B ≤ m.length
    · rw [rest_long hB h]
      have hl : (m.drop B).length = n - B := by simp [hn]
      rw [ih (n - B) (by omega) (m.drop B) hl]
      have : n = (n - B) + B := by omega
      rw [this, Nat.add_mod_right]
      congr 1; omega
    · rw [rest_short (by omega), hn, Nat.mod_eq_of_lt (by omega)]

theorem rest_length_lt {B : Nat} (hB : 0 < B) (m : Bytes) : (rest B m).length < B := by
  rw [rest_length hB]; exact Nat.mod_lt _ hB

/-- splitting a message: the blocks of `m ++ d` are the blocks of `m` followed by the blocks of
    (what `m` leaves over) `++ d` -/
theorem blocks_append (B : Nat) (m d : Bytes) :
    blocks B (m ++ d) = blocks B m ++ blocks B (rest B m ++ d) ∧
    rest B (m ++ d) = rest B (rest B m ++ d) := by
  induction hn : m.length using Nat.strongRecOn generalizing m with
  | _ n ih =>
    by_cases h : 0 < B ∧ B ≤ m.length
    · obtain ⟨hB, hl⟩ := h
      have hl' : B ≤ (m ++ d).length := by simp; omega
      have ht : (m ++ d).take B = m.take B := by
        rw [List.take_append_of_le_length hl]
      have hd : (m ++ d).drop B = m.drop B ++ d := by
        rw [List.drop_append_of_le_length hl]
      have hlen : (m.drop B).length = n - B := by simp [hn]
      obtain ⟨i1, i2⟩ := ih (n - B) (by omega) (m.drop B) hlen
      rw [blocks_long hB hl', rest_long hB hl', blocks_long hB hl, rest_long hB hl, ht, hd, i1, i2]
      simp
    · have hb : blocks B m = [] := by rw [blocks_eq]; simp [h]
      have hr : rest B m = m := by rw [rest_eq]; simp [h]
      rw [hb, hr]; simp

theorem foldl_blocks_append {σ : Type} (B : Nat) (p : σ → Bytes → σ) (s : σ) (m d : Bytes) :
    (blocks B (m ++ d)).foldl p s = (blocks B (rest B m ++ d)).foldl p ((blocks B m).foldl p s) := by
  rw [(blocks_append B m d).1, List.foldl_append]

/-- a message that is a whole number of blocks leaves nothing -/
theorem rest_exact {B : Nat} (hB : 0 < B) {m : Bytes} (h : m.length = B) : rest B m = [] ∧ blocks B m = [m] := by
  have h1 : B ≤ m.length := by omega
  rw [rest_long hB h1, blocks_long hB h1]
  have hd : m.drop B = [] := List.drop_eq_nil_of_le (by omega)
  have ht : m.take B = m := List.take_of_length_le (by omega)
  rw [hd, ht, rest_short (show ([] : Bytes).length < B from hB), blocks_short (show ([] : Bytes).length < B from hB)]
  exact ⟨rfl, rfl⟩

/-! ## `memcpyAt` -/

theorem memcpyAt_length {buf : Bytes} {off : Nat} {src : Bytes} (h : off + src.length ≤ buf.length) :
    (memcpyAt buf off src).length = buf.length := by
  simp [memcpyAt]; omega

theorem memcpyAt_take {buf : Bytes} {off : Nat} {src : Bytes} (h : off ≤ buf.length) :
    (memcpyAt buf off src).take (off + src.length) = buf.take off ++ src := by
  unfold memcpyAt
  have : (buf.take off ++ src).length = off + src.length := by simp; omega
  rw [← this, List.take_left']
  rfl

/-! ## phase 2 -/

theorem blockLoop_spec {σ : Type} {B : Nat} (p : σ → Bytes → σ) (c : Ctx σ) (data : Bytes) (len : Nat)
    (hlen : data.length = len) (hbuf : B ≤ c.buf.length) :
    let r := blockLoop B p c data len
    r.1.st = (blocks B data).foldl p c.st ∧ r.2.1 = rest B data ∧ r.2.2 = (rest B data).length ∧
    r.1.buf.length = c.buf.length ∧ (len < B → r.1 = c) := by
  induction len using Nat.strongRecOn generalizing c data with
  | _ n ih =>
    intro r
    by_cases h : 0 < B ∧ B ≤ n
    · obtain ⟨hB, hl⟩ := h
      have hdl : B ≤ data.length := by omega
      have htl : (data.take B).length = B := by simp; omega
      have hr : r = blockLoop B p ⟨p c.st ((memcpyAt c.buf 0 (data.take B)).take B), memcpyAt c.buf 0 (data.take B)⟩
          (data.drop B) (n - B) := by
        show blockLoop B p c data n = _
        rw [blockLoop]; simp [hB, hl]
      have hmt : (memcpyAt c.buf 0 (data.take B)).take B = data.take B := by
        have := memcpyAt_take (buf := c.buf) (off := 0) (src := data.take B) (by omega)
        rw [htl] at this
        simpa using this
      have hml : (memcpyAt c.buf 0 (data.take B)).length = c.buf.length :=
        memcpyAt_length (by rw [htl]; omega)
      have := ih (n - B) (by omega) ⟨p c.st ((memcpyAt c.buf 0 (data.take B)).take B), memcpyAt c.buf 0 (data.take B)⟩
        (data.drop B) (by simp; omega) (by simp only; omega)
      simp only at this
      rw [← hr] at this
      obtain ⟨h1, h2, h3, h4, _⟩ := this
      refine ⟨?_, ?_, ?_, ?_, ?_⟩
      · rw [h1, blocks_long hB hdl, hmt]; rfl
      · rw [h2, rest_long hB hdl]
      · rw [h3, rest_long hB hdl]
      · rw [h4, hml]
      · intro hlt; omega
    · have hr : r = (c, data, n) := by
        show blockLoop B p c data n = _
        rw [blockLoop]; simp [h]
      have hb : blocks B data = [] := by rw [blocks_eq]; simp [hlen, h]
      have hre : rest B data = data := by rw [rest_eq]; simp [hlen, h]
      rw [hr, hb, hre]
      exact ⟨rfl, rfl, hlen.symm, rfl, fun _ => rfl⟩

/-! ## the three phases -/

/-- phase 3 after a phase 2 that left `tail`: the buffer holds `pre ++ tail` -/
theorem stash_spec {σ : Type} (c : Ctx σ) (tail pre : Bytes) (left : Nat)
    (hpre : c.buf.take left = pre) (hleft : left = pre.length)
    (hfit : left + tail.length ≤ c.buf.length) :
    let c' := stash (c, tail, tail.length) left
    c'.st = c.st ∧ c'.buf.take (pre ++ tail).length = pre ++ tail ∧ c'.buf.length = c.buf.length := by
  intro c'
  have hle : left ≤ c.buf.length := by omega
  by_cases h : 0 < tail.length
  · have hc' : c' = { c with buf := memcpyAt c.buf left tail } := by
      show stash (c, tail, tail.length) left = _
      simp [stash, h]
    rw [hc']
    refine ⟨rfl, ?_, memcpyAt_length hfit⟩
    simp only [List.length_append, ← hleft]
    rw [memcpyAt_take hle, hpre]
  · have hc' : c' = c := by
      show stash (c, tail, tail.length) left = _
      simp [stash, h]
    have : tail = [] := List.eq_nil_of_length_eq_zero (by omega)
    subst this
    rw [hc']
    refine ⟨rfl, ?_, rfl⟩
    simpa [← hleft] using hpre

/-- what `feed` establishes, from the point of view of the bytes `t` that were buffered before -/
theorem feed_spec {σ : Type} {B : Nat} (hB : 0 < B) (p : σ → Bytes → σ) (c : Ctx σ) (t data : Bytes)
    (ht : c.buf.take t.length = t) (htl : t.length < B) (hbuf : B ≤ c.buf.length)
    (left : Nat) (hleft : left = t.length) (topup : Bool)
    (htop : topup = decide (left ≠ 0 ∧ B - left ≤ data.length)) :
    let c' := feed B p left topup c data
    c'.st = (blocks B (t ++ data)).foldl p c.st ∧
    c'.buf.take (rest B (t ++ data)).length = rest B (t ++ data) ∧
    c'.buf.length = c.buf.length := by
  subst hleft
  have htb : t.length ≤ c.buf.length := by omega
  by_cases hc : t.length ≠ 0 ∧ B - t.length ≤ data.length
  · -- phase 1 runs
    have htop' : topup = true := by rw [htop]; exact decide_eq_true hc
    subst htop'
    obtain ⟨hne, hge⟩ := hc
    have hsl : (data.take (B - t.length)).length = B - t.length := by simp; omega
    generalize hb1 : memcpyAt c.buf t.length (data.take (B - t.length)) = buf1
    generalize hd1 : data.drop (B - t.length) = d1
    have hb1l : buf1.length = c.buf.length := by
      rw [← hb1]; exact memcpyAt_length (by rw [hsl]; omega)
    have hb1t : buf1.take B = t ++ data.take (B - t.length) := by
      have := memcpyAt_take (buf := c.buf) (off := t.length) (src := data.take (B - t.length)) htb
      rw [hsl, ht, hb1] at this
      have e : t.length + (B - t.length) = B := by omega
      rw [e] at this
      exact this
    have hsplit : t ++ data = (t ++ data.take (B - t.length)) ++ d1 := by
      rw [← hd1, List.append_assoc, List.take_append_drop]
    have hfl : (t ++ data.take (B - t.length)).length = B := by simp; omega
    have hbl : blocks B (t ++ data) = (t ++ data.take (B - t.length)) :: blocks B d1 := by
      rw [hsplit, (blocks_append B _ _).1, (rest_exact hB hfl).1, (rest_exact hB hfl).2]; rfl
    have hrs : rest B (t ++ data) = rest B d1 := by
      rw [hsplit, (blocks_append B _ _).2, (rest_exact hB hfl).1]; rfl
    have hloop := blockLoop_spec (B := B) p ⟨p c.st (buf1.take B), buf1⟩ d1 d1.length rfl (by simp only; omega)
    simp only at hloop
    generalize hr : blockLoop B p ⟨p c.st (buf1.take B), buf1⟩ d1 d1.length = r at hloop
    obtain ⟨l1, l2, l3, l4, _⟩ := hloop
    intro c'
    have hc' : c' = stash r 0 := by
      show feed B p t.length true c data = _
      simp only [feed, if_true, hb1, hd1, hr]
    have hr' : r = (r.1, rest B d1, (rest B d1).length) := by
      rw [← l3, ← l2]
    have hfit : 0 + (rest B d1).length ≤ r.1.buf.length := by
      have := rest_length_lt hB d1
      omega
    have := stash_spec r.1 (rest B d1) [] 0 (by simp) rfl hfit
    simp only at this
    rw [← hr', ← hc'] at this
    obtain ⟨s1, s2, s3⟩ := this
    rw [hbl, hrs, List.foldl_cons, ← hb1t]
    refine ⟨by rw [s1, l1], by simpa using s2, by rw [s3, l4, hb1l]⟩
  · -- phase 1 does not run
    have htop' : topup = false := by rw [htop]; exact decide_eq_false hc
    subst htop'
    have hloop := blockLoop_spec (B := B) p c data data.length rfl hbuf
    simp only at hloop
    generalize hr : blockLoop B p c data data.length = r at hloop
    obtain ⟨l1, l2, l3, l4, l5⟩ := hloop
    intro c'
    have hc' : c' = stash r t.length := by
      show feed B p t.length false c data = _
      simp [feed, hr]
    have hr' : r = (r.1, rest B data, (rest B data).length) := by
      rw [← l3, ← l2]
    by_cases h0 : t.length = 0
    · -- nothing buffered
      have ht0 : t = [] := List.eq_nil_of_length_eq_zero h0
      subst ht0
      have hfit : 0 + (rest B data).length ≤ r.1.buf.length := by
        have := rest_length_lt hB data
        omega
      have := stash_spec r.1 (rest B data) [] 0 (by simp) rfl hfit
      simp only at this
      rw [← hr'] at this
      simp only [List.length_nil] at hc'
      rw [← hc'] at this
      obtain ⟨s1, s2, s3⟩ := this
      simp only [List.nil_append]
      refine ⟨by rw [s1, l1], by simpa using s2, by rw [s3, l4]⟩
    · -- buffered bytes stay, the chunk is too short to complete the block
      have hlt : data.length < B := by omega
      have hsame := l5 hlt
      have hrd : rest B data = data := rest_short hlt
      have hall : (t ++ data).length < B := by simp; omega
      have hfit : t.length + (rest B data).length ≤ r.1.buf.length := by
        rw [hrd, hsame]; omega
      have := stash_spec r.1 (rest B data) t t.length (by rw [hsame]; exact ht) rfl hfit
      simp only at this
      rw [← hr', ← hc'] at this
      obtain ⟨s1, s2, s3⟩ := this
      rw [blocks_short hall, rest_short hall]
      rw [hrd] at s2
      refine ⟨by rw [s1, hsame]; rfl, s2, by rw [s3, hsame]⟩

/-- the invariant of a streaming context after the bytes `m` -/
structure Inv {σ : Type} (B : Nat) (p : σ → Bytes → σ) (init : σ) (c : Ctx σ) (m : Bytes) : Prop where
  st : c.st = (blocks B m).foldl p init
  buf : c.buf.take (rest B m).length = rest B m
  cap : B ≤ c.buf.length

/-- **buffered absorb = absorb of the concatenation**, one chunk -/
theorem feed_inv {σ : Type} {B : Nat} (hB : 0 < B) {p : σ → Bytes → σ} {init : σ} {c : Ctx σ} {m : Bytes}
    (inv : Inv B p init c m) (data : Bytes) (left : Nat) (hleft : left = m.length % B) (topup : Bool)
    (htop : topup = decide (left ≠ 0 ∧ B - left ≤ data.length)) :
    Inv B p init (feed B p left topup c data) (m ++ data) ∧
    (feed B p left topup c data).buf.length = c.buf.length := by
  have hl : left = (rest B m).length := by rw [hleft, rest_length hB]
  have := feed_spec hB p c (rest B m) data inv.buf (rest_length_lt hB m) inv.cap left hl topup htop
  simp only at this
  obtain ⟨h1, h2, h3⟩ := this
  refine ⟨⟨?_, ?_, ?_⟩, h3⟩
  · rw [h1, inv.st]; exact (foldl_blocks_append B p init m data).symm
  · rw [(blocks_append B m data).2]; exact h2
  · rw [h3]; exact inv.cap

/-! ## zero chunks that are not materialised -/

theorem blockLoopZ_eq {σ : Type} (B : Nat) (p : σ → Bytes → σ) (c : Ctx σ) (n : Nat) :
    let r := blockLoop B p c (List.replicate n 0) n
    blockLoopZ B p c n = (r.1, r.2.2) ∧ r.2.1 = List.replicate r.2.2 0 := by
  induction n using Nat.strongRecOn generalizing c with
  | _ n ih =>
    by_cases h : 0 < B ∧ B ≤ n
    · obtain ⟨hB, hl⟩ := h
      have ht : (List.replicate n (0 : UInt8)).take B = List.replicate B 0 := by
        rw [List.take_replicate]; congr 1; omega
      have hd : (List.replicate n (0 : UInt8)).drop B = List.replicate (n - B) 0 := by
        rw [List.drop_replicate]
      have := ih (n - B) (by omega) ⟨p c.st ((memcpyAt c.buf 0 (List.replicate B 0)).take B), memcpyAt c.buf 0 (List.replicate B 0)⟩
      simp only at this
      intro r
      have hr : r = blockLoop B p ⟨p c.st ((memcpyAt c.buf 0 (List.replicate B 0)).take B), memcpyAt c.buf 0 (List.replicate B 0)⟩
          (List.replicate (n - B) 0) (n - B) := by
        show blockLoop B p c (List.replicate n 0) n = _
        rw [blockLoop]; simp only [hB, hl, and_self, dite_true, ht, hd]
      rw [hr]
      refine ⟨?_, this.2⟩
      rw [blockLoopZ]; simp only [hB, hl, and_self, dite_true]
      exact this.1
    · intro r
      have hr : r = (c, List.replicate n 0, n) := by
        show blockLoop B p c (List.replicate n 0) n = _
        rw [blockLoop]; simp [h]
      rw [hr, blockLoopZ]; simp [h]

theorem feedZ_eq {σ : Type} (B : Nat) (p : σ → Bytes → σ) (left : Nat) (topup : Bool) (c : Ctx σ) (n : Nat) :
    feedZ B p left topup c n = feed B p left topup c (List.replicate n 0) := by
  have hst : ∀ (c : Ctx σ) (k l : Nat),
      (let r := blockLoop B p c (List.replicate k 0) k; stashZ (blockLoopZ B p c k) l = stash r l) := by
    intro c k l
    have := blockLoopZ_eq B p c k
    simp only at this
    simp only [stashZ, stash, this.1]
    rw [← this.2]
  unfold feedZ feed
  cases topup
  · simp only [Bool.false_eq_true, if_false, List.length_replicate]
    exact hst c n left
  · simp only [if_true, List.take_replicate, List.drop_replicate, List.length_replicate]
    exact hst _ _ 0

end PV.HashX

import PV.Spec.KeccakStd
import PV.Model.HashX.Keccak
/-!
# The C code's Keccak permutation is Keccak-f[1600] of FIPS 202

`Keccak.keccakF` (transliteration of `pcryptohash-sha3.c`: in-place theta, the unrolled rho/pi
assignment chain with the rotation amounts and lane order extracted from the source, chi, the
round-constant table extracted from the source) equals `KeccakStd.keccakF` (step mappings on
`A[x, y]`, offsets from the `(t+1)(t+2)/2` walk, constants from the LFSR `rc`) on every 25-lane state.
Method: both sides are evaluated by `simp` on a state `#[a0, …, a24]` of 25 symbolic lanes.
-/
namespace PV.HashX.KeccakProof
open PV.HashX PV.Generated.HashX

theorem range25 : List.range 25 = [0,1,2,3,4,5,6,7,8,9,10,11,12,13,14,15,16,17,18,19,20,21,22,23,24] := by decide
theorem range5 : List.range 5 = [0,1,2,3,4] := by decide
theorem arange5 : Array.range 5 = #[0,1,2,3,4] := by decide
theorem ofFn_lit (f : Nat → Nat → UInt64) : KeccakStd.ofFn f = #[f 0 0, f 1 0, f 2 0, f 3 0, f 4 0, f 0 1, f 1 1, f 2 1, f 3 1, f 4 1, f 0 2, f 1 2, f 2 2, f 3 2, f 4 2, f 0 3, f 1 3, f 2 3, f 3 3, f 4 3, f 0 4, f 1 4, f 2 4, f 3 4, f 4 4] := by
  unfold KeccakStd.ofFn
  rw [range25]
  rfl

theorem theta_lit (a0 a1 a2 a3 a4 a5 a6 a7 a8 a9 a10 a11 a12 a13 a14 a15 a16 a17 a18 a19 a20 a21 a22 a23 a24 : UInt64) : Keccak.theta #[a0, a1, a2, a3, a4, a5, a6, a7, a8, a9, a10, a11, a12, a13, a14, a15, a16, a17, a18, a19, a20, a21, a22, a23, a24] = KeccakStd.theta #[a0, a1, a2, a3, a4, a5, a6, a7, a8, a9, a10, a11, a12, a13, a14, a15, a16, a17, a18, a19, a20, a21, a22, a23, a24] := by
  simp only [KeccakStd.theta, ofFn_lit]
  simp only [Keccak.theta, range5, arange5, keccakThetaD]
  simp [Keccak.rotl, KeccakStd.rot, KeccakStd.get]

theorem chi_lit (a0 a1 a2 a3 a4 a5 a6 a7 a8 a9 a10 a11 a12 a13 a14 a15 a16 a17 a18 a19 a20 a21 a22 a23 a24 : UInt64) : Keccak.chi #[a0, a1, a2, a3, a4, a5, a6, a7, a8, a9, a10, a11, a12, a13, a14, a15, a16, a17, a18, a19, a20, a21, a22, a23, a24] = KeccakStd.chi #[a0, a1, a2, a3, a4, a5, a6, a7, a8, a9, a10, a11, a12, a13, a14, a15, a16, a17, a18, a19, a20, a21, a22, a23, a24] := by
  simp only [KeccakStd.chi, ofFn_lit]
  simp [Keccak.chi, KeccakStd.get]

theorem off_0_0 : KeccakStd.offset 0 0 = 0 := by decide
theorem off_1_0 : KeccakStd.offset 1 0 = 1 := by decide
theorem off_2_0 : KeccakStd.offset 2 0 = 190 := by decide
theorem off_3_0 : KeccakStd.offset 3 0 = 28 := by decide
theorem off_4_0 : KeccakStd.offset 4 0 = 91 := by decide
theorem off_0_1 : KeccakStd.offset 0 1 = 36 := by decide
theorem off_1_1 : KeccakStd.offset 1 1 = 300 := by decide
theorem off_2_1 : KeccakStd.offset 2 1 = 6 := by decide
theorem off_3_1 : KeccakStd.offset 3 1 = 55 := by decide
theorem off_4_1 : KeccakStd.offset 4 1 = 276 := by decide
theorem off_0_2 : KeccakStd.offset 0 2 = 3 := by decide
theorem off_1_2 : KeccakStd.offset 1 2 = 10 := by decide
theorem off_2_2 : KeccakStd.offset 2 2 = 171 := by decide
theorem off_3_2 : KeccakStd.offset 3 2 = 153 := by decide
theorem off_4_2 : KeccakStd.offset 4 2 = 231 := by decide
theorem off_0_3 : KeccakStd.offset 0 3 = 105 := by decide
theorem off_1_3 : KeccakStd.offset 1 3 = 45 := by decide
theorem off_2_3 : KeccakStd.offset 2 3 = 15 := by decide
theorem off_3_3 : KeccakStd.offset 3 3 = 21 := by decide
theorem off_4_3 : KeccakStd.offset 4 3 = 136 := by decide
theorem off_0_4 : KeccakStd.offset 0 4 = 210 := by decide
theorem off_1_4 : KeccakStd.offset 1 4 = 66 := by decide
theorem off_2_4 : KeccakStd.offset 2 4 = 253 := by decide
theorem off_3_4 : KeccakStd.offset 3 4 = 120 := by decide
theorem off_4_4 : KeccakStd.offset 4 4 = 78 := by decide

theorem rhoPi_lit (a0 a1 a2 a3 a4 a5 a6 a7 a8 a9 a10 a11 a12 a13 a14 a15 a16 a17 a18 a19 a20 a21 a22 a23 a24 : UInt64) : Keccak.rhoPi #[a0, a1, a2, a3, a4, a5, a6, a7, a8, a9, a10, a11, a12, a13, a14, a15, a16, a17, a18, a19, a20, a21, a22, a23, a24] = KeccakStd.pi (KeccakStd.rho #[a0, a1, a2, a3, a4, a5, a6, a7, a8, a9, a10, a11, a12, a13, a14, a15, a16, a17, a18, a19, a20, a21, a22, a23, a24]) := by
  simp only [KeccakStd.pi, KeccakStd.rho, ofFn_lit]
  simp [Keccak.rhoPi, keccakRhoPi, keccakTmpSrc, Keccak.rotl, KeccakStd.rot, KeccakStd.get, off_0_0, off_1_0, off_2_0, off_3_0, off_4_0, off_0_1, off_1_1, off_2_1, off_3_1, off_4_1, off_0_2, off_1_2, off_2_2, off_3_2, off_4_2, off_0_3, off_1_3, off_2_3, off_3_3, off_4_3, off_0_4, off_1_4, off_2_4, off_3_4, off_4_4]

theorem lit_of_size (h : Array UInt64) (hs : h.size = 25) : ∃ a0 a1 a2 a3 a4 a5 a6 a7 a8 a9 a10 a11 a12 a13 a14 a15 a16 a17 a18 a19 a20 a21 a22 a23 a24, h = #[a0, a1, a2, a3, a4, a5, a6, a7, a8, a9, a10, a11, a12, a13, a14, a15, a16, a17, a18, a19, a20, a21, a22, a23, a24] := by
  obtain ⟨l⟩ := h
  simp only [List.size_toArray] at hs
  cases l with
  | nil => simp at hs
  | cons a0 l =>
    cases l with
    | nil => simp at hs
    | cons a1 l =>
      cases l with
      | nil => simp at hs
      | cons a2 l =>
        cases l with
        | nil => simp at hs
        | cons a3 l =>
          cases l with
          | nil => simp at hs
          | cons a4 l =>
            cases l with
            | nil => simp at hs
            | cons a5 l =>
              cases l with
              | nil => simp at hs
              | cons a6 l =>
                cases l with
                | nil => simp at hs
                | cons a7 l =>
                  cases l with
                  | nil => simp at hs
                  | cons a8 l =>
                    cases l with
                    | nil => simp at hs
                    | cons a9 l =>
                      cases l with
                      | nil => simp at hs
                      | cons a10 l =>
                        cases l with
                        | nil => simp at hs
                        | cons a11 l =>
                          cases l with
                          | nil => simp at hs
                          | cons a12 l =>
                            cases l with
                            | nil => simp at hs
                            | cons a13 l =>
                              cases l with
                              | nil => simp at hs
                              | cons a14 l =>
                                cases l with
                                | nil => simp at hs
                                | cons a15 l =>
                                  cases l with
                                  | nil => simp at hs
                                  | cons a16 l =>
                                    cases l with
                                    | nil => simp at hs
                                    | cons a17 l =>
                                      cases l with
                                      | nil => simp at hs
                                      | cons a18 l =>
                                        cases l with
                                        | nil => simp at hs
                                        | cons a19 l =>
                                          cases l with
                                          | nil => simp at hs
                                          | cons a20 l =>
                                            cases l with
                                            | nil => simp at hs
                                            | cons a21 l =>
                                              cases l with
                                              | nil => simp at hs
                                              | cons a22 l =>
                                                cases l with
                                                | nil => simp at hs
                                                | cons a23 l =>
                                                  cases l with
                                                  | nil => simp at hs
                                                  | cons a24 l =>
                                                    cases l with
                                                    | nil => exact ⟨a0, a1, a2, a3, a4, a5, a6, a7, a8, a9, a10, a11, a12, a13, a14, a15, a16, a17, a18, a19, a20, a21, a22, a23, a24, rfl⟩
                                                    | cons b l => simp at hs

theorem ofFn_size (f : Nat → Nat → UInt64) : (KeccakStd.ofFn f).size = 25 := by
  rw [ofFn_lit]; rfl

theorem theta_eq (h : Array UInt64) (hs : h.size = 25) : Keccak.theta h = KeccakStd.theta h := by
  obtain ⟨a0, a1, a2, a3, a4, a5, a6, a7, a8, a9, a10, a11, a12, a13, a14, a15, a16, a17, a18, a19, a20, a21, a22, a23, a24, rfl⟩ := lit_of_size h hs
  exact theta_lit ..
theorem rhoPi_eq (h : Array UInt64) (hs : h.size = 25) : Keccak.rhoPi h = KeccakStd.pi (KeccakStd.rho h) := by
  obtain ⟨a0, a1, a2, a3, a4, a5, a6, a7, a8, a9, a10, a11, a12, a13, a14, a15, a16, a17, a18, a19, a20, a21, a22, a23, a24, rfl⟩ := lit_of_size h hs
  exact rhoPi_lit ..
theorem chi_eq (h : Array UInt64) (hs : h.size = 25) : Keccak.chi h = KeccakStd.chi h := by
  obtain ⟨a0, a1, a2, a3, a4, a5, a6, a7, a8, a9, a10, a11, a12, a13, a14, a15, a16, a17, a18, a19, a20, a21, a22, a23, a24, rfl⟩ := lit_of_size h hs
  exact chi_lit ..

theorem iota_lit (rcv : UInt64) (a0 a1 a2 a3 a4 a5 a6 a7 a8 a9 a10 a11 a12 a13 a14 a15 a16 a17 a18 a19 a20 a21 a22 a23 a24 : UInt64) :
    (#[a0, a1, a2, a3, a4, a5, a6, a7, a8, a9, a10, a11, a12, a13, a14, a15, a16, a17, a18, a19, a20, a21, a22, a23, a24]).set! 0 ((#[a0, a1, a2, a3, a4, a5, a6, a7, a8, a9, a10, a11, a12, a13, a14, a15, a16, a17, a18, a19, a20, a21, a22, a23, a24])[0]! ^^^ rcv) = KeccakStd.ofFn fun x y => if x = 0 ∧ y = 0 then KeccakStd.get #[a0, a1, a2, a3, a4, a5, a6, a7, a8, a9, a10, a11, a12, a13, a14, a15, a16, a17, a18, a19, a20, a21, a22, a23, a24] 0 0 ^^^ rcv else KeccakStd.get #[a0, a1, a2, a3, a4, a5, a6, a7, a8, a9, a10, a11, a12, a13, a14, a15, a16, a17, a18, a19, a20, a21, a22, a23, a24] x y := by
  simp only [ofFn_lit]
  simp [KeccakStd.get]

/-- the round constants in the C source are the LFSR's -/
theorem rc_table : (List.range 24).map KeccakStd.RC = keccakK := by decide

theorem roundConstant_eq : ∀ i, i < 24 → Keccak.roundConstants[i]! = KeccakStd.RC i := by decide

/-- the rotation offsets used by the C chain are those of the standard's walk (checked inside `rhoPi_lit`);
    the table itself, for the record -/
theorem offset_table : (List.range 25).map (fun i => KeccakStd.offset (i % 5) (i / 5) % 64) =
    [0, 1, 62, 28, 27, 36, 44, 6, 55, 20, 3, 10, 43, 25, 39, 41, 45, 15, 21, 8, 18, 2, 61, 56, 14] := by decide

theorem stdRound_size (ir : Nat) (A : KeccakStd.State) : (KeccakStd.round ir A).size = 25 := ofFn_size _

/-- one round of the C code = `Rnd (A, i_r)` -/
theorem round_eq (h : Array UInt64) (hs : h.size = 25) (ir : Nat) (hir : ir < 24) :
    (Keccak.chi (Keccak.rhoPi (Keccak.theta h))).set! 0
        ((Keccak.chi (Keccak.rhoPi (Keccak.theta h)))[0]! ^^^ Keccak.roundConstants[ir]!)
      = KeccakStd.round ir h := by
  have s1 : (KeccakStd.theta h).size = 25 := ofFn_size _
  have s2 : (KeccakStd.pi (KeccakStd.rho (KeccakStd.theta h))).size = 25 := ofFn_size _
  have s3 : (KeccakStd.chi (KeccakStd.pi (KeccakStd.rho (KeccakStd.theta h)))).size = 25 := ofFn_size _
  rw [theta_eq h hs, rhoPi_eq _ s1, chi_eq _ s2, roundConstant_eq ir hir]
  unfold KeccakStd.round
  generalize KeccakStd.chi (KeccakStd.pi (KeccakStd.rho (KeccakStd.theta h))) = B at s3 ⊢
  obtain ⟨a0, a1, a2, a3, a4, a5, a6, a7, a8, a9, a10, a11, a12, a13, a14, a15, a16, a17, a18, a19, a20, a21, a22, a23, a24, rfl⟩ := lit_of_size B s3
  exact iota_lit ..

/-- **the permutation of `pcryptohash-sha3.c` is Keccak-f[1600]** (on every state of 25 lanes) -/
theorem keccakF_eq (h : Array UInt64) (hs : h.size = 25) : Keccak.keccakF h = KeccakStd.keccakF h := by
  have hr : keccakRounds = 24 := by decide
  unfold Keccak.keccakF KeccakStd.keccakF
  rw [hr]
  have key : ∀ (l : List Nat), (∀ i ∈ l, i < 24) → ∀ (h : Array UInt64), h.size = 25 →
      l.foldl (fun h i =>
        let h := Keccak.chi (Keccak.rhoPi (Keccak.theta h))
        h.set! 0 (h[0]! ^^^ Keccak.roundConstants[i]!)) h
      = l.foldl (fun A ir => KeccakStd.round ir A) h := by
    intro l
    induction l with
    | nil => intros; simp only [List.foldl_nil]
    | cons i l ih =>
      intro hl h hs
      simp only [List.foldl_cons]
      rw [round_eq h hs i (hl i (by simp))]
      exact ih (fun j hj => hl j (by simp [hj])) _ (stdRound_size i h)
  exact key _ (fun i hi => by simpa using hi) h hs

theorem stdKeccakF_size (A : KeccakStd.State) (hs : A.size = 25) : (KeccakStd.keccakF A).size = 25 := by
  unfold KeccakStd.keccakF
  generalize List.range 24 = l
  induction l generalizing A with
  | nil => exact hs
  | cons i l ih => simp only [List.foldl_cons]; exact ih _ (stdRound_size i A)

theorem keccakF_size (h : Array UInt64) (hs : h.size = 25) : (Keccak.keccakF h).size = 25 := by
  rw [keccakF_eq h hs]; exact stdKeccakF_size h hs

end PV.HashX.KeccakProof

import PV.Spec.GostStd
/-!
# XOR-additive maps on 32-bit words / 256-bit blocks are determined by the unit vectors

`ext32`: two maps `UInt32 → α` that turn `^^^` into the same operation `op` and agree on `0` and on
the 32 words `2^n` agree everywhere.  `ext256`: the same for maps on 256-bit blocks (`W8`) and the
256 unit blocks.  Used to identify the C code's unrolled GF(2)-linear formulas with the standard's
structural definitions: linearity of both sides is proved symbolically, the unit vectors by evaluation.
-/
namespace PV.HashX.Linear
open PV.HashX.Gost PV.HashX.GostStd

theorem two_pow_xor_of_lt {n r : Nat} (h : r < 2 ^ n) : 2 ^ n ^^^ r = 2 ^ n + r := by
  apply Nat.eq_of_testBit_eq
  intro i
  rw [Nat.testBit_xor, Nat.testBit_two_pow]
  by_cases hi : n = i
  · subst hi
    rw [Nat.testBit_two_pow_add_eq, Nat.testBit_lt_two_pow h]
    simp
  · simp only [hi, decide_false, Bool.false_xor]
    by_cases hlt : i < n
    · rw [Nat.testBit_two_pow_add_gt hlt]
    · have hgt : n < i := by omega
      have h1 : r < 2 ^ i := Nat.lt_trans h (Nat.pow_lt_pow_right (by omega) hgt)
      have h2 : 2 ^ n + r < 2 ^ i := by
        have : 2 ^ (n + 1) ≤ 2 ^ i := Nat.pow_le_pow_right (by omega) (by omega)
        rw [Nat.pow_succ] at this
        omega
      rw [Nat.testBit_lt_two_pow h1, Nat.testBit_lt_two_pow h2]

theorem ext32 {α : Type} (op : α → α → α) (f g : UInt32 → α)
    (hf : ∀ x y, f (x ^^^ y) = op (f x) (f y)) (hg : ∀ x y, g (x ^^^ y) = op (g x) (g y))
    (h0 : f 0 = g 0) (hb : ∀ n, n < 32 → f (UInt32.ofNat (2 ^ n)) = g (UInt32.ofNat (2 ^ n))) :
    ∀ x, f x = g x := by
  have key : ∀ n, n ≤ 32 → ∀ x : UInt32, x.toNat < 2 ^ n → f x = g x := by
    intro n
    induction n with
    | zero =>
      intro _ x hx
      have : x = 0 := UInt32.toNat_inj.mp (by simp at hx ⊢; omega)
      rw [this, h0]
    | succ n ih =>
      intro hn x hx
      by_cases hlt : x.toNat < 2 ^ n
      · exact ih (by omega) x hlt
      · have hr : x.toNat - 2 ^ n < 2 ^ n := by rw [Nat.pow_succ] at hx; omega
        have hp : 2 ^ n < 2 ^ 32 := Nat.pow_lt_pow_right (by omega) (by omega)
        have hx' : x = UInt32.ofNat (2 ^ n) ^^^ UInt32.ofNat (x.toNat - 2 ^ n) := by
          apply UInt32.toNat_inj.mp
          rw [UInt32.toNat_xor, UInt32.toNat_ofNat', UInt32.toNat_ofNat', Nat.mod_eq_of_lt hp,
            Nat.mod_eq_of_lt (by omega), two_pow_xor_of_lt hr]
          omega
        rw [hx', hf, hg, hb n (by omega), ih (by omega) _ (by rw [UInt32.toNat_ofNat', Nat.mod_eq_of_lt (by omega)]; exact hr)]
  intro x
  exact key 32 (Nat.le_refl _) x x.toNat_lt

/-- the block whose only non-zero word is word `m` -/
def inj (m : Nat) (w : UInt32) : W8 :=
  match m with
  | 0 => ⟨w, 0, 0, 0, 0, 0, 0, 0⟩ | 1 => ⟨0, w, 0, 0, 0, 0, 0, 0⟩ | 2 => ⟨0, 0, w, 0, 0, 0, 0, 0⟩
  | 3 => ⟨0, 0, 0, w, 0, 0, 0, 0⟩ | 4 => ⟨0, 0, 0, 0, w, 0, 0, 0⟩ | 5 => ⟨0, 0, 0, 0, 0, w, 0, 0⟩
  | 6 => ⟨0, 0, 0, 0, 0, 0, w, 0⟩ | _ => ⟨0, 0, 0, 0, 0, 0, 0, w⟩

theorem inj_xor (m : Nat) (a b : UInt32) : inj m (a ^^^ b) = xor8 (inj m a) (inj m b) := by
  unfold inj; split <;> simp [xor8]

theorem xor8_self_zero : xor8 W8.zero W8.zero = W8.zero := by decide

theorem decompose (x : W8) : x = xor8 (inj 0 x.w0) (xor8 (inj 1 x.w1) (xor8 (inj 2 x.w2) (xor8 (inj 3 x.w3)
    (xor8 (inj 4 x.w4) (xor8 (inj 5 x.w5) (xor8 (inj 6 x.w6) (inj 7 x.w7))))))) := by
  cases x; simp [inj, xor8]

/-- **two XOR-additive maps on 256-bit blocks that agree on the zero block and on the 256 unit blocks are equal** -/
theorem ext256 (F G : W8 → W8)
    (hF : ∀ x y, F (xor8 x y) = xor8 (F x) (F y)) (hG : ∀ x y, G (xor8 x y) = xor8 (G x) (G y))
    (h0 : F W8.zero = G W8.zero)
    (hb : ∀ m, m < 8 → ∀ n, n < 32 → F (inj m (UInt32.ofNat (2 ^ n))) = G (inj m (UInt32.ofNat (2 ^ n)))) :
    ∀ x, F x = G x := by
  have hw : ∀ m, m < 8 → ∀ w, F (inj m w) = G (inj m w) := by
    intro m hm
    apply ext32 xor8 (fun w => F (inj m w)) (fun w => G (inj m w))
    · intro a b; simp only [inj_xor, hF]
    · intro a b; simp only [inj_xor, hG]
    · have : inj m 0 = W8.zero := by unfold inj; split <;> rfl
      simp only [this, h0]
    · exact hb m hm
  intro x
  rw [decompose x]
  simp only [hF, hG, hw 0 (by omega), hw 1 (by omega), hw 2 (by omega), hw 3 (by omega), hw 4 (by omega),
    hw 5 (by omega), hw 6 (by omega), hw 7 (by omega)]

end PV.HashX.Linear

import PV.Lemmas.SocketCalls
/-!
# C09 — end-to-end integrity: what the API reports is what the kernel did

`stream_integrity_run` (TCP: byte pipe) and `datagram_exact_call` (UDP: bag of datagrams).  The kernel is
represented by its contract for ONE native call (`pipeSendOk` / `pipeRecvOk` of `PV.Model.Socket`,
`bagRecvOk` below); the theorems lift it through the retry loops of `psocket.c`.
-/
set_option linter.unusedSimpArgs false
namespace PV.Socket
open PV.Generated.Socket

/-! ## a kernel state threaded through a trace -/

/-- the kernel state (`α`: a byte pipe, a bag of datagrams) threaded through all native calls of a trace;
    `step` is the kernel's contract for ONE native call -/
def threadTrace {α : Type} (step : α → Ev → α → Prop) : α → List Ev → α → Prop
  | a, [], a' => a' = a
  | a, ev :: tr, a' => ∃ q, step a ev q ∧ threadTrace step q tr a'

theorem threadTrace_append {α : Type} (step : α → Ev → α → Prop) (a a' : α) (t1 t2 : List Ev) :
    threadTrace step a (t1 ++ t2) a' ↔ ∃ q, threadTrace step a t1 q ∧ threadTrace step q t2 a' := by
  induction t1 generalizing a with
  | nil => simp [threadTrace]
  | cons ev t1 ih =>
    simp only [List.cons_append, threadTrace, ih]
    constructor
    · rintro ⟨q, h1, q', h2, h3⟩; exact ⟨q', ⟨q, h1, h2⟩, h3⟩
    · rintro ⟨q', ⟨q, h1, h2⟩, h3⟩; exact ⟨q, h1, q', h2, h3⟩

theorem threadTrace_single {α : Type} (step : α → Ev → α → Prop) (a a' : α) (ev : Ev) :
    threadTrace step a [ev] a' ↔ step a ev a' := by
  simp only [threadTrace]
  constructor
  · rintro ⟨q, h1, h2⟩; rw [h2]; exact h1
  · intro h; exact ⟨a', h, rfl⟩

/-- an event that cannot change the kernel state -/
def Neutral {α : Type} (step : α → Ev → α → Prop) (ev : Ev) : Prop := ∀ a a', step a ev a' → a' = a

theorem threadTrace_neutral {α : Type} (step : α → Ev → α → Prop) (tr : List Ev)
    (hn : ∀ ev ∈ tr, Neutral step ev) (a a' : α) (h : threadTrace step a tr a') : a' = a := by
  induction tr generalizing a with
  | nil => exact h
  | cons ev tr ih =>
    obtain ⟨q, h1, h2⟩ := h
    have := hn ev (by simp) a q h1
    subst this
    exact ih (fun ev hev => hn ev (by simp [hev])) _ h2

/-- a contract that does not react to the `poll`s of loop `c` nor to failed native calls -/
structure QuietStep {α : Type} (step : α → Ev → α → Prop) (c : LoopCfg) : Prop where
  poll : ∀ res, Neutral step ⟨c.poll, res⟩
  failed : ∀ ev, ev.res.failed = true → Neutral step ev

/-- companion of `ioLoop_done`: when a loop ends with `fail`, EVERY data call it made had failed -/
theorem ioLoop_fail_all_failed (c : LoopCfg) (hpc : c.poll ≠ c.call) : ∀ (ph : Phase) (s : List Res) (e : Int) (pe : PErr),
    (ioLoop c ph s e).fin = .fail pe →
      ∀ ev ∈ (ioLoop c ph s e).evs, ev.call = c.call → ev.res.failed = true := by
  intro ph s
  induction s generalizing ph with
  | nil => intro e pe h; cases ph <;> simp [ioLoop] at h
  | cons a s ih =>
    intro e pe h
    cases ph with
    | wait =>
      rw [ioLoop_wait_cons] at h ⊢
      split at h
      · cases h
      · rename_i hsys
        simp only [hsys, if_false]
        cases hp : pollStep a e with
        | again e' =>
          simp only [hp, LoopR.cons] at h ⊢
          intro ev hev hc
          rcases List.mem_cons.1 hev with h1 | h1
          · subst h1; exact absurd hc hpc
          · exact ih _ _ _ h ev h1 hc
        | ready =>
          simp only [hp, LoopR.cons] at h ⊢
          intro ev hev hc
          rcases List.mem_cons.1 hev with h1 | h1
          · subst h1; exact absurd hc hpc
          · exact ih _ _ _ h ev h1 hc
        | fail pe' e' =>
          simp only [hp] at h ⊢
          intro ev hev hc
          simp only [List.mem_singleton] at hev
          subst hev; exact absurd hc hpc
    | data =>
      rw [ioLoop_data_cons] at h ⊢
      split at h
      · cases h
      · rename_i hsys
        simp only [hsys, if_false]
        have hfail : dataStep c a ≠ .done → a.failed = true := by
          intro hd
          unfold dataStep at hd
          cases hr : a.ret with
          | ok v => simp [hr] at hd
          | err x => simp [Res.failed, hr]
        cases hd : dataStep c a with
        | done => simp [hd] at h
        | again e' =>
          simp only [hd, LoopR.cons] at h ⊢
          intro ev hev hc
          rcases List.mem_cons.1 hev with h1 | h1
          · subst h1; exact hfail (by simp [hd])
          · exact ih _ _ _ h ev h1 hc
        | fail pe' e' =>
          simp only [hd] at h ⊢
          intro ev hev hc
          simp only [List.mem_singleton] at hev
          subst hev; exact hfail (by simp [hd])

/-- in a loop trace whose data calls all failed, nothing changes the kernel state -/
theorem neutral_of_failed {α : Type} (step : α → Ev → α → Prop) (c : LoopCfg) (hq : QuietStep step c) (tr : List Ev)
    (hcalls : ∀ ev ∈ tr, ev.call = c.poll ∨ ev.call = c.call)
    (hfailed : ∀ ev ∈ tr, ev.call = c.call → ev.res.failed = true) : ∀ ev ∈ tr, Neutral step ev := by
  intro ev hev
  rcases hcalls ev hev with h | h
  · have : ev = ⟨c.poll, ev.res⟩ := by cases ev; simp_all
    rw [this]; exact hq.poll _
  · exact hq.failed ev (hfailed ev hev h)

/-- a loop that ended `done res`, under the kernel contract: the kernel state is untouched up to the last
    event, which is the one data call that succeeded -/
theorem thread_done {α : Type} (step : α → Ev → α → Prop) (c : LoopCfg) (hpc : c.poll ≠ c.call) (hq : QuietStep step c)
    (ph : Phase) (script : Script) (e : Int)
    (res : Res) (hf : (ioLoop c ph script e).fin = .done res) (a a' : α)
    (hk : threadTrace step a (ioLoop c ph script e).evs a') :
    res.failed = false ∧ step a ⟨c.call, res⟩ a' := by
  obtain ⟨pre, h1, h2, h3, _, _⟩ := ioLoop_done c hpc ph script e res hf
  refine ⟨h3, ?_⟩
  have hcalls := ioLoop_calls c ph script e
  rw [h1] at hk hcalls
  obtain ⟨q, hq1, hq2⟩ := (threadTrace_append _ _ _ _ _).1 hk
  have hqa : q = a := threadTrace_neutral step pre
    (neutral_of_failed step c hq pre (fun ev hev => hcalls ev (by simp [hev])) h2) a q hq1
  subst hqa
  exact (threadTrace_single _ _ _ _).1 hq2

/-- a loop that ended `fail`, under the kernel contract: the kernel state is untouched -/
theorem thread_fail {α : Type} (step : α → Ev → α → Prop) (c : LoopCfg) (hpc : c.poll ≠ c.call) (hq : QuietStep step c)
    (ph : Phase) (script : Script) (e : Int)
    (pe : PErr) (hf : (ioLoop c ph script e).fin = .fail pe) (a a' : α)
    (hk : threadTrace step a (ioLoop c ph script e).evs a') : a' = a :=
  threadTrace_neutral step _ (neutral_of_failed step c hq _ (ioLoop_calls c ph script e)
    (ioLoop_fail_all_failed c hpc ph script e pe hf)) a a' hk

theorem toSocklen_toNat (n : Nat) (h : n < 2 ^ 32) : (toSocklen n).toNat = n := by
  rw [toSocklen_eq n h]; rfl

/-! ## A. stream sockets -/

/-- kernel contract for one event of a trace, on one direction of a TCP connection: `send` appends the
    bytes it accepted, `recv` pops the bytes it delivered, every other native call leaves the pipe alone -/
def pipeEvOk (p : Pipe) (ev : Ev) (p' : Pipe) : Prop :=
  match ev.call with
  | .send _ _ _ _ data => pipeSendOk p data ev.res p'
  | .recv _ _ len _ => pipeRecvOk p len.toNat ev.res p'
  | _ => p' = p

/-- the pipe threaded through all native calls of a trace -/
def pipeTrace : Pipe → List Ev → Pipe → Prop := threadTrace pipeEvOk

theorem pipeEvOk_failed (ev : Ev) (hf : ev.res.failed = true) : Neutral pipeEvOk ev := by
  intro p p' h
  unfold pipeEvOk at h
  cases hr : ev.res.ret with
  | ok v => simp [Res.failed, hr] at hf
  | err x =>
    cases hc : ev.call <;> simp only [hc] at h
    case send => simpa [pipeSendOk, hr] using h
    case recv => simpa [pipeRecvOk, hr] using h
    all_goals exact h

theorem pipe_quiet (c : LoopCfg) (s : Sock) (cond : Int) (hp : c.poll = pollCall s cond) : QuietStep pipeEvOk c :=
  ⟨fun res p p' h => by rw [hp] at h; exact h, pipeEvOk_failed⟩

theorem sendCfg_poll_ne (s : Sock) (b : Bytes) (n : Nat) : (sendCfg s b n).poll ≠ (sendCfg s b n).call := by
  simp [sendCfg, loopCfg, pollCall, sendCall]
theorem recvCfg_poll_ne (s : Sock) (n : Nat) : (recvCfg s n).poll ≠ (recvCfg s n).call := by
  simp [recvCfg, loopCfg, pollCall, recvCall]

/-- **per-call lemma, send**: `p_socket_send` of the whole buffer `b`.  If it reports `k`, exactly `b.take k`
    (1 ≤ k ≤ |b|) was appended to the pipe, once; if it reports an error, nothing was. -/
theorem send_pipe (s : Sock) (hc : s.closed = false) (b : Bytes) (hn : b.length ≠ 0) (hlt : b.length < 2 ^ 32)
    (script : Script) (e : Int) (r : CallResult) (h : call s (.send (some b) b.length) script e = .ok r)
    (p p' : Pipe) (hk : pipeTrace p r.tr p') :
    match r.out.err with
    | none => ∃ k, r.out.ret = Int.ofNat k ∧ 1 ≤ k ∧ k ≤ b.length ∧ p' = p ++ b.take k
    | some _ => p' = p := by
  rw [send_eq s hc b b.length hn] at h
  have hq : QuietStep pipeEvOk (sendCfg s b b.length) := pipe_quiet _ s _ rfl
  cases herr : r.out.err with
  | none =>
    obtain ⟨res, hf, hr⟩ := ofLoop_ok_noerr _ _ _ _ _ (by intro x; rfl) h herr
    subst hr
    obtain ⟨h3, hev⟩ := thread_done _ _ (sendCfg_poll_ne s b _) hq _ _ _ res hf p p' hk
    cases hret : res.ret with
    | err x => simp [Res.failed, hret] at h3
    | ok k =>
      have hdata : b.take (toSocklen b.length).toNat = b := by
        rw [toSocklen_toNat _ hlt]; exact List.take_length
      simp only [pipeEvOk, sendCfg, loopCfg, sendCall, pipeSendOk, hret, hdata] at hev
      exact ⟨k, by simp [retVal, hret], hev.1, hev.2.1, hev.2.2⟩
  | some pe =>
    obtain ⟨hf, hr⟩ := ofLoop_ok_err _ _ _ _ _ pe (by intro x; rfl) h herr
    subst hr
    exact thread_fail _ _ (sendCfg_poll_ne s b _) hq _ _ _ pe hf p p' hk

/-- **per-call lemma, receive**: if `p_socket_receive` reports `k`, the caller's buffer holds exactly the
    first `k` bytes of the pipe and exactly those were removed; if it reports an error, nothing was. -/
theorem receive_pipe (s : Sock) (hc : s.closed = false) (n : Nat) (hlt : n < 2 ^ 32)
    (script : Script) (e : Int) (r : CallResult) (h : call s (.receive false n) script e = .ok r)
    (p p' : Pipe) (hk : pipeTrace p r.tr p') :
    match r.out.err with
    | none => ∃ k, r.out.ret = Int.ofNat k ∧ k ≤ n ∧ k ≤ p.length ∧ r.out.data = p.take k ∧ p' = p.drop k
    | some _ => p' = p := by
  rw [receive_eq s hc] at h
  have hq : QuietStep pipeEvOk (recvCfg s n) := pipe_quiet _ s _ rfl
  cases herr : r.out.err with
  | none =>
    obtain ⟨res, hf, hr⟩ := ofLoop_ok_noerr _ _ _ _ _ (by intro x; rfl) h herr
    subst hr
    obtain ⟨h3, hev⟩ := thread_done _ _ (recvCfg_poll_ne s n) hq _ _ _ res hf p p' hk
    cases hret : res.ret with
    | err x => simp [Res.failed, hret] at h3
    | ok k =>
      simp only [pipeEvOk, recvCfg, loopCfg, recvCall, pipeRecvOk, hret, toSocklen_toNat _ hlt] at hev
      obtain ⟨hkn, hkp, hd, hp'⟩ := hev
      refine ⟨k, by simp [retVal, hret], hkn, hkp, ?_, hp'⟩
      simp only [delivered, hret, toSocklen_toNat _ hlt, hd, List.take_take]
      congr 1
      omega
  | some pe =>
    obtain ⟨hf, hr⟩ := ofLoop_ok_err _ _ _ _ _ pe (by intro x; rfl) h herr
    subst hr
    exact thread_fail _ _ (recvCfg_poll_ne s n) hq _ _ _ pe hf p p' hk

/-! ### a system run over one direction of a connection -/

/-- what an observer of the two endpoints has seen so far, and the kernel's pipe between them -/
structure StreamState where
  /-- bytes the sender was told were sent (`buf.take k` of every `p_socket_send` that reported `k`) -/
  sent     : Bytes := []
  /-- bytes handed to the receiver (`out.data` of every successful `p_socket_receive`) -/
  received : Bytes := []
  /-- bytes in flight (kernel) -/
  pipe     : Pipe := []

/-- one API call of a run.  Socket object (mode, timeout, …), chunk / buffer size, fault script and
    `errno` at entry are arbitrary and may differ from step to step. -/
inductive IOStep
  | sendStep (s : Sock) (buf : Bytes) (script : Script) (e : Int)
  | recvStep (s : Sock) (buflen : Nat) (script : Script) (e : Int)

/-- one step of a run: the call returns (no `Stop`), and its script is one the kernel could have produced
    (`pipeTrace`); the observer records what the API *reported* -/
def stepOk (σ : StreamState) : IOStep → StreamState → Prop
  | .sendStep s buf script e, σ' =>
    s.closed = false ∧ buf.length ≠ 0 ∧ buf.length < 2 ^ 32 ∧
    ∃ r, call s (.send (some buf) buf.length) script e = .ok r ∧
      pipeTrace σ.pipe r.tr σ'.pipe ∧
      σ'.received = σ.received ∧
      σ'.sent = σ.sent ++ (match r.out.err with
                           | none => buf.take r.out.ret.toNat
                           | some _ => [])
  | .recvStep s buflen script e, σ' =>
    s.closed = false ∧ buflen < 2 ^ 32 ∧
    ∃ r, call s (.receive false buflen) script e = .ok r ∧
      pipeTrace σ.pipe r.tr σ'.pipe ∧
      σ'.sent = σ.sent ∧
      σ'.received = σ.received ++ (match r.out.err with
                                   | none => r.out.data
                                   | some _ => [])

/-- a run: a list of steps -/
def runOk : StreamState → List IOStep → StreamState → Prop
  | σ, [], σ' => σ' = σ
  | σ, st :: rest, σ' => ∃ σ1, stepOk σ st σ1 ∧ runOk σ1 rest σ'

/-- the invariant: what was received, followed by what is in flight, is what was sent -/
theorem stepOk_inv (σ σ' : StreamState) (st : IOStep) (h : stepOk σ st σ')
    (hinv : σ.received ++ σ.pipe = σ.sent) : σ'.received ++ σ'.pipe = σ'.sent := by
  cases st with
  | sendStep s buf script e =>
    obtain ⟨hc, hn, hlt, r, hcall, hk, hrecv, hsent⟩ := h
    have := send_pipe s hc buf hn hlt script e r hcall _ _ hk
    rw [hrecv, hsent]
    cases herr : r.out.err with
    | none =>
      simp only [herr] at this ⊢
      obtain ⟨k, hret, _, _, hp'⟩ := this
      rw [hp', hret, ← hinv]
      simp
    | some pe =>
      simp only [herr] at this ⊢
      rw [this, hinv]; simp
  | recvStep s n script e =>
    obtain ⟨hc, hlt, r, hcall, hk, hsent, hrecv⟩ := h
    have := receive_pipe s hc n hlt script e r hcall _ _ hk
    rw [hrecv, hsent]
    cases herr : r.out.err with
    | none =>
      simp only [herr] at this ⊢
      obtain ⟨k, _, _, _, hd, hp'⟩ := this
      rw [hp', hd, ← hinv, List.append_assoc, List.take_append_drop]
    | some pe =>
      simp only [herr] at this ⊢
      rw [this, ← hinv]; simp

theorem runOk_inv (steps : List IOStep) : ∀ (σ σ' : StreamState), runOk σ steps σ' →
    σ.received ++ σ.pipe = σ.sent → σ'.received ++ σ'.pipe = σ'.sent := by
  induction steps with
  | nil => intro σ σ' h hinv; cases h; exact hinv
  | cons st rest ih =>
    intro σ σ' h hinv
    obtain ⟨σ1, h1, h2⟩ := h
    exact ih σ1 σ' h2 (stepOk_inv σ σ1 st h1 hinv)

/-- **stream_integrity_run.**  Any interleaving of `p_socket_send` / `p_socket_receive` calls on the two ends of
    one direction of a TCP connection — any chunk sizes, any socket modes, any scripts of EINTR / would-block /
    short writes / short reads / hard errors the kernel may produce: the bytes handed to the receiver, followed
    by the bytes still in flight, are exactly the bytes the sender was told were sent.  No loss, duplication,
    reordering or corruption. -/
theorem stream_integrity_run (steps : List IOStep) (σ : StreamState) (h : runOk {} steps σ) :
    σ.received ++ σ.pipe = σ.sent :=
  runOk_inv steps {} σ h rfl

/-- …in particular the receiver has a prefix of what was sent, and everything once the pipe has drained -/
theorem stream_integrity_prefix (steps : List IOStep) (σ : StreamState) (h : runOk {} steps σ) :
    σ.received <+: σ.sent ∧ (σ.pipe = [] → σ.received = σ.sent) := by
  have := stream_integrity_run steps σ h
  exact ⟨⟨σ.pipe, this⟩, fun hp => by rw [hp, List.append_nil] at this; exact this⟩

/-! ### non-vacuity: a concrete run with an EINTR, a short write and an interrupted read -/

/-- blocking sender with a timeout -/
def demoTx : Sock := { family := AF_INET, protocol := 6, type := 1, fd := 5, listen_backlog := 5, timeout := 50, blocking := true }
/-- non-blocking receiver -/
def demoRx : Sock := { family := AF_INET, protocol := 6, type := 1, fd := 7, listen_backlog := 5 }

def demoTxScript : Script :=
  [{ sys := .poll, ret := .ok 1 }, { sys := .send, ret := .err EINTR },      -- interrupted
   { sys := .poll, ret := .ok 1 }, { sys := .send, ret := .ok 2 }]           -- short write: 2 of 3
def demoRxScript : Script :=
  [{ sys := .recv, ret := .err EINTR }, { sys := .recv, ret := .ok 2, data := [1, 2] }]

/-- what the two API calls report -/
example :
    (call demoTx (.send (some [1, 2, 3]) 3) demoTxScript 0).toOption.map (fun r => (r.out.ret, r.out.err, r.tr.length)) = some (2, none, 4) ∧
    (call demoRx (.receive false 8) demoRxScript 0).toOption.map (fun r => (r.out.ret, r.out.err, r.out.data, r.tr.length)) = some (2, none, [1, 2], 2) := by
  decide

/-- the hypotheses of `stream_integrity_run` are satisfiable: this is a run (send `[1,2,3]` → EINTR, then a short
    write of 2; receive into 8 bytes → EINTR, then 2 bytes), and its final state is sent = received = `[1,2]`,
    pipe empty -/
theorem demo_run :
    runOk {}
      [.sendStep demoTx [1, 2, 3] demoTxScript 0, .recvStep demoRx 8 demoRxScript 0]
      { sent := [1, 2], received := [1, 2], pipe := [] } := by
  refine ⟨{ sent := [1, 2], received := [], pipe := [1, 2] }, ⟨rfl, by decide, by decide, _, rfl, ?_, rfl, rfl⟩,
    { sent := [1, 2], received := [1, 2], pipe := [] }, ⟨rfl, by decide, _, rfl, ?_, rfl, rfl⟩, rfl⟩
  · -- poll, send → EINTR, poll, send → 2
    exact ⟨[], rfl, [], rfl, [], rfl, [1, 2], ⟨by decide, by decide, rfl⟩, rfl⟩
  · -- recv → EINTR, recv → 2 bytes
    exact ⟨[1, 2], rfl, [], ⟨by decide, by decide, rfl, rfl⟩, rfl⟩

/-! ## B. datagram sockets -/

/-- `p_socket_receive_from (socket, &address, buffer, n)` from the end of its `recvfrom()` loop: on success one
    more (opaque, scripted) call `p_socket_address_new_from_native (&sa, optlen)` with what `recvfrom` wrote -/
def receiveFromResult (s : Sock) (n : Nat) (l : LoopR) : Except Stop CallResult :=
  match l.fin with
  | .stop w => .error w
  | .fail pe => .ok { sock := s, out := failOut (-1) pe, tr := l.evs, rest := l.rest, errno := l.errno }
  | .done r =>
    match l.rest with
    | [] => .error .exhausted
    | a :: rest' =>
      if a.sys ≠ .fromNative then .error (.mismatch .fromNative a.sys)
      else
        .ok { sock := s,
              out := { ret := retVal r, data := delivered r (toSocklen n),
                       addr := if a.ret = .ok 0 then none
                               else some (r.sa.take sizeofSockaddrStorage.toNat, Int.ofNat r.sa.length) },
              tr := l.evs ++ [⟨.fromNative (r.sa.take sizeofSockaddrStorage.toNat) (Int.ofNat r.sa.length), a⟩],
              rest := rest',
              errno := (match a.ret with | .err x => x | .ok _ => l.errno) }

theorem receiveFrom_addr_eq (s : Sock) (hc : s.closed = false) (n : Nat) (hn : n ≠ 0) (script : Script) (e : Int) :
    call s (.receiveFrom true false n) script e =
      receiveFromResult s n (ioLoop (recvfromCfg s n) (startPhase (recvfromCfg s n)) script e) := by
  unfold call callM receiveFrom receiveFromResult runLoop recvfromCfg
  simp only [check, hc, hn, Bool.false_eq_true, if_false, or_self, M.bind_apply]
  simp only [M.bind, M.bind_apply, liftLoop_apply]
  generalize ioLoop (loopCfg s P_SOCKET_IO_CONDITION_POLLIN (recvfromCall s n) "Failed to call recvfrom() on socket")
    (startPhase (loopCfg s P_SOCKET_IO_CONDITION_POLLIN (recvfromCall s n) "Failed to call recvfrom() on socket")) script e = L
  cases hf : L.fin with
  | stop w => simp
  | fail pe => simp [M.pure, pure]
  | done r =>
    simp only [if_true, M.bind_apply, M.bind]
    cases hr : L.rest with
    | nil => simp [sys]
    | cons a rest' =>
      by_cases hs : a.sys = Sys.fromNative
      · simp [sys, hs, Issued.sys, M.pure, pure]
        cases a.ret <;> rfl
      · simp [sys, hs, Issued.sys]

/-- a UDP socket's receive queue: a bag of (datagram, sender's sockaddr) -/
abbrev Bag := List (Bytes × Bytes)

/-- kernel contract for one native `recvfrom (fd, buf, len, flags, &sa, &salen)` on a datagram socket: on
    success ONE queued datagram `d` is taken out of the bag (whichever), the buffer gets `d` cut to `len`
    (the rest of the datagram is discarded), the return value is the number of bytes stored, and `sa`/`salen`
    are the sender's address; a failed call leaves the bag alone -/
def bagRecvOk (bag : Bag) (len : Nat) (r : Res) (bag' : Bag) : Prop :=
  match r.ret with
  | .ok k => ∃ d sa l1 l2, bag = l1 ++ (d, sa) :: l2 ∧ bag' = l1 ++ l2 ∧
      k = min d.length len ∧ r.data = d.take len ∧ r.sa = sa
  | .err _ => bag' = bag

def bagEvOk (bag : Bag) (ev : Ev) (bag' : Bag) : Prop :=
  match ev.call with
  | .recvfrom _ _ len _ _ => bagRecvOk bag len.toNat ev.res bag'
  | _ => bag' = bag

/-- the bag threaded through all native calls of a trace -/
def bagTrace : Bag → List Ev → Bag → Prop := threadTrace bagEvOk

theorem bagEvOk_failed (ev : Ev) (hf : ev.res.failed = true) : Neutral bagEvOk ev := by
  intro p p' h
  unfold bagEvOk at h
  cases hr : ev.res.ret with
  | ok v => simp [Res.failed, hr] at hf
  | err x =>
    cases hc : ev.call <;> simp only [hc] at h
    case recvfrom => simpa [bagRecvOk, hr] using h
    all_goals exact h

theorem bag_quiet (c : LoopCfg) (s : Sock) (cond : Int) (hp : c.poll = pollCall s cond) : QuietStep bagEvOk c :=
  ⟨fun res p p' h => by rw [hp] at h; exact h, bagEvOk_failed⟩

theorem recvfromCfg_poll_ne (s : Sock) (n : Nat) : (recvfromCfg s n).poll ≠ (recvfromCfg s n).call := by
  simp [recvfromCfg, loopCfg, pollCall, recvfromCall]

theorem take_take_min (d : Bytes) (n : Nat) : (d.take n).take (min (min d.length n) n) = d.take n := by
  rw [List.take_take, List.take_eq_take_iff]
  omega

/-- **datagram_exact_call.**  A successful `p_socket_receive_from (socket, &address, buffer, buflen, …)` on a UDP
    socket whose receive queue is `bag`: exactly ONE queued datagram `(d, sa)` left the queue; the caller's
    buffer holds `d` cut to `buflen` and the return value is the number of bytes stored; the last two native
    calls are the successful `recvfrom` and `p_socket_address_new_from_native (&sa, salen)` with the kernel's
    sockaddr and the kernel's length, and that address object is what `*address` is set to (NULL only if the
    conversion itself returned NULL).  Every earlier `recvfrom` of the call had failed (so took nothing). -/
theorem datagram_exact_call (s : Sock) (hc : s.closed = false) (buflen : Nat) (h0 : 0 < buflen) (hlt : buflen < 2 ^ 32)
    (script : Script) (e : Int) (r : CallResult)
    (h : call s (.receiveFrom true false buflen) script e = .ok r) (hok : r.out.err = none)
    (bag bag' : Bag) (hsa : ∀ x ∈ bag, x.2.length ≤ 128) (hk : bagTrace bag r.tr bag') :
    ∃ d sa l1 l2 pre res a,
      bag = l1 ++ (d, sa) :: l2 ∧ bag' = l1 ++ l2 ∧
      r.out.ret = Int.ofNat (min d.length buflen) ∧ r.out.data = d.take buflen ∧
      r.tr = pre ++ [⟨recvfromCall s buflen, res⟩, ⟨.fromNative sa (Int.ofNat sa.length), a⟩] ∧
      res.ret = .ok (min d.length buflen) ∧
      (∀ ev ∈ pre, ev.call = recvfromCall s buflen → ev.res.failed = true) ∧
      (∀ ev ∈ pre, ev.call = pollCall s P_SOCKET_IO_CONDITION_POLLIN ∨ ev.call = recvfromCall s buflen) ∧
      r.out.addr = (if a.ret = .ok 0 then none else some (sa, Int.ofNat sa.length)) := by
  rw [receiveFrom_addr_eq s hc buflen (by omega)] at h
  unfold receiveFromResult at h
  have hq : QuietStep bagEvOk (recvfromCfg s buflen) := bag_quiet _ s _ rfl
  generalize hL : ioLoop (recvfromCfg s buflen) (startPhase (recvfromCfg s buflen)) script e = L at h
  cases hf : L.fin with
  | stop w => simp [hf] at h
  | fail pe => simp only [hf] at h; injection h with h; subst h; simp [failOut] at hok
  | done res =>
    simp only [hf] at h
    cases hrest : L.rest with
    | nil => simp [hrest] at h
    | cons a rest' =>
      simp only [hrest] at h
      by_cases hs : a.sys ≠ Sys.fromNative
      · simp [hs] at h
      · simp only [hs, if_false] at h
        injection h with h
        subst h
        simp only at hk ⊢
        subst hL
        -- the trace: the loop, then `new_from_native`, which does not touch the bag
        obtain ⟨q, hq1, hq2⟩ := (threadTrace_append _ _ _ _ _).1 hk
        have hq3 : bag' = q := (threadTrace_single _ _ _ _).1 hq2
        subst hq3
        obtain ⟨h3, hev⟩ := thread_done _ _ (recvfromCfg_poll_ne s buflen) hq _ _ _ res hf bag bag' hq1
        obtain ⟨pre, hp1, hp2, _, _, _⟩ := ioLoop_done _ (recvfromCfg_poll_ne s buflen) _ script e res hf
        have hcalls := ioLoop_calls (recvfromCfg s buflen) (startPhase (recvfromCfg s buflen)) script e
        cases hret : res.ret with
        | err x => simp [Res.failed, hret] at h3
        | ok k =>
          simp only [bagEvOk, recvfromCfg, loopCfg, recvfromCall, bagRecvOk, hret, toSocklen_toNat _ hlt] at hev
          obtain ⟨d, sa, l1, l2, hb, hb', hkd, hdata, hsaeq⟩ := hev
          have hlen : sa.length ≤ 128 := hsa (d, sa) (by rw [hb]; simp)
          have htake : res.sa.take sizeofSockaddrStorage.toNat = sa := by
            rw [hsaeq]; exact List.take_of_length_le hlen
          refine ⟨d, sa, l1, l2, pre, res, a, hb, hb', ?_, ?_, ?_, ?_, hp2, ?_, ?_⟩
          · simp [retVal, hret, hkd]
          · simp only [delivered, hret, toSocklen_toNat _ hlt, hdata, hkd]
            exact take_take_min d buflen
          · rw [hp1, htake, hsaeq]; simp [recvfromCfg, loopCfg]
          · rw [hret, hkd]
          · intro ev hev
            exact hcalls ev (by rw [hp1]; simp [hev])
          · rw [htake, hsaeq]

/-- a failed `p_socket_receive_from` took nothing out of the queue -/
theorem datagram_failed_keeps_queue (s : Sock) (hc : s.closed = false) (buflen : Nat) (h0 : 0 < buflen)
    (script : Script) (e : Int) (r : CallResult)
    (h : call s (.receiveFrom true false buflen) script e = .ok r) (pe : PErr) (herr : r.out.err = some pe)
    (bag bag' : Bag) (hk : bagTrace bag r.tr bag') : bag' = bag := by
  rw [receiveFrom_addr_eq s hc buflen (by omega)] at h
  unfold receiveFromResult at h
  have hq : QuietStep bagEvOk (recvfromCfg s buflen) := bag_quiet _ s _ rfl
  generalize hL : ioLoop (recvfromCfg s buflen) (startPhase (recvfromCfg s buflen)) script e = L at h
  cases hf : L.fin with
  | stop w => simp [hf] at h
  | fail pe' =>
    simp only [hf] at h; injection h with h; subst h
    subst hL
    exact thread_fail _ _ (recvfromCfg_poll_ne s buflen) hq _ _ _ pe' hf bag bag' hk
  | done res =>
    simp only [hf] at h
    cases hrest : L.rest with
    | nil => simp [hrest] at h
    | cons a rest' =>
      simp only [hrest] at h
      by_cases hs : a.sys ≠ Sys.fromNative
      · simp [hs] at h
      · simp only [hs, if_false] at h
        injection h with h
        subst h
        simp at herr

/-! ### non-vacuity of `datagram_exact_call`: an interrupted `recvfrom`, then a 6-byte datagram into a 4-byte buffer -/

def demoUdp : Sock := { family := AF_INET, protocol := 17, type := 2, fd := 9, listen_backlog := 5, blocking := true }
def demoPeer : Bytes := [2, 0, 0, 80, 127, 0, 0, 1, 0, 0, 0, 0, 0, 0, 0, 0]
def demoOther : Bytes := [2, 0, 0, 81, 10, 0, 0, 7, 0, 0, 0, 0, 0, 0, 0, 0]
def demoBag : Bag := [([9, 9], demoOther), ([1, 2, 3, 4, 5, 6], demoPeer)]
def demoUdpScript : Script :=
  [{ sys := .poll, ret := .ok 1 }, { sys := .recvfrom, ret := .err EINTR },
   { sys := .poll, ret := .ok 1 }, { sys := .recvfrom, ret := .ok 4, data := [1, 2, 3, 4], sa := demoPeer },
   { sys := .fromNative, ret := .ok 1 }]

example :
    (call demoUdp (.receiveFrom true false 4) demoUdpScript 0).toOption.map
        (fun r => (r.out.ret, r.out.err, r.out.data)) = some (4, none, [1, 2, 3, 4]) ∧
    (call demoUdp (.receiveFrom true false 4) demoUdpScript 0).toOption.map
        (fun r => (r.out.addr, r.tr.map (·.call.sys))) =
      some (some (demoPeer, 16), [.poll, .recvfrom, .poll, .recvfrom, .fromNative]) := by
  decide

/-- the hypotheses of `datagram_exact_call` are satisfiable: the script above is one the kernel can produce from `demoBag` -/
example : ∃ r, call demoUdp (.receiveFrom true false 4) demoUdpScript 0 = .ok r ∧ r.out.err = none ∧
    (∀ x ∈ demoBag, x.2.length ≤ 128) ∧ bagTrace demoBag r.tr [([9, 9], demoOther)] := by
  refine ⟨_, rfl, rfl, by decide, ?_⟩
  exact ⟨demoBag, rfl, demoBag, rfl, demoBag, rfl, [([9, 9], demoOther)],
    ⟨[1, 2, 3, 4, 5, 6], demoPeer, [([9, 9], demoOther)], [], rfl, rfl, by decide, rfl, rfl⟩,
    [([9, 9], demoOther)], rfl, rfl⟩

end PV.Socket

import PV.Lemmas.IPCKey
set_option linter.unusedSimpArgs false
/-!
* `SemKeyWF` — PShm structs and shm calls in flight only ever address the lock key `.lock k` of their
  own segment name `k`; in particular they never touch a `.user` key, so `Quiet (.user n)` only
  constrains the `p_semaphore_*` calls (`quiet_user`).
* `holders` / `Bracketed` — who is between a successful lock and its unlock, read off the event log.
-/
namespace PV.IPC
open PV.Generated.IPC

structure SemKeyWF (g : G) : Prop where
  handles : ∀ h p y, g.hs h = some (p, .shm y) → y.sem.key = .lock y.key
  news : ∀ t hid st s', g.calls t = some (.shmNew hid st) → st.pc = .sem s' → s'.key = .lock st.key
  frees : ∀ t st, g.calls t = some (.shmFree st) →
    st.h.sem.key = .lock st.h.key ∧ ∀ s', st.pc = .sem s' → s'.h.key = .lock st.h.key

theorem semNew_after_cont_key (s s' : SemNewSt) (r : Res) (h : s.after r = .cont s') : s'.key = s.key := by
  obtain ⟨key, mode, init, pc⟩ := s
  cases pc <;> simp only [SemNewSt.after] at h <;> (repeat' split at h) <;>
    simp only [Out.cont.injEq, reduceCtorEq] at h <;> subst h <;> rfl

theorem semFree_after_cont_h (s s' : SemFreeSt) (r : Res) (h : s.after r = .cont s') : s'.h = s.h := by
  obtain ⟨hd, pc⟩ := s
  cases pc <;> simp only [SemFreeSt.after] at h <;> (repeat' split at h) <;>
    simp only [Out.cont.injEq, reduceCtorEq] at h <;> subst h <;> rfl

/-- the semaphore part of a `p_shm_new` step -/
theorem shmNew_after_sem (st st' : ShmNewSt) (r : Res) (s' : SemNewSt) (h : st.after r = .cont st') (hpc : st'.pc = .sem s') :
    (s'.key = .lock st.key ∧ st'.key = st.key) ∨ (∃ s0, st.pc = .sem s0 ∧ s'.key = s0.key ∧ st'.key = st.key) := by
  obtain ⟨key, req, ro, created, isExists, size, addr, pc⟩ := st
  cases pc with
  | sem s0 =>
    right
    simp only [ShmNewSt.after] at h
    split at h
    · rename_i s1 hs1
      simp only [Out.cont.injEq] at h
      subst h
      simp only [ShmNewPC.sem.injEq] at hpc
      subst hpc
      exact ⟨s0, rfl, semNew_after_cont_key s0 _ _ hs1, rfl⟩
    · simp at h
    · simp only [ShmNewSt.cleanFrom] at h
      (repeat' split at h) <;> simp only [Out.cont.injEq, reduceCtorEq] at h <;> subst h <;> simp at hpc
  | close fd =>
    left
    simp only [ShmNewSt.after, Out.cont.injEq] at h
    subst h
    simp only [ShmNewPC.sem.injEq] at hpc
    subst hpc
    exact ⟨rfl, rfl⟩
  | _ =>
    exfalso
    rcases r with v | e | _ <;> (try cases e) <;>
      simp only [ShmNewSt.after, ShmNewSt.cleanFrom, shmOpen1Retry, shmOpen2Retry, shmFtruncateCreatorOnly, if_true, Out.cont.injEq, reduceCtorEq] at h <;>
      (try (repeat' split at h)) <;> (try simp only [Out.cont.injEq, reduceCtorEq] at h) <;> (try subst h) <;>
      simp_all

theorem shmFree_after_sem (st st' : ShmFreeSt) (r : Res) (h : st.after r = .cont st') :
    st'.h = st.h ∧ ∀ s', st'.pc = .sem s' → s'.h = st.h.sem ∨ ∃ s0, st.pc = .sem s0 ∧ s'.h = s0.h := by
  obtain ⟨hd, pc⟩ := st
  cases pc with
  | sem s0 =>
    simp only [ShmFreeSt.after] at h
    split at h
    · rename_i s1 hs1
      simp only [Out.cont.injEq] at h
      subst h
      refine ⟨rfl, ?_⟩
      intro s' hs'
      simp only [ShmFreePC.sem.injEq] at hs'
      subst hs'
      right; exact ⟨s0, rfl, semFree_after_cont_h s0 _ _ hs1⟩
    · simp at h
  | munmap =>
    simp only [ShmFreeSt.after] at h
    split at h <;> simp only [Out.cont.injEq] at h <;> subst h
    · exact ⟨rfl, fun s' hs' => by simp at hs'⟩
    · refine ⟨rfl, ?_⟩
      intro s' hs'
      simp only [ShmFreePC.sem.injEq] at hs'
      subst hs'
      left; rfl
  | unlink =>
    simp only [ShmFreeSt.after, Out.cont.injEq] at h
    subst h
    refine ⟨rfl, ?_⟩
    intro s' hs'
    simp only [ShmFreePC.sem.injEq] at hs'
    subst hs'
    left; rfl

theorem call_after_cont_shmFree (st : ShmFreeSt) (r : Res) (c' : Call)
    (h : (Call.shmFree st).after r = .cont c') : ∃ st', c' = .shmFree st' ∧ st.after r = .cont st' := by
  simp only [Call.after] at h
  split at h <;> simp only [Out.cont.injEq, reduceCtorEq] at h
  rename_i st' hs
  exact ⟨st', h.symm, hs⟩

theorem call_after_cont_not_shmFree (c c' : Call) (r : Res) (h : c.after r = .cont c')
    (hn : ∀ st, c ≠ .shmFree st) : ∀ st, c' ≠ .shmFree st := by
  intro st e
  subst e
  cases c with
  | shmFree st' => exact hn st' rfl
  | _ => simp only [Call.after] at h <;> (repeat' split at h) <;> simp at h

theorem start_calls_shmFree (g : G) (t : Tid) (op : Op) (st : ShmFreeSt)
    (h : (g.start t op).calls t = some (.shmFree st)) :
    g.calls t = some (.shmFree st) ∨ (∃ hh, g.handleOf t hh = some (.shm st.h) ∧ st.pc = .munmap) := by
  unfold G.start at h
  split at h
  · left; simpa [G.setRet] using h
  · cases op <;> simp only at h <;> (repeat' split at h) <;>
      simp only [G.setRet, G.setCall, G.setHandle, if_true, Option.some.injEq, reduceCtorEq, Call.shmFree.injEq] at h <;>
      first
      | (left; exact h)
      | (right; rename_i hh _ y hof; subst h; exact ⟨hh, hof, rfl⟩)

theorem semKeyWF_exec (g : G) (a : Action) (h : SemKeyWF g) : SemKeyWF (exec g a) := by
  cases a with
  | kill p =>
    simp only [exec]
    refine ⟨?_, ?_, ?_⟩
    · intro h' q y hy; exact h.handles h' q y (kill_hs g p h' q _ hy)
    · intro t hid st s' hc hpc
      simp only [G.kill] at hc; split at hc
      · cases hc
      · exact h.news t hid st s' hc hpc
    · intro t st hc
      simp only [G.kill] at hc; split at hc
      · cases hc
      · exact h.frees t st hc
  | start t op =>
    simp only [exec]
    refine ⟨?_, ?_, ?_⟩
    · intro h' p y hy
      rcases start_hs g t op h' p (.shm y) hy with h0 | ⟨x0, h0, e⟩
      · exact h.handles h' p y h0
      · cases x0 with
        | sem z => simp [Handle.owned] at e
        | shm z =>
          simp only [Handle.owned, Handle.shm.injEq] at e
          subst e
          exact h.handles h' p z h0
    · intro t' hid st s' hc hpc
      by_cases e : t' = t
      · subst e
        rcases start_calls_shmNew g t' op hid st hc with h0 | ⟨hpc', _⟩
        · exact h.news t' hid st s' h0 hpc
        · rw [hpc'] at hpc; cases hpc
      · rw [start_calls_other g t op t' e] at hc; exact h.news t' hid st s' hc hpc
    · intro t' st hc
      by_cases e : t' = t
      · subst e
        rcases start_calls_shmFree g t' op st hc with h0 | ⟨hh, hof, hpc⟩
        · exact h.frees t' st h0
        · have := h.handles hh _ st.h (handleOf_some g t' hh _ hof)
          exact ⟨this, fun s' hs' => by rw [hpc] at hs'; cases hs'⟩
      · rw [start_calls_other g t op t' e] at hc; exact h.frees t' st hc
  | step t i =>
    simp only [exec]
    cases hc : g.calls t with
    | none => rw [step_none g t i hc]; exact h
    | some c =>
      refine ⟨?_, ?_, ?_⟩
      · intro h' p y hy
        rw [step_hs g t i c hc] at hy
        split at hy
        · rename_i ret hid x hdone
          split at hy
          · simp only [Option.some.injEq, Prod.mk.injEq] at hy
            obtain ⟨_, rfl⟩ := hy
            rcases call_after_done_handle _ _ _ _ _ hdone with ⟨z, hz⟩ | ⟨st, y0, rfl, e1, hd0⟩
            · cases hz
            · simp only [Handle.shm.injEq] at e1
              subst e1
              obtain ⟨s0, ps, hpc, hps, hsem⟩ := shmNew_after_handle st _ y hd0
              have hk := h.news t _ st s0 hc hpc
              have hkey := (shmNew_done_fields st _ y hd0).1
              rw [hsem, semNew_after_key s0 _ ps hps, hk, hkey]
          · exact h.handles h' p y hy
        · exact h.handles h' p y hy
      · intro t' hid' st' s' hc' hpc'
        by_cases e : t' = t
        · subst e
          rw [step_calls_self g t' i c hc] at hc'
          split at hc'
          · rename_i c' hcont
            simp only [Option.some.injEq] at hc'
            subst hc'
            cases c with
            | shmNew hid st =>
              obtain ⟨st'', e', ha⟩ := call_after_cont_shmNew hid st _ _ hcont
              simp only [Call.shmNew.injEq] at e'
              obtain ⟨_, rfl⟩ := e'
              rcases shmNew_after_sem st st' _ s' ha hpc' with ⟨h1, h2⟩ | ⟨s0, hp0, h1, h2⟩
              · rw [h1, h2]
              · rw [h1, h2]; exact h.news t' hid st s0 hc hp0
            | _ => exact absurd rfl (call_after_cont_not_shmNew _ _ _ hcont (by intro a b; simp) hid' st')
          · cases hc'
        · rw [step_calls_other g t i t' e] at hc'; exact h.news t' hid' st' s' hc' hpc'
      · intro t' st' hc'
        by_cases e : t' = t
        · subst e
          rw [step_calls_self g t' i c hc] at hc'
          split at hc'
          · rename_i c' hcont
            simp only [Option.some.injEq] at hc'
            subst hc'
            cases c with
            | shmFree st =>
              obtain ⟨st'', e', ha⟩ := call_after_cont_shmFree st _ _ hcont
              simp only [Call.shmFree.injEq] at e'
              subst e'
              obtain ⟨hh, hs⟩ := shmFree_after_sem st st' _ ha
              obtain ⟨f1, f2⟩ := h.frees t' st hc
              rw [hh]
              refine ⟨f1, ?_⟩
              intro s' hs'
              rcases hs s' hs' with h1 | ⟨s0, hp0, h1⟩
              · rw [h1]; exact f1
              · rw [h1]; exact f2 s0 hp0
            | _ => exact absurd rfl (call_after_cont_not_shmFree _ _ _ hcont (by intro a; simp) st')
          · cases hc'
        · rw [step_calls_other g t i t' e] at hc'; exact h.frees t' st' hc'

  | fail t e =>
    -- a scripted failure: same shape as a step, no handle appears
    simp only [exec]
    cases hc : g.calls t with
    | none => rw [fail_none g t e hc]; exact h
    | some c =>
      refine ⟨?_, ?_, ?_⟩
      · intro h' p y hy
        rw [fail_hs] at hy
        exact h.handles h' p y hy
      · intro t' hid' st' s' hc' hpc'
        by_cases e' : t' = t
        · subst e'
          rw [fail_calls_self g t' e c hc] at hc'
          split at hc'
          · rename_i c' hcont
            simp only [Option.some.injEq] at hc'
            subst hc'
            cases c with
            | shmNew hid st =>
              obtain ⟨st'', e'', ha⟩ := call_after_cont_shmNew hid st _ _ hcont
              simp only [Call.shmNew.injEq] at e''
              obtain ⟨_, rfl⟩ := e''
              rcases shmNew_after_sem st st' _ s' ha hpc' with ⟨h1, h2⟩ | ⟨s0, hp0, h1, h2⟩
              · rw [h1, h2]
              · rw [h1, h2]; exact h.news t' hid st s0 hc hp0
            | _ => exact absurd rfl (call_after_cont_not_shmNew _ _ _ hcont (by intro a b; simp) hid' st')
          · cases hc'
        · rw [fail_calls_other g t e t' e'] at hc'; exact h.news t' hid' st' s' hc' hpc'
      · intro t' st' hc'
        by_cases e' : t' = t
        · subst e'
          rw [fail_calls_self g t' e c hc] at hc'
          split at hc'
          · rename_i c' hcont
            simp only [Option.some.injEq] at hc'
            subst hc'
            cases c with
            | shmFree st =>
              obtain ⟨st'', e'', ha⟩ := call_after_cont_shmFree st _ _ hcont
              simp only [Call.shmFree.injEq] at e''
              subst e''
              obtain ⟨hh, hs⟩ := shmFree_after_sem st st' _ ha
              obtain ⟨f1, f2⟩ := h.frees t' st hc
              rw [hh]
              refine ⟨f1, ?_⟩
              intro s' hs'
              rcases hs s' hs' with h1 | ⟨s0, hp0, h1⟩
              · rw [h1]; exact f1
              · rw [h1]; exact f2 s0 hp0
            | _ => exact absurd rfl (call_after_cont_not_shmFree _ _ _ hcont (by intro a; simp) st')
          · cases hc'
        · rw [fail_calls_other g t e t' e'] at hc'; exact h.frees t' st' hc'

theorem semKeyWF_execAll (as : List Action) : ∀ g, SemKeyWF g → SemKeyWF (execAll g as) := by
  induction as with
  | nil => intro g h; exact h
  | cons a as ih => intro g h; simp only [execAll, List.foldl_cons]; exact ih _ (semKeyWF_exec g a h)

theorem semKeyWF_init (pidOf : Tid → Pid) : SemKeyWF (G.init pidOf) :=
  ⟨by intro h p y hy; simp [G.init] at hy, by intro t hid st s' hc; simp [G.init] at hc, by intro t st hc; simp [G.init] at hc⟩

/-- the shm calls in flight are quiet for every `.user` key: `Quiet (.user n)` is a condition on the
    `p_semaphore_new` / `p_semaphore_free` calls only -/
theorem quiet_user (g : G) (hW : SemKeyWF g) (n : Nat)
    (hs : ∀ t c, g.calls t = some c →
      (∀ hid s, c = .semNew hid s → ¬ s.mayUnlink (.user n)) ∧ (∀ s, c = .semFree s → ¬ s.mayUnlink (.user n))) :
    Quiet (.user n) g := by
  intro t c hc
  cases c with
  | semNew hid s => exact (hs t _ hc).1 hid s rfl
  | semFree s => exact (hs t _ hc).2 s rfl
  | acquire x => trivial
  | release x => trivial
  | shmNew hid st =>
    simp only [Call.quiet]
    split
    · rename_i s' hpc
      have := hW.news t hid st s' hc hpc
      intro hm
      rw [hm.1] at this
      cases this
    · trivial
  | shmFree st =>
    simp only [Call.quiet]
    split
    · rename_i s' hpc
      have := (hW.frees t st hc).2 s' hpc
      intro hm
      rw [hm.1] at this
      cases this
    · trivial

/-! ## who is inside a lock-bracketed critical section -/

def isAcq (o : ObjId) (e : Ev) : Bool := decide (e.sys = .semWait o ∧ e.res = .ok 0)
def isRel (o : ObjId) (e : Ev) : Bool := decide (e.sys = .semPost o ∧ e.res = .ok 0)

/-- the threads that have acquired object `o` and not released it yet, read off a log (newest event first) -/
def holders (o : ObjId) : List Ev → List Tid
  | [] => []
  | e :: rest =>
    if isAcq o e then e.tid :: holders o rest
    else if isRel o e then (holders o rest).erase e.tid
    else holders o rest

/-- lock-bracketed use: whoever releases `o` is one of its current holders -/
def Bracketed (o : ObjId) : List Ev → Prop
  | [] => True
  | e :: rest => Bracketed o rest ∧ (isRel o e = true → e.tid ∈ holders o rest)

theorem acquired_cons (o : ObjId) (e : Ev) (l : List Ev) :
    acquired o (e :: l) = acquired o l + (if isAcq o e then 1 else 0) := by
  simp only [acquired, isAcq, List.filter_cons]
  split <;> simp_all

theorem released_cons (o : ObjId) (e : Ev) (l : List Ev) :
    released o (e :: l) = released o l + (if isRel o e then 1 else 0) := by
  simp only [released, isRel, List.filter_cons]
  split <;> simp_all

theorem acquired_append (o : ObjId) (l1 l2 : List Ev) : acquired o (l1 ++ l2) = acquired o l1 + acquired o l2 := by
  simp [acquired, List.filter_append]

theorem released_append (o : ObjId) (l1 l2 : List Ev) : released o (l1 ++ l2) = released o l1 + released o l2 := by
  simp [released, List.filter_append]

theorem holders_count (o : ObjId) (l : List Ev) (h : Bracketed o l) :
    (holders o l).length + released o l = acquired o l := by
  induction l with
  | nil => rfl
  | cons e rest ih =>
    obtain ⟨hb, hr⟩ := h
    have ih' := ih hb
    rw [acquired_cons, released_cons]
    simp only [holders]
    by_cases ha : isAcq o e = true
    · have hnr : isRel o e = false := by
        simp only [isAcq, isRel, decide_eq_true_eq] at ha ⊢
        simp [ha.1]
      simp [ha, hnr]; omega
    · by_cases hre : isRel o e = true
      · have hm := hr hre
        have hl := List.length_erase_of_mem hm
        have hpos : 0 < (holders o rest).length := List.length_pos_of_mem hm
        simp [ha, hre, hl]; omega
      · simp [ha, hre]; omega

theorem exec_log_suffix (g : G) (a : Action) : ∃ evs, (exec g a).log = evs ++ g.log := by
  cases a with
  | start t op => exact ⟨[], by simp [exec, start_log]⟩
  | kill p => exact ⟨[], rfl⟩
  | step t i =>
    cases hc : g.calls t with
    | none => exact ⟨[], by simp [exec, step_none g t i hc]⟩
    | some c => exact ⟨[_], by simp only [exec, step_log g t i c hc]; rfl⟩
  | fail t e =>
    cases hc : g.calls t with
    | none => exact ⟨[], by simp [exec, fail_none g t e hc]⟩
    | some c => exact ⟨[_], by simp only [exec, fail_log g t e c hc]; rfl⟩

theorem execAll_log_suffix (as : List Action) : ∀ g, ∃ evs, (execAll g as).log = evs ++ g.log := by
  induction as with
  | nil => intro g; exact ⟨[], rfl⟩
  | cons a as ih =>
    intro g
    obtain ⟨e1, h1⟩ := exec_log_suffix g a
    obtain ⟨e2, h2⟩ := ih (exec g a)
    exact ⟨e2 ++ e1, by simp only [execAll, List.foldl_cons] at h2 ⊢; rw [h2, h1, List.append_assoc]⟩

end PV.IPC

import PV.Model.Locks
/-! Generic lemmas about the lock machines of `PV.Model.Locks` (any record satisfying `SpinGood` /
`MutexGood`; any body `Res`).  `PV.Props.C01` / `PV.Props.C04` instantiate them with the generated
records. -/
namespace PV.Locks
open PV.Atomics

/-! ## (a) CAS spinlock -/

structure SInv (s : SState) : Prop where
  heldWord : ∀ t, s.pc t = .held → s.word = 1
  uniq : ∀ t u, s.pc t = .held → s.pc u = .held → t = u
  freeWord : (∀ t, s.pc t ≠ .held) → s.word = 0

theorem sInv_init : SInv sInit :=
  ⟨fun t h => by simp [sInit] at h, fun t u h => by simp [sInit] at h, fun _ => rfl⟩

theorem afterCas_false {p : SpinImpl} (g : SpinGood p) : afterCas p false = .spin := by
  simp [afterCas, g.loop]

theorem afterCas_true {p : SpinImpl} (g : SpinGood p) : afterCas p true = .held := by
  simp [afterCas, g.loop, g.lockRet]

theorem one_ne_zero32 : (1 : W32) ≠ 0 := by decide

/-- a successful CAS (lock loop or trylock) by `t` from a state satisfying the invariant -/
theorem sInv_acquire {s : SState} (inv : SInv s) (t : Tid) (hw : s.word = 0) (pc' : Tid → PC)
    (hpc : pc' = upd s.pc t .held) : SInv ⟨1, pc'⟩ := by
  subst hpc
  have nobody : ∀ u, s.pc u ≠ .held := fun u hu => one_ne_zero32 ((inv.heldWord u hu).symm.trans hw)
  refine ⟨fun _ _ => rfl, ?_, ?_⟩
  · intro a b ha hb
    by_cases hat : a = t
    · by_cases hbt : b = t
      · rw [hat, hbt]
      · simp [upd, hbt] at hb; exact absurd hb (nobody b)
    · simp [upd, hat] at ha; exact absurd ha (nobody a)
  · intro h; exact absurd (by simp [upd]) (h t)

/-- a step that changes neither the word nor the set of holders -/
theorem sInv_neutral {s : SState} (inv : SInv s) (t : Tid) (x : PC) (hx : x ≠ .held) (ht : s.pc t ≠ .held) :
    SInv ⟨s.word, upd s.pc t x⟩ := by
  have same : ∀ u, (upd s.pc t x u = .held) ↔ (s.pc u = .held) := by
    intro u; by_cases hu : u = t
    · subst hu; simp [upd, hx, ht]
    · simp [upd, hu]
  refine ⟨fun u hu => inv.heldWord u ((same u).1 hu), fun a b ha hb => inv.uniq a b ((same a).1 ha) ((same b).1 hb), ?_⟩
  intro h; exact inv.freeWord fun u hu => h u ((same u).2 hu)

theorem sInv_step {p : SpinImpl} (g : SpinGood p) {s s' : SState} {l : Lbl} (inv : SInv s)
    (st : SStep p false s l s') : SInv s' := by
  cases st with
  | callLock t h => exact sInv_neutral inv t .spin (by decide) (by rw [h]; decide)
  | cas t w' b h hc =>
    by_cases hw : s.word = 0#32
    · rw [hw, g.lockCas0] at hc
      injection hc with hc; injection hc with h1 h2; injection h2 with h2
      subst h1; subst h2
      exact sInv_acquire inv t hw _ (by rw [afterCas_true g])
    · rw [g.lockCasN _ hw] at hc
      injection hc with hc; injection hc with h1 h2; injection h2 with h2
      subst h1; subst h2
      rw [afterCas_false g]
      exact sInv_neutral inv t .spin (by decide) (by rw [h]; decide)
  | casSpurious t h _ =>
    rw [afterCas_false g]
    exact sInv_neutral inv t .spin (by decide) (by rw [h]; decide)
  | try_ t w' b h hc =>
    by_cases hw : s.word = 0#32
    · rw [hw, g.tryCas0] at hc
      injection hc with hc; injection hc with h1 h2; injection h2 with h2
      subst h1; subst h2
      exact sInv_acquire inv t hw _ (by simp)
    · rw [g.tryCasN _ hw] at hc
      injection hc with hc; injection hc with h1 h2; injection h2 with h2
      subst h1; subst h2
      exact sInv_neutral inv t .idle (by decide) (by rw [h]; decide)
  | trySpurious t h _ => exact sInv_neutral inv t .idle (by decide) (by rw [h]; decide)
  | unlock t w' h hc =>
    rw [g.unlock] at hc
    injection hc with hc; injection hc with h1 _
    subst h1
    have nobody : ∀ u, upd s.pc t .idle u ≠ .held := by
      intro u hu
      by_cases hut : u = t
      · subst hut; simp [upd] at hu
      · simp [upd, hut] at hu; exact hut (inv.uniq u t hu h)
    exact ⟨fun u hu => absurd hu (nobody u), fun a _ ha => absurd ha (nobody a), fun _ => rfl⟩
  | rogueUnlock t w' hr _ _ => cases hr

theorem sInv_reach {p : SpinImpl} (g : SpinGood p) {s : SState} (r : SReach p false s) : SInv s := by
  induction r with
  | init => exact sInv_init
  | step _ st ih => exact sInv_step g ih st

/-- mutual exclusion, any number of threads, any interleaving of lock / trylock / unlock -/
theorem spin_excl {p : SpinImpl} (g : SpinGood p) {s : SState} (r : SReach p false s) (t u : Tid)
    (ht : s.holds t) (hu : s.holds u) : t = u :=
  (sInv_reach g r).uniq t u ht hu

/-- a trylock call is always enabled and is over after one step (it never waits) -/
theorem spin_try_enabled {p : SpinImpl} (g : SpinGood p) (rogue : Bool) (s : SState) (t : Tid)
    (h : s.pc t = .idle) : ∃ b s', SStep p rogue s (.try_ t b) s' ∧ s'.pc t ≠ .spin ∧ (s'.holds t ↔ b = true) := by
  by_cases hw : s.word = 0#32
  · refine ⟨true, ⟨1#32, upd s.pc t .held⟩, ?_, by simp, by simp [SState.holds]⟩
    have := SStep.try_ (p := p) (rogue := rogue) s t 1#32 true h (by rw [hw, g.tryCas0])
    simpa using this
  · refine ⟨false, ⟨s.word, upd s.pc t .idle⟩, ?_, by simp, by simp [SState.holds]⟩
    have := SStep.try_ (p := p) (rogue := rogue) s t s.word false h (by rw [g.tryCasN _ hw])
    simpa using this

/-- inversion of a trylock step -/
theorem spin_try_inv {p : SpinImpl} {rogue : Bool} {s s' : SState} {t : Tid} {b : Bool}
    (st : SStep p rogue s (.try_ t b) s') :
    s.pc t = .idle ∧ ((∃ w', interp p.tryCas s.word 0 0 = some (w', Ret.bool b) ∧ s' = ⟨w', upd s.pc t (if b then .held else .idle)⟩)
      ∨ (p.tryCas.weak = some true ∧ b = false ∧ s' = ⟨s.word, upd s.pc t .idle⟩)) := by
  generalize hl : Lbl.try_ t b = l at st
  cases st with
  | try_ t' w' b' h hc =>
    injection hl with e1 e2; subst e1; subst e2
    exact ⟨h, Or.inl ⟨w', hc, rfl⟩⟩
  | trySpurious t' h hweak =>
    injection hl with e1 e2; subst e1; subst e2
    exact ⟨h, Or.inr ⟨hweak, rfl, rfl⟩⟩
  | callLock => cases hl
  | cas => cases hl
  | casSpurious => cases hl
  | unlock => cases hl
  | rogueUnlock => cases hl

/-- on a free lock every possible outcome of trylock is success -/
theorem spin_try_free {p : SpinImpl} (g : SpinGood p) {s s' : SState} (r : SReach p false s) (t : Tid) (b : Bool)
    (free : ∀ u, ¬ s.holds u) (st : SStep p false s (.try_ t b) s') : b = true ∧ s'.holds t := by
  have hw : s.word = 0#32 := (sInv_reach g r).freeWord free
  obtain ⟨_, h | h⟩ := spin_try_inv st
  · obtain ⟨w', hc, rfl⟩ := h
    rw [hw, g.tryCas0] at hc
    injection hc with hc; injection hc with h1 h2; injection h2 with h2
    subst h2
    exact ⟨rfl, by simp [SState.holds]⟩
  · exact absurd h.1 g.tryStrong

/-- trylock fails exactly when somebody holds the lock -/
theorem spin_try_false_iff_held {p : SpinImpl} (g : SpinGood p) {s s' : SState} (r : SReach p false s) (t : Tid) (b : Bool)
    (st : SStep p false s (.try_ t b) s') : b = false ↔ ∃ u, s.holds u := by
  constructor
  · intro hb
    apply Classical.byContradiction
    intro hn
    have := (spin_try_free g r t b (fun u hu => hn ⟨u, hu⟩) st).1
    rw [hb] at this; cases this
  · rintro ⟨u, hu⟩
    have hw : s.word = 1#32 := (sInv_reach g r).heldWord u hu
    obtain ⟨_, h | h⟩ := spin_try_inv st
    · obtain ⟨w', hc, rfl⟩ := h
      rw [g.tryCasN _ (by rw [hw]; decide)] at hc
      injection hc with hc; injection hc with h1 h2; injection h2 with h2
      exact h2.symm
    · exact h.2.1

/-- the only way out of the spin loop into "lock returned" is a successful CAS 0 → 1 -/
theorem spin_exit_only_by_cas_ok {p : SpinImpl} (g : SpinGood p) {rogue : Bool} {s s' : SState} {l : Lbl} (t : Tid)
    (st : SStep p rogue s l s') (h0 : s.pc t = .spin) (h1 : s'.pc t = .held) :
    l = .cas t true ∧ s.word = 0#32 ∧ s'.word = 1#32 := by
  cases st with
  | callLock u h =>
    by_cases e : t = u
    · subst e; simp at h1
    · simp [upd, e] at h1; rw [h0] at h1; cases h1
  | cas u w' b h hc =>
    by_cases e : t = u
    · subst e
      by_cases hw : s.word = 0#32
      · rw [hw, g.lockCas0] at hc
        injection hc with hc; injection hc with e1 e2; injection e2 with e2
        subst e1; subst e2; exact ⟨rfl, hw, rfl⟩
      · rw [g.lockCasN _ hw] at hc
        injection hc with hc; injection hc with e1 e2; injection e2 with e2
        subst e1; subst e2
        simp [afterCas_false g] at h1
    · simp [upd, e] at h1; rw [h0] at h1; cases h1
  | casSpurious u h _ =>
    by_cases e : t = u
    · subst e; simp [afterCas_false g] at h1
    · simp [upd, e] at h1; rw [h0] at h1; cases h1
  | try_ u w' b h hc =>
    by_cases e : t = u
    · subst e; rw [h0] at h; cases h
    · simp [upd, e] at h1; rw [h0] at h1; cases h1
  | trySpurious u h _ =>
    by_cases e : t = u
    · subst e; rw [h0] at h; cases h
    · simp [upd, e] at h1; rw [h0] at h1; cases h1
  | unlock u w' h hc =>
    by_cases e : t = u
    · subst e; rw [h0] at h; cases h
    · simp [upd, e] at h1; rw [h0] at h1; cases h1
  | rogueUnlock u w' _ _ _ => simp at h1; rw [h0] at h1; cases h1

theorem sReachG_reach {p : SpinImpl} {s : SState} {lw : Option Lbl} (r : SReachG p s lw) : SReach p false s := by
  induction r with
  | init => exact .init
  | step _ st ih => exact .step ih st

theorem lastWrite_inv {p : SpinImpl} (g : SpinGood p) {s : SState} {lw : Option Lbl} (r : SReachG p s lw) :
    (lw = none ∨ ∃ u, lw = some (.unlock u)) ∨ (s.word = 1#32 ∧ ∃ u, lw = some (.cas u true) ∨ lw = some (.try_ u true)) := by
  induction r with
  | init => exact Or.inl (Or.inl rfl)
  | step r st ih =>
    have inv := sInv_step g (sInv_reach g (sReachG_reach r)) st
    cases st with
    | callLock t h => exact ih
    | cas t w' b h hc =>
      cases b with
      | true => exact Or.inr ⟨inv.heldWord t (by simp [afterCas_true g]), t, Or.inl rfl⟩
      | false =>
        rcases ih with ih | ⟨hw, u, hu⟩
        · exact Or.inl ih
        · refine Or.inr ⟨?_, u, hu⟩
          rw [g.lockCasN _ (by rw [hw]; decide)] at hc
          injection hc with hc; injection hc with e _; rw [← e]; exact hw
    | casSpurious t h _ => exact ih
    | try_ t w' b h hc =>
      cases b with
      | true => exact Or.inr ⟨inv.heldWord t (by simp), t, Or.inr rfl⟩
      | false =>
        rcases ih with ih | ⟨hw, u, hu⟩
        · exact Or.inl ih
        · refine Or.inr ⟨?_, u, hu⟩
          rw [g.tryCasN _ (by rw [hw]; decide)] at hc
          injection hc with hc; injection hc with e _; rw [← e]; exact hw
    | trySpurious t h _ => exact ih
    | unlock t w' h hc => exact Or.inl (Or.inr ⟨t, rfl⟩)
    | rogueUnlock t w' hr _ _ => cases hr

/-! ## (b) mutex -/

theorem native_lock_inv {eb : Int} {o o' : Option Tid} {t : Tid} {c : Int} (h : Native eb .lock o t c o') :
    (c = 0 ∧ o = none ∧ o' = some t) ∨ (c ≠ 0 ∧ o' = o) := by
  generalize hk : NativeFn.lock = k at h
  cases h <;> (try cases hk) <;> simp_all

theorem native_try_inv {eb : Int} {o o' : Option Tid} {t : Tid} {c : Int} (h : Native eb .trylock o t c o') :
    (c = 0 ∧ o = none ∧ o' = some t) ∨ (c = eb ∧ o' = o ∧ o ≠ none) ∨ (c ≠ 0 ∧ o' = o) := by
  generalize hk : NativeFn.trylock = k at h
  cases h <;> (try cases hk) <;> simp_all

theorem native_unlock_inv {eb : Int} {o o' : Option Tid} {t : Tid} {c : Int} (h : Native eb .unlock o t c o') :
    (c = 0 ∧ o = some t ∧ o' = none) ∨ (c ≠ 0 ∧ o' = o) := by
  generalize hk : NativeFn.unlock = k at h
  cases h <;> (try cases hk) <;> simp_all

theorem mutex_inv {eb : Int} (heb : eb ≠ 0) {m : MutexImpl} (g : MutexGood m) {s : MState} (r : MReach eb m s) :
    ∀ t, s.pc t = .held → s.owner = some t := by
  induction r with
  | init => intro t h; simp [mInit] at h
  | step _ st ih =>
    cases st with
    | lock t c o' k hpc hk hn =>
      rw [g.lockNative] at hk; injection hk with hk; subst hk
      intro u hu
      by_cases e : u = t
      · subst e
        by_cases hr : m.lock.ret c = true
        · have hc := (g.lockRet c).1 hr
          rcases native_lock_inv hn with ⟨_, _, h3⟩ | ⟨h1, _⟩
          · exact h3
          · exact absurd hc h1
        · simp [hr] at hu
      · simp [upd, e] at hu
        have := ih u hu
        rcases native_lock_inv hn with ⟨_, h2, _⟩ | ⟨_, h2⟩
        · rw [h2] at this; cases this
        · show o' = some u
          rw [h2]; exact this
    | try_ t c o' k hpc hk hn =>
      rw [g.tryNative] at hk; injection hk with hk; subst hk
      intro u hu
      by_cases e : u = t
      · subst e
        by_cases hr : m.trylock.ret c = true
        · have hc := (g.tryRet c).1 hr
          rcases native_try_inv hn with ⟨_, _, h3⟩ | ⟨h1, _, _⟩ | ⟨h1, _⟩
          · exact h3
          · exact absurd (h1.symm.trans hc) heb
          · exact absurd hc h1
        · simp [hr] at hu
      · simp [upd, e] at hu
        have := ih u hu
        rcases native_try_inv hn with ⟨_, h2, _⟩ | ⟨_, h2, _⟩ | ⟨_, h2⟩
        · rw [h2] at this; cases this
        · show o' = some u
          rw [h2]; exact this
        · show o' = some u
          rw [h2]; exact this
    | unlock t c o' k hpc hk hn =>
      rw [g.unlockNative] at hk; injection hk with hk; subst hk
      intro u hu
      by_cases e : u = t
      · subst e; simp at hu
      · simp [upd, e] at hu
        have hu' := ih u hu
        rcases native_unlock_inv hn with ⟨_, h2, _⟩ | ⟨_, h2⟩
        · rw [hu'] at h2; injection h2 with h2; exact absurd h2 e
        · show o' = some u
          rw [h2]; exact hu'

theorem mutex_excl {eb : Int} (heb : eb ≠ 0) {m : MutexImpl} (g : MutexGood m) {s : MState} (r : MReach eb m s) (t u : Tid)
    (ht : s.holds t) (hu : s.holds u) : t = u := by
  have a := mutex_inv heb g r t ht
  have b := mutex_inv heb g r u hu
  rw [a] at b; injection b

/-! ## several objects: every component of a reachable product state is reachable on its own -/

theorem psReach_proj {p : SpinImpl} {f : Nat → SState} (r : PSReach p f) (i : Nat) : SReach p false (f i) := by
  induction r generalizing i with
  | init => exact .init
  | step _ st ih =>
    cases st with
    | on j l s' h =>
      by_cases hij : i = j
      · subst hij; simp only [updObj, if_true]; exact .step (ih i) h
      · simp only [updObj, hij, if_false]; exact ih i

theorem pmReach_proj {eb : Int} {m : MutexImpl} {f : Nat → MState} (r : PMReach eb m f) (i : Nat) : MReach eb m (f i) := by
  induction r generalizing i with
  | init => exact .init
  | step _ st ih =>
    cases st with
    | on j l s' h =>
      by_cases hij : i = j
      · subst hij; simp only [updObj, if_true]; exact .step (ih i) h
      · simp only [updObj, hij, if_false]; exact ih i

/-- a step on object `i` leaves every other object untouched -/
theorem psStep_frame {p : SpinImpl} {f g : Nat → SState} (st : PSStep p f g) :
    ∃ i, ∀ j, j ≠ i → g j = f j := by
  cases st with
  | on i l s' h => exact ⟨i, fun j hj => by simp [updObj, hj]⟩

theorem pmStep_frame {eb : Int} {m : MutexImpl} {f g : Nat → MState} (st : PMStep eb m f g) :
    ∃ i, ∀ j, j ≠ i → g j = f j := by
  cases st with
  | on i l s' h => exact ⟨i, fun j hj => by simp [updObj, hj]⟩

end PV.Locks

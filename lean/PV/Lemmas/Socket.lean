import PV.Model.Socket
/-! Helper lemmas about the retry loops of the socket model (used by `PV.Props.C09` / `C10`). -/
namespace PV.Socket
open PV.Generated.Socket

/-! ## facts about the generated table (closed by evaluation; re-checked whenever perror.c changes) -/

theorem io_EAGAIN : ioFromSystem EAGAIN = P_ERROR_IO_WOULD_BLOCK := by decide
theorem io_EWOULDBLOCK : ioFromSystem EWOULDBLOCK = P_ERROR_IO_WOULD_BLOCK := by decide
theorem io_EINTR : ioFromSystem EINTR = P_ERROR_IO_FAILED := by decide
theorem io_EINPROGRESS : ioFromSystem EINPROGRESS = P_ERROR_IO_IN_PROGRESS := by decide
theorem io_EPIPE : ioFromSystem EPIPE = P_ERROR_IO_FAILED := by decide
theorem io_ECONNRESET : ioFromSystem ECONNRESET = P_ERROR_IO_FAILED := by decide

/-! ## which script entries are retries -/

def isPollEintr (r : Res) : Bool := r.sys == .poll && r.ret == .err EINTR
def isPollReady (r : Res) : Bool := r.sys == .poll && r.ret == .ok 1

/-- the answer `r` of the data call `dsys` makes a blocking loop go round again; the value is the `errno` it leaves -/
def retryErrno (dsys : Sys) (r : Res) : Option Int :=
  if r.sys = dsys then
    match r.ret with
    | .err e => if e = EINTR ∨ ioFromSystem e = P_ERROR_IO_WOULD_BLOCK then some e else none
    | .ok _ => none
  else none

/-- **Blocking mode.**  Remove from the front of a script every `poll → EINTR` and every pair
    `poll → 1, data call → EINTR | would-block` (the poll success goes with the data-call retry it
    enabled); the second component is the `errno` value those retries leave behind. -/
def dropRetries (dsys : Sys) : List Res → Int → List Res × Int
  | [], e => ([], e)
  | [r], e => if isPollEintr r then ([], EINTR) else ([r], e)
  | r :: d :: s, e =>
    if isPollEintr r then dropRetries dsys (d :: s) EINTR
    else if isPollReady r then
      match retryErrno dsys d with
      | some e' => dropRetries dsys s e'
      | none => (r :: d :: s, e)
    else (r :: d :: s, e)

/-- remove leading `poll → EINTR` entries (the loop of `p_socket_io_condition_wait`) -/
def dropPollEintr : List Res → Int → List Res × Int
  | [], e => ([], e)
  | r :: s, e => if isPollEintr r then dropPollEintr s EINTR else (r :: s, e)

/-- **Non-blocking mode**: only `EINTR` of the data call is retried -/
def dropDataEintr (dsys : Sys) : List Res → Int → List Res × Int
  | [], e => ([], e)
  | r :: s, e => if r.sys = dsys ∧ r.ret = .err EINTR then dropDataEintr dsys s EINTR else (r :: s, e)

/-- observable result of a loop: how it ended, what is left of the script, `errno` (the trace is dropped) -/
def LoopR.obs (r : LoopR) : LoopEnd × List Res × Int := (r.fin, r.rest, r.errno)

@[simp] theorem LoopR.obs_cons (ev : Ev) (r : LoopR) : (r.cons ev).obs = r.obs := rfl

theorem pollStep_eintr (r : Res) (e : Int) (h : isPollEintr r = true) : pollStep r e = .again EINTR := by
  simp [isPollEintr] at h
  simp [pollStep, h.2]

theorem pollStep_ready (r : Res) (e : Int) (h : isPollReady r = true) : pollStep r e = .ready := by
  simp [isPollReady] at h
  simp [pollStep, h.2]

theorem sys_of_pollEintr {r : Res} (h : isPollEintr r = true) : r.sys = .poll := by
  simp [isPollEintr] at h; exact h.1
theorem sys_of_pollReady {r : Res} (h : isPollReady r = true) : r.sys = .poll := by
  simp [isPollReady] at h; exact h.1

theorem dataStep_retry (c : LoopCfg) (hb : c.blocking = true) (d : Res) (e' : Int)
    (h : retryErrno c.call.sys d = some e') : d.sys = c.call.sys ∧ dataStep c d = .again e' := by
  unfold retryErrno at h
  split at h
  · rename_i hs
    refine ⟨hs, ?_⟩
    cases hr : d.ret with
    | ok v => simp [hr] at h
    | err x =>
      simp only [hr] at h
      split at h
      · rename_i hx
        injection h with h; subst h
        unfold dataStep
        simp only [hr]
        rcases hx with hx | hx
        · simp [hx]
        · by_cases h4 : x = EINTR
          · simp [h4]
          · simp [h4, hb, hx]
      · cases h
  · cases h

/-- **the loop-level transparency lemma** (blocking mode) -/
theorem ioLoop_dropRetries (c : LoopCfg) (hb : c.blocking = true) :
    ∀ (s : List Res) (e : Int),
      (ioLoop c .wait s e).obs = (ioLoop c .wait (dropRetries c.call.sys s e).1 (dropRetries c.call.sys s e).2).obs := by
  intro s e
  induction s, e using dropRetries.induct (dsys := c.call.sys) with
  | case1 e => simp [dropRetries]
  | case2 r e h =>
    simp only [dropRetries, h, if_true]
    simp [ioLoop, sys_of_pollEintr h, pollStep_eintr r e h, LoopR.obs, LoopR.cons]
  | case3 r e h => simp [dropRetries, h]
  | case4 r d s e h ih =>
    simp only [dropRetries, h, if_true]
    rw [← ih]
    simp [ioLoop, sys_of_pollEintr h, pollStep_eintr r e h]
  | case5 r d s e h1 h2 e' h3 ih =>
    have h1' : isPollEintr r = false := by simpa using h1
    simp only [dropRetries, h1', h2, h3, if_true, Bool.false_eq_true, if_false]
    rw [← ih]
    obtain ⟨hs, hd⟩ := dataStep_retry c hb d e' h3
    simp [ioLoop, sys_of_pollReady h2, pollStep_ready r e h2, hs, hd, hb]
  | case6 r d s e h1 h2 h3 =>
    have h1' : isPollEintr r = false := by simpa using h1
    simp [dropRetries, h1', h2, h3]
  | case7 r d s e h1 h2 =>
    have h1' : isPollEintr r = false := by simpa using h1
    have h2' : isPollReady r = false := by simpa using h2
    simp [dropRetries, h1', h2']


/-- after `dropRetries` nothing is left to retry: the loop makes at most one `poll` and one data call -/
theorem ioLoop_dropRetries_once (c : LoopCfg) (hb : c.blocking = true) (s : List Res) (e : Int) :
    (ioLoop c .wait (dropRetries c.call.sys s e).1 (dropRetries c.call.sys s e).2).evs.length ≤ 2 := by
  induction s, e using dropRetries.induct (dsys := c.call.sys) with
  | case1 e => simp [dropRetries, ioLoop]
  | case2 r e h => simp [dropRetries, h, ioLoop]
  | case3 r e h =>
    have h' : isPollEintr r = false := by simpa using h
    simp only [dropRetries, h', Bool.false_eq_true, if_false]
    unfold ioLoop
    split
    · simp
    · cases hp : pollStep r e <;> simp [LoopR.cons, ioLoop]
  | case4 r d s e h ih => simpa [dropRetries, h] using ih
  | case5 r d s e h1 h2 e' h3 ih =>
    have h1' : isPollEintr r = false := by simpa using h1
    simpa [dropRetries, h1', h2, h3] using ih
  | case6 r d s e h1 h2 h3 =>
    have h1' : isPollEintr r = false := by simpa using h1
    simp only [dropRetries, h1', h2, h3, Bool.false_eq_true, if_false, if_true]
    have hd : ∀ e', dataStep c d ≠ .again e' ∨ d.sys ≠ c.call.sys := by
      intro e'
      by_cases hs : d.sys = c.call.sys
      · left
        intro hcon
        unfold retryErrno at h3
        simp only [hs, if_true] at h3
        unfold dataStep at hcon
        cases hr : d.ret with
        | ok v => simp [hr] at hcon
        | err x =>
          simp only [hr] at hcon h3
          by_cases h4 : x = EINTR
          · simp [h4] at h3
          · simp only [h4, if_false, hb, true_and] at hcon
            by_cases hw : ioFromSystem x = P_ERROR_IO_WOULD_BLOCK
            · simp [hw] at h3
            · simp [hw] at hcon
      · right; exact hs
    simp only [ioLoop, sys_of_pollReady h2, pollStep_ready r e h2, ne_eq, not_true_eq_false, if_false]
    by_cases hs : d.sys = c.call.sys
    · simp only [hs, not_true_eq_false, if_false]
      cases hds : dataStep c d with
      | done => simp [LoopR.cons]
      | again e' => rcases hd e' with h | h <;> simp_all
      | fail pe e' => simp [LoopR.cons]
    · simp [hs, LoopR.cons]
  | case7 r d s e h1 h2 =>
    have h1' : isPollEintr r = false := by simpa using h1
    have h2' : isPollReady r = false := by simpa using h2
    simp only [dropRetries, h1', h2', Bool.false_eq_true, if_false]
    unfold ioLoop
    split
    · simp
    · rename_i hsys
      have hsys' : r.sys = .poll := by simpa using hsys
      cases hp : pollStep r e with
      | again e' =>
        exfalso
        unfold pollStep at hp
        cases hr : r.ret with
        | ok v => simp only [hr] at hp; split at hp <;> (try split at hp) <;> cases hp
        | err x =>
          simp only [hr] at hp
          by_cases h4 : x = EINTR
          · simp [isPollEintr, hsys', hr, h4] at h1'
          · simp [h4] at hp
      | ready =>
        exfalso
        unfold pollStep at hp
        cases hr : r.ret with
        | ok v =>
          simp only [hr] at hp
          by_cases h1v : v = 1
          · simp [isPollReady, hsys', hr, h1v] at h2'
          · simp only [h1v, if_false] at hp; split at hp <;> cases hp
        | err x => simp only [hr] at hp; split at hp <;> cases hp
      | fail pe e' => simp

/-- an error that comes out of a retry loop never carries EINTR, and in blocking mode a would-block
    code is never that of the data call (only `poll` itself failing with it is reported) — unless the
    native code is a *stale* `errno` (poll returned 0 or > 1) -/
theorem ioLoop_fail_native (c : LoopCfg) : ∀ (ph : Phase) (s : List Res) (e : Int) (pe : PErr),
    (ioLoop c ph s e).fin = .fail pe → pe.stale = false →
      pe.native ≠ EINTR ∧ (c.blocking = true → ioFromSystem pe.native = P_ERROR_IO_WOULD_BLOCK → pe.msg = msgPollFailed) := by
  intro ph s
  induction s generalizing ph with
  | nil => intro e pe h; cases ph <;> simp [ioLoop] at h
  | cons r s ih =>
    intro e pe h hst
    cases ph with
    | wait =>
      unfold ioLoop at h
      split at h
      · cases h
      · cases hp : pollStep r e with
        | again e' => simp only [hp] at h; exact ih _ _ _ (by simpa [LoopR.cons] using h) hst
        | ready => simp only [hp] at h; exact ih _ _ _ (by simpa [LoopR.cons] using h) hst
        | fail pe' e' =>
          simp only [hp] at h
          injection h with h; subst h
          unfold pollStep at hp
          cases hr : r.ret with
          | ok v =>
            simp only [hr] at hp
            split at hp
            · cases hp
            · split at hp <;> (injection hp with hp1 hp2; subst hp1; simp at hst)
          | err x =>
            simp only [hr] at hp
            by_cases h4 : x = EINTR
            · simp [h4] at hp
            · simp only [h4, if_false] at hp
              injection hp with hp1 hp2; subst hp1
              exact ⟨h4, fun _ _ => rfl⟩
    | data =>
      unfold ioLoop at h
      split at h
      · cases h
      · cases hd : dataStep c r with
        | done => simp only [hd] at h; cases h
        | again e' => simp only [hd] at h; exact ih _ _ _ (by simpa [LoopR.cons] using h) hst
        | fail pe' e' =>
          simp only [hd] at h
          injection h with h; subst h
          unfold dataStep at hd
          cases hr : r.ret with
          | ok v => simp [hr] at hd
          | err x =>
            simp only [hr] at hd
            by_cases h4 : x = EINTR
            · simp [h4] at hd
            · simp only [h4, if_false] at hd
              split at hd
              · cases hd
              · rename_i hnb
                injection hd with hd1 hd2; subst hd1
                refine ⟨h4, ?_⟩
                intro hb hw
                exact absurd ⟨hb, hw⟩ hnb

/-! ## `p_socket_io_condition_wait` alone -/

theorem pollLoop_dropPollEintr (call : Issued) : ∀ (s : List Res) (e : Int),
    (pollLoop call s e).obs = (pollLoop call (dropPollEintr s e).1 (dropPollEintr s e).2).obs := by
  intro s
  induction s with
  | nil => intro e; simp [dropPollEintr]
  | cons r s ih =>
    intro e
    by_cases h : isPollEintr r = true
    · simp only [dropPollEintr, h, if_true]
      rw [← ih]
      simp [pollLoop, sys_of_pollEintr h, pollStep_eintr r e h]
    · have h' : isPollEintr r = false := by simpa using h
      simp [dropPollEintr, h']

theorem pollStep_again_iff (r : Res) (e e' : Int) (hs : r.sys = .poll) :
    pollStep r e = .again e' → isPollEintr r = true := by
  intro hp
  unfold pollStep at hp
  cases hr : r.ret with
  | ok v => simp only [hr] at hp; split at hp <;> (try split at hp) <;> cases hp
  | err x =>
    simp only [hr] at hp
    by_cases h4 : x = EINTR
    · simp [isPollEintr, hs, hr, h4]
    · simp [h4] at hp

theorem pollLoop_dropPollEintr_once (call : Issued) : ∀ (s : List Res) (e : Int),
    (pollLoop call (dropPollEintr s e).1 (dropPollEintr s e).2).evs.length ≤ 1 := by
  intro s
  induction s with
  | nil => intro e; simp [dropPollEintr, pollLoop]
  | cons r s ih =>
    intro e
    by_cases h : isPollEintr r = true
    · simpa [dropPollEintr, h] using ih EINTR
    · have h' : isPollEintr r = false := by simpa using h
      simp only [dropPollEintr, h', Bool.false_eq_true, if_false]
      unfold pollLoop
      split
      · simp
      · rename_i hsys
        have hsys' : r.sys = .poll := by simpa using hsys
        cases hp : pollStep r e with
        | again e' => exact absurd (pollStep_again_iff r e e' hsys' hp) h
        | ready => simp
        | fail pe e' => simp

theorem pollLoop_fail_native (call : Issued) : ∀ (s : List Res) (e : Int) (pe : PErr),
    (pollLoop call s e).fin = .fail pe → pe.stale = false → pe.native ≠ EINTR := by
  intro s
  induction s with
  | nil => intro e pe h; simp [pollLoop] at h
  | cons r s ih =>
    intro e pe h hst
    unfold pollLoop at h
    split at h
    · cases h
    · cases hp : pollStep r e with
      | again e' => simp only [hp] at h; exact ih _ _ (by simpa [LoopR.cons] using h) hst
      | ready => simp only [hp] at h; cases h
      | fail pe' e' =>
        simp only [hp] at h
        injection h with h; subst h
        unfold pollStep at hp
        cases hr : r.ret with
        | ok v =>
          simp only [hr] at hp
          split at hp
          · cases hp
          · split at hp <;> (injection hp with hp1 hp2; subst hp1; simp at hst)
        | err x =>
          simp only [hr] at hp
          by_cases h4 : x = EINTR
          · simp [h4] at hp
          · simp only [h4, if_false] at hp
            injection hp with hp1 hp2; subst hp1
            exact h4

theorem ioLoop_wait_cons (c : LoopCfg) (r : Res) (s : List Res) (e : Int) :
    ioLoop c .wait (r :: s) e =
      if r.sys ≠ .poll then ⟨.stop (.mismatch .poll r.sys), [], r :: s, e⟩
      else match pollStep r e with
        | .again e' => (ioLoop c .wait s e').cons ⟨c.poll, r⟩
        | .ready => (ioLoop c .data s e).cons ⟨c.poll, r⟩
        | .fail pe e' => ⟨.fail pe, [⟨c.poll, r⟩], s, e'⟩ := by
  conv => lhs; unfold ioLoop
  split <;> rfl

theorem pollLoop_cons (call : Issued) (r : Res) (s : List Res) (e : Int) :
    pollLoop call (r :: s) e =
      if r.sys ≠ .poll then ⟨.stop (.mismatch .poll r.sys), [], r :: s, e⟩
      else match pollStep r e with
        | .again e' => (pollLoop call s e').cons ⟨call, r⟩
        | .ready => ⟨.done r, [⟨call, r⟩], s, e⟩
        | .fail pe e' => ⟨.fail pe, [⟨call, r⟩], s, e'⟩ := by
  conv => lhs; unfold pollLoop
  split <;> rfl

/-- how a data loop continues after `p_socket_io_condition_wait`'s loop -/
def afterWait (c : LoopCfg) (p : LoopR) : LoopR :=
  match p.fin with
  | .done _ =>
    let r := ioLoop c .data p.rest p.errno
    { r with evs := p.evs ++ r.evs }
  | _ => p

/-- the wait phase of a data loop is `p_socket_io_condition_wait`'s loop followed by the data phase -/
theorem ioLoop_wait_eq (c : LoopCfg) : ∀ (s : List Res) (e : Int),
    ioLoop c .wait s e = afterWait c (pollLoop c.poll s e) := by
  intro s
  induction s with
  | nil => intro e; simp [ioLoop, pollLoop, afterWait]
  | cons r s ih =>
    intro e
    rw [ioLoop_wait_cons, pollLoop_cons]
    split
    · simp [afterWait]
    · cases hp : pollStep r e with
      | again e' =>
        simp only []
        rw [ih]
        unfold afterWait
        cases hf : (pollLoop c.poll s e').fin <;> simp [LoopR.cons, hf]
      | ready => simp [LoopR.cons, afterWait]
      | fail pe e' => simp [afterWait]

/-! ## non-blocking mode -/

theorem ioLoop_dropDataEintr (c : LoopCfg) (hb : c.blocking = false) : ∀ (s : List Res) (e : Int),
    (ioLoop c .data s e).obs =
      (ioLoop c .data (dropDataEintr c.call.sys s e).1 (dropDataEintr c.call.sys s e).2).obs := by
  intro s
  induction s with
  | nil => intro e; simp [dropDataEintr]
  | cons r s ih =>
    intro e
    by_cases h : r.sys = c.call.sys ∧ r.ret = .err EINTR
    · simp only [dropDataEintr, h, and_self, if_true]
      rw [← ih]
      simp [ioLoop, h.1, dataStep, h.2, hb]
    · simp [dropDataEintr, h]

/-- in non-blocking mode the loop never issues anything but the data call -/
theorem ioLoop_nonblocking_calls (c : LoopCfg) (hb : c.blocking = false) : ∀ (s : List Res) (e : Int),
    ∀ ev ∈ (ioLoop c .data s e).evs, ev.call = c.call := by
  intro s
  induction s with
  | nil => intro e ev h; simp [ioLoop] at h
  | cons r s ih =>
    intro e ev h
    unfold ioLoop at h
    split at h
    · simp at h
    · cases hd : dataStep c r with
      | done => simp [hd] at h; simp [h]
      | again e' =>
        simp only [hd, hb, LoopR.cons, Bool.false_eq_true, if_false, List.mem_cons] at h
        rcases h with h | h
        · simp [h]
        · exact ih _ _ h
      | fail pe e' => simp [hd] at h; simp [h]

/-- non-blocking: a would-block answer of the data call ends the call at once with WOULD_BLOCK -/
theorem ioLoop_nonblocking_wouldblock (c : LoopCfg) (hb : c.blocking = false) (r : Res) (s : List Res) (e x : Int)
    (hs : r.sys = c.call.sys) (hr : r.ret = .err x) (hw : ioFromSystem x = P_ERROR_IO_WOULD_BLOCK) :
    ioLoop c .data (r :: s) e =
      ⟨.fail { code := P_ERROR_IO_WOULD_BLOCK, native := x, msg := c.failMsg }, [⟨c.call, r⟩], s, x⟩ := by
  have h4 : x ≠ EINTR := by
    intro h; subst h; rw [io_EINTR] at hw; revert hw; decide
  simp [ioLoop, hs, dataStep, hr, h4, hb, hw]

/-- every native call a data loop makes is its `poll` or its data call -/
theorem ioLoop_calls (c : LoopCfg) : ∀ (ph : Phase) (s : List Res) (e : Int),
    ∀ ev ∈ (ioLoop c ph s e).evs, ev.call = c.poll ∨ ev.call = c.call := by
  intro ph s
  induction s generalizing ph with
  | nil => intro e ev h; cases ph <;> simp [ioLoop] at h
  | cons r s ih =>
    intro e ev h
    cases ph with
    | wait =>
      unfold ioLoop at h
      split at h
      · simp at h
      · cases hp : pollStep r e with
        | again e' =>
          simp only [hp, LoopR.cons, List.mem_cons] at h
          rcases h with h | h
          · simp [h]
          · exact ih _ _ _ h
        | ready =>
          simp only [hp, LoopR.cons, List.mem_cons] at h
          rcases h with h | h
          · simp [h]
          · exact ih _ _ _ h
        | fail pe e' => simp [hp] at h; simp [h]
    | data =>
      unfold ioLoop at h
      split at h
      · simp at h
      · cases hd : dataStep c r with
        | done => simp [hd] at h; simp [h]
        | again e' =>
          simp only [hd, LoopR.cons, List.mem_cons] at h
          rcases h with h | h
          · simp [h]
          · exact ih _ _ _ h
        | fail pe e' => simp [hd] at h; simp [h]

/-- a loop that fails with the time-out error did so on a `poll` that returned 0 (its last call) -/
theorem ioLoop_timeout_from_poll0 (c : LoopCfg) : ∀ (ph : Phase) (s : List Res) (e : Int) (pe : PErr),
    (ioLoop c ph s e).fin = .fail pe → pe.msg = msgTimedOut → c.failMsg ≠ msgTimedOut →
      ∃ r, (ioLoop c ph s e).evs.getLast? = some ⟨c.poll, r⟩ ∧ r.ret = .ok 0 := by
  intro ph s
  induction s generalizing ph with
  | nil => intro e pe h; cases ph <;> simp [ioLoop] at h
  | cons r s ih =>
    intro e pe h hm hne
    have hrec : ∀ (ph' : Phase) (e' : Int) (ev : Ev), (ioLoop c ph' s e').fin = .fail pe →
        ∃ r', ((ioLoop c ph' s e').cons ev).evs.getLast? = some ⟨c.poll, r'⟩ ∧ r'.ret = .ok 0 := by
      intro ph' e' ev hf
      obtain ⟨r', h1, h2⟩ := ih ph' e' pe hf hm hne
      refine ⟨r', ?_, h2⟩
      simp only [LoopR.cons]
      cases hl : (ioLoop c ph' s e').evs with
      | nil => simp [hl] at h1
      | cons a l => rw [hl] at h1; simpa [List.getLast?_cons_cons] using h1
    cases ph with
    | wait =>
      unfold ioLoop at h ⊢
      split at h
      · cases h
      · rename_i hsys
        simp only [hsys, if_false]
        cases hp : pollStep r e with
        | again e' => simp only [hp] at h ⊢; exact hrec _ _ _ (by simpa [LoopR.cons] using h)
        | ready => simp only [hp] at h ⊢; exact hrec _ _ _ (by simpa [LoopR.cons] using h)
        | fail pe' e' =>
          simp only [hp] at h ⊢
          injection h with h; subst h
          refine ⟨r, by simp, ?_⟩
          unfold pollStep at hp
          cases hr : r.ret with
          | ok v =>
            simp only [hr] at hp
            split at hp
            · cases hp
            · split at hp
              · rename_i h0; simp [h0]
              · injection hp with hp1 hp2; subst hp1; simp [msgPollFailed, msgTimedOut] at hm
          | err x =>
            simp only [hr] at hp
            split at hp
            · cases hp
            · injection hp with hp1 hp2; subst hp1; simp [msgPollFailed, msgTimedOut] at hm
    | data =>
      unfold ioLoop at h ⊢
      split at h
      · cases h
      · rename_i hsys
        simp only [hsys, if_false]
        cases hd : dataStep c r with
        | done => simp only [hd] at h; cases h
        | again e' => simp only [hd] at h ⊢; exact hrec _ _ _ (by simpa [LoopR.cons] using h)
        | fail pe' e' =>
          simp only [hd] at h
          injection h with h; subst h
          exfalso
          unfold dataStep at hd
          cases hr : r.ret with
          | ok v => simp [hr] at hd
          | err x =>
            simp only [hr] at hd
            split at hd
            · cases hd
            · split at hd
              · cases hd
              · injection hd with hd1 hd2; subst hd1; exact hne hm

/-! ## connect -/

def dropConnEintr : List Res → Int → List Res × Int
  | [], e => ([], e)
  | r :: s, e => if r.sys = .connect ∧ r.ret = .err EINTR then dropConnEintr s EINTR else (r :: s, e)

theorem connLoop_dropConnEintr (call : Issued) : ∀ (s : List Res) (e : Int),
    (connLoop call s e).obs = (connLoop call (dropConnEintr s e).1 (dropConnEintr s e).2).obs := by
  intro s
  induction s with
  | nil => intro e; simp [dropConnEintr]
  | cons r s ih =>
    intro e
    by_cases h : r.sys = .connect ∧ r.ret = .err EINTR
    · simp only [dropConnEintr, h, and_self, if_true]
      rw [← ih]
      simp [connLoop, h.1, h.2]
    · simp [dropConnEintr, h]

/-! ## exactly one successful data call -/

/-- when a loop ends with `done r`: `r` is the answer to the *last* call made, that call is the data
    call, every earlier data call had failed, and the script is untouched behind `r` -/
theorem ioLoop_done (c : LoopCfg) (hpc : c.poll ≠ c.call) : ∀ (ph : Phase) (s : List Res) (e : Int) (r : Res),
    (ioLoop c ph s e).fin = .done r →
      ∃ pre : List Ev,
        (ioLoop c ph s e).evs = pre ++ [⟨c.call, r⟩] ∧
        (∀ ev ∈ pre, ev.call = c.call → ev.res.failed = true) ∧
        r.failed = false ∧ r.sys = c.call.sys ∧
        s = pre.map (·.res) ++ r :: (ioLoop c ph s e).rest := by
  intro ph s
  induction s generalizing ph with
  | nil => intro e r h; cases ph <;> simp [ioLoop] at h
  | cons a s ih =>
    intro e r h
    have hrec : ∀ (ph' : Phase) (e' : Int) (cl : Issued), (ioLoop c ph' s e').fin = .done r →
        (cl = c.call → a.failed = true) →
        ∃ pre : List Ev,
          ((ioLoop c ph' s e').cons ⟨cl, a⟩).evs = pre ++ [⟨c.call, r⟩] ∧
          (∀ ev ∈ pre, ev.call = c.call → ev.res.failed = true) ∧
          r.failed = false ∧ r.sys = c.call.sys ∧
          a :: s = pre.map (·.res) ++ r :: ((ioLoop c ph' s e').cons ⟨cl, a⟩).rest := by
      intro ph' e' cl hf hcl
      obtain ⟨pre, h1, h2, h3, h4, h5⟩ := ih ph' e' r hf
      refine ⟨⟨cl, a⟩ :: pre, by simp [LoopR.cons, h1], ?_, h3, h4, ?_⟩
      · intro ev hev hc
        rcases List.mem_cons.1 hev with h | h
        · subst h; exact hcl hc
        · exact h2 ev h hc
      · simp only [LoopR.cons, List.map_cons, List.cons_append]
        rw [← h5]
    cases ph with
    | wait =>
      unfold ioLoop at h ⊢
      split at h
      · cases h
      · rename_i hsys
        simp only [hsys, if_false]
        cases hp : pollStep a e with
        | again e' =>
          simp only [hp] at h ⊢
          exact hrec _ _ _ (by simpa [LoopR.cons] using h) (fun hc => absurd hc hpc)
        | ready =>
          simp only [hp] at h ⊢
          exact hrec _ _ _ (by simpa [LoopR.cons] using h) (fun hc => absurd hc hpc)
        | fail pe e' => simp [hp] at h
    | data =>
      unfold ioLoop at h ⊢
      split at h
      · cases h
      · rename_i hsys
        have hsys' : a.sys = c.call.sys := by simpa using hsys
        simp only [hsys, if_false]
        cases hd : dataStep c a with
        | done =>
          simp only [hd] at h ⊢
          injection h with h; subst h
          refine ⟨[], by simp, by simp, ?_, hsys', by simp⟩
          unfold dataStep at hd
          cases hr : a.ret with
          | ok v => simp [Res.failed, hr]
          | err x => simp only [hr] at hd; split at hd <;> (try split at hd) <;> cases hd
        | again e' =>
          simp only [hd] at h ⊢
          refine hrec _ _ _ (by simpa [LoopR.cons] using h) ?_
          intro _
          unfold dataStep at hd
          cases hr : a.ret with
          | ok v => simp [hr] at hd
          | err x => simp [Res.failed, hr]
        | fail pe e' => simp [hd] at h

end PV.Socket

namespace PV.Socket
open PV.Generated.Socket

/-! ## observing a computation without its trace -/

/-- value and environment state, trace dropped -/
def Step.full {α} : Step α → Except Stop (α × St)
  | .ok a st _ => .ok (a, st)
  | .stop w => .error w

/-- value only -/
def Step.val {α} : Step α → Except Stop α
  | .ok a _ _ => .ok a
  | .stop w => .error w

theorem Step.val_of_full {α} {x y : Step α} (h : x.full = y.full) : x.val = y.val := by
  cases x <;> cases y <;> simp_all [Step.full, Step.val]

theorem bind_full_congr {α β} (m m' : M α) (k : α → M β) (st st' : St)
    (h : (m st).full = (m' st').full) : ((m >>= k) st).full = ((m' >>= k) st').full := by
  show (M.bind m k st).full = (M.bind m' k st').full
  unfold M.bind
  cases hm : m st <;> cases hm' : m' st' <;> simp_all [Step.full]
  · obtain ⟨h1, h2⟩ := h
    subst h1; subst h2
    rename_i a st1 evs evs'
    cases k a st1 <;> simp

theorem bind_val_congr {α β} (m m' : M α) (k : α → M β) (st st' : St)
    (h : (m st).full = (m' st').full) : ((m >>= k) st).val = ((m' >>= k) st').val :=
  Step.val_of_full (bind_full_congr m m' k st st' h)

theorem bind_pure_val {α β} (m : M α) (f : α → β) (st : St) :
    ((m >>= fun a => pure (f a)) st).val = ((m st).val).map f := by
  show (M.bind m (fun a => M.pure (f a)) st).val = _
  unfold M.bind M.pure
  cases m st <;> simp [Step.val, Except.map]

theorem liftLoop_full (l l' : List Res → Int → LoopR) (st st' : St)
    (h : (l st.script st.errno).obs = (l' st'.script st'.errno).obs) :
    (liftLoop l st).full = (liftLoop l' st').full := by
  simp only [LoopR.obs, Prod.mk.injEq] at h
  obtain ⟨h1, h2, h3⟩ := h
  unfold liftLoop
  simp only [h1, h2, h3]
  cases (l' st'.script st'.errno).fin <;> simp [Step.full]

/-- what `call` lets one see when the trace and the unconsumed script are ignored -/
def seen (r : Except Stop CallResult) : Except Stop (Sock × Outcome) := r.map fun x => (x.sock, x.out)

theorem seen_call (s : Sock) (c : Call) (script : Script) (e : Int) :
    seen (call s c script e) = (callM s c { script := script, errno := e }).val := by
  unfold call seen
  cases callM s c { script := script, errno := e } <;> simp [Step.val, Except.map]

end PV.Socket

namespace PV.Socket
open PV.Generated.Socket

/-! ## the data calls in terms of their loop -/

@[simp] theorem M.bind_apply {α β} (m : M α) (k : α → M β) (st : St) : (m >>= k) st = M.bind m k st := rfl
@[simp] theorem M.pure_apply {α} (a : α) (st : St) : (pure a : M α) st = .ok a st [] := rfl

def recvCfg (s : Sock) (n : Nat) : LoopCfg := loopCfg s P_SOCKET_IO_CONDITION_POLLIN (recvCall s n) "Failed to call recv() on socket"
def recvfromCfg (s : Sock) (n : Nat) : LoopCfg := loopCfg s P_SOCKET_IO_CONDITION_POLLIN (recvfromCall s n) "Failed to call recvfrom() on socket"
def sendCfg (s : Sock) (b : Bytes) (n : Nat) : LoopCfg := loopCfg s P_SOCKET_IO_CONDITION_POLLOUT (sendCall s b n) "Failed to call send() on socket"
def sendtoCfg (s : Sock) (sa b : Bytes) (n : Nat) : LoopCfg := loopCfg s P_SOCKET_IO_CONDITION_POLLOUT (sendtoCall s sa b n) "Failed to call sendto() on socket"
def acceptCfg (s : Sock) : LoopCfg := loopCfg s P_SOCKET_IO_CONDITION_POLLIN (.accept s.fd) "Failed to call accept() on socket"

/-- result of a call that is just its loop -/
def ofLoop (s : Sock) (l : LoopR) (onDone : Res → Outcome) (failRet : Int) : Except Stop CallResult :=
  match l.fin with
  | .stop w => .error w
  | .done r => .ok { sock := s, out := onDone r, tr := l.evs, rest := l.rest, errno := l.errno }
  | .fail pe => .ok { sock := s, out := failOut failRet pe, tr := l.evs, rest := l.rest, errno := l.errno }

/-- a computation that is `liftLoop l` followed by a pure interpretation of how the loop ended -/
theorem loop_then_pure (s : Sock) (l : List Res → Int → LoopR) (onDone : Res → Outcome) (failRet : Int)
    (script : Script) (e : Int) :
    (match M.bind (M.bind (liftLoop l) (fun x => match x with
            | .error pe => (pure (failOut failRet pe) : M Outcome)
            | .ok r => pure (onDone r))) (fun o => (pure (s, o) : M (Sock × Outcome))) { script := script, errno := e } with
      | .ok (s', o) st evs => (.ok { sock := s', out := o, tr := evs, rest := st.script, errno := st.errno } : Except Stop CallResult)
      | .stop w => .error w) = ofLoop s (l script e) onDone failRet := by
  unfold M.bind liftLoop ofLoop
  cases hf : (l script e).fin <;> simp [hf, pure, M.pure]

theorem receive_eq (s : Sock) (hc : s.closed = false) (n : Nat) (script : Script) (e : Int) :
    call s (.receive false n) script e =
      ofLoop s (ioLoop (recvCfg s n) (startPhase (recvCfg s n)) script e)
        (fun r => { ret := retVal r, data := delivered r (toSocklen n) }) (-1) := by
  rw [← loop_then_pure]
  simp [call, callM, receive, check, hc, runLoop, recvCfg]
  rfl

theorem receiveFrom_noaddr_eq (s : Sock) (hc : s.closed = false) (n : Nat) (hn : n ≠ 0) (script : Script) (e : Int) :
    call s (.receiveFrom false false n) script e =
      ofLoop s (ioLoop (recvfromCfg s n) (startPhase (recvfromCfg s n)) script e)
        (fun r => { ret := retVal r, data := delivered r (toSocklen n) }) (-1) := by
  rw [← loop_then_pure]
  simp [call, callM, receiveFrom, check, hc, hn, runLoop, recvfromCfg]
  rfl

theorem send_eq (s : Sock) (hc : s.closed = false) (b : Bytes) (n : Nat) (hn : n ≠ 0) (script : Script) (e : Int) :
    call s (.send (some b) n) script e =
      ofLoop s (ioLoop (sendCfg s b n) (startPhase (sendCfg s b n)) script e) (fun r => { ret := retVal r }) (-1) := by
  rw [← loop_then_pure]
  simp [call, callM, send, check, hc, hn, runLoop, sendCfg]
  rfl

theorem sendTo_eq (s : Sock) (hc : s.closed = false) (sa b : Bytes) (n : Nat) (script : Script) (e : Int) :
    call s (.sendTo (.native sa) (some b) n) script e =
      ofLoop s (ioLoop (sendtoCfg s sa b n) (startPhase (sendtoCfg s sa b n)) script e) (fun r => { ret := retVal r }) (-1) := by
  rw [← loop_then_pure]
  simp [call, callM, sendTo, check, hc, runLoop, sendtoCfg]
  rfl

theorem liftLoop_done (l : List Res → Int → LoopR) (script : Script) (e : Int) (x : Res) (h : (l script e).fin = .done x) :
    liftLoop l { script := script, errno := e } =
      .ok (.ok x) { script := (l script e).rest, errno := (l script e).errno } (l script e).evs := by
  simp [liftLoop, h]
theorem liftLoop_fail (l : List Res → Int → LoopR) (script : Script) (e : Int) (pe : PErr) (h : (l script e).fin = .fail pe) :
    liftLoop l { script := script, errno := e } =
      .ok (.error pe) { script := (l script e).rest, errno := (l script e).errno } (l script e).evs := by
  simp [liftLoop, h]
theorem liftLoop_stop (l : List Res → Int → LoopR) (script : Script) (e : Int) (w : Stop) (h : (l script e).fin = .stop w) :
    liftLoop l { script := script, errno := e } = .stop w := by
  simp [liftLoop, h]

theorem ioWait_eq (s : Sock) (hc : s.closed = false) (cond : Int) (script : Script) (e : Int) :
    call s (.ioWait cond) script e =
      ofLoop s (pollLoop (pollCall s cond) script e) (fun _ => { ret := 1 }) 0 := by
  unfold call callM ioWait ofLoop
  simp only [check, hc, Bool.false_eq_true, if_false, M.bind_apply]
  simp only [M.bind]
  cases hf : (pollLoop (pollCall s cond) script e).fin
  · simp [M.bind, liftLoop_done _ _ _ _ hf, M.pure, pure]
  · simp [M.bind, liftLoop_fail _ _ _ _ hf, M.pure, pure]
  · simp [M.bind, liftLoop_stop _ _ _ _ hf]

end PV.Socket

namespace PV.Socket
open PV.Generated.Socket

theorem ofLoop_ok_noerr (s : Sock) (l : LoopR) (onDone : Res → Outcome) (fr : Int) (r : CallResult)
    (_hd : ∀ x, (onDone x).err = none) (h : ofLoop s l onDone fr = .ok r) (hok : r.out.err = none) :
    ∃ res, l.fin = .done res ∧ r = { sock := s, out := onDone res, tr := l.evs, rest := l.rest, errno := l.errno } := by
  unfold ofLoop at h
  cases hf : l.fin with
  | stop w => simp [hf] at h
  | done res => simp only [hf] at h; injection h with h; exact ⟨res, rfl, h.symm⟩
  | fail pe => simp only [hf] at h; injection h with h; subst h; simp [failOut] at hok

theorem ofLoop_ok_err (s : Sock) (l : LoopR) (onDone : Res → Outcome) (fr : Int) (r : CallResult) (pe : PErr)
    (hd : ∀ x, (onDone x).err = none) (h : ofLoop s l onDone fr = .ok r) (he : r.out.err = some pe) :
    l.fin = .fail pe ∧ r = { sock := s, out := failOut fr pe, tr := l.evs, rest := l.rest, errno := l.errno } := by
  unfold ofLoop at h
  cases hf : l.fin with
  | stop w => simp [hf] at h
  | done res => simp only [hf] at h; injection h with h; subst h; simp [hd] at he
  | fail pe' =>
    simp only [hf] at h; injection h with h; subst h
    simp only [failOut, Option.some.injEq] at he
    subst he; exact ⟨rfl, rfl⟩

theorem toSocklen_eq (n : Nat) (h : n < 2 ^ 32) : toSocklen n = Int.ofNat n := by
  simp [toSocklen, Nat.mod_eq_of_lt h]

end PV.Socket

namespace PV.Socket
open PV.Generated.Socket

/-! ## properties of every native call a computation makes -/

/-- every trace entry of `m`, on every script, satisfies `P` -/
def TrAll {α} (P : Ev → Prop) (m : M α) : Prop :=
  ∀ st, match m st with
    | .ok _ _ evs => ∀ ev ∈ evs, P ev
    | .stop _ => True

theorem TrAll.pure {α} {P : Ev → Prop} (a : α) : TrAll P (pure a : M α) := by
  intro st; simp [Pure.pure, M.pure]

theorem TrAll.bind {α β} {P : Ev → Prop} {m : M α} {k : α → M β} (hm : TrAll P m) (hk : ∀ a, TrAll P (k a)) :
    TrAll P (m >>= k) := by
  intro st
  have h1 := hm st
  show match M.bind m k st with | .ok _ _ evs => ∀ ev ∈ evs, P ev | .stop _ => True
  unfold M.bind
  cases hms : m st with
  | stop w => simp
  | ok a st' evs =>
    simp only [hms] at h1
    have h2 := hk a st'
    simp only []
    cases hks : k a st' with
    | stop w => simp
    | ok b st'' evs' =>
      simp only [hks] at h2
      simp only [List.mem_append]
      intro ev hev
      rcases hev with h | h
      · exact h1 ev h
      · exact h2 ev h

theorem TrAll.sys {P : Ev → Prop} (c : Issued) (h : ∀ r, P ⟨c, r⟩) : TrAll P (sys c) := by
  intro st
  unfold PV.Socket.sys
  cases st.script with
  | nil => simp
  | cons r s => by_cases hs : r.sys = c.sys <;> simp [hs, h]

theorem TrAll.liftLoop {P : Ev → Prop} (l : List Res → Int → LoopR) (h : ∀ s e, ∀ ev ∈ (l s e).evs, P ev) :
    TrAll P (liftLoop l) := by
  intro st
  unfold PV.Socket.liftLoop
  cases hf : (l st.script st.errno).fin <;> simp only [hf] <;> first | trivial | exact h _ _

theorem TrAll.getErrno {P : Ev → Prop} : TrAll P getErrno := by intro st; simp [PV.Socket.getErrno]
theorem TrAll.errnoErr {P : Ev → Prop} (msg : String) (b : Bool) : TrAll P (errnoErr msg b) := by
  intro st; simp [PV.Socket.errnoErr]
theorem TrAll.stopWith {α} {P : Ev → Prop} (w : Stop) : TrAll P (stopWith w : M α) := by
  intro st; simp [PV.Socket.stopWith]

theorem TrAll.of_call {P : Ev → Prop} (s : Sock) (c : Call) (h : TrAll P (callM s c)) (script : Script) (e : Int)
    (r : CallResult) (hr : call s c script e = .ok r) : ∀ ev ∈ r.tr, P ev := by
  have := h { script := script, errno := e }
  unfold call at hr
  cases hm : callM s c { script := script, errno := e } with
  | stop w => simp [hm] at hr
  | ok a st evs =>
    simp only [hm] at this hr
    obtain ⟨s', o⟩ := a
    injection hr with hr; subst hr
    exact this

attribute [irreducible] TrAll

theorem pollLoop_calls (call : Issued) : ∀ (s : List Res) (e : Int), ∀ ev ∈ (pollLoop call s e).evs, ev.call = call := by
  intro s
  induction s with
  | nil => intro e ev h; simp [pollLoop] at h
  | cons r s ih =>
    intro e ev h
    rw [pollLoop_cons] at h
    split at h
    · simp at h
    · cases hp : pollStep r e with
      | again e' =>
        simp only [hp, LoopR.cons, List.mem_cons] at h
        rcases h with h | h
        · simp [h]
        · exact ih _ _ h
      | ready => simp [hp] at h; simp [h]
      | fail pe e' => simp [hp] at h; simp [h]

theorem connLoop_cons (call : Issued) (r : Res) (s : List Res) (e : Int) :
    connLoop call (r :: s) e =
      if r.sys ≠ .connect then ⟨.stop (.mismatch .connect r.sys), [], r :: s, e⟩
      else if r.ret = .ok 0 then ⟨.done r, [⟨call, r⟩], s, (match r.ret with | .err x => x | .ok _ => e)⟩
      else if (match r.ret with | .err x => x | .ok _ => e) = EINTR then
        (connLoop call s (match r.ret with | .err x => x | .ok _ => e)).cons ⟨call, r⟩
      else ⟨.done r, [⟨call, r⟩], s, (match r.ret with | .err x => x | .ok _ => e)⟩ := by
  conv => lhs; unfold connLoop
  split <;> rfl

theorem connLoop_calls (call : Issued) : ∀ (s : List Res) (e : Int), ∀ ev ∈ (connLoop call s e).evs, ev.call = call := by
  intro s
  induction s with
  | nil => intro e ev h; simp [connLoop] at h
  | cons r s ih =>
    intro e ev h
    rw [connLoop_cons] at h
    by_cases h1 : r.sys ≠ .connect
    · simp [h1] at h
    · simp only [h1, if_false] at h
      by_cases h2 : r.ret = .ok 0
      · simp only [h2, if_true] at h; simp at h; simp [h]
      · simp only [h2, if_false] at h
        generalize (match r.ret with | .err x => x | .ok _ => e) = e2 at h
        by_cases h3 : e2 = EINTR
        · simp only [h3, if_true, LoopR.cons, List.mem_cons] at h
          rcases h with h | h
          · simp [h]
          · exact ih _ _ h
        · simp only [h3, if_false] at h; simp at h; simp [h]

end PV.Socket

namespace PV.Socket

/-- decompose a `TrAll` goal along the structure of a `do` block; `t` proves the property for one native call -/
macro "tr_all" "(" t:tactic ")" : tactic => `(tactic|
  repeat' (first
    | with_reducible apply TrAll.bind
    | with_reducible apply TrAll.pure
    | with_reducible apply TrAll.errnoErr
    | with_reducible apply TrAll.getErrno
    | with_reducible apply TrAll.stopWith
    | (with_reducible apply TrAll.sys; intro _; $t; done)
    | split
    | intro _
    | dsimp only))

end PV.Socket

namespace PV.Socket
open PV.Generated.Socket

theorem pollLoop_timeout_from_poll0 (call : Issued) : ∀ (s : List Res) (e : Int) (pe : PErr),
    (pollLoop call s e).fin = .fail pe → pe.msg = msgTimedOut →
      ∃ r, (pollLoop call s e).evs.getLast? = some ⟨call, r⟩ ∧ r.ret = .ok 0 := by
  intro s
  induction s with
  | nil => intro e pe h; simp [pollLoop] at h
  | cons r s ih =>
    intro e pe h hm
    rw [pollLoop_cons] at h ⊢
    split at h
    · cases h
    · rename_i hsys
      simp only [hsys, if_false]
      cases hp : pollStep r e with
      | again e' =>
        simp only [hp] at h ⊢
        obtain ⟨r', h1, h2⟩ := ih e' pe (by simpa [LoopR.cons] using h) hm
        refine ⟨r', ?_, h2⟩
        simp only [LoopR.cons]
        cases hl : (pollLoop call s e').evs with
        | nil => simp [hl] at h1
        | cons a l => rw [hl] at h1; simpa [List.getLast?_cons_cons] using h1
      | ready => simp [hp] at h
      | fail pe' e' =>
        simp only [hp] at h ⊢
        injection h with h; subst h
        refine ⟨r, by simp, ?_⟩
        unfold pollStep at hp
        cases hr : r.ret with
        | ok v =>
          simp only [hr] at hp
          split at hp
          · cases hp
          · split at hp
            · rename_i h0; simp [h0]
            · injection hp with hp1 hp2; subst hp1; simp [msgPollFailed, msgTimedOut] at hm
        | err x =>
          simp only [hr] at hp
          split at hp
          · cases hp
          · injection hp with hp1 hp2; subst hp1; simp [msgPollFailed, msgTimedOut] at hm

end PV.Socket

import PV.Lemmas.CondVar
/-! Invariants of the bounded-buffer client over the Mesa monitor and their preservation (C03). -/
namespace PV.CondVar

def PC.inCS : PC → Bool
  | .check | .sig | .unl => true
  | _ => false

def isAt (r : Role) (pc : PC) (t : Thr) : Bool := decide (t.role = r ∧ t.pc = pc)

def Role.other : Role → Role
  | .producer => .consumer
  | .consumer => .producer

def remOf (r : Role) (t : Thr) : Nat := if t.role = r then t.rem else 0

def need (cfg : Cfg) (r : Role) (buf : List Item) : Nat :=
  match r with
  | .consumer => buf.length
  | .producer => cfg.cap - buf.length

structure Inv (cfg : Cfg) (K : Nat) (s : PCState) : Prop where
  owner_cs : ∀ j, s.mon.owner = some j ↔ ∃ th, s.thr[j]? = some th ∧ th.pc.inCS = true
  wait_mem : ∀ j cv, (j ∈ s.mon.wset cv ∨ j ∈ s.mon.woken cv) →
    ∃ th, s.thr[j]? = some th ∧ th.pc = .inwait ∧ th.role.waitCv = cv
  in_wait : ∀ j t, s.thr[j]? = some t → t.pc = .inwait →
    j ∈ s.mon.wset t.role.waitCv ∨ j ∈ s.mon.woken t.role.waitCv
  nodup : ∀ cv, (s.mon.wset cv ++ s.mon.woken cv).Nodup
  cnt_wait : ∀ r, cnt (isAt r .inwait) s.thr = (s.mon.wset r.waitCv).length + (s.mon.woken r.waitCv).length
  rem_pos : ∀ th, th ∈ s.thr → (th.pc = .check ∨ th.pc = .inwait) → 0 < th.rem
  fifo : s.produced = s.consumed ++ s.buf
  cap : s.buf.length ≤ cfg.cap
  acc_p : sumOver (remOf .producer) s.thr + s.produced.length = K
  acc_c : sumOver (remOf .consumer) s.thr + s.consumed.length = K
  tok : ∀ r, s.mon.wset r.waitCv ≠ [] →
    need cfg r s.buf ≤ (s.mon.woken r.waitCv).length + cnt (isAt r .check) s.thr + cnt (isAt r.other .sig) s.thr
  bad : s.bad = false

/-- thread-table part of `owner_cs` when thread `i` (old entry `th`) gets entry `th'` -/
theorem owner_cs_set {s : PCState} {i : Tid} {th th' : Thr} {o : Option Tid}
    (hO : ∀ j, s.mon.owner = some j ↔ ∃ t, s.thr[j]? = some t ∧ t.pc.inCS = true)
    (hth : s.thr[i]? = some th)
    (hi : o = some i ↔ th'.pc.inCS = true)
    (hother : ∀ j, j ≠ i → (o = some j ↔ s.mon.owner = some j)) :
    ∀ j, o = some j ↔ ∃ t, (s.thr.set i th')[j]? = some t ∧ t.pc.inCS = true := by
  intro j
  rw [get_set _ j hth]
  by_cases hj : j = i
  · subst hj; simp [hi]
  · simp only [hj, if_false]; rw [hother j hj]; exact hO j


theorem wait_mem_set {s : PCState} {i : Tid} {th th' : Thr} {ws wk : CvId → List Tid}
    (hW : ∀ j cv, (j ∈ s.mon.wset cv ∨ j ∈ s.mon.woken cv) →
      ∃ t, s.thr[j]? = some t ∧ t.pc = .inwait ∧ t.role.waitCv = cv)
    (hth : s.thr[i]? = some th) (hne : th.pc ≠ .inwait)
    (hsub : ∀ j cv, (j ∈ ws cv ∨ j ∈ wk cv) → (j ∈ s.mon.wset cv ∨ j ∈ s.mon.woken cv)) :
    ∀ j cv, (j ∈ ws cv ∨ j ∈ wk cv) →
      ∃ t, (s.thr.set i th')[j]? = some t ∧ t.pc = .inwait ∧ t.role.waitCv = cv := by
  intro j cv hj
  obtain ⟨t, ht, hp, hr⟩ := hW j cv (hsub j cv hj)
  rw [get_set _ j hth]
  by_cases hji : j = i
  · subst hji; rw [hth] at ht; cases ht; exact absurd hp hne
  · simp only [hji, if_false]; exact ⟨t, ht, hp, hr⟩

theorem in_wait_set {s : PCState} {i : Tid} {th th' : Thr} {ws wk : CvId → List Tid}
    (hP : ∀ j t, s.thr[j]? = some t → t.pc = .inwait →
      j ∈ s.mon.wset t.role.waitCv ∨ j ∈ s.mon.woken t.role.waitCv)
    (hth : s.thr[i]? = some th)
    (hmono : ∀ j cv, j ≠ i → (j ∈ s.mon.wset cv ∨ j ∈ s.mon.woken cv) → (j ∈ ws cv ∨ j ∈ wk cv))
    (hi : th'.pc = .inwait → i ∈ ws th'.role.waitCv ∨ i ∈ wk th'.role.waitCv) :
    ∀ j t, (s.thr.set i th')[j]? = some t → t.pc = .inwait → j ∈ ws t.role.waitCv ∨ j ∈ wk t.role.waitCv := by
  intro j t ht hp
  rw [get_set _ j hth] at ht
  by_cases hji : j = i
  · subst hji
    simp only [if_true] at ht
    cases ht
    exact hi hp
  · simp only [hji, if_false] at ht
    exact hmono j _ hji (hP j t ht hp)

theorem wake_mono (m : Mon) (c : CvId) (x : Tid) :
    ∀ j cv, (j ∈ m.wset cv ∨ j ∈ m.woken cv) → (j ∈ (m.wake c x).wset cv ∨ j ∈ (m.wake c x).woken cv) := by
  intro j cv h
  by_cases hc : cv = c
  · subst hc
    simp only [Mon.wake, upd_same]
    rcases h with h | h
    · by_cases hjx : j = x
      · subst hjx; right; simp
      · left; exact (List.mem_erase_of_ne hjx).mpr h
    · right; simp [h]
  · simpa [Mon.wake, upd, hc] using h

theorem broadcast_mono (m : Mon) (c : CvId) :
    ∀ j cv, (j ∈ m.wset cv ∨ j ∈ m.woken cv) → (j ∈ (m.broadcast c).wset cv ∨ j ∈ (m.broadcast c).woken cv) := by
  intro j cv h
  by_cases hc : cv = c
  · subst hc
    simp only [Mon.broadcast, upd_same]
    right
    rcases h with h | h <;> simp [h]
  · simpa [Mon.broadcast, upd, hc] using h

theorem not_waiting {cfg : Cfg} {K : Nat} {s : PCState} {i : Tid} {th : Thr} (hI : Inv cfg K s)
    (hth : s.thr[i]? = some th) (hne : th.pc ≠ .inwait) (cv : CvId) :
    i ∉ s.mon.wset cv ∧ i ∉ s.mon.woken cv := by
  constructor
  · intro hm
    obtain ⟨t, ht, hp, _⟩ := hI.wait_mem i cv (Or.inl hm)
    rw [hth] at ht; cases ht; exact hne hp
  · intro hm
    obtain ⟨t, ht, hp, _⟩ := hI.wait_mem i cv (Or.inr hm)
    rw [hth] at ht; cases ht; exact hne hp

theorem owner_of_cs {cfg : Cfg} {K : Nat} {s : PCState} {i : Tid} {th : Thr} (hI : Inv cfg K s)
    (hth : s.thr[i]? = some th) (hcs : th.pc.inCS = true) : s.mon.owner = some i :=
  (hI.owner_cs i).mpr ⟨th, hth, hcs⟩

theorem sum_same {f : Thr → Nat} {l : List Thr} {i : Nat} {a b : Thr} (h : l[i]? = some a) (hf : f b = f a) :
    sumOver f (l.set i b) = sumOver f l := by
  have := sumOver_set (f := f) b h
  omega

theorem cnt_same {p : Thr → Bool} {l : List Thr} {i : Nat} {a b : Thr} (h : l[i]? = some a) (hp : p b = p a) :
    cnt p (l.set i b) = cnt p l := by
  have := cnt_set (p := p) b h
  rw [hp] at this
  omega

theorem waitCv_inj {r q : Role} : r.waitCv = q.waitCv ↔ r = q := by
  cases r <;> cases q <;> simp [Role.waitCv]

theorem sigCv_eq_waitCv {r q : Role} : q.sigCv = r.waitCv ↔ r = q.other := by
  cases r <;> cases q <;> simp [Role.waitCv, Role.sigCv, Role.other]

/-! ### monitor bookkeeping under `wake` / `broadcast` -/

theorem wake_sub (m : Mon) (c : CvId) (x : Tid) (hx : x ∈ m.wset c) :
    ∀ j cv, (j ∈ (m.wake c x).wset cv ∨ j ∈ (m.wake c x).woken cv) → (j ∈ m.wset cv ∨ j ∈ m.woken cv) := by
  intro j cv h
  by_cases hc : cv = c
  · subst hc
    simp only [Mon.wake, upd_same] at h
    rcases h with h | h
    · exact Or.inl (List.mem_of_mem_erase h)
    · rcases List.mem_append.mp h with h | h
      · exact Or.inr h
      · simp at h; subst h; exact Or.inl hx
  · simpa [Mon.wake, upd, hc] using h

theorem broadcast_sub (m : Mon) (c : CvId) :
    ∀ j cv, (j ∈ (m.broadcast c).wset cv ∨ j ∈ (m.broadcast c).woken cv) → (j ∈ m.wset cv ∨ j ∈ m.woken cv) := by
  intro j cv h
  by_cases hc : cv = c
  · subst hc
    simp only [Mon.broadcast, upd_same] at h
    rcases h with h | h
    · simp at h
    · rcases List.mem_append.mp h with h | h
      · exact Or.inr h
      · exact Or.inl h
  · simpa [Mon.broadcast, upd, hc] using h

theorem wake_nodup (m : Mon) (c : CvId) (x : Tid) (hx : x ∈ m.wset c)
    (hN : ∀ cv, (m.wset cv ++ m.woken cv).Nodup) :
    ∀ cv, ((m.wake c x).wset cv ++ (m.wake c x).woken cv).Nodup := by
  intro cv
  by_cases hc : cv = c
  · subst hc
    simp only [Mon.wake, upd_same]
    exact nodup_move (hN cv) hx
  · simpa [Mon.wake, upd, hc] using hN cv

theorem broadcast_nodup (m : Mon) (c : CvId) (hN : ∀ cv, (m.wset cv ++ m.woken cv).Nodup) :
    ∀ cv, ((m.broadcast c).wset cv ++ (m.broadcast c).woken cv).Nodup := by
  intro cv
  by_cases hc : cv = c
  · subst hc
    simp only [Mon.broadcast, upd_same]
    exact nodup_swap (hN cv)
  · simpa [Mon.broadcast, upd, hc] using hN cv

theorem wake_len (m : Mon) (c : CvId) (x : Tid) (hx : x ∈ m.wset c) :
    ((m.wake c x).wset c).length + 1 = (m.wset c).length ∧
    ((m.wake c x).woken c).length = (m.woken c).length + 1 := by
  simp only [Mon.wake, upd_same]
  have := List.length_erase_of_mem hx
  have hp : 0 < (m.wset c).length := List.length_pos_of_mem hx
  constructor
  · omega
  · simp

theorem wake_other (m : Mon) {c cv : CvId} (x : Tid) (hc : cv ≠ c) :
    (m.wake c x).wset cv = m.wset cv ∧ (m.wake c x).woken cv = m.woken cv := by
  simp [Mon.wake, upd, hc]

theorem broadcast_other (m : Mon) {c cv : CvId} (hc : cv ≠ c) :
    (m.broadcast c).wset cv = m.wset cv ∧ (m.broadcast c).woken cv = m.woken cv := by
  simp [Mon.broadcast, upd, hc]

theorem act_producer {cfg : Cfg} {s : PCState} {i : Tid} {th : Thr} (hr : th.role = .producer) :
    act cfg s i th =
      { s with thr := s.thr.set i { th with pc := .sig, rem := th.rem - 1 },
               buf := s.buf ++ [(i, th.rem)], produced := s.produced ++ [(i, th.rem)],
               bad := s.bad || decide (cfg.cap ≤ s.buf.length) } := by
  simp [act, hr]

theorem act_consumer {cfg : Cfg} {s : PCState} {i : Tid} {th : Thr} {it : Item} {rest : List Item}
    (hr : th.role = .consumer) (hb : s.buf = it :: rest) :
    act cfg s i th =
      { s with thr := s.thr.set i { th with pc := .sig, rem := th.rem - 1 },
               buf := rest, consumed := s.consumed ++ [it] } := by
  simp [act, hr, hb]

/-! ### preservation, step by step -/

theorem inv_lock {cfg : Cfg} {K : Nat} {s s' : PCState} {i : Tid} (hI : Inv cfg K s)
    (h : execLock s i = some s') : Inv cfg K s' := by
  obtain ⟨th, hth, hpc, hrem, ho, rfl⟩ := execLock_some h
  refine
    { owner_cs := owner_cs_set hI.owner_cs hth (by simp [PC.inCS]) (fun j hj => by simp [ho, Ne.symm hj])
      wait_mem := wait_mem_set hI.wait_mem hth (by simp [hpc]) (fun _ _ h => h)
      in_wait := in_wait_set hI.in_wait hth (fun _ _ _ h => h) (by simp)
      nodup := hI.nodup
      cnt_wait := ?_
      rem_pos := ?_
      fifo := hI.fifo
      cap := hI.cap
      acc_p := ?_
      acc_c := ?_
      tok := ?_
      bad := hI.bad }
  · intro r
    have := cnt_same (p := isAt r .inwait) (b := { th with pc := .check }) hth (by simp [isAt, hpc])
    have h0 := hI.cnt_wait r
    simp only [this]; exact h0
  · intro t ht hp
    rcases mem_set_cases ht with rfl | ht
    · exact hrem
    · exact hI.rem_pos t ht hp
  · have := sum_same (f := remOf .producer) (b := { th with pc := .check }) hth (by simp [remOf])
    simp only [this]; exact hI.acc_p
  · have := sum_same (f := remOf .consumer) (b := { th with pc := .check }) hth (by simp [remOf])
    simp only [this]; exact hI.acc_c
  · intro r hw
    have h0 := hI.tok r hw
    have c1 := cnt_set (p := isAt r .check) { th with pc := .check } hth
    have c2 := cnt_same (p := isAt r.other .sig) (b := { th with pc := .check }) hth (by simp [isAt, hpc])
    simp [isAt, hpc] at c1
    simp only [c2]
    simp at h0 ⊢
    split at c1 <;> omega

theorem inv_check_wait {cfg : Cfg} {K : Nat} {s : PCState} {i : Tid} {th : Thr} (hI : Inv cfg K s)
    (hth : s.thr[i]? = some th) (hpc : th.pc = .check) (hb : blocked cfg th.role s.buf = true)
    (ho : s.mon.owner = some i) :
    Inv cfg K { s with mon := { owner := none, wset := upd s.mon.wset th.role.waitCv (s.mon.wset th.role.waitCv ++ [i]),
                                 woken := s.mon.woken },
                       thr := s.thr.set i { th with pc := .inwait } } := by
  have hnw := not_waiting hI hth (by simp [hpc])
  refine
    { owner_cs := owner_cs_set hI.owner_cs hth (by simp [PC.inCS]) (fun j hj => by simp [ho, Ne.symm hj])
      wait_mem := ?_
      in_wait := in_wait_set hI.in_wait hth ?_ ?_
      nodup := ?_
      cnt_wait := ?_
      rem_pos := ?_
      fifo := hI.fifo
      cap := hI.cap
      acc_p := ?_
      acc_c := ?_
      tok := ?_
      bad := hI.bad }
  · intro j cv hj
    simp only at hj
    rw [get_set _ j hth]
    by_cases hji : j = i
    · subst hji
      simp only [if_true]
      refine ⟨_, rfl, rfl, ?_⟩
      by_cases hc : cv = th.role.waitCv
      · exact hc.symm
      · rw [upd_other _ _ hc] at hj
        rcases hj with hj | hj
        · exact absurd hj (hnw cv).1
        · exact absurd hj (hnw cv).2
    · simp only [hji, if_false]
      apply hI.wait_mem j cv
      rcases hj with hj | hj
      · left
        by_cases hc : cv = th.role.waitCv
        · subst hc
          rw [upd_same] at hj
          rcases List.mem_append.mp hj with hj | hj
          · exact hj
          · simp at hj; exact absurd hj hji
        · rw [upd_other _ _ hc] at hj; exact hj
      · exact Or.inr hj
  · intro j cv _ hj
    simp only
    rcases hj with hj | hj
    · left
      by_cases hc : cv = th.role.waitCv
      · subst hc; rw [upd_same]; simp [hj]
      · rw [upd_other _ _ hc]; exact hj
    · exact Or.inr hj
  · intro _
    left; simp [upd_same]
  · intro cv
    simp only
    by_cases hc : cv = th.role.waitCv
    · subst hc
      rw [upd_same]
      exact nodup_snoc_left (hI.nodup _) (hnw _).1 (hnw _).2
    · rw [upd_other _ _ hc]; exact hI.nodup cv
  · intro r
    have c := cnt_set (p := isAt r .inwait) { th with pc := .inwait } hth
    have h0 := hI.cnt_wait r
    simp [isAt, hpc] at c
    simp only
    by_cases hr : th.role = r
    · subst hr
      simp [upd_same] at c ⊢
      omega
    · have hc : r.waitCv ≠ th.role.waitCv := fun e => hr (waitCv_inj.mp e).symm
      rw [upd_other _ _ hc]
      simp [hr] at c
      omega
  · intro t ht hp
    rcases mem_set_cases ht with rfl | ht
    · exact hI.rem_pos th (List.mem_of_getElem? hth) (Or.inl hpc)
    · exact hI.rem_pos t ht hp
  · have := sum_same (f := remOf .producer) (b := { th with pc := .inwait }) hth (by simp [remOf])
    simp only [this]; exact hI.acc_p
  · have := sum_same (f := remOf .consumer) (b := { th with pc := .inwait }) hth (by simp [remOf])
    simp only [this]; exact hI.acc_c
  · intro r hw
    simp only at hw ⊢
    have c1 := cnt_set (p := isAt r .check) { th with pc := .inwait } hth
    have c2 := cnt_same (p := isAt r.other .sig) (b := { th with pc := .inwait }) hth (by simp [isAt, hpc])
    simp [isAt, hpc] at c1
    rw [c2]
    by_cases hr : th.role = r
    · subst hr
      have : need cfg th.role s.buf = 0 := by
        cases hrole : th.role <;> simp [blocked, hrole] at hb <;> simp [need, hb]
      omega
    · have hc : r.waitCv ≠ th.role.waitCv := fun e => hr (waitCv_inj.mp e).symm
      rw [upd_other _ _ hc] at hw
      have h0 := hI.tok r hw
      simp [hr] at c1
      omega

theorem inv_act {cfg : Cfg} {K : Nat} {s : PCState} {i : Tid} {th : Thr} (hI : Inv cfg K s)
    (hth : s.thr[i]? = some th) (hpc : th.pc = .check) (hb : blocked cfg th.role s.buf = false) :
    Inv cfg K (act cfg s i th) := by
  have hown := owner_of_cs hI hth (by simp [hpc, PC.inCS])
  have hrem := hI.rem_pos th (List.mem_of_getElem? hth) (Or.inl hpc)
  have hcw : ∀ r, cnt (isAt r .inwait) (s.thr.set i { th with pc := .sig, rem := th.rem - 1 }) = cnt (isAt r .inwait) s.thr :=
    fun r => cnt_same hth (by simp [isAt, hpc])
  have hrp : ∀ t, t ∈ s.thr.set i { th with pc := .sig, rem := th.rem - 1 } → (t.pc = .check ∨ t.pc = .inwait) → 0 < t.rem := by
    intro t ht hp
    rcases mem_set_cases ht with rfl | ht
    · simp at hp
    · exact hI.rem_pos t ht hp
  cases hrole : th.role with
  | producer =>
    have hlt : s.buf.length < cfg.cap := by simpa [blocked, hrole] using hb
    rw [act_producer hrole]
    refine
      { owner_cs := owner_cs_set hI.owner_cs hth (by simp [PC.inCS, hown]) (fun j hj => Iff.rfl)
        wait_mem := wait_mem_set hI.wait_mem hth (by simp [hpc]) (fun _ _ h => h)
        in_wait := in_wait_set hI.in_wait hth (fun _ _ _ h => h) (by simp)
        nodup := hI.nodup
        cnt_wait := fun r => by simp only [hcw]; exact hI.cnt_wait r
        rem_pos := hrp
        fifo := by simp [hI.fifo]
        cap := by simp; omega
        acc_p := ?_
        acc_c := ?_
        tok := ?_
        bad := by simp [hI.bad]; omega }
    · have := sumOver_set (f := remOf .producer) { th with pc := .sig, rem := th.rem - 1 } hth
      have h0 := hI.acc_p
      simp [remOf, hrole] at this ⊢
      omega
    · have := sum_same (f := remOf .consumer) (b := { th with pc := .sig, rem := th.rem - 1 }) hth (by simp [remOf, hrole])
      simp only [this]; exact hI.acc_c
    · intro r hw
      have h0 := hI.tok r hw
      have c1 := cnt_set (p := isAt r .check) { th with pc := .sig, rem := th.rem - 1 } hth
      have c2 := cnt_set (p := isAt r.other .sig) { th with pc := .sig, rem := th.rem - 1 } hth
      have hcap := hI.cap
      cases r <;> simp [isAt, hpc, hrole, Role.other, need] at c1 c2 h0 ⊢ <;> omega
  | consumer =>
    cases hbuf : s.buf with
    | nil => simp [blocked, hrole, hbuf] at hb
    | cons it rest =>
      rw [act_consumer hrole hbuf]
      have hfifo := hI.fifo
      have hcap := hI.cap
      rw [hbuf] at hfifo hcap
      refine
        { owner_cs := owner_cs_set hI.owner_cs hth (by simp [PC.inCS, hown]) (fun j hj => Iff.rfl)
          wait_mem := wait_mem_set hI.wait_mem hth (by simp [hpc]) (fun _ _ h => h)
          in_wait := in_wait_set hI.in_wait hth (fun _ _ _ h => h) (by simp)
          nodup := hI.nodup
          cnt_wait := fun r => by simp only [hcw]; exact hI.cnt_wait r
          rem_pos := hrp
          fifo := by simp [hfifo]
          cap := by simp at hcap ⊢; omega
          acc_p := ?_
          acc_c := ?_
          tok := ?_
          bad := hI.bad }
      · have := sum_same (f := remOf .producer) (b := { th with pc := .sig, rem := th.rem - 1 }) hth (by simp [remOf, hrole])
        simp only [this]; exact hI.acc_p
      · have := sumOver_set (f := remOf .consumer) { th with pc := .sig, rem := th.rem - 1 } hth
        have h0 := hI.acc_c
        simp [remOf, hrole] at this ⊢
        omega
      · intro r hw
        have h0 := hI.tok r hw
        have c1 := cnt_set (p := isAt r .check) { th with pc := .sig, rem := th.rem - 1 } hth
        have c2 := cnt_set (p := isAt r.other .sig) { th with pc := .sig, rem := th.rem - 1 } hth
        rw [hbuf] at h0
        cases r <;> simp [isAt, hpc, hrole, Role.other, need] at c1 c2 h0 hcap ⊢ <;> omega

/-- common part of the three `signal` outcomes: only the monitor lists and the pc of `i` change -/
theorem inv_signal_gen {cfg : Cfg} {K : Nat} {s : PCState} {i : Tid} {th : Thr} (m' : Mon) (hI : Inv cfg K s)
    (hth : s.thr[i]? = some th) (hpc : th.pc = .sig)
    (hown : m'.owner = s.mon.owner)
    (hsub : ∀ j cv, (j ∈ m'.wset cv ∨ j ∈ m'.woken cv) → (j ∈ s.mon.wset cv ∨ j ∈ s.mon.woken cv))
    (hmono : ∀ j cv, (j ∈ s.mon.wset cv ∨ j ∈ s.mon.woken cv) → (j ∈ m'.wset cv ∨ j ∈ m'.woken cv))
    (hnd : ∀ cv, (m'.wset cv ++ m'.woken cv).Nodup)
    (hlen : ∀ cv, (m'.wset cv).length + (m'.woken cv).length = (s.mon.wset cv).length + (s.mon.woken cv).length)
    (hoth : ∀ cv, cv ≠ th.role.sigCv → m'.wset cv = s.mon.wset cv ∧ m'.woken cv = s.mon.woken cv)
    (htok : m'.wset th.role.sigCv ≠ [] →
      (s.mon.wset th.role.sigCv ≠ [] ∧ (s.mon.woken th.role.sigCv).length + 1 ≤ (m'.woken th.role.sigCv).length)) :
    Inv cfg K { s with mon := m', thr := s.thr.set i { th with pc := .unl } } := by
  have hO := owner_of_cs hI hth (by simp [hpc, PC.inCS])
  refine
    { owner_cs := owner_cs_set hI.owner_cs hth (by simp [PC.inCS, hown, hO]) (fun j hj => by rw [hown])
      wait_mem := wait_mem_set hI.wait_mem hth (by simp [hpc]) hsub
      in_wait := in_wait_set hI.in_wait hth (fun j cv _ h => hmono j cv h) (by simp)
      nodup := hnd
      cnt_wait := ?_
      rem_pos := ?_
      fifo := hI.fifo
      cap := hI.cap
      acc_p := ?_
      acc_c := ?_
      tok := ?_
      bad := hI.bad }
  · intro r
    have := cnt_same (p := isAt r .inwait) (b := { th with pc := .unl }) hth (by simp [isAt, hpc])
    simp only [this, hlen]; exact hI.cnt_wait r
  · intro t ht hp
    rcases mem_set_cases ht with rfl | ht
    · simp at hp
    · exact hI.rem_pos t ht hp
  · have := sum_same (f := remOf .producer) (b := { th with pc := .unl }) hth (by simp [remOf])
    simp only [this]; exact hI.acc_p
  · have := sum_same (f := remOf .consumer) (b := { th with pc := .unl }) hth (by simp [remOf])
    simp only [this]; exact hI.acc_c
  · intro r hw
    simp only at hw ⊢
    have c1 := cnt_same (p := isAt r .check) (b := { th with pc := .unl }) hth (by simp [isAt, hpc])
    have c2 := cnt_set (p := isAt r.other .sig) { th with pc := .unl } hth
    rw [c1]
    have e2 : isAt r.other .sig { th with pc := .unl } = false := by simp [isAt]
    rw [e2] at c2
    by_cases hr : r = th.role.other
    · have hcv : th.role.sigCv = r.waitCv := sigCv_eq_waitCv.mpr hr
      rw [← hcv] at hw ⊢
      obtain ⟨hw0, hl⟩ := htok hw
      have h0 := hI.tok r (by rw [← hcv]; exact hw0)
      rw [← hcv] at h0
      have : th.role = r.other := by subst hr; cases th.role <;> rfl
      have e1 : isAt r.other .sig th = true := by simp [isAt, hpc, this]
      rw [e1] at c2
      simp at c2
      omega
    · have hcv : r.waitCv ≠ th.role.sigCv := fun e => hr (sigCv_eq_waitCv.mp e.symm)
      obtain ⟨e1, e2⟩ := hoth _ hcv
      rw [e1] at hw
      rw [e2]
      have h0 := hI.tok r hw
      have : ¬ th.role = r.other := by
        intro e; apply hr; rw [e]; cases r <;> rfl
      have e1 : isAt r.other .sig th = false := by simp [isAt, this]
      rw [e1] at c2
      simp at c2
      omega

theorem inv_signal {cfg : Cfg} {K : Nat} {s s' : PCState} {i : Tid} {w : Option Tid} (hI : Inv cfg K s)
    (h : execSignal cfg s i w = some s') : Inv cfg K s' := by
  obtain ⟨th, hth, hpc, hcase⟩ := execSignal_some h
  rcases hcase with ⟨_, _, rfl⟩ | ⟨_, _, he, rfl⟩ | ⟨_, x, _, hx, rfl⟩
  · -- broadcast
    refine inv_signal_gen (s.mon.broadcast th.role.sigCv) hI hth hpc rfl (broadcast_sub _ _) (broadcast_mono _ _)
      (broadcast_nodup _ _ hI.nodup) ?_ (fun cv hc => broadcast_other _ hc) ?_
    · intro cv
      by_cases hc : cv = th.role.sigCv
      · subst hc; simp [Mon.broadcast, upd_same]; omega
      · obtain ⟨e1, e2⟩ := broadcast_other s.mon hc; rw [e1, e2]
    · intro hne; simp [Mon.broadcast, upd_same] at hne
  · -- signal, nobody waits
    have : ({ s with thr := s.thr.set i { th with pc := .unl } } : PCState) =
        { s with mon := s.mon, thr := s.thr.set i { th with pc := .unl } } := rfl
    rw [this]
    refine inv_signal_gen s.mon hI hth hpc rfl (fun _ _ h => h) (fun _ _ h => h) hI.nodup (fun _ => rfl) (fun _ _ => ⟨rfl, rfl⟩) ?_
    intro hne; exact absurd he hne
  · -- signal, waiter x chosen
    obtain ⟨l1, l2⟩ := wake_len s.mon th.role.sigCv x hx
    refine inv_signal_gen (s.mon.wake th.role.sigCv x) hI hth hpc rfl (wake_sub _ _ _ hx) (wake_mono _ _ _)
      (wake_nodup _ _ _ hx hI.nodup) ?_ (fun cv hc => wake_other _ _ hc) ?_
    · intro cv
      by_cases hc : cv = th.role.sigCv
      · subst hc; omega
      · obtain ⟨e1, e2⟩ := wake_other s.mon x hc; rw [e1, e2]
    · intro _
      exact ⟨List.ne_nil_of_mem hx, by omega⟩

theorem inv_unlock {cfg : Cfg} {K : Nat} {s s' : PCState} {i : Tid} (hI : Inv cfg K s)
    (h : execUnlock s i = some s') : Inv cfg K s' := by
  obtain ⟨th, hth, hpc, ho, rfl⟩ := execUnlock_some h
  refine
    { owner_cs := owner_cs_set hI.owner_cs hth (by simp [PC.inCS]) (fun j hj => by simp [ho, Ne.symm hj])
      wait_mem := wait_mem_set hI.wait_mem hth (by simp [hpc]) (fun _ _ h => h)
      in_wait := in_wait_set hI.in_wait hth (fun _ _ _ h => h) (by simp)
      nodup := hI.nodup
      cnt_wait := ?_
      rem_pos := ?_
      fifo := hI.fifo
      cap := hI.cap
      acc_p := ?_
      acc_c := ?_
      tok := ?_
      bad := hI.bad }
  · intro r
    have := cnt_same (p := isAt r .inwait) (b := { th with pc := .start }) hth (by simp [isAt, hpc])
    simp only [this]; exact hI.cnt_wait r
  · intro t ht hp
    rcases mem_set_cases ht with rfl | ht
    · simp at hp
    · exact hI.rem_pos t ht hp
  · have := sum_same (f := remOf .producer) (b := { th with pc := .start }) hth (by simp [remOf])
    simp only [this]; exact hI.acc_p
  · have := sum_same (f := remOf .consumer) (b := { th with pc := .start }) hth (by simp [remOf])
    simp only [this]; exact hI.acc_c
  · intro r hw
    have h0 := hI.tok r hw
    have c1 := cnt_same (p := isAt r .check) (b := { th with pc := .start }) hth (by simp [isAt, hpc])
    have c2 := cnt_same (p := isAt r.other .sig) (b := { th with pc := .start }) hth (by simp [isAt, hpc])
    simp only [c1, c2]; exact h0

theorem inv_reacquire {cfg : Cfg} {K : Nat} {s s' : PCState} {i : Tid} (hI : Inv cfg K s)
    (hrc : cfg.recheck = true) (h : execReacquire cfg s i = some s') : Inv cfg K s' := by
  obtain ⟨th, hth, hpc, hw, ho, hcase⟩ := execReacquire_some h
  have hs' : s' = { s with mon := s.mon.reacquired th.role.waitCv i, thr := s.thr.set i { th with pc := .check } } := by
    rcases hcase with ⟨_, e⟩ | ⟨hf, _⟩
    · exact e
    · rw [hrc] at hf; cases hf
  subst hs'
  have hnd := hI.nodup th.role.waitCv
  have hnotw : i ∉ s.mon.wset th.role.waitCv := by
    intro hm
    exact (List.nodup_append.mp hnd).2.2 i hm i hw rfl
  refine
    { owner_cs := owner_cs_set hI.owner_cs hth (by simp [PC.inCS, Mon.reacquired])
        (fun j hj => by simp [ho, Ne.symm hj, Mon.reacquired])
      wait_mem := ?_
      in_wait := in_wait_set hI.in_wait hth ?_ (by simp)
      nodup := ?_
      cnt_wait := ?_
      rem_pos := ?_
      fifo := hI.fifo
      cap := hI.cap
      acc_p := ?_
      acc_c := ?_
      tok := ?_
      bad := hI.bad }
  · intro j cv hj
    simp only [Mon.reacquired] at hj
    rw [get_set _ j hth]
    have hold : j ∈ s.mon.wset cv ∨ j ∈ s.mon.woken cv := by
      rcases hj with hj | hj
      · exact Or.inl hj
      · by_cases hc : cv = th.role.waitCv
        · subst hc; rw [upd_same] at hj; exact Or.inr (List.mem_of_mem_erase hj)
        · rw [upd_other _ _ hc] at hj; exact Or.inr hj
    by_cases hji : j = i
    · subst hji
      exfalso
      obtain ⟨t, ht, _, hr⟩ := hI.wait_mem j cv hold
      rw [hth] at ht; cases ht
      subst hr
      rcases hj with hj | hj
      · exact hnotw hj
      · rw [upd_same] at hj; exact not_mem_erase_right hnd hj
    · simp only [hji, if_false]
      exact hI.wait_mem j cv hold
  · intro j cv hji hj
    simp only [Mon.reacquired]
    rcases hj with hj | hj
    · exact Or.inl hj
    · right
      by_cases hc : cv = th.role.waitCv
      · subst hc; rw [upd_same]; exact (List.mem_erase_of_ne hji).mpr hj
      · rw [upd_other _ _ hc]; exact hj
  · intro cv
    simp only [Mon.reacquired]
    by_cases hc : cv = th.role.waitCv
    · subst hc; rw [upd_same]; exact nodup_erase_right i hnd
    · rw [upd_other _ _ hc]; exact hI.nodup cv
  · intro r
    have c := cnt_set (p := isAt r .inwait) { th with pc := .check } hth
    have h0 := hI.cnt_wait r
    simp [isAt, hpc] at c
    simp only [Mon.reacquired]
    by_cases hr : th.role = r
    · subst hr
      have hl := List.length_erase_of_mem hw
      have hp : 0 < (s.mon.woken th.role.waitCv).length := List.length_pos_of_mem hw
      simp [upd_same] at c ⊢
      omega
    · have hc : r.waitCv ≠ th.role.waitCv := fun e => hr (waitCv_inj.mp e).symm
      rw [upd_other _ _ hc]
      simp [hr] at c
      omega
  · intro t ht hp
    rcases mem_set_cases ht with rfl | ht
    · exact hI.rem_pos th (List.mem_of_getElem? hth) (Or.inr hpc)
    · exact hI.rem_pos t ht hp
  · have := sum_same (f := remOf .producer) (b := { th with pc := .check }) hth (by simp [remOf])
    simp only [this]; exact hI.acc_p
  · have := sum_same (f := remOf .consumer) (b := { th with pc := .check }) hth (by simp [remOf])
    simp only [this]; exact hI.acc_c
  · intro r hw'
    simp only [Mon.reacquired] at hw' ⊢
    have h0 := hI.tok r hw'
    have c1 := cnt_set (p := isAt r .check) { th with pc := .check } hth
    have c2 := cnt_same (p := isAt r.other .sig) (b := { th with pc := .check }) hth (by simp [isAt, hpc])
    simp [isAt, hpc] at c1
    rw [c2]
    by_cases hr : th.role = r
    · subst hr
      have hl := List.length_erase_of_mem hw
      have hp : 0 < (s.mon.woken th.role.waitCv).length := List.length_pos_of_mem hw
      simp [upd_same] at c1 ⊢
      omega
    · have hc : r.waitCv ≠ th.role.waitCv := fun e => hr (waitCv_inj.mp e).symm
      rw [upd_other _ _ hc]
      simp [hr] at c1
      omega

theorem inv_spurious {cfg : Cfg} {K : Nat} {s s' : PCState} {i : Tid} (hI : Inv cfg K s)
    (h : execSpurious s i = some s') : Inv cfg K s' := by
  obtain ⟨th, hth, hpc, hw, rfl⟩ := execSpurious_some h
  obtain ⟨l1, l2⟩ := wake_len s.mon th.role.waitCv i hw
  refine
    { owner_cs := hI.owner_cs
      wait_mem := fun j cv hj => hI.wait_mem j cv (wake_sub _ _ _ hw j cv hj)
      in_wait := fun j t ht hp => wake_mono _ _ _ j _ (hI.in_wait j t ht hp)
      nodup := wake_nodup _ _ _ hw hI.nodup
      cnt_wait := ?_
      rem_pos := hI.rem_pos
      fifo := hI.fifo
      cap := hI.cap
      acc_p := hI.acc_p
      acc_c := hI.acc_c
      tok := ?_
      bad := hI.bad }
  · intro r
    have h0 := hI.cnt_wait r
    simp only
    by_cases hc : r.waitCv = th.role.waitCv
    · rw [hc] at h0 ⊢; omega
    · obtain ⟨e1, e2⟩ := wake_other s.mon i hc; rw [e1, e2]; exact h0
  · intro r hw'
    simp only at hw' ⊢
    by_cases hc : r.waitCv = th.role.waitCv
    · rw [hc] at hw' ⊢
      have h0 := hI.tok r (by rw [hc]; exact List.ne_nil_of_mem hw)
      rw [hc] at h0
      omega
    · obtain ⟨e1, e2⟩ := wake_other s.mon i hc
      rw [e1] at hw'; rw [e2]; exact hI.tok r hw'

/-- every step of the (re-checking) client preserves the invariant -/
theorem inv_step {cfg : Cfg} {K : Nat} {s s' : PCState} {l : Label} (hI : Inv cfg K s)
    (hrc : cfg.recheck = true) (h : exec cfg s l = some s') : Inv cfg K s' := by
  cases l with
  | lock i => exact inv_lock hI h
  | check i =>
    obtain ⟨th, hth, hpc, hcase⟩ := execCheck_some h
    rcases hcase with ⟨hb, ho, rfl⟩ | ⟨hb, rfl⟩
    · exact inv_check_wait hI hth hpc hb ho
    · exact inv_act hI hth hpc hb
  | signal i w => exact inv_signal hI h
  | unlock i => exact inv_unlock hI h
  | reacquire i => exact inv_reacquire hI hrc h
  | spurious i => exact inv_spurious hI h

end PV.CondVar

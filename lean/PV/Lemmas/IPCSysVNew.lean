import PV.Lemmas.IPCSysVInv
/-! Per-step value lemmas for `p_semaphore_new` in flight on a bound name (any initial value): used by the ∀-versions of
`open_ignores_init_on_existing` / `create_sets_value` in `PV.Props.C06sysv`. -/
namespace PV.SysV
open PV.Generated.IPCSysV
set_option linter.unusedSimpArgs false

/-- a `p_semaphore_new` of `f` in flight before its SETVAL decision -/
def SemSt.opening (s : SemSt) (m : Mode) : Prop :=
  s.api = .new ∧ s.h.mode = m ∧ (s.pc = .cOpen ∨ s.pc = .cStat ∨ s.pc = .cFtok ∨ s.pc = .cGetExcl ∨ s.pc = .cGetPlain)

theorem new_step_value (p : Pid) (intr : Bool) (nm : Nat) (s : SemSt) (os : OS) (f : KeyFile) (i : Ino) (id : SemId) (m : Mode)
    (hb : Bound os f i id) (hf : s.h.file = f) (hi : s.inv f i id) (ho : s.opening m) :
    (sysStep p intr s.next os nm).1.sems id = os.sems id ∧
    (match s.after (sysStep p intr s.next os nm).2 with
     | .cont s' => s'.h.file = f ∧ s'.h.init = s.h.init ∧ s'.inv f i id ∧
         (s'.opening m ∨ (m = .create ∧ s'.pc = .cSetval ∧ s'.api = .new ∧ s'.h.hdl = some id))
     | .done (h, r) => m = .open ∧ r = .ok () ∧ h.hdl = some id ∧ h.file = f) := by
  have hq : s.quiet f := by
    intro _
    obtain ⟨_, _, hp⟩ := ho
    rcases hp with hp | hp | hp | hp | hp <;> simp [hp]
  have hS := sem_step_inv p intr nm s os f i id hb hi hq
  have hfr : (sysStep p intr s.next os nm).1.sems id = os.sems id := by
    refine (sysStep_bound p intr s.next os nm f i id hb ?_ ?_).2 ?_ ?_
    all_goals
      obtain ⟨_, _, hp⟩ := ho
      intros
      rcases hp with hp | hp | hp | hp | hp <;> simp [SemSt.next, hp]
  refine ⟨hfr, ?_⟩
  have hi' := hi
  simp only [SemSt.inv, hf, if_true] at hi'
  obtain ⟨ha, hm, hp⟩ := ho
  have r1 := sys_open_f p intr nm keyFileOpenMode os f i id hb
  have r2 := sys_stat_ftok_f p intr nm ftokProj os f i id hb
  have r3 := sys_semget_f p intr nm semgetExclNsems os f i id hb
  have r4 := sys_semget_f p intr nm semgetPlainNsems os f i id hb
  obtain ⟨api, h, pc, built, failing, recreated⟩ := s
  obtain ⟨fc, sc, uk, file, hdl, mode, init⟩ := h
  simp only at hf ha hm hp hi'
  subst hf ha hm
  rcases hp with hp | hp | hp | hp | hp <;> subst hp <;> simp only at hi'
  · simp only [SemSt.next, r1, SemSt.after, Errno.num, keyFileExistsErrno, PV.Generated.IPCSysV.EEXIST, if_true]
    simp_all [SemSt.inv, SemSt.opening]
  · simp only [SemSt.next, r2.1, SemSt.after]
    simp_all [SemSt.inv, SemSt.opening]
  · simp only [SemSt.next, r2.2, SemSt.after]
    simp_all [SemSt.inv, SemSt.opening]
  · have huk : uk = some (ftokOf i) := by simp_all
    subst huk
    simp only [SemSt.next, Option.getD_some, r3.1, SemSt.after, Errno.num, semgetExistsErrno, PV.Generated.IPCSysV.EEXIST, if_true]
    simp_all [SemSt.inv, SemSt.opening]
  · have huk : uk = some (ftokOf i) := by simp_all
    subst huk
    simp only [SemSt.next, Option.getD_some, r4.2, SemSt.after, SemSt.afterGet, SemSt.created]
    cases mode <;> simp_all [SemSt.inv, SemSt.opening]

/-- the SETVAL of a CREATE-mode `p_semaphore_new` of `f`: the set gets exactly the given value (any value up to SEMVMX),
    every SEM_UNDO adjustment is cleared, and the call returns the struct -/
theorem setval_step (p : Pid) (intr : Bool) (nm : Nat) (s : SemSt) (os : OS) (f : KeyFile) (i : Ino) (id : SemId)
    (hb : Bound os f i id) (hpc : s.pc = .cSetval) (ha : s.api = .new) (hh : s.h.hdl = some id) (hv : s.h.init ≤ SEMVMX) :
    ((sysStep p intr s.next os nm).1.sems id).value = s.h.init ∧ ((sysStep p intr s.next os nm).1.sems id).alive = true ∧
    (∀ q, ((sysStep p intr s.next os nm).1.sems id).adj q = 0) ∧
    s.after (sysStep p intr s.next os nm).2 = .done (s.h, .ok ()) := by
  obtain ⟨api, h, pc, built, failing, recreated⟩ := s
  simp only at hpc ha hh hv
  subst hpc ha
  have : ¬ h.init > SEMVMX := by omega
  simp [SemSt.next, hh, sysStep, Sys.interruptible, semctlF, semAlive, hb.alive, semSetvalCmd, SETVAL, this, OS.setSem,
    SemSt.after, SemSt.created]

end PV.SysV

import PV.Model.Locks
/-! Linearizability of lock-bracketed bodies (`BStep`), for any number of threads, any bodies. -/
namespace PV.Locks
open PV.Atomics

variable {n : Nat} {ρ : Type}

theorem seqRun_snoc {w0 w1 w2 : BitVec n} {l : List (Tid × Res n ρ)} {rs : List (Tid × ρ)} {t : Tid}
    {prog : Res n ρ} {r : ρ} (h1 : seqRun w0 l = some (w1, rs)) (h2 : runRes prog w1 = some (w2, r)) :
    seqRun w0 (l ++ [(t, prog)]) = some (w2, rs ++ [(t, r)]) := by
  induction l generalizing w0 rs with
  | nil =>
    simp [seqRun] at h1
    obtain ⟨rfl, rfl⟩ := h1
    simp [seqRun, h2]
  | cons p rest ih =>
    obtain ⟨u, q⟩ := p
    simp only [List.cons_append, seqRun] at h1 ⊢
    cases hq : runRes q w0 with
    | none => simp [hq] at h1
    | some x =>
      obtain ⟨wq, rq⟩ := x
      simp only [hq] at h1 ⊢
      cases hr : seqRun wq rest with
      | none => simp [hr] at h1
      | some y =>
        obtain ⟨wf, rs'⟩ := y
        simp only [hr] at h1
        injection h1 with h1; injection h1 with e1 e2
        subst e1; subst e2
        simp [ih hr]

def BPC.quiet : BPC n ρ → Prop
  | .idle => True
  | .waiting _ => True
  | _ => False

structure BInv (w0 : BitVec n) (s : BState n ρ) : Prop where
  free : s.owner = none → (∀ t, (s.pc t).quiet) ∧ seqRun w0 s.acq = some (s.word, s.done)
  held : ∀ t, s.owner = some t → (∀ u, u ≠ t → (s.pc u).quiet) ∧
    ((∃ r prog acq' w', s.pc t = .inBody r ∧ s.acq = acq' ++ [(t, prog)] ∧
        seqRun w0 acq' = some (w', s.done) ∧ runRes r s.word = runRes prog w')
     ∨ (∃ ret, s.pc t = .unlocking ret ∧ seqRun w0 s.acq = some (s.word, s.done)))

theorem bInv_init (w0 : BitVec n) : BInv (ρ := ρ) w0 (bInit w0) :=
  ⟨fun _ => ⟨fun _ => trivial, rfl⟩, fun t h => by simp [bInit] at h⟩

/-- a thread that is inside a body or about to unlock is the owner of the mutex -/
theorem bInv_owner {w0 : BitVec n} {s : BState n ρ} (inv : BInv w0 s) (t : Tid) (h : ¬ (s.pc t).quiet) :
    s.owner = some t := by
  cases ho : s.owner with
  | none => exact absurd ((inv.free ho).1 t) h
  | some o =>
    by_cases e : t = o
    · rw [e]
    · exact absurd ((inv.held o ho).1 t e) h

theorem bInv_step {Ops : Res n ρ → Prop} {w0 : BitVec n} {s s' : BState n ρ} (inv : BInv w0 s) (st : BStep Ops s s') :
    BInv w0 s' := by
  cases st with
  | call t prog hpc _ =>
    constructor
    · intro ho
      obtain ⟨q, sr⟩ := inv.free ho
      refine ⟨fun u => ?_, sr⟩
      by_cases e : u = t
      · subst e; simp [BPC.quiet]
      · simp [upd, e]; exact q u
    · intro o ho
      obtain ⟨q, rest⟩ := inv.held o ho
      have hto : t ≠ o := by
        intro e; subst e
        rcases rest with ⟨r, _, _, _, h, _⟩ | ⟨r, h, _⟩ <;> · rw [hpc] at h; cases h
      refine ⟨fun u hu => ?_, ?_⟩
      · by_cases e : u = t
        · subst e; simp [BPC.quiet]
        · simp [upd, e]; exact q u hu
      · have : upd s.pc t (BPC.waiting prog) o = s.pc o := by simp [upd, Ne.symm hto]
        simpa [this] using rest
  | lock t prog hpc ho =>
    obtain ⟨q, sr⟩ := inv.free ho
    constructor
    · intro h; cases h
    · intro o h
      injection h with h; subst h
      refine ⟨fun u hu => by simp [upd, hu]; exact q u, Or.inl ⟨prog, prog, s.acq, s.word, by simp, rfl, sr, rfl⟩⟩
  | load t k hpc =>
    have ho := bInv_owner inv t (by rw [hpc]; simp [BPC.quiet])
    obtain ⟨q, rest⟩ := inv.held t ho
    constructor
    · intro h; rw [ho] at h; cases h
    · intro o h
      rw [ho] at h; injection h with h; subst h
      refine ⟨fun u hu => by simp [upd, hu]; exact q u hu, ?_⟩
      rcases rest with ⟨r, prog, acq', w', h1, h2, h3, h4⟩ | ⟨r, h, _⟩
      · rw [hpc] at h1; injection h1 with h1; subst h1
        exact Or.inl ⟨k s.word, prog, acq', w', by simp, h2, h3, by simpa [runRes] using h4⟩
      · rw [hpc] at h; cases h
  | store t v k hpc =>
    have ho := bInv_owner inv t (by rw [hpc]; simp [BPC.quiet])
    obtain ⟨q, rest⟩ := inv.held t ho
    constructor
    · intro h; rw [ho] at h; cases h
    · intro o h
      rw [ho] at h; injection h with h; subst h
      refine ⟨fun u hu => by simp [upd, hu]; exact q u hu, ?_⟩
      rcases rest with ⟨r, prog, acq', w', h1, h2, h3, h4⟩ | ⟨r, h, _⟩
      · rw [hpc] at h1; injection h1 with h1; subst h1
        exact Or.inl ⟨k, prog, acq', w', by simp, h2, h3, by simpa [runRes] using h4⟩
      · rw [hpc] at h; cases h
  | fin t r hpc =>
    have ho := bInv_owner inv t (by rw [hpc]; simp [BPC.quiet])
    obtain ⟨q, rest⟩ := inv.held t ho
    constructor
    · intro h; rw [ho] at h; cases h
    · intro o h
      rw [ho] at h; injection h with h; subst h
      refine ⟨fun u hu => by simp [upd, hu]; exact q u hu, ?_⟩
      rcases rest with ⟨r', prog, acq', w', h1, h2, h3, h4⟩ | ⟨r', h, _⟩
      · rw [hpc] at h1; injection h1 with h1; subst h1
        refine Or.inr ⟨r, by simp, ?_⟩
        have h4' : runRes prog w' = some (s.word, r) := by simpa [runRes] using h4.symm
        show seqRun w0 s.acq = some (s.word, s.done ++ [(t, r)])
        rw [h2]; exact seqRun_snoc h3 h4'
      · rw [hpc] at h; cases h
  | unlock t r hpc =>
    have ho := bInv_owner inv t (by rw [hpc]; simp [BPC.quiet])
    obtain ⟨q, rest⟩ := inv.held t ho
    constructor
    · intro _
      rcases rest with ⟨r', _, _, _, h1, _⟩ | ⟨r', _, h2⟩
      · rw [hpc] at h1; cases h1
      · refine ⟨fun u => ?_, h2⟩
        by_cases e : u = t
        · subst e; simp [BPC.quiet]
        · simp [upd, e]; exact q u e
    · intro o h; cases h

theorem bInv_reach {Ops : Res n ρ → Prop} {w0 : BitVec n} {s : BState n ρ} (r : BReach Ops w0 s) : BInv w0 s := by
  induction r with
  | init => exact bInv_init w0
  | step _ st ih => exact bInv_step ih st

/-- at most one thread is inside a body (between lock and unlock) -/
theorem bracket_excl {Ops : Res n ρ → Prop} {w0 : BitVec n} {s : BState n ρ} (r : BReach Ops w0 s) (t u : Tid)
    (ht : ¬ (s.pc t).quiet) (hu : ¬ (s.pc u).quiet) : t = u := by
  have a := bInv_owner (bInv_reach r) t ht
  have b := bInv_owner (bInv_reach r) u hu
  rw [a] at b; injection b

/-- whenever the mutex is free: the word and all return values are those of running the operations one
    at a time in the order of their lock acquisitions -/
theorem bracket_quiescent {Ops : Res n ρ → Prop} {w0 : BitVec n} {s : BState n ρ} (r : BReach Ops w0 s)
    (free : s.owner = none) : seqRun w0 s.acq = some (s.word, s.done) :=
  ((bInv_reach r).free free).2

/-- at any moment: the return values produced so far are those of the sequential execution of a prefix of
    the acquisition order -/
theorem bracket_prefix {Ops : Res n ρ → Prop} {w0 : BitVec n} {s : BState n ρ} (r : BReach Ops w0 s) :
    ∃ k w, seqRun w0 (s.acq.take k) = some (w, s.done) := by
  have inv := bInv_reach r
  cases ho : s.owner with
  | none => exact ⟨s.acq.length, s.word, by simpa using (inv.free ho).2⟩
  | some t =>
    rcases (inv.held t ho).2 with ⟨_, prog, acq', w', _, h2, h3, _⟩ | ⟨_, _, h2⟩
    · exact ⟨acq'.length, w', by rw [h2]; simpa using h3⟩
    · exact ⟨s.acq.length, s.word, by simpa using h2⟩

/-- every operation that was started obeys `Ops` -/
theorem bracket_acq_ops {Ops : Res n ρ → Prop} {w0 : BitVec n} {s : BState n ρ} (r : BReach Ops w0 s) :
    (∀ t prog, s.pc t = .waiting prog → Ops prog) ∧ (∀ p ∈ s.acq, Ops p.2) := by
  induction r with
  | init => exact ⟨fun t prog h => by simp [bInit] at h, fun p h => by simp [bInit] at h⟩
  | step _ st ih =>
    obtain ⟨ih1, ih2⟩ := ih
    cases st with
    | call t prog hpc hop =>
      refine ⟨fun u q h => ?_, ih2⟩
      by_cases e : u = t
      · subst e; simp at h; subst h; exact hop
      · simp [upd, e] at h; exact ih1 u q h
    | lock t prog hpc ho =>
      refine ⟨fun u q h => ?_, fun p hp => ?_⟩
      · by_cases e : u = t
        · subst e; simp at h
        · simp [upd, e] at h; exact ih1 u q h
      · simp at hp
        rcases hp with hp | rfl
        · exact ih2 p hp
        · exact ih1 t prog hpc
    | load t k hpc =>
      refine ⟨fun u q h => ?_, ih2⟩
      by_cases e : u = t
      · subst e; simp at h
      · simp [upd, e] at h; exact ih1 u q h
    | store t v k hpc =>
      refine ⟨fun u q h => ?_, ih2⟩
      by_cases e : u = t
      · subst e; simp at h
      · simp [upd, e] at h; exact ih1 u q h
    | fin t r hpc =>
      refine ⟨fun u q h => ?_, ih2⟩
      by_cases e : u = t
      · subst e; simp at h
      · simp [upd, e] at h; exact ih1 u q h
    | unlock t r hpc =>
      refine ⟨fun u q h => ?_, ih2⟩
      by_cases e : u = t
      · subst e; simp at h
      · simp [upd, e] at h; exact ih1 u q h

/-! ## sequential runs of uniform operations -/

/-- `prog` behaves like `fetch_and_add (1)` returning the old value -/
def IsFetchInc (prog : Res n (Ret n)) : Prop := ∀ w, runRes prog w = some (w + 1, Ret.val w)

/-- `prog` behaves like `dec_and_test` -/
def IsDecTest (prog : Res n (Ret n)) : Prop := ∀ w, runRes prog w = some (w - 1, Ret.bool (w - 1 == 0))

theorem seqRun_fetchInc {l : List (Tid × Res n (Ret n))} (hl : ∀ p ∈ l, IsFetchInc p.2) (w : BitVec n) :
    ∃ rs, seqRun w l = some (w + BitVec.ofNat n l.length, rs) ∧ rs.length = l.length ∧
      ∀ i (h : i < rs.length), (rs[i]).2 = Ret.val (w + BitVec.ofNat n i) := by
  induction l generalizing w with
  | nil => exact ⟨[], by simp [seqRun], rfl, fun i h => by simp at h⟩
  | cons p rest ih =>
    obtain ⟨t, prog⟩ := p
    have hp : IsFetchInc prog := hl (t, prog) (by simp)
    obtain ⟨rs, h1, h2, h3⟩ := ih (fun q hq => hl q (by simp [hq])) (w + 1)
    refine ⟨(t, Ret.val w) :: rs, ?_, by simp [h2], ?_⟩
    · simp only [seqRun, hp w, h1, List.length_cons]
      congr 2
      rw [BitVec.add_assoc]; congr 1
      rw [Nat.add_comm]; exact (BitVec.ofNat_add _ _).symm
    · intro i h
      cases i with
      | zero => simp
      | succ j =>
        simp only [List.getElem_cons_succ]
        rw [h3 j (by simpa using h), BitVec.add_assoc]; congr 2
        rw [Nat.add_comm]; exact (BitVec.ofNat_add _ _).symm

theorem seqRun_decTest {l : List (Tid × Res n (Ret n))} (hl : ∀ p ∈ l, IsDecTest p.2) (w : BitVec n) :
    ∃ rs, seqRun w l = some (w - BitVec.ofNat n l.length, rs) ∧ rs.length = l.length ∧
      ∀ i (h : i < rs.length), (rs[i]).2 = Ret.bool (w - BitVec.ofNat n (i + 1) == 0) := by
  induction l generalizing w with
  | nil => exact ⟨[], by simp [seqRun], rfl, fun i h => by simp at h⟩
  | cons p rest ih =>
    obtain ⟨t, prog⟩ := p
    have hp : IsDecTest prog := hl (t, prog) (by simp)
    obtain ⟨rs, h1, h2, h3⟩ := ih (fun q hq => hl q (by simp [hq])) (w - 1)
    have key : ∀ k : Nat, w - 1 - BitVec.ofNat n k = w - BitVec.ofNat n (k + 1) := by
      intro k
      rw [BitVec.sub_sub, Nat.add_comm, BitVec.ofNat_add]; rfl
    refine ⟨(t, Ret.bool (w - 1 == 0)) :: rs, ?_, by simp [h2], ?_⟩
    · simp only [seqRun, hp w, h1, List.length_cons, key]
    · intro i h
      cases i with
      | zero => simp
      | succ j =>
        simp only [List.getElem_cons_succ]
        rw [h3 j (by simpa using h), key]

end PV.Locks

import PV.Model.Hash.Bytes
set_option linter.unusedSimpArgs false
/-! Byte-array facts used by the crypto-hash proofs (C11). -/
namespace PV.Hash

/-! ## indexing with `[i]!` -/

theorem bget_data (b : ByteArray) (i : Nat) : b[i]! = b.data[i]! := by
  by_cases h : i < b.size
  · rw [getElem!_pos b i h, getElem!_pos b.data i (by simpa using h)]; rfl
  · rw [getElem!_neg b i h, getElem!_neg b.data i (by simpa using h)]

theorem bget_of_lt (b : ByteArray) (i : Nat) (h : i < b.size) : b[i]! = b[i] := getElem!_pos b i h

@[simp] theorem size_set! (b : ByteArray) (i : Nat) (v : UInt8) : (b.set! i v).size = b.size := by
  show (b.data.setIfInBounds i v).size = b.data.size
  simp

theorem get_set! (b : ByteArray) (i j : Nat) (v : UInt8) :
    (b.set! i v)[j]! = if j = i ∧ i < b.size then v else b[j]! := by
  rw [bget_data, bget_data]
  show (b.data.setIfInBounds i v)[j]! = _
  by_cases hj : j < b.data.size
  · rw [getElem!_pos _ j (by simpa using hj), Array.getElem_setIfInBounds hj, getElem!_pos _ j hj]
    by_cases hij : i = j
    · subst hij; simp [hj, ← ByteArray.size_data]
    · have : ¬ j = i := fun h => hij h.symm
      simp [hij, this]
  · rw [getElem!_neg _ j (by simpa using hj), getElem!_neg _ j hj]
    have : ¬ (j = i ∧ i < b.size) := by
      rintro ⟨rfl, h⟩; exact hj (by simpa using h)
    simp [this]

theorem get_append (a b : ByteArray) (j : Nat) :
    (a ++ b)[j]! = if j < a.size then a[j]! else b[j - a.size]! := by
  by_cases h : j < a.size
  · have h' : j < (a ++ b).size := by simp [ByteArray.size_append]; omega
    rw [if_pos h, getElem!_pos _ j h', getElem!_pos _ j h, ByteArray.getElem_append_left h]
  · rw [if_neg h]
    by_cases h2 : j < (a ++ b).size
    · have h3 : j - a.size < b.size := by simp [ByteArray.size_append] at h2; omega
      rw [getElem!_pos _ j h2, getElem!_pos b (j - a.size) h3, ByteArray.getElem_append_right (by omega)]
    · have h3 : ¬ j - a.size < b.size := by simp [ByteArray.size_append] at h2; omega
      rw [getElem!_neg _ j h2, getElem!_neg b (j - a.size) h3]

theorem get_extract (a : ByteArray) (s e j : Nat) (h : s + j < e) (he : e ≤ a.size) :
    (a.extract s e)[j]! = a[s + j]! := by
  have h1 : j < (a.extract s e).size := by simp [ByteArray.size_extract]; omega
  rw [getElem!_pos _ j h1, getElem!_pos a (s + j) (by omega : s + j < a.size), ByteArray.getElem_extract]

/-! ## byte reversal of words -/


@[simp] theorem size_rev32At (b : ByteArray) (o : Nat) : (rev32At b o).size = b.size := by simp [rev32At]

theorem get_rev32At (b : ByteArray) (o j : Nat) (h : o + 3 < b.size) :
    (rev32At b o)[j]! = if o ≤ j ∧ j < o + 4 then b[2 * o + 3 - j]! else b[j]! := by
  simp only [rev32At, get_set!, size_set!]
  have h0 : o < b.size := by omega
  have h1 : o + 1 < b.size := by omega
  have h2 : o + 2 < b.size := by omega
  have hc : j < o ∨ j = o ∨ j = o + 1 ∨ j = o + 2 ∨ j = o + 3 ∨ o + 4 ≤ j := by omega
  rcases hc with hc | hc | hc | hc | hc | hc
  · simp [show ¬ (o ≤ j ∧ j < o + 4) by omega, show ¬ j = o by omega, show ¬ j = o + 1 by omega,
      show ¬ j = o + 2 by omega, show ¬ j = o + 3 by omega]
  · subst hc; simp [h, h0, show 2 * j + 3 - j = j + 3 by omega]
  · subst hc; simp [h, h0, h1, h2, show 2 * o + 3 - (o + 1) = o + 2 by omega]
  · subst hc; simp [h, h0, h1, h2, show 2 * o + 3 - (o + 2) = o + 1 by omega]
  · subst hc; simp [h, h0, h1, h2, show 2 * o + 3 - (o + 3) = o by omega]
  · simp [show ¬ (o ≤ j ∧ j < o + 4) by omega, show ¬ j = o by omega, show ¬ j = o + 1 by omega,
      show ¬ j = o + 2 by omega, show ¬ j = o + 3 by omega]



@[simp] theorem size_revWords32 (b : ByteArray) (n : Nat) : (revWords32 b n).size = b.size := by
  induction n with
  | zero => rfl
  | succ n ih => simp [revWords32, ih]

theorem get_revWords32 (b : ByteArray) (n j : Nat) (h : 4 * n ≤ b.size) :
    (revWords32 b n)[j]! = if j < 4 * n then b[j / 4 * 4 + (3 - j % 4)]! else b[j]! := by
  induction n generalizing j with
  | zero => simp [revWords32]
  | succ n ih =>
    have ih := fun j => ih j (by omega)
    simp only [revWords32]
    rw [get_rev32At _ _ _ (by simp; omega)]
    by_cases hj : 4 * n ≤ j ∧ j < 4 * n + 4
    · rw [if_pos hj, ih, if_neg (by omega), if_pos (by omega)]
      congr 1; omega
    · rw [if_neg hj, ih]
      by_cases h2 : j < 4 * n
      · rw [if_pos h2, if_pos (by omega)]
      · rw [if_neg h2, if_neg (by omega)]

theorem getLE32_revWords32 (b : ByteArray) (n i : Nat) (h : 4 * n ≤ b.size) :
    getLE32 (revWords32 b n) i = if i < n then getBE32 b i else getLE32 b i := by
  simp only [getLE32, getBE32, get_revWords32 _ _ _ h]
  by_cases hi : i < n
  · rw [if_pos hi, if_pos (by omega), if_pos (by omega), if_pos (by omega), if_pos (by omega)]
    rw [show 4 * i / 4 * 4 + (3 - 4 * i % 4) = 4 * i + 3 by omega,
      show (4 * i + 1) / 4 * 4 + (3 - (4 * i + 1) % 4) = 4 * i + 2 by omega,
      show (4 * i + 2) / 4 * 4 + (3 - (4 * i + 2) % 4) = 4 * i + 1 by omega,
      show (4 * i + 3) / 4 * 4 + (3 - (4 * i + 3) % 4) = 4 * i by omega]
  · rw [if_neg hi, if_neg (by omega), if_neg (by omega), if_neg (by omega), if_neg (by omega)]



@[simp] theorem size_rev64At (b : ByteArray) (o : Nat) : (rev64At b o).size = b.size := by simp [rev64At]

theorem get_rev64At (b : ByteArray) (o j : Nat) (h : o + 7 < b.size) :
    (rev64At b o)[j]! = if o ≤ j ∧ j < o + 8 then b[2 * o + 7 - j]! else b[j]! := by
  simp only [rev64At, get_set!, size_set!]
  have h0 : o < b.size := by omega
  have h1 : o + 1 < b.size := by omega
  have h2 : o + 2 < b.size := by omega
  have h3 : o + 3 < b.size := by omega
  have h4 : o + 4 < b.size := by omega
  have h5 : o + 5 < b.size := by omega
  have h6 : o + 6 < b.size := by omega
  have hc : j < o ∨ j = o ∨ j = o + 1 ∨ j = o + 2 ∨ j = o + 3 ∨ j = o + 4 ∨ j = o + 5 ∨ j = o + 6 ∨ j = o + 7 ∨ o + 8 ≤ j := by omega
  rcases hc with hc | hc | hc | hc | hc | hc | hc | hc | hc | hc
  · simp [show ¬ (o ≤ j ∧ j < o + 8) by omega, show ¬ j = o by omega, show ¬ j = o + 1 by omega, show ¬ j = o + 2 by omega, show ¬ j = o + 3 by omega, show ¬ j = o + 4 by omega, show ¬ j = o + 5 by omega, show ¬ j = o + 6 by omega, show ¬ j = o + 7 by omega]
  · subst hc; simp [h, h0, h1, h2, h3, h4, h5, h6, show 2 * j + 7 - j = j + 7 by omega]
  · subst hc; simp [h, h0, h1, h2, h3, h4, h5, h6, show 2 * o + 7 - (o + 1) = o + 6 by omega]
  · subst hc; simp [h, h0, h1, h2, h3, h4, h5, h6, show 2 * o + 7 - (o + 2) = o + 5 by omega]
  · subst hc; simp [h, h0, h1, h2, h3, h4, h5, h6, show 2 * o + 7 - (o + 3) = o + 4 by omega]
  · subst hc; simp [h, h0, h1, h2, h3, h4, h5, h6, show 2 * o + 7 - (o + 4) = o + 3 by omega]
  · subst hc; simp [h, h0, h1, h2, h3, h4, h5, h6, show 2 * o + 7 - (o + 5) = o + 2 by omega]
  · subst hc; simp [h, h0, h1, h2, h3, h4, h5, h6, show 2 * o + 7 - (o + 6) = o + 1 by omega]
  · subst hc; simp [h, h0, h1, h2, h3, h4, h5, h6, show 2 * o + 7 - (o + 7) = o by omega]
  · simp [show ¬ (o ≤ j ∧ j < o + 8) by omega, show ¬ j = o by omega, show ¬ j = o + 1 by omega, show ¬ j = o + 2 by omega, show ¬ j = o + 3 by omega, show ¬ j = o + 4 by omega, show ¬ j = o + 5 by omega, show ¬ j = o + 6 by omega, show ¬ j = o + 7 by omega]

@[simp] theorem size_revWords64 (b : ByteArray) (n : Nat) : (revWords64 b n).size = b.size := by
  induction n with
  | zero => rfl
  | succ n ih => simp [revWords64, ih]

theorem get_revWords64 (b : ByteArray) (n j : Nat) (h : 8 * n ≤ b.size) :
    (revWords64 b n)[j]! = if j < 8 * n then b[j / 8 * 8 + (7 - j % 8)]! else b[j]! := by
  induction n generalizing j with
  | zero => simp [revWords64]
  | succ n ih =>
    have ih := fun j => ih j (by omega)
    simp only [revWords64]
    rw [get_rev64At _ _ _ (by simp; omega)]
    by_cases hj : 8 * n ≤ j ∧ j < 8 * n + 8
    · rw [if_pos hj, ih, if_neg (by omega), if_pos (by omega)]
      congr 1; omega
    · rw [if_neg hj, ih]
      by_cases h2 : j < 8 * n
      · rw [if_pos h2, if_pos (by omega)]
      · rw [if_neg h2, if_neg (by omega)]

theorem getLE64_revWords64 (b : ByteArray) (n i : Nat) (h : 8 * n ≤ b.size) :
    getLE64 (revWords64 b n) i = if i < n then getBE64 b i else getLE64 b i := by
  simp only [getLE64, getBE64, get_revWords64 _ _ _ h]
  by_cases hi : i < n
  · rw [if_pos hi, if_pos (by omega), if_pos (by omega), if_pos (by omega), if_pos (by omega),
      if_pos (by omega), if_pos (by omega), if_pos (by omega), if_pos (by omega)]
    rw [show 8 * i / 8 * 8 + (7 - 8 * i % 8) = 8 * i + 7 by omega,
      show (8 * i + 1) / 8 * 8 + (7 - (8 * i + 1) % 8) = 8 * i + 6 by omega,
      show (8 * i + 2) / 8 * 8 + (7 - (8 * i + 2) % 8) = 8 * i + 5 by omega,
      show (8 * i + 3) / 8 * 8 + (7 - (8 * i + 3) % 8) = 8 * i + 4 by omega,
      show (8 * i + 4) / 8 * 8 + (7 - (8 * i + 4) % 8) = 8 * i + 3 by omega,
      show (8 * i + 5) / 8 * 8 + (7 - (8 * i + 5) % 8) = 8 * i + 2 by omega,
      show (8 * i + 6) / 8 * 8 + (7 - (8 * i + 6) % 8) = 8 * i + 1 by omega,
      show (8 * i + 7) / 8 * 8 + (7 - (8 * i + 7) % 8) = 8 * i by omega]
  · rw [if_neg hi, if_neg (by omega), if_neg (by omega), if_neg (by omega), if_neg (by omega),
      if_neg (by omega), if_neg (by omega), if_neg (by omega), if_neg (by omega)]


/-! ## words from bytes and back -/


theorem le32_bytes (v : UInt32) :
    le32 v.toUInt8 (v / 0x100).toUInt8 (v / 0x10000).toUInt8 (v / 0x1000000).toUInt8 = v := by
  apply UInt32.toNat_inj.mp
  simp only [le32, UInt32.toNat_add, UInt32.toNat_mul, UInt8.toNat_toUInt32, UInt32.toNat_toUInt8, UInt32.toNat_div,
    UInt32.toNat_ofNat, Nat.reducePow, Nat.reduceMod]
  have := v.toNat_lt
  omega

theorem leBytes32_le32 (a b c d : UInt8) : leBytes32 (le32 a b c d) = [a, b, c, d] := by
  have ha := a.toNat_lt; have hb := b.toNat_lt; have hc := c.toNat_lt; have hd := d.toNat_lt
  simp only [leBytes32, List.cons.injEq, and_true]
  refine ⟨?_, ?_, ?_, ?_⟩ <;> apply UInt8.toNat_inj.mp <;>
    simp only [le32, UInt32.toNat_add, UInt32.toNat_mul, UInt8.toNat_toUInt32, UInt32.toNat_toUInt8, UInt32.toNat_div,
      UInt32.toNat_ofNat, Nat.reducePow, Nat.reduceMod] <;> omega

theorem le64_bytes (v : UInt64) :
    le64 v.toUInt8 (v / 0x100).toUInt8 (v / 0x10000).toUInt8 (v / 0x1000000).toUInt8 (v / 0x100000000).toUInt8
      (v / 0x10000000000).toUInt8 (v / 0x1000000000000).toUInt8 (v / 0x100000000000000).toUInt8 = v := by
  apply UInt64.toNat_inj.mp
  simp only [le64, UInt64.toNat_add, UInt64.toNat_mul, UInt8.toNat_toUInt64, UInt64.toNat_toUInt8, UInt64.toNat_div,
    UInt64.toNat_ofNat, Nat.reducePow, Nat.reduceMod]
  have := v.toNat_lt
  omega

theorem toNat_le64 (a b c d e f g h : UInt8) : (le64 a b c d e f g h).toNat =
    a.toNat + b.toNat * 0x100 + c.toNat * 0x10000 + d.toNat * 0x1000000 + e.toNat * 0x100000000
    + f.toNat * 0x10000000000 + g.toNat * 0x1000000000000 + h.toNat * 0x100000000000000 := by
  have ha := a.toNat_lt; have hb := b.toNat_lt; have hc := c.toNat_lt; have hd := d.toNat_lt
  have he := e.toNat_lt; have hf := f.toNat_lt; have hg := g.toNat_lt; have hh := h.toNat_lt
  have s1 : (a.toUInt64 + b.toUInt64 * 0x100).toNat = a.toNat + b.toNat * 0x100 := by
    simp only [UInt64.toNat_add, UInt64.toNat_mul, UInt8.toNat_toUInt64, UInt64.toNat_ofNat, Nat.reducePow, Nat.reduceMod]; omega
  have s2 : (a.toUInt64 + b.toUInt64 * 0x100 + c.toUInt64 * 0x10000).toNat = a.toNat + b.toNat * 0x100 + c.toNat * 0x10000 := by
    rw [UInt64.toNat_add, s1]
    simp only [UInt64.toNat_mul, UInt8.toNat_toUInt64, UInt64.toNat_ofNat, Nat.reducePow, Nat.reduceMod]; omega
  have s3 : (a.toUInt64 + b.toUInt64 * 0x100 + c.toUInt64 * 0x10000 + d.toUInt64 * 0x1000000).toNat
      = a.toNat + b.toNat * 0x100 + c.toNat * 0x10000 + d.toNat * 0x1000000 := by
    rw [UInt64.toNat_add, s2]
    simp only [UInt64.toNat_mul, UInt8.toNat_toUInt64, UInt64.toNat_ofNat, Nat.reducePow, Nat.reduceMod]; omega
  have s4 : (a.toUInt64 + b.toUInt64 * 0x100 + c.toUInt64 * 0x10000 + d.toUInt64 * 0x1000000 + e.toUInt64 * 0x100000000).toNat
      = a.toNat + b.toNat * 0x100 + c.toNat * 0x10000 + d.toNat * 0x1000000 + e.toNat * 0x100000000 := by
    rw [UInt64.toNat_add, s3]
    simp only [UInt64.toNat_mul, UInt8.toNat_toUInt64, UInt64.toNat_ofNat, Nat.reducePow, Nat.reduceMod]; omega
  have s5 : (a.toUInt64 + b.toUInt64 * 0x100 + c.toUInt64 * 0x10000 + d.toUInt64 * 0x1000000 + e.toUInt64 * 0x100000000
      + f.toUInt64 * 0x10000000000).toNat
      = a.toNat + b.toNat * 0x100 + c.toNat * 0x10000 + d.toNat * 0x1000000 + e.toNat * 0x100000000
        + f.toNat * 0x10000000000 := by
    rw [UInt64.toNat_add, s4]
    simp only [UInt64.toNat_mul, UInt8.toNat_toUInt64, UInt64.toNat_ofNat, Nat.reducePow, Nat.reduceMod]; omega
  have s6 : (a.toUInt64 + b.toUInt64 * 0x100 + c.toUInt64 * 0x10000 + d.toUInt64 * 0x1000000 + e.toUInt64 * 0x100000000
      + f.toUInt64 * 0x10000000000 + g.toUInt64 * 0x1000000000000).toNat
      = a.toNat + b.toNat * 0x100 + c.toNat * 0x10000 + d.toNat * 0x1000000 + e.toNat * 0x100000000
        + f.toNat * 0x10000000000 + g.toNat * 0x1000000000000 := by
    rw [UInt64.toNat_add, s5]
    simp only [UInt64.toNat_mul, UInt8.toNat_toUInt64, UInt64.toNat_ofNat, Nat.reducePow, Nat.reduceMod]; omega
  unfold le64
  rw [UInt64.toNat_add, s6]
  simp only [UInt64.toNat_mul, UInt8.toNat_toUInt64, UInt64.toNat_ofNat, Nat.reducePow, Nat.reduceMod]; omega

theorem leBytes64_le64 (a b c d e f g h : UInt8) : leBytes64 (le64 a b c d e f g h) = [a, b, c, d, e, f, g, h] := by
  have ha := a.toNat_lt; have hb := b.toNat_lt; have hc := c.toNat_lt; have hd := d.toNat_lt
  have he := e.toNat_lt; have hf := f.toNat_lt; have hg := g.toNat_lt; have hh := h.toNat_lt
  have hv := toNat_le64 a b c d e f g h
  simp only [leBytes64, List.cons.injEq, and_true]
  refine ⟨?_, ?_, ?_, ?_, ?_, ?_, ?_, ?_⟩ <;> apply UInt8.toNat_inj.mp <;>
    simp only [UInt64.toNat_toUInt8, UInt64.toNat_div, UInt64.toNat_ofNat, Nat.reducePow, Nat.reduceMod, hv] <;> omega



@[simp] theorem size_setLE32 (b : ByteArray) (i : Nat) (v : UInt32) : (setLE32 b i v).size = b.size := by
  simp [setLE32]

theorem get_setLE32_of_ne (b : ByteArray) (i j : Nat) (v : UInt32) (hj : j < 4 * i ∨ 4 * i + 4 ≤ j) :
    (setLE32 b i v)[j]! = b[j]! := by
  simp only [setLE32, get_set!, size_set!]
  simp [show ¬ j = 4 * i by omega, show ¬ j = 4 * i + 1 by omega, show ¬ j = 4 * i + 2 by omega,
    show ¬ j = 4 * i + 3 by omega]

theorem getLE32_setLE32_self (b : ByteArray) (i : Nat) (v : UInt32) (h : 4 * i + 3 < b.size) :
    getLE32 (setLE32 b i v) i = v := by
  have h0 : 4 * i < b.size := by omega
  have h1 : 4 * i + 1 < b.size := by omega
  have h2 : 4 * i + 2 < b.size := by omega
  simp only [getLE32, setLE32, get_set!, size_set!]
  simp [h, h0, h1, h2]
  exact le32_bytes v

theorem getLE32_setLE32_of_ne (b : ByteArray) (i j : Nat) (v : UInt32) (hij : j ≠ i) :
    getLE32 (setLE32 b i v) j = getLE32 b j := by
  simp only [getLE32]
  rw [get_setLE32_of_ne _ _ _ _ (by omega), get_setLE32_of_ne _ _ _ _ (by omega),
    get_setLE32_of_ne _ _ _ _ (by omega), get_setLE32_of_ne _ _ _ _ (by omega)]

theorem getBE32_setLE32_of_ne (b : ByteArray) (i j : Nat) (v : UInt32) (hij : j ≠ i) :
    getBE32 (setLE32 b i v) j = getBE32 b j := by
  simp only [getBE32]
  rw [get_setLE32_of_ne _ _ _ _ (by omega), get_setLE32_of_ne _ _ _ _ (by omega),
    get_setLE32_of_ne _ _ _ _ (by omega), get_setLE32_of_ne _ _ _ _ (by omega)]

@[simp] theorem size_setLE64 (b : ByteArray) (i : Nat) (v : UInt64) : (setLE64 b i v).size = b.size := by
  simp [setLE64]

theorem get_setLE64_of_ne (b : ByteArray) (i j : Nat) (v : UInt64) (hj : j < 8 * i ∨ 8 * i + 8 ≤ j) :
    (setLE64 b i v)[j]! = b[j]! := by
  simp only [setLE64, get_set!, size_set!]
  simp [show ¬ j = 8 * i by omega, show ¬ j = 8 * i + 1 by omega, show ¬ j = 8 * i + 2 by omega,
    show ¬ j = 8 * i + 3 by omega, show ¬ j = 8 * i + 4 by omega, show ¬ j = 8 * i + 5 by omega,
    show ¬ j = 8 * i + 6 by omega, show ¬ j = 8 * i + 7 by omega]

theorem getLE64_setLE64_self (b : ByteArray) (i : Nat) (v : UInt64) (h : 8 * i + 7 < b.size) :
    getLE64 (setLE64 b i v) i = v := by
  have h0 : 8 * i < b.size := by omega
  have h1 : 8 * i + 1 < b.size := by omega
  have h2 : 8 * i + 2 < b.size := by omega
  have h3 : 8 * i + 3 < b.size := by omega
  have h4 : 8 * i + 4 < b.size := by omega
  have h5 : 8 * i + 5 < b.size := by omega
  have h6 : 8 * i + 6 < b.size := by omega
  simp only [getLE64, setLE64, get_set!, size_set!]
  simp [h, h0, h1, h2, h3, h4, h5, h6]
  exact le64_bytes v

theorem getLE64_setLE64_of_ne (b : ByteArray) (i j : Nat) (v : UInt64) (hij : j ≠ i) :
    getLE64 (setLE64 b i v) j = getLE64 b j := by
  simp only [getLE64]
  rw [get_setLE64_of_ne _ _ _ _ (by omega), get_setLE64_of_ne _ _ _ _ (by omega),
    get_setLE64_of_ne _ _ _ _ (by omega), get_setLE64_of_ne _ _ _ _ (by omega),
    get_setLE64_of_ne _ _ _ _ (by omega), get_setLE64_of_ne _ _ _ _ (by omega),
    get_setLE64_of_ne _ _ _ _ (by omega), get_setLE64_of_ne _ _ _ _ (by omega)]

theorem getBE64_setLE64_of_ne (b : ByteArray) (i j : Nat) (v : UInt64) (hij : j ≠ i) :
    getBE64 (setLE64 b i v) j = getBE64 b j := by
  simp only [getBE64]
  rw [get_setLE64_of_ne _ _ _ _ (by omega), get_setLE64_of_ne _ _ _ _ (by omega),
    get_setLE64_of_ne _ _ _ _ (by omega), get_setLE64_of_ne _ _ _ _ (by omega),
    get_setLE64_of_ne _ _ _ _ (by omega), get_setLE64_of_ne _ _ _ _ (by omega),
    get_setLE64_of_ne _ _ _ _ (by omega), get_setLE64_of_ne _ _ _ _ (by omega)]


/-! ## byte-array algebra: zero blocks, `Src.read`, `memcpy` -/


@[simp] theorem size_zeroBytes (n : Nat) : (zeroBytes n).size = n := by
  simp [zeroBytes, ByteArray.size]

theorem zeroBytes_extract (n k : Nat) (h : k ≤ n) : (zeroBytes n).extract 0 k = zeroBytes k := by
  apply ByteArray.ext
  simp [zeroBytes, ByteArray.data_extract]
  omega

theorem zeroBytes_add (a b : Nat) : zeroBytes (a + b) = zeroBytes a ++ zeroBytes b := by
  apply ByteArray.ext
  simp [zeroBytes, ByteArray.data_append]

theorem zeroBytes_zero : zeroBytes 0 = ByteArray.empty := by
  apply ByteArray.ext; simp [zeroBytes]

@[simp] theorem Src.size_toBytes (s : Src) : s.toBytes.size = s.size := by
  simp [Src.toBytes, Src.size, ByteArray.size_append]

theorem extract_all (b : ByteArray) (e : Nat) (h : b.size ≤ e) : b.extract 0 e = b := by
  apply ByteArray.ext
  simp [ByteArray.data_extract]
  omega

theorem extract_empty' (b : ByteArray) (s e : Nat) (h : e ≤ s ∨ b.size ≤ s) : b.extract s e = ByteArray.empty := by
  rw [ByteArray.extract_eq_empty_iff]; omega

theorem Src.read_eq (s : Src) (off n : Nat) (h : off + n ≤ s.size) (hn : n ≤ 128) :
    s.read off n = s.toBytes.extract off (off + n) := by
  unfold Src.read Src.toBytes
  rw [ByteArray.extract_append]
  unfold Src.size at h
  split
  · rename_i h1
    rw [extract_empty' (zeroBytes s.zeros) _ _ (Or.inl (by omega))]
    simp
  · rename_i h1
    congr 1
    unfold zeros128
    rw [zeroBytes_extract _ _ (by omega)]
    by_cases h2 : off ≤ s.bytes.size
    · rw [show off - s.bytes.size = 0 by omega, zeroBytes_extract _ _ (by omega)]
      congr 1; omega
    · apply ByteArray.ext
      simp [zeroBytes, ByteArray.data_extract]
      omega

theorem memcpy_eq (dst : ByteArray) (pos : Nat) (blk : ByteArray) :
    memcpy dst pos blk = dst.extract 0 pos ++ blk ++ dst.extract (pos + blk.size) dst.size := by
  unfold memcpy
  rw [ByteArray.copySlice_eq_append]
  simp [ByteArray.extract_zero_size]

theorem size_memcpy (dst : ByteArray) (pos : Nat) (blk : ByteArray) (h : pos + blk.size ≤ dst.size) :
    (memcpy dst pos blk).size = dst.size := by
  rw [memcpy_eq]; simp [ByteArray.size_append, ByteArray.size_extract]; omega


end PV.Hash

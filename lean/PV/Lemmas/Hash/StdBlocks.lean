import PV.Lemmas.Hash.StdConst
import PV.Model.Hash.Compress
/-!
# The model's block functions are the standards' compression functions (C11)

`md5Block = Std.md5Compress` (all inputs), `sha1Block = Std.sha1Compress`,
`sha256Block = Std.sha256Compress`, `sha512Block = Std.sha512Compress` (all hash words, all
16-word blocks).  The model side is the transliteration of the C macros (other boolean forms of
Ch / Maj / F / G, variable *values* rotated through the argument positions, a 16-word ring for the
SHA-1 schedule, schedule words appended while the rounds run for SHA-256, 80 precomputed words for
SHA-512, constants from the C tables); the standard side is `PV.Spec.HashStd`.
-/
namespace PV.Hash
open PV.Generated.HashMD

/-- a boolean identity on 32-bit words, bit by bit -/
macro "bitwise32" : tactic => `(tactic| (
  apply UInt32.eq_of_toBitVec_eq
  apply BitVec.eq_of_getLsbD_eq
  intro i hi
  simp only [UInt32.toBitVec_xor, UInt32.toBitVec_and, UInt32.toBitVec_or, UInt32.toBitVec_not,
    BitVec.getLsbD_xor, BitVec.getLsbD_and, BitVec.getLsbD_or, BitVec.getLsbD_not, hi, decide_true, Bool.true_and]
  generalize BitVec.getLsbD _ i = p
  try generalize BitVec.getLsbD _ i = q
  try generalize BitVec.getLsbD _ i = r
  revert p; try revert q; try revert r
  decide))

theorem md5F_std (x y z : UInt32) : z ^^^ (x &&& (y ^^^ z)) = Std.F x y z := by unfold Std.F; bitwise32
theorem md5G_std (x y z : UInt32) : y ^^^ (z &&& (x ^^^ y)) = Std.G x y z := by unfold Std.G; bitwise32

theorem md5Steps_std (x : Array UInt32) (n i : Nat) (a b c d : UInt32) (h : i + n ≤ 64) :
    md5Steps x n i a b c d =
      (let r := (List.range' i n).foldl (Std.md5Op x) (a, b, c, d); #[r.1, r.2.1, r.2.2.1, r.2.2.2]) := by
  induction n generalizing i a b c d with
  | zero => rfl
  | succ n ih =>
    rw [List.range'_succ, List.foldl_cons, md5Steps, ih _ _ _ _ _ (by omega)]
    have hi : i < 64 := by omega
    have e1 := md5X_std i hi
    have e2 := md5S_std i hi
    have e3 : md5K[i]! = Std.md5T[i]! := by rw [md5K_std]
    have hq : i / 16 < 4 := by omega
    have hstep : (d, rotl32 (a + (match i / 16 with
          | 0 => d ^^^ (b &&& (c ^^^ d)) | 1 => c ^^^ (d &&& (b ^^^ c)) | 2 => b ^^^ c ^^^ d | _ => c ^^^ (b ||| ~~~d))
          + x[md5X[i]!]! + md5K[i]!) md5S[i]! + b, b, c) = Std.md5Op x (a, b, c, d) i := by
      simp only [Std.md5Op, e1, e2, e3]
      generalize i / 16 = q at hq
      match q, hq with
      | 0, _ => simp only [md5F_std]; rw [UInt32.add_comm]; rfl
      | 1, _ => simp only [md5G_std]; rw [UInt32.add_comm]; rfl
      | 2, _ => rw [UInt32.add_comm]; rfl
      | 3, _ => rw [UInt32.add_comm]; rfl
    rw [← hstep]
    rfl

theorem md5Block_std (h x : Array UInt32) : md5Block h x = Std.md5Compress h x := by
  unfold md5Block Std.md5Compress
  rw [md5Steps_std x 64 0 _ _ _ _ (by omega), List.range_eq_range']
  simp


/-! ## SHA-1 -/


theorem aget_set! {α : Type} [Inhabited α] (w : Array α) (j k : Nat) (v : α) :
    (w.set! j v)[k]! = if j = k ∧ j < w.size then v else w[k]! := by
  show (w.setIfInBounds j v)[k]! = _
  by_cases hk : k < w.size
  · rw [getElem!_pos _ k (by simpa using hk), Array.getElem_setIfInBounds hk, getElem!_pos _ k hk]
    by_cases hjk : j = k
    · subst hjk; simp [hk]
    · simp [hjk]
  · rw [getElem!_neg _ k (by simpa using hk), getElem!_neg _ k hk]
    have : ¬ (j = k ∧ j < w.size) := by rintro ⟨rfl, h⟩; exact hk h
    simp [this]

theorem sha1Ch_std (x y z : UInt32) : (x &&& y) ||| (~~~x &&& z) = Std.Ch x y z := by unfold Std.Ch; bitwise32
theorem sha1Maj_std (x y z : UInt32) : (x &&& y) ||| (x &&& z) ||| (y &&& z) = Std.Maj x y z := by unfold Std.Maj; bitwise32

/-- the 16-word ring holds the last sixteen schedule words -/
def Ring (m w : Array UInt32) (i : Nat) : Prop :=
  w.size = 16 ∧ ∀ t, t < max i 16 → max i 16 ≤ t + 16 → w[t % 16]! = Std.sha1W m t

theorem sha1W_lt (m : Array UInt32) (t : Nat) (h : t < 16) : Std.sha1W m t = m[t]! := by
  rw [Std.sha1W, dif_pos h]

theorem sha1W_ge (m : Array UInt32) (t : Nat) (h : 16 ≤ t) :
    Std.sha1W m t = Std.rotl32 (Std.sha1W m (t - 3) ^^^ Std.sha1W m (t - 8) ^^^ Std.sha1W m (t - 14) ^^^ Std.sha1W m (t - 16)) 1 := by
  rw [Std.sha1W, dif_neg (by omega)]

theorem sha1Steps_std (x : Array UInt32) (n i : Nat) (w : Array UInt32) (a b c d e : UInt32) (h : i + n ≤ 80)
    (hR : Ring x w i) :
    sha1Steps n i w a b c d e =
      (let r := (List.range' i n).foldl (Std.sha1Round x) (a, b, c, d, e); #[r.1, r.2.1, r.2.2.1, r.2.2.2.1, r.2.2.2.2]) := by
  induction n generalizing i w a b c d e with
  | zero => rfl
  | succ n ih =>
    obtain ⟨hsz, hw⟩ := hR
    have hi : i < 80 := by omega
    -- the schedule word of this step
    have hv : (if i < 16 then w[i]! else
        rotl32 (w[(i - sha1Taps[0]!) % 16]! ^^^ w[(i - sha1Taps[1]!) % 16]! ^^^ w[(i - sha1Taps[2]!) % 16]!
          ^^^ w[(i - sha1Taps[3]!) % 16]!) sha1RotW) = Std.sha1W x i := by
      split
      · rename_i h16
        have := hw i (by omega) (by omega)
        rwa [Nat.mod_eq_of_lt h16] at this
      · rename_i h16
        have t0 : sha1Taps[0]! = 3 := rfl
        have t1 : sha1Taps[1]! = 8 := rfl
        have t2 : sha1Taps[2]! = 14 := rfl
        have t3 : sha1Taps[3]! = 16 := rfl
        rw [t0, t1, t2, t3, hw (i - 3) (by omega) (by omega), hw (i - 8) (by omega) (by omega),
          hw (i - 14) (by omega) (by omega), hw (i - 16) (by omega) (by omega), sha1W_ge x i (by omega)]
        rfl
    -- the ring after this step
    have hR' : Ring x (if i < 16 then w else w.set! (i % 16) (Std.sha1W x i)) (i + 1) := by
      split
      · rename_i h16
        refine ⟨hsz, fun t h1 h2 => hw t (by omega) (by omega)⟩
      · rename_i h16
        refine ⟨by simpa using hsz, fun t h1 h2 => ?_⟩
        rw [aget_set!, hsz]
        by_cases ht : t = i
        · subst ht; simp; omega
        · have : ¬ (i % 16 = t % 16 ∧ i % 16 < 16) := by omega
          rw [if_neg this]
          exact hw t (by omega) (by omega)
    rw [List.range'_succ, List.foldl_cons, sha1Steps]
    simp only [hv]
    rw [ih _ _ _ _ _ _ _ (by omega) hR']
    have hstep : (e + (rotl32 a sha1RotA + (match sha1F[i / 20]! with
          | 1 => (b &&& c) ||| (~~~b &&& d) | 2 => b ^^^ c ^^^ d | _ => (b &&& c) ||| (b &&& d) ||| (c &&& d))
          + sha1K[i / 20]! + Std.sha1W x i), a, rotl32 b sha1RotB, c, d) = Std.sha1Round x (a, b, c, d, e) i := by
      simp only [Std.sha1Round, sha1K_std i hi, sha1F_std, Std.sha1F]
      have hc : i < 20 ∨ (20 ≤ i ∧ i < 40) ∨ (40 ≤ i ∧ i < 60) ∨ 60 ≤ i := by omega
      congr 1
      · rcases hc with hc | hc | hc | hc
        · rw [show i / 20 = 0 by omega, if_pos hc]
          show e + (Std.rotl32 a 5 + ((b &&& c) ||| (~~~b &&& d)) + _ + _) = _
          rw [sha1Ch_std]; ac_rfl
        · rw [show i / 20 = 1 by omega, if_neg (by omega), if_pos (by omega)]
          show e + (Std.rotl32 a 5 + (b ^^^ c ^^^ d) + _ + _) = _
          unfold Std.Parity; ac_rfl
        · rw [show i / 20 = 2 by omega, if_neg (by omega), if_neg (by omega), if_pos (by omega)]
          show e + (Std.rotl32 a 5 + ((b &&& c) ||| (b &&& d) ||| (c &&& d)) + _ + _) = _
          rw [sha1Maj_std]; ac_rfl
        · rw [show i / 20 = 3 by omega, if_neg (by omega), if_neg (by omega), if_neg (by omega)]
          show e + (Std.rotl32 a 5 + (b ^^^ c ^^^ d) + _ + _) = _
          unfold Std.Parity; ac_rfl
    rw [← hstep]
    rfl

theorem sha1Block_std (h x : Array UInt32) (hx : x.size = 16) : sha1Block h x = Std.sha1Compress h x := by
  unfold sha1Block Std.sha1Compress
  rw [sha1Steps_std x 80 0 x _ _ _ _ _ (by omega) ⟨hx, fun t h1 h2 => by
    rw [Nat.mod_eq_of_lt (by omega), sha1W_lt x t (by omega)]⟩, List.range_eq_range']
  simp


/-! ## SHA-256 -/


macro "bitwise64" : tactic => `(tactic| (
  apply UInt64.eq_of_toBitVec_eq
  apply BitVec.eq_of_getLsbD_eq
  intro i hi
  simp only [UInt64.toBitVec_xor, UInt64.toBitVec_and, UInt64.toBitVec_or, UInt64.toBitVec_not,
    BitVec.getLsbD_xor, BitVec.getLsbD_and, BitVec.getLsbD_or, BitVec.getLsbD_not, hi, decide_true, Bool.true_and]
  generalize BitVec.getLsbD _ i = p
  try generalize BitVec.getLsbD _ i = q
  try generalize BitVec.getLsbD _ i = r
  revert p; try revert q; try revert r
  decide))

theorem aget_push {α : Type} [Inhabited α] (w : Array α) (v : α) (k : Nat) :
    (w.push v)[k]! = if k < w.size then w[k]! else if k = w.size then v else default := by
  by_cases h1 : k < w.size
  · rw [if_pos h1, getElem!_pos _ k (by simp; omega), getElem!_pos _ k h1, Array.getElem_push_lt h1]
  · rw [if_neg h1]
    by_cases h2 : k = w.size
    · subst h2; rw [if_pos rfl, getElem!_pos _ _ (by simp)]; simp
    · rw [if_neg h2, getElem!_neg _ k (by simp; omega)]

theorem sha2Ch_std (x y z : UInt32) : z ^^^ (x &&& (y ^^^ z)) = Std.Ch x y z := by unfold Std.Ch; bitwise32
theorem sha2Maj_std (x y z : UInt32) : (x &&& y) ||| (z &&& (x ||| y)) = Std.Maj x y z := by unfold Std.Maj; bitwise32
theorem sha2Ch64_std (x y z : UInt64) : z ^^^ (x &&& (y ^^^ z)) = Std.Ch64 x y z := by unfold Std.Ch64; bitwise64
theorem sha2Maj64_std (x y z : UInt64) : (x &&& y) ||| (z &&& (x ||| y)) = Std.Maj64 x y z := by unfold Std.Maj64; bitwise64

theorem sha256S0_std (x : UInt32) : sha256S0 x = Std.smallSigma0 x := rfl
theorem sha256S1_std (x : UInt32) : sha256S1 x = Std.smallSigma1 x := rfl
theorem sha256S2_std (x : UInt32) : sha256S2 x = Std.bigSigma0 x := rfl
theorem sha256S3_std (x : UInt32) : sha256S3 x = Std.bigSigma1 x := rfl
theorem sha512S0_std (x : UInt64) : sha512S0 x = Std.smallSigma0_64 x := rfl
theorem sha512S1_std (x : UInt64) : sha512S1 x = Std.smallSigma1_64 x := rfl
theorem sha512S2_std (x : UInt64) : sha512S2 x = Std.bigSigma0_64 x := rfl
theorem sha512S3_std (x : UInt64) : sha512S3 x = Std.bigSigma1_64 x := rfl

theorem sha256W_lt (m : Array UInt32) (t : Nat) (h : t < 16) : Std.sha256W m t = m[t]! := by
  rw [Std.sha256W, dif_pos h]
theorem sha256W_ge (m : Array UInt32) (t : Nat) (h : 16 ≤ t) :
    Std.sha256W m t = Std.smallSigma1 (Std.sha256W m (t - 2)) + Std.sha256W m (t - 7)
      + Std.smallSigma0 (Std.sha256W m (t - 15)) + Std.sha256W m (t - 16) := by
  rw [Std.sha256W, dif_neg (by omega)]

/-- `w` holds the schedule words `W_0 … W_{max i 16 - 1}` -/
def Sched (m w : Array UInt32) (i : Nat) : Prop :=
  w.size = max i 16 ∧ ∀ t, t < max i 16 → w[t]! = Std.sha256W m t

theorem sha256Steps_std (x : Array UInt32) (n i : Nat) (w : Array UInt32) (a b c d e f g h : UInt32)
    (hn : i + n ≤ 64) (hS : Sched x w i) :
    sha256Steps n i w a b c d e f g h =
      (let r := (List.range' i n).foldl (Std.sha256Round x) (a, b, c, d, e, f, g, h)
       #[r.1, r.2.1, r.2.2.1, r.2.2.2.1, r.2.2.2.2.1, r.2.2.2.2.2.1, r.2.2.2.2.2.2.1, r.2.2.2.2.2.2.2]) := by
  induction n generalizing i w a b c d e f g h with
  | zero => rfl
  | succ n ih =>
    obtain ⟨hsz, hw⟩ := hS
    have hi : i < 64 := by omega
    have hv : (if i < 16 then w[i]! else sha256S1 w[i - 2]! + w[i - 7]! + sha256S0 w[i - 15]! + w[i - 16]!)
        = Std.sha256W x i := by
      split
      · exact hw i (by omega)
      · rw [hw (i - 2) (by omega), hw (i - 7) (by omega), hw (i - 15) (by omega), hw (i - 16) (by omega),
          sha256W_ge x i (by omega), sha256S0_std, sha256S1_std]
    have hS' : Sched x (if i < 16 then w else w.push (Std.sha256W x i)) (i + 1) := by
      split
      · rename_i h16
        exact ⟨by omega, fun t ht => hw t (by omega)⟩
      · rename_i h16
        refine ⟨by simp; omega, fun t ht => ?_⟩
        rw [aget_push]
        by_cases h1 : t < w.size
        · rw [if_pos h1]; exact hw t (by omega)
        · rw [if_neg h1, if_pos (by omega)]; congr 1; omega
    rw [List.range'_succ, List.foldl_cons, sha256Steps]
    simp only [hv]
    rw [ih _ _ _ _ _ _ _ _ _ _ (by omega) hS']
    have hstep : (h + sha256S3 e + (g ^^^ (e &&& (f ^^^ g))) + sha256K[i]! + Std.sha256W x i +
          (sha256S2 a + ((a &&& b) ||| (c &&& (a ||| b)))), a, b, c,
          d + (h + sha256S3 e + (g ^^^ (e &&& (f ^^^ g))) + sha256K[i]! + Std.sha256W x i), e, f, g)
        = Std.sha256Round x (a, b, c, d, e, f, g, h) i := by
      simp only [Std.sha256Round, sha256K_std i hi, sha2Ch_std, sha2Maj_std, sha256S2_std, sha256S3_std]
    rw [← hstep]

theorem sha256Block_std (h x : Array UInt32) (hx : x.size = 16) : sha256Block h x = Std.sha256Compress h x := by
  unfold sha256Block Std.sha256Compress
  rw [sha256Steps_std x 64 0 x _ _ _ _ _ _ _ _ (by omega) ⟨by simp [hx], fun t ht => by
    rw [sha256W_lt x t (by omega)]⟩, List.range_eq_range']
  simp

/-! ## SHA-512 -/

theorem sha512W_lt (m : Array UInt64) (t : Nat) (h : t < 16) : Std.sha512W m t = m[t]! := by
  rw [Std.sha512W, dif_pos h]
theorem sha512W_ge (m : Array UInt64) (t : Nat) (h : 16 ≤ t) :
    Std.sha512W m t = Std.smallSigma1_64 (Std.sha512W m (t - 2)) + Std.sha512W m (t - 7)
      + Std.smallSigma0_64 (Std.sha512W m (t - 15)) + Std.sha512W m (t - 16) := by
  rw [Std.sha512W, dif_neg (by omega)]

/-- `w` holds exactly the schedule words `W_0 … W_{w.size - 1}` -/
def Sched64 (m w : Array UInt64) : Prop := 16 ≤ w.size ∧ ∀ t, t < w.size → w[t]! = Std.sha512W m t

theorem sha512Schedule_std (x : Array UInt64) (n : Nat) (w : Array UInt64) (hS : Sched64 x w) :
    Sched64 x (sha512Schedule n w) ∧ (sha512Schedule n w).size = w.size + n := by
  induction n generalizing w with
  | zero => exact ⟨hS, rfl⟩
  | succ n ih =>
    obtain ⟨hsz, hw⟩ := hS
    rw [sha512Schedule]
    have hv : sha512S1 w[w.size - 2]! + w[w.size - 7]! + sha512S0 w[w.size - 15]! + w[w.size - 16]!
        = Std.sha512W x w.size := by
      rw [hw _ (by omega), hw _ (by omega), hw _ (by omega), hw _ (by omega), sha512W_ge x _ hsz,
        sha512S0_std, sha512S1_std]
    simp only [hv]
    have hS' : Sched64 x (w.push (Std.sha512W x w.size)) := by
      refine ⟨by simp; omega, fun t ht => ?_⟩
      rw [aget_push]
      by_cases h1 : t < w.size
      · rw [if_pos h1]; exact hw t h1
      · have : t = w.size := by simp at ht; omega
        rw [if_neg h1, if_pos this, this]
    obtain ⟨r1, r2⟩ := ih _ hS'
    exact ⟨r1, by rw [r2]; simp; omega⟩

theorem sha512Steps_std (x w : Array UInt64) (n i : Nat) (a b c d e f g h : UInt64)
    (hn : i + n ≤ 80) (hw : ∀ t, t < 80 → w[t]! = Std.sha512W x t) :
    sha512Steps w n i a b c d e f g h =
      (let r := (List.range' i n).foldl (Std.sha512Round x) (a, b, c, d, e, f, g, h)
       #[r.1, r.2.1, r.2.2.1, r.2.2.2.1, r.2.2.2.2.1, r.2.2.2.2.2.1, r.2.2.2.2.2.2.1, r.2.2.2.2.2.2.2]) := by
  induction n generalizing i a b c d e f g h with
  | zero => rfl
  | succ n ih =>
    have hi : i < 80 := by omega
    rw [List.range'_succ, List.foldl_cons, sha512Steps, ih _ _ _ _ _ _ _ _ _ (by omega)]
    have hstep : (h + sha512S3 e + (g ^^^ (e &&& (f ^^^ g))) + sha512K[i]! + w[i]! +
          (sha512S2 a + ((a &&& b) ||| (c &&& (a ||| b)))), a, b, c,
          d + (h + sha512S3 e + (g ^^^ (e &&& (f ^^^ g))) + sha512K[i]! + w[i]!), e, f, g)
        = Std.sha512Round x (a, b, c, d, e, f, g, h) i := by
      simp only [Std.sha512Round, sha512K_std i hi, hw i hi, sha2Ch64_std, sha2Maj64_std, sha512S2_std, sha512S3_std]
    rw [← hstep]

theorem sha512Block_std (h x : Array UInt64) (hx : x.size = 16) : sha512Block h x = Std.sha512Compress h x := by
  unfold sha512Block Std.sha512Compress
  dsimp only
  obtain ⟨⟨_, r1⟩, r2⟩ := sha512Schedule_std x 64 x ⟨by omega, fun t ht => by rw [sha512W_lt x t (by omega)]⟩
  rw [sha512Steps_std x _ 80 0 _ _ _ _ _ _ _ _ (by omega) (fun t ht => r1 t (by omega)), List.range_eq_range']
  simp

end PV.Hash

import PV.Lemmas.Hash.Inst64
import PV.Model.Hash.Dispatch
set_option linter.unusedSimpArgs false
/-! The dispatcher (`PCryptoHash`) over every sequence of calls (C11, theorem `history`). -/
namespace PV.Hash
open Spec PV.Generated.HashMD

def lawsOf : (t : HashType) → Laws t.alg
  | .md5 => lawsMD5 | .sha1 => lawsSHA1 | .sha224 => lawsSHA224
  | .sha256 => lawsSHA256 | .sha384 => lawsSHA384 | .sha512 => lawsSHA512

theorem lawsOf_spec (t : HashType) : (lawsOf t).spec = Spec.ofType t := by cases t <;> rfl
theorem lawsOf_hashLen (t : HashType) : (lawsOf t).hashLen = t.hashLen := by cases t <;> rfl

/-- the largest message (bytes) whose bit length fits the length field -/
def HashType.maxBytes : HashType → Nat
  | .sha384 | .sha512 => 2 ^ 125
  | _ => 2 ^ 61

theorem lawsOf_M (t : HashType) : (lawsOf t).M = 8 * t.maxBytes := by cases t <;> decide

/-- the standard digest of `msg` for hash type `t` -/
def H (t : HashType) (msg : ByteArray) : List UInt8 := (Spec.ofType t).H msg

inductive Op where
  | update (d : Src) | reset | getString | getDigest (cap : Nat)

inductive Out where
  | done | str (s : String) | dig (r : Option (List UInt8))

def step {t : HashType} (h : PHash t) : Op → PHash t × Out
  | .update d => (h.update d, .done)
  | .reset => (h.reset, .done)
  | .getString => ((h.getString).1, .str (h.getString).2)
  | .getDigest cap => ((h.getDigest cap).1, .dig (h.getDigest cap).2)

def run {t : HashType} (h : PHash t) : List Op → List Out
  | [] => []
  | op :: ops => (step h op).2 :: run (step h op).1 ops

/-- what the user may rely on: the bytes that count, and whether the digest was read -/
structure View where
  msg : ByteArray
  read : Bool

def View.step (t : HashType) (v : View) : Op → View × Out
  | .update d => (if v.read then v else { v with msg := v.msg ++ d.toBytes }, .done)
  | .reset => ({ msg := ByteArray.empty, read := false }, .done)
  | .getString => ({ v with read := true }, .str (hexOf (H t v.msg)))
  | .getDigest cap =>
    if t.hashLen > cap then (v, .dig none) else ({ v with read := true }, .dig (some (H t v.msg)))

def View.run (t : HashType) (v : View) : List Op → List Out
  | [] => []
  | op :: ops => (v.step t op).2 :: View.run t (v.step t op).1 ops

/-- every `update` length is a `psize` and the counted bytes stay below `maxBytes` -/
def Admissible (t : HashType) (v : View) : List Op → Prop
  | [] => True
  | op :: ops => (∀ d, op = .update d → d.size < 2 ^ 64) ∧ (v.step t op).1.msg.size < t.maxBytes ∧
      Admissible t (v.step t op).1 ops

/-- model state vs. user view -/
def Rel {t : HashType} (h : PHash t) (v : View) : Prop :=
  h.closed = v.read ∧ (if v.read then h.digestBytes = H t v.msg else Inv (lawsOf t) h.ctx v.msg)

theorem toBytes_of_size_zero (d : Src) (h : d.size = 0) : d.toBytes = ByteArray.empty := by
  rw [← ByteArray.size_eq_zero_iff, Src.size_toBytes, h]

theorem close_spec {t : HashType} (h : PHash t) (v : View) (hR : Rel h v) (hb : v.msg.size < t.maxBytes) :
    h.close.closed = true ∧ h.close.digestBytes = H t v.msg := by
  obtain ⟨hc, hI⟩ := hR
  unfold PHash.close
  by_cases hcl : h.closed = true
  · rw [if_pos hcl]
    rw [← hc, hcl] at hI
    exact ⟨hcl, by simpa using hI⟩
  · rw [if_neg hcl]
    have hr : v.read = false := by rw [← hc]; simpa using hcl
    rw [hr] at hI
    simp only [Bool.false_eq_true, if_false] at hI
    refine ⟨rfl, ?_⟩
    have := finish_spec (lawsOf t) hI (by rw [lawsOf_M]; omega)
    rw [lawsOf_spec, lawsOf_hashLen] at this
    exact this

theorem step_rel {t : HashType} (h : PHash t) (v : View) (op : Op) (hR : Rel h v)
    (hd : ∀ d, op = .update d → d.size < 2 ^ 64) (hb : (v.step t op).1.msg.size < t.maxBytes) :
    (step h op).2 = (v.step t op).2 ∧ Rel (step h op).1 (v.step t op).1 := by
  cases op with
  | update d =>
    refine ⟨rfl, ?_⟩
    obtain ⟨hc, hI⟩ := hR
    simp only [step, View.step, PHash.update]
    by_cases hr : v.read = true
    · have hcl : h.closed = true := by rw [hc, hr]
      simp only [hr, hcl, if_true]
      split
      · exact ⟨hc, by simpa [hr] using hI⟩
      · exact ⟨hc, by simpa [hr] using hI⟩
    · have hr : v.read = false := by simpa using hr
      have hcl : h.closed = false := by rw [hc, hr]
      simp only [hr, Bool.false_eq_true, if_false] at hI ⊢
      split
      · rename_i hz
        rw [toBytes_of_size_zero d hz, ByteArray.append_empty]
        exact ⟨by simp [hcl, hr], by simpa [hr] using hI⟩
      · simp only [hcl, Bool.false_eq_true, if_false]
        exact ⟨by simp [hr], by simpa [hr] using inv_update (lawsOf t) hI d (hd d rfl)⟩
  | reset =>
    refine ⟨rfl, ?_⟩
    simp only [step, View.step, PHash.reset]
    exact ⟨rfl, by simpa using inv_init (lawsOf t)⟩
  | getString =>
    have hb' : v.msg.size < t.maxBytes := hb
    obtain ⟨c1, c2⟩ := close_spec h v hR hb'
    simp only [step, View.step, PHash.getString]
    refine ⟨by rw [c2], ⟨c1, by simpa using c2⟩⟩
  | getDigest cap =>
    simp only [step, View.step, PHash.getDigest]
    by_cases hcap : t.hashLen > cap
    · simp only [hcap, if_true]
      exact ⟨trivial, hR⟩
    · simp only [View.step, hcap, if_false] at hb ⊢
      have hb' : v.msg.size < t.maxBytes := hb
      obtain ⟨c1, c2⟩ := close_spec h v hR hb'
      refine ⟨by rw [c2], ⟨c1, by simpa using c2⟩⟩

theorem run_rel {t : HashType} (ops : List Op) (h : PHash t) (v : View) (hR : Rel h v) (ha : Admissible t v ops) :
    run h ops = View.run t v ops := by
  induction ops generalizing h v with
  | nil => rfl
  | cons op ops ih =>
    obtain ⟨a1, a2, a3⟩ := ha
    obtain ⟨s1, s2⟩ := step_rel h v op hR a1 a2
    simp only [run, View.run, s1]
    rw [ih _ _ s2 a3]

theorem rel_new (t : HashType) : Rel (PHash.new t) { msg := ByteArray.empty, read := false } :=
  ⟨rfl, by simpa [PHash.new] using inv_init (lawsOf t)⟩

/-! ## length of the standard digest -/

theorem foldl_last {α β : Type} (P : β → Prop) (f : β → α → β) (hf : ∀ s x, P (f s x)) (l : List α) (hl : l ≠ [])
    (s : β) : P (l.foldl f s) := by
  induction l generalizing s with
  | nil => exact absurd rfl hl
  | cons x xs ih =>
    by_cases hx : xs = []
    · subst hx; exact hf s x
    · exact ih hx (f s x)

theorem blocks_pad_ne_nil (S : MDSpec) (hB : (S.B = 64 ∧ S.L = 8) ∨ (S.B = 128 ∧ S.L = 16))
    (hL : ∀ bits, (S.encLen bits).length = S.L) (msg : ByteArray) : S.blocks (S.pad msg) ≠ [] := by
  have hsz : (S.pad msg).size = msg.size + 1 + S.padZeros msg.size + S.L := by
    simp [MDSpec.pad, ByteArray.size_append, hL]
  have : 1 ≤ (S.pad msg).size / S.B := by
    rw [hsz]; unfold MDSpec.padZeros
    rcases hB with ⟨h1, h2⟩ | ⟨h1, h2⟩ <;> rw [h1, h2] <;> omega
  intro hnil
  have hlen : (S.blocks (S.pad msg)).length = (S.pad msg).size / S.B := by simp [MDSpec.blocks]
  rw [hnil] at hlen
  simp at hlen
  omega

theorem length_flatMap_const {α β : Type} (w : Nat) (f : α → List β) (hf : ∀ v, (f v).length = w) (l : List α) :
    (l.flatMap f).length = w * l.length := by
  induction l with
  | nil => rfl
  | cons a l ih => simp [List.flatMap_cons, hf, ih, Nat.mul_add]; omega

theorem md5_H_length (msg : ByteArray) : (Spec.md5.H msg).length = 16 := by
  have hne := blocks_pad_ne_nil Spec.md5 (Or.inl ⟨rfl, rfl⟩) (fun b => length_leBytesN 8 b) msg
  have := foldl_last (fun h : Array UInt32 => h.size = 4) Spec.md5.compress (fun s x => by simp [Spec.md5, md5Block])
    _ hne Spec.md5.iv
  show (List.take 16 ((List.foldl Spec.md5.compress Spec.md5.iv (Spec.md5.blocks (Spec.md5.pad msg)) : Array UInt32).toList.flatMap
    leBytes32)).length = 16
  rw [List.length_take, length_flatMap_const 4 leBytes32 (fun _ => rfl), Array.length_toList, this]
  rfl

theorem sha32_H_length (iv : Array UInt32) (block : Array UInt32 → Array UInt32 → Array UInt32) (outLen nw : Nat)
    (hblock : ∀ h x, (block h x).size = nw) (hout : outLen ≤ 4 * nw) (msg : ByteArray) :
    ((sha32 iv block outLen).H msg).length = outLen := by
  have hne := blocks_pad_ne_nil (sha32 iv block outLen) (Or.inl ⟨rfl, rfl⟩) (fun b => length_beBytesN 8 b) msg
  have := foldl_last (fun h : Array UInt32 => h.size = nw) (sha32 iv block outLen).compress
    (fun s x => hblock s _) _ hne (sha32 iv block outLen).iv
  show (List.take outLen ((List.foldl (sha32 iv block outLen).compress (sha32 iv block outLen).iv
    ((sha32 iv block outLen).blocks ((sha32 iv block outLen).pad msg)) : Array UInt32).toList.flatMap beBytes32)).length = outLen
  rw [List.length_take, length_flatMap_const 4 beBytes32 (fun _ => rfl), Array.length_toList, this]
  omega

theorem sha64_H_length (iv : Array UInt64) (outLen : Nat) (hout : outLen ≤ 64) (msg : ByteArray) :
    ((sha64 iv outLen).H msg).length = outLen := by
  have hne := blocks_pad_ne_nil (sha64 iv outLen) (Or.inr ⟨rfl, rfl⟩) (fun b => length_beBytesN 16 b) msg
  have := foldl_last (fun h : Array UInt64 => h.size = 8) (sha64 iv outLen).compress
    (fun s x => by simp [sha64, sha512Block]) _ hne (sha64 iv outLen).iv
  show (List.take outLen ((List.foldl (sha64 iv outLen).compress (sha64 iv outLen).iv
    ((sha64 iv outLen).blocks ((sha64 iv outLen).pad msg)) : Array UInt64).toList.flatMap beBytes64)).length = outLen
  rw [List.length_take, length_flatMap_const 8 beBytes64 (fun _ => by simp [beBytes64, leBytes64]), Array.length_toList, this]
  omega

theorem H_length (t : HashType) (msg : ByteArray) : (H t msg).length = t.hashLen := by
  cases t
  · exact md5_H_length msg
  · exact sha32_H_length sha1IV sha1Block 20 5 (fun h x => by simp [sha1Block]) (by decide) msg
  · exact sha32_H_length sha224IV sha256Block 28 8 (fun h x => by simp [sha256Block]) (by decide) msg
  · exact sha32_H_length sha256IV sha256Block 32 8 (fun h x => by simp [sha256Block]) (by decide) msg
  · exact sha64_H_length sha384IV 48 (by decide) msg
  · exact sha64_H_length sha512IV 64 (by decide) msg

/-! ## the hex string -/

theorem hexOf_length (d : List UInt8) : (hexOf d).length = 2 * d.length := by
  simp only [hexOf, String.length_ofList]
  exact length_flatMap_const 2 _ (fun _ => rfl) d

theorem hexOf_lower (d : List UInt8) : ∀ c ∈ (hexOf d).toList, c ∈ "0123456789abcdef".toList := by
  intro c hc
  simp only [hexOf, String.toList_ofList, List.mem_flatMap] at hc
  obtain ⟨b, _, hb⟩ := hc
  have key : ∀ i, i < 16 → (hexDigits.toList.toArray)[i]! ∈ "0123456789abcdef".toList := by decide
  have h1 : ((b >>> 4) &&& 0x0F).toNat < 16 := by
    rw [UInt8.toNat_and]; exact Nat.lt_of_le_of_lt Nat.and_le_right (by decide)
  have h2 : (b &&& 0x0F).toNat < 16 := by
    rw [UInt8.toNat_and]; exact Nat.lt_of_le_of_lt Nat.and_le_right (by decide)
  simp only [List.mem_cons, List.not_mem_nil, or_false] at hb
  rcases hb with rfl | rfl
  · exact key _ h1
  · exact key _ h2

/-! ## a chunk is never longer than the whole -/

theorem foldl_concat_size (chunks : List Src) (acc : ByteArray) :
    acc.size ≤ (chunks.foldl (fun a c => a ++ c.toBytes) acc).size ∧
    ∀ d ∈ chunks, d.size ≤ (chunks.foldl (fun a c => a ++ c.toBytes) acc).size := by
  induction chunks generalizing acc with
  | nil => exact ⟨Nat.le_refl _, fun d hd => absurd hd (List.not_mem_nil)⟩
  | cons c cs ih =>
    obtain ⟨h1, h2⟩ := ih (acc ++ c.toBytes)
    simp only [List.foldl_cons]
    rw [ByteArray.size_append, Src.size_toBytes] at h1
    refine ⟨by omega, ?_⟩
    intro d hd
    rcases List.mem_cons.mp hd with rfl | hd
    · omega
    · exact h2 d hd

theorem size_le_concat (chunks : List Src) (d : Src) (hd : d ∈ chunks) : d.size ≤ (Src.concat chunks).size :=
  (foldl_concat_size chunks ByteArray.empty).2 d hd

end PV.Hash

import PV.Lemmas.Hash.Stream
import PV.Model.Hash.Algs
set_option linter.unusedSimpArgs false
/-! `Laws` for the three files with 32-bit words: MD5 (little-endian flavour), SHA-1 and SHA-2-224/256
    (big-endian flavour).  Everything that depends on the byte order, on the width of the counters
    and on the two length words of `finish` is here. -/
namespace PV.Hash
open Spec PV.Generated.HashMD

theorem get_toByteArray (l : List UInt8) (j : Nat) : l.toByteArray[j]! = l[j]! := by
  rw [bget_data, List.data_toByteArray]
  simp

/-! ## counters of two 32-bit words -/

def kVal32 (k : UInt32 × UInt32) : Nat := k.1.toNat * 2 ^ 32 + k.2.toNat

theorem kVal32_add (k : UInt32 × UInt32) (len : Nat) (h : len < 2 ^ 64) :
    kVal32 (kAdd32 k len) = (kVal32 k + len) % 2 ^ 64 := by
  obtain ⟨hi, lo⟩ := k
  have h1 := hi.toNat_lt; have h2 := lo.toNat_lt
  simp only [kVal32, kAdd32]
  split
  · rename_i hc
    rw [UInt32.lt_iff_toNat_lt] at hc
    simp only [UInt32.toNat_add, UInt32.toNat_ofNat', UInt32.toNat_ofNat, Nat.reducePow, Nat.reduceMod] at hc ⊢
    omega
  · rename_i hc
    rw [UInt32.lt_iff_toNat_lt] at hc
    simp only [UInt32.toNat_add, UInt32.toNat_ofNat', UInt32.toNat_ofNat, Nat.reducePow, Nat.reduceMod] at hc ⊢
    omega

theorem kLeft32 (k : UInt32 × UInt32) : (k.2 &&& UInt32.ofNat (64 - 1)).toNat = kVal32 k % 64 := by
  have := Nat.and_two_pow_sub_one_eq_mod k.2.toNat 6
  simp only [kVal32, UInt32.toNat_and, UInt32.toNat_ofNat', Nat.reducePow, Nat.reduceMod, Nat.reduceSub] at this ⊢
  rw [this]; omega

/-- the two length words of `finish` are the 64-bit bit count -/
theorem lenWords32 (k : UInt32 × UInt32) (h : 8 * kVal32 k < 2 ^ 64) :
    ((k.1 <<< 3) ||| (k.2 >>> 29)).toNat = 8 * kVal32 k / 2 ^ 32 ∧ (k.2 <<< 3).toNat = 8 * kVal32 k % 2 ^ 32 := by
  obtain ⟨hi, lo⟩ := k
  have h1 := hi.toNat_lt; have h2 := lo.toNat_lt
  simp only [kVal32] at h ⊢
  have hor := Nat.shiftLeft_add_eq_or_of_lt (i := 3) (b := lo.toNat >>> 29)
    (by rw [Nat.shiftRight_eq_div_pow]; omega) hi.toNat
  simp only [UInt32.toNat_or, UInt32.toNat_shiftLeft, UInt32.toNat_shiftRight, UInt32.toNat_ofNat, Nat.reducePow, Nat.reduceMod]
  have hs : hi.toNat <<< 3 % 4294967296 = hi.toNat <<< 3 := by
    rw [Nat.shiftLeft_eq]; omega
  rw [hs, ← hor]
  simp only [Nat.shiftLeft_eq, Nat.shiftRight_eq_div_pow, Nat.reducePow]
  omega

end PV.Hash

namespace PV.Hash
open Spec PV.Generated.HashMD

theorem nativeWords32_eq (b : ByteArray) : nativeWords32 b = wordsLE32 b := by
  simp [nativeWords32, wordsLE32, getW32, isBigEndian]

theorem words_congr32 {f g : Nat → UInt32} (h : ∀ i, i < 16 → f i = g i) :
    (Array.ofFn (n := 16) fun i => f i.val) = Array.ofFn (n := 16) fun i => g i.val := by
  congr 1; funext i; exact h i.val i.isLt

theorem wordsLE32_rev16 (b : ByteArray) (h : b.size = 64) : wordsLE32 (revWords32 b 16) = wordsBE32 b := by
  apply words_congr32
  intro i hi
  rw [getLE32_revWords32 _ _ _ (by omega), if_pos hi]

/-- bytes of a block whose last eight bytes are `E` -/
theorem get_final32 (b E : ByteArray) (hb : b.size = 64) (j : Nat) :
    (b.extract 0 56 ++ E)[j]! = if j < 56 then b[j]! else E[j - 56]! := by
  have hs : (b.extract 0 56).size = 56 := by simp [ByteArray.size_extract]; omega
  rw [get_append, hs]
  split
  · rw [get_extract _ _ _ _ (by omega) (by omega), Nat.zero_add]
  · rfl

theorem getBE32_final (b E : ByteArray) (hb : b.size = 64) (i : Nat) (hi : i < 14) :
    getBE32 (b.extract 0 56 ++ E) i = getBE32 b i := by
  simp only [getBE32, get_final32 _ _ hb]
  rw [if_pos (by omega), if_pos (by omega), if_pos (by omega), if_pos (by omega)]

theorem getLE32_final (b E : ByteArray) (hb : b.size = 64) (i : Nat) (hi : i < 14) :
    getLE32 (b.extract 0 56 ++ E) i = getLE32 b i := by
  simp only [getLE32, get_final32 _ _ hb]
  rw [if_pos (by omega), if_pos (by omega), if_pos (by omega), if_pos (by omega)]

theorem le32_of_nat (x : Nat) (hx : x < 2 ^ 32) :
    le32 (x % 256).toUInt8 (x / 256 % 256).toUInt8 (x / 256 / 256 % 256).toUInt8 (x / 256 / 256 / 256 % 256).toUInt8
      = UInt32.ofNat x := by
  apply UInt32.toNat_inj.mp
  simp only [le32, UInt32.toNat_add, UInt32.toNat_mul, UInt8.toNat_toUInt32, UInt32.toNat_ofNat, UInt32.toNat_ofNat',
    Nat.toUInt8_eq, UInt8.toNat_ofNat', Nat.reducePow, Nat.reduceMod]
  omega

theorem final_words_be32 (b : ByteArray) (hb : b.size = 64) (hi lo : UInt32) (n8 : Nat) (hn : n8 < 2 ^ 64)
    (hhi : hi.toNat = n8 / 2 ^ 32) (hlo : lo.toNat = n8 % 2 ^ 32) :
    wordsLE32 (revWords32 (setLE32 (setLE32 b 14 hi) 15 lo) 14) =
      wordsBE32 (b.extract 0 56 ++ (beBytesN 8 n8).toByteArray) := by
  apply words_congr32
  intro i hi16
  rw [getLE32_revWords32 _ _ _ (by simp; omega)]
  by_cases h14 : i < 14
  · rw [if_pos h14, getBE32_final _ _ hb _ h14, getBE32_setLE32_of_ne _ _ _ _ (by omega),
      getBE32_setLE32_of_ne _ _ _ _ (by omega)]
  · rw [if_neg h14]
    have hc : i = 14 ∨ i = 15 := by omega
    have hE : beBytesN 8 n8 = [(n8 / 256 / 256 / 256 / 256 / 256 / 256 / 256 % 256).toUInt8,
        (n8 / 256 / 256 / 256 / 256 / 256 / 256 % 256).toUInt8, (n8 / 256 / 256 / 256 / 256 / 256 % 256).toUInt8,
        (n8 / 256 / 256 / 256 / 256 % 256).toUInt8, (n8 / 256 / 256 / 256 % 256).toUInt8,
        (n8 / 256 / 256 % 256).toUInt8, (n8 / 256 % 256).toUInt8, (n8 % 256).toUInt8] := by
      simp [beBytesN, leBytesN]
    rcases hc with rfl | rfl
    · rw [getLE32_setLE32_of_ne _ _ _ _ (by omega), getLE32_setLE32_self _ _ _ (by omega)]
      simp only [getBE32, get_final32 _ _ hb, get_toByteArray, hE]
      simp
      have := le32_of_nat (n8 / 2 ^ 32) (by omega)
      rw [show UInt32.ofNat (n8 / 2 ^ 32) = hi from UInt32.toNat_inj.mp (by simp [hhi] <;> omega)] at this
      rw [← this]
      congr 1 <;> congr 1 <;> omega
    · rw [getLE32_setLE32_self _ _ _ (by simp; omega)]
      simp only [getBE32, get_final32 _ _ hb, get_toByteArray, hE]
      simp
      have := le32_of_nat (n8 % 2 ^ 32) (by omega)
      rw [show UInt32.ofNat (n8 % 2 ^ 32) = lo from UInt32.toNat_inj.mp (by simp [hlo] <;> omega)] at this
      rw [← this]
      congr 1 <;> congr 1 <;> omega

end PV.Hash

namespace PV.Hash
open Spec PV.Generated.HashMD

theorem final_words_le32 (b : ByteArray) (hb : b.size = 64) (hi lo : UInt32) (n8 : Nat) (hn : n8 < 2 ^ 64)
    (hhi : hi.toNat = n8 / 2 ^ 32) (hlo : lo.toNat = n8 % 2 ^ 32) :
    wordsLE32 (setLE32 (setLE32 b 14 lo) 15 hi) =
      wordsLE32 (b.extract 0 56 ++ (leBytesN 8 n8).toByteArray) := by
  apply words_congr32
  intro i hi16
  by_cases h14 : i < 14
  · rw [getLE32_final _ _ hb _ h14, getLE32_setLE32_of_ne _ _ _ _ (by omega),
      getLE32_setLE32_of_ne _ _ _ _ (by omega)]
  · have hc : i = 14 ∨ i = 15 := by omega
    have hE : leBytesN 8 n8 = [(n8 % 256).toUInt8, (n8 / 256 % 256).toUInt8, (n8 / 256 / 256 % 256).toUInt8,
        (n8 / 256 / 256 / 256 % 256).toUInt8, (n8 / 256 / 256 / 256 / 256 % 256).toUInt8,
        (n8 / 256 / 256 / 256 / 256 / 256 % 256).toUInt8, (n8 / 256 / 256 / 256 / 256 / 256 / 256 % 256).toUInt8,
        (n8 / 256 / 256 / 256 / 256 / 256 / 256 / 256 % 256).toUInt8] := by
      simp [leBytesN]
    rcases hc with rfl | rfl
    · rw [getLE32_setLE32_of_ne _ _ _ _ (by omega), getLE32_setLE32_self _ _ _ (by omega)]
      simp only [getLE32, get_final32 _ _ hb, get_toByteArray, hE]
      simp
      have := le32_of_nat (n8 % 2 ^ 32) (by omega)
      rw [show UInt32.ofNat (n8 % 2 ^ 32) = lo from UInt32.toNat_inj.mp (by simp [hlo] <;> omega)] at this
      rw [← this]
      congr 1 <;> congr 1 <;> omega
    · rw [getLE32_setLE32_self _ _ _ (by simp; omega)]
      simp only [getLE32, get_final32 _ _ hb, get_toByteArray, hE]
      simp
      have := le32_of_nat (n8 / 2 ^ 32) (by omega)
      rw [show UInt32.ofNat (n8 / 2 ^ 32) = hi from UInt32.toNat_inj.mp (by simp [hhi] <;> omega)] at this
      rw [← this]
      congr 1 <;> congr 1 <;> omega

/-! ## the digest bytes -/

theorem length_flatMapW {α : Type} (w : Nat) (f : α → List UInt8) (hf : ∀ v, (f v).length = w) (l : List α) :
    (l.flatMap f).length = w * l.length := by
  induction l with
  | nil => rfl
  | cons a l ih => simp [List.flatMap_cons, hf, ih, Nat.mul_add]; omega

theorem leBytes32_bswap32 (v : UInt32) : leBytes32 (bswap32 v) = beBytes32 v := by
  simp [bswap32, leBytesN, leBytes32_le32, beBytes32]

theorem take_swapped {α : Type} (w : Nat) (le be : α → List UInt8) (sw : α → α) (hsw : ∀ v, le (sw v) = be v)
    (hbe : ∀ v, (be v).length = w) (l : List α) (n k : Nat) (hk : k ≤ w * n) :
    (((l.take n).map sw ++ l.drop n).flatMap le).take k = (l.flatMap be).take k := by
  have h1 : ((l.take n).map sw).flatMap le = (l.take n).flatMap be := by
    rw [List.flatMap_map]; congr 1; funext v; exact hsw v
  rw [List.flatMap_append, h1]
  conv => rhs; rw [← List.take_append_drop n l, List.flatMap_append]
  by_cases hl : n ≤ l.length
  · have hlen : ((l.take n).flatMap be).length = w * n := by
      rw [length_flatMapW w be hbe, List.length_take, Nat.min_eq_left hl]
    rw [List.take_append_of_le_length (by omega), List.take_append_of_le_length (by omega)]
  · rw [List.drop_eq_nil_of_le (by omega)]; simp

theorem out_be32 (h : Array UInt32) (n k : Nat) (hk : k ≤ 4 * n) :
    (bytesOfWords32 (swapHash32 true h n)).take k = (h.toList.flatMap beBytes32).take k := by
  simp only [bytesOfWords32, swapHash32, isBigEndian, Bool.true_bne, Bool.not_false, if_true, Bool.false_eq_true, if_false]
  exact take_swapped 4 leBytes32 beBytes32 bswap32 leBytes32_bswap32 (fun v => rfl) h.toList n k hk

theorem out_le32 (h : Array UInt32) (n k : Nat) :
    (bytesOfWords32 (swapHash32 false h n)).take k = (h.toList.flatMap leBytes32).take k := by
  simp [bytesOfWords32, swapHash32, isBigEndian]

end PV.Hash

namespace PV.Hash
open Spec PV.Generated.HashMD

theorem dvd64 : 64 ∣ 2 ^ 64 := ⟨2 ^ 58, by decide⟩

theorem length_beBytesN (k n : Nat) : (beBytesN k n).length = k := by
  simp only [beBytesN, List.length_reverse]
  induction k generalizing n with
  | zero => rfl
  | succ k ih => simp [leBytesN, ih]

theorem length_leBytesN (k n : Nat) : (leBytesN k n).length = k := by
  induction k generalizing n with
  | zero => rfl
  | succ k ih => simp [leBytesN, ih]

theorem proc_final_be32 (block : Array UInt32 → Array UInt32 → Array UInt32) (h : Array UInt32) (b : ByteArray)
    (k : UInt32 × UInt32) (hb : b.size = 64) (hbound : 8 * kVal32 k < 2 ^ 64) :
    block h (nativeWords32 (swapBytes32 true (putLen32 false k b) 14)) =
      block h (wordsBE32 (b.extract 0 56 ++ (beBytesN 8 (8 * kVal32 k)).toByteArray)) := by
  obtain ⟨w1, w2⟩ := lenWords32 k hbound
  rw [nativeWords32_eq]
  simp only [swapBytes32, putLen32, setW32, isBigEndian, Bool.true_bne, Bool.not_false, if_true, Bool.false_eq_true, if_false]
  rw [final_words_be32 b hb _ _ (8 * kVal32 k) hbound w1 w2]

theorem proc_final_le32 (block : Array UInt32 → Array UInt32 → Array UInt32) (h : Array UInt32) (b : ByteArray)
    (k : UInt32 × UInt32) (hb : b.size = 64) (hbound : 8 * kVal32 k < 2 ^ 64) :
    block h (nativeWords32 (swapBytes32 false (putLen32 true k b) 14)) =
      block h (wordsLE32 (b.extract 0 56 ++ (leBytesN 8 (8 * kVal32 k)).toByteArray)) := by
  obtain ⟨w1, w2⟩ := lenWords32 k hbound
  rw [nativeWords32_eq]
  simp only [swapBytes32, putLen32, setW32, isBigEndian, bne_self_eq_false, Bool.false_eq_true, if_false, if_true]
  rw [final_words_le32 b hb _ _ (8 * kVal32 k) hbound w1 w2]

theorem proc_swap_be32 (block : Array UInt32 → Array UInt32 → Array UInt32) (h : Array UInt32) (b : ByteArray)
    (hb : b.size = 64) : block h (nativeWords32 (swapBytes32 true b 16)) = block h (wordsBE32 b) := by
  rw [nativeWords32_eq]
  simp only [swapBytes32, isBigEndian, Bool.true_bne, Bool.not_false, if_true]
  rw [wordsLE32_rev16 b hb]

theorem proc_swap_le32 (block : Array UInt32 → Array UInt32 → Array UInt32) (h : Array UInt32) (b : ByteArray) :
    block h (nativeWords32 (swapBytes32 false b 16)) = block h (wordsLE32 b) := by
  rw [nativeWords32_eq]; simp [swapBytes32, isBigEndian]

theorem size_swapBytes32 (s : Bool) (b : ByteArray) (n : Nat) : (swapBytes32 s b n).size = b.size := by
  unfold swapBytes32; split <;> simp

/-- SHA-1 / SHA-2-224/256: big-endian words, `swap_bytes` active, `buf_w[14] = high` -/
def lawsBE32 (pad : ByteArray) (iv : Array UInt32) (outWords hashLen : Nat)
    (block : Array UInt32 → Array UInt32 → Array UInt32)
    (hpad : pad = [0x80].toByteArray ++ zeroBytes 63) (hk : hashLen ≤ 4 * outWords) :
    Laws (alg32 64 true false pad iv outWords block) where
  compress := fun h b => block h (wordsBE32 b)
  encLen := fun bits => beBytesN 8 bits
  out := fun h => (h.toList.flatMap beBytes32).take hashLen
  hashLen := hashLen
  kVal := kVal32
  M := 2 ^ 64
  hB := Or.inl rfl
  hM := dvd64
  swap_size := size_swapBytes32 true
  proc_swap := by
    intro h b hb
    dsimp only [alg32] at h hb ⊢
    exact proc_swap_be32 block h b hb
  kLeft_eq := kLeft32
  kVal_k0 := by show kVal32 (0, 0) = 0; simp [kVal32]
  kVal_add := kVal32_add
  encLen_length := by intro bits; simp [Alg.L, alg32, length_beBytesN]
  proc_final := by
    intro h b k hb hbound
    have hL : (alg32 64 true false pad iv outWords block).B - (alg32 64 true false pad iv outWords block).L = 56 := by
      simp [Alg.L, alg32]
    rw [hL]
    dsimp only [alg32] at h k hb hbound ⊢
    exact proc_final_be32 block h b k hb hbound
  pad_eq := hpad
  out_eq := fun h => out_be32 h outWords hashLen hk

/-- MD5: little-endian words, `swap_bytes` is the identity here, `buf_w[14] = low` -/
def lawsLE32 (pad : ByteArray) (iv : Array UInt32) (outWords hashLen : Nat)
    (block : Array UInt32 → Array UInt32 → Array UInt32)
    (hpad : pad = [0x80].toByteArray ++ zeroBytes 63) :
    Laws (alg32 64 false true pad iv outWords block) where
  compress := fun h b => block h (wordsLE32 b)
  encLen := fun bits => leBytesN 8 bits
  out := fun h => (h.toList.flatMap leBytes32).take hashLen
  hashLen := hashLen
  kVal := kVal32
  M := 2 ^ 64
  hB := Or.inl rfl
  hM := dvd64
  swap_size := size_swapBytes32 false
  proc_swap := fun h b _ => proc_swap_le32 block h b
  kLeft_eq := kLeft32
  kVal_k0 := by show kVal32 (0, 0) = 0; simp [kVal32]
  kVal_add := kVal32_add
  encLen_length := by intro bits; simp [Alg.L, alg32, length_leBytesN]
  proc_final := by
    intro h b k hb hbound
    have hL : (alg32 64 false true pad iv outWords block).B - (alg32 64 false true pad iv outWords block).L = 56 := by
      simp [Alg.L, alg32]
    rw [hL]
    dsimp only [alg32] at h k hb hbound ⊢
    exact proc_final_le32 block h b k hb hbound
  pad_eq := hpad
  out_eq := fun h => out_le32 h outWords hashLen

theorem md5Pad_eq : md5Pad = [0x80].toByteArray ++ zeroBytes 63 := by
  apply ByteArray.ext; simp [md5Pad, zeroBytes, ByteArray.data_append, List.data_toByteArray]
theorem sha1Pad_eq : sha1Pad = [0x80].toByteArray ++ zeroBytes 63 := by
  apply ByteArray.ext; simp [sha1Pad, zeroBytes, ByteArray.data_append, List.data_toByteArray]
theorem sha256Pad_eq : sha256Pad = [0x80].toByteArray ++ zeroBytes 63 := by
  apply ByteArray.ext; simp [sha256Pad, zeroBytes, ByteArray.data_append, List.data_toByteArray]

def lawsMD5 : Laws md5 := lawsLE32 md5Pad md5IV md5OutWords 16 md5Block md5Pad_eq
def lawsSHA1 : Laws sha1 := lawsBE32 sha1Pad sha1IV sha1OutWords 20 sha1Block sha1Pad_eq (by decide)
def lawsSHA224 : Laws sha224 := lawsBE32 sha256Pad sha224IV sha224OutWords 28 sha256Block sha256Pad_eq (by decide)
def lawsSHA256 : Laws sha256 := lawsBE32 sha256Pad sha256IV sha256OutWords 32 sha256Block sha256Pad_eq (by decide)

theorem lawsMD5_spec : lawsMD5.spec = Spec.md5 := rfl
theorem lawsSHA1_spec : lawsSHA1.spec = Spec.sha1 := rfl
theorem lawsSHA224_spec : lawsSHA224.spec = Spec.sha224 := rfl
theorem lawsSHA256_spec : lawsSHA256.spec = Spec.sha256 := rfl

end PV.Hash

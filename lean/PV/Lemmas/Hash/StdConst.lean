import PV.Spec.HashStd
/-!
# The constants of the C source are the standards' constants (C11)

`iroot_spec`: `Std.iroot r n` is `⌊n^(1/r)⌋`, so `Std.fracRoot r b p` is the first `b` bits of the
fractional part of the `r`-th root of `p`.  The tables and initial values extracted from the C
source (`PV.Generated.HashMD`) are then compared with the standards' defining formulas by
evaluation in the kernel.
-/
namespace PV.Hash.Std

theorem irootGo_spec (r n : Nat) (fuel lo hi : Nat) (h1 : lo ^ r ≤ n) (h2 : n < hi ^ r) (h3 : lo < hi)
    (h4 : hi - lo ≤ 2 ^ fuel) :
    (irootGo r n fuel lo hi) ^ r ≤ n ∧ n < (irootGo r n fuel lo hi + 1) ^ r := by
  induction fuel generalizing lo hi with
  | zero =>
    have : hi = lo + 1 := by simp at h4; omega
    subst this
    exact ⟨h1, h2⟩
  | succ fuel ih =>
    unfold irootGo
    split
    · have : hi = lo + 1 := by omega
      subst this
      exact ⟨h1, h2⟩
    · rename_i hgap
      have hp : 2 ^ (fuel + 1) = 2 * 2 ^ fuel := by rw [Nat.pow_succ]; omega
      split
      · rename_i hm
        exact ih _ _ hm h2 (by omega) (by omega)
      · rename_i hm
        exact ih _ _ h1 (by omega) (by omega) (by omega)

/-- `iroot r n` is the floor of the `r`-th root of `n` -/
theorem iroot_spec (r n : Nat) (hr : 0 < r) : (iroot r n) ^ r ≤ n ∧ n < (iroot r n + 1) ^ r := by
  unfold iroot
  apply irootGo_spec
  · rw [Nat.zero_pow hr]; exact Nat.zero_le _
  · exact Nat.lt_of_lt_of_le (Nat.lt_succ_self n) (Nat.le_self_pow (by omega) _)
  · omega
  · have := Nat.lt_log2_self (n := n)
    rw [Nat.pow_succ, Nat.pow_succ]
    omega

/-- … and the only number with that property -/
theorem iroot_unique (r n x : Nat) (hr : 0 < r) (h1 : x ^ r ≤ n) (h2 : n < (x + 1) ^ r) : x = iroot r n := by
  obtain ⟨s1, s2⟩ := iroot_spec r n hr
  have a : x < iroot r n + 1 := by
    apply Nat.lt_of_not_le; intro h
    exact absurd (Nat.lt_of_lt_of_le s2 (Nat.pow_le_pow_left h r)) (by omega)
  have b : iroot r n < x + 1 := by
    apply Nat.lt_of_not_le; intro h
    exact absurd (Nat.lt_of_lt_of_le h2 (Nat.pow_le_pow_left h r)) (by omega)
  omega

/-- `fracRoot r b p = y mod 2^b` where `y = ⌊2^b · p^(1/r)⌋`, i.e. `y^r ≤ p · 2^(r·b) < (y+1)^r` -/
theorem fracRoot_spec (r b p : Nat) (hr : 0 < r) :
    ∃ y, y ^ r ≤ p * (2 ^ b) ^ r ∧ p * (2 ^ b) ^ r < (y + 1) ^ r ∧ fracRoot r b p = y % 2 ^ b := by
  refine ⟨iroot r (p * 2 ^ (r * b)), ?_, ?_, rfl⟩
  · rw [← Nat.pow_mul, Nat.mul_comm b r]; exact (iroot_spec r _ hr).1
  · rw [← Nat.pow_mul, Nat.mul_comm b r]; exact (iroot_spec r _ hr).2

end PV.Hash.Std

namespace PV.Hash
open PV.Generated.HashMD

/-- there are exactly 80 primes below 410: `Std.prime 0 … Std.prime 79` are the first 80 primes -/
theorem primes_length : Std.primes.length = 80 := by decide +kernel

theorem sha256K_std : ∀ t, t < 64 → sha256K[t]! = Std.sha256K t := by decide +kernel
theorem sha512K_std : ∀ t, t < 80 → sha512K[t]! = Std.sha512K t := by decide +kernel
theorem sha256IV_std : sha256IV = Std.sha256IV := by decide +kernel
theorem sha224IV_std : sha224IV = Std.sha224IV := by decide +kernel
theorem sha512IV_std : sha512IV = Std.sha512IV := by decide +kernel
theorem sha384IV_std : sha384IV = Std.sha384IV := by decide +kernel
theorem sha1K_std : ∀ t, t < 80 → sha1K[t / 20]! = Std.sha1K t := by decide +kernel
theorem sha1F_std : sha1F = #[1, 2, 3, 2] := by decide +kernel
theorem sha1IV_std : sha1IV = Std.sha1IV := by decide +kernel
theorem md5IV_std : md5IV = Std.md5IV := by decide +kernel
theorem md5K_std : md5K = Std.md5T := by decide +kernel
theorem md5S_std : ∀ i, i < 64 → md5S[i]! = Std.md5Shift i := by decide +kernel
theorem md5X_std : ∀ i, i < 64 → md5X[i]! = Std.md5Index i := by decide +kernel

end PV.Hash

import PV.Lemmas.Hash.Inst32
set_option linter.unusedSimpArgs false
/-! `Laws` for SHA-2-384/512 (64-bit words and counters, 128-byte blocks, 16-byte length field). -/
namespace PV.Hash
open Spec PV.Generated.HashMD

def kVal64 (k : UInt64 × UInt64) : Nat := k.1.toNat * 2 ^ 64 + k.2.toNat

theorem kVal64_add (k : UInt64 × UInt64) (len : Nat) (h : len < 2 ^ 64) :
    kVal64 (kAdd64 k len) = (kVal64 k + len) % 2 ^ 128 := by
  obtain ⟨hi, lo⟩ := k
  have h1 := hi.toNat_lt; have h2 := lo.toNat_lt
  simp only [kVal64, kAdd64]
  split
  · rename_i hc
    rw [UInt64.lt_iff_toNat_lt] at hc
    simp only [UInt64.toNat_add, UInt64.toNat_ofNat', UInt64.toNat_ofNat, Nat.reducePow, Nat.reduceMod] at hc ⊢
    omega
  · rename_i hc
    rw [UInt64.lt_iff_toNat_lt] at hc
    simp only [UInt64.toNat_add, UInt64.toNat_ofNat', UInt64.toNat_ofNat, Nat.reducePow, Nat.reduceMod] at hc ⊢
    omega

theorem kLeft64 (k : UInt64 × UInt64) : (k.2 &&& UInt64.ofNat (128 - 1)).toNat = kVal64 k % 128 := by
  have := Nat.and_two_pow_sub_one_eq_mod k.2.toNat 7
  simp only [kVal64, UInt64.toNat_and, UInt64.toNat_ofNat', Nat.reducePow, Nat.reduceMod, Nat.reduceSub] at this ⊢
  rw [this]; omega

theorem lenWords64 (k : UInt64 × UInt64) (h : 8 * kVal64 k < 2 ^ 128) :
    ((k.1 <<< 3) ||| (k.2 >>> 61)).toNat = 8 * kVal64 k / 2 ^ 64 ∧ (k.2 <<< 3).toNat = 8 * kVal64 k % 2 ^ 64 := by
  obtain ⟨hi, lo⟩ := k
  have h1 := hi.toNat_lt; have h2 := lo.toNat_lt
  simp only [kVal64] at h ⊢
  have hor := Nat.shiftLeft_add_eq_or_of_lt (i := 3) (b := lo.toNat >>> 61)
    (by rw [Nat.shiftRight_eq_div_pow]; omega) hi.toNat
  simp only [UInt64.toNat_or, UInt64.toNat_shiftLeft, UInt64.toNat_shiftRight, UInt64.toNat_ofNat, Nat.reducePow, Nat.reduceMod]
  have hs : hi.toNat <<< 3 % 18446744073709551616 = hi.toNat <<< 3 := by
    rw [Nat.shiftLeft_eq]; omega
  rw [hs, ← hor]
  simp only [Nat.shiftLeft_eq, Nat.shiftRight_eq_div_pow, Nat.reducePow]
  omega

def wordsLE64 (b : ByteArray) : Array UInt64 := Array.ofFn (n := 16) fun i => getLE64 b i.val

theorem nativeWords64_eq (b : ByteArray) : nativeWords64 b = wordsLE64 b := by
  simp [nativeWords64, wordsLE64, getW64, isBigEndian]

theorem words_congr64 {f g : Nat → UInt64} (h : ∀ i, i < 16 → f i = g i) :
    (Array.ofFn (n := 16) fun i => f i.val) = Array.ofFn (n := 16) fun i => g i.val := by
  congr 1; funext i; exact h i.val i.isLt

theorem wordsLE64_rev16 (b : ByteArray) (h : b.size = 128) : wordsLE64 (revWords64 b 16) = wordsBE64 b := by
  apply words_congr64
  intro i hi
  rw [getLE64_revWords64 _ _ _ (by omega), if_pos hi]

theorem get_final64 (b E : ByteArray) (hb : b.size = 128) (j : Nat) :
    (b.extract 0 112 ++ E)[j]! = if j < 112 then b[j]! else E[j - 112]! := by
  have hs : (b.extract 0 112).size = 112 := by simp [ByteArray.size_extract]; omega
  rw [get_append, hs]
  split
  · rw [get_extract _ _ _ _ (by omega) (by omega), Nat.zero_add]
  · rfl

theorem getBE64_final (b E : ByteArray) (hb : b.size = 128) (i : Nat) (hi : i < 14) :
    getBE64 (b.extract 0 112 ++ E) i = getBE64 b i := by
  simp only [getBE64, get_final64 _ _ hb]
  rw [if_pos (by omega), if_pos (by omega), if_pos (by omega), if_pos (by omega),
    if_pos (by omega), if_pos (by omega), if_pos (by omega), if_pos (by omega)]

theorem le64_of_nat (x : Nat) (hx : x < 2 ^ 64) :
    le64 (x % 256).toUInt8 (x / 256 % 256).toUInt8 (x / 256 / 256 % 256).toUInt8 (x / 256 / 256 / 256 % 256).toUInt8 (x / 256 / 256 / 256 / 256 % 256).toUInt8 (x / 256 / 256 / 256 / 256 / 256 % 256).toUInt8 (x / 256 / 256 / 256 / 256 / 256 / 256 % 256).toUInt8 (x / 256 / 256 / 256 / 256 / 256 / 256 / 256 % 256).toUInt8 = UInt64.ofNat x := by
  apply UInt64.toNat_inj.mp
  rw [toNat_le64]
  simp only [UInt64.toNat_ofNat', Nat.toUInt8_eq, UInt8.toNat_ofNat', Nat.reducePow, Nat.reduceMod]
  omega

theorem final_words_be64 (b : ByteArray) (hb : b.size = 128) (hi lo : UInt64) (n8 : Nat) (hn : n8 < 2 ^ 128)
    (hhi : hi.toNat = n8 / 2 ^ 64) (hlo : lo.toNat = n8 % 2 ^ 64) :
    wordsLE64 (revWords64 (setLE64 (setLE64 b 14 hi) 15 lo) 14) =
      wordsBE64 (b.extract 0 112 ++ (beBytesN 16 n8).toByteArray) := by
  apply words_congr64
  intro i hi16
  rw [getLE64_revWords64 _ _ _ (by simp; omega)]
  by_cases h14 : i < 14
  · rw [if_pos h14, getBE64_final _ _ hb _ h14, getBE64_setLE64_of_ne _ _ _ _ (by omega),
      getBE64_setLE64_of_ne _ _ _ _ (by omega)]
  · rw [if_neg h14]
    have hc : i = 14 ∨ i = 15 := by omega
    have hE : beBytesN 16 n8 = [(n8 / 256 / 256 / 256 / 256 / 256 / 256 / 256 / 256 / 256 / 256 / 256 / 256 / 256 / 256 / 256 % 256).toUInt8,
        (n8 / 256 / 256 / 256 / 256 / 256 / 256 / 256 / 256 / 256 / 256 / 256 / 256 / 256 / 256 % 256).toUInt8,
        (n8 / 256 / 256 / 256 / 256 / 256 / 256 / 256 / 256 / 256 / 256 / 256 / 256 / 256 % 256).toUInt8,
        (n8 / 256 / 256 / 256 / 256 / 256 / 256 / 256 / 256 / 256 / 256 / 256 / 256 % 256).toUInt8,
        (n8 / 256 / 256 / 256 / 256 / 256 / 256 / 256 / 256 / 256 / 256 / 256 % 256).toUInt8,
        (n8 / 256 / 256 / 256 / 256 / 256 / 256 / 256 / 256 / 256 / 256 % 256).toUInt8,
        (n8 / 256 / 256 / 256 / 256 / 256 / 256 / 256 / 256 / 256 % 256).toUInt8,
        (n8 / 256 / 256 / 256 / 256 / 256 / 256 / 256 / 256 % 256).toUInt8,
        (n8 / 256 / 256 / 256 / 256 / 256 / 256 / 256 % 256).toUInt8,
        (n8 / 256 / 256 / 256 / 256 / 256 / 256 % 256).toUInt8,
        (n8 / 256 / 256 / 256 / 256 / 256 % 256).toUInt8,
        (n8 / 256 / 256 / 256 / 256 % 256).toUInt8,
        (n8 / 256 / 256 / 256 % 256).toUInt8,
        (n8 / 256 / 256 % 256).toUInt8,
        (n8 / 256 % 256).toUInt8,
        (n8 % 256).toUInt8] := by
      simp [beBytesN, leBytesN]
    rcases hc with rfl | rfl
    · rw [getLE64_setLE64_of_ne _ _ _ _ (by omega), getLE64_setLE64_self _ _ _ (by omega)]
      simp only [getBE64, get_final64 _ _ hb, get_toByteArray, hE]
      simp
      have := le64_of_nat (n8 / 2 ^ 64) (by omega)
      rw [show UInt64.ofNat (n8 / 2 ^ 64) = hi from UInt64.toNat_inj.mp (by simp [hhi] <;> omega)] at this
      rw [← this]
      congr 1 <;> congr 1 <;> omega
    · rw [getLE64_setLE64_self _ _ _ (by simp; omega)]
      simp only [getBE64, get_final64 _ _ hb, get_toByteArray, hE]
      simp
      have := le64_of_nat (n8 % 2 ^ 64) (by omega)
      rw [show UInt64.ofNat (n8 % 2 ^ 64) = lo from UInt64.toNat_inj.mp (by simp [hlo] <;> omega)] at this
      rw [← this]
      congr 1 <;> congr 1 <;> omega

theorem leBytes64_bswap64 (v : UInt64) : leBytes64 (bswap64 v) = beBytes64 v := by
  unfold bswap64
  rw [leBytes64_le64]
  simp [beBytes64, leBytes64]

theorem out_be64 (h : Array UInt64) (n k : Nat) (hk : k ≤ 8 * n) :
    (bytesOfWords64 (swapHash64 true h n)).take k = (h.toList.flatMap beBytes64).take k := by
  simp only [bytesOfWords64, swapHash64, isBigEndian, Bool.true_bne, Bool.not_false, if_true, Bool.false_eq_true, if_false]
  exact take_swapped 8 leBytes64 beBytes64 bswap64 leBytes64_bswap64 (fun v => by simp [beBytes64, leBytes64]) h.toList n k hk

theorem proc_final_be64 (block : Array UInt64 → Array UInt64 → Array UInt64) (h : Array UInt64) (b : ByteArray)
    (k : UInt64 × UInt64) (hb : b.size = 128) (hbound : 8 * kVal64 k < 2 ^ 128) :
    block h (nativeWords64 (swapBytes64 true (putLen64 false k b) 14)) =
      block h (wordsBE64 (b.extract 0 112 ++ (beBytesN 16 (8 * kVal64 k)).toByteArray)) := by
  obtain ⟨w1, w2⟩ := lenWords64 k hbound
  rw [nativeWords64_eq]
  simp only [swapBytes64, putLen64, setW64, isBigEndian, Bool.true_bne, Bool.not_false, if_true, Bool.false_eq_true, if_false]
  rw [final_words_be64 b hb _ _ (8 * kVal64 k) hbound w1 w2]

theorem proc_swap_be64 (block : Array UInt64 → Array UInt64 → Array UInt64) (h : Array UInt64) (b : ByteArray)
    (hb : b.size = 128) : block h (nativeWords64 (swapBytes64 true b 16)) = block h (wordsBE64 b) := by
  rw [nativeWords64_eq]
  simp only [swapBytes64, isBigEndian, Bool.true_bne, Bool.not_false, if_true]
  rw [wordsLE64_rev16 b hb]

theorem size_swapBytes64 (s : Bool) (b : ByteArray) (n : Nat) : (swapBytes64 s b n).size = b.size := by
  unfold swapBytes64; split <;> simp

theorem dvd128 : 128 ∣ 2 ^ 128 := ⟨2 ^ 121, by decide⟩

/-- SHA-2-384/512 -/
def lawsBE64 (pad : ByteArray) (iv : Array UInt64) (outWords hashLen : Nat)
    (block : Array UInt64 → Array UInt64 → Array UInt64)
    (hpad : pad = [0x80].toByteArray ++ zeroBytes 127) (hk : hashLen ≤ 8 * outWords) :
    Laws (alg64 128 true false pad iv outWords block) where
  compress := fun h b => block h (wordsBE64 b)
  encLen := fun bits => beBytesN 16 bits
  out := fun h => (h.toList.flatMap beBytes64).take hashLen
  hashLen := hashLen
  kVal := kVal64
  M := 2 ^ 128
  hB := Or.inr rfl
  hM := dvd128
  swap_size := size_swapBytes64 true
  proc_swap := by
    intro h b hb
    dsimp only [alg64] at h hb ⊢
    exact proc_swap_be64 block h b hb
  kLeft_eq := kLeft64
  kVal_k0 := by show kVal64 (0, 0) = 0; simp [kVal64]
  kVal_add := kVal64_add
  encLen_length := by intro bits; simp [Alg.L, alg64, length_beBytesN]
  proc_final := by
    intro h b k hb hbound
    have hL : (alg64 128 true false pad iv outWords block).B - (alg64 128 true false pad iv outWords block).L = 112 := by
      simp [Alg.L, alg64]
    rw [hL]
    dsimp only [alg64] at h k hb hbound ⊢
    exact proc_final_be64 block h b k hb hbound
  pad_eq := hpad
  out_eq := fun h => out_be64 h outWords hashLen hk

theorem sha512Pad_eq : sha512Pad = [0x80].toByteArray ++ zeroBytes 127 := by
  apply ByteArray.ext; simp [sha512Pad, zeroBytes, ByteArray.data_append, List.data_toByteArray]

def lawsSHA384 : Laws sha384 := lawsBE64 sha512Pad sha384IV sha384OutWords 48 sha512Block sha512Pad_eq (by decide)
def lawsSHA512 : Laws sha512 := lawsBE64 sha512Pad sha512IV sha512OutWords 64 sha512Block sha512Pad_eq (by decide)

theorem lawsSHA384_spec : lawsSHA384.spec = Spec.sha384 := rfl
theorem lawsSHA512_spec : lawsSHA512.spec = Spec.sha512 := rfl

end PV.Hash

import PV.Model.Hash.MD
import PV.Spec.Hash
import PV.Lemmas.Hash.Bytes
set_option linter.unusedSimpArgs false
/-! The generic streaming argument of C11: an `Alg` that satisfies `Laws` computes the one-shot
    specification for every chunking (`chunking_generic`). -/
namespace PV.Hash
open Spec

/-- the `m.size / B` consecutive `B`-byte blocks of `m` (`MDSpec.blocks` with the block size explicit) -/
def blocksOf (B : Nat) (m : ByteArray) : List ByteArray :=
  (List.range (m.size / B)).map fun i => m.extract (i * B) (i * B + B)

theorem MDSpec.blocks_eq (S : MDSpec) (m : ByteArray) : S.blocks m = blocksOf S.B m := rfl

/-- `n` consecutive blocks of `m` starting at byte `off` -/
def blocksFrom (B : Nat) (m : ByteArray) (off n : Nat) : List ByteArray :=
  (List.range n).map fun i => m.extract (off + i * B) (off + i * B + B)

theorem blocksOf_eq_from (B : Nat) (m : ByteArray) : blocksOf B m = blocksFrom B m 0 (m.size / B) := by
  simp [blocksOf, blocksFrom]

theorem blocksFrom_succ (B : Nat) (m : ByteArray) (off n : Nat) :
    blocksFrom B m off (n + 1) = m.extract off (off + B) :: blocksFrom B m (off + B) n := by
  simp only [blocksFrom, List.range_succ_eq_map, List.map_cons, List.map_map]
  congr 1
  · simp
  · apply List.map_congr_left
    intro i _
    simp only [Function.comp]
    congr 1 <;> simp [Nat.add_mul] <;> omega

theorem blocksFrom_add (B : Nat) (m : ByteArray) (off n k : Nat) :
    blocksFrom B m off (n + k) = blocksFrom B m off n ++ blocksFrom B m (off + n * B) k := by
  induction n generalizing off with
  | zero => simp [blocksFrom]
  | succ n ih =>
    rw [show n + 1 + k = (n + k) + 1 by omega, blocksFrom_succ, blocksFrom_succ, ih]
    simp [Nat.add_mul, Nat.add_assoc, Nat.add_comm B]

theorem blocksFrom_append_left (B : Nat) (a b : ByteArray) (off n : Nat) (h : off + n * B ≤ a.size) :
    blocksFrom B (a ++ b) off n = blocksFrom B a off n := by
  induction n generalizing off with
  | zero => simp [blocksFrom]
  | succ n ih =>
    rw [blocksFrom_succ, blocksFrom_succ, ih _ (by rw [Nat.add_mul] at h; omega)]
    congr 1
    rw [ByteArray.extract_append, extract_empty' b _ _ (Or.inl (by rw [Nat.add_mul] at h; omega))]
    simp

theorem blocksFrom_append_right (B : Nat) (a b : ByteArray) (off n : Nat) :
    blocksFrom B (a ++ b) (a.size + off) n = blocksFrom B b off n := by
  induction n generalizing off with
  | zero => simp [blocksFrom]
  | succ n ih =>
    rw [blocksFrom_succ, blocksFrom_succ, Nat.add_assoc, ih]
    congr 1
    rw [ByteArray.extract_append, extract_empty' a _ _ (Or.inr (by omega))]
    simp

theorem split_at (m : ByteArray) (k : Nat) (h : k ≤ m.size) : m = m.extract 0 k ++ m.extract k m.size := by
  rw [ByteArray.extract_append_extract]
  simp [Nat.max_eq_right h]

/-- the blocks of `m ++ d` are the blocks of `m` followed by the blocks of (pending tail of `m`) `++ d` -/
theorem blocksOf_append (B : Nat) (hB : 0 < B) (m d : ByteArray) :
    blocksOf B (m ++ d) = blocksOf B m ++ blocksOf B (m.extract (m.size / B * B) m.size ++ d) := by
  have hq : m.size / B * B ≤ m.size := Nat.div_mul_le_self _ _
  have hr : m.size = m.size / B * B + m.size % B := by rw [Nat.mul_comm]; exact (Nat.div_add_mod _ _).symm
  have hm := split_at m _ hq
  have hsz : (m.extract 0 (m.size / B * B)).size = m.size / B * B := by
    simp [ByteArray.size_extract]; omega
  have hpsz : (m.extract (m.size / B * B) m.size).size = m.size % B := by
    simp [ByteArray.size_extract]; omega
  have hdiv : (m ++ d).size / B = m.size / B + (m.size % B + d.size) / B := by
    rw [ByteArray.size_append]
    conv => lhs; rw [hr, Nat.add_assoc, Nat.mul_comm, Nat.mul_add_div hB]
  rw [blocksOf_eq_from, hdiv, blocksFrom_add, blocksFrom_append_left _ _ _ _ _ (by omega), ← blocksOf_eq_from]
  congr 1
  rw [blocksOf_eq_from, ByteArray.size_append, hpsz]
  conv => lhs; rw [hm, ByteArray.append_assoc]
  have := blocksFrom_append_right B (m.extract 0 (m.size / B * B)) (m.extract (m.size / B * B) m.size ++ d) 0
    ((m.size % B + d.size) / B)
  rw [hsz] at this
  simpa using this

theorem blocksOf_prefix (B : Nat) (hB : 0 < B) (m : ByteArray) :
    blocksOf B m = blocksOf B (m.extract 0 (m.size / B * B)) := by
  have hq : m.size / B * B ≤ m.size := Nat.div_mul_le_self _ _
  have hsz : (m.extract 0 (m.size / B * B)).size = m.size / B * B := by
    simp [ByteArray.size_extract]; omega
  have key := blocksFrom_append_left B (m.extract 0 (m.size / B * B)) (m.extract (m.size / B * B) m.size) 0
    (m.size / B) (by rw [hsz]; omega)
  rw [← split_at m _ hq] at key
  rw [blocksOf_eq_from, blocksOf_eq_from, hsz, Nat.mul_div_cancel _ hB]
  exact key

theorem blocksOf_small (B : Nat) (m : ByteArray) (h : m.size < B) : blocksOf B m = [] := by
  simp [blocksOf, Nat.div_eq_of_lt h]

theorem blocksOf_one (B : Nat) (hB : 0 < B) (m : ByteArray) (h : m.size = B) : blocksOf B m = [m] := by
  simp [blocksOf, h, Nat.div_self hB]
  rw [← h, ByteArray.extract_zero_size]

end PV.Hash

namespace PV.Hash
open Spec

/-- what the generic argument needs to know about an algorithm -/
structure Laws (A : Alg) where
  /-- compression of one block of bytes (the spec's view) -/
  compress : A.σ → ByteArray → A.σ
  encLen : Nat → List UInt8
  out : A.σ → List UInt8
  hashLen : Nat
  /-- the number the two counter words stand for -/
  kVal : A.κ → Nat
  /-- the counters count bytes modulo `M` -/
  M : Nat
  hB : A.B = 64 ∨ A.B = 128
  hM : A.B ∣ M
  swap_size : ∀ b n, (A.swap b n).size = b.size
  proc_swap : ∀ h b, b.size = A.B → A.proc h (A.swap b 16) = compress h b
  kLeft_eq : ∀ k, A.kLeft k = kVal k % A.B
  kVal_k0 : kVal A.k0 = 0
  kVal_add : ∀ k len, len < 2 ^ 64 → kVal (A.kAdd k len) = (kVal k + len) % M
  encLen_length : ∀ bits, (encLen bits).length = A.L
  proc_final : ∀ h b k, b.size = A.B → 8 * kVal k < M →
    A.proc h (A.swap (A.putLen k b) 14) = compress h (b.extract 0 (A.B - A.L) ++ (encLen (8 * kVal k)).toByteArray)
  pad_eq : A.pad = [0x80].toByteArray ++ zeroBytes (A.B - 1)
  out_eq : ∀ h, (A.hashBytes (A.outSwap h)).take hashLen = out h

variable {A : Alg}

/-- the one-shot specification the laws speak about -/
def Laws.spec (W : Laws A) : MDSpec where
  σ := A.σ
  B := A.B
  L := A.L
  iv := A.iv
  compress := W.compress
  encLen := W.encLen
  out := W.out

theorem Laws.B_pos (W : Laws A) : 0 < A.B := by rcases W.hB with h | h <;> omega
theorem Laws.B_le (W : Laws A) : A.B ≤ 128 := by rcases W.hB with h | h <;> omega

theorem memcpy_whole (buf blk : ByteArray) (h : blk.size = buf.size) : memcpy buf 0 blk = blk := by
  rw [memcpy_eq, extract_empty' buf 0 0 (Or.inl (Nat.le_refl _)), extract_empty' buf _ _ (Or.inr (by omega))]
  simp

theorem wholeBlocks_spec (W : Laws A) (data : Src) (n off : Nat) (buf : ByteArray) (h : A.σ)
    (hbuf : buf.size = A.B) (hin : off + n * A.B ≤ data.size) :
    (A.wholeBlocks data n off buf h).2 = (blocksFrom A.B data.toBytes off n).foldl W.compress h ∧
    (A.wholeBlocks data n off buf h).1.size = A.B ∧
    (n = 0 → (A.wholeBlocks data n off buf h).1 = buf) := by
  induction n generalizing off buf h with
  | zero => simp [Alg.wholeBlocks, blocksFrom, hbuf]
  | succ n ih =>
    have hB := W.B_le
    rw [Nat.add_mul] at hin
    have hread : data.read off A.B = data.toBytes.extract off (off + A.B) := Src.read_eq _ _ _ (by omega) hB
    have hbs : (data.toBytes.extract off (off + A.B)).size = A.B := by
      simp [ByteArray.size_extract]; omega
    simp only [Alg.wholeBlocks]
    rw [hread, memcpy_whole _ _ (by rw [hbs, hbuf]), W.proc_swap _ _ hbs, blocksFrom_succ, List.foldl_cons]
    obtain ⟨h1, h2, _⟩ := ih (off + A.B) (A.swap (data.toBytes.extract off (off + A.B)) 16) (W.compress h (data.toBytes.extract off (off + A.B)))
      (by rw [W.swap_size, hbs]) (by omega)
    exact ⟨h1, h2, by omega⟩

end PV.Hash

namespace PV.Hash
open Spec
variable {A : Alg}

theorem extract_prefix_append (a x z : ByteArray) : (a ++ x ++ z).extract 0 (a.size + x.size) = a ++ x := by
  rw [ByteArray.extract_append, extract_all (a ++ x) _ (by simp [ByteArray.size_append]),
    extract_empty' z _ _ (Or.inl (by simp [ByteArray.size_append]))]
  simp

theorem phase23 (W : Laws A) (data : Src) (buf : ByteArray) (h : A.σ) (left off len : Nat)
    (hbuf : buf.size = A.B) (hoff : off + len = data.size) (hl : left = 0 ∨ left + len < A.B) :
    let r := A.wholeBlocks data (len / A.B) off buf h
    let buf3 := if len % A.B > 0 then memcpy r.1 left (data.read (off + len / A.B * A.B) (len % A.B)) else r.1
    r.2 = (blocksFrom A.B data.toBytes off (len / A.B)).foldl W.compress h ∧ buf3.size = A.B ∧
    buf3.extract 0 (left + len % A.B) = buf.extract 0 left ++ data.toBytes.extract (off + len / A.B * A.B) (off + len) := by
  have hBp := W.B_pos
  have hBl := W.B_le
  have hdm : len / A.B * A.B + len % A.B = len := by rw [Nat.mul_comm]; exact Nat.div_add_mod _ _
  have hl2 : len % A.B < A.B := Nat.mod_lt _ hBp
  have hq0 : left ≠ 0 → len / A.B = 0 := fun hne => Nat.div_eq_of_lt (by omega)
  generalize len / A.B = q at hdm hq0 ⊢
  generalize len % A.B = l2 at hdm hl2 ⊢
  generalize hqB : q * A.B = qB at hdm ⊢
  intro r buf3
  obtain ⟨h1, h2, h3⟩ := wholeBlocks_spec W data q off buf h hbuf (by rw [hqB]; omega)
  have hX : (data.toBytes.extract (off + qB) (off + qB + l2)).size = l2 := by
    simp only [ByteArray.size_extract, Src.size_toBytes]; omega
  have hfit : left + l2 ≤ A.B := by rcases hl with hl | hl <;> omega
  have hread : data.read (off + qB) l2 = data.toBytes.extract (off + qB) (off + qB + l2) :=
    Src.read_eq _ _ _ (by omega) (by omega)
  refine ⟨h1, ?_, ?_⟩
  · show (if l2 > 0 then _ else _ : ByteArray).size = A.B
    split
    · rw [size_memcpy]
      · exact h2
      · rw [hread, hX]; exact h2 ▸ hfit
    · exact h2
  · have hpre : r.1.extract 0 left = buf.extract 0 left := by
      by_cases hl0 : left = 0
      · subst hl0; simp [extract_empty']
      · show (A.wholeBlocks data q off buf h).1.extract 0 left = _
        rw [h3 (hq0 hl0)]
    show (if l2 > 0 then _ else _ : ByteArray).extract 0 (left + l2) = _
    split
    · have hleft : (r.1.extract 0 left).size = left := by
        simp only [ByteArray.size_extract]
        have : r.1.size = A.B := h2
        omega
      rw [hread, memcpy_eq, hX]
      have := extract_prefix_append (r.1.extract 0 left) (data.toBytes.extract (off + qB) (off + qB + l2))
        (r.1.extract (left + l2) r.1.size)
      rw [hleft, hX] at this
      rw [this, hpre]
      congr 2; omega
    · rename_i hz
      have hz : l2 = 0 := by omega
      rw [hz, Nat.add_zero, hpre, extract_empty' data.toBytes _ _ (Or.inl (by omega))]
      simp

end PV.Hash

namespace PV.Hash
open Spec
variable {A : Alg}

theorem update_spec (W : Laws A) (c : Ctx A) (data : Src) (hbuf : c.buf.size = A.B) :
    let T := c.buf.extract 0 (W.kVal c.k % A.B) ++ data.toBytes
    (A.update c data).hash = (blocksOf A.B T).foldl W.compress c.hash ∧
    (A.update c data).buf.size = A.B ∧
    (A.update c data).buf.extract 0 (T.size % A.B) = T.extract (T.size / A.B * A.B) T.size ∧
    (A.update c data).k = A.kAdd c.k data.size := by
  have hBp := W.B_pos
  have hBl := W.B_le
  have hr : W.kVal c.k % A.B < A.B := Nat.mod_lt _ hBp
  generalize hrr : W.kVal c.k % A.B = r at hr
  intro T
  have hP : (c.buf.extract 0 r).size = r := by simp only [ByteArray.size_extract]; omega
  have hTs : T.size = r + data.size := by
    show (c.buf.extract 0 r ++ data.toBytes).size = _
    rw [ByteArray.size_append, hP, Src.size_toBytes]
  unfold Alg.update
  simp only [W.kLeft_eq, hrr]
  by_cases htop : (r != 0 && decide (A.B - r ≤ data.size)) = true
  · simp only [htop, if_true]
    simp only [Bool.and_eq_true, bne_iff_ne, ne_eq, decide_eq_true_eq] at htop
    obtain ⟨hr0, hge⟩ := htop
    -- the topped-up block
    have hread : data.read 0 (A.B - r) = data.toBytes.extract 0 (A.B - r) := by
      have := Src.read_eq data 0 (A.B - r) (by omega) (by omega)
      simpa using this
    have hXs : (data.toBytes.extract 0 (A.B - r)).size = A.B - r := by
      simp only [ByteArray.size_extract, Src.size_toBytes]; omega
    have hblk : memcpy c.buf r (data.read 0 (A.B - r)) = T.extract 0 A.B := by
      rw [hread, memcpy_eq, hXs, extract_empty' c.buf (r + (A.B - r)) c.buf.size (Or.inr (by omega))]
      show _ = (c.buf.extract 0 r ++ data.toBytes).extract 0 A.B
      rw [ByteArray.extract_append, hP, extract_all (c.buf.extract 0 r) _ (by omega)]
      simp
    have hblks : (T.extract 0 A.B).size = A.B := by
      simp only [ByteArray.size_extract, hTs]; omega
    rw [hblk, W.proc_swap _ _ hblks]
    obtain ⟨p1, p2, p3⟩ := phase23 W data (A.swap (T.extract 0 A.B) 16) (W.compress c.hash (T.extract 0 A.B))
      0 (A.B - r) (data.size - (A.B - r)) (by rw [W.swap_size, hblks]) (by omega) (Or.inl rfl)
    have hdiv : T.size / A.B = (data.size - (A.B - r)) / A.B + 1 := by
      rw [hTs, show r + data.size = A.B + (data.size - (A.B - r)) by omega, Nat.add_div_left _ hBp]
    have hmod : T.size % A.B = (data.size - (A.B - r)) % A.B := by
      rw [hTs, show r + data.size = A.B + (data.size - (A.B - r)) by omega, Nat.add_mod_left]
    refine ⟨?_, p2, ?_, trivial⟩
    · show (A.wholeBlocks data _ _ _ _).2 = _
      rw [p1, blocksOf_eq_from, hdiv, blocksFrom_succ, List.foldl_cons]
      simp only [Nat.zero_add]
      congr 1
      have := blocksFrom_append_right A.B (c.buf.extract 0 r) data.toBytes (A.B - r) ((data.size - (A.B - r)) / A.B)
      rw [hP, show r + (A.B - r) = A.B by omega] at this
      exact this.symm
    · simp only [Nat.zero_add] at p3
      rw [hmod, p3, hdiv, Nat.add_mul, Nat.one_mul, hTs]
      rw [extract_empty' (A.swap (T.extract 0 A.B) 16) 0 0 (Or.inl (Nat.le_refl _)), ByteArray.empty_append]
      show _ = (c.buf.extract 0 r ++ data.toBytes).extract _ _
      rw [ByteArray.extract_append, hP,
        extract_empty' (c.buf.extract 0 r) ((data.size - (A.B - r)) / A.B * A.B + A.B) (r + data.size)
          (Or.inr (by rw [hP]; omega)), ByteArray.empty_append]
      congr 1 <;> omega
  · simp only [htop, Bool.false_eq_true, if_false]
    simp only [Bool.and_eq_true, bne_iff_ne, ne_eq, decide_eq_true_eq, not_and, Decidable.not_not] at htop
    have hl : r = 0 ∨ r + data.size < A.B := by
      by_cases h0 : r = 0
      · exact Or.inl h0
      · right; have := htop h0; omega
    obtain ⟨p1, p2, p3⟩ := phase23 W data c.buf c.hash r 0 data.size hbuf (by omega) hl
    simp only [Nat.zero_add] at p1 p2 p3 ⊢
    refine ⟨?_, p2, ?_, trivial⟩
    · rw [p1]
      rcases hl with hl | hl
      · subst hl
        have : T = data.toBytes := by
          show c.buf.extract 0 0 ++ data.toBytes = _
          rw [extract_empty' c.buf 0 0 (Or.inl (Nat.le_refl _))]; simp
        rw [this, blocksOf_eq_from, Src.size_toBytes]
      · rw [Nat.div_eq_of_lt (by omega), blocksOf_small _ _ (by omega)]
        simp [blocksFrom]
    · rcases hl with hl | hl
      · subst hl
        have hT : T = data.toBytes := by
          show c.buf.extract 0 0 ++ data.toBytes = _
          rw [extract_empty' c.buf 0 0 (Or.inl (Nat.le_refl _))]; simp
        simp only [Nat.zero_add] at p3
        rw [hT, Src.size_toBytes, p3, extract_empty' c.buf 0 0 (Or.inl (Nat.le_refl _))]
        simp
      · have h1 : data.size % A.B = data.size := Nat.mod_eq_of_lt (by omega)
        have h2 : data.size / A.B = 0 := Nat.div_eq_of_lt (by omega)
        have h3 : T.size % A.B = T.size := Nat.mod_eq_of_lt (by omega)
        have h4 : T.size / A.B = 0 := Nat.div_eq_of_lt (by omega)
        rw [h3, h4, Nat.zero_mul, ByteArray.extract_zero_size, hTs]
        rw [h1, h2] at p3 ⊢
        rw [p3, Nat.zero_mul, extract_all data.toBytes _ (by simp)]

end PV.Hash

namespace PV.Hash
open Spec
variable {A : Alg}

/-- the streaming invariant: `c` is the context after the bytes `m` -/
structure Inv (W : Laws A) (c : Ctx A) (m : ByteArray) : Prop where
  size : c.buf.size = A.B
  hash : c.hash = (blocksOf A.B m).foldl W.compress A.iv
  pend : c.buf.extract 0 (m.size % A.B) = m.extract (m.size / A.B * A.B) m.size
  cnt : W.kVal c.k = m.size % W.M

theorem inv_init (W : Laws A) : Inv W A.init ByteArray.empty := by
  refine ⟨by simp [Alg.init], ?_, ?_, ?_⟩
  · simp [Alg.init, blocksOf]
  · simp [extract_empty']
  · simp [Alg.init, W.kVal_k0]

theorem tail_shift (B : Nat) (hB : 0 < B) (m d : ByteArray) :
    let T := m.extract (m.size / B * B) m.size ++ d
    (m ++ d).size % B = T.size % B ∧
    (m ++ d).extract ((m ++ d).size / B * B) (m ++ d).size = T.extract (T.size / B * B) T.size := by
  intro T
  have hq : m.size / B * B ≤ m.size := Nat.div_mul_le_self _ _
  have hr : m.size / B * B + m.size % B = m.size := by rw [Nat.mul_comm]; exact Nat.div_add_mod _ _
  have hPs : (m.extract (m.size / B * B) m.size).size = m.size % B := by
    simp only [ByteArray.size_extract]; omega
  have hTs : T.size = m.size % B + d.size := by
    show (_ ++ d).size = _
    rw [ByteArray.size_append, hPs]
  have hsz : (m ++ d).size = m.size / B * B + T.size := by rw [ByteArray.size_append, hTs]; omega
  have hmod : (m ++ d).size % B = T.size % B := by rw [hsz, Nat.mul_comm, Nat.mul_add_mod]
  have hdiv : (m ++ d).size / B = m.size / B + T.size / B := by
    rw [hsz, Nat.mul_comm, Nat.mul_add_div hB]
  refine ⟨hmod, ?_⟩
  have hm0 : (m.extract 0 (m.size / B * B)).size = m.size / B * B := by
    simp only [ByteArray.size_extract]; omega
  rw [hdiv, Nat.add_mul, hsz]
  have hmd : m ++ d = m.extract 0 (m.size / B * B) ++ T := by
    show _ = _ ++ (_ ++ d)
    rw [← ByteArray.append_assoc, ← split_at m _ hq]
  rw [hmd, ByteArray.extract_append, hm0,
    extract_empty' (m.extract 0 (m.size / B * B)) _ _ (Or.inr (by rw [hm0]; omega)), ByteArray.empty_append]
  congr 1 <;> omega

theorem inv_update (W : Laws A) {c : Ctx A} {m : ByteArray} (hI : Inv W c m) (data : Src) (hlen : data.size < 2 ^ 64) :
    Inv W (A.update c data) (m ++ data.toBytes) := by
  have hBp := W.B_pos
  have hr : W.kVal c.k % A.B = m.size % A.B := by rw [hI.cnt, Nat.mod_mod_of_dvd _ W.hM]
  have hu := update_spec W c data hI.size
  simp only [hr, hI.pend] at hu
  obtain ⟨u1, u2, u3, u4⟩ := hu
  obtain ⟨t1, t2⟩ := tail_shift A.B hBp m data.toBytes
  refine ⟨u2, ?_, ?_, ?_⟩
  · rw [u1, blocksOf_append A.B hBp m data.toBytes, List.foldl_append, ← hI.hash]
  · rw [t1, t2, u3]
  · rw [u4, W.kVal_add _ _ hlen, hI.cnt, Nat.mod_add_mod, ByteArray.size_append, Src.size_toBytes]

theorem inv_fold (W : Laws A) (chunks : List Src) (hc : ∀ d ∈ chunks, d.size < 2 ^ 64) {c : Ctx A} {m : ByteArray}
    (hI : Inv W c m) :
    Inv W (chunks.foldl A.update c) (chunks.foldl (fun acc d => acc ++ d.toBytes) m) := by
  induction chunks generalizing c m with
  | nil => exact hI
  | cons d ds ih =>
    simp only [List.foldl_cons]
    exact ih (fun x hx => hc x (List.mem_cons_of_mem _ hx)) (inv_update W hI d (hc d (List.mem_cons_self)))

end PV.Hash

namespace PV.Hash
open Spec
variable {A : Alg}

theorem pad_arith (B : Nat) (hB : B = 64 ∨ B = 128) (n : Nat) :
    let last := if n % B < B - B / 8 then B - B / 8 - n % B else 2 * B - B / 8 - n % B
    1 ≤ last ∧ last ≤ B ∧ (n + last) % B = B - B / 8 ∧ (B - (n + 1 + B / 8) % B) % B = last - 1 := by
  rcases hB with rfl | rfl <;> intro last <;> simp only [last] <;> split <;> omega

theorem pad_prefix (W : Laws A) (last : Nat) (h1 : 1 ≤ last) (h2 : last ≤ A.B) :
    A.pad.extract 0 last = [0x80].toByteArray ++ zeroBytes (last - 1) := by
  rw [W.pad_eq, ByteArray.extract_append]
  have h : ([0x80] : List UInt8).toByteArray.size = 1 := by simp
  rw [h, extract_all _ _ (by omega), Nat.zero_sub, zeroBytes_extract _ _ (by omega)]

theorem finish_spec (W : Laws A) {c : Ctx A} {m : ByteArray} (hI : Inv W c m) (hbound : 8 * m.size < W.M) :
    (A.digest (A.finish c)).take W.hashLen = W.spec.H m := by
  have hBp := W.B_pos
  have kv : W.kVal c.k = m.size := by rw [hI.cnt, Nat.mod_eq_of_lt (by omega)]
  obtain ⟨a1, a2, a3, a4⟩ := pad_arith A.B W.hB m.size
  have hleft : A.kLeft c.k = m.size % A.B := by rw [W.kLeft_eq, kv]
  unfold Alg.finish Alg.digest
  simp only [hleft]
  have hpl : A.padLen (m.size % A.B) = (if m.size % A.B < A.B - A.B / 8 then A.B - A.B / 8 - m.size % A.B else 2 * A.B - A.B / 8 - m.size % A.B) := rfl
  rw [hpl]
  generalize (if m.size % A.B < A.B - A.B / 8 then A.B - A.B / 8 - m.size % A.B else 2 * A.B - A.B / 8 - m.size % A.B) = last at a1 a2 a3 a4
  rw [if_pos (by omega : last > 0)]
  -- the padding bytes go through `update`
  have hX := pad_prefix W last a1 a2
  have hsrc : ({ bytes := A.pad.extract 0 last } : Src).toBytes = [0x80].toByteArray ++ zeroBytes (last - 1) := by
    simp [Src.toBytes, hX, zeroBytes_zero]
  have hsz : ({ bytes := A.pad.extract 0 last } : Src).size = last := by
    rw [← Src.size_toBytes, hsrc]; simp [ByteArray.size_append]; omega
  have hI1 := inv_update W hI { bytes := A.pad.extract 0 last } (by rw [hsz]; have := W.B_le; omega)
  rw [hsrc] at hI1
  generalize A.update c { bytes := A.pad.extract 0 last } = c1 at hI1
  generalize hm1 : m ++ ([0x80].toByteArray ++ zeroBytes (last - 1)) = m1 at hI1
  have hm1s : m1.size = m.size + last := by
    rw [← hm1]; simp [ByteArray.size_append]; omega
  -- the last block
  have hfin := W.proc_final c1.hash c1.buf c.k hI1.size (by rw [kv]; exact hbound)
  rw [hfin, W.out_eq, kv]
  have hp := hI1.pend
  rw [hm1s, a3] at hp
  have hL : A.L = A.B / 8 := rfl
  rw [hL, hp]
  have hpz : W.spec.padZeros m.size = last - 1 := a4
  have hpad : W.spec.pad m = m1 ++ (W.encLen (8 * m.size)).toByteArray := by
    show m ++ [0x80].toByteArray ++ zeroBytes (W.spec.padZeros m.size) ++ _ = _
    rw [hpz, ← hm1, ByteArray.append_assoc (a := m)]
    rfl
  show _ = W.out ((blocksOf A.B (W.spec.pad m)).foldl W.compress A.iv)
  have hlast : (m1.extract (m1.size / A.B * A.B) m1.size ++ (W.encLen (8 * m.size)).toByteArray).size = A.B := by
    have hq : m1.size / A.B * A.B + m1.size % A.B = m1.size := by rw [Nat.mul_comm]; exact Nat.div_add_mod _ _
    have he : (W.encLen (8 * m.size)).toByteArray.size = A.B / 8 := by
      rw [List.size_toByteArray, W.encLen_length]; rfl
    rw [ByteArray.size_append, he, ByteArray.size_extract, Nat.min_self]
    rw [hm1s, a3] at hq
    rw [hm1s]
    rcases W.hB with h | h <;> omega
  rw [hpad, blocksOf_append A.B hBp m1, List.foldl_append, ← hI1.hash, blocksOf_one A.B hBp _ hlast, hm1s]
  rfl

end PV.Hash

namespace PV.Hash
open Spec
variable {A : Alg}

/-- **Generic chunking theorem.**  For an algorithm that satisfies `Laws`: whatever the splitting of
    the input into `update` calls (each of a `psize` length), `finish` leaves the one-shot digest of
    the concatenation, as long as the bit length fits the length field. -/
theorem chunking_generic (W : Laws A) (chunks : List Src) (hc : ∀ d ∈ chunks, d.size < 2 ^ 64)
    (hb : 8 * (Src.concat chunks).size < W.M) :
    (A.digest (A.finish (chunks.foldl A.update A.init))).take W.hashLen = W.spec.H (Src.concat chunks) :=
  finish_spec W (inv_fold W chunks hc (inv_init W)) hb

end PV.Hash

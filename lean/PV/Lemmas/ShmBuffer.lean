import PV.Model.ShmBuffer
import PV.Spec.Queue
/-! Helper definitions and lemmas for C08 (ring buffer ⇒ FIFO queue). -/
namespace PV.SB

/-- well-formed shared state, as seen through a handle of modulus `M` -/
structure WF (M : Nat) (s : Shared) : Prop where
  mlo : 2 ≤ M
  mhi : M < 2147483648
  rd : s.rd < M
  wr : s.wr < M
  len : s.data.length = M

/-- index of the `i`-th queued byte in the data area -/
def wrapIdx (M x : Nat) : Nat := if x < M then x else x - M

/-- what the ring means: the bytes from `rd` (inclusive) cyclically up to `wr` (exclusive) -/
def abs (M : Nat) (s : Shared) : List UInt8 :=
  (List.range (usedSpace M s)).map fun i => s.data.getD (wrapIdx M (s.rd + i)) 0

theorem used_add_free' {M : Nat} {s : Shared} (wf : WF M s) : usedSpace M s + freeSpace M s = M - 1 := by
  sorry

theorem used_is_length' {M : Nat} {s : Shared} (wf : WF M s) : usedSpace M s = Queue.used (abs M s) := by
  sorry

theorem write_refines' {M : Nat} {s : Shared} (wf : WF M s) (xs : List UInt8) :
    ∃ s' r, write M s xs = .ok s' r ∧ WF M s' ∧ (abs M s', r) = Queue.write (M - 1) (abs M s) xs := by
  sorry

theorem read_refines' {M : Nat} {s : Shared} (wf : WF M s) (len : Nat) :
    ∃ s' out r, read M s len = .ok s' (out, r) ∧ WF M s' ∧ (abs M s', out, r) = Queue.read (abs M s) len := by
  sorry

theorem clear_refines' {M : Nat} {s : Shared} (wf : WF M s) : WF M (clear M s) ∧ abs M (clear M s) = [] := by
  sorry

theorem init_refines' {M : Nat} (h1 : 2 ≤ M) (h2 : M < 2147483648) : WF M (init M) ∧ abs M (init M) = [] := by
  sorry

end PV.SB

import PV.Model.ShmBuffer
import PV.Spec.Queue
/-! Helper definitions and lemmas for C08 (ring buffer ⇒ FIFO queue). -/
namespace PV.SB

/-- well-formed shared state, as seen through a handle of modulus `M` -/
structure WF (M : Nat) (s : Shared) : Prop where
  mlo : 2 ≤ M
  mhi : M < 2147483648
  rd : s.rd < M
  wr : s.wr < M
  len : s.data.length = M

/-- index of the `i`-th queued byte in the data area -/
def wrapIdx (M x : Nat) : Nat := if x < M then x else x - M

/-- what the ring means: the bytes from `rd` (inclusive) cyclically up to `wr` (exclusive) -/
def abs (M : Nat) (s : Shared) : List UInt8 :=
  (List.range (usedSpace M s)).map fun i => s.data.getD (wrapIdx M (s.rd + i)) 0

/-! ## auxiliary lemmas -/

theorem toPint_eq {n : Nat} (h : n < 2147483648) : toPint n = (n : Int) := by
  unfold toPint
  rw [BitVec.toInt_eq_toNat_cond]
  simp
  have : n % 4294967296 = n := Nat.mod_eq_of_lt (by omega)
  rw [this]
  omega

theorem usedSpace_eq {M : Nat} {s : Shared} (wf : WF M s) :
    usedSpace M s = if s.rd ≤ s.wr then s.wr - s.rd else M - (s.rd - s.wr) := by
  obtain ⟨mlo, mhi, hrd, hwr, hlen⟩ := wf
  unfold usedSpace sub64 W
  split <;> split <;> (try split) <;> omega

theorem freeSpace_eq {M : Nat} {s : Shared} (wf : WF M s) :
    freeSpace M s = if s.rd ≤ s.wr then M - 1 - (s.wr - s.rd) else s.rd - s.wr - 1 := by
  obtain ⟨mlo, mhi, hrd, hwr, hlen⟩ := wf
  unfold freeSpace sub64 W
  split <;> split <;> (try split) <;> omega

theorem ext_getD {l1 l2 : List UInt8} (hl : l1.length = l2.length)
    (h : ∀ i, i < l1.length → l1.getD i 0 = l2.getD i 0) : l1 = l2 := by
  apply List.ext_getElem hl
  intro i h1 h2
  have := h i h1
  simpa [List.getD_eq_getElem?_getD, h1, h2] using this

theorem abs_length (M : Nat) (s : Shared) : (abs M s).length = usedSpace M s := by
  simp [abs]

theorem abs_getD {M : Nat} {s : Shared} {i : Nat} (h : i < usedSpace M s) :
    (abs M s).getD i 0 = s.data.getD (wrapIdx M (s.rd + i)) 0 := by
  simp [abs, List.getD_eq_getElem?_getD, h]

theorem abs_nil {M : Nat} {s : Shared} (h : usedSpace M s = 0) : abs M s = [] := by
  simp [abs, h]

theorem getD_drop (xs : List UInt8) (k j : Nat) : (xs.drop k).getD j 0 = xs.getD (k + j) 0 := by
  simp [List.getD_eq_getElem?_getD, List.getElem?_drop]

theorem getD_take (xs : List UInt8) (k j : Nat) (h : j < k) : (xs.take k).getD j 0 = xs.getD j 0 := by
  simp [List.getD_eq_getElem?_getD, h]

theorem getD_append_left (xs ys : List UInt8) (j : Nat) (h : j < xs.length) : (xs ++ ys).getD j 0 = xs.getD j 0 := by
  simp [List.getD_eq_getElem?_getD, List.getElem?_append, h]

theorem getD_append_right (xs ys : List UInt8) (j : Nat) (h : xs.length ≤ j) : (xs ++ ys).getD j 0 = ys.getD (j - xs.length) 0 := by
  have : ¬ j < xs.length := by omega
  simp [List.getD_eq_getElem?_getD, List.getElem?_append, this]


theorem setRange_spec (d : List UInt8) (st : Nat) (xs : List UInt8) (h : st + xs.length ≤ d.length) :
    ∃ d', setRange d st xs = some d' ∧ d'.length = d.length ∧
      ∀ j, d'.getD j 0 = if st ≤ j ∧ j < st + xs.length then xs.getD (j - st) 0 else d.getD j 0 := by
  refine ⟨d.take st ++ xs ++ d.drop (st + xs.length), by simp [setRange, h], ?_, ?_⟩
  · simp; omega
  · intro j
    simp only [List.getD_eq_getElem?_getD, List.getElem?_append, List.getElem?_take, List.getElem?_drop, List.length_append, List.length_take]
    have hm : min st d.length = st := by omega
    rw [hm]
    by_cases h1 : j < st
    · have : j < st + xs.length := by omega
      have h3 : ¬ (st ≤ j ∧ j < st + xs.length) := by omega
      rw [if_neg h3]; simp [h1, this]
    · by_cases h2 : j < st + xs.length
      · have h3 : (st ≤ j ∧ j < st + xs.length) := by omega
        rw [if_pos h3]; simp [h1, h2]
      · have h3 : ¬ (st ≤ j ∧ j < st + xs.length) := by omega
        have h4 : st + xs.length + (j - (st + xs.length)) = j := by omega
        rw [if_neg h3]; simp [h2, h4]

theorem getRange_spec (d : List UInt8) (st len : Nat) (h : st + len ≤ d.length) :
    ∃ o, getRange d st len = some o ∧ o.length = len ∧ ∀ j, j < len → o.getD j 0 = d.getD (st + j) 0 := by
  refine ⟨(d.drop st).take len, by simp [getRange, h], ?_, ?_⟩
  · simp; omega
  · intro j hj
    simp [List.getD_eq_getElem?_getD, List.getElem?_drop, hj]

theorem used_cases {M : Nat} {s : Shared} (wf : WF M s) :
    (s.rd ≤ s.wr → usedSpace M s = s.wr - s.rd) ∧ (s.wr < s.rd → usedSpace M s = M - (s.rd - s.wr)) := by
  rw [usedSpace_eq wf]; split <;> omega

theorem free_cases {M : Nat} {s : Shared} (wf : WF M s) :
    (s.rd ≤ s.wr → freeSpace M s = M - 1 - (s.wr - s.rd)) ∧ (s.wr < s.rd → freeSpace M s = s.rd - s.wr - 1) := by
  rw [freeSpace_eq wf]; split <;> omega

theorem wrapIdx_cases (M x : Nat) : (x < M → wrapIdx M x = x) ∧ (M ≤ x → wrapIdx M x = x - M) := by
  unfold wrapIdx; split <;> omega

theorem mod_eq_wrapIdx {M x : Nat} (h : x < 2 * M) : x % M = wrapIdx M x := by
  unfold wrapIdx
  split
  · exact Nat.mod_eq_of_lt (by omega)
  · rw [Nat.mod_eq_sub_mod (by omega)]; exact Nat.mod_eq_of_lt (by omega)

/-- the abstraction after a successful write -/
theorem abs_write {M : Nat} {s s' : Shared} (wf : WF M s) (xs : List UInt8)
    (hfit : xs.length ≤ freeSpace M s)
    (hrd : s'.rd = s.rd) (hwr : s'.wr = (s.wr + xs.length) % M) (hl : s'.data.length = M)
    (hin : ∀ i, i < xs.length → s'.data.getD (wrapIdx M (s.wr + i)) 0 = xs.getD i 0)
    (hout : ∀ j, j < M → ¬ ((s.wr ≤ j ∧ j < s.wr + xs.length) ∨ j + M < s.wr + xs.length) →
      s'.data.getD j 0 = s.data.getD j 0) :
    WF M s' ∧ abs M s' = abs M s ++ xs := by
  have hu := used_cases wf
  have hf := free_cases wf
  obtain ⟨mlo, mhi, hrd0, hwr0, hlen⟩ := wf
  rw [mod_eq_wrapIdx (by omega)] at hwr
  have hw := wrapIdx_cases M (s.wr + xs.length)
  have wf' : WF M s' := ⟨mlo, mhi, by omega, by omega, hl⟩
  refine ⟨wf', ?_⟩
  have hu' := used_cases wf'
  have hlen' : usedSpace M s' = usedSpace M s + xs.length := by omega
  apply ext_getD
  · simp [abs_length, hlen']
  · intro i hi
    rw [abs_length] at hi
    rw [abs_getD hi, hrd]
    rw [hlen'] at hi
    clear hu' hlen' hw hwr wf'
    have hw1 := wrapIdx_cases M (s.rd + i)
    by_cases h1 : i < usedSpace M s
    · rw [getD_append_left _ _ _ (by rw [abs_length]; exact h1), abs_getD h1]
      apply hout
      · omega
      · omega
    · rw [getD_append_right _ _ _ (by rw [abs_length]; omega), abs_length]
      have hw2 := wrapIdx_cases M (s.wr + (i - usedSpace M s))
      have : wrapIdx M (s.rd + i) = wrapIdx M (s.wr + (i - usedSpace M s)) := by omega
      rw [this]
      exact hin _ (by omega)


theorem abs_read {M : Nat} {s : Shared} (wf : WF M s) (len c : Nat)
    (hc : (usedSpace M s ≤ len → c = usedSpace M s) ∧ (len < usedSpace M s → c = len)) :
    WF M { s with rd := (s.rd + c) % M } ∧ abs M { s with rd := (s.rd + c) % M } = (abs M s).drop len := by
  have hu := used_cases wf
  obtain ⟨mlo, mhi, hrd0, hwr0, hlen⟩ := wf
  rw [mod_eq_wrapIdx (by omega)]
  have hw := wrapIdx_cases M (s.rd + c)
  have wf' : WF M { s with rd := wrapIdx M (s.rd + c) } := ⟨mlo, mhi, by simp only []; omega, hwr0, hlen⟩
  refine ⟨wf', ?_⟩
  have hu' := used_cases wf'
  simp only [] at hu'
  have hlen' : usedSpace M { s with rd := wrapIdx M (s.rd + c) } = usedSpace M s - len := by omega
  apply ext_getD
  · simp [abs_length, hlen']
  · intro i hi
    rw [abs_length] at hi
    rw [abs_getD hi, getD_drop, abs_getD (by omega)]
    simp only []
    rw [hlen'] at hi
    have hcl : c = len := by omega
    clear hu' hlen' hc wf'
    have hw1 := wrapIdx_cases M (wrapIdx M (s.rd + c) + i)
    have hw2 := wrapIdx_cases M (s.rd + (len + i))
    congr 1; omega

theorem out_eq_take {M : Nat} {s : Shared} (len c : Nat) (out : List UInt8)
    (hc : (usedSpace M s ≤ len → c = usedSpace M s) ∧ (len < usedSpace M s → c = len))
    (hl : out.length = c) (hg : ∀ j, j < c → out.getD j 0 = s.data.getD (wrapIdx M (s.rd + j)) 0) :
    out = (abs M s).take len := by
  apply ext_getD
  · simp [abs_length, hl]; omega
  · intro i hi
    rw [getD_take _ _ _ (by omega), abs_getD (by omega), hg i (by omega)]

/-! ## the lemmas used by `PV.Props.C08` -/

theorem used_add_free' {M : Nat} {s : Shared} (wf : WF M s) : usedSpace M s + freeSpace M s = M - 1 := by
  have hu := used_cases wf
  have hf := free_cases wf
  obtain ⟨mlo, mhi, hrd0, hwr0, hlen⟩ := wf
  omega

theorem used_is_length' {M : Nat} {s : Shared} (wf : WF M s) : usedSpace M s = Queue.used (abs M s) := by
  have _ := wf
  simp [Queue.used, abs_length]

theorem write_refines' {M : Nat} {s : Shared} (wf : WF M s) (xs : List UInt8) :
    ∃ s' r, write M s xs = .ok s' r ∧ WF M s' ∧ (abs M s', r) = Queue.write (M - 1) (abs M s) xs := by
  have hu := used_cases wf
  have hf := free_cases wf
  have wf0 := wf
  obtain ⟨mlo, mhi, hrd0, hwr0, hlen⟩ := wf
  unfold write Queue.write
  by_cases h0 : xs.length = 0
  · exact ⟨s, -1, by simp [h0], wf0, by simp [h0]⟩
  · rw [if_neg h0, if_neg h0]
    by_cases h1 : freeSpace M s < xs.length
    · refine ⟨s, 0, by simp [h1], wf0, ?_⟩
      have : ¬ xs.length ≤ M - 1 - (abs M s).length := by rw [abs_length]; omega
      simp [this]
    · rw [if_neg h1]
      have hq : xs.length ≤ M - 1 - (abs M s).length := by rw [abs_length]; omega
      rw [if_pos hq]
      simp only [Nat.mod_eq_of_lt hwr0]
      by_cases h2 : s.wr + xs.length ≤ M
      · rw [if_pos h2]
        obtain ⟨d', e, hl, hg⟩ := setRange_spec s.data s.wr xs (by omega)
        rw [e]
        refine ⟨_, _, rfl, ?_⟩
        have := abs_write (s' := { s with data := d', wr := (s.wr + xs.length) % M }) wf0 xs (by omega) rfl rfl (by simp [hl, hlen])
          (by
            intro i hi
            have hw := wrapIdx_cases M (s.wr + i)
            have : wrapIdx M (s.wr + i) = s.wr + i := by omega
            simp only [this, hg]
            rw [if_pos (by omega)]
            congr 1; omega)
          (by
            intro j hj hn
            simp only [hg]
            rw [if_neg (by omega)])
        exact ⟨this.1, by rw [this.2]⟩
      · rw [if_neg h2]
        have hk : (xs.take (M - s.wr)).length = M - s.wr := by simp; omega
        have hk2 : (xs.drop (M - s.wr)).length = xs.length - (M - s.wr) := by simp
        obtain ⟨d1, e1, hl1, hg1⟩ := setRange_spec s.data s.wr (xs.take (M - s.wr)) (by omega)
        obtain ⟨d2, e2, hl2, hg2⟩ := setRange_spec d1 0 (xs.drop (M - s.wr)) (by omega)
        rw [e1]; simp only []; rw [e2]
        refine ⟨_, _, rfl, ?_⟩
        have := abs_write (s' := { s with data := d2, wr := (s.wr + xs.length) % M }) wf0 xs (by omega) rfl rfl (by simp [hl2, hl1, hlen])
          (by
            intro i hi
            have hw := wrapIdx_cases M (s.wr + i)
            simp only [hg2, hg1, hk, hk2]
            by_cases hc : s.wr + i < M
            · have : wrapIdx M (s.wr + i) = s.wr + i := by omega
              rw [this, if_neg (by omega), if_pos (by omega), getD_take _ _ _ (by omega)]
              congr 1; omega
            · have : wrapIdx M (s.wr + i) = s.wr + i - M := by omega
              rw [this, if_pos (by omega), getD_drop]
              congr 1; omega)
          (by
            intro j hj hn
            simp only [hg2, hg1, hk, hk2]
            rw [if_neg (by omega), if_neg (by omega)])
        exact ⟨this.1, by rw [this.2]⟩

theorem read_refines' {M : Nat} {s : Shared} (wf : WF M s) (len : Nat) :
    ∃ s' out r, read M s len = .ok s' (out, r) ∧ WF M s' ∧ (abs M s', out, r) = Queue.read (abs M s) len := by
  have hu := used_cases wf
  have wf0 := wf
  obtain ⟨mlo, mhi, hrd0, hwr0, hlen⟩ := wf
  unfold read Queue.read
  by_cases h0 : len = 0
  · exact ⟨s, [], -1, by simp [h0], wf0, by simp [h0]⟩
  · rw [if_neg h0, if_neg h0]
    by_cases h1 : s.rd = s.wr
    · refine ⟨s, [], 0, by simp [h1], wf0, ?_⟩
      have : abs M s = [] := abs_nil (by omega)
      simp [this]
    · rw [if_neg h1]
      simp only [Nat.mod_eq_of_lt hrd0]
      generalize hc : (if usedSpace M s ≤ len then usedSpace M s else len) = c
      have hc' : (usedSpace M s ≤ len → c = usedSpace M s) ∧ (len < usedSpace M s → c = len) := by
        rw [← hc]; split <;> omega
      have hr := abs_read wf0 len c hc'
      have hmin : ((min len (abs M s).length : Nat) : Int) = toPint c := by
        rw [toPint_eq (by omega), abs_length]; congr 1; omega
      rw [hmin, ← hr.2]
      by_cases h2 : s.rd + c ≤ M
      · rw [if_pos h2]
        obtain ⟨o, e, hl, hg⟩ := getRange_spec s.data s.rd c (by omega)
        rw [e]
        refine ⟨_, _, _, rfl, hr.1, ?_⟩
        have := out_eq_take (M := M) (s := s) len c o hc' hl (by
          intro j hj
          have hw := wrapIdx_cases M (s.rd + j)
          rw [hg j hj]; congr 1; omega)
        rw [this]
      · rw [if_neg h2]
        obtain ⟨a, ea, hla, hga⟩ := getRange_spec s.data s.rd (M - s.rd) (by omega)
        obtain ⟨b, eb, hlb, hgb⟩ := getRange_spec s.data 0 (c - (M - s.rd)) (by omega)
        rw [ea, eb]
        refine ⟨_, _, _, rfl, hr.1, ?_⟩
        have := out_eq_take (M := M) (s := s) len c (a ++ b) hc' (by simp [hla, hlb]; omega) (by
          intro j hj
          have hw := wrapIdx_cases M (s.rd + j)
          by_cases hj2 : j < M - s.rd
          · rw [getD_append_left _ _ _ (by omega), hga j hj2]; congr 1; omega
          · rw [getD_append_right _ _ _ (by omega), hgb _ (by omega)]; congr 1; omega)
        rw [this]

theorem clear_refines' {M : Nat} {s : Shared} (wf : WF M s) : WF M (clear M s) ∧ abs M (clear M s) = [] := by
  obtain ⟨mlo, mhi, hrd0, hwr0, hlen⟩ := wf
  have wf' : WF M (clear M s) := ⟨mlo, mhi, by simp [clear]; omega, by simp [clear]; omega, by simp [clear]; omega⟩
  refine ⟨wf', abs_nil ?_⟩
  have := used_cases wf'
  simp [clear] at this
  exact this

theorem init_refines' {M : Nat} (h1 : 2 ≤ M) (h2 : M < 2147483648) : WF M (init M) ∧ abs M (init M) = [] := by
  have wf' : WF M (init M) := ⟨h1, h2, by simp [init]; omega, by simp [init]; omega, by simp [init]⟩
  refine ⟨wf', abs_nil ?_⟩
  have := used_cases wf'
  simp [init] at this
  exact this

end PV.SB

import PV.Model.IPCSysV
/-! Helper lemmas for the System V model (`PV.Model.IPCSysV`): steps, logs, EINTR transparency. -/
namespace PV.SysV
open PV.Generated.IPCSysV

theorem step_none (g : G) (t : Tid) (i : Bool) (h : g.calls t = none) : g.step t i = g := by
  simp [G.step, h]

theorem step_log (g : G) (t : Tid) (i : Bool) (c : Call) (h : g.calls t = some c) :
    (g.step t i).log = ⟨t, g.pidOf t, c.next, (sysStep (g.pidOf t) i c.next g.os c.name).2, c.file⟩ :: g.log := by
  simp only [G.step, h]
  cases hr : c.after (sysStep (g.pidOf t) i c.next g.os c.name).2 with
  | cont c' => simp [G.setCall]
  | done r =>
    obtain ⟨ret, nh⟩ := r
    cases nh with
    | none => simp [G.setCall, G.setRet]
    | some x =>
      obtain ⟨hid, y⟩ := x
      cases y <;> simp [G.setCall, G.setRet, G.setHandle]

theorem step_os (g : G) (t : Tid) (i : Bool) (c : Call) (h : g.calls t = some c) :
    (g.step t i).os = (sysStep (g.pidOf t) i c.next g.os c.name).1 := by
  simp only [G.step, h]
  cases hr : c.after (sysStep (g.pidOf t) i c.next g.os c.name).2 with
  | cont c' => simp [G.setCall]
  | done r =>
    obtain ⟨ret, nh⟩ := r
    cases nh with
    | none => simp [G.setCall, G.setRet]
    | some x =>
      obtain ⟨hid, y⟩ := x
      cases y <;> simp [G.setCall, G.setRet, G.setHandle]

/-! ## EINTR transparency -/

/-- equal up to the ghost log -/
def G.Same (g g' : G) : Prop :=
  g.os = g'.os ∧ g.pidOf = g'.pidOf ∧ g.hs = g'.hs ∧ g.calls = g'.calls ∧ g.ret = g'.ret

theorem G.Same.refl (g : G) : g.Same g := ⟨rfl, rfl, rfl, rfl, rfl⟩

theorem G.Same.trans {a b c : G} (h1 : a.Same b) (h2 : b.Same c) : a.Same c :=
  ⟨h1.1.trans h2.1, h1.2.1.trans h2.2.1, h1.2.2.1.trans h2.2.2.1, h1.2.2.2.1.trans h2.2.2.2.1, h1.2.2.2.2.trans h2.2.2.2.2⟩

/-- the only interruptible call site is the `semop` loop, and an EINTR there re-issues the call -/
theorem sem_after_eintr (s : SemSt) (h : s.next.interruptible = true) : s.after (.err .EINTR) = .cont s := by
  obtain ⟨api, hd, pc, built, failing, recreated⟩ := s
  cases pc <;> simp [SemSt.next, Sys.interruptible] at h
  cases api <;> simp [SemSt.after, Errno.num, acquireRetryErrno, releaseRetryErrno, PV.Generated.IPCSysV.EINTR]

theorem shm_after_eintr (s : ShmSt) (h : s.next.interruptible = true) : s.after (.err .EINTR) = .cont s := by
  obtain ⟨isNew, hd, req, pc, built, isExists, failing⟩ := s
  cases pc with
  | cSem st =>
    have := sem_after_eintr st (by simpa [ShmSt.next] using h)
    simp [ShmSt.after, this]
  | kSem st =>
    have := sem_after_eintr st (by simpa [ShmSt.next] using h)
    simp [ShmSt.after, this]
  | _ => simp [ShmSt.next, Sys.interruptible] at h

theorem after_eintr (c : Call) (h : c.next.interruptible = true) : c.after (.err .EINTR) = .cont c := by
  cases c with
  | semNew hid s => simp [Call.after, sem_after_eintr s (by simpa [Call.next] using h)]
  | semFree s => simp [Call.after, sem_after_eintr s (by simpa [Call.next] using h)]
  | semOp hid s => simp [Call.after, sem_after_eintr s (by simpa [Call.next] using h)]
  | shmNew hid s => simp [Call.after, shm_after_eintr s (by simpa [Call.next] using h)]
  | shmFree s => simp [Call.after, shm_after_eintr s (by simpa [Call.next] using h)]
  | lockOp hid m s => simp [Call.after, sem_after_eintr s (by simpa [Call.next] using h)]

theorem step_intr_same (g : G) (t : Tid) (c : Call) (hc : g.calls t = some c) (hi : c.next.interruptible = true) :
    (g.step t true).Same g := by
  have hs : sysStep (g.pidOf t) true c.next g.os c.name = (g.os, .err .EINTR) := by simp [sysStep, hi]
  simp only [G.step, hc, hs, after_eintr c hi, G.setCall]
  refine ⟨rfl, rfl, rfl, ?_, rfl⟩
  funext t'
  by_cases e : t' = t
  · subst e; simp [hc]
  · simp [e]

theorem intr_steps_same (n : Nat) : ∀ (g : G) (t : Tid) (c : Call), g.calls t = some c → c.next.interruptible = true →
    ((List.replicate n (Action.step t true)).foldl exec g).Same g := by
  induction n with
  | zero => intro g t c _ _; exact G.Same.refl g
  | succ n ih =>
    intro g t c hc hi
    simp only [List.replicate_succ, List.foldl_cons, exec]
    have h1 := step_intr_same g t c hc hi
    have hc' : (g.step t true).calls t = some c := by rw [h1.2.2.2.1]; exact hc
    exact (ih (g.step t true) t c hc' hi).trans h1

/-- `step` does not look at the log -/
theorem step_same (g g' : G) (t : Tid) (i : Bool) (h : g.Same g') :
    (g.step t i).Same (g'.step t i) ∧ ((g.step t i).log.head?.map (·.res) = (g'.step t i).log.head?.map (·.res) ∨ g.calls t = none) := by
  obtain ⟨h1, h2, h3, h4, h5⟩ := h
  cases hc : g.calls t with
  | none =>
    have hc' : g'.calls t = none := by rw [← h4]; exact hc
    rw [step_none g t i hc, step_none g' t i hc']
    exact ⟨⟨h1, h2, h3, h4, h5⟩, Or.inr rfl⟩
  | some c =>
    have hc' : g'.calls t = some c := by rw [← h4]; exact hc
    refine ⟨?_, Or.inl ?_⟩
    · simp only [G.step, hc, hc', ← h1, ← h2]
      cases hr : c.after (sysStep (g.pidOf t) i c.next g.os c.name).2 with
      | cont c' => simp [G.Same, G.setCall, h3, h4, h5]
      | done r =>
        obtain ⟨ret, nh⟩ := r
        cases nh with
        | none => simp [G.Same, G.setCall, G.setRet, h3, h4, h5]
        | some x =>
          obtain ⟨hid, y⟩ := x
          cases y <;> simp [G.Same, G.setCall, G.setRet, G.setHandle, h3, h4, h5]
    · rw [step_log g t i c hc, step_log g' t i c hc', h1, h2]
      simp

theorem runCall_same (fuel : Nat) : ∀ (g g' : G) (t : Tid) (sc : List Nat), g.Same g' →
    (runCall g t sc fuel).Same (runCall g' t [] fuel) := by
  induction fuel with
  | zero => intro g g' t sc h; exact h
  | succ f ih =>
    intro g g' t sc h
    cases hc : g.calls t with
    | none =>
      have hc' : g'.calls t = none := by rw [← h.2.2.2.1]; exact hc
      simp only [runCall, hc, hc']; exact h
    | some c =>
      have hc' : g'.calls t = some c := by rw [← h.2.2.2.1]; exact hc
      simp only [runCall, hc, hc', List.headD_nil, ite_self, List.replicate_zero, List.foldl_nil, List.tail_nil]
      generalize hn : (if c.next.interruptible = true then sc.headD 0 else 0) = n
      have h1 : ((List.replicate n (Action.step t true)).foldl exec g).Same g := by
        by_cases hi : c.next.interruptible = true
        · exact intr_steps_same n g t c hc hi
        · have : n = 0 := by simp [hi] at hn; exact hn.symm
          subst this; exact G.Same.refl g
      have h2 := step_same _ g' t false (h1.trans h)
      have hcc : ((List.replicate n (Action.step t true)).foldl exec g).calls t = some c := by
        rw [h1.2.2.2.1]; exact hc
      have hlog := h2.2.resolve_right (by rw [hcc]; simp)
      rw [step_log _ t false c hcc, step_log g' t false c hc'] at hlog
      rw [step_log _ t false c hcc, step_log g' t false c hc']
      simp only [List.head?_cons, Option.map_some, Option.some.injEq] at hlog
      rw [hlog]
      generalize (sysStep (g'.pidOf t) false c.next g'.os c.name).2 = R
      cases R with
      | block => exact h2.1
      | ok v => exact ih _ _ t sc.tail h2.1
      | stat a b => exact ih _ _ t sc.tail h2.1
      | err e => exact ih _ _ t sc.tail h2.1

theorem eintr_transparent (g : G) (t : Tid) (op : Op) (script : List Nat) :
    (g.call t op script).Same (g.call t op []) :=
  runCall_same seqFuel _ _ t script (G.Same.refl _)

end PV.SysV

import PV.Spec.UThreadSteps
import PV.Lemmas.UThread
/-!
Refinement between the history machine and the independent executable reference `PV.Spec.UThread`:
an abstraction relation `Abs` between the two states, preserved by every event the machine accepts,
under which the API-visible answers (`Obs`) of both sides are equal.
-/
namespace PV.UThread
open PV.Generated.UThread
open PV.UThreadSpec

-- the reference's operations under a prefix (several share their names with the machine's)
namespace Sp
export PV.UThreadSpec (spawn create ref drop current exit join threadEnd keyNew keyFree setLocal replaceLocal)
end Sp

/-! ## association lists and the canonical order of notifier calls -/

theorem lookup_store {α β : Type} [DecidableEq α] (l : List (α × β)) (a a' : α) (b : β) :
    lookup (store l a b) a' = if a' = a then some b else lookup l a' := by
  unfold lookup store
  by_cases e : a' = a
  · subst e; simp
  · simp only [e, if_false]
    rw [List.find?_cons_of_neg (by simpa using fun x => e x.symm)]
    congr 1
    induction l with
    | nil => rfl
    | cons x r ih =>
      by_cases hx : x.1 = a
      · rw [List.filter_cons_of_neg (by simpa using hx), ih, List.find?_cons_of_neg (by simp [hx]; exact fun x => e x.symm)]
      · rw [List.filter_cons_of_pos (by simpa using hx)]
        by_cases hx' : x.1 = a'
        · rw [List.find?_cons_of_pos (by simpa using hx'), List.find?_cons_of_pos (by simpa using hx')]
        · rw [List.find?_cons_of_neg (by simpa using hx'), List.find?_cons_of_neg (by simpa using hx'), ih]

theorem lookup_filter {α β : Type} [DecidableEq α] (l : List (α × β)) (p : α → Bool) (a : α) :
    lookup (l.filter fun c => p c.1) a = if p a then lookup l a else none := by
  unfold lookup
  induction l with
  | nil => simp
  | cons x r ih =>
    simp only [List.filter_cons]
    by_cases hp : p x.1 = true
    · simp only [hp, if_true, List.find?_cons]
      by_cases hx : x.1 = a
      · subst hx; simp [hp]
      · simp only [hx, decide_false]; exact ih
    · have hp' : p x.1 = false := by simpa using hp
      simp only [hp', Bool.false_eq_true, if_false, List.find?_cons]
      by_cases hx : x.1 = a
      · subst hx; rw [ih]; simp [hp']
      · simp only [hx, decide_false]; exact ih

/-- the order `sortD` sorts by -/
def leD (x y : Nat × Nat × Nat) : Prop := x.1 < y.1 ∨ (x.1 = y.1 ∧ (x.2.1 < y.2.1 ∨ (x.2.1 = y.2.1 ∧ x.2.2 ≤ y.2.2)))

theorem leD_total (x y : Nat × Nat × Nat) : leD x y ∨ leD y x := by unfold leD; omega
theorem leD_trans {x y z : Nat × Nat × Nat} (a : leD x y) (b : leD y z) : leD x z := by unfold leD at *; omega
theorem leD_antisymm {x y : Nat × Nat × Nat} (a : leD x y) (b : leD y x) : x = y := by
  unfold leD at *
  obtain ⟨x1, x2, x3⟩ := x; obtain ⟨y1, y2, y3⟩ := y
  simp only at a b
  have : x1 = y1 ∧ x2 = y2 ∧ x3 = y3 := by omega
  rw [this.1, this.2.1, this.2.2]

theorem insertSorted_perm (x : Nat × Nat × Nat) : ∀ l, (insertSorted x l).Perm (x :: l)
  | [] => List.Perm.refl _
  | y :: r => by
    unfold insertSorted
    split
    · exact List.Perm.refl _
    · exact ((insertSorted_perm x r).cons y).trans (List.Perm.swap x y r)

theorem insertSorted_sorted (x : Nat × Nat × Nat) : ∀ l, l.Pairwise leD → (insertSorted x l).Pairwise leD
  | [], _ => by simp [insertSorted]
  | y :: r, h => by
    unfold insertSorted
    have hy := List.pairwise_cons.mp h
    split
    · rename_i hxy
      refine List.pairwise_cons.mpr ⟨?_, h⟩
      intro z hz
      rcases List.mem_cons.mp hz with rfl | hz
      · exact hxy
      · exact leD_trans hxy (hy.1 z hz)
    · rename_i hxy
      refine List.pairwise_cons.mpr ⟨?_, insertSorted_sorted x r hy.2⟩
      intro z hz
      have := (insertSorted_perm x r).subset hz
      rcases List.mem_cons.mp this with rfl | hz'
      · rcases leD_total z y with h1 | h1
        · exact absurd h1 hxy
        · exact h1
      · exact hy.1 z hz'

theorem sortD_perm : ∀ l, (sortD l).Perm l
  | [] => List.Perm.refl _
  | x :: r => by
    show (insertSorted x (sortD r)).Perm (x :: r)
    exact (insertSorted_perm x _).trans ((sortD_perm r).cons x)

theorem sortD_sorted : ∀ l, (sortD l).Pairwise leD
  | [] => List.Pairwise.nil
  | x :: r => insertSorted_sorted x _ (sortD_sorted r)

/-- `sortD` is canonical: permutations sort to the same list -/
theorem sortD_eq_of_perm {l₁ l₂ : List (Nat × Nat × Nat)} (h : l₁.Perm l₂) : sortD l₁ = sortD l₂ :=
  List.Perm.eq_of_pairwise (le := leD) (fun _ _ _ _ a b => leD_antisymm a b) (sortD_sorted l₁) (sortD_sorted l₂)
    ((sortD_perm l₁).trans (h.trans (sortD_perm l₂).symm))

theorem drop_append_self {α : Type} (l d : List α) : (l ++ d).drop l.length = d := by simp

/-! ## extra invariants the refinement needs -/

structure RInv (s : State) : Prop where
  /-- the library key has a notifier (`pp_uthread_cleanup`) and is never released by an event of the machine -/
  k0n : (s.key 0).notifier = true
  k0w : (s.key 0).wrapperFreed = false
  /-- a library thread that has left its function still has its handle in its library cell -/
  tF : ∀ t h, (s.thr t).phase = .finished → (s.thr t).handle = some h →
        ∃ n, (s.key 0).published = some n ∧ s.tls t n = h + 1

theorem RInv.init : RInv init := by
  refine ⟨by simp [PV.UThread.init], by simp [PV.UThread.init], ?_⟩
  intro t h hp; simp [PV.UThread.init] at hp; split at hp <;> cases hp

/-- events that keep the library key's record (up to publication), the thread records (up to `pend`) and the library cells -/
theorem RInv.frame {s s' : State} (hr : RInv s)
    (e1 : (s'.key 0).notifier = (s.key 0).notifier ∧ (s'.key 0).wrapperFreed = (s.key 0).wrapperFreed)
    (e2 : ∀ t, (s'.thr t).phase = (s.thr t).phase ∧ (s'.thr t).handle = (s.thr t).handle)
    (e3 : ∀ t n, (s.key 0).published = some n → (s'.key 0).published = some n ∧ s'.tls t n = s.tls t n) : RInv s' := by
  refine ⟨e1.1 ▸ hr.k0n, e1.2 ▸ hr.k0w, ?_⟩
  intro t h hp hh
  rw [(e2 t).1] at hp; rw [(e2 t).2] at hh
  obtain ⟨n, h1, h2⟩ := hr.tF t h hp hh
  exact ⟨n, (e3 t n h1).1, (e3 t n h1).2 ▸ h2⟩

theorem currentCore_lib {s : State} (t n : Nat) :
    (currentCore s t n).1.key = s.key ∧ (currentCore s t n).1.thr = s.thr ∧
    ∀ t' m, ¬ (t' = t ∧ m = n) → (currentCore s t n).1.tls t' m = s.tls t' m := by
  unfold currentCore; split
  · exact ⟨rfl, rfl, fun _ _ _ => rfl⟩
  · refine ⟨rfl, rfl, fun t' m hne => ?_⟩
    simp only; rw [upd2_ne _ _ hne]

theorem RInv.step {s s' : State} {e : Ev} (hr : RInv s) (hk : KInv s) (hi : HInv s) (hs : step s e = .ok s') : RInv s' := by
  have k0 := hi.k0
  cases e with
  | spawn =>
    have := spawn_ok hs; subst this
    have hnew := hk.tP s.nT (Nat.le_refl _)
    refine ⟨hr.k0n, hr.k0w, ?_⟩
    intro t h hp hh; simp only at hp hh ⊢
    by_cases e : t = s.nT
    · subst e; simp at hp
    · rw [upd_ne _ _ e] at hp hh; exact hr.tF t h hp hh
  | createBegin a j n =>
    obtain ⟨_, _, rfl⟩ := createBegin_ok hs
    refine ⟨hr.k0n, hr.k0w, ?_⟩
    intro t h hp hh; simp only at hp hh ⊢
    by_cases e : t = s.nT
    · subst e; simp at hp
    · rw [upd_ne _ _ e] at hp hh; exact hr.tF t h hp hh
  | createEnd a => obtain ⟨c, _, _, rfl⟩ := createEnd_ok hs; exact ⟨hr.k0n, hr.k0w, hr.tF⟩
  | start t' =>
    obtain ⟨hd, n0, hph, _, _, _, hp0, _, _, rfl⟩ := start_ok hs
    refine ⟨hr.k0n, hr.k0w, ?_⟩
    intro t h hp hh; simp only at hp hh ⊢
    have e : t ≠ t' := by intro e; subst e; simp at hp
    rw [upd_ne _ _ e] at hp hh
    obtain ⟨n, h1, h2⟩ := hr.tF t h hp hh
    exact ⟨n, h1, by rw [upd2_ne _ _ (by simp [e])]; exact h2⟩
  | exit t' c =>
    obtain ⟨n0, hc, _, hp0, _, hcase⟩ := exit_ok hs
    obtain ⟨ck, ct, ctl⟩ := currentCore_lib (s := s) t' n0
    have base : ∀ t h, t ≠ t' → (s.thr t).phase = .finished → (s.thr t).handle = some h →
        ∃ n, ((currentCore s t' n0).1.key 0).published = some n ∧ (currentCore s t' n0).1.tls t n = h + 1 := by
      intro t h hne hp hh
      obtain ⟨n, h1, h2⟩ := hr.tF t h hp hh
      exact ⟨n, by rw [ck]; exact h1, by rw [ctl t n (by simp [hne])]; exact h2⟩
    rcases hcase with ⟨_, rfl⟩ | ⟨ho, rfl⟩
    · refine ⟨by rw [ck]; exact hr.k0n, by rw [ck]; exact hr.k0w, ?_⟩
      intro t h hp hh; rw [ct] at hp hh
      have e : t ≠ t' := by intro e; subst e; rw [hc.1] at hp; cases hp
      exact base t h e hp hh
    · refine ⟨by simp only; rw [ck]; exact hr.k0n, by simp only; rw [ck]; exact hr.k0w, ?_⟩
      intro t h hp hh; simp only at hp hh ⊢
      by_cases e : t = t'
      · subst e; simp at hh; rw [ct] at hh
        obtain ⟨n, h1, h2⟩ := hi.tR t h hc.1 hh
        rw [hp0] at h1; injection h1 with h1; subst h1
        refine ⟨n0, by rw [ck]; exact hp0, ?_⟩
        have : currentCore s t n0 = (s, h) := by unfold currentCore; simp [h2]
        rw [this]; exact h2
      · rw [upd_ne _ _ e, ct] at hp hh; exact base t h e hp hh
  | ret t' =>
    obtain ⟨hc, _, rfl⟩ := ret_ok hs
    refine ⟨hr.k0n, hr.k0w, ?_⟩
    intro t h hp hh; simp only at hp hh ⊢
    by_cases e : t = t'
    · subst e; simp at hh; exact hi.tR t h hc.1 hh
    · rw [upd_ne _ _ e] at hp hh; exact hr.tF t h hp hh
  | threadEnd t' =>
    obtain ⟨hph, s1, hrd, rfl⟩ := threadEnd_ok hs
    obtain ⟨_, a2, _, _, a5, _⟩ := runDtors_frame List.nodup_range hrd
    have a7 := (runDtors_thr hrd).1
    refine ⟨by simp only; rw [a2]; exact hr.k0n, by simp only; rw [a2]; exact hr.k0w, ?_⟩
    intro t h hp hh; simp only at hp hh ⊢
    have e : t ≠ t' := by intro e; subst e; simp at hp
    rw [upd_ne _ _ e, a7] at hp hh
    obtain ⟨n, h1, h2⟩ := hr.tF t h hp hh
    exact ⟨n, by rw [a2]; exact h1, by rw [a5]; simp [e]; exact h2⟩
  | ref a h => obtain ⟨_, _, _, _, rfl⟩ := ref_ok hs; exact ⟨hr.k0n, hr.k0w, hr.tF⟩
  | unref a h =>
    obtain ⟨_, _, _, hu⟩ := unref_ok hs
    obtain ⟨_, ⟨_, rfl⟩ | ⟨_, rfl⟩⟩ := unrefCore_ok hu <;> exact ⟨hr.k0n, hr.k0w, hr.tF⟩
  | join a h => obtain ⟨_, _, _, _, ⟨_, rfl⟩ | ⟨_, _, _, rfl⟩⟩ := join_ok hs <;> exact ⟨hr.k0n, hr.k0w, hr.tF⟩
  | current t' =>
    obtain ⟨n0, hc, _, hp0, rfl⟩ := current_ok hs
    obtain ⟨ck, ct, ctl⟩ := currentCore_lib (s := s) t' n0
    refine ⟨by simp only; rw [ck]; exact hr.k0n, by simp only; rw [ck]; exact hr.k0w, ?_⟩
    intro t h hp hh; simp only at hp hh ⊢; rw [ct] at hp hh
    have e : t ≠ t' := by intro e; subst e; rw [hc.1] at hp; cases hp
    obtain ⟨n, h1, h2⟩ := hr.tF t h hp hh
    exact ⟨n, by rw [ck]; exact h1, by rw [ctl t n (by simp [e])]; exact h2⟩
  | localNew a nf =>
    obtain ⟨_, rfl⟩ := localNew_ok hs
    have e : (0 : Nat) ≠ s.nK := by omega
    refine hr.frame ⟨by simp only; rw [upd_ne _ _ e], by simp only; rw [upd_ne _ _ e]⟩ (fun _ => ⟨rfl, rfl⟩) ?_
    intro t n hp; simp only; rw [upd_ne _ _ e]; exact ⟨hp, trivial⟩
  | localFree a k =>
    obtain ⟨_, hk0, _, _, ⟨_, rfl⟩ | ⟨n, _, rfl⟩⟩ := localFree_ok hs
    · refine hr.frame ⟨by simp only; rw [upd_ne _ _ (Ne.symm hk0)], by simp only; rw [upd_ne _ _ (Ne.symm hk0)]⟩ (fun _ => ⟨rfl, rfl⟩) ?_
      intro t n hp; simp only; rw [upd_ne _ _ (Ne.symm hk0)]; exact ⟨hp, trivial⟩
    · refine hr.frame ⟨by simp only; rw [upd_ne _ _ (Ne.symm hk0)], by simp only; rw [upd_ne _ _ (Ne.symm hk0)]⟩ (fun _ => ⟨rfl, rfl⟩) ?_
      intro t n hp; simp only; rw [upd_ne _ _ (Ne.symm hk0)]; exact ⟨hp, trivial⟩
  | keyCreate t' k =>
    obtain ⟨_, _, _, _, _, rfl⟩ := keyCreate_ok hs
    exact hr.frame ⟨rfl, rfl⟩ (fun t => ⟨(thr_upd_pend s t' _ t).1, (thr_upd_pend s t' _ t).2.1⟩) (fun _ _ hp => ⟨hp, rfl⟩)
  | keyCas t' k =>
    obtain ⟨n, _, _, ⟨hpub, rfl⟩ | ⟨_, rfl⟩⟩ := keyCas_ok hs
    · refine hr.frame ?_ (fun t => ⟨(thr_upd_pend s t' _ t).1, (thr_upd_pend s t' _ t).2.1⟩) ?_
      · simp only; by_cases e : 0 = k
        · subst e; simp
        · rw [upd_ne _ _ e]; exact ⟨rfl, rfl⟩
      · intro t m hp; simp only
        have e : (0 : Nat) ≠ k := by intro e; subst e; rw [hpub] at hp; cases hp
        rw [upd_ne _ _ e]; exact ⟨hp, trivial⟩
    · refine hr.frame ?_ (fun t => ⟨(thr_upd_pend s t' _ t).1, (thr_upd_pend s t' _ t).2.1⟩) ?_
      · simp only; by_cases e : 0 = k
        · subst e; simp
        · rw [upd_ne _ _ e]; exact ⟨rfl, rfl⟩
      · intro t m hp; simp only
        by_cases e : 0 = k
        · subst e; simp [hp]
        · rw [upd_ne _ _ e]; exact ⟨hp, trivial⟩
  | setLocal t' k v =>
    obtain ⟨n, _, hk0, _, _, hp, rfl⟩ := setLocal_ok hs
    refine hr.frame ⟨rfl, rfl⟩ (fun _ => ⟨rfl, rfl⟩) ?_
    intro t m hp0; simp only
    rw [upd2_ne _ _ (by intro x; exact hk.user_ne_lib hk0 hp hp0 x.2.symm)]; exact ⟨hp0, rfl⟩
  | replaceLocal t' k v =>
    obtain ⟨n, _, hk0, _, _, hp, rfl⟩ := replaceLocal_ok hs
    refine hr.frame ⟨rfl, rfl⟩ (fun _ => ⟨rfl, rfl⟩) ?_
    intro t m hp0; simp only
    rw [upd2_ne _ _ (by intro x; exact hk.user_ne_lib hk0 hp hp0 x.2.symm)]; exact ⟨hp0, rfl⟩
  | getLocal t' k => obtain ⟨n, _, _, _, _, _, rfl⟩ := getLocal_ok hs; exact ⟨hr.k0n, hr.k0w, hr.tF⟩
  | createFail a => obtain ⟨_, _, rfl⟩ := createFail_ok hs; exact ⟨hr.k0n, hr.k0w, hr.tF⟩
  | joinFail a h => obtain ⟨_, _, _, _, _, rfl⟩ := joinFail_ok hs; exact ⟨hr.k0n, hr.k0w, hr.tF⟩
  | tlsFail t' k g => obtain ⟨_, _, _, _, _, rfl⟩ := tlsFail_ok hs; exact ⟨hr.k0n, hr.k0w, hr.tF⟩
  | currentFail t' => obtain ⟨_, _, rfl⟩ := currentFail_ok hs; exact ⟨hr.k0n, hr.k0w, hr.tF⟩
  | storeFail t' k r => obtain ⟨n, _, _, _, _, _, rfl⟩ := storeFail_ok hs; exact ⟨hr.k0n, hr.k0w, hr.tF⟩
  | startUnstored t' =>
    obtain ⟨h0, _, _, _, _, _, _, rfl⟩ := startUnstored_ok hs
    refine ⟨hr.k0n, hr.k0w, ?_⟩
    intro t h hp hh; simp only at hp hh ⊢
    by_cases e : t = t'
    · subst e; simp [upd] at hh
    · rw [upd_ne _ _ e] at hp hh; exact hr.tF t h hp hh
  | retUnstored t' h0 =>
    obtain ⟨hc, _, s1, hu, rfl⟩ := retUnstored_ok hs
    have e1 : s1.key = s.key ∧ s1.tls = s.tls ∧ s1.thr = s.thr := by
      obtain ⟨_, ⟨_, rfl⟩ | ⟨_, rfl⟩⟩ := unrefCore_ok hu <;> exact ⟨rfl, rfl, rfl⟩
    refine ⟨by simp only; rw [e1.1]; exact hr.k0n, by simp only; rw [e1.1]; exact hr.k0w, ?_⟩
    intro t h hp hh; simp only at hp hh ⊢
    rw [e1.1, e1.2.1]
    by_cases e : t = t'
    · subst e; rw [e1.2.2] at hh; simp [upd] at hh; exact hi.tR t h hc.1 hh
    · rw [upd_ne _ _ e, e1.2.2] at hp hh; exact hr.tF t h hp hh

/-- the handle record after the library key's destructor took the thread's own reference -/
def afterOwn (x : Handle) : Handle :=
  if x.refCount = unrefFreesWhenOldIs then { decd x true with freed := true } else decd x true

theorem unrefCore_own_hdl {s s' : State} {h : Nat} (hs : unrefCore s h true = .ok s') :
    s'.hdl = upd s.hdl h (afterOwn (s.hdl h)) ∧ (s.hdl h).freed = false := by
  obtain ⟨hf, ⟨hc, rfl⟩ | ⟨hc, rfl⟩⟩ := unrefCore_ok hs
  · exact ⟨by simp [afterOwn, hc], hf⟩
  · exact ⟨by simp [afterOwn, hc], hf⟩

/-- what thread termination does to the handles: only the handle in the thread's library cell changes -/
theorem runDtors_hdl {t : Nat} : ∀ {l : List Nat} {s s' : State}, KInv s → l.Nodup → runDtors t s l = .ok s' →
    ((∀ n, n ∈ l → ¬ ((s.nkey n).owner = 0 ∧ dtorDue s t n)) → s'.hdl = s.hdl) ∧
    (∀ n, n ∈ l → (s.nkey n).owner = 0 → dtorDue s t n →
      s'.hdl = upd s.hdl (s.tls t n - 1) (afterOwn (s.hdl (s.tls t n - 1))) ∧ (s.hdl (s.tls t n - 1)).freed = false)
  | [], s, s', _, _, hs => by
    unfold runDtors at hs; injection hs with hs; subst hs
    exact ⟨fun _ => rfl, fun n hn => by simp at hn⟩
  | n :: r, s, s', hk, hnd, hs => by
    obtain ⟨s1, h1, h2⟩ := runDtors_cons_ok hs
    have hnr : n ∉ r := (List.nodup_cons.mp hnd).1
    obtain ⟨a1, _, _, _, a5, _⟩ := dtorOne_frame h1
    have tls1 : ∀ m, m ≠ n → s1.tls t m = s.tls t m := by
      intro m hm; rw [a5]; split
      · rw [upd2_ne _ _ (by simp [hm])]
      · rfl
    have due1 : ∀ m, m ≠ n → (dtorDue s1 t m ↔ dtorDue s t m) := by
      intro m hm; unfold dtorDue; rw [a1, tls1 m hm]
    have ih := runDtors_hdl (hk.dtorOne h1) (List.nodup_cons.mp hnd).2 h2
    rcases dtorOne_ok h1 with ⟨hnd', e⟩ | ⟨hd, ho, e⟩ | ⟨hd, ho, hu⟩
    · subst e
      refine ⟨fun hno => ih.1 (fun m hm => hno m (by simp [hm])), ?_⟩
      intro m hm ho hd
      rcases List.mem_cons.mp hm with rfl | hm
      · exact absurd hd hnd'
      · exact ih.2 m hm ho hd
    · have hh : s1.hdl = s.hdl := by rw [e]; rfl
      refine ⟨fun hno => (ih.1 (fun m hm x => hno m (by simp [hm])
          ⟨a1 ▸ x.1, (due1 m (fun c => hnr (c ▸ hm))).mp x.2⟩)).trans hh, ?_⟩
      intro m hm ho' hd'
      rcases List.mem_cons.mp hm with rfl | hm
      · exact absurd ho' ho
      · have hmn : m ≠ n := fun c => hnr (c ▸ hm)
        have := ih.2 m hm (by rw [a1]; exact ho') ((due1 m hmn).mpr hd')
        rw [tls1 m hmn, hh] at this; exact this
    · -- the library key's destructor runs here; nothing after it touches a handle
      have hu' := unrefCore_own_hdl hu
      simp only [cleared] at hu'
      have later : s'.hdl = s1.hdl := by
        apply ih.1
        intro m hm x
        have hmn : m ≠ n := fun c => hnr (c ▸ hm)
        have p1 := hk.kV t n hd.2.2
        have p2 := hk.kV t m ((due1 m hmn).mp x.2).2.2
        have x1 : (s.nkey m).owner = 0 := by have := x.1; rw [a1] at this; exact this
        rw [ho] at p1; rw [x1] at p2; rw [p1] at p2; injection p2 with p2
        exact hmn p2.symm
      refine ⟨fun hno => absurd ⟨ho, hd⟩ (hno n (by simp)), ?_⟩
      intro m hm ho' hd'
      have : m = n := by
        have p1 := hk.kV t n hd.2.2; have p2 := hk.kV t m hd'.2.2
        rw [ho] at p1; rw [ho'] at p2; rw [p1] at p2; injection p2 with p2; exact p2.symm
      subst this
      exact ⟨later.trans hu'.1, hu'.2⟩

/-! ## the abstraction relation -/

/-- what the reference knows of a handle -/
def absH (x : Handle) : H :=
  { refs := if x.freed then 0 else if x.written then holders x else 2
    joinable := x.joinable, code := x.retCode, live := !x.freed }

def hOf (s : State) (h : Nat) : Option H := if h < s.nH then some (absH (s.hdl h)) else none
def kOf (s : State) (k : Nat) : Option Bool := if k < s.nK then some (s.key k).notifier else none

/-- the handle that describes thread `t`, as the reference sees it: the handle a library thread was created
    with (until the thread has ended), otherwise whatever sits in the thread's library cell -/
def selfOf (s : State) (t : Nat) : Option Nat :=
  match (s.thr t).handle with
  | some h => if (s.thr t).phase = .ended then none else some h
  | none =>
    match (s.key 0).published with
    | some n => if s.tls t n = 0 then none else some (s.tls t n - 1)
    | none => none

/-- what thread `t` sees under key `k`; nothing once the key has been released -/
def cellOf (s : State) (t k : Nat) : Nat := if (s.key k).wrapperFreed then 0 else valueOf s t k

structure Abs (s : State) (sp : S) : Prop where
  aH : ∀ h, sp.handles[h]? = hOf s h
  aT : sp.nThreads = s.nT
  aS : ∀ t, lookup sp.threadHandle t = selfOf s t
  aO : ∀ t, t ∈ sp.ours ↔ (s.thr t).handle.isSome = true
  aK : ∀ k, sp.keys[k]? = kOf s k
  aC : ∀ t k, k ≠ 0 → sp.cell t k = cellOf s t k
  aF : ∀ k, k ∈ sp.freedKeys ↔ (s.key k).wrapperFreed = true

theorem len_of_getElem? {α : Type} {l : List α} {n : Nat} {f : Nat → Option α}
    (h : ∀ i, l[i]? = if i < n then f i else none) (hf : ∀ i, i < n → (f i).isSome) : l.length = n := by
  have h1 : l.length ≤ n := by
    have := h n; simp at this; exact this
  apply Classical.byContradiction; intro hne
  have hlt : l.length < n := by omega
  have := h l.length
  rw [if_pos hlt] at this
  have h2 : l[l.length]? = none := by simp
  rw [h2] at this
  have := hf _ hlt; rw [← ‹none = f l.length›] at this; cases this

theorem Abs.hlen {s : State} {sp : S} (a : Abs s sp) : sp.handles.length = s.nH :=
  len_of_getElem? (f := fun h => some (absH (s.hdl h))) (fun i => by rw [a.aH i]; rfl) (fun _ _ => rfl)

theorem Abs.klen {s : State} {sp : S} (a : Abs s sp) : sp.keys.length = s.nK :=
  len_of_getElem? (f := fun k => some (s.key k).notifier) (fun i => by rw [a.aK i]; rfl) (fun _ _ => rfl)

theorem Abs.live {s : State} {sp : S} (a : Abs s sp) : sp.live = liveOf s := by
  unfold S.live liveOf
  rw [a.hlen]
  apply List.filter_congr
  intro h hh
  have := List.mem_range.mp hh
  rw [a.aH h, hOf, if_pos this]; simp [absH]

theorem Abs.notif {s : State} {sp : S} (a : Abs s sp) (k : Nat) : sp.keys[k]?.getD false = (decide (k < s.nK) && (s.key k).notifier) := by
  rw [a.aK k, kOf]; split <;> simp [*]

/-- the machine changed nothing the reference can see -/
theorem Abs.same {s s' : State} {sp : S} (a : Abs s sp) (e1 : ∀ h, hOf s' h = hOf s h) (e2 : s'.nT = s.nT)
    (e3 : ∀ t, selfOf s' t = selfOf s t) (e4 : ∀ t, (s'.thr t).handle.isSome = (s.thr t).handle.isSome)
    (e5 : ∀ k, kOf s' k = kOf s k) (e6 : ∀ t k, k ≠ 0 → cellOf s' t k = cellOf s t k)
    (e7 : ∀ k, (s'.key k).wrapperFreed = (s.key k).wrapperFreed) : Abs s' sp :=
  ⟨fun h => (a.aH h).trans (e1 h).symm, a.aT.trans e2.symm, fun t => (a.aS t).trans (e3 t).symm,
   fun t => by rw [e4]; exact a.aO t, fun k => (a.aK k).trans (e5 k).symm,
   fun t k hk => (a.aC t k hk).trans (e6 t k hk).symm, fun k => by rw [e7]; exact a.aF k⟩


/-- while a creation is in progress the half-made handle already carries the requested `joinable` -/
def SJInv (s : State) : Prop := ∀ c, s.spin = some c → (s.hdl c.h).joinable = c.joinable ∧ c.h < s.nH

theorem SJInv.frame {s s' : State} (hj : SJInv s) (e1 : s'.spin = s.spin) (e2 : s.nH ≤ s'.nH)
    (e3 : ∀ h, h < s.nH → (s'.hdl h).joinable = (s.hdl h).joinable) : SJInv s' := by
  intro c hc; rw [e1] at hc
  have := hj c hc
  exact ⟨(e3 c.h this.2).trans this.1, by omega⟩

theorem upd_joinable {hdl : Nat → Handle} {h0 : Nat} {x : Handle} (hx : x.joinable = (hdl h0).joinable) (h : Nat) :
    (upd hdl h0 x h).joinable = (hdl h).joinable := by
  by_cases e : h = h0
  · subst e; simp [hx]
  · rw [upd_ne _ _ e]

theorem unrefCore_joinable {s s' : State} {h : Nat} {own : Bool} (hs : unrefCore s h own = .ok s') :
    s'.spin = s.spin ∧ s'.nH = s.nH ∧ ∀ h', (s'.hdl h').joinable = (s.hdl h').joinable := by
  obtain ⟨_, ⟨_, rfl⟩ | ⟨_, rfl⟩⟩ := unrefCore_ok hs <;>
    exact ⟨rfl, rfl, fun h' => upd_joinable (by simp [decd]) h'⟩

theorem runDtors_joinable {t : Nat} : ∀ {l : List Nat} {s s' : State}, runDtors t s l = .ok s' →
    s'.spin = s.spin ∧ s'.nH = s.nH ∧ ∀ h', (s'.hdl h').joinable = (s.hdl h').joinable
  | [], s, s', hs => by unfold runDtors at hs; injection hs with hs; subst hs; exact ⟨rfl, rfl, fun _ => rfl⟩
  | n :: r, s, s', hs => by
    obtain ⟨s1, h1, h2⟩ := runDtors_cons_ok hs
    have a : s1.spin = s.spin ∧ s1.nH = s.nH ∧ ∀ h', (s1.hdl h').joinable = (s.hdl h').joinable := by
      rcases dtorOne_ok h1 with ⟨_, rfl⟩ | ⟨_, _, rfl⟩ | ⟨_, _, hu⟩
      · exact ⟨rfl, rfl, fun _ => rfl⟩
      · exact ⟨rfl, rfl, fun _ => rfl⟩
      · have := unrefCore_joinable hu; exact this
    have b := runDtors_joinable h2
    exact ⟨b.1.trans a.1, b.2.1.trans a.2.1, fun h' => (b.2.2 h').trans (a.2.2 h')⟩

theorem currentCore_joinable (s : State) (t n : Nat) :
    (currentCore s t n).1.spin = s.spin ∧ s.nH ≤ (currentCore s t n).1.nH ∧
    ∀ h, h < s.nH → ((currentCore s t n).1.hdl h).joinable = (s.hdl h).joinable := by
  unfold currentCore; split
  · exact ⟨rfl, Nat.le_refl _, fun _ _ => rfl⟩
  · refine ⟨rfl, by simp, fun h hh => ?_⟩
    simp only; rw [upd_ne _ _ (by omega)]

theorem SJInv.step {s s' : State} {e : Ev} (hj : SJInv s) (hs : step s e = .ok s') : SJInv s' := by
  cases e with
  | spawn => have := spawn_ok hs; subst this; exact hj.frame rfl (Nat.le_refl _) (fun _ _ => rfl)
  | createBegin a j n =>
    obtain ⟨_, _, rfl⟩ := createBegin_ok hs
    intro c hc; simp only at hc; injection hc with hc; subst hc; simp
  | createEnd a => obtain ⟨c, _, _, rfl⟩ := createEnd_ok hs; intro c' hc'; simp at hc'
  | start t => obtain ⟨_, _, _, _, _, _, _, _, _, rfl⟩ := start_ok hs; exact hj.frame rfl (Nat.le_refl _) (fun _ _ => rfl)
  | exit t c =>
    obtain ⟨n, _, _, _, _, hcase⟩ := exit_ok hs
    have cc := currentCore_joinable s t n
    rcases hcase with ⟨_, rfl⟩ | ⟨_, rfl⟩
    · exact hj.frame cc.1 cc.2.1 cc.2.2
    · refine hj.frame cc.1 cc.2.1 (fun h hh => ?_)
      simp only; refine Eq.trans ?_ (cc.2.2 h hh); apply upd_joinable; rfl
  | ret t => obtain ⟨_, _, rfl⟩ := ret_ok hs; exact hj.frame rfl (Nat.le_refl _) (fun _ _ => rfl)
  | threadEnd t =>
    obtain ⟨_, s1, hr, rfl⟩ := threadEnd_ok hs
    have r := runDtors_joinable hr
    exact hj.frame r.1 (by simp only; rw [r.2.1]; exact Nat.le_refl _) (fun h _ => r.2.2 h)
  | ref a h =>
    obtain ⟨_, _, _, _, rfl⟩ := ref_ok hs
    refine hj.frame rfl (Nat.le_refl _) (fun h' _ => ?_)
    simp only; apply upd_joinable; rfl
  | unref a h =>
    obtain ⟨_, _, _, hu⟩ := unref_ok hs
    have r := unrefCore_joinable hu
    exact hj.frame r.1 (by rw [r.2.1]; exact Nat.le_refl _) (fun h' _ => r.2.2 h')
  | join a h =>
    obtain ⟨_, _, _, _, ⟨_, rfl⟩ | ⟨_, _, _, rfl⟩⟩ := join_ok hs
    · exact hj.frame rfl (Nat.le_refl _) (fun _ _ => rfl)
    · refine hj.frame rfl (Nat.le_refl _) (fun h' _ => ?_)
      simp only; apply upd_joinable; rfl
  | current t =>
    obtain ⟨n, _, _, _, rfl⟩ := current_ok hs
    have cc := currentCore_joinable s t n
    exact hj.frame cc.1 cc.2.1 cc.2.2
  | localNew a n => obtain ⟨_, rfl⟩ := localNew_ok hs; exact hj.frame rfl (Nat.le_refl _) (fun _ _ => rfl)
  | localFree a k =>
    obtain ⟨_, _, _, _, ⟨_, rfl⟩ | ⟨n, _, rfl⟩⟩ := localFree_ok hs <;> exact hj.frame rfl (Nat.le_refl _) (fun _ _ => rfl)
  | keyCreate t k => obtain ⟨_, _, _, _, _, rfl⟩ := keyCreate_ok hs; exact hj.frame rfl (Nat.le_refl _) (fun _ _ => rfl)
  | keyCas t k =>
    obtain ⟨n, _, _, ⟨_, rfl⟩ | ⟨_, rfl⟩⟩ := keyCas_ok hs <;> exact hj.frame rfl (Nat.le_refl _) (fun _ _ => rfl)
  | setLocal t k v => obtain ⟨n, _, _, _, _, _, rfl⟩ := setLocal_ok hs; exact hj.frame rfl (Nat.le_refl _) (fun _ _ => rfl)
  | replaceLocal t k v => obtain ⟨n, _, _, _, _, _, rfl⟩ := replaceLocal_ok hs; exact hj.frame rfl (Nat.le_refl _) (fun _ _ => rfl)
  | getLocal t k => obtain ⟨n, _, _, _, _, _, rfl⟩ := getLocal_ok hs; exact hj.frame rfl (Nat.le_refl _) (fun _ _ => rfl)
  | createFail a =>
    obtain ⟨_, _, rfl⟩ := createFail_ok hs
    refine hj.frame rfl (Nat.le_succ _) (fun h hh => ?_)
    simp only; rw [upd_ne _ _ (by omega)]
  | joinFail a h => obtain ⟨_, _, _, _, _, rfl⟩ := joinFail_ok hs; exact hj.frame rfl (Nat.le_refl _) (fun _ _ => rfl)
  | tlsFail t k g => obtain ⟨_, _, _, _, _, rfl⟩ := tlsFail_ok hs; exact hj.frame rfl (Nat.le_refl _) (fun _ _ => rfl)
  | currentFail t =>
    obtain ⟨_, _, rfl⟩ := currentFail_ok hs
    refine hj.frame rfl (Nat.le_succ _) (fun h hh => ?_)
    simp only; rw [upd_ne _ _ (by omega)]
  | storeFail t k r => obtain ⟨n, _, _, _, _, _, rfl⟩ := storeFail_ok hs; exact hj.frame rfl (Nat.le_refl _) (fun _ _ => rfl)
  | startUnstored t =>
    obtain ⟨h0, _, _, _, _, _, _, rfl⟩ := startUnstored_ok hs
    refine hj.frame rfl (Nat.le_refl _) (fun h' _ => ?_)
    simp only; apply upd_joinable; rfl
  | retUnstored t h0 =>
    obtain ⟨_, _, s1, hu, rfl⟩ := retUnstored_ok hs
    have r := unrefCore_joinable hu
    exact hj.frame r.1 (by simp only; rw [r.2.1]; exact Nat.le_refl _) (fun h' _ => r.2.2 h')

theorem Reach.rinv {s : State} (h : Reach s) : RInv s ∧ SJInv s := by
  induction h with
  | init => exact ⟨RInv.init, fun c hc => by simp [PV.UThread.init] at hc⟩
  | step e hr hs ih => exact ⟨ih.1.step hr.inv.1 hr.inv.2 hs, ih.2.step hs⟩

/-! ## one event on both sides -/

/-- the answer when neither a handle is freed nor a notifier called nor anything returned -/
theorem obsM_quiet {s s' : State} {e : Ev} (hret : (match e with
      | .spawn => False | .createBegin _ _ _ => False | .localNew _ _ => False | _ => True))
    (h1 : s'.joinLog = s.joinLog) (h2 : s'.getLog = s.getLog) (h3 : s'.curLog = s.curLog)
    (h4 : s'.freeLog = s.freeLog) (h5 : s'.dtorLog = s.dtorLog) :
    obsM s e s' = { live := liveOf s' } := by
  unfold obsM
  rw [h1, h2, h3, h4, h5]
  cases e <;> simp_all [sortD]

theorem selfOf_thr_eq {s s' : State} (t : Nat) (e1 : (s'.thr t).handle = (s.thr t).handle)
    (e2 : (s'.thr t).handle.isSome = true → ((s'.thr t).phase = .ended ↔ (s.thr t).phase = .ended))
    (e3 : (s'.thr t).handle = none → (s'.key 0).published = (s.key 0).published ∧
      ∀ n, (s.key 0).published = some n → s'.tls t n = s.tls t n) :
    selfOf s' t = selfOf s t := by
  unfold selfOf
  rw [e1]
  cases hh : (s.thr t).handle with
  | some h =>
    simp only
    have := e2 (by rw [e1, hh]; rfl)
    by_cases c : (s.thr t).phase = .ended
    · rw [if_pos c, if_pos (this.mpr c)]
    · rw [if_neg c, if_neg (fun x => c (this.mp x))]
  | none =>
    simp only
    have := e3 (by rw [e1, hh])
    rw [this.1]
    cases hp : (s.key 0).published with
    | none => rfl
    | some n => simp only; rw [this.2 n hp]

theorem cellOf_eq {s s' : State} {t k : Nat} (e1 : (s'.key k).wrapperFreed = (s.key k).wrapperFreed)
    (e2 : valueOf s' t k = valueOf s t k) : cellOf s' t k = cellOf s t k := by
  unfold cellOf; rw [e1, e2]

/-- events that only move a thread between phases other than `ended`, publish nothing and store nothing -/
theorem refine_createEnd {s s' : State} {sp : S} {a : Nat} (hi : HInv s) (hj : SJInv s) (ab : Abs s sp)
    (hs : step s (.createEnd a) = .ok s') : Abs s' sp ∧ obsM s (.createEnd a) s' = { live := liveOf s' } := by
  obtain ⟨c, hc, _, rfl⟩ := createEnd_ok hs
  refine ⟨?_, obsM_quiet trivial rfl rfl rfl rfl rfl⟩
  have hu := hi.hU c.h (hi.sC c hc).2.1
  refine ab.same ?_ rfl (fun t => selfOf_thr_eq t rfl (fun _ => Iff.rfl) (fun _ => ⟨rfl, fun _ _ => rfl⟩)) (fun _ => rfl)
    (fun _ => rfl) (fun _ _ _ => rfl) (fun _ => rfl)
  intro h; unfold hOf; simp only
  by_cases e : h = c.h
  · subst e
    simp only [upd_same, absH, holders, hu.1, (hi.sC c hc).2.1, hu.2.2.2.2.1, (hj c hc).1]
    simp
  · rw [upd_ne _ _ e]

theorem refine_start {s s' : State} {sp : S} {t : Nat} (hk : KInv s) (ab : Abs s sp)
    (hs : step s (.start t) = .ok s') : Abs s' sp ∧ obsM s (.start t) s' = { live := liveOf s' } := by
  have hv := fun t' k (hk0 : k ≠ 0) => valueOf_frame (t := t') (k := k) hk hs hk0 (fun _ => by simp) (fun _ => by simp) (by simp)
  obtain ⟨hd, n, hph, _, hh, _, hp, _, _, rfl⟩ := start_ok hs
  refine ⟨?_, obsM_quiet trivial rfl rfl rfl rfl rfl⟩
  refine ab.same (fun _ => rfl) rfl ?_ ?_ (fun _ => rfl) (fun t' k hk0 => cellOf_eq rfl (hv t' k hk0)) (fun _ => rfl)
  · intro t'
    by_cases e : t' = t
    · subst e
      refine selfOf_thr_eq t' (by simp) ?_ ?_
      · intro _; simp [hph]
      · intro hn; simp [hh] at hn
    · refine selfOf_thr_eq t' (by simp only; rw [upd_ne _ _ e]) (fun _ => by simp only; rw [upd_ne _ _ e]) ?_
      intro _; exact ⟨rfl, fun m _ => by simp only; rw [upd2_ne _ _ (by simp [e])]⟩
  · intro t'; simp only
    by_cases e : t' = t
    · subst e; simp
    · rw [upd_ne _ _ e]

theorem refine_ret {s s' : State} {sp : S} {t : Nat} (ab : Abs s sp)
    (hs : step s (.ret t) = .ok s') : Abs s' sp ∧ obsM s (.ret t) s' = { live := liveOf s' } := by
  obtain ⟨hc, _, rfl⟩ := ret_ok hs
  refine ⟨?_, obsM_quiet trivial rfl rfl rfl rfl rfl⟩
  refine ab.same (fun _ => rfl) rfl ?_ ?_ (fun _ => rfl) (fun _ _ _ => rfl) (fun _ => rfl)
  · intro t'
    by_cases e : t' = t
    · subst e
      exact selfOf_thr_eq t' (by simp) (fun _ => by simp [hc.1]) (fun _ => ⟨rfl, fun _ _ => rfl⟩)
    · exact selfOf_thr_eq t' (by simp only; rw [upd_ne _ _ e]) (fun _ => by simp only; rw [upd_ne _ _ e]) (fun _ => ⟨rfl, fun _ _ => rfl⟩)
  · intro t'; simp only
    by_cases e : t' = t
    · subst e; simp
    · rw [upd_ne _ _ e]

theorem refine_keyCreate {s s' : State} {sp : S} {t k : Nat} (hk : KInv s) (ab : Abs s sp)
    (hs : step s (.keyCreate t k) = .ok s') : Abs s' sp ∧ obsM s (.keyCreate t k) s' = { live := liveOf s' } := by
  have hv := fun t' k' (hk0 : k' ≠ 0) => valueOf_frame (t := t') (k := k') hk hs hk0 (fun _ => by simp) (fun _ => by simp) (by simp)
  obtain ⟨_, _, _, _, _, rfl⟩ := keyCreate_ok hs
  refine ⟨?_, obsM_quiet trivial rfl rfl rfl rfl rfl⟩
  refine ab.same (fun _ => rfl) rfl ?_ (fun t' => by rw [(thr_upd_pend s t _ t').2.1]) (fun _ => rfl)
    (fun t' k' hk0 => cellOf_eq rfl (hv t' k' hk0)) (fun _ => rfl)
  intro t'
  exact selfOf_thr_eq t' (thr_upd_pend s t _ t').2.1 (fun _ => by rw [(thr_upd_pend s t _ t').1]) (fun _ => ⟨rfl, fun _ _ => rfl⟩)

theorem refine_keyCas {s s' : State} {sp : S} {t k : Nat} (hk : KInv s) (ab : Abs s sp)
    (hs : step s (.keyCas t k) = .ok s') : Abs s' sp ∧ obsM s (.keyCas t k) s' = { live := liveOf s' } := by
  have hv := fun t' k' (hk0 : k' ≠ 0) => valueOf_frame (t := t') (k := k') hk hs hk0 (fun _ => by simp) (fun _ => by simp) (by simp)
  obtain ⟨n, hpd, _, hcase⟩ := keyCas_ok hs
  have hE := hk.kE t k n hpd
  rcases hcase with ⟨hpub, rfl⟩ | ⟨⟨m, hpub⟩, rfl⟩
  · refine ⟨?_, obsM_quiet trivial rfl rfl rfl rfl rfl⟩
    have wf : ∀ j, (upd s.key k { s.key k with published := some n } j).wrapperFreed = (s.key j).wrapperFreed ∧
        (upd s.key k { s.key k with published := some n } j).notifier = (s.key j).notifier := by
      intro j; by_cases e : j = k
      · subst e; simp
      · rw [upd_ne _ _ e]; exact ⟨rfl, rfl⟩
    refine ab.same (fun _ => rfl) rfl ?_ (fun t' => by rw [(thr_upd_pend s t _ t').2.1])
      (fun j => by unfold kOf; simp only; rw [(wf j).2])
      (fun t' k' hk0 => cellOf_eq (wf k').1 (hv t' k' hk0)) (fun j => (wf j).1)
    intro t'
    unfold selfOf
    rw [(thr_upd_pend s t _ t').2.1, (thr_upd_pend s t _ t').1]
    cases (s.thr t').handle with
    | some h => rfl
    | none =>
      simp only
      by_cases e : 0 = k
      · subst e
        simp [hpub]
        -- the native key just published holds no value yet
        apply Classical.byContradiction; intro hv'
        have := hk.kV t' n hv'
        rw [hE.2.1, hpub] at this; cases this
      · rw [upd_ne _ _ e]
  · refine ⟨?_, obsM_quiet trivial rfl rfl rfl rfl rfl⟩
    have wf : ∀ j, (upd s.key k { s.key k with losers := (s.key k).losers ++ [n] } j).wrapperFreed = (s.key j).wrapperFreed ∧
        (upd s.key k { s.key k with losers := (s.key k).losers ++ [n] } j).notifier = (s.key j).notifier ∧
        (upd s.key k { s.key k with losers := (s.key k).losers ++ [n] } j).published = (s.key j).published := by
      intro j; by_cases e : j = k
      · subst e; simp
      · rw [upd_ne _ _ e]; exact ⟨rfl, rfl, rfl⟩
    refine ab.same (fun _ => rfl) rfl ?_ (fun t' => by rw [(thr_upd_pend s t _ t').2.1])
      (fun j => by unfold kOf; simp only; rw [(wf j).2.1])
      (fun t' k' hk0 => cellOf_eq (wf k').1 (hv t' k' hk0)) (fun j => (wf j).1)
    intro t'
    exact selfOf_thr_eq t' (thr_upd_pend s t _ t').2.1 (fun _ => by rw [(thr_upd_pend s t _ t').1])
      (fun _ => ⟨(wf 0).2.2, fun _ _ => rfl⟩)

theorem hOf_upd_same_abs {s : State} {h0 : Nat} {x : Handle} {fl : List Nat} (hx : absH x = absH (s.hdl h0)) (h : Nat) :
    hOf { s with hdl := upd s.hdl h0 x, freeLog := fl } h = hOf s h := by
  unfold hOf; simp only
  by_cases e : h = h0
  · subst e; simp [hx]
  · rw [upd_ne _ _ e]

theorem refine_join {s s' : State} {sp : S} {a h : Nat} (ab : Abs s sp)
    (hs : step s (.join a h) = .ok s') :
    Abs s' sp ∧ obsM s (.join a h) s' = { ret := [Sp.join sp h], live := liveOf s' } := by
  obtain ⟨_, hlt, hw, hf, hcase⟩ := join_ok hs
  have hsp : sp.handles[h]? = some (absH (s.hdl h)) := by rw [ab.aH h, hOf, if_pos hlt]
  rcases hcase with ⟨hj, rfl⟩ | ⟨hj, _, _, rfl⟩
  · refine ⟨ab.same (fun _ => rfl) rfl (fun _ => rfl) (fun _ => rfl) (fun _ => rfl) (fun _ _ _ => rfl) (fun _ => rfl), ?_⟩
    simp [obsM, PV.UThreadSpec.join, hsp, absH, hj, sortD]
  · refine ⟨?_, ?_⟩
    · refine ab.same ?_ rfl (fun _ => rfl) (fun _ => rfl) (fun _ => rfl) (fun _ _ _ => rfl) (fun _ => rfl)
      intro h'
      have := hOf_upd_same_abs (s := s) (h0 := h) (x := { s.hdl h with joined := true }) (fl := s.freeLog) (by simp [absH, holders]) h'
      exact this
    · simp [obsM, PV.UThreadSpec.join, hsp, absH, hj, sortD]

theorem refine_joinFail {s s' : State} {sp : S} {a h : Nat} (ab : Abs s sp)
    (hs : step s (.joinFail a h) = .ok s') :
    Abs s' sp ∧ obsM s (.joinFail a h) s' = { ret := [Sp.join sp h], live := liveOf s' } := by
  obtain ⟨_, hlt, hw, hf, hj, rfl⟩ := joinFail_ok hs
  have hsp : sp.handles[h]? = some (absH (s.hdl h)) := by rw [ab.aH h, hOf, if_pos hlt]
  refine ⟨ab.same (fun _ => rfl) rfl (fun _ => rfl) (fun _ => rfl) (fun _ => rfl) (fun _ _ _ => rfl) (fun _ => rfl), ?_⟩
  simp [obsM, PV.UThreadSpec.join, hsp, absH, hj, sortD]

theorem refine_getLocal {s s' : State} {sp : S} {t k : Nat} (ab : Abs s sp)
    (hs : step s (.getLocal t k) = .ok s') :
    Abs s' sp ∧ obsM s (.getLocal t k) s' = { ret := [(sp.cell t k : Int)], live := liveOf s' } := by
  obtain ⟨n, _, hk0, _, hwf, hp, rfl⟩ := getLocal_ok hs
  refine ⟨ab.same (fun _ => rfl) rfl (fun _ => rfl) (fun _ => rfl) (fun _ => rfl) (fun _ _ _ => rfl) (fun _ => rfl), ?_⟩
  have : sp.cell t k = s.tls t n := by rw [ab.aC t k hk0, cellOf, hwf]; simp [valueOf_pub hp]
  simp [obsM, this, sortD]

theorem refine_spawn {s s' : State} {sp : S} (hk : KInv s) (ab : Abs s sp)
    (hs : step s .spawn = .ok s') :
    Abs s' (Sp.spawn sp).1 ∧ obsM s .spawn s' = { ret := [((Sp.spawn sp).2 : Int)], live := liveOf s' } := by
  have := spawn_ok hs; subst this
  have hnew := hk.tP s.nT (Nat.le_refl _)
  refine ⟨?_, by simp [obsM, PV.UThreadSpec.spawn, ab.aT, sortD]⟩
  have thr_h : ∀ t, (upd s.thr s.nT { phase := .running } t).handle = (s.thr t).handle := by
    intro t; by_cases e : t = s.nT
    · subst e; simp [hnew]
    · rw [upd_ne _ _ e]
  refine ⟨ab.aH, by simp [PV.UThreadSpec.spawn, ab.aT], ?_, ?_, ab.aK, ab.aC, ab.aF⟩
  · intro t
    rw [show lookup (PV.UThreadSpec.spawn sp).1.threadHandle t = lookup sp.threadHandle t from rfl, ab.aS t]
    symm
    refine selfOf_thr_eq t (thr_h t) ?_ (fun _ => ⟨rfl, fun _ _ => rfl⟩)
    intro hsome
    have e : t ≠ s.nT := by intro e; subst e; simp at hsome
    simp only; rw [upd_ne _ _ e]
  · intro t
    rw [show (PV.UThreadSpec.spawn sp).1.ours = sp.ours from rfl, ab.aO t]; simp only; rw [thr_h]

theorem getElem?_snoc {α : Type} (l : List α) (x : α) (i : Nat) :
    (l ++ [x])[i]? = if i < l.length then l[i]? else if i = l.length then some x else none := by
  by_cases h : i < l.length
  · rw [if_pos h, List.getElem?_append_left h]
  · rw [if_neg h, List.getElem?_append_right (by omega)]
    by_cases e : i = l.length
    · subst e; simp
    · rw [if_neg e]
      have : i - l.length ≠ 0 := by omega
      cases hm : i - l.length with
      | zero => exact absurd hm this
      | succ m => simp

theorem refine_createBegin {s s' : State} {sp : S} {a : Nat} {j n : Bool} (hk : KInv s) (hi : HInv s) (ab : Abs s sp)
    (hs : step s (.createBegin a j n) = .ok s') :
    Abs s' (Sp.create sp j).1 ∧
    obsM s (.createBegin a j n) s' = { ret := [((Sp.create sp j).2.1 : Int), ((Sp.create sp j).2.2 : Int)], live := liveOf s' } := by
  obtain ⟨_, _, rfl⟩ := createBegin_ok hs
  have hnew := hk.tP s.nT (Nat.le_refl _)
  have hnewH := hi.hB s.nH (Nat.le_refl _)
  refine ⟨?_, by simp [obsM, create, ab.aT, ab.hlen, sortD]⟩
  refine ⟨?_, by simp [create, ab.aT], ?_, ?_, ab.aK, ab.aC, ab.aF⟩
  · intro h
    simp only [create]
    rw [getElem?_snoc, ab.hlen, ab.aH h]
    unfold hOf; simp only
    by_cases e : h < s.nH
    · rw [if_pos e, if_pos e, if_pos (by omega), upd_ne _ _ (by omega)]
    · rw [if_neg e]; try rw [if_neg e]
      by_cases e' : h = s.nH
      · subst e'; simp [absH]
      · rw [if_neg e', if_neg (by omega)]
  · intro t
    simp only [create]
    rw [lookup_store, ab.aT, ab.hlen]
    by_cases e : t = s.nT
    · subst e; simp [selfOf]
    · rw [if_neg e, ab.aS t]
      symm
      exact selfOf_thr_eq t (by simp only; rw [upd_ne _ _ e]) (fun _ => by simp only; rw [upd_ne _ _ e]) (fun _ => ⟨rfl, fun _ _ => rfl⟩)
  · intro t
    simp only [create, List.mem_cons, ab.aT]
    by_cases e : t = s.nT
    · subst e; simp
    · rw [upd_ne _ _ e, ← ab.aO t]; simp [e]

/-- both sides when a block takes the next handle id and is released at once -/
theorem refine_allocFreed {s : State} {sp : S} (e : Ev) (hi : HInv s) (ab : Abs s sp)
    (he : match e with | .createFail _ => True | .currentFail _ => True | _ => False) :
    let s' : State := { s with nH := s.nH + 1, hdl := upd s.hdl s.nH { freed := true, written := true }, freeLog := s.freeLog ++ [s.nH] }
    Abs s' (createFailed sp).1 ∧ obsM s e s' = { live := liveOf s', freed := [(createFailed sp).2] } := by
  intro s'
  have hnewH := hi.hB s.nH (Nat.le_refl _)
  refine ⟨?_, ?_⟩
  · refine ⟨?_, by simp [createFailed, ab.aT, s'], ?_, ?_, ab.aK, ab.aC, ab.aF⟩
    · intro h
      simp only [createFailed]
      rw [getElem?_snoc, ab.hlen, ab.aH h]
      unfold hOf; simp only [s']
      by_cases e : h < s.nH
      · rw [if_pos e, if_pos e, if_pos (by omega), upd_ne _ _ (by omega)]
      · rw [if_neg e]; try rw [if_neg e]
        by_cases e' : h = s.nH
        · subst e'; simp [absH]
        · rw [if_neg e', if_neg (by omega)]
    · intro t
      rw [show lookup (createFailed sp).1.threadHandle t = lookup sp.threadHandle t from rfl, ab.aS t]
      symm
      exact selfOf_thr_eq t rfl (fun _ => Iff.rfl) (fun _ => ⟨rfl, fun _ _ => rfl⟩)
    · intro t
      rw [show (createFailed sp).1.ours = sp.ours from rfl, ab.aO t]
  · cases e <;> simp at he <;> simp [obsM, createFailed, ab.hlen, sortD, s']

theorem refine_createFail {s s' : State} {sp : S} {a : Nat} (hi : HInv s) (ab : Abs s sp)
    (hs : step s (.createFail a) = .ok s') :
    Abs s' (createFailed sp).1 ∧
    obsM s (.createFail a) s' = { live := liveOf s', freed := [(createFailed sp).2] } := by
  obtain ⟨_, _, rfl⟩ := createFail_ok hs
  exact refine_allocFreed (.createFail a) hi ab trivial

theorem refine_currentFail {s s' : State} {sp : S} {t : Nat} (hi : HInv s) (ab : Abs s sp)
    (hs : step s (.currentFail t) = .ok s') :
    Abs s' (createFailed sp).1 ∧
    obsM s (.currentFail t) s' = { live := liveOf s', freed := [(createFailed sp).2] } := by
  obtain ⟨_, _, rfl⟩ := currentFail_ok hs
  exact refine_allocFreed (.currentFail t) hi ab trivial

theorem refine_tlsFail {s s' : State} {sp : S} {t k : Nat} {g : Bool} (ab : Abs s sp)
    (hs : step s (.tlsFail t k g) = .ok s') :
    Abs s' sp ∧ obsM s (.tlsFail t k g) s' = { ret := if g then [(sp.cell t k : Int)] else [], live := liveOf s' } := by
  obtain ⟨_, hk0, _, hwf, hp, rfl⟩ := tlsFail_ok hs
  refine ⟨ab.same (fun _ => rfl) rfl (fun _ => rfl) (fun _ => rfl) (fun _ => rfl) (fun _ _ _ => rfl) (fun _ => rfl), ?_⟩
  have : sp.cell t k = 0 := by rw [ab.aC t k hk0, cellOf, hwf]; simp [valueOf, hp]
  cases g <;> simp [obsM, this, sortD]

theorem refine_localNew {s s' : State} {sp : S} {a : Nat} {nf : Bool} (hk : KInv s) (hi : HInv s) (ab : Abs s sp)
    (hs : step s (.localNew a nf) = .ok s') :
    Abs s' (Sp.keyNew sp nf).1 ∧ obsM s (.localNew a nf) s' = { ret := [((Sp.keyNew sp nf).2 : Int)], live := liveOf s' } := by
  have hv := fun t' k' (hk0 : k' ≠ 0) => valueOf_frame (t := t') (k := k') hk hs hk0 (fun _ => by simp) (fun _ => by simp) (by simp)
  obtain ⟨_, rfl⟩ := localNew_ok hs
  have k0 := hi.k0
  have hnewK := hk.kB s.nK (Nat.le_refl _)
  refine ⟨?_, by simp [obsM, keyNew, ab.klen, sortD]⟩
  have wf : ∀ j, (upd s.key s.nK { notifier := nf } j).wrapperFreed = (s.key j).wrapperFreed := by
    intro j; by_cases e : j = s.nK
    · subst e; simp [hnewK]
    · rw [upd_ne _ _ e]
  refine ⟨ab.aH, ab.aT, ?_, ab.aO, ?_, ?_, ?_⟩
  · intro t
    rw [show lookup (keyNew sp nf).1.threadHandle t = lookup sp.threadHandle t from rfl, ab.aS t]
    symm
    exact selfOf_thr_eq t rfl (fun _ => Iff.rfl) (fun _ => ⟨by simp only; rw [upd_ne _ _ (by omega)], fun _ _ => rfl⟩)
  · intro k
    simp only [keyNew]
    rw [getElem?_snoc, ab.klen, ab.aK k]
    unfold kOf; simp only
    by_cases e : k < s.nK
    · rw [if_pos e, if_pos e, if_pos (by omega), upd_ne _ _ (by omega)]
    · rw [if_neg e]; try rw [if_neg e]
      by_cases e' : k = s.nK
      · subst e'; simp
      · rw [if_neg e', if_neg (by omega)]
  · intro t k hk0
    rw [show (keyNew sp nf).1.cell t k = sp.cell t k from rfl, ab.aC t k hk0]
    exact (cellOf_eq (wf k) (hv t k hk0)).symm
  · intro k
    rw [show (keyNew sp nf).1.freedKeys = sp.freedKeys from rfl, ab.aF k]; simp only; rw [wf]

theorem cell_def (sp : S) (t k : Nat) : sp.cell t k = (lookup sp.cells (t, k)).getD 0 := rfl

theorem refine_localFree {s s' : State} {sp : S} {a k : Nat} (hk : KInv s) (ab : Abs s sp)
    (hs : step s (.localFree a k) = .ok s') :
    Abs s' (Sp.keyFree sp k) ∧ obsM s (.localFree a k) s' = { live := liveOf s' } := by
  have hv := fun t' k' (hk0 : k' ≠ 0) => valueOf_frame (t := t') (k := k') hk hs hk0 (fun _ => by simp) (fun _ => by simp) (by simp)
  obtain ⟨_, hk0, _, hwf, hcase⟩ := localFree_ok hs
  have wf : ∀ j, (upd s.key k { s.key k with wrapperFreed := true } j).wrapperFreed = (if j = k then true else (s.key j).wrapperFreed) ∧
      (upd s.key k { s.key k with wrapperFreed := true } j).notifier = (s.key j).notifier ∧
      (upd s.key k { s.key k with wrapperFreed := true } j).published = (s.key j).published := by
    intro j; by_cases e : j = k
    · subst e; simp
    · rw [upd_ne _ _ e]; simp [e]
  -- both shapes of the machine's post-state agree on everything the reference sees
  have main : ∀ s'', s''.key = upd s.key k { s.key k with wrapperFreed := true } → s''.nH = s.nH → s''.hdl = s.hdl →
      s''.nT = s.nT → s''.thr = s.thr → s''.tls = s.tls → s''.nK = s.nK →
      (∀ t' k', k' ≠ 0 → valueOf s'' t' k' = valueOf s t' k') → Abs s'' (Sp.keyFree sp k) := by
    intro s'' e1 e2 e3 e4 e5 e6 e7 e8
    refine ⟨?_, ab.aT.trans e4.symm, ?_, ?_, ?_, ?_, ?_⟩
    · intro h; rw [show (Sp.keyFree sp k).handles = sp.handles from rfl, ab.aH h]; unfold hOf; rw [e2, e3]
    · intro t
      rw [show (Sp.keyFree sp k).threadHandle = sp.threadHandle from rfl, ab.aS t]
      symm
      exact selfOf_thr_eq t (by rw [e5]) (fun _ => by rw [e5]) (fun _ => ⟨by rw [e1, (wf 0).2.2], fun _ _ => by rw [e6]⟩)
    · intro t; rw [show (Sp.keyFree sp k).ours = sp.ours from rfl, ab.aO t, e5]
    · intro j; rw [show (Sp.keyFree sp k).keys = sp.keys from rfl, ab.aK j]; unfold kOf; rw [e7, e1, (wf j).2.1]
    · intro t j hj0
      rw [cell_def]
      simp only [PV.UThreadSpec.keyFree]
      rw [lookup_filter sp.cells (fun c => decide (c.2 ≠ k)) (t, j)]
      unfold cellOf; rw [e1, (wf j).1, e8 t j hj0]
      by_cases e : j = k
      · subst e; simp
      · simp only [e, ne_eq, not_false_eq_true, decide_true, if_true, if_false]
        have := ab.aC t j hj0; rw [cell_def] at this; rw [this]; rfl
    · intro j
      simp only [PV.UThreadSpec.keyFree, List.mem_cons]
      rw [e1, (wf j).1, ab.aF j]
      by_cases e : j = k
      · subst e; simp
      · simp [e]
  rcases hcase with ⟨_, rfl⟩ | ⟨n, _, rfl⟩
  · exact ⟨main _ rfl rfl rfl rfl rfl rfl rfl (fun t' k' h0 => hv t' k' h0), obsM_quiet trivial rfl rfl rfl rfl rfl⟩
  · exact ⟨main _ rfl rfl rfl rfl rfl rfl rfl (fun t' k' h0 => hv t' k' h0), obsM_quiet trivial rfl rfl rfl rfl rfl⟩

/-- a store by `t` through the user key `k` on both sides -/
theorem Abs.store {s : State} {sp : S} (hk : KInv s) (ab : Abs s sp) {t k n v : Nat} (hk0 : k ≠ 0)
    (hwf : (s.key k).wrapperFreed = false) (hp : (s.key k).published = some n) (d : List (Nat × Nat × Nat)) :
    Abs { s with dtorLog := d, tls := upd2 s.tls t n v } { sp with cells := PV.UThreadSpec.store sp.cells (t, k) v } := by
  have vs := valueOf_store hk (t := t) (v := v) hp d
  refine ⟨ab.aH, ab.aT, ?_, ab.aO, ab.aK, ?_, ab.aF⟩
  · intro t'
    rw [show lookup ({ sp with cells := PV.UThreadSpec.store sp.cells (t, k) v } : S).threadHandle t' = lookup sp.threadHandle t' from rfl, ab.aS t']
    symm
    refine selfOf_thr_eq t' rfl (fun _ => Iff.rfl) (fun _ => ⟨rfl, ?_⟩)
    intro m hm; simp only
    rw [upd2_ne _ _ (by intro x; exact hk.user_ne_lib hk0 hp hm x.2.symm)]
  · intro t' k' hk0'
    rw [cell_def]; simp only
    rw [lookup_store]
    by_cases e : t' = t ∧ k' = k
    · obtain ⟨rfl, rfl⟩ := e
      simp [cellOf, hwf, vs.1]
    · have : ¬ ((t', k') = (t, k)) := by intro x; injection x with x1 x2; exact e ⟨x1, x2⟩
      rw [if_neg this]
      have := ab.aC t' k' hk0'; rw [cell_def] at this; rw [this]
      unfold cellOf; rw [vs.2 t' k' e]

theorem liveOf_logs (s : State) (d : List (Nat × Nat × Nat)) (tls : Nat → Nat → Nat) :
    liveOf { s with dtorLog := d, tls := tls } = liveOf s := rfl

theorem refine_setLocal {s s' : State} {sp : S} {t k v : Nat} (hk : KInv s) (ab : Abs s sp)
    (hs : step s (.setLocal t k v) = .ok s') :
    Abs s' (Sp.setLocal sp t k v) ∧ obsM s (.setLocal t k v) s' = { live := liveOf s' } := by
  obtain ⟨n, _, hk0, _, hwf, hp, rfl⟩ := setLocal_ok hs
  refine ⟨ab.store hk hk0 hwf hp _, ?_⟩
  simp [obsM, notifyOld, setCallsNotifier, sortD]

theorem refine_replaceLocal {s s' : State} {sp : S} {t k v : Nat} (hk : KInv s) (ab : Abs s sp)
    (hs : step s (.replaceLocal t k v) = .ok s') :
    Abs s' (Sp.replaceLocal sp t k v).1 ∧
    obsM s (.replaceLocal t k v) s' = { live := liveOf s', dtor := sortD (Sp.replaceLocal sp t k v).2.dtor } := by
  obtain ⟨n, _, hk0, hlt, hwf, hp, rfl⟩ := replaceLocal_ok hs
  refine ⟨ab.store hk hk0 hwf hp _, ?_⟩
  have hcell : sp.cell t k = s.tls t n := by rw [ab.aC t k hk0, cellOf, hwf]; simp [valueOf_pub hp]
  have hnot : sp.keys[k]?.getD false = (s.key k).notifier := by rw [ab.notif k]; simp [hlt]
  simp only [obsM, PV.UThreadSpec.replaceLocal, notifyOld, replaceCallsNotifier, hcell, hnot, List.drop_append_length]
  by_cases c : s.tls t n ≠ 0 ∧ (s.key k).notifier = true
  · simp [c, hk0, liveOf]
  ·     simp [c, liveOf]

theorem refine_storeFail {s s' : State} {sp : S} {t k : Nat} {r : Bool} (ab : Abs s sp)
    (hs : step s (.storeFail t k r) = .ok s') :
    Abs s' sp ∧
    obsM s (.storeFail t k r) s' = { live := liveOf s', dtor := if r then sortD (Sp.replaceLocal sp t k 0).2.dtor else [] } := by
  obtain ⟨n, _, hk0, hlt, hwf, hp, rfl⟩ := storeFail_ok hs
  refine ⟨ab.same (fun _ => rfl) rfl (fun _ => rfl) (fun _ => rfl) (fun _ => rfl) (fun _ _ _ => rfl) (fun _ => rfl), ?_⟩
  have hcell : sp.cell t k = s.tls t n := by rw [ab.aC t k hk0, cellOf, hwf]; simp [valueOf_pub hp]
  have hnot : sp.keys[k]?.getD false = (s.key k).notifier := by rw [ab.notif k]; simp [hlt]
  cases r with
  | false => simp [obsM, notifyOld, setCallsNotifier, sortD, liveOf]
  | true =>
    simp only [obsM, PV.UThreadSpec.replaceLocal, notifyOld, replaceCallsNotifier, hcell, hnot, List.drop_append_length, if_true]
    by_cases c : s.tls t n ≠ 0 ∧ (s.key k).notifier = true
    · simp [c, hk0, liveOf]
    · simp [c, liveOf]

/-- the reference's record of a live, fully created handle -/
theorem absH_live {x : Handle} (hf : x.freed = false) (hw : x.written = true) :
    absH x = { refs := holders x, joinable := x.joinable, code := x.retCode, live := true } := by
  simp [absH, hf, hw]

theorem modH_get (sp : S) (h : Nat) (f : H → H) (j : Nat) :
    (sp.modH h f).handles[j]? = if h = j then f <$> sp.handles[j]? else sp.handles[j]? := by
  unfold S.modH; simp only
  rw [List.getElem?_modify]
  by_cases e : h = j
  · simp [e]
  · simp [e]

/-- one handle record replaced on both sides -/
theorem Abs.updH {s : State} {sp : S} (ab : Abs s sp) {h : Nat} {x : Handle} {f : H → H} {fl : List Nat} (hlt : h < s.nH)
    (hx : absH x = f (absH (s.hdl h))) : Abs { s with hdl := upd s.hdl h x, freeLog := fl } (sp.modH h f) := by
  refine ⟨?_, ab.aT, ?_, ab.aO, ab.aK, ab.aC, ab.aF⟩
  · intro j
    rw [modH_get, ab.aH j]
    unfold hOf; simp only
    by_cases e : h = j
    · subst e; simp [hlt, hx]
    · rw [if_neg e, upd_ne _ _ (Ne.symm e)]
  · intro t
    rw [show lookup (sp.modH h f).threadHandle t = lookup sp.threadHandle t from rfl, ab.aS t]
    exact (selfOf_thr_eq t rfl (fun _ => Iff.rfl) (fun _ => ⟨rfl, fun _ _ => rfl⟩)).symm

theorem refine_ref {s s' : State} {sp : S} {a h : Nat} (ab : Abs s sp)
    (hs : step s (.ref a h) = .ok s') : Abs s' (Sp.ref sp h) ∧ obsM s (.ref a h) s' = { live := liveOf s' } := by
  obtain ⟨_, hlt, hw, hf, rfl⟩ := ref_ok hs
  refine ⟨?_, obsM_quiet trivial rfl rfl rfl rfl rfl⟩
  have := ab.updH (h := h) (fl := s.freeLog)
    (x := { s.hdl h with refCount := (s.hdl h).refCount + refIncrement, userRefs := (s.hdl h).userRefs + 1 })
    (f := fun x => { x with refs := x.refs + 1 }) hlt
    (by rw [absH_live hf hw]; simp [absH, hf, hw, holders]; omega)
  exact this

theorem refine_unref {s s' : State} {sp : S} {a h : Nat} (hi : HInv s) (ab : Abs s sp)
    (hs : step s (.unref a h) = .ok s') :
    Abs s' (Sp.drop sp h).1 ∧ obsM s (.unref a h) s' = { live := liveOf s', freed := (Sp.drop sp h).2 } := by
  obtain ⟨_, hlt, hw, hu⟩ := unref_ok hs
  obtain ⟨hf, hcase⟩ := unrefCore_ok hu
  have hR := hi.hR h hf
  have hL := hi.hL h hw hf
  have hsp : sp.handles[h]? = some (absH (s.hdl h)) := by rw [ab.aH h, hOf, if_pos hlt]
  have hrefs : (absH (s.hdl h)).refs = holders (s.hdl h) := by rw [absH_live hf hw]
  -- the count the machine tests is the reference's count
  have hone : ((s.hdl h).refCount = unrefFreesWhenOldIs) ↔ (absH (s.hdl h)).refs = 1 := by
    rw [hrefs, hR]; simp only [unrefFreesWhenOldIs]; omega
  rcases hcase with ⟨hc, rfl⟩ | ⟨hc, rfl⟩
  · have h1 := hone.mp hc
    simp only [PV.UThreadSpec.drop, hsp, h1, if_true]
    refine ⟨?_, by simp [obsM, sortD, liveOf]⟩
    exact ab.updH hlt (by simp [absH, decd])
  · have h1 : ¬ (absH (s.hdl h)).refs = 1 := fun x => hc (hone.mpr x)
    simp only [PV.UThreadSpec.drop, hsp, h1, if_false]
    refine ⟨?_, obsM_quiet trivial rfl rfl rfl rfl rfl⟩
    have := ab.updH (h := h) (x := decd (s.hdl h) false) (fl := s.freeLog) (f := fun x => { x with refs := x.refs - 1 }) hlt
      (by
        rw [absH_live hf hw]
        simp only [holders] at hL hrefs h1 ⊢
        simp only [absH, decd, hf, hw, holders]
        by_cases htr : (s.hdl h).threadRef = true <;> simp [htr] at hL h1 hrefs ⊢ <;> omega)
    exact this

theorem refine_startUnstored {s s' : State} {sp : S} {t : Nat} (ab : Abs s sp)
    (hs : step s (.startUnstored t) = .ok s') :
    Abs s' (unstored sp t) ∧ obsM s (.startUnstored t) s' = { live := liveOf s' } := by
  obtain ⟨h0, _, _, hh, _, hv, _, rfl⟩ := startUnstored_ok hs
  refine ⟨?_, obsM_quiet trivial rfl rfl rfl rfl rfl⟩
  refine ⟨?_, ab.aT, ?_, ?_, ab.aK, ab.aC, ab.aF⟩
  · intro h
    show sp.handles[h]? = _
    have := hOf_upd_same_abs (s := s) (h0 := h0) (x := { s.hdl h0 with orphan := true }) (fl := s.freeLog) (by simp [absH, holders]) h
    rw [ab.aH h, ← this]; rfl
  · intro t'
    simp only [unstored]
    rw [lookup_filter (p := fun a => decide (a ≠ t))]
    by_cases e : t' = t
    · subst e
      simp only [ne_eq, not_true_eq_false, decide_false, Bool.false_eq_true, if_false]
      unfold selfOf; simp only [upd, if_true]
      simp only [valueOf] at hv
      cases hp : (s.key 0).published with
      | none => rfl
      | some n => simp only [hp] at hv; simp [hv]
    · simp only [ne_eq, e, not_false_eq_true, decide_true, if_true]
      rw [ab.aS t']; symm
      exact selfOf_thr_eq t' (by simp only; rw [upd_ne _ _ e]) (fun _ => by simp only; rw [upd_ne _ _ e]) (fun _ => ⟨rfl, fun _ _ => rfl⟩)
  · intro t'
    simp only [unstored, List.mem_filter, ab.aO t']
    by_cases e : t' = t
    · subst e; simp [upd]
    · rw [upd_ne _ _ e]; simp [e]

theorem refine_retUnstored {s s' : State} {sp : S} {t h : Nat} (hi : HInv s) (hp : PInv s) (ab : Abs s sp)
    (hs : step s (.retUnstored t h) = .ok s') :
    Abs s' (Sp.drop sp h).1 ∧ obsM s (.retUnstored t h) s' = { live := liveOf s', freed := (Sp.drop sp h).2 } := by
  obtain ⟨hc, hpx, s1, hu, rfl⟩ := retUnstored_ok hs
  obtain ⟨p1, _, hlt, _, _, _, hw, _, _, p10⟩ := hp.pP t h hpx
  have htr := p10 hc.1
  obtain ⟨hf, hcase⟩ := unrefCore_ok hu
  have hR := hi.hR h hf
  have hsp : sp.handles[h]? = some (absH (s.hdl h)) := by rw [ab.aH h, hOf, if_pos hlt]
  have hrefs : (absH (s.hdl h)).refs = holders (s.hdl h) := by rw [absH_live hf hw]
  have hone : ((s.hdl h).refCount = unrefFreesWhenOldIs) ↔ (absH (s.hdl h)).refs = 1 := by
    rw [hrefs, hR]; simp only [unrefFreesWhenOldIs]; omega
  -- the thread record only moves on to `finished`: the reference sees no difference (the thread has no handle of its own)
  have thr_same : ∀ (s1 : State) (sp1 : S), s1.thr = s.thr → Abs s1 sp1 →
      Abs { s1 with thr := upd s1.thr t { s1.thr t with phase := .finished } } sp1 := by
    intro s1 sp1 et a1
    refine a1.same (fun _ => rfl) rfl ?_ ?_ (fun _ => rfl) (fun _ _ _ => rfl) (fun _ => rfl)
    · intro t'
      by_cases e : t' = t
      · subst e
        exact selfOf_thr_eq t' (by simp) (fun hs' => by simp [upd, et, p1] at hs') (fun _ => ⟨rfl, fun _ _ => rfl⟩)
      · exact selfOf_thr_eq t' (by simp only; rw [upd_ne _ _ e]) (fun _ => by simp only; rw [upd_ne _ _ e]) (fun _ => ⟨rfl, fun _ _ => rfl⟩)
    · intro t'; simp only
      by_cases e : t' = t
      · subst e; simp
      · rw [upd_ne _ _ e]
  rcases hcase with ⟨hcn, rfl⟩ | ⟨hcn, rfl⟩
  · have h1 := hone.mp hcn
    simp only [PV.UThreadSpec.drop, hsp, h1, if_true]
    refine ⟨?_, by simp [obsM, sortD, liveOf]⟩
    exact thr_same _ _ (by rfl) (ab.updH hlt (by simp [absH, decd]))
  · have h1 : ¬ (absH (s.hdl h)).refs = 1 := fun x => hcn (hone.mpr x)
    simp only [PV.UThreadSpec.drop, hsp, h1, if_false]
    refine ⟨?_, obsM_quiet trivial rfl rfl rfl rfl rfl⟩
    have := ab.updH (h := h) (x := decd (s.hdl h) true) (fl := s.freeLog) (f := fun x => { x with refs := x.refs - 1 }) hlt
      (by
        rw [absH_live hf hw]
        simp only [holders] at hrefs h1 ⊢
        simp only [absH, decd, hf, hw, holders, htr]
        simp [htr] at h1 hrefs ⊢)
    exact thr_same _ _ (by rfl) this

theorem currentCore_logs (s : State) (t n : Nat) :
    (currentCore s t n).1.joinLog = s.joinLog ∧ (currentCore s t n).1.getLog = s.getLog ∧ (currentCore s t n).1.curLog = s.curLog ∧
    (currentCore s t n).1.freeLog = s.freeLog ∧ (currentCore s t n).1.dtorLog = s.dtorLog := by
  unfold currentCore; split <;> exact ⟨rfl, rfl, rfl, rfl, rfl⟩

/-- `p_uthread_current` on both sides: the same handle, made on the spot for a thread that has none -/
theorem Abs.current {s : State} {sp : S} (hk : KInv s) (hi : HInv s) (ab : Abs s sp) {t n : Nat} (hc : canAct s t)
    (hp : (s.key 0).published = some n) :
    Abs (currentCore s t n).1 (Sp.current sp t).1 ∧ (Sp.current sp t).2 = (currentCore s t n).2 := by
  by_cases hv : s.tls t n = 0
  · -- no handle yet: a thread the library did not create
    have hnone : (s.thr t).handle = none := by
      cases hh : (s.thr t).handle with
      | none => rfl
      | some h =>
        obtain ⟨m, h1, h2⟩ := hi.tR t h hc.1 hh
        rw [hp] at h1; injection h1 with h1; subst h1; rw [hv] at h2; omega
    have hself : lookup sp.threadHandle t = none := by rw [ab.aS t]; simp [selfOf, hnone, hp, hv]
    have hcc : currentCore s t n = ({ s with
        nH := s.nH + 1
        hdl := upd s.hdl s.nH { refCount := currentInitRefCount, thread := t, written := true, threadRef := true }
        tls := upd2 s.tls t n (s.nH + 1) }, s.nH) := by unfold currentCore; simp [hv]
    rw [hcc]
    simp only [PV.UThreadSpec.current, hself]
    refine ⟨?_, ab.hlen⟩
    refine ⟨?_, ab.aT, ?_, ab.aO, ab.aK, ?_, ab.aF⟩
    · intro h
      rw [getElem?_snoc, ab.hlen, ab.aH h]
      unfold hOf; simp only
      by_cases e : h < s.nH
      · rw [if_pos e, if_pos e, if_pos (by omega), upd_ne _ _ (by omega)]
      · rw [if_neg e]; try rw [if_neg e]
        by_cases e' : h = s.nH
        · subst e'; simp [absH, holders]
        · rw [if_neg e', if_neg (by omega)]
    · intro t'
      rw [lookup_store, ab.hlen]
      by_cases e : t' = t
      · subst e; simp [selfOf, hnone, hp]
      · rw [if_neg e, ab.aS t']
        symm
        refine selfOf_thr_eq t' rfl (fun _ => Iff.rfl) (fun _ => ⟨rfl, fun m _ => ?_⟩)
        simp only; rw [upd2_ne _ _ (by simp [e])]
    · intro t' k hk0
      rw [show ({ sp with handles := sp.handles ++ [{ refs := 1, joinable := false }],
                          threadHandle := PV.UThreadSpec.store sp.threadHandle t sp.handles.length } : S).cell t' k = sp.cell t' k from rfl,
          ab.aC t' k hk0]
      unfold cellOf valueOf; simp only
      cases hpk : (s.key k).published with
      | none => rfl
      | some m =>
        simp only
        rw [upd2_ne _ _ (by intro x; exact hk.user_ne_lib hk0 hpk hp x.2)]
  · have hcc : currentCore s t n = (s, s.tls t n - 1) := by unfold currentCore; simp [hv]
    have hself : lookup sp.threadHandle t = some (s.tls t n - 1) := by
      rw [ab.aS t]; unfold selfOf
      cases hh : (s.thr t).handle with
      | none => simp [hp, hv]
      | some h =>
        obtain ⟨m, h1, h2⟩ := hi.tR t h hc.1 hh
        rw [hp] at h1; injection h1 with h1; subst h1
        simp [hc.1, h2]
    rw [hcc]
    simp only [PV.UThreadSpec.current, hself]
    exact ⟨ab, trivial⟩

theorem refine_current {s s' : State} {sp : S} {t : Nat} (hk : KInv s) (hi : HInv s) (ab : Abs s sp)
    (hs : step s (.current t) = .ok s') :
    Abs s' (Sp.current sp t).1 ∧ obsM s (.current t) s' = { ret := [((Sp.current sp t).2 : Int)], live := liveOf s' } := by
  obtain ⟨n, hc, _, hp, rfl⟩ := current_ok hs
  obtain ⟨ab1, hret⟩ := ab.current hk hi hc hp
  obtain ⟨l1, l2, l3, l4, l5⟩ := currentCore_logs s t n
  refine ⟨ab1.same (fun _ => rfl) rfl (fun _ => rfl) (fun _ => rfl) (fun _ => rfl) (fun _ _ _ => rfl) (fun _ => rfl), ?_⟩
  simp [obsM, l1, l2, l3, l4, l5, hret, sortD, liveOf]

theorem refine_exit {s s' : State} {sp : S} {t : Nat} {c : Int} (hk : KInv s) (hi : HInv s) (hpi : PInv s) (ab : Abs s sp)
    (hs : step s (.exit t c) = .ok s') :
    Abs s' (Sp.exit (Sp.current sp t).1 t c) ∧ obsM s (.exit t c) s' = { live := liveOf s' } := by
  obtain ⟨n, hc, _, hp, hfr, hcase⟩ := exit_ok hs
  obtain ⟨ab1, hret⟩ := ab.current hk hi hc hp
  obtain ⟨l1, l2, l3, l4, l5⟩ := currentCore_logs s t n
  have hi1 := hi.currentCore_inv hk hc hp
  obtain ⟨hw, _, hth⟩ := currentCore_handle hi hk (t := t) hp
  have hthr := currentCore_thr s t n
  rcases hcase with ⟨ho, rfl⟩ | ⟨ho, rfl⟩
  · -- not a library thread: `p_uthread_exit` returns
    refine ⟨?_, obsM_quiet trivial l1 l2 l3 l4 l5⟩
    have : t ∉ (Sp.current sp t).1.ours := by
      intro hm
      have := (ab1.aO t).mp hm
      cases hh : ((currentCore s t n).1.thr t).handle with
      | none => rw [hh] at this; cases this
      | some h =>
        obtain ⟨m, h1, h2⟩ := hi1.tR t h (by rw [hthr]; exact hc.1) hh
        have hw' := hi1.written_of_started hh (by rw [hthr, hc.1]; simp)
        have ho' := hi1.hW t h hh hw'
        -- the thread's cell holds its own handle, which is `ours`
        have e : (currentCore s t n).2 = h := by
          have hh' : (s.thr t).handle = some h := by rw [← hthr]; exact hh
          obtain ⟨m', g1, g2⟩ := hi.tR t h hc.1 hh'
          rw [hp] at g1; injection g1 with g1; subst g1
          unfold currentCore; simp [g2]
        rw [e, ho'] at ho; cases ho
    simp only [PV.UThreadSpec.exit, this, if_false]; exact ab1
  · have hlink := hi1.hO _ ho (currentCore_orphan hpi hi hk hp)
    rw [hth] at hlink
    have hlt := (hi1.tH t _ hlink).1
    have hmem : t ∈ (Sp.current sp t).1.ours := (ab1.aO t).mpr (by rw [hlink]; rfl)
    have hself : lookup (Sp.current sp t).1.threadHandle t = some (currentCore s t n).2 := by
      rw [ab1.aS t]; unfold selfOf; rw [hlink]; simp [hthr, hc.1]
    simp only [PV.UThreadSpec.exit, hmem, if_true, hself]
    refine ⟨?_, obsM_quiet trivial l1 l2 l3 l4 l5⟩
    have a2 := ab1.updH (h := (currentCore s t n).2) (fl := (currentCore s t n).1.freeLog)
      (x := { (currentCore s t n).1.hdl (currentCore s t n).2 with retCode := c })
      (f := fun x => { x with code := c }) hlt (by simp [absH, holders])
    refine a2.same (fun _ => rfl) rfl ?_ ?_ (fun _ => rfl) (fun _ _ _ => rfl) (fun _ => rfl)
    · intro t'
      by_cases e : t' = t
      · subst e
        exact selfOf_thr_eq t' (by simp) (fun _ => by simp [hthr, hc.1]) (fun _ => ⟨rfl, fun _ _ => rfl⟩)
      · exact selfOf_thr_eq t' (by simp only; rw [upd_ne _ _ e]) (fun _ => by simp only; rw [upd_ne _ _ e]) (fun _ => ⟨rfl, fun _ _ => rfl⟩)
    · intro t'; simp only
      by_cases e : t' = t
      · subst e; simp
      · rw [upd_ne _ _ e]

theorem runDtors_logs {t : Nat} : ∀ {l : List Nat} {s s' : State}, runDtors t s l = .ok s' →
    s'.joinLog = s.joinLog ∧ s'.getLog = s.getLog ∧ s'.curLog = s.curLog ∧ s'.nH = s.nH
  | [], s, s', hs => by unfold runDtors at hs; injection hs with hs; subst hs; exact ⟨rfl, rfl, rfl, rfl⟩
  | n :: r, s, s', hs => by
    obtain ⟨s1, h1, h2⟩ := runDtors_cons_ok hs
    have a : s1.joinLog = s.joinLog ∧ s1.getLog = s.getLog ∧ s1.curLog = s.curLog ∧ s1.nH = s.nH := by
      rcases dtorOne_ok h1 with ⟨_, rfl⟩ | ⟨_, _, rfl⟩ | ⟨_, _, hu⟩
      · exact ⟨rfl, rfl, rfl, rfl⟩
      · exact ⟨rfl, rfl, rfl, rfl⟩
      · obtain ⟨_, ⟨_, rfl⟩ | ⟨_, rfl⟩⟩ := unrefCore_ok hu <;> exact ⟨rfl, rfl, rfl, rfl⟩
    have b := runDtors_logs h2
    exact ⟨b.1.trans a.1, b.2.1.trans a.2.1, b.2.2.1.trans a.2.2.1, b.2.2.2.trans a.2.2.2⟩

/-- the notifier calls of a terminating thread, as the reference lists them -/
def owedSpec (sp : S) (t : Nat) : List (Nat × Nat × Nat) :=
  (List.range sp.keys.length).filterMap fun k =>
    if k ≠ 0 ∧ k ∉ sp.freedKeys ∧ sp.keys[k]?.getD false ∧ sp.cell t k ≠ 0 then some (t, k, sp.cell t k) else none

theorem threadEnd_dtor_eq (sp : S) (t : Nat) : (Sp.threadEnd sp t).2.dtor = sortD (owedSpec sp t) := by
  unfold PV.UThreadSpec.threadEnd owedSpec
  simp only
  split <;> rfl

/-- the machine's notifier calls for user keys at thread end are a permutation of the reference's list -/
theorem owed_perm {s : State} {sp : S} (hk : KInv s) (ab : Abs s sp) {t : Nat} {L : List (Nat × Nat × Nat)} (hn : L.Nodup)
    (hm : ∀ t' k v, (t', k, v) ∈ L ↔
      t' = t ∧ (s.key k).notifier = true ∧ (s.key k).wrapperFreed = false ∧ v ≠ 0 ∧ valueOf s t k = v) :
    (L.filter fun x => x.2.1 ≠ 0).Perm (owedSpec sp t) := by
  refine (List.perm_ext_iff_of_nodup (hn.filter _) ?_).mpr ?_
  · unfold owedSpec
    refine nodup_filterMap List.nodup_range ?_
    intro a b c _ _ ha hb
    split at ha
    · split at hb
      · injection ha with ha; injection hb with hb
        have e := ha.trans hb.symm
        injection e with _ e; injection e with e _
      · cases hb
    · cases ha
  · rintro ⟨t', k, v⟩
    rw [List.mem_filter, hm t' k v]
    unfold owedSpec
    rw [List.mem_filterMap]
    simp only [List.mem_range, ne_eq, decide_not, Bool.not_eq_eq_eq_not, Bool.not_true, decide_eq_false_iff_not]
    constructor
    · rintro ⟨⟨rfl, hnot, hwf, hv, hval⟩, hk0⟩
      have hlt : k < s.nK := by
        apply Classical.byContradiction; intro hge
        have := hk.kB k (by omega); rw [this] at hnot; cases hnot
      have hcell : sp.cell t' k = v := by rw [ab.aC t' k hk0, cellOf, hwf]; simpa using hval
      have c1 : k ∉ sp.freedKeys := by
        intro x; rw [(ab.aF k).mp x] at hwf; cases hwf
      have c2 : sp.keys[k]?.getD false = true := by rw [ab.notif k]; simp [hlt, hnot]
      have c3 : ¬ sp.cell t' k = 0 := by rw [hcell]; exact hv
      refine ⟨k, by rw [ab.klen]; exact hlt, ?_⟩
      rw [if_pos ⟨hk0, c1, c2, c3⟩, hcell]
    · rintro ⟨k', hk', ho⟩
      split at ho
      · rename_i hc
        injection ho with ho; injection ho with e1 ho; injection ho with e2 e3
        subst e1 e2
        obtain ⟨hk0, hnf, hnot, hv⟩ := hc
        have hlt : k' < s.nK := by rw [← ab.klen]; exact hk'
        have hwf : (s.key k').wrapperFreed = false := by
          cases hw : (s.key k').wrapperFreed with
          | false => rfl
          | true => exact absurd ((ab.aF k').mpr hw) hnf
        have hcell : sp.cell t k' = valueOf s t k' := by rw [ab.aC t k' hk0, cellOf, hwf]; simp
        rw [ab.notif k'] at hnot
        have hnot' : (s.key k').notifier = true := by simpa [hlt] using hnot
        exact ⟨⟨rfl, hnot', hwf, by rw [← e3]; exact hv, by rw [← e3, hcell]⟩, hk0⟩
      · cases ho

/-- the reference's state after the cells of a terminating thread were cleared -/
def clearedSp (sp : S) (t : Nat) : S :=
  { sp with cells := sp.cells.filter fun c => ¬ (c.1.1 = t ∧ (sp.keys[c.1.2]?.getD false)) }

theorem threadEnd_unfold (sp : S) (t : Nat) :
    Sp.threadEnd sp t =
      match lookup sp.threadHandle t with
      | some h => ({ (Sp.drop (clearedSp sp t) h).1 with threadHandle := (Sp.drop (clearedSp sp t) h).1.threadHandle.filter (·.1 ≠ t) },
                   { freed := (Sp.drop (clearedSp sp t) h).2, dtor := sortD (owedSpec sp t) })
      | none => (clearedSp sp t, { dtor := sortD (owedSpec sp t) }) := by
  unfold PV.UThreadSpec.threadEnd owedSpec clearedSp
  rfl

theorem clearedSp_cell (sp : S) (t t' k : Nat) :
    (clearedSp sp t).cell t' k = if t' = t ∧ sp.keys[k]?.getD false = true then 0 else sp.cell t' k := by
  rw [cell_def, cell_def]
  have : (clearedSp sp t).cells = sp.cells.filter (fun c => (fun a : Nat × Nat => decide (¬ (a.1 = t ∧ sp.keys[a.2]?.getD false = true))) c.1) := rfl
  rw [this, lookup_filter sp.cells (fun a : Nat × Nat => decide (¬ (a.1 = t ∧ sp.keys[a.2]?.getD false = true))) (t', k)]
  by_cases c : t' = t ∧ sp.keys[k]?.getD false = true
  · simp [c]
  · simp [c]

/-- cells and library cells after the machine's thread end, seen through the abstraction -/
theorem threadEnd_cells {s s1 : State} {sp : S} {t : Nat} (hk : KInv s) (ab : Abs s sp)
    (hrd : runDtors t s (List.range s.nN) = .ok s1) (t' k : Nat) (hk0 : k ≠ 0) :
    (clearedSp sp t).cell t' k = (if (s1.key k).wrapperFreed then 0 else valueOf s1 t' k) := by
  obtain ⟨a1, a2, _, _, a5, _⟩ := runDtors_frame List.nodup_range hrd
  rw [clearedSp_cell, ab.aC t' k hk0, ab.notif k, a2]
  unfold cellOf valueOf
  rw [a2]
  cases hw : (s.key k).wrapperFreed with
  | true => simp
  | false =>
    simp only [Bool.false_eq_true, if_false]
    cases hp : (s.key k).published with
    | none => simp
    | some m =>
      simp only
      rw [a5]
      have hP := hk.kP k m hp
      have hlive := hP.2.2 hw
      have hlt : k < s.nK := by have := hk.kO m hP.1; rw [hP.2.1] at this; exact this
      have hdt : (s.nkey m).dtor = (s.key k).notifier := by rw [hk.kD m hP.1, hP.2.1]
      by_cases ht : t' = t
      · subst ht
        by_cases hn : (s.key k).notifier = true
        · by_cases hv : s.tls t' m = 0
          · simp [hlt, hn, hv]
          · have d : dtorDue s t' m := ⟨hlive.1, by rw [hdt]; exact hn, hv⟩
            simp [hlt, hn, d, List.mem_range, hP.1]
        · have d : ¬ dtorDue s t' m := fun x => hn (by rw [← hdt]; exact x.2.1)
          simp [hn, d]
      · simp [ht]

theorem refine_threadEnd {s s' : State} {sp : S} {t : Nat} (hk : KInv s) (hi : HInv s) (hr : RInv s) (ab : Abs s sp)
    (hs : step s (.threadEnd t) = .ok s') :
    Abs s' (Sp.threadEnd sp t).1 ∧
    obsM s (.threadEnd t) s' = { live := liveOf s', freed := (Sp.threadEnd sp t).2.freed, dtor := (Sp.threadEnd sp t).2.dtor } := by
  obtain ⟨L, hL1, hL2, hL3, _⟩ := threadEnd_dtor hk hs
  obtain ⟨hph, s1, hrd, rfl⟩ := threadEnd_ok hs
  obtain ⟨a1, a2, a3, a4, a5, a6⟩ := runDtors_frame List.nodup_range hrd
  obtain ⟨b1, b2⟩ := runDtors_thr hrd
  obtain ⟨c1, c2, c3, c4⟩ := runDtors_logs hrd
  have hH := runDtors_hdl hk List.nodup_range hrd
  have hF := runDtors_free hk List.nodup_range hrd
  have hcells := fun t' k hk0 => threadEnd_cells hk ab hrd t' k hk0
  -- the notifier column
  have hdt : sortD ((({ s1 with thr := upd s1.thr t { s1.thr t with phase := .ended } } : State).dtorLog.drop s.dtorLog.length).filter
      fun x => x.2.1 ≠ 0) = sortD (owedSpec sp t) := by
    simp only at hL1 ⊢
    rw [hL1, List.drop_append_length]
    exact sortD_eq_of_perm (owed_perm hk ab hL2 hL3)
  -- everything except the handles, for the final machine state against a reference state `spx` that has the
  -- cleared cells, the reference's other tables and no entry for `t` in `threadHandle`
  have rest : ∀ spx : S, spx.nThreads = sp.nThreads → spx.ours = sp.ours → spx.keys = sp.keys → spx.freedKeys = sp.freedKeys →
      spx.cells = (clearedSp sp t).cells →
      (∀ t', lookup spx.threadHandle t' = if t' = t then none else lookup sp.threadHandle t') →
      (∀ h, spx.handles[h]? = hOf { s1 with thr := upd s1.thr t { s1.thr t with phase := .ended } } h) →
      Abs { s1 with thr := upd s1.thr t { s1.thr t with phase := .ended } } spx := by
    intro spx e1 e2 e3 e4 e5 e6 e7
    refine ⟨e7, by rw [e1, ab.aT]; exact b2.symm, ?_, ?_, ?_, ?_, ?_⟩
    · intro t'
      rw [e6 t']
      by_cases e : t' = t
      · subst e
        rw [if_pos rfl]
        unfold selfOf; simp only [upd_same]
        rw [b1]
        cases hh : (s.thr t').handle with
        | some h => simp
        | none =>
          simp only
          rw [a2]
          cases hp : (s.key 0).published with
          | none => rfl
          | some n0 =>
            simp only
            rw [a5]
            by_cases hv : s.tls t' n0 = 0
            · simp [hv]
            · have hP := hk.kP 0 n0 hp
              have d : dtorDue s t' n0 := ⟨(hP.2.2 hr.k0w).1, by rw [hk.kD n0 hP.1, hP.2.1]; exact hr.k0n, hv⟩
              simp [d, List.mem_range, hP.1]
      · rw [if_neg e, ab.aS t']
        symm
        refine selfOf_thr_eq t' (by simp only; rw [upd_ne _ _ e, b1]) (fun _ => by simp only; rw [upd_ne _ _ e, b1])
          (fun _ => ⟨by simp only; rw [a2], fun m _ => by simp only; rw [a5]; simp [e]⟩)
    · intro t'
      rw [e2, ab.aO t']; simp only
      by_cases e : t' = t
      · subst e; simp [b1]
      · rw [upd_ne _ _ e, b1]
    · intro k; rw [e3, ab.aK k]; unfold kOf; simp only; rw [a4, a2]
    · intro t' k hk0
      have : spx.cell t' k = (clearedSp sp t).cell t' k := by rw [cell_def, cell_def, e5]
      rw [this, hcells t' k hk0]; rfl
    · intro k; rw [e4, ab.aF k]; simp only; rw [a2]
  have hlogs : ({ s1 with thr := upd s1.thr t { s1.thr t with phase := .ended } } : State).joinLog = s.joinLog ∧
      ({ s1 with thr := upd s1.thr t { s1.thr t with phase := .ended } } : State).getLog = s.getLog ∧
      ({ s1 with thr := upd s1.thr t { s1.thr t with phase := .ended } } : State).curLog = s.curLog := ⟨c1, c2, c3⟩
  rw [threadEnd_unfold]
  by_cases hcell : ∃ n0, (s.key 0).published = some n0 ∧ s.tls t n0 ≠ 0
  · -- the thread's library cell holds a handle: its own reference goes
    obtain ⟨n0, hp0, hv0⟩ := hcell
    have hP := hk.kP 0 n0 hp0
    have d : dtorDue s t n0 := ⟨(hP.2.2 hr.k0w).1, by rw [hk.kD n0 hP.1, hP.2.1]; exact hr.k0n, hv0⟩
    obtain ⟨hhdl, hfr⟩ := hH.2 n0 (List.mem_range.mpr hP.1) hP.2.1 d
    obtain ⟨hw, htr, hth⟩ := hi.lT t n0 hP.2.1 hv0
    have hlt := hi.lt_of_written hw
    have hself : lookup sp.threadHandle t = some (s.tls t n0 - 1) := by
      rw [ab.aS t]; unfold selfOf
      cases hh : (s.thr t).handle with
      | none => simp [hp0, hv0]
      | some h =>
        obtain ⟨m, g1, g2⟩ := hr.tF t h hph hh
        rw [hp0] at g1; injection g1 with g1; subst g1
        simp [hph, g2]
    simp only [hself]
    have hsp : (clearedSp sp t).handles[s.tls t n0 - 1]? = some (absH (s.hdl (s.tls t n0 - 1))) := by
      rw [show (clearedSp sp t).handles = sp.handles from rfl, ab.aH, hOf, if_pos hlt]
    have hR := hi.hR _ hfr
    have hrefs : (absH (s.hdl (s.tls t n0 - 1))).refs = holders (s.hdl (s.tls t n0 - 1)) := by rw [absH_live hfr hw]
    have hone : ((s.hdl (s.tls t n0 - 1)).refCount = unrefFreesWhenOldIs) ↔ (absH (s.hdl (s.tls t n0 - 1))).refs = 1 := by
      rw [hrefs, hR]; simp only [unrefFreesWhenOldIs]; omega
    -- the free log of the machine
    have hfl : s1.freeLog = (if (s.hdl (s.tls t n0 - 1)).refCount = unrefFreesWhenOldIs then s.freeLog ++ [s.tls t n0 - 1] else s.freeLog) := by
      rcases hF with h1 | ⟨m, _, ho, hv, hc, h1⟩
      · by_cases c : (s.hdl (s.tls t n0 - 1)).refCount = unrefFreesWhenOldIs
        · -- the handle was freed, so the log did grow
          exfalso
          have hi1 := hi.runDtors_inv hk hph hrd
          have : (s1.hdl (s.tls t n0 - 1)).freed = true := by rw [hhdl]; simp [afterOwn, c]
          have m1 := (hi1.fL _).mpr this
          rw [h1] at m1
          have := (hi.fL _).mp m1; rw [hfr] at this; cases this
        · rw [if_neg c]; exact h1
      · have : m = n0 := by
          have p := hk.kV t m hv; rw [ho, hp0] at p; injection p with p; exact p.symm
        subst this
        rw [if_pos hc]; exact h1
    -- the handle table on both sides
    have hhand : ∀ f : H → H, absH (afterOwn (s.hdl (s.tls t n0 - 1))) = f (absH (s.hdl (s.tls t n0 - 1))) →
        ∀ h, ((clearedSp sp t).modH (s.tls t n0 - 1) f).handles[h]? =
          hOf { s1 with thr := upd s1.thr t { s1.thr t with phase := .ended } } h := by
      intro f hf h
      rw [modH_get, show (clearedSp sp t).handles = sp.handles from rfl, ab.aH h]
      unfold hOf; simp only
      rw [c4, hhdl]
      by_cases e : s.tls t n0 - 1 = h
      · subst e; simp [hlt, hf]
      · rw [if_neg e, upd_ne _ _ (Ne.symm e)]
    have hlook : ∀ (spx : S), spx.threadHandle = sp.threadHandle →
        ∀ t', lookup (spx.threadHandle.filter (·.1 ≠ t)) t' = if t' = t then none else lookup sp.threadHandle t' := by
      intro spx hx t'
      rw [hx]
      have : sp.threadHandle.filter (·.1 ≠ t) = sp.threadHandle.filter (fun c => (fun a : Nat => decide (a ≠ t)) c.1) := rfl
      rw [this, lookup_filter sp.threadHandle (fun a : Nat => decide (a ≠ t)) t']
      by_cases e : t' = t
      · simp [e]
      · simp [e]
    by_cases c : (s.hdl (s.tls t n0 - 1)).refCount = unrefFreesWhenOldIs
    · have c' := hone.mp c
      simp only [PV.UThreadSpec.drop, hsp, c', if_true]
      constructor
      · refine rest _ rfl rfl rfl rfl rfl (hlook _ rfl) (hhand _ ?_)
        simp [absH, afterOwn, c, decd]
      · simp only [obsM, hdt]
        rw [hfl, if_pos c]
        simp [liveOf, c1, c2, c3]
    · have c' : ¬ (absH (s.hdl (s.tls t n0 - 1))).refs = 1 := fun x => c (hone.mpr x)
      simp only [PV.UThreadSpec.drop, hsp, c', if_false]
      constructor
      · refine rest _ rfl rfl rfl rfl rfl (hlook _ rfl) (hhand _ ?_)
        rw [absH_live hfr hw]
        have hL := hi.hL _ hw hfr
        simp only [holders, htr] at hL hrefs c' ⊢
        simp [absH, afterOwn, c, decd, hfr, hw, holders]
      · simp only [obsM, hdt]
        rw [hfl, if_neg c]
        simp [liveOf, c1, c2, c3]
  · -- nothing in the library cell: no handle is involved
    have nodue : ∀ n, n ∈ List.range s.nN → ¬ ((s.nkey n).owner = 0 ∧ dtorDue s t n) := by
      intro n _ x
      have p := hk.kV t n x.2.2.2
      rw [x.1] at p
      exact hcell ⟨n, p, x.2.2.2⟩
    have hhdl := hH.1 nodue
    have hfl : s1.freeLog = s.freeLog := by
      rcases hF with h1 | ⟨m, _, ho, hv, _, _⟩
      · exact h1
      · exfalso; have p := hk.kV t m hv; rw [ho] at p; exact hcell ⟨m, p, hv⟩
    have hself : lookup sp.threadHandle t = none := by
      rw [ab.aS t]; unfold selfOf
      cases hh : (s.thr t).handle with
      | some h =>
        obtain ⟨m, g1, g2⟩ := hr.tF t h hph hh
        exact absurd ⟨m, g1, by rw [g2]; omega⟩ hcell
      | none =>
        simp only
        cases hp : (s.key 0).published with
        | none => rfl
        | some n0 =>
          simp only
          by_cases hv : s.tls t n0 = 0
          · simp [hv]
          · exact absurd ⟨n0, hp, hv⟩ hcell
    simp only [hself]
    constructor
    · refine rest _ rfl rfl rfl rfl rfl ?_ ?_
      · intro t'
        rw [show (clearedSp sp t).threadHandle = sp.threadHandle from rfl]
        by_cases e : t' = t
        · subst e; rw [hself]; simp
        · rw [if_neg e]
      · intro h
        rw [show (clearedSp sp t).handles = sp.handles from rfl, ab.aH h]
        unfold hOf; simp only; rw [c4, hhdl]
    · simp only [obsM, hdt]
      rw [hfl]
      simp [liveOf, c1, c2, c3]

theorem Abs.init : Abs init {} := by
  refine ⟨?_, rfl, ?_, ?_, ?_, ?_, ?_⟩
  · intro h; simp [hOf, PV.UThread.init]
  · intro t; unfold selfOf; simp only [lookup, PV.UThread.init]
    by_cases e : t = 0 <;> simp [e]
  · intro t; simp [PV.UThread.init]; split <;> rfl
  · intro k; unfold kOf; simp only [PV.UThread.init]
    cases k with
    | zero => simp
    | succ k => simp
  · intro t k _; simp [S.cell, lookup, cellOf, valueOf, PV.UThread.init]; split <;> simp
  · intro k; simp [PV.UThread.init]; split <;> simp

/-- one event: the abstraction relation is kept and both sides give the same answer -/
theorem refine_step {s s' : State} {sp : S} {e : Ev} (hr : Reach s) (ab : Abs s sp) (hs : step s e = .ok s') :
    Abs s' (specStep sp e).1 ∧ obsM s e s' = (specStep sp e).2 := by
  obtain ⟨hk, hi⟩ := hr.inv
  obtain ⟨hri, hj⟩ := hr.rinv
  cases e with
  | spawn => obtain ⟨a, o⟩ := refine_spawn hk ab hs; exact ⟨a, by rw [o]; simp [specStep, a.live]⟩
  | createBegin a' j n => obtain ⟨a, o⟩ := refine_createBegin hk hi ab hs; exact ⟨a, by rw [o]; simp [specStep, a.live]⟩
  | createEnd a' => obtain ⟨a, o⟩ := refine_createEnd hi hj ab hs; exact ⟨a, by rw [o]; simp [specStep, a.live]⟩
  | start t => obtain ⟨a, o⟩ := refine_start hk ab hs; exact ⟨a, by rw [o]; simp [specStep, a.live]⟩
  | exit t c => obtain ⟨a, o⟩ := refine_exit hk hi hr.pinv ab hs; exact ⟨a, by rw [o]; simp [specStep, a.live]⟩
  | ret t => obtain ⟨a, o⟩ := refine_ret ab hs; exact ⟨a, by rw [o]; simp [specStep, a.live]⟩
  | threadEnd t => obtain ⟨a, o⟩ := refine_threadEnd hk hi hri ab hs; exact ⟨a, by rw [o]; simp [specStep, a.live]⟩
  | ref a' h => obtain ⟨a, o⟩ := refine_ref ab hs; exact ⟨a, by rw [o]; simp [specStep, a.live]⟩
  | unref a' h => obtain ⟨a, o⟩ := refine_unref hi ab hs; exact ⟨a, by rw [o]; simp [specStep, a.live]⟩
  | join a' h => obtain ⟨a, o⟩ := refine_join ab hs; exact ⟨a, by rw [o]; simp [specStep, a.live]⟩
  | current t => obtain ⟨a, o⟩ := refine_current hk hi ab hs; exact ⟨a, by rw [o]; simp [specStep, a.live]⟩
  | localNew a' n => obtain ⟨a, o⟩ := refine_localNew hk hi ab hs; exact ⟨a, by rw [o]; simp [specStep, a.live]⟩
  | localFree a' k => obtain ⟨a, o⟩ := refine_localFree hk ab hs; exact ⟨a, by rw [o]; simp [specStep, a.live]⟩
  | keyCreate t k => obtain ⟨a, o⟩ := refine_keyCreate hk ab hs; exact ⟨a, by rw [o]; simp [specStep, a.live]⟩
  | keyCas t k => obtain ⟨a, o⟩ := refine_keyCas hk ab hs; exact ⟨a, by rw [o]; simp [specStep, a.live]⟩
  | setLocal t k v => obtain ⟨a, o⟩ := refine_setLocal hk ab hs; exact ⟨a, by rw [o]; simp [specStep, a.live]⟩
  | replaceLocal t k v => obtain ⟨a, o⟩ := refine_replaceLocal hk ab hs; exact ⟨a, by rw [o]; simp [specStep, a.live]⟩
  | getLocal t k => obtain ⟨a, o⟩ := refine_getLocal ab hs; exact ⟨a, by rw [o]; simp [specStep, a.live]⟩
  | createFail a' => obtain ⟨a, o⟩ := refine_createFail hi ab hs; exact ⟨a, by rw [o]; simp [specStep, a.live]⟩
  | joinFail a' h => obtain ⟨a, o⟩ := refine_joinFail ab hs; exact ⟨a, by rw [o]; simp [specStep, a.live]⟩
  | tlsFail t k g => obtain ⟨a, o⟩ := refine_tlsFail ab hs; exact ⟨a, by rw [o]; simp [specStep, a.live]⟩
  | currentFail t => obtain ⟨a, o⟩ := refine_currentFail hi ab hs; exact ⟨a, by rw [o]; simp [specStep, a.live]⟩
  | storeFail t k r => obtain ⟨a, o⟩ := refine_storeFail ab hs; exact ⟨a, by rw [o]; simp [specStep, a.live]⟩
  | startUnstored t => obtain ⟨a, o⟩ := refine_startUnstored ab hs; exact ⟨a, by rw [o]; simp [specStep, a.live]⟩
  | retUnstored t h => obtain ⟨a, o⟩ := refine_retUnstored hi hr.pinv ab hs; exact ⟨a, by rw [o]; simp [specStep, a.live]⟩

/-- over any history: as long as the machine accepts the events, the reference gives the same answers -/
theorem refine_run : ∀ (es : List Ev) {s : State} {sp : S}, Reach s → Abs s sp →
    obsRun s es = (specRun sp es).take (obsRun s es).length ∧
    (∀ s', run s es = .ok s' → obsRun s es = specRun sp es ∧ ∃ sp', Abs s' sp')
  | [], s, sp, _, ab => ⟨by simp [obsRun, specRun], fun s' hs => by
      unfold run at hs; injection hs with hs; subst hs; exact ⟨by simp [obsRun, specRun], sp, ab⟩⟩
  | e :: r, s, sp, hr, ab => by
    cases hs : step s e with
    | error x => exact ⟨by simp [obsRun, hs], fun s' h => by unfold run at h; rw [hs] at h; cases h⟩
    | ok s1 =>
      obtain ⟨ab1, ho⟩ := refine_step hr ab hs
      have ih := refine_run r (.step e hr hs) ab1
      refine ⟨?_, ?_⟩
      · simp only [obsRun, hs, specRun, List.length_cons, List.take_succ_cons]
        rw [ho]; congr 1; exact ih.1
      · intro s' h
        unfold run at h; rw [hs] at h
        have := ih.2 s' h
        exact ⟨by simp only [obsRun, hs, specRun]; rw [ho, this.1], this.2⟩

end PV.UThread

import PV.Model.CondVar
/-! Helper lemmas for C03: list sums / counts, the bare monitor, inversion of the client steps. -/
namespace PV.CondVar

/-! ## sums and counts over the thread table -/

def sumOver {α : Type} (f : α → Nat) (l : List α) : Nat := (l.map f).sum

@[simp] theorem sumOver_nil {α : Type} (f : α → Nat) : sumOver f [] = 0 := rfl
@[simp] theorem sumOver_cons {α : Type} (f : α → Nat) (a : α) (l : List α) :
    sumOver f (a :: l) = f a + sumOver f l := by simp [sumOver]
@[simp] theorem sumOver_append {α : Type} (f : α → Nat) (l₁ l₂ : List α) :
    sumOver f (l₁ ++ l₂) = sumOver f l₁ + sumOver f l₂ := by simp [sumOver, List.sum_append]

theorem sumOver_set {α : Type} {f : α → Nat} {l : List α} {i : Nat} {a : α} (b : α)
    (h : l[i]? = some a) : sumOver f (l.set i b) + f a = sumOver f l + f b := by
  induction l generalizing i with
  | nil => simp at h
  | cons x t ih =>
    cases i with
    | zero =>
      simp at h; subst h
      simp [List.set]; omega
    | succ k =>
      simp at h
      have := ih h
      simp [List.set]; omega

theorem sumOver_pos {α : Type} {f : α → Nat} {l : List α} (h : 0 < sumOver f l) :
    ∃ x, x ∈ l ∧ 0 < f x := by
  induction l with
  | nil => simp at h
  | cons x t ih =>
    simp at h
    by_cases hx : 0 < f x
    · exact ⟨x, by simp, hx⟩
    · have : 0 < sumOver f t := by omega
      obtain ⟨y, hy, hy'⟩ := ih this
      exact ⟨y, by simp [hy], hy'⟩

theorem le_sumOver_of_mem {α : Type} {f : α → Nat} {l : List α} {x : α} (h : x ∈ l) : f x ≤ sumOver f l := by
  induction l with
  | nil => simp at h
  | cons y t ih =>
    simp at h ⊢
    rcases h with rfl | h
    · omega
    · have := ih h; omega

theorem sumOver_eq_zero {α : Type} {f : α → Nat} {l : List α} (h : ∀ x, x ∈ l → f x = 0) :
    sumOver f l = 0 := by
  induction l with
  | nil => rfl
  | cons x t ih =>
    simp
    exact ⟨h x (by simp), ih (fun y hy => h y (by simp [hy]))⟩

theorem sumOver_le_length {α : Type} {f : α → Nat} {l : List α} (h : ∀ x, f x ≤ 1) :
    sumOver f l ≤ l.length := by
  induction l with
  | nil => simp
  | cons x t ih => simp; have := h x; omega

/-- number of entries satisfying `p` -/
def cnt {α : Type} (p : α → Bool) (l : List α) : Nat := sumOver (fun t => if p t then 1 else 0) l

theorem cnt_set {α : Type} {p : α → Bool} {l : List α} {i : Nat} {a : α} (b : α) (h : l[i]? = some a) :
    cnt p (l.set i b) + (if p a then 1 else 0) = cnt p l + (if p b then 1 else 0) :=
  sumOver_set (f := fun t => if p t then 1 else 0) b h

theorem cnt_same' {α : Type} {p : α → Bool} {l : List α} {i : Nat} {a b : α} (h : l[i]? = some a)
    (hp : p b = p a) : cnt p (l.set i b) = cnt p l := by
  have := cnt_set (p := p) b h
  rw [hp] at this
  omega

theorem cnt_le_length {α : Type} (p : α → Bool) (l : List α) : cnt p l ≤ l.length :=
  sumOver_le_length (fun x => by split <;> omega)

theorem cnt_pos_of_mem {α : Type} {p : α → Bool} {l : List α} {x : α} (hx : x ∈ l) (hp : p x = true) :
    0 < cnt p l := by
  induction l with
  | nil => simp at hx
  | cons y t ih =>
    simp [cnt] at *
    rcases hx with rfl | hx
    · simp [hp]; omega
    · have := ih hx; omega

theorem cnt_eq_zero {α : Type} {p : α → Bool} {l : List α} (h : ∀ x, x ∈ l → p x = false) : cnt p l = 0 :=
  sumOver_eq_zero (fun x hx => by simp [h x hx])

theorem get_set {α : Type} {l : List α} {i : Nat} {a : α} (b : α) (j : Nat) (h : l[i]? = some a) :
    (l.set i b)[j]? = if j = i then some b else l[j]? := by
  have hi : i < l.length := by
    rcases Nat.lt_or_ge i l.length with h' | h'
    · exact h'
    · simp [List.getElem?_eq_none h'] at h
  by_cases hj : j = i
  · subst hj; simp [hi]
  · have : i ≠ j := fun e => hj e.symm
    simp [hj, List.getElem?_set_ne this]

theorem mem_set_cases {α : Type} {l : List α} {i : Nat} {b x : α} (h : x ∈ l.set i b) : x = b ∨ x ∈ l := by
  rcases List.mem_or_eq_of_mem_set h with h | h
  · exact Or.inr h
  · exact Or.inl h

/-! ## list facts for the wait-set / woken bookkeeping -/

theorem nodup_move {a b : List Nat} {w : Nat} (h : (a ++ b).Nodup) (hw : w ∈ a) :
    (a.erase w ++ (b ++ [w])).Nodup := by
  have p1 : (a.erase w ++ (b ++ [w])).Perm (a ++ b) := by
    have h1 : (w :: a.erase w).Perm a := (List.perm_cons_erase hw).symm
    have h2 : (a.erase w ++ (b ++ [w])).Perm (w :: (a.erase w ++ b)) := by
      rw [← List.append_assoc]
      exact List.perm_append_singleton _ _
    exact h2.trans (by simpa using h1.append_right b)
  exact p1.nodup_iff.mpr h

theorem nodup_swap {a b : List Nat} (h : (a ++ b).Nodup) : ([] ++ (b ++ a)).Nodup := by
  rw [List.nil_append]
  exact (List.perm_append_comm.nodup_iff).mpr h

theorem nodup_erase_right {a b : List Nat} (t : Nat) (h : (a ++ b).Nodup) : (a ++ b.erase t).Nodup :=
  h.sublist ((List.Sublist.refl a).append List.erase_sublist)

set_option linter.unnecessarySimpa false in
theorem nodup_snoc_left {a b : List Nat} {t : Nat} (h : (a ++ b).Nodup) (ha : t ∉ a) (hb : t ∉ b) :
    ((a ++ [t]) ++ b).Nodup := by
  have p : ((a ++ [t]) ++ b).Perm (t :: (a ++ b)) := by
    simpa using (List.perm_append_singleton t a).append_right b
  refine p.nodup_iff.mpr ?_
  simp [List.nodup_cons, h, ha, hb]

theorem not_mem_erase_right {a b : List Nat} {t : Nat} (h : (a ++ b).Nodup) : t ∉ b.erase t := by
  have hb : b.Nodup := (List.nodup_append.mp h).2.1
  exact fun hm => (hb.mem_erase_iff.mp hm).1 rfl

/-! ## the bare monitor -/

theorem upd_same (f : CvId → List Tid) (c : CvId) (v : List Tid) : upd f c v c = v := by simp [upd]
theorem upd_other (f : CvId → List Tid) {c x : CvId} (v : List Tid) (h : x ≠ c) : upd f c v x = f x := by
  simp [upd, h]

theorem mon_wait_some {m m' : Mon} {t : Tid} {cv : CvId} (h : m.wait t cv = some m') :
    m.owner = some t ∧ m' = { owner := none, wset := upd m.wset cv (m.wset cv ++ [t]), woken := m.woken } := by
  unfold Mon.wait at h
  split at h
  · rename_i ho; exact ⟨ho, by simpa using h.symm⟩
  · contradiction

theorem mon_lock_some {m m' : Mon} {t : Tid} (h : m.lock t = some m') :
    m.owner = none ∧ m' = { m with owner := some t } := by
  unfold Mon.lock at h
  split at h
  · rename_i ho; exact ⟨ho, by simpa using h.symm⟩
  · contradiction

theorem mon_unlock_some {m m' : Mon} {t : Tid} (h : m.unlock t = some m') :
    m.owner = some t ∧ m' = { m with owner := none } := by
  unfold Mon.unlock at h
  split at h
  · rename_i ho; exact ⟨ho, by simpa using h.symm⟩
  · contradiction

theorem mon_signal_some {m m' : Mon} {cv : CvId} {w : Option Tid} (h : m.signal cv w = some m') :
    (w = none ∧ m.wset cv = [] ∧ m' = m) ∨ (∃ x, w = some x ∧ x ∈ m.wset cv ∧ m' = m.wake cv x) := by
  unfold Mon.signal at h
  split at h
  · split at h
    · rename_i he; exact Or.inl ⟨rfl, he, by simpa using h.symm⟩
    · contradiction
  · rename_i x
    split at h
    · rename_i hx; exact Or.inr ⟨x, rfl, hx, by simpa using h.symm⟩
    · contradiction

theorem mon_spurious_some {m m' : Mon} {cv : CvId} {w : Tid} (h : m.spurious cv w = some m') :
    w ∈ m.wset cv ∧ m' = m.wake cv w := by
  unfold Mon.spurious at h
  split at h
  · rename_i hx; exact ⟨hx, by simpa using h.symm⟩
  · contradiction

theorem mon_reacquire_some {m m' : Mon} {cv : CvId} {t : Tid} (h : m.reacquire cv t = some m') :
    t ∈ m.woken cv ∧ m.owner = none ∧
      m' = m.reacquired cv t := by
  unfold Mon.reacquire at h
  split at h
  · rename_i hx; exact ⟨hx.1, hx.2, by simpa using h.symm⟩
  · contradiction

/-- a step that is not a wake-up of `t` on `cv` leaves `t` in the wait-set -/
theorem mon_step_keeps_waiter {m m' : Mon} {l : MLabel} {t : Tid} {cv : CvId}
    (h : m.step l = some m') (ht : t ∈ m.wset cv) (hl : l.wakes t cv = false) : t ∈ m'.wset cv := by
  cases l with
  | lock u => obtain ⟨_, rfl⟩ := mon_lock_some h; exact ht
  | unlock u => obtain ⟨_, rfl⟩ := mon_unlock_some h; exact ht
  | wait u c =>
    obtain ⟨_, rfl⟩ := mon_wait_some h
    by_cases hc : cv = c
    · subst hc; simp [upd, ht]
    · simp [upd, hc, ht]
  | signal u c w =>
    rcases mon_signal_some h with ⟨_, _, rfl⟩ | ⟨x, rfl, hx, rfl⟩
    · exact ht
    · by_cases hc : cv = c
      · subst hc
        have hne : t ≠ x := by
          intro e; subst e; simp [MLabel.wakes] at hl
        simp [Mon.wake, upd, List.mem_erase_of_ne hne, ht]
      · simp [Mon.wake, upd, hc, ht]
  | broadcast u c =>
    have hc : cv ≠ c := by
      intro e; subst e; simp [MLabel.wakes] at hl
    simp [Mon.step] at h; subst h
    simp [Mon.broadcast, upd, hc, ht]
  | spurious c w =>
    obtain ⟨hw, rfl⟩ := mon_spurious_some h
    by_cases hc : cv = c
    · subst hc
      have hne : t ≠ w := by
        intro e; subst e; simp [MLabel.wakes] at hl
      simp [Mon.wake, upd, List.mem_erase_of_ne hne, ht]
    · simp [Mon.wake, upd, hc, ht]
  | reacquire c u => obtain ⟨_, _, rfl⟩ := mon_reacquire_some h; exact ht

theorem mon_run_keeps_waiter {ls : List MLabel} {m m' : Mon} {t : Tid} {cv : CvId}
    (h : m.run ls = some m') (ht : t ∈ m.wset cv) (hl : ∀ l, l ∈ ls → l.wakes t cv = false) :
    t ∈ m'.wset cv := by
  induction ls generalizing m with
  | nil => simp [Mon.run] at h; subst h; exact ht
  | cons l ls ih =>
    simp only [Mon.run] at h
    cases hs : m.step l with
    | none => simp [hs] at h
    | some m1 =>
      simp [hs] at h
      exact ih h (mon_step_keeps_waiter hs ht (hl l (by simp))) (fun l' hl' => hl l' (by simp [hl']))

/-! ## inversion of the client steps -/

theorem execLock_some {s s' : PCState} {i : Tid} (h : execLock s i = some s') :
    ∃ th, s.thr[i]? = some th ∧ th.pc = .start ∧ 0 < th.rem ∧ s.mon.owner = none ∧
      s' = { s with mon := { s.mon with owner := some i }, thr := s.thr.set i { th with pc := .check } } := by
  unfold execLock at h
  split at h
  · contradiction
  · rename_i th hth
    split at h
    · rename_i hc
      split at h
      · contradiction
      · rename_i m hm
        obtain ⟨ho, rfl⟩ := mon_lock_some hm
        exact ⟨th, hth, hc.1, hc.2, ho, by simpa using h.symm⟩
    · contradiction

theorem execCheck_some {cfg : Cfg} {s s' : PCState} {i : Tid} (h : execCheck cfg s i = some s') :
    ∃ th, s.thr[i]? = some th ∧ th.pc = .check ∧
      ((blocked cfg th.role s.buf = true ∧ s.mon.owner = some i ∧
          s' = { s with mon := { owner := none, wset := upd s.mon.wset th.role.waitCv (s.mon.wset th.role.waitCv ++ [i]),
                                 woken := s.mon.woken },
                        thr := s.thr.set i { th with pc := .inwait } }) ∨
       (blocked cfg th.role s.buf = false ∧ s' = act cfg s i th)) := by
  unfold execCheck at h
  split at h
  · contradiction
  · rename_i th hth
    split at h
    · rename_i hc
      split at h
      · rename_i hb
        split at h
        · contradiction
        · rename_i m hm
          obtain ⟨ho, rfl⟩ := mon_wait_some hm
          exact ⟨th, hth, hc, Or.inl ⟨hb, ho, by simpa using h.symm⟩⟩
      · rename_i hb
        exact ⟨th, hth, hc, Or.inr ⟨by simpa using hb, by simpa using h.symm⟩⟩
    · contradiction

theorem execSignal_some {cfg : Cfg} {s s' : PCState} {i : Tid} {w : Option Tid}
    (h : execSignal cfg s i w = some s') :
    ∃ th, s.thr[i]? = some th ∧ th.pc = .sig ∧
      ((cfg.bcast = true ∧ w = none ∧
          s' = { s with mon := s.mon.broadcast th.role.sigCv, thr := s.thr.set i { th with pc := .unl } }) ∨
       (cfg.bcast = false ∧ w = none ∧ s.mon.wset th.role.sigCv = [] ∧
          s' = { s with thr := s.thr.set i { th with pc := .unl } }) ∨
       (cfg.bcast = false ∧ ∃ x, w = some x ∧ x ∈ s.mon.wset th.role.sigCv ∧
          s' = { s with mon := s.mon.wake th.role.sigCv x, thr := s.thr.set i { th with pc := .unl } })) := by
  unfold execSignal at h
  split at h
  · contradiction
  · rename_i th hth
    split at h
    · rename_i hc
      split at h
      · rename_i hb
        split at h
        · rename_i hw
          exact ⟨th, hth, hc, Or.inl ⟨hb, hw, by simpa using h.symm⟩⟩
        · contradiction
      · rename_i hb
        split at h
        · contradiction
        · rename_i m hm
          rcases mon_signal_some hm with ⟨rfl, he, rfl⟩ | ⟨x, rfl, hx, rfl⟩
          · exact ⟨th, hth, hc, Or.inr (Or.inl ⟨by simpa using hb, rfl, he, by simpa using h.symm⟩)⟩
          · exact ⟨th, hth, hc, Or.inr (Or.inr ⟨by simpa using hb, x, rfl, hx, by simpa using h.symm⟩)⟩
    · contradiction

theorem execUnlock_some {s s' : PCState} {i : Tid} (h : execUnlock s i = some s') :
    ∃ th, s.thr[i]? = some th ∧ th.pc = .unl ∧ s.mon.owner = some i ∧
      s' = { s with mon := { s.mon with owner := none }, thr := s.thr.set i { th with pc := .start } } := by
  unfold execUnlock at h
  split at h
  · contradiction
  · rename_i th hth
    split at h
    · rename_i hc
      split at h
      · contradiction
      · rename_i m hm
        obtain ⟨ho, rfl⟩ := mon_unlock_some hm
        exact ⟨th, hth, hc, ho, by simpa using h.symm⟩
    · contradiction

theorem execReacquire_some {cfg : Cfg} {s s' : PCState} {i : Tid} (h : execReacquire cfg s i = some s') :
    ∃ th, s.thr[i]? = some th ∧ th.pc = .inwait ∧ i ∈ s.mon.woken th.role.waitCv ∧ s.mon.owner = none ∧
      ((cfg.recheck = true ∧
        s' = { s with mon := s.mon.reacquired th.role.waitCv i, thr := s.thr.set i { th with pc := .check } }) ∨
       (cfg.recheck = false ∧
        s' = act cfg { s with mon := s.mon.reacquired th.role.waitCv i } i th)) := by
  unfold execReacquire at h
  split at h
  · contradiction
  · rename_i th hth
    split at h
    · rename_i hc
      split at h
      · contradiction
      · rename_i m hm
        obtain ⟨hw, ho, rfl⟩ := mon_reacquire_some hm
        split at h
        · rename_i hr
          exact ⟨th, hth, hc, hw, ho, Or.inl ⟨hr, by simpa using h.symm⟩⟩
        · rename_i hr
          exact ⟨th, hth, hc, hw, ho, Or.inr ⟨by simpa using hr, by simpa using h.symm⟩⟩
    · contradiction

theorem execSpurious_some {s s' : PCState} {i : Tid} (h : execSpurious s i = some s') :
    ∃ th, s.thr[i]? = some th ∧ th.pc = .inwait ∧ i ∈ s.mon.wset th.role.waitCv ∧
      s' = { s with mon := s.mon.wake th.role.waitCv i } := by
  unfold execSpurious at h
  split at h
  · contradiction
  · rename_i th hth
    split at h
    · rename_i hc
      split at h
      · contradiction
      · rename_i m hm
        obtain ⟨hw, rfl⟩ := mon_spurious_some hm
        exact ⟨th, hth, hc, hw, by simpa using h.symm⟩
    · contradiction

end PV.CondVar

import PV.Model.Tree.MorrisClear
import PV.Lemmas.Tree.Morris
/-!
Lemmas for the heap-level model of `p_tree_clear`.
-/
namespace PV.Tree.Morris
open PV.Tree

variable {κ ν : Type}

/-! ### `free` -/

theorem Heap.get_free_ne (h : Heap κ ν) {a b : Nat} (hab : a ≠ b) :
    (h.free a).get b = h.get b := by
  simp [Heap.get, Heap.free, List.getElem?_set_ne hab]

theorem Heap.get_free_eq (h : Heap κ ν) (a : Nat) : (h.free a).get a = none := by
  by_cases hlt : a < h.cells.length
  · simp [Heap.get, Heap.free, hlt]
  · have : (h.cells.set a none)[a]? = none :=
      List.getElem?_eq_none (by simpa using Nat.le_of_not_lt hlt)
    simp [Heap.get, Heap.free, this]

/-! ### `graft` -/

theorem PT.addrs_graft (t x : PT κ ν) : (t.graft x).addrs = t.addrs ++ x.addrs := by
  induction t with
  | nil => simp [PT.graft, PT.addrs]
  | node a l k v r _ ihr => simp [PT.graft, PT.addrs, ihr]

theorem PT.toList_graft (t x : PT κ ν) :
    (t.graft x).erase.toList = t.erase.toList ++ x.erase.toList := by
  induction t with
  | nil => simp [PT.graft, PT.erase, BT.toList]
  | node a l k v r _ ihr => simp [PT.graft, PT.erase, BT.toList, ihr]

theorem PT.size_graft (t x : PT κ ν) : (t.graft x).size = t.size + x.size := by
  induction t with
  | nil => simp [PT.graft, PT.size]
  | node a l k v r _ ihr => simp [PT.graft, PT.size, ihr]; omega

theorem PT.iters_node (a : Nat) (l : PT κ ν) (k : κ) (v : ν) (r : PT κ ν) :
    (PT.node a l k v r).iters = (PT.node a l k v .nil).iters + r.iters := by
  cases l <;> simp [PT.iters] <;> omega

theorem PT.iters_graft (t x : PT κ ν) : (t.graft x).iters = t.iters + x.iters := by
  induction t with
  | nil => simp [PT.graft, PT.iters]
  | node a l k v r _ ihr =>
    rw [PT.graft, PT.iters_node, ihr, PT.iters_node a l k v r]; omega

theorem ReprP.graft {h : Heap κ ν} {p px ret : Option Nat} {t x : PT κ ν}
    (ht : ReprP h p t px) (hx : ReprP h px x ret) : ReprP h p (t.graft x) ret := by
  induction t generalizing p with
  | nil => simp only [ReprP] at ht; subst ht; exact hx
  | node a l k v r _ ihr =>
    obtain ⟨hp, n, hn, hk, hv, hl, hr⟩ := ht
    exact ⟨hp, n, hn, hk, hv, hl, ihr hr⟩

/-! ### inner walk -/

theorem walkR_rmost {h : Heap κ ν} {b : Nat} {l : PT κ ν} {k : κ} {v : ν} {r : PT κ ν}
    (hr : ReprP h (some b) (.node b l k v r) none) (wf : Nat)
    (hwf : (PT.node b l k v r).size ≤ wf) :
    walkR h wf b = .done (PT.rmost b r) := by
  induction r generalizing b l k v wf with
  | nil =>
    obtain ⟨_, n, hn, _, _, _, hrr⟩ := hr
    simp only [ReprP] at hrr
    obtain ⟨wf, rfl⟩ : ∃ w, wf = w + 1 := ⟨wf - 1, by simp [PT.size] at hwf; omega⟩
    simp [walkR, hn, hrr, PT.rmost]
  | node b' rl rk rv rr _ ih =>
    obtain ⟨_, n, hn, _, _, _, hrr⟩ := hr
    have hrb : n.right = some b' := hrr.1
    rw [hrb] at hrr
    obtain ⟨wf, rfl⟩ : ∃ w, wf = w + 1 := ⟨wf - 1, by simp [PT.size] at hwf; omega⟩
    have := ih hrr wf (by simp only [PT.size] at hwf ⊢; omega)
    simp [walkR, hn, hrb, PT.rmost, this]

/-! ### one iteration -/

theorem clearLoop_succ (wf f : Nat) (s : CSt κ ν) :
    clearLoop wf (f + 1) s =
      match clearBody wf s with
      | .done (.next s') => clearLoop wf f s'
      | .done (.ret s') => .done s'
      | .fault => .fault
      | .timeout => .timeout := rfl

theorem clearBody_free {wf : Nat} {s : CSt κ ν} {a : Nat} {n : Node κ ν}
    (hc : s.cur = some a) (hn : s.heap.get a = some n) (hl : n.left = none) :
    clearBody wf s = .done (.next
      { heap := s.heap.free a, cur := n.right, destroyed := s.destroyed ++ [(n.key, n.val)],
        freed := s.freed ++ [a], nnodes := s.nnodes - 1 }) := by
  simp [clearBody, hc, hn, hl]

theorem clearBody_rot {wf : Nat} {s : CSt κ ν} {a b q : Nat} {n nq : Node κ ν}
    (hc : s.cur = some a) (hn : s.heap.get a = some n) (hl : n.left = some b)
    (hw : walkR s.heap wf b = .done q) (hq : s.heap.get q = some nq) (hqa : q ≠ a) :
    clearBody wf s = .done (.next { s with
      heap := (s.heap.set q { nq with right := some a }).set a { n with left := none },
      cur := some b }) := by
  have : (s.heap.set q { nq with right := some a }).get a = some n := by
    rw [Heap.get_set_ne _ _ hqa]; exact hn
  simp [clearBody, hc, hn, hl, hw, hq, this]

/-! ### the whole loop -/

/-- From a well-formed tree `s` at `p` the loop runs exactly `s.iters` iterations, hands the pairs of
    `s` to the notifiers in in-order, frees the nodes of `s` in in-order, ends with
    `cur_node = NULL`, and the heap differs from the initial one exactly by the cells of `s` being
    empty. -/
theorem clear_trav (wf n : Nat) :
    ∀ (s : PT κ ν) (h : Heap κ ν) (p : Option Nat) (d : List (κ × ν)) (fr : List Nat) (nn : Int),
      s.iters = n → ReprP h p s none → s.addrs.Nodup → s.size ≤ wf →
      ∃ h', (∀ f, clearLoop wf (n + f) ⟨h, p, d, fr, nn⟩ =
               clearLoop wf f ⟨h', none, d ++ s.erase.toList, fr ++ s.addrs, nn - s.size⟩) ∧
            ∀ x, h'.get x = if x ∈ s.addrs then none else h.get x := by
  induction n with
  | zero =>
    intro s h p d fr nn hit hr _ _
    cases s with
    | nil =>
      simp only [ReprP] at hr; subst hr
      exact ⟨h, fun f => by simp [PT.erase, BT.toList, PT.addrs, PT.size], fun x => by simp [PT.addrs]⟩
    | node a l k v r => cases l <;> simp [PT.iters] at hit
  | succ n ih =>
    intro s h p d fr nn hit hr hnd hwf
    cases s with
    | nil => simp [PT.iters] at hit
    | node a l k v r =>
      obtain ⟨rfl, nd, hn, rfl, rfl, hl, hrr⟩ := hr
      have hnd' := hnd
      simp only [PT.addrs] at hnd'
      rw [List.nodup_append] at hnd'
      obtain ⟨hndl, hndar, hdisj⟩ := hnd'
      have hndr : r.addrs.Nodup := (List.nodup_cons.1 hndar).2
      have har : a ∉ r.addrs := (List.nodup_cons.1 hndar).1
      have hal : a ∉ l.addrs := fun hx => hdisj a hx a (List.mem_cons_self) rfl
      cases l with
      | nil =>
        have hleft : nd.left = none := hl
        have hitr : r.iters = n := by simp only [PT.iters] at hit; omega
        have hr1 : ReprP (h.free a) nd.right r none :=
          hrr.congr fun x hx => Heap.get_free_ne _ (fun hax => har (hax ▸ hx))
        obtain ⟨h', hrun, hheap⟩ := ih r (h.free a) nd.right (d ++ [(nd.key, nd.val)]) (fr ++ [a])
          (nn - 1) hitr hr1 hndr (by simp only [PT.size] at hwf; omega)
        refine ⟨h', fun f => ?_, fun x => ?_⟩
        · rw [show n + 1 + f = (n + f) + 1 by omega, clearLoop_succ, clearBody_free rfl hn hleft]
          simp only
          rw [hrun]
          simp only [PT.erase, BT.toList, PT.addrs, PT.size, List.nil_append, List.append_assoc,
            List.singleton_append]
          congr 2
          omega
        · rw [hheap x]
          by_cases hxa : x = a
          · subst hxa; simp [PT.addrs, Heap.get_free_eq]
          · simp [PT.addrs, hxa, Heap.get_free_ne _ (Ne.symm hxa)]
      | node b ll lk lv lr =>
        have hleft : nd.left = some b := hl.1
        rw [hleft] at hl
        obtain ⟨nq, hq, hqr, hset⟩ := hl.rmost hndl
        have hqmem := PT.rmost_mem b ll lk lv lr
        have hqa : PT.rmost b lr ≠ a := fun hx => hal (hx ▸ hqmem)
        have hqr' : PT.rmost b lr ∉ r.addrs := fun hx =>
          hdisj _ hqmem _ (List.mem_cons_of_mem _ hx) rfl
        have hw : walkR h wf b = .done (PT.rmost b lr) :=
          walkR_rmost hl wf (by simp only [PT.size] at hwf ⊢; omega)
        -- the heap after the rotation
        let h2 := (h.set (PT.rmost b lr) { nq with right := some a }).set a { nd with left := none }
        have hget2 : ∀ x, x ≠ PT.rmost b lr → x ≠ a → h2.get x = h.get x := by
          intro x hxq hxa
          simp only [h2]
          rw [Heap.get_set_ne _ _ (Ne.symm hxa), Heap.get_set_ne _ _ (Ne.symm hxq)]
        have hn1 : (h.set (PT.rmost b lr) { nq with right := some a }).get a = some nd := by
          rw [Heap.get_set_ne _ _ hqa]; exact hn
        have hl2 : ReprP h2 (some b) (PT.node b ll lk lv lr) (some a) :=
          (hset (some a)).congr fun x hx =>
            Heap.get_set_ne _ _ (fun hax => hal (hax ▸ hx))
        have ha2 : ReprP h2 (some a) (PT.node a .nil nd.key nd.val r) none := by
          refine ⟨rfl, { nd with left := none }, Heap.get_set_eq _ _ hn1, rfl, rfl, ?_, ?_⟩
          · simp [ReprP]
          · exact hrr.congr fun x hx =>
              hget2 x (fun hxq => hqr' (hxq ▸ hx)) (fun hxa => har (hxa ▸ hx))
        have hs2 := hl2.graft ha2
        have hadd : ((PT.node b ll lk lv lr).graft (PT.node a .nil nd.key nd.val r)).addrs =
            (PT.node a (PT.node b ll lk lv lr) nd.key nd.val r).addrs := by
          rw [PT.addrs_graft]; simp [PT.addrs]
        have hlist : ((PT.node b ll lk lv lr).graft (PT.node a .nil nd.key nd.val r)).erase.toList =
            (PT.node a (PT.node b ll lk lv lr) nd.key nd.val r).erase.toList := by
          rw [PT.toList_graft]; simp [PT.erase, BT.toList]
        have hsize : ((PT.node b ll lk lv lr).graft (PT.node a .nil nd.key nd.val r)).size =
            (PT.node a (PT.node b ll lk lv lr) nd.key nd.val r).size := by
          rw [PT.size_graft]; simp only [PT.size]; omega
        have hit2 : ((PT.node b ll lk lv lr).graft (PT.node a .nil nd.key nd.val r)).iters = n := by
          rw [PT.iters_graft]; simp only [PT.iters] at hit ⊢; omega
        obtain ⟨h', hrun, hheap⟩ := ih _ h2 (some b) d fr nn hit2 hs2 (hadd ▸ hnd) (hsize ▸ hwf)
        refine ⟨h', fun f => ?_, fun x => ?_⟩
        · rw [show n + 1 + f = (n + f) + 1 by omega, clearLoop_succ,
            clearBody_rot rfl hn hleft hw hq hqa]
          simp only
          rw [hrun, hadd, hlist, hsize]
        · rw [hheap x, hadd]
          by_cases hx : x ∈ (PT.node a (PT.node b ll lk lv lr) nd.key nd.val r).addrs
          · simp [hx]
          · simp only [hx, if_false]
            apply hget2
            · intro hxq; apply hx; rw [hxq]
              rw [PT.addrs]; exact List.mem_append_left _ hqmem
            · intro hxa; apply hx; simp [PT.addrs, hxa]

/-! ### more fuel never changes a finished run -/

theorem walkR_mono {h : Heap κ ν} {wf wf' p : Nat} {r : Res Nat}
    (hw : walkR h wf p = r) (hr : r ≠ .timeout) (hle : wf ≤ wf') : walkR h wf' p = r := by
  induction wf generalizing wf' p with
  | zero => simp [walkR] at hw; exact absurd hw.symm hr
  | succ wf ih =>
    obtain ⟨wf', rfl⟩ : ∃ w, wf' = w + 1 := ⟨wf' - 1, by omega⟩
    simp only [walkR] at hw ⊢
    split
    · simp_all
    · rename_i pn hpn
      simp only [hpn] at hw
      split
      · simp_all
      · rename_i x hx
        simp only [hx] at hw
        exact ih hw (by omega)

theorem clearBody_mono {wf wf' : Nat} {s : CSt κ ν} {r : Res (Ctl (CSt κ ν))}
    (hb : clearBody wf s = r) (hr : r ≠ .timeout) (hle : wf ≤ wf') : clearBody wf' s = r := by
  unfold clearBody at hb ⊢
  split
  · simp_all
  · rename_i c hc
    simp only [hc] at hb
    split
    · simp_all
    · rename_i cn hcn
      simp only [hcn] at hb
      split
      · simp_all
      · rename_i l hl
        simp only [hl] at hb
        cases hw : walkR s.heap wf l with
        | timeout => simp only [hw] at hb; exact absurd hb.symm hr
        | fault => rw [walkR_mono hw (by simp) hle]; simpa only [hw] using hb
        | done p => rw [walkR_mono hw (by simp) hle]; simpa only [hw] using hb

theorem clearLoop_mono {wf wf' f f' : Nat} {s : CSt κ ν} {r : Res (CSt κ ν)}
    (hl : clearLoop wf f s = r) (hr : r ≠ .timeout) (hwf : wf ≤ wf') (hf : f ≤ f') :
    clearLoop wf' f' s = r := by
  induction f generalizing f' s with
  | zero => simp [clearLoop] at hl; exact absurd hl.symm hr
  | succ f ih =>
    obtain ⟨f', rfl⟩ : ∃ w, f' = w + 1 := ⟨f' - 1, by omega⟩
    rw [clearLoop_succ] at hl ⊢
    cases hb : clearBody wf s with
    | timeout => simp only [hb] at hl; exact absurd hl.symm hr
    | fault => rw [clearBody_mono hb (by simp) hwf]; simpa only [hb] using hl
    | done x =>
      rw [clearBody_mono hb (by simp) hwf]
      simp only [hb] at hl
      cases x with
      | next s' => exact ih hl (by omega)
      | ret s' => exact hl

end PV.Tree.Morris

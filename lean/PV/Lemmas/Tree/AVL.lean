import PV.Lemmas.Tree.BST
/-! AVL: the retracing algorithm keeps the in-order listing right and the balance invariant. -/
namespace PV.Tree
open Std

variable {κ ν : Type} {cmp : κ → κ → Ordering}

/-! ### unfolding lemmas -/
namespace AT

@[simp] theorem toList_nil : (nil : AT κ ν).toList = [] := rfl
@[simp] theorem toList_node (l : AT κ ν) (k : κ) (v : ν) (b : Int) (r : AT κ ν) :
    (node l k v b r).toList = l.toList ++ (k, v) :: r.toList := rfl
@[simp] theorem height_nil : (nil : AT κ ν).height = 0 := rfl
@[simp] theorem height_node (l : AT κ ν) (k : κ) (v : ν) (b : Int) (r : AT κ ν) :
    (node l k v b r).height = max l.height r.height + 1 := rfl
@[simp] theorem size_nil : (nil : AT κ ν).size = 0 := rfl
@[simp] theorem size_node (l : AT κ ν) (k : κ) (v : ν) (b : Int) (r : AT κ ν) :
    (node l k v b r).size = l.size + 1 + r.size := rfl
@[simp] theorem inv_nil : (nil : AT κ ν).Inv := trivial
theorem inv_node (l : AT κ ν) (k : κ) (v : ν) (b : Int) (r : AT κ ν) :
    (node l k v b r).Inv ↔
      l.Inv ∧ r.Inv ∧ b = (l.height : Int) - (r.height : Int) ∧ -1 ≤ b ∧ b ≤ 1 := Iff.rfl
@[simp] theorem bfOf_nil : (nil : AT κ ν).bfOf = 0 := rfl
@[simp] theorem bfOf_node (l : AT κ ν) (k : κ) (v : ν) (b : Int) (r : AT κ ν) :
    (node l k v b r).bfOf = b := rfl

/-! ### insert retracing -/

set_option linter.unusedSimpArgs false in
theorem grewLeft_spec (c : AT κ ν) (k : κ) (v : ν) (b : Int) (r : AT κ ν) (hl : Nat)
    (hc : c.height = hl + 1) (hb : b = (hl : Int) - (r.height : Int)) (hb1 : -1 ≤ b) (hb2 : b ≤ 1)
    (hic : c.Inv) (hir : r.Inv) (hnz : c.bfOf ≠ 0 ∨ c.height ≤ 1) :
    ∃ t' g, grewLeft c k v b r = some (t', g) ∧ t'.toList = c.toList ++ (k, v) :: r.toList ∧
      t'.Inv ∧ t'.height = max hl r.height + 1 + (if g then 1 else 0) ∧
      (g = true → t'.bfOf ≠ 0 ∨ t'.height ≤ 1) := by
  by_cases hb' : b = 1
  · cases c with
    | nil => simp at hc
    | node cl ck cv cb cr =>
      simp only [inv_node, height_node, bfOf_node] at hic hc hnz
      obtain ⟨hicl, hicr, hcb, hcb1, hcb2⟩ := hic
      by_cases hcb' : cb = -1
      · cases cr with
        | nil => simp at hcb; omega
        | node ml mk mv mb mr =>
          simp only [inv_node, height_node] at hicr hc hcb
          obtain ⟨himl, himr, hmb, hmb1, hmb2⟩ := hicr
          refine ⟨rotLR cl ck cv ml mk mv mb mr k v r, false, by simp [grewLeft, hb', hcb'],
            by simp [rotLR], ?_, ?_, by simp⟩
          · have : mb = 1 ∨ mb = 0 ∨ mb = -1 := by omega
            rcases this with h | h | h <;>
              simp [rotLR, dblBf, h, inv_node, *] <;> omega
          · simp [rotLR]; omega
      · refine ⟨rotR cl ck cv cb cr k v r, false, by simp [grewLeft, hb', hcb'],
            by simp [rotR], ?_, ?_, by simp⟩
        · simp [rotR, inv_node, *]; omega
        · simp [rotR]; omega
  · by_cases hb'' : b = -1
    · refine ⟨node c k v 0 r, false, by simp [grewLeft, hb''], by simp, ?_, ?_, by simp⟩
      · simp [inv_node, *]; omega
      · simp; omega
    · refine ⟨node c k v 1 r, true, by simp [grewLeft, hb', hb''], by simp, ?_, ?_, by simp⟩
      · simp [inv_node, *]; omega
      · simp; omega

set_option linter.unusedSimpArgs false in
theorem grewRight_spec (l : AT κ ν) (k : κ) (v : ν) (b : Int) (c : AT κ ν) (hr : Nat)
    (hc : c.height = hr + 1) (hb : b = (l.height : Int) - (hr : Int)) (hb1 : -1 ≤ b) (hb2 : b ≤ 1)
    (hil : l.Inv) (hic : c.Inv) (hnz : c.bfOf ≠ 0 ∨ c.height ≤ 1) :
    ∃ t' g, grewRight l k v b c = some (t', g) ∧ t'.toList = l.toList ++ (k, v) :: c.toList ∧
      t'.Inv ∧ t'.height = max l.height hr + 1 + (if g then 1 else 0) ∧
      (g = true → t'.bfOf ≠ 0 ∨ t'.height ≤ 1) := by
  by_cases hb' : b = -1
  · cases c with
    | nil => simp at hc
    | node cl ck cv cb cr =>
      simp only [inv_node, height_node, bfOf_node] at hic hc hnz
      obtain ⟨hicl, hicr, hcb, hcb1, hcb2⟩ := hic
      by_cases hcb' : cb = 1
      · cases cl with
        | nil => simp at hcb; omega
        | node ml mk mv mb mr =>
          simp only [inv_node, height_node] at hicl hc hcb
          obtain ⟨himl, himr, hmb, hmb1, hmb2⟩ := hicl
          refine ⟨rotRL l k v ml mk mv mb mr ck cv cr, false, by simp [grewRight, hb', hcb'],
            by simp [rotRL], ?_, ?_, by simp⟩
          · have : mb = 1 ∨ mb = 0 ∨ mb = -1 := by omega
            rcases this with h | h | h <;>
              simp [rotRL, dblBf, h, inv_node, *] <;> omega
          · simp [rotRL]; omega
      · refine ⟨rotL l k v cl ck cv cb cr, false, by simp [grewRight, hb', hcb'],
            by simp [rotL], ?_, ?_, by simp⟩
        · simp [rotL, inv_node, *]; omega
        · simp [rotL]; omega
  · by_cases hb'' : b = 1
    · refine ⟨node l k v 0 c, false, by simp [grewRight, hb''], by simp, ?_, ?_, by simp⟩
      · simp [inv_node, *]; omega
      · simp; omega
    · refine ⟨node l k v (-1) c, true, by simp [grewRight, hb', hb''], by simp, ?_, ?_, by simp⟩
      · simp [inv_node, *]; omega
      · simp; omega

/-- `ins` never dereferences NULL, inserts into the in-order listing, keeps the invariant, and
    reports growth correctly; a grown subtree is a fresh leaf or has a non-zero balance factor -/
theorem ins_spec [TransCmp cmp] (t : AT κ ν) (x : κ) (y : ν) (ho : SM.Sorted cmp t.toList)
    (hi : t.Inv) :
    ∃ t' g, t.ins cmp x y =
        some (t', g, (SM.find cmp t.toList x).isNone, (SM.find cmp t.toList x).toList) ∧
      t'.toList = SM.insert cmp t.toList x y ∧ t'.Inv ∧
      t'.height = t.height + (if g then 1 else 0) ∧ (g = true → t'.bfOf ≠ 0 ∨ t'.height ≤ 1) := by
  induction t with
  | nil =>
    exact ⟨node nil x y 0 nil, true, by simp [ins, SM.find], by simp [SM.insert],
      by simp [inv_node], by simp, by simp⟩
  | node l k v b r ihl ihr =>
    rw [toList_node] at ho
    have hs := SM.sorted_append_cons.mp ho
    obtain ⟨hil, hir, hb, hb1, hb2⟩ := (inv_node ..).mp hi
    cases hc : cmp x k with
    | lt =>
      obtain ⟨l', g, h1, h2, h3, h4, h5⟩ := ihl hs.1 hil
      have hf := SM.find_mid_lt ho hc
      have hins := SM.insert_mid_lt (v := y) ho hc
      cases g with
      | false =>
        simp at h4
        exact ⟨node l' k v b r, false, by simp [ins, hc, h1, hf], by simp [h2, hins],
          (inv_node ..).mpr ⟨h3, hir, by omega, hb1, hb2⟩, by simp [h4], by simp⟩
      | true =>
        obtain ⟨t', g', e1, e2, e3, e4, e5⟩ :=
          grewLeft_spec l' k v b r l.height (by simpa using h4) hb hb1 hb2 h3 hir (h5 rfl)
        exact ⟨t', g', by simp [ins, hc, h1, e1, hf], by simp [e2, h2, hins], e3,
          by simpa using e4, e5⟩
    | gt =>
      obtain ⟨r', g, h1, h2, h3, h4, h5⟩ := ihr hs.2.1 hir
      have hf := SM.find_mid_gt ho hc
      have hins := SM.insert_mid_gt (v := y) ho hc
      cases g with
      | false =>
        simp at h4
        exact ⟨node l k v b r', false, by simp [ins, hc, h1, hf], by simp [h2, hins],
          (inv_node ..).mpr ⟨hil, h3, by omega, hb1, hb2⟩, by simp [h4], by simp⟩
      | true =>
        obtain ⟨t', g', e1, e2, e3, e4, e5⟩ :=
          grewRight_spec l k v b r' r.height (by simpa using h4) hb hb1 hb2 hil h3 (h5 rfl)
        exact ⟨t', g', by simp [ins, hc, h1, e1, hf], by simp [e2, h2, hins], e3,
          by simpa using e4, e5⟩
    | eq =>
      have hf := SM.find_mid_eq ho hc
      have hins := SM.insert_mid_eq (v := y) ho hc
      exact ⟨node l x y b r, false, by simp [ins, hc, hf], by simp [hins],
        (inv_node ..).mpr ⟨hil, hir, hb, hb1, hb2⟩, by simp, by simp⟩

/-! ### removal retracing -/

set_option linter.unusedSimpArgs false in
theorem shrunkLeft_spec (l : AT κ ν) (k : κ) (v : ν) (b : Int) (r : AT κ ν) (hl : Nat)
    (hh : l.height + 1 = hl) (hb : b = (hl : Int) - (r.height : Int)) (hb1 : -1 ≤ b) (hb2 : b ≤ 1)
    (hil : l.Inv) (hir : r.Inv) :
    ∃ t' s, shrunkLeft l k v b r = some (t', s) ∧ t'.toList = l.toList ++ (k, v) :: r.toList ∧
      t'.Inv ∧ t'.height + (if s then 1 else 0) = max hl r.height + 1 := by
  by_cases hb' : b = -1
  · cases r with
    | nil => simp at hb; omega
    | node sl sk sv sb sr =>
      simp only [inv_node, height_node] at hir hb
      obtain ⟨hisl, hisr, hsb, hsb1, hsb2⟩ := hir
      by_cases hsb' : sb = 1
      · cases sl with
        | nil => simp at hsb; omega
        | node ml mk mv mb mr =>
          simp only [inv_node, height_node] at hisl hb hsb
          obtain ⟨himl, himr, hmb, hmb1, hmb2⟩ := hisl
          refine ⟨rotRL l k v ml mk mv mb mr sk sv sr, true, by simp [shrunkLeft, hb', hsb'],
            by simp [rotRL], ?_, ?_⟩
          · have : mb = 1 ∨ mb = 0 ∨ mb = -1 := by omega
            rcases this with h | h | h <;>
              simp [rotRL, dblBf, h, inv_node, *] <;> omega
          · simp [rotRL]; omega
      · refine ⟨rotL l k v sl sk sv sb sr, decide (sb ≠ 0), by simp [shrunkLeft, hb', hsb'],
            by simp [rotL], ?_, ?_⟩
        · simp [rotL, inv_node, *]; omega
        · have : sb = 0 ∨ sb = -1 := by omega
          rcases this with h | h <;> simp [rotL, h] <;> omega
  · by_cases hb'' : b = 0
    · refine ⟨node l k v (-1) r, false, by simp [shrunkLeft, hb''], by simp, ?_, ?_⟩
      · simp [inv_node, *]; omega
      · simp; omega
    · refine ⟨node l k v 0 r, true, by simp [shrunkLeft, hb', hb''], by simp, ?_, ?_⟩
      · simp [inv_node, *]; omega
      · simp; omega

set_option linter.unusedSimpArgs false in
theorem shrunkRight_spec (l : AT κ ν) (k : κ) (v : ν) (b : Int) (r : AT κ ν) (hr : Nat)
    (hh : r.height + 1 = hr) (hb : b = (l.height : Int) - (hr : Int)) (hb1 : -1 ≤ b) (hb2 : b ≤ 1)
    (hil : l.Inv) (hir : r.Inv) :
    ∃ t' s, shrunkRight l k v b r = some (t', s) ∧ t'.toList = l.toList ++ (k, v) :: r.toList ∧
      t'.Inv ∧ t'.height + (if s then 1 else 0) = max l.height hr + 1 := by
  by_cases hb' : b = 1
  · cases l with
    | nil => simp at hb; omega
    | node sl sk sv sb sr =>
      simp only [inv_node, height_node] at hil hb
      obtain ⟨hisl, hisr, hsb, hsb1, hsb2⟩ := hil
      by_cases hsb' : sb = -1
      · cases sr with
        | nil => simp at hsb; omega
        | node ml mk mv mb mr =>
          simp only [inv_node, height_node] at hisr hb hsb
          obtain ⟨himl, himr, hmb, hmb1, hmb2⟩ := hisr
          refine ⟨rotLR sl sk sv ml mk mv mb mr k v r, true, by simp [shrunkRight, hb', hsb'],
            by simp [rotLR], ?_, ?_⟩
          · have : mb = 1 ∨ mb = 0 ∨ mb = -1 := by omega
            rcases this with h | h | h <;>
              simp [rotLR, dblBf, h, inv_node, *] <;> omega
          · simp [rotLR]; omega
      · refine ⟨rotR sl sk sv sb sr k v r, decide (sb ≠ 0), by simp [shrunkRight, hb', hsb'],
            by simp [rotR], ?_, ?_⟩
        · simp [rotR, inv_node, *]; omega
        · have : sb = 0 ∨ sb = 1 := by omega
          rcases this with h | h <;> simp [rotR, h] <;> omega
  · by_cases hb'' : b = 0
    · refine ⟨node l k v 1 r, false, by simp [shrunkRight, hb''], by simp, ?_, ?_⟩
      · simp [inv_node, *]; omega
      · simp; omega
    · refine ⟨node l k v 0 r, true, by simp [shrunkRight, hb', hb''], by simp, ?_, ?_⟩
      · simp [inv_node, *]; omega
      · simp; omega

theorem delMax_spec (r : AT κ ν) : ∀ (l : AT κ ν) (k : κ) (v : ν) (b : Int),
    (node l k v b r).Inv →
    ∃ t' s p, delMax l k v b r = some (t', s, p) ∧
      (node l k v b r).toList = t'.toList ++ [p] ∧ t'.Inv ∧
      t'.height + (if s then 1 else 0) = (node l k v b r).height := by
  induction r with
  | nil =>
    intro l k v b hi
    obtain ⟨hil, -, hb, hb1, hb2⟩ := (inv_node ..).mp hi
    refine ⟨l, true, (k, v), by simp [delMax], by simp, hil, ?_⟩
    simp
  | node rl rk rv rb rr _ ih =>
    intro l k v b hi
    obtain ⟨hil, hir, hb, hb1, hb2⟩ := (inv_node ..).mp hi
    obtain ⟨r', s, p, h1, h2, h3, h4⟩ := ih rl rk rv rb hir
    cases s with
    | false =>
      have h4' : r'.height = (node rl rk rv rb rr).height := by simpa using h4
      refine ⟨node l k v b r', false, p, by simp [delMax, h1], ?_,
        (inv_node ..).mpr ⟨hil, h3, by rw [h4']; exact hb, hb1, hb2⟩, ?_⟩
      · rw [toList_node, h2]; simp
      · simp only [height_node] at h4' ⊢; simp; omega
    | true =>
      obtain ⟨t', s', e1, e2, e3, e4⟩ := shrunkRight_spec l k v b r' _ (by simpa using h4)
        hb hb1 hb2 hil h3
      refine ⟨t', s', p, by simp [delMax, h1, e1], ?_, e3, ?_⟩
      · rw [toList_node, h2, e2]; simp
      · rw [e4]; simp

/-- `del` never dereferences NULL, erases from the in-order listing, keeps the invariant, and
    reports shrinking correctly -/
theorem del_spec [TransCmp cmp] (t : AT κ ν) (x : κ) (ho : SM.Sorted cmp t.toList) (hi : t.Inv) :
    ∃ t' s, t.del cmp x =
        some (t', s, (SM.find cmp t.toList x).isSome, (SM.find cmp t.toList x).toList) ∧
      t'.toList = SM.erase cmp t.toList x ∧ t'.Inv ∧
      t'.height + (if s then 1 else 0) = t.height := by
  induction t with
  | nil => exact ⟨nil, false, by simp [del, SM.find], by simp [SM.erase], by simp, by simp⟩
  | node l k v b r ihl ihr =>
    rw [toList_node] at ho
    have hs := SM.sorted_append_cons.mp ho
    obtain ⟨hil, hir, hb, hb1, hb2⟩ := (inv_node ..).mp hi
    cases hc : cmp x k with
    | lt =>
      obtain ⟨l', s, h1, h2, h3, h4⟩ := ihl hs.1 hil
      have hf := SM.find_mid_lt ho hc
      have her := SM.erase_mid_lt ho hc
      cases s with
      | false =>
        simp at h4
        exact ⟨node l' k v b r, false, by simp [del, hc, h1, hf], by simp [h2, her],
          (inv_node ..).mpr ⟨h3, hir, by omega, hb1, hb2⟩, by simp [h4]⟩
      | true =>
        obtain ⟨t', s', e1, e2, e3, e4⟩ :=
          shrunkLeft_spec l' k v b r l.height (by simpa using h4) hb hb1 hb2 h3 hir
        exact ⟨t', s', by simp [del, hc, h1, e1, hf], by simp [e2, h2, her], e3,
          by simpa using e4⟩
    | gt =>
      obtain ⟨r', s, h1, h2, h3, h4⟩ := ihr hs.2.1 hir
      have hf := SM.find_mid_gt ho hc
      have her := SM.erase_mid_gt ho hc
      cases s with
      | false =>
        simp at h4
        exact ⟨node l k v b r', false, by simp [del, hc, h1, hf], by simp [h2, her],
          (inv_node ..).mpr ⟨hil, h3, by omega, hb1, hb2⟩, by simp [h4]⟩
      | true =>
        obtain ⟨t', s', e1, e2, e3, e4⟩ :=
          shrunkRight_spec l k v b r' r.height (by simpa using h4) hb hb1 hb2 hil h3
        exact ⟨t', s', by simp [del, hc, h1, e1, hf], by simp [e2, h2, her], e3,
          by simpa using e4⟩
    | eq =>
      rw [show SM.find cmp (node l k v b r).toList x = some (k, v) from SM.find_mid_eq ho hc,
        show SM.erase cmp (node l k v b r).toList x = l.toList ++ r.toList from
          SM.erase_mid_eq ho hc]
      cases l with
      | nil =>
        refine ⟨r, true, by simp [del, hc], by simp, hir, ?_⟩
        simp at hb ⊢
      | node ll lk lv lb lr =>
        cases r with
        | nil =>
          refine ⟨node ll lk lv lb lr, true, by simp [del, hc], by simp, hil, ?_⟩
          simp at hb ⊢
        | node rl rk rv rb rr =>
          obtain ⟨l', s, p, h1, h2, h3, h4⟩ := delMax_spec lr ll lk lv lb hil
          have hlist : l'.toList ++ (p.1, p.2) :: (node rl rk rv rb rr).toList =
              (node ll lk lv lb lr).toList ++ (node rl rk rv rb rr).toList := by
            rw [h2]; simp
          cases s with
          | false =>
            have h4' : l'.height = (node ll lk lv lb lr).height := by simpa using h4
            exact ⟨node l' p.1 p.2 b (node rl rk rv rb rr), false, by simp [del, hc, h1],
              by rw [toList_node, hlist],
              (inv_node ..).mpr ⟨h3, hir, by rw [h4']; exact hb, hb1, hb2⟩,
              by simp only [height_node] at h4' ⊢; simp; omega⟩
          | true =>
            obtain ⟨t', s', e1, e2, e3, e4⟩ :=
              shrunkLeft_spec l' p.1 p.2 b (node rl rk rv rb rr) (node ll lk lv lb lr).height
                (by simpa using h4) hb hb1 hb2 h3 hir
            exact ⟨t', s', by simp [del, hc, h1, e1], by rw [e2, hlist], e3,
              by simpa using e4⟩

end AT

/-! ### one public call -/

/-- the `ins` step alone (used twice: `p_tree_insert`, and the replace path of an insert under allocation failure) -/
theorem avlStep_refines_ins [TransCmp cmp] (k : κ) (v : ν) (t : AT κ ν) (n : Int)
    (ho : t.toBT.Ordered cmp) (hi : t.Inv) (hn : n = t.toList.length) :
    ∃ t' n', avlStep cmp (t, n) (.ins k v) = some ((t', n'), (specStep cmp t.toList (.ins k v)).2) ∧
      t'.toList = (specStep cmp t.toList (.ins k v)).1 ∧ t'.Inv ∧ t'.toBT.Ordered cmp ∧
      n' = ((specStep cmp t.toList (.ins k v)).1.length : Int) := by
  have hs : SM.Sorted cmp t.toList := ho
  obtain ⟨t', g, h1, h2, h3, -, -⟩ := AT.ins_spec (cmp := cmp) t k v hs hi
  have hlen := SM.length_insert hs k v
  have hn' : (if (SM.find cmp t.toList k).isNone then n + 1 else n) =
      ((SM.insert cmp t.toList k v).length : Int) := by
    rw [hlen, hn]; split <;> simp
  refine ⟨t', (SM.insert cmp t.toList k v).length, ?_, h2, h3, ?_, rfl⟩
  · simp only [avlStep, h1, Option.map_some, specStep, hn']
  · show SM.Sorted cmp t'.toList
    rw [h2]; exact SM.sorted_insert hs k v

theorem avlStep_refines [TransCmp cmp] (op : Op κ ν) (t : AT κ ν) (n : Int) (l : List (κ × ν))
    (ho : t.toBT.Ordered cmp) (hi : t.Inv) (hl : t.toList = l) (hn : n = l.length) :
    ∃ t' n', avlStep cmp (t, n) op = some ((t', n'), (specStep cmp l op).2) ∧
      t'.toList = (specStep cmp l op).1 ∧ t'.Inv ∧ t'.toBT.Ordered cmp ∧
      n' = ((specStep cmp l op).1.length : Int) := by
  subst hl
  have hs : SM.Sorted cmp t.toList := ho
  cases op with
  | ins k v => exact avlStep_refines_ins k v t n ho hi hn
  | insf k v =>
    have hp : (t.toBT.lookup cmp k).isSome = (SM.find cmp t.toList k).isSome := BT.lookup_isSome t.toBT ho k
    by_cases hf : (SM.find cmp t.toList k).isSome = true
    · have e1 : avlStep cmp (t, n) (.insf k v) = avlStep cmp (t, n) (.ins k v) := by
        simp only [avlStep, hp, hf, if_true]
      have e2 : specStep cmp t.toList (.insf k v) = specStep cmp t.toList (.ins k v) := by
        simp only [specStep, hf, if_true]
      rw [e1, e2]
      exact avlStep_refines_ins k v t n ho hi hn
    · have e1 : avlStep cmp (t, n) (.insf k v) = some ((t, n), .ins n []) := by
        simp only [avlStep, hp, hf]; rfl
      have e2 : specStep cmp t.toList (.insf k v) = (t.toList, .ins t.toList.length []) := by
        simp only [specStep, hf]; rfl
      rw [e1, e2]
      exact ⟨t, n, by simp [hn], rfl, hi, ho, hn⟩
  | rem k =>
    obtain ⟨t', s, h1, h2, h3, -⟩ := AT.del_spec (cmp := cmp) t k hs hi
    have hlen := SM.length_erase hs k
    have hn' : (if (SM.find cmp t.toList k).isSome then n - 1 else n) =
        ((SM.erase cmp t.toList k).length : Int) := by
      rw [hn, ← hlen]; split <;> simp
    refine ⟨t', (SM.erase cmp t.toList k).length, ?_, h2, h3, ?_, rfl⟩
    · simp only [avlStep, h1, Option.map_some, specStep, hn']
    · show SM.Sorted cmp t'.toList
      rw [h2]; exact SM.sorted_erase hs k
  | get k =>
    exact ⟨t, n, by simp [avlStep, specStep, BT.lookup_refines t.toBT ho k, AT.toList], rfl, hi, ho, hn⟩
  | each j =>
    exact ⟨t, n, by simp [avlStep, specStep, BT.foreachStop, AT.toList], rfl, hi, ho, hn⟩
  | clear =>
    exact ⟨.nil, 0, by simp [avlStep, specStep, hn], rfl, trivial,
      by simp [BT.Ordered, AT.toBT, BT.toList, SM.Sorted], rfl⟩
  | count =>
    exact ⟨t, n, by simp [avlStep, specStep, hn], rfl, hi, ho, hn⟩

/-- invariant of `avlRun` from any related pair of states: no NULL dereference, same outputs as the
    spec, and the AVL invariant at the end -/
theorem avlRun_refines [TransCmp cmp] (ops : List (Op κ ν)) (t : AT κ ν) (n : Int) (l : List (κ × ν))
    (ho : t.toBT.Ordered cmp) (hi : t.Inv) (hl : t.toList = l) (hn : n = l.length) :
    ∃ s, avlRun cmp (t, n) ops = some (s, (specRun cmp l ops).2) ∧
      s.1.toList = (specRun cmp l ops).1 ∧ s.1.Inv := by
  induction ops generalizing t n l with
  | nil => exact ⟨(t, n), by simp [avlRun, specRun], by simpa [specRun] using hl, hi⟩
  | cons op ops ih =>
    obtain ⟨t', n', h1, h2, h3, h4, h5⟩ := avlStep_refines (cmp := cmp) op t n l ho hi hl hn
    obtain ⟨s, e1, e2, e3⟩ := ih t' n' _ h4 h3 h2 h5
    exact ⟨s, by simp [avlRun, specRun, h1, e1], by simpa [specRun] using e2, e3⟩

/-! ### height bound -/

theorem fib_le_succ (n : Nat) : fib n ≤ fib (n + 1) := by
  induction n using fib.induct with
  | case1 => decide
  | case2 => decide
  | case3 n ih1 ih2 => simp only [fib] at *; omega

theorem fib_mono {m n : Nat} (h : m ≤ n) : fib m ≤ fib n := by
  induction h with
  | refl => exact Nat.le_refl _
  | step _ ih => exact Nat.le_trans ih (fib_le_succ _)

/-- an AVL tree of height `h` has at least `fib (h+2) − 1` nodes -/
theorem AT.fib_le_size (t : AT κ ν) (hi : t.Inv) : fib (t.height + 2) ≤ t.size + 1 := by
  induction t with
  | nil => simp [fib]
  | node l k v b r ihl ihr =>
    obtain ⟨hil, hir, hb, hb1, hb2⟩ := (AT.inv_node ..).mp hi
    have h1 := ihl hil
    have h2 := ihr hir
    simp only [AT.height_node, AT.size_node]
    by_cases hlr : r.height ≤ l.height
    · have hm : max l.height r.height = l.height := by omega
      have h3 : fib (l.height + 1) ≤ fib (r.height + 2) := fib_mono (by omega)
      have h4 : fib (l.height + 1 + 2) = fib (l.height + 1) + fib (l.height + 2) := by rw [fib]
      rw [hm, h4]
      omega
    · have hm : max l.height r.height = r.height := by omega
      have h3 : fib (r.height + 1) ≤ fib (l.height + 2) := fib_mono (by omega)
      have h4 : fib (r.height + 1 + 2) = fib (r.height + 1) + fib (r.height + 2) := by rw [fib]
      rw [hm, h4]
      omega

end PV.Tree

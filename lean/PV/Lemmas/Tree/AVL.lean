import PV.Lemmas.Tree.BST
/-! AVL: the retracing algorithm keeps the in-order listing right and the balance invariant. -/
namespace PV.Tree
open Std

variable {κ ν : Type} {cmp : κ → κ → Ordering}

/-- invariant of `avlRun` from any related pair of states: no NULL dereference, same outputs as the
    spec, and the AVL invariant at the end -/
theorem avlRun_refines [TransCmp cmp] (ops : List (Op κ ν)) (t : AT κ ν) (n : Int) (l : List (κ × ν))
    (ho : t.toBT.Ordered cmp) (hi : t.Inv) (hl : t.toList = l) (hn : n = l.length) :
    ∃ s, avlRun cmp (t, n) ops = some (s, (specRun cmp l ops).2) ∧
      s.1.toList = (specRun cmp l ops).1 ∧ s.1.Inv := by
  sorry

/-- an AVL tree of height `h` has at least `fib (h+2) − 1` nodes -/
theorem AT.fib_le_size (t : AT κ ν) (hi : t.Inv) : fib (t.height + 2) ≤ t.size + 1 := by
  sorry

end PV.Tree

import PV.Lemmas.Tree.Defs
/-!
Naturality of the tree model in the key and value objects (C14, last clause: "the tree never frees or alters user keys
and values").

The model is parametric in the value type `ν` and, up to the comparator, in the key type `κ`.  `map h g` renames every
key object by `h` and every value object by `g` in trees, operations and outputs.  When `h` preserves the comparator
(`cmp' (h a) (h b) = cmp a b`), every operation of the spec and of the three variants commutes with the renaming: the
operations only move the objects around, they never look inside a value, never change one, never make one up, and they
learn about keys only what the comparator says.
-/
namespace PV.Tree

variable {κ κ' ν ν' : Type}

/-- rename the objects of a list of pairs -/
def mapPairs (h : κ → κ') (g : ν → ν') (l : List (κ × ν)) : List (κ' × ν') := l.map fun p => (h p.1, g p.2)

def BT.map (h : κ → κ') (g : ν → ν') : BT κ ν → BT κ' ν'
  | .nil => .nil
  | .node l k v r => .node (BT.map h g l) (h k) (g v) (BT.map h g r)

/-- shape and balance factors kept -/
def AT.map (h : κ → κ') (g : ν → ν') : AT κ ν → AT κ' ν'
  | .nil => .nil
  | .node l k v b r => .node (AT.map h g l) (h k) (g v) b (AT.map h g r)

/-- shape and colours kept -/
def RT.map (h : κ → κ') (g : ν → ν') : RT κ ν → RT κ' ν'
  | .nil => .nil
  | .node l k v c r => .node (RT.map h g l) (h k) (g v) c (RT.map h g r)

def Op.map (h : κ → κ') (g : ν → ν') : Op κ ν → Op κ' ν'
  | .ins k v => .ins (h k) (g v)
  | .insf k v => .insf (h k) (g v)
  | .rem k => .rem (h k)
  | .get k => .get (h k)
  | .each j => .each j
  | .clear => .clear
  | .count => .count

/-- counts, flags and the order of the logs kept; the objects renamed -/
def Out.map (h : κ → κ') (g : ν → ν') : Out κ ν → Out κ' ν'
  | .ins n d => .ins n (mapPairs h g d)
  | .rem f n d => .rem f n (mapPairs h g d)
  | .got v => .got (v.map g)
  | .visited ps => .visited (mapPairs h g ps)
  | .cleared n d => .cleared n (mapPairs h g d)
  | .num n => .num n

/-- key objects an operation passes to the tree -/
def Op.keys : Op κ ν → List κ
  | .ins k _ => [k]
  | .insf k _ => [k]
  | .rem k => [k]
  | .get k => [k]
  | _ => []

/-- value objects an operation passes to the tree -/
def Op.vals : Op κ ν → List ν
  | .ins _ v => [v]
  | .insf _ v => [v]
  | _ => []

/-- key objects a call shows to the user (visited, or handed to the key destroy notifier) -/
def Out.keys : Out κ ν → List κ
  | .ins _ d => d.map (·.1)
  | .rem _ _ d => d.map (·.1)
  | .visited ps => ps.map (·.1)
  | .cleared _ d => d.map (·.1)
  | _ => []

/-- value objects a call shows to the user (looked up, visited, or handed to the value destroy notifier) -/
def Out.vals : Out κ ν → List ν
  | .ins _ d => d.map (·.2)
  | .rem _ _ d => d.map (·.2)
  | .got v => v.toList
  | .visited ps => ps.map (·.2)
  | .cleared _ d => d.map (·.2)
  | .num _ => []

section
variable {cmp : κ → κ → Ordering} {cmp' : κ' → κ' → Ordering} {h : κ → κ'} {g : ν → ν'}

@[simp] theorem mapPairs_nil : mapPairs h g ([] : List (κ × ν)) = [] := rfl
@[simp] theorem mapPairs_cons (p : κ × ν) (l : List (κ × ν)) : mapPairs h g (p :: l) = (h p.1, g p.2) :: mapPairs h g l := rfl
@[simp] theorem mapPairs_append (a b : List (κ × ν)) : mapPairs h g (a ++ b) = mapPairs h g a ++ mapPairs h g b := by
  simp [mapPairs]
@[simp] theorem mapPairs_length (l : List (κ × ν)) : (mapPairs h g l).length = l.length := by simp [mapPairs]
theorem mapPairs_take (l : List (κ × ν)) (j : Nat) : mapPairs h g (l.take j) = (mapPairs h g l).take j := by
  simp [mapPairs, List.map_take]
theorem mapPairs_optionToList (o : Option (κ × ν)) :
    mapPairs h g o.toList = (o.map fun p => (h p.1, g p.2)).toList := by cases o <;> rfl

theorem Out.keys_map (o : Out κ ν) : (o.map h g).keys = o.keys.map h := by
  cases o <;> simp [Out.map, Out.keys, mapPairs, Function.comp_def]
theorem Out.vals_map (o : Out κ ν) : (o.map h g).vals = o.vals.map g := by
  cases o with
  | got v => cases v <;> simp [Out.map, Out.vals]
  | _ => simp [Out.map, Out.vals, mapPairs, Function.comp_def]

/-! ### spec -/
variable (hc : ∀ a b, cmp' (h a) (h b) = cmp a b)
include hc

theorem SM.insert_map (l : List (κ × ν)) (k : κ) (v : ν) :
    SM.insert cmp' (mapPairs h g l) (h k) (g v) = mapPairs h g (SM.insert cmp l k v) := by
  induction l with
  | nil => rfl
  | cons p r ih =>
    simp only [mapPairs_cons, SM.insert, hc]
    cases cmp k p.1 <;> simp [ih]

theorem SM.erase_map (l : List (κ × ν)) (k : κ) :
    SM.erase cmp' (mapPairs h g l) (h k) = mapPairs h g (SM.erase cmp l k) := by
  induction l with
  | nil => rfl
  | cons p r ih =>
    simp only [mapPairs_cons, SM.erase, hc]
    cases cmp k p.1 <;> simp [ih]

theorem SM.find_map (l : List (κ × ν)) (k : κ) :
    SM.find cmp' (mapPairs h g l) (h k) = (SM.find cmp l k).map fun p => (h p.1, g p.2) := by
  induction l with
  | nil => rfl
  | cons p r ih =>
    simp only [SM.find] at ih ⊢
    simp only [mapPairs_cons, List.find?_cons, hc]
    cases cmp k p.1 <;> simp [ih]

theorem SM.lookup_map (l : List (κ × ν)) (k : κ) :
    SM.lookup cmp' (mapPairs h g l) (h k) = (SM.lookup cmp l k).map g := by
  simp only [SM.lookup, SM.find_map hc]
  cases SM.find cmp l k <;> rfl

theorem specStep_map (l : List (κ × ν)) (op : Op κ ν) :
    specStep cmp' (mapPairs h g l) (op.map h g) =
      (mapPairs h g (specStep cmp l op).1, (specStep cmp l op).2.map h g) := by
  cases op with
  | ins k v =>
    simp only [Op.map, specStep, Out.map, SM.insert_map hc, SM.find_map hc, mapPairs_length, mapPairs_optionToList]
  | insf k v =>
    simp only [Op.map, specStep, SM.insert_map hc, SM.find_map hc, mapPairs_length, Option.isSome_map]
    split <;> simp only [Out.map, mapPairs_optionToList, mapPairs_nil]
  | rem k =>
    simp only [Op.map, specStep, Out.map, SM.erase_map hc, SM.find_map hc, mapPairs_length, mapPairs_optionToList,
      Option.isSome_map]
  | get k => simp only [Op.map, specStep, Out.map, SM.lookup_map hc]
  | each j =>
    simp only [Op.map, specStep, Out.map]
    split <;> simp only [mapPairs_take]
  | clear => simp only [Op.map, specStep, Out.map, mapPairs_nil]
  | count => simp only [Op.map, specStep, Out.map, mapPairs_length]

theorem specRun_map (l : List (κ × ν)) (ops : List (Op κ ν)) :
    specRun cmp' (mapPairs h g l) (ops.map (Op.map h g)) =
      (mapPairs h g (specRun cmp l ops).1, (specRun cmp l ops).2.map (Out.map h g)) := by
  induction ops generalizing l with
  | nil => rfl
  | cons op ops ih =>
    simp only [List.map_cons, specRun, specStep_map hc, ih]

/-! ### plain BST -/

omit hc in
theorem BT.toList_map (t : BT κ ν) : (t.map h g).toList = mapPairs h g t.toList := by
  induction t with
  | nil => rfl
  | node l k v r ihl ihr => simp [BT.map, BT.toList, ihl, ihr]

theorem BT.lookup_map (t : BT κ ν) (x : κ) : (t.map h g).lookup cmp' (h x) = (t.lookup cmp x).map g := by
  induction t with
  | nil => rfl
  | node l k v r ihl ihr =>
    simp only [BT.map, BT.lookup, hc]
    cases cmp x k <;> simp [ihl, ihr]

theorem BT.ins_map (t : BT κ ν) (x : κ) (y : ν) :
    (t.map h g).ins cmp' (h x) (g y) =
      ((t.ins cmp x y).1.map h g, (t.ins cmp x y).2.1, mapPairs h g (t.ins cmp x y).2.2) := by
  induction t with
  | nil => rfl
  | node l k v r ihl ihr =>
    simp only [BT.map, BT.ins, hc]
    cases cmp x k <;> simp [ihl, ihr, BT.map]

omit hc in
theorem BT.delMax_map (l : BT κ ν) (k : κ) (v : ν) (r : BT κ ν) :
    BT.delMax (l.map h g) (h k) (g v) (r.map h g) =
      ((BT.delMax l k v r).1.map h g, (h (BT.delMax l k v r).2.1, g (BT.delMax l k v r).2.2)) := by
  induction r generalizing l k v with
  | nil => rfl
  | node rl rk rv rr _ ihr => simp [BT.map, BT.delMax, ihr]

theorem BT.del_map (t : BT κ ν) (x : κ) :
    (t.map h g).del cmp' (h x) =
      ((t.del cmp x).1.map h g, (t.del cmp x).2.1, mapPairs h g (t.del cmp x).2.2) := by
  induction t with
  | nil => rfl
  | node l k v r ihl ihr =>
    simp only [BT.map, BT.del, hc]
    cases cmp x k with
    | lt => simp [ihl, BT.map]
    | gt => simp [ihr, BT.map]
    | eq =>
      cases l with
      | nil => simp [BT.map]
      | node ll lk lv lr =>
        cases r with
        | nil => simp [BT.map]
        | node rl rk rv rr => simp [BT.map, BT.delMax_map]

theorem bstStep_map (s : BT κ ν × Int) (op : Op κ ν) :
    bstStep cmp' (s.1.map h g, s.2) (op.map h g) =
      (((bstStep cmp s op).1.1.map h g, (bstStep cmp s op).1.2), (bstStep cmp s op).2.map h g) := by
  cases op with
  | ins k v => simp only [Op.map, bstStep, Out.map, BT.ins_map hc]
  | insf k v =>
    simp only [Op.map, bstStep, BT.ins_map hc, BT.lookup_map hc, Option.isSome_map]
    split <;> simp only [Out.map, mapPairs_nil]
  | rem k => simp only [Op.map, bstStep, Out.map, BT.del_map hc]
  | get k => simp only [Op.map, bstStep, Out.map, BT.lookup_map hc]
  | each j =>
    simp only [Op.map, bstStep, Out.map, BT.foreachStop, BT.toList_map]
    split <;> simp only [mapPairs_take]
  | clear => simp only [Op.map, bstStep, Out.map, BT.toList_map, mapPairs_length, BT.map]
  | count => simp only [Op.map, bstStep, Out.map]

theorem bstRun_map (s : BT κ ν × Int) (ops : List (Op κ ν)) :
    bstRun cmp' (s.1.map h g, s.2) (ops.map (Op.map h g)) =
      (((bstRun cmp s ops).1.1.map h g, (bstRun cmp s ops).1.2), (bstRun cmp s ops).2.map (Out.map h g)) := by
  induction ops generalizing s with
  | nil => rfl
  | cons op ops ih =>
    simp only [List.map_cons, bstRun, bstStep_map hc, ih]

/-! ### AVL -/
section avl
omit hc

theorem AT.toBT_map (t : AT κ ν) : (t.map h g).toBT = t.toBT.map h g := by
  induction t with
  | nil => rfl
  | node l k v b r ihl ihr => simp [AT.map, AT.toBT, BT.map, ihl, ihr]

theorem AT.toList_map (t : AT κ ν) : (t.map h g).toList = mapPairs h g t.toList := by
  simp only [AT.toList, AT.toBT_map, BT.toList_map]

theorem AT.rotLR_map (cl : AT κ ν) (ck : κ) (cv : ν) (ml : AT κ ν) (mk : κ) (mv : ν) (mb : Int) (mr : AT κ ν)
    (pk : κ) (pv : ν) (pr : AT κ ν) :
    AT.rotLR (cl.map h g) (h ck) (g cv) (ml.map h g) (h mk) (g mv) mb (mr.map h g) (h pk) (g pv) (pr.map h g) =
      (AT.rotLR cl ck cv ml mk mv mb mr pk pv pr).map h g := by
  unfold AT.rotLR
  generalize AT.dblBf mb = p
  cases p; rfl

theorem AT.rotRL_map (pl : AT κ ν) (pk : κ) (pv : ν) (ml : AT κ ν) (mk : κ) (mv : ν) (mb : Int) (mr : AT κ ν)
    (ck : κ) (cv : ν) (cr : AT κ ν) :
    AT.rotRL (pl.map h g) (h pk) (g pv) (ml.map h g) (h mk) (g mv) mb (mr.map h g) (h ck) (g cv) (cr.map h g) =
      (AT.rotRL pl pk pv ml mk mv mb mr ck cv cr).map h g := by
  unfold AT.rotRL
  generalize AT.dblBf mb = p
  cases p; rfl

theorem AT.grewLeft_map (c : AT κ ν) (k : κ) (v : ν) (b : Int) (r : AT κ ν) :
    AT.grewLeft (c.map h g) (h k) (g v) b (r.map h g) = (AT.grewLeft c k v b r).map fun p => (p.1.map h g, p.2) := by
  rcases c with _ | ⟨cl, ck, cv, cb, cr⟩
  · simp only [AT.grewLeft, AT.map]; repeat' split
    all_goals simp [AT.map]
  · rcases cr with _ | ⟨ml, mk, mv, mb, mr⟩
    all_goals (simp only [AT.grewLeft, AT.map, AT.rotLR_map]; repeat' split)
    all_goals simp_all [AT.map, AT.rotR]

end avl

end
end PV.Tree

import PV.Lemmas.Tree.Defs
/-!
Naturality of the tree model in the key and value objects (C14, last clause: "the tree never frees or alters user keys
and values").

The model is parametric in the value type `ν` and, up to the comparator, in the key type `κ`.  `map h g` renames every
key object by `h` and every value object by `g` in trees, operations and outputs.  When `h` preserves the comparator
(`cmp' (h a) (h b) = cmp a b`), every operation of the spec and of the three variants commutes with the renaming: the
operations only move the objects around, they never look inside a value, never change one, never make one up, and they
learn about keys only what the comparator says.
-/
namespace PV.Tree

variable {κ κ' ν ν' : Type}

/-- rename the objects of a list of pairs -/
def mapPairs (h : κ → κ') (g : ν → ν') (l : List (κ × ν)) : List (κ' × ν') := l.map fun p => (h p.1, g p.2)

def BT.map (h : κ → κ') (g : ν → ν') : BT κ ν → BT κ' ν'
  | .nil => .nil
  | .node l k v r => .node (BT.map h g l) (h k) (g v) (BT.map h g r)

/-- shape and balance factors kept -/
def AT.map (h : κ → κ') (g : ν → ν') : AT κ ν → AT κ' ν'
  | .nil => .nil
  | .node l k v b r => .node (AT.map h g l) (h k) (g v) b (AT.map h g r)

/-- shape and colours kept -/
def RT.map (h : κ → κ') (g : ν → ν') : RT κ ν → RT κ' ν'
  | .nil => .nil
  | .node l k v c r => .node (RT.map h g l) (h k) (g v) c (RT.map h g r)

def Op.map (h : κ → κ') (g : ν → ν') : Op κ ν → Op κ' ν'
  | .ins k v => .ins (h k) (g v)
  | .insf k v => .insf (h k) (g v)
  | .rem k => .rem (h k)
  | .get k => .get (h k)
  | .each j => .each j
  | .clear => .clear
  | .count => .count

/-- counts, flags and the order of the logs kept; the objects renamed -/
def Out.map (h : κ → κ') (g : ν → ν') : Out κ ν → Out κ' ν'
  | .ins n d => .ins n (mapPairs h g d)
  | .rem f n d => .rem f n (mapPairs h g d)
  | .got v => .got (v.map g)
  | .visited ps => .visited (mapPairs h g ps)
  | .cleared n d => .cleared n (mapPairs h g d)
  | .num n => .num n

/-- key objects an operation passes to the tree -/
def Op.keys : Op κ ν → List κ
  | .ins k _ => [k]
  | .insf k _ => [k]
  | .rem k => [k]
  | .get k => [k]
  | _ => []

/-- value objects an operation passes to the tree -/
def Op.vals : Op κ ν → List ν
  | .ins _ v => [v]
  | .insf _ v => [v]
  | _ => []

/-- key objects a call shows to the user (visited, or handed to the key destroy notifier) -/
def Out.keys : Out κ ν → List κ
  | .ins _ d => d.map (·.1)
  | .rem _ _ d => d.map (·.1)
  | .visited ps => ps.map (·.1)
  | .cleared _ d => d.map (·.1)
  | _ => []

/-- value objects a call shows to the user (looked up, visited, or handed to the value destroy notifier) -/
def Out.vals : Out κ ν → List ν
  | .ins _ d => d.map (·.2)
  | .rem _ _ d => d.map (·.2)
  | .got v => v.toList
  | .visited ps => ps.map (·.2)
  | .cleared _ d => d.map (·.2)
  | .num _ => []

section
variable {cmp : κ → κ → Ordering} {cmp' : κ' → κ' → Ordering} {h : κ → κ'} {g : ν → ν'}

@[simp] theorem mapPairs_nil : mapPairs h g ([] : List (κ × ν)) = [] := rfl
@[simp] theorem mapPairs_cons (p : κ × ν) (l : List (κ × ν)) : mapPairs h g (p :: l) = (h p.1, g p.2) :: mapPairs h g l := rfl
@[simp] theorem mapPairs_append (a b : List (κ × ν)) : mapPairs h g (a ++ b) = mapPairs h g a ++ mapPairs h g b := by
  simp [mapPairs]
@[simp] theorem mapPairs_length (l : List (κ × ν)) : (mapPairs h g l).length = l.length := by simp [mapPairs]
theorem mapPairs_take (l : List (κ × ν)) (j : Nat) : mapPairs h g (l.take j) = (mapPairs h g l).take j := by
  simp [mapPairs, List.map_take]
theorem mapPairs_optionToList (o : Option (κ × ν)) :
    mapPairs h g o.toList = (o.map fun p => (h p.1, g p.2)).toList := by cases o <;> rfl

theorem Out.keys_map (o : Out κ ν) : (o.map h g).keys = o.keys.map h := by
  cases o <;> simp [Out.map, Out.keys, mapPairs, Function.comp_def]
theorem Out.vals_map (o : Out κ ν) : (o.map h g).vals = o.vals.map g := by
  cases o with
  | got v => cases v <;> simp [Out.map, Out.vals]
  | _ => simp [Out.map, Out.vals, mapPairs, Function.comp_def]

/-! ### spec -/
variable (hc : ∀ a b, cmp' (h a) (h b) = cmp a b)
include hc

theorem SM.insert_map (l : List (κ × ν)) (k : κ) (v : ν) :
    SM.insert cmp' (mapPairs h g l) (h k) (g v) = mapPairs h g (SM.insert cmp l k v) := by
  induction l with
  | nil => rfl
  | cons p r ih =>
    simp only [mapPairs_cons, SM.insert, hc]
    cases cmp k p.1 <;> simp [ih]

theorem SM.erase_map (l : List (κ × ν)) (k : κ) :
    SM.erase cmp' (mapPairs h g l) (h k) = mapPairs h g (SM.erase cmp l k) := by
  induction l with
  | nil => rfl
  | cons p r ih =>
    simp only [mapPairs_cons, SM.erase, hc]
    cases cmp k p.1 <;> simp [ih]

theorem SM.find_map (l : List (κ × ν)) (k : κ) :
    SM.find cmp' (mapPairs h g l) (h k) = (SM.find cmp l k).map fun p => (h p.1, g p.2) := by
  induction l with
  | nil => rfl
  | cons p r ih =>
    simp only [SM.find] at ih ⊢
    simp only [mapPairs_cons, List.find?_cons, hc]
    cases cmp k p.1 <;> simp [ih]

theorem SM.lookup_map (l : List (κ × ν)) (k : κ) :
    SM.lookup cmp' (mapPairs h g l) (h k) = (SM.lookup cmp l k).map g := by
  simp only [SM.lookup, SM.find_map hc]
  cases SM.find cmp l k <;> rfl

theorem specStep_map (l : List (κ × ν)) (op : Op κ ν) :
    specStep cmp' (mapPairs h g l) (op.map h g) =
      (mapPairs h g (specStep cmp l op).1, (specStep cmp l op).2.map h g) := by
  cases op with
  | ins k v =>
    simp only [Op.map, specStep, Out.map, SM.insert_map hc, SM.find_map hc, mapPairs_length, mapPairs_optionToList]
  | insf k v =>
    simp only [Op.map, specStep, SM.insert_map hc, SM.find_map hc, mapPairs_length, Option.isSome_map]
    split <;> simp only [Out.map, mapPairs_optionToList, mapPairs_nil]
  | rem k =>
    simp only [Op.map, specStep, Out.map, SM.erase_map hc, SM.find_map hc, mapPairs_length, mapPairs_optionToList,
      Option.isSome_map]
  | get k => simp only [Op.map, specStep, Out.map, SM.lookup_map hc]
  | each j =>
    simp only [Op.map, specStep, Out.map]
    split <;> simp only [mapPairs_take]
  | clear => simp only [Op.map, specStep, Out.map, mapPairs_nil]
  | count => simp only [Op.map, specStep, Out.map, mapPairs_length]

theorem specRun_map (l : List (κ × ν)) (ops : List (Op κ ν)) :
    specRun cmp' (mapPairs h g l) (ops.map (Op.map h g)) =
      (mapPairs h g (specRun cmp l ops).1, (specRun cmp l ops).2.map (Out.map h g)) := by
  induction ops generalizing l with
  | nil => rfl
  | cons op ops ih =>
    simp only [List.map_cons, specRun, specStep_map hc, ih]

/-! ### plain BST -/

omit hc in
theorem BT.toList_map (t : BT κ ν) : (t.map h g).toList = mapPairs h g t.toList := by
  induction t with
  | nil => rfl
  | node l k v r ihl ihr => simp [BT.map, BT.toList, ihl, ihr]

theorem BT.lookup_map (t : BT κ ν) (x : κ) : (t.map h g).lookup cmp' (h x) = (t.lookup cmp x).map g := by
  induction t with
  | nil => rfl
  | node l k v r ihl ihr =>
    simp only [BT.map, BT.lookup, hc]
    cases cmp x k <;> simp [ihl, ihr]

theorem BT.ins_map (t : BT κ ν) (x : κ) (y : ν) :
    (t.map h g).ins cmp' (h x) (g y) =
      ((t.ins cmp x y).1.map h g, (t.ins cmp x y).2.1, mapPairs h g (t.ins cmp x y).2.2) := by
  induction t with
  | nil => rfl
  | node l k v r ihl ihr =>
    simp only [BT.map, BT.ins, hc]
    cases cmp x k <;> simp [ihl, ihr, BT.map]

omit hc in
theorem BT.delMax_map (l : BT κ ν) (k : κ) (v : ν) (r : BT κ ν) :
    BT.delMax (l.map h g) (h k) (g v) (r.map h g) =
      ((BT.delMax l k v r).1.map h g, (h (BT.delMax l k v r).2.1, g (BT.delMax l k v r).2.2)) := by
  induction r generalizing l k v with
  | nil => rfl
  | node rl rk rv rr _ ihr => simp [BT.map, BT.delMax, ihr]

theorem BT.del_map (t : BT κ ν) (x : κ) :
    (t.map h g).del cmp' (h x) =
      ((t.del cmp x).1.map h g, (t.del cmp x).2.1, mapPairs h g (t.del cmp x).2.2) := by
  induction t with
  | nil => rfl
  | node l k v r ihl ihr =>
    simp only [BT.map, BT.del, hc]
    cases cmp x k with
    | lt => simp [ihl, BT.map]
    | gt => simp [ihr, BT.map]
    | eq =>
      cases l with
      | nil => simp [BT.map]
      | node ll lk lv lr =>
        cases r with
        | nil => simp [BT.map]
        | node rl rk rv rr => simp [BT.map, BT.delMax_map]

theorem bstStep_map (s : BT κ ν × Int) (op : Op κ ν) :
    bstStep cmp' (s.1.map h g, s.2) (op.map h g) =
      (((bstStep cmp s op).1.1.map h g, (bstStep cmp s op).1.2), (bstStep cmp s op).2.map h g) := by
  cases op with
  | ins k v => simp only [Op.map, bstStep, Out.map, BT.ins_map hc]
  | insf k v =>
    simp only [Op.map, bstStep, BT.ins_map hc, BT.lookup_map hc, Option.isSome_map]
    split <;> simp only [Out.map, mapPairs_nil]
  | rem k => simp only [Op.map, bstStep, Out.map, BT.del_map hc]
  | get k => simp only [Op.map, bstStep, Out.map, BT.lookup_map hc]
  | each j =>
    simp only [Op.map, bstStep, Out.map, BT.foreachStop, BT.toList_map]
    split <;> simp only [mapPairs_take]
  | clear => simp only [Op.map, bstStep, Out.map, BT.toList_map, mapPairs_length, BT.map]
  | count => simp only [Op.map, bstStep, Out.map]

theorem bstRun_map (s : BT κ ν × Int) (ops : List (Op κ ν)) :
    bstRun cmp' (s.1.map h g, s.2) (ops.map (Op.map h g)) =
      (((bstRun cmp s ops).1.1.map h g, (bstRun cmp s ops).1.2), (bstRun cmp s ops).2.map (Out.map h g)) := by
  induction ops generalizing s with
  | nil => rfl
  | cons op ops ih =>
    simp only [List.map_cons, bstRun, bstStep_map hc, ih]

/-! ### AVL -/
section avl
omit hc

theorem AT.toBT_map (t : AT κ ν) : (t.map h g).toBT = t.toBT.map h g := by
  induction t with
  | nil => rfl
  | node l k v b r ihl ihr => simp [AT.map, AT.toBT, BT.map, ihl, ihr]

theorem AT.toList_map (t : AT κ ν) : (t.map h g).toList = mapPairs h g t.toList := by
  simp only [AT.toList, AT.toBT_map, BT.toList_map]

theorem AT.rotLR_map (cl : AT κ ν) (ck : κ) (cv : ν) (ml : AT κ ν) (mk : κ) (mv : ν) (mb : Int) (mr : AT κ ν)
    (pk : κ) (pv : ν) (pr : AT κ ν) :
    AT.rotLR (cl.map h g) (h ck) (g cv) (ml.map h g) (h mk) (g mv) mb (mr.map h g) (h pk) (g pv) (pr.map h g) =
      (AT.rotLR cl ck cv ml mk mv mb mr pk pv pr).map h g := by
  unfold AT.rotLR
  generalize AT.dblBf mb = p
  cases p; rfl

theorem AT.rotRL_map (pl : AT κ ν) (pk : κ) (pv : ν) (ml : AT κ ν) (mk : κ) (mv : ν) (mb : Int) (mr : AT κ ν)
    (ck : κ) (cv : ν) (cr : AT κ ν) :
    AT.rotRL (pl.map h g) (h pk) (g pv) (ml.map h g) (h mk) (g mv) mb (mr.map h g) (h ck) (g cv) (cr.map h g) =
      (AT.rotRL pl pk pv ml mk mv mb mr ck cv cr).map h g := by
  unfold AT.rotRL
  generalize AT.dblBf mb = p
  cases p; rfl

theorem AT.grewLeft_map (c : AT κ ν) (k : κ) (v : ν) (b : Int) (r : AT κ ν) :
    AT.grewLeft (c.map h g) (h k) (g v) b (r.map h g) = (AT.grewLeft c k v b r).map fun p => (p.1.map h g, p.2) := by
  rcases c with _ | ⟨cl, ck, cv, cb, cr⟩
  · simp only [AT.grewLeft, AT.map]; repeat' split
    all_goals simp [AT.map]
  · rcases cr with _ | ⟨ml, mk, mv, mb, mr⟩
    all_goals (simp only [AT.grewLeft, AT.map, AT.rotLR_map]; repeat' split)
    all_goals simp_all [AT.map, AT.rotR]

theorem AT.grewRight_map (l : AT κ ν) (k : κ) (v : ν) (b : Int) (c : AT κ ν) :
    AT.grewRight (l.map h g) (h k) (g v) b (c.map h g) = (AT.grewRight l k v b c).map fun p => (p.1.map h g, p.2) := by
  rcases c with _ | ⟨cl, ck, cv, cb, cr⟩
  · simp only [AT.grewRight, AT.map]; repeat' split
    all_goals simp [AT.map]
  · rcases cl with _ | ⟨ml, mk, mv, mb, mr⟩
    all_goals (simp only [AT.grewRight, AT.map, AT.rotRL_map]; repeat' split)
    all_goals simp_all [AT.map, AT.rotL]

theorem AT.shrunkLeft_map (l : AT κ ν) (k : κ) (v : ν) (b : Int) (r : AT κ ν) :
    AT.shrunkLeft (l.map h g) (h k) (g v) b (r.map h g) = (AT.shrunkLeft l k v b r).map fun p => (p.1.map h g, p.2) := by
  rcases r with _ | ⟨sl, sk, sv, sb, sr⟩
  · simp only [AT.shrunkLeft, AT.map]; repeat' split
    all_goals simp [AT.map]
  · rcases sl with _ | ⟨ml, mk, mv, mb, mr⟩
    all_goals (simp only [AT.shrunkLeft, AT.map, AT.rotRL_map]; repeat' split)
    all_goals simp_all [AT.map, AT.rotL]

theorem AT.shrunkRight_map (l : AT κ ν) (k : κ) (v : ν) (b : Int) (r : AT κ ν) :
    AT.shrunkRight (l.map h g) (h k) (g v) b (r.map h g) = (AT.shrunkRight l k v b r).map fun p => (p.1.map h g, p.2) := by
  rcases l with _ | ⟨sl, sk, sv, sb, sr⟩
  · simp only [AT.shrunkRight, AT.map]; repeat' split
    all_goals simp [AT.map]
  · rcases sr with _ | ⟨ml, mk, mv, mb, mr⟩
    all_goals (simp only [AT.shrunkRight, AT.map, AT.rotLR_map]; repeat' split)
    all_goals simp_all [AT.map, AT.rotR]

/-- what `AT.ins` / `AT.del` return, renamed -/
def AT.mapRes (h : κ → κ') (g : ν → ν') (p : AT κ ν × Bool × Bool × List (κ × ν)) : AT κ' ν' × Bool × Bool × List (κ' × ν') :=
  (p.1.map h g, p.2.1, p.2.2.1, mapPairs h g p.2.2.2)

theorem AT.delMax_map (l : AT κ ν) (k : κ) (v : ν) (b : Int) (r : AT κ ν) :
    AT.delMax (l.map h g) (h k) (g v) b (r.map h g) =
      (AT.delMax l k v b r).map fun p => (p.1.map h g, p.2.1, (h p.2.2.1, g p.2.2.2)) := by
  induction r generalizing l k v b with
  | nil => rfl
  | node rl rk rv rb rr _ ihr =>
    simp only [AT.map, AT.delMax, ihr]
    rcases AT.delMax rl rk rv rb rr with _ | ⟨r', s, p⟩
    · rfl
    · cases s
      · simp [AT.map]
      · have e := AT.shrunkRight_map (h := h) (g := g) l k v b r'
        simp only [Option.map_some, if_true, e]
        cases AT.shrunkRight l k v b r' <;> rfl

end avl

theorem AT.ins_map (t : AT κ ν) (x : κ) (y : ν) :
    (t.map h g).ins cmp' (h x) (g y) = (t.ins cmp x y).map (AT.mapRes h g) := by
  induction t with
  | nil => rfl
  | node l k v b r ihl ihr =>
    simp only [AT.map, AT.ins, hc]
    cases cmp x k with
    | lt =>
      simp only [ihl]
      rcases AT.ins cmp l x y with _ | ⟨l', gr, a, d⟩
      · rfl
      · cases gr
        · simp [AT.map, AT.mapRes]
        · have e := AT.grewLeft_map (h := h) (g := g) l' k v b r
          simp only [Option.map_some, AT.mapRes, if_true, e]
          cases AT.grewLeft l' k v b r <;> rfl
    | gt =>
      simp only [ihr]
      rcases AT.ins cmp r x y with _ | ⟨r', gr, a, d⟩
      · rfl
      · cases gr
        · simp [AT.map, AT.mapRes]
        · have e := AT.grewRight_map (h := h) (g := g) l k v b r'
          simp only [Option.map_some, AT.mapRes, if_true, e]
          cases AT.grewRight l k v b r' <;> rfl
    | eq => simp [AT.map, AT.mapRes]

theorem AT.del_map (t : AT κ ν) (x : κ) :
    (t.map h g).del cmp' (h x) = (t.del cmp x).map (AT.mapRes h g) := by
  induction t with
  | nil => rfl
  | node l k v b r ihl ihr =>
    simp only [AT.map, AT.del, hc]
    cases cmp x k with
    | lt =>
      simp only [ihl]
      rcases AT.del cmp l x with _ | ⟨l', s, f, d⟩
      · rfl
      · cases s
        · simp [AT.map, AT.mapRes]
        · have e := AT.shrunkLeft_map (h := h) (g := g) l' k v b r
          simp only [Option.map_some, AT.mapRes, if_true, e]
          cases AT.shrunkLeft l' k v b r <;> rfl
    | gt =>
      simp only [ihr]
      rcases AT.del cmp r x with _ | ⟨r', s, f, d⟩
      · rfl
      · cases s
        · simp [AT.map, AT.mapRes]
        · have e := AT.shrunkRight_map (h := h) (g := g) l k v b r'
          simp only [Option.map_some, AT.mapRes, if_true, e]
          cases AT.shrunkRight l k v b r' <;> rfl
    | eq =>
      rcases l with _ | ⟨ll, lk, lv, lb, lr⟩
      · simp [AT.map, AT.mapRes]
      · rcases r with _ | ⟨rl, rk, rv, rb, rr⟩
        · simp [AT.map, AT.mapRes]
        · have e := AT.delMax_map (h := h) (g := g) ll lk lv lb lr
          simp only [AT.map, e]
          rcases AT.delMax ll lk lv lb lr with _ | ⟨l', s, p⟩
          · rfl
          · cases s
            · simp [AT.map, AT.mapRes]
            · have e2 := AT.shrunkLeft_map (h := h) (g := g) l' p.1 p.2 b (.node rl rk rv rb rr)
              simp only [AT.map] at e2
              simp only [Option.map_some, if_true, e2]
              cases AT.shrunkLeft l' p.1 p.2 b (.node rl rk rv rb rr) <;> simp [AT.mapRes]

theorem avlStep_map (s : AT κ ν × Int) (op : Op κ ν) :
    avlStep cmp' (s.1.map h g, s.2) (op.map h g) =
      (avlStep cmp s op).map fun r => ((r.1.1.map h g, r.1.2), r.2.map h g) := by
  cases op with
  | ins k v =>
    simp only [Op.map, avlStep, AT.ins_map hc]
    cases AT.ins cmp s.1 k v <;> simp [AT.mapRes, Out.map]
  | insf k v =>
    simp only [Op.map, avlStep, AT.ins_map hc, AT.toBT_map, BT.lookup_map hc, Option.isSome_map]
    split
    · cases AT.ins cmp s.1 k v <;> simp [AT.mapRes, Out.map]
    · simp [Out.map]
  | rem k =>
    simp only [Op.map, avlStep, AT.del_map hc]
    cases AT.del cmp s.1 k <;> simp [AT.mapRes, Out.map]
  | get k => simp only [Op.map, avlStep, Out.map, AT.toBT_map, BT.lookup_map hc, Option.map_some]
  | each j =>
    simp only [Op.map, avlStep, Out.map, BT.foreachStop, AT.toBT_map, BT.toList_map, Option.map_some]
    split <;> simp only [mapPairs_take]
  | clear => simp only [Op.map, avlStep, Out.map, AT.toList_map, mapPairs_length, AT.map, Option.map_some]
  | count => simp only [Op.map, avlStep, Out.map, Option.map_some]

theorem avlRun_map (s : AT κ ν × Int) (ops : List (Op κ ν)) :
    avlRun cmp' (s.1.map h g, s.2) (ops.map (Op.map h g)) =
      (avlRun cmp s ops).map fun r => ((r.1.1.map h g, r.1.2), r.2.map (Out.map h g)) := by
  induction ops generalizing s with
  | nil => rfl
  | cons op ops ih =>
    simp only [List.map_cons, avlRun, avlStep_map hc]
    rcases avlStep cmp s op with _ | ⟨s', o⟩
    · rfl
    · simp only [Option.map_some, ih]
      cases avlRun cmp s' ops <;> rfl

/-! ### red-black -/
section rb
omit hc

theorem RT.toBT_map (t : RT κ ν) : (t.map h g).toBT = t.toBT.map h g := by
  induction t with
  | nil => rfl
  | node l k v c r ihl ihr => simp [RT.map, RT.toBT, BT.map, ihl, ihr]

theorem RT.toList_map (t : RT κ ν) : (t.map h g).toList = mapPairs h g t.toList := by
  simp only [RT.toList, RT.toBT_map, BT.toList_map]

@[simp] theorem RT.isBlack_map (t : RT κ ν) : (t.map h g).isBlack = t.isBlack := by cases t <;> rfl
@[simp] theorem RT.isRedNode_map (t : RT κ ν) : (t.map h g).isRedNode = t.isRedNode := by cases t <;> rfl
@[simp] theorem RT.paint_map (c : Color) (t : RT κ ν) : RT.paint c (t.map h g) = (RT.paint c t).map h g := by cases t <;> rfl
@[simp] theorem RT.atParent_map (d : RT.Dir) (t : RT κ ν) : RT.atParent d (t.map h g) = RT.atParent d t := by
  simp [RT.atParent]

theorem RT.atGparentL_map (p : RT κ ν) (gk : κ) (gv : ν) (u : RT κ ν) (d' : RT.Dir) :
    RT.atGparentL (p.map h g) (h gk) (g gv) (u.map h g) d' =
      (RT.atGparentL p gk gv u d').map fun q => (q.1.map h g, q.2) := by
  rcases p with _ | ⟨pl, pk, pv, pc, pr⟩
  · rfl
  · rcases pr with _ | ⟨nl, nk, nv, nc, nr⟩ <;> cases d' <;>
      (simp only [RT.atGparentL, RT.map, RT.isRedNode_map]; split) <;> simp [RT.map]

theorem RT.atGparentR_map (u : RT κ ν) (gk : κ) (gv : ν) (p : RT κ ν) (d' : RT.Dir) :
    RT.atGparentR (u.map h g) (h gk) (g gv) (p.map h g) d' =
      (RT.atGparentR u gk gv p d').map fun q => (q.1.map h g, q.2) := by
  rcases p with _ | ⟨pl, pk, pv, pc, pr⟩
  · rfl
  · rcases pl with _ | ⟨nl, nk, nv, nc, nr⟩ <;> cases d' <;>
      (simp only [RT.atGparentR, RT.map, RT.isRedNode_map]; split) <;> simp [RT.map]

theorem RT.fixLeft345_map (n : RT κ ν) (pk : κ) (pv : ν) (pc : Color) (s : RT κ ν) :
    RT.fixLeft345 (n.map h g) (h pk) (g pv) pc (s.map h g) =
      (RT.fixLeft345 n pk pv pc s).map fun q => (q.1.map h g, q.2) := by
  rcases s with _ | ⟨sl, sk, sv, sc, sr⟩
  · rfl
  · rcases sl with _ | ⟨a, ak, av, ac, b⟩
    all_goals (simp only [RT.fixLeft345, RT.map, RT.isBlack_map]; repeat' split)
    all_goals simp_all [RT.map, RT.isBlack]

theorem RT.fixRight345_map (s : RT κ ν) (pk : κ) (pv : ν) (pc : Color) (n : RT κ ν) :
    RT.fixRight345 (s.map h g) (h pk) (g pv) pc (n.map h g) =
      (RT.fixRight345 s pk pv pc n).map fun q => (q.1.map h g, q.2) := by
  rcases s with _ | ⟨sl, sk, sv, sc, sr⟩
  · rfl
  · rcases sr with _ | ⟨a, ak, av, ac, b⟩
    all_goals (simp only [RT.fixRight345, RT.map, RT.isBlack_map]; repeat' split)
    all_goals simp_all [RT.map, RT.isBlack]

theorem RT.deficitLeft_map (n : RT κ ν) (pk : κ) (pv : ν) (pc : Color) (s : RT κ ν) :
    RT.deficitLeft (n.map h g) (h pk) (g pv) pc (s.map h g) =
      (RT.deficitLeft n pk pv pc s).map fun q => (q.1.map h g, q.2) := by
  rcases s with _ | ⟨sl, sk, sv, sc, sr⟩
  · rfl
  · have e1 := RT.fixLeft345_map (h := h) (g := g) n pk pv .red sl
    have e2 := RT.fixLeft345_map (h := h) (g := g) n pk pv pc (.node sl sk sv sc sr)
    simp only [RT.map] at e2
    simp only [RT.deficitLeft, RT.map, e1, e2]
    split
    · cases RT.fixLeft345 n pk pv .red sl <;> simp [RT.map]
    · rfl

theorem RT.deficitRight_map (s : RT κ ν) (pk : κ) (pv : ν) (pc : Color) (n : RT κ ν) :
    RT.deficitRight (s.map h g) (h pk) (g pv) pc (n.map h g) =
      (RT.deficitRight s pk pv pc n).map fun q => (q.1.map h g, q.2) := by
  rcases s with _ | ⟨sl, sk, sv, sc, sr⟩
  · rfl
  · have e1 := RT.fixRight345_map (h := h) (g := g) sr pk pv .red n
    have e2 := RT.fixRight345_map (h := h) (g := g) (.node sl sk sv sc sr) pk pv pc n
    simp only [RT.map] at e2
    simp only [RT.deficitRight, RT.map, e1, e2]
    split
    · cases RT.fixRight345 sr pk pv .red n <;> simp [RT.map]
    · rfl

theorem RT.unlink_map (l : RT κ ν) (c : Color) (r : RT κ ν) :
    RT.unlink (l.map h g) c (r.map h g) = ((RT.unlink l c r).1.map h g, (RT.unlink l c r).2) := by
  cases l <;> cases r <;> cases c <;> simp [RT.unlink, RT.map, RT.paint]

theorem RT.delMax_map (l : RT κ ν) (k : κ) (v : ν) (c : Color) (r : RT κ ν) :
    RT.delMax (l.map h g) (h k) (g v) c (r.map h g) =
      (RT.delMax l k v c r).map fun p => (p.1.map h g, p.2.1, (h p.2.2.1, g p.2.2.2)) := by
  induction r generalizing l k v c with
  | nil =>
    have e := RT.unlink_map (h := h) (g := g) l c .nil
    simp only [RT.map] at e
    simp only [RT.map, RT.delMax, e, Option.map_some]
  | node rl rk rv rc rr _ ihr =>
    simp only [RT.map, RT.delMax, ihr]
    rcases RT.delMax rl rk rv rc rr with _ | ⟨r', s, p⟩
    · rfl
    · cases s
      · simp [RT.map]
      · have e := RT.deficitRight_map (h := h) (g := g) l k v c r'
        simp only [Option.map_some, if_true, e]
        cases RT.deficitRight l k v c r' <;> rfl

end rb

/-- what `RT.insAux` returns, renamed -/
def RT.mapInsRes (h : κ → κ') (g : ν → ν') (p : RT κ ν × RT.InsSt × Bool × List (κ × ν)) :
    RT κ' ν' × RT.InsSt × Bool × List (κ' × ν') :=
  (p.1.map h g, p.2.1, p.2.2.1, mapPairs h g p.2.2.2)

theorem RT.insAux_map (t : RT κ ν) (x : κ) (y : ν) :
    (t.map h g).insAux cmp' (h x) (g y) = (t.insAux cmp x y).map (RT.mapInsRes h g) := by
  induction t with
  | nil => rfl
  | node l k v c r ihl ihr =>
    simp only [RT.map, RT.insAux, hc]
    cases cmp x k with
    | lt =>
      simp only [ihl]
      rcases RT.insAux cmp l x y with _ | ⟨l', st, a, d⟩
      · rfl
      · rcases st with _ | _ | d'
        · simp [RT.map, RT.mapInsRes]
        · have e := RT.atParent_map (h := h) (g := g) .left (.node l' k v c r)
          simp only [RT.map] at e
          simp [RT.map, RT.mapInsRes, e]
        · have e := RT.atGparentL_map (h := h) (g := g) l' k v r d'
          simp only [Option.map_some, RT.mapInsRes, e]
          cases RT.atGparentL l' k v r d' <;> rfl
    | gt =>
      simp only [ihr]
      rcases RT.insAux cmp r x y with _ | ⟨r', st, a, d⟩
      · rfl
      · rcases st with _ | _ | d'
        · simp [RT.map, RT.mapInsRes]
        · have e := RT.atParent_map (h := h) (g := g) .right (.node l k v c r')
          simp only [RT.map] at e
          simp [RT.map, RT.mapInsRes, e]
        · have e := RT.atGparentR_map (h := h) (g := g) l k v r' d'
          simp only [Option.map_some, RT.mapInsRes, e]
          cases RT.atGparentR l k v r' d' <;> rfl
    | eq => simp [RT.map, RT.mapInsRes]

/-- what `RT.ins` / `RT.del` return, renamed -/
def RT.mapRes (h : κ → κ') (g : ν → ν') (p : RT κ ν × Bool × List (κ × ν)) : RT κ' ν' × Bool × List (κ' × ν') :=
  (p.1.map h g, p.2.1, mapPairs h g p.2.2)

theorem RT.ins_map (t : RT κ ν) (x : κ) (y : ν) :
    (t.map h g).ins cmp' (h x) (g y) = (t.ins cmp x y).map (RT.mapRes h g) := by
  simp only [RT.ins, RT.insAux_map hc]
  rcases RT.insAux cmp t x y with _ | ⟨t', st, a, d⟩
  · rfl
  · rcases st with _ | _ | d' <;> simp [RT.mapInsRes, RT.mapRes]

theorem RT.delAux_map (t : RT κ ν) (x : κ) :
    (t.map h g).delAux cmp' (h x) =
      (t.delAux cmp x).map fun p => (p.1.map h g, p.2.1, p.2.2.1, mapPairs h g p.2.2.2) := by
  induction t with
  | nil => rfl
  | node l k v c r ihl ihr =>
    simp only [RT.map, RT.delAux, hc]
    cases cmp x k with
    | lt =>
      simp only [ihl]
      rcases RT.delAux cmp l x with _ | ⟨l', s, f, d⟩
      · rfl
      · cases s
        · simp [RT.map]
        · have e := RT.deficitLeft_map (h := h) (g := g) l' k v c r
          simp only [Option.map_some, if_true, e]
          cases RT.deficitLeft l' k v c r <;> rfl
    | gt =>
      simp only [ihr]
      rcases RT.delAux cmp r x with _ | ⟨r', s, f, d⟩
      · rfl
      · cases s
        · simp [RT.map]
        · have e := RT.deficitRight_map (h := h) (g := g) l k v c r'
          simp only [Option.map_some, if_true, e]
          cases RT.deficitRight l k v c r' <;> rfl
    | eq =>
      rcases l with _ | ⟨ll, lk, lv, lc, lr⟩
      · have e := RT.unlink_map (h := h) (g := g) .nil c r
        simp only [RT.map] at e
        simp [RT.map, e]
      · rcases r with _ | ⟨rl, rk, rv, rc, rr⟩
        · have e := RT.unlink_map (h := h) (g := g) (.node ll lk lv lc lr) c .nil
          simp only [RT.map] at e
          simp [RT.map, e]
        · have e := RT.delMax_map (h := h) (g := g) ll lk lv lc lr
          simp only [RT.map, e]
          rcases RT.delMax ll lk lv lc lr with _ | ⟨l', s, p⟩
          · rfl
          · cases s
            · simp [RT.map]
            · have e2 := RT.deficitLeft_map (h := h) (g := g) l' p.1 p.2 c (.node rl rk rv rc rr)
              simp only [RT.map] at e2
              simp only [Option.map_some, if_true, e2]
              cases RT.deficitLeft l' p.1 p.2 c (.node rl rk rv rc rr) <;> simp

theorem RT.del_map (t : RT κ ν) (x : κ) :
    (t.map h g).del cmp' (h x) = (t.del cmp x).map (RT.mapRes h g) := by
  simp only [RT.del, RT.delAux_map hc]
  cases RT.delAux cmp t x <;> simp [RT.mapRes]

theorem rbStep_map (s : RT κ ν × Int) (op : Op κ ν) :
    rbStep cmp' (s.1.map h g, s.2) (op.map h g) =
      (rbStep cmp s op).map fun r => ((r.1.1.map h g, r.1.2), r.2.map h g) := by
  cases op with
  | ins k v =>
    simp only [Op.map, rbStep, RT.ins_map hc]
    cases RT.ins cmp s.1 k v <;> simp [RT.mapRes, Out.map]
  | insf k v =>
    simp only [Op.map, rbStep, RT.ins_map hc, RT.toBT_map, BT.lookup_map hc, Option.isSome_map]
    split
    · cases RT.ins cmp s.1 k v <;> simp [RT.mapRes, Out.map]
    · simp [Out.map]
  | rem k =>
    simp only [Op.map, rbStep, RT.del_map hc]
    cases RT.del cmp s.1 k <;> simp [RT.mapRes, Out.map]
  | get k => simp only [Op.map, rbStep, Out.map, RT.toBT_map, BT.lookup_map hc, Option.map_some]
  | each j =>
    simp only [Op.map, rbStep, Out.map, BT.foreachStop, RT.toBT_map, BT.toList_map, Option.map_some]
    split <;> simp only [mapPairs_take]
  | clear => simp only [Op.map, rbStep, Out.map, RT.toList_map, mapPairs_length, RT.map, Option.map_some]
  | count => simp only [Op.map, rbStep, Out.map, Option.map_some]

theorem rbRun_map (s : RT κ ν × Int) (ops : List (Op κ ν)) :
    rbRun cmp' (s.1.map h g, s.2) (ops.map (Op.map h g)) =
      (rbRun cmp s ops).map fun r => ((r.1.1.map h g, r.1.2), r.2.map (Out.map h g)) := by
  induction ops generalizing s with
  | nil => rfl
  | cons op ops ih =>
    simp only [List.map_cons, rbRun, rbStep_map hc]
    rcases rbStep cmp s op with _ | ⟨s', o⟩
    · rfl
    · simp only [Option.map_some, ih]
      cases rbRun cmp s' ops <;> rfl

end

/-! ### consequence: every object stored or shown is an object the caller passed -/

/-- key objects passed to the calls of a history -/
def passedKeys (ops : List (Op κ ν)) : List κ := ops.flatMap Op.keys
/-- value objects passed to the calls of a history (to `p_tree_insert`: no other call takes a value) -/
def passedVals (ops : List (Op κ ν)) : List ν := ops.flatMap Op.vals

/-- every key / value object among `stored` and in `outs` has the property `P` / `Q` -/
def AllObjects (P : κ → Prop) (Q : ν → Prop) (stored : List (κ × ν)) (outs : List (Out κ ν)) : Prop :=
  (∀ p ∈ stored, P p.1 ∧ Q p.2) ∧ ∀ o ∈ outs, (∀ k ∈ o.keys, P k) ∧ ∀ v ∈ o.vals, Q v

/-- an operation whose objects satisfy `P` / `Q`, as an operation on the subtypes -/
def liftOp (P : κ → Prop) (Q : ν → Prop) : (op : Op κ ν) → (∀ k ∈ op.keys, P k) → (∀ v ∈ op.vals, Q v) →
    Op {k // P k} {v // Q v}
  | .ins k v, hk, hv => .ins ⟨k, hk k (by simp [Op.keys])⟩ ⟨v, hv v (by simp [Op.vals])⟩
  | .insf k v, hk, hv => .insf ⟨k, hk k (by simp [Op.keys])⟩ ⟨v, hv v (by simp [Op.vals])⟩
  | .rem k, hk, _ => .rem ⟨k, hk k (by simp [Op.keys])⟩
  | .get k, hk, _ => .get ⟨k, hk k (by simp [Op.keys])⟩
  | .each j, _, _ => .each j
  | .clear, _, _ => .clear
  | .count, _, _ => .count

theorem liftOp_map (P : κ → Prop) (Q : ν → Prop) (op : Op κ ν) (hk : ∀ k ∈ op.keys, P k) (hv : ∀ v ∈ op.vals, Q v) :
    (liftOp P Q op hk hv).map Subtype.val Subtype.val = op := by
  cases op <;> rfl

def liftOps (P : κ → Prop) (Q : ν → Prop) : (ops : List (Op κ ν)) →
    (∀ op ∈ ops, (∀ k ∈ op.keys, P k) ∧ ∀ v ∈ op.vals, Q v) → List (Op {k // P k} {v // Q v})
  | [], _ => []
  | op :: ops, H =>
    liftOp P Q op (H op List.mem_cons_self).1 (H op List.mem_cons_self).2 ::
      liftOps P Q ops (fun o ho => H o (List.mem_cons_of_mem _ ho))

theorem liftOps_map (P : κ → Prop) (Q : ν → Prop) (ops : List (Op κ ν))
    (H : ∀ op ∈ ops, (∀ k ∈ op.keys, P k) ∧ ∀ v ∈ op.vals, Q v) :
    (liftOps P Q ops H).map (Op.map Subtype.val Subtype.val) = ops := by
  induction ops with
  | nil => rfl
  | cons op ops ih => simp only [liftOps, List.map_cons, liftOp_map, ih]

theorem allObjects_val {P : κ → Prop} {Q : ν → Prop} (l : List ({k // P k} × {v // Q v}))
    (os : List (Out {k // P k} {v // Q v})) :
    AllObjects P Q (mapPairs Subtype.val Subtype.val l) (os.map (Out.map Subtype.val Subtype.val)) := by
  refine ⟨fun p hp => ?_, fun o ho => ?_⟩
  · obtain ⟨q, _, rfl⟩ := List.mem_map.1 hp
    exact ⟨q.1.2, q.2.2⟩
  · obtain ⟨o₀, _, rfl⟩ := List.mem_map.1 ho
    rw [Out.keys_map, Out.vals_map]
    refine ⟨fun k hk => ?_, fun v hv => ?_⟩
    · obtain ⟨k₀, _, rfl⟩ := List.mem_map.1 hk; exact k₀.2
    · obtain ⟨v₀, _, rfl⟩ := List.mem_map.1 hv; exact v₀.2

variable {cmp : κ → κ → Ordering}

/-- any property of all key objects and any property of all value objects passed by the caller holds of every object
    stored in the tree and of every object a call shows (looked up, visited, handed to a destroy notifier) -/
theorem specRun_allObjects (P : κ → Prop) (Q : ν → Prop) (ops : List (Op κ ν))
    (H : ∀ op ∈ ops, (∀ k ∈ op.keys, P k) ∧ ∀ v ∈ op.vals, Q v) :
    AllObjects P Q (specRun cmp [] ops).1 (specRun cmp [] ops).2 := by
  have key := specRun_map (cmp := fun a b : {k // P k} => cmp a.1 b.1) (cmp' := cmp) (h := Subtype.val)
    (g := (Subtype.val : {v // Q v} → ν)) (fun _ _ => rfl) [] (liftOps P Q ops H)
  rw [liftOps_map, mapPairs_nil] at key
  rw [key]
  exact allObjects_val _ _

theorem bstRun_allObjects (P : κ → Prop) (Q : ν → Prop) (ops : List (Op κ ν))
    (H : ∀ op ∈ ops, (∀ k ∈ op.keys, P k) ∧ ∀ v ∈ op.vals, Q v) :
    AllObjects P Q (bstRun cmp (.nil, 0) ops).1.1.toList (bstRun cmp (.nil, 0) ops).2 := by
  have key := bstRun_map (cmp := fun a b : {k // P k} => cmp a.1 b.1) (cmp' := cmp) (h := Subtype.val)
    (g := (Subtype.val : {v // Q v} → ν)) (fun _ _ => rfl) (.nil, 0) (liftOps P Q ops H)
  rw [liftOps_map] at key
  simp only [BT.map] at key
  rw [key, BT.toList_map]
  exact allObjects_val _ _

theorem avlRun_allObjects (P : κ → Prop) (Q : ν → Prop) (ops : List (Op κ ν))
    (H : ∀ op ∈ ops, (∀ k ∈ op.keys, P k) ∧ ∀ v ∈ op.vals, Q v) (s : AT κ ν × Int) (outs : List (Out κ ν))
    (hr : avlRun cmp (.nil, 0) ops = some (s, outs)) : AllObjects P Q s.1.toList outs := by
  have key := avlRun_map (cmp := fun a b : {k // P k} => cmp a.1 b.1) (cmp' := cmp) (h := Subtype.val)
    (g := (Subtype.val : {v // Q v} → ν)) (fun _ _ => rfl) (.nil, 0) (liftOps P Q ops H)
  rw [liftOps_map] at key
  simp only [AT.map] at key
  rw [hr] at key
  rcases hm : avlRun (fun a b : {k // P k} => cmp a.1 b.1) (.nil, 0) (liftOps P Q ops H) with _ | r₀
  · rw [hm] at key; cases key
  · rw [hm] at key
    simp only [Option.map_some, Option.some.injEq, Prod.mk.injEq] at key
    obtain ⟨rfl, rfl⟩ := key
    rw [AT.toList_map]
    exact allObjects_val _ _

theorem rbRun_allObjects (P : κ → Prop) (Q : ν → Prop) (ops : List (Op κ ν))
    (H : ∀ op ∈ ops, (∀ k ∈ op.keys, P k) ∧ ∀ v ∈ op.vals, Q v) (s : RT κ ν × Int) (outs : List (Out κ ν))
    (hr : rbRun cmp (.nil, 0) ops = some (s, outs)) : AllObjects P Q s.1.toList outs := by
  have key := rbRun_map (cmp := fun a b : {k // P k} => cmp a.1 b.1) (cmp' := cmp) (h := Subtype.val)
    (g := (Subtype.val : {v // Q v} → ν)) (fun _ _ => rfl) (.nil, 0) (liftOps P Q ops H)
  rw [liftOps_map] at key
  simp only [RT.map] at key
  rw [hr] at key
  rcases hm : rbRun (fun a b : {k // P k} => cmp a.1 b.1) (.nil, 0) (liftOps P Q ops H) with _ | r₀
  · rw [hm] at key; cases key
  · rw [hm] at key
    simp only [Option.map_some, Option.some.injEq, Prod.mk.injEq] at key
    obtain ⟨rfl, rfl⟩ := key
    rw [RT.toList_map]
    exact allObjects_val _ _

/-- the hypothesis of the four theorems above for "is one of the objects the caller passed" -/
theorem passed_self (ops : List (Op κ ν)) :
    ∀ op ∈ ops, (∀ k ∈ op.keys, k ∈ passedKeys ops) ∧ ∀ v ∈ op.vals, v ∈ passedVals ops :=
  fun op ho => ⟨fun _ hk => List.mem_flatMap.2 ⟨op, ho, hk⟩, fun _ hv => List.mem_flatMap.2 ⟨op, ho, hv⟩⟩

end PV.Tree

import PV.Lemmas.Tree.BST
/-! Red-black: insertion/removal fix-ups keep the in-order listing right and the colour invariant. -/
namespace PV.Tree
open Std

variable {κ ν : Type} {cmp : κ → κ → Ordering}

set_option linter.unusedSimpArgs false

namespace RT

/-! ### basic facts -/

@[simp] theorem toList_nil : (nil : RT κ ν).toList = [] := rfl
@[simp] theorem toList_node (l : RT κ ν) (k : κ) (v : ν) (c : Color) (r : RT κ ν) :
    (node l k v c r).toList = l.toList ++ (k, v) :: r.toList := rfl
@[simp] theorem toList_paint (c : Color) (t : RT κ ν) : (paint c t).toList = t.toList := by
  cases t <;> rfl

@[simp] theorem bh_nil : (nil : RT κ ν).bh = 0 := rfl
@[simp] theorem bh_black (l : RT κ ν) (k : κ) (v : ν) (r : RT κ ν) :
    (node l k v .black r).bh = l.bh + 1 := by simp [bh]
@[simp] theorem bh_red (l : RT κ ν) (k : κ) (v : ν) (r : RT κ ν) :
    (node l k v .red r).bh = l.bh := by simp [bh]

@[simp] theorem isBlack_nil : (nil : RT κ ν).isBlack = true := rfl
@[simp] theorem isBlack_black (l : RT κ ν) (k : κ) (v : ν) (r : RT κ ν) :
    (node l k v .black r).isBlack = true := rfl
@[simp] theorem isBlack_red (l : RT κ ν) (k : κ) (v : ν) (r : RT κ ν) :
    (node l k v .red r).isBlack = false := rfl
@[simp] theorem isRedNode_nil : (nil : RT κ ν).isRedNode = false := rfl
@[simp] theorem isRedNode_black (l : RT κ ν) (k : κ) (v : ν) (r : RT κ ν) :
    (node l k v .black r).isRedNode = false := rfl
@[simp] theorem isRedNode_red (l : RT κ ν) (k : κ) (v : ν) (r : RT κ ν) :
    (node l k v .red r).isRedNode = true := rfl

@[simp] theorem Bal_nil : (nil : RT κ ν).Bal := trivial
@[simp] theorem Bal_black (l : RT κ ν) (k : κ) (v : ν) (r : RT κ ν) :
    (node l k v .black r).Bal ↔ l.Bal ∧ r.Bal ∧ l.bh = r.bh := by simp [Bal]
@[simp] theorem Bal_red (l : RT κ ν) (k : κ) (v : ν) (r : RT κ ν) :
    (node l k v .red r).Bal ↔ l.Bal ∧ r.Bal ∧ l.bh = r.bh ∧ l.isBlack = true ∧ r.isBlack = true := by
  simp [Bal]

theorem Bal_paint_black {t : RT κ ν} (h : t.Bal) : (paint .black t).Bal := by
  cases t with
  | nil => trivial
  | node l k v c r => cases c <;> simp_all [paint]

/-- a red-rooted tree, spelled out -/
theorem red_of_not_black {t : RT κ ν} (h : t.isBlack = false) :
    ∃ l k v r, t = node l k v .red r := by
  cases t with
  | nil => simp at h
  | node l k v c r => cases c <;> simp_all

theorem black_of_not_redNode {t : RT κ ν} (h : t.isRedNode = false) : t.isBlack = true := by
  cases t with
  | nil => rfl
  | node l k v c r => cases c <;> simp_all

end RT

/-! ### insertion: in-order listing -/

namespace RT

theorem atGparentL_toList {p u : RT κ ν} {gk : κ} {gv : ν} {d' : Dir} {t : RT κ ν} {st : InsSt}
    (h : atGparentL p gk gv u d' = some (t, st)) :
    t.toList = p.toList ++ (gk, gv) :: u.toList := by
  unfold atGparentL at h
  split at h
  · simp at h
  · split at h
    · simp only [Option.some.injEq, Prod.mk.injEq] at h
      rw [← h.1]; simp
    · split at h
      · simp only [Option.some.injEq, Prod.mk.injEq] at h
        rw [← h.1]; simp
      · split at h
        · simp at h
        · simp only [Option.some.injEq, Prod.mk.injEq] at h
          rw [← h.1]; simp

theorem atGparentR_toList {p u : RT κ ν} {gk : κ} {gv : ν} {d' : Dir} {t : RT κ ν} {st : InsSt}
    (h : atGparentR u gk gv p d' = some (t, st)) :
    t.toList = u.toList ++ (gk, gv) :: p.toList := by
  unfold atGparentR at h
  split at h
  · simp at h
  · split at h
    · simp only [Option.some.injEq, Prod.mk.injEq] at h
      rw [← h.1]; simp
    · split at h
      · simp only [Option.some.injEq, Prod.mk.injEq] at h
        rw [← h.1]; simp
      · split at h
        · simp at h
        · simp only [Option.some.injEq, Prod.mk.injEq] at h
          rw [← h.1]; simp

theorem insAux_toList [TransCmp cmp] (t : RT κ ν) (x : κ) (y : ν) :
    ∀ {t' st a d}, insAux cmp t x y = some (t', st, a, d) → SM.Sorted cmp t.toList →
      t'.toList = SM.insert cmp t.toList x y ∧ a = (SM.find cmp t.toList x).isNone ∧
      d = (SM.find cmp t.toList x).toList := by
  induction t with
  | nil =>
    intro t' st a d h _
    simp only [insAux, Option.some.injEq, Prod.mk.injEq] at h
    obtain ⟨rfl, _, rfl, rfl⟩ := h
    simp [SM.insert, SM.find]
  | node l k v c r ihl ihr =>
    intro t' st a d h hs
    rw [toList_node] at hs ⊢
    have hs' := SM.sorted_append_cons.mp hs
    simp only [insAux] at h
    split at h
    · -- lt
      rename_i hc
      rw [SM.insert_mid_lt hs hc, SM.find_mid_lt hs hc]
      split at h
      · simp at h
      · rename_i l' st' a' d' hl
        obtain ⟨e1, e2, e3⟩ := ihl hl hs'.1
        split at h
        · simp only [Option.some.injEq, Prod.mk.injEq] at h
          obtain ⟨rfl, _, rfl, rfl⟩ := h
          simp [e1, e2, e3]
        · simp only [Option.some.injEq, Prod.mk.injEq] at h
          obtain ⟨rfl, _, rfl, rfl⟩ := h
          simp [e1, e2, e3]
        · simp only [Option.map_eq_some_iff] at h
          obtain ⟨⟨t2, st2⟩, hg, h⟩ := h
          simp only [Prod.mk.injEq] at h
          obtain ⟨rfl, _, rfl, rfl⟩ := h
          rw [atGparentL_toList hg]
          simp [e1, e2, e3]
    · -- gt
      rename_i hc
      rw [SM.insert_mid_gt hs hc, SM.find_mid_gt hs hc]
      split at h
      · simp at h
      · rename_i r' st' a' d' hr
        obtain ⟨e1, e2, e3⟩ := ihr hr hs'.2.1
        split at h
        · simp only [Option.some.injEq, Prod.mk.injEq] at h
          obtain ⟨rfl, _, rfl, rfl⟩ := h
          simp [e1, e2, e3]
        · simp only [Option.some.injEq, Prod.mk.injEq] at h
          obtain ⟨rfl, _, rfl, rfl⟩ := h
          simp [e1, e2, e3]
        · simp only [Option.map_eq_some_iff] at h
          obtain ⟨⟨t2, st2⟩, hg, h⟩ := h
          simp only [Prod.mk.injEq] at h
          obtain ⟨rfl, _, rfl, rfl⟩ := h
          rw [atGparentR_toList hg]
          simp [e1, e2, e3]
    · -- eq
      rename_i hc
      rw [SM.insert_mid_eq hs hc, SM.find_mid_eq hs hc]
      simp only [Option.some.injEq, Prod.mk.injEq] at h
      obtain ⟨rfl, _, rfl, rfl⟩ := h
      simp

end RT

/-! ### insertion: colour invariant -/

namespace RT

theorem red_of_isRedNode {t : RT κ ν} (h : t.isRedNode = true) :
    ∃ l k v r, t = node l k v .red r := by
  cases t with
  | nil => simp at h
  | node l k v c r => cases c <;> simp_all

/-- side condition of the "red parent with a red `d` child" state -/
def RedChild (d : Dir) (a b : RT κ ν) : Prop :=
  match d with
  | .left => a.isBlack = false ∧ b.isBlack = true
  | .right => a.isBlack = true ∧ b.isBlack = false

/-- what `insAux` promises about the subtree `t'` it hands upward in place of `t` -/
def InsOK (t t' : RT κ ν) : InsSt → Prop
  | .done => t'.Bal ∧ (t.isBlack = true → t'.isBlack = true)
  | .node => t'.Bal ∧ t'.isBlack = false
  | .child d => t.isBlack = false ∧ ∃ a k v b, t' = node a k v .red b ∧ a.Bal ∧ b.Bal ∧
      a.bh = b.bh ∧ RedChild d a b

theorem atGparentL_ok {a b u : RT κ ν} {k gk : κ} {v gv : ν} {d' : Dir}
    (ha : a.Bal) (hb : b.Bal) (hab : a.bh = b.bh) (hd : RedChild d' a b)
    (hu : u.Bal) (hbh : a.bh = u.bh) :
    ∃ t st, atGparentL (node a k v .red b) gk gv u d' = some (t, st) ∧ t.bh = u.bh + 1 ∧ t.Bal ∧
      ((st = .done ∧ t.isBlack = true) ∨ (st = .node ∧ t.isBlack = false)) := by
  unfold atGparentL
  cases hr : u.isRedNode
  · have hub := black_of_not_redNode hr
    cases d' with
    | left =>
      obtain ⟨h1, h2⟩ := hd
      refine ⟨_, _, rfl, ?_⟩
      simp_all
    | right =>
      obtain ⟨h1, h2⟩ := hd
      obtain ⟨nl, nk, nv, nr, rfl⟩ := red_of_not_black h2
      refine ⟨_, _, rfl, ?_⟩
      simp_all
  · obtain ⟨ul, uk, uv, ur, rfl⟩ := red_of_isRedNode hr
    refine ⟨_, _, rfl, ?_⟩
    simp_all [paint]

theorem atGparentR_ok {a b u : RT κ ν} {k gk : κ} {v gv : ν} {d' : Dir}
    (ha : a.Bal) (hb : b.Bal) (hab : a.bh = b.bh) (hd : RedChild d' a b)
    (hu : u.Bal) (hbh : a.bh = u.bh) :
    ∃ t st, atGparentR u gk gv (node a k v .red b) d' = some (t, st) ∧ t.bh = u.bh + 1 ∧ t.Bal ∧
      ((st = .done ∧ t.isBlack = true) ∨ (st = .node ∧ t.isBlack = false)) := by
  unfold atGparentR
  cases hr : u.isRedNode
  · have hub := black_of_not_redNode hr
    cases d' with
    | right =>
      obtain ⟨h1, h2⟩ := hd
      refine ⟨_, _, rfl, ?_⟩
      simp_all
    | left =>
      obtain ⟨h1, h2⟩ := hd
      obtain ⟨nl, nk, nv, nr, rfl⟩ := red_of_not_black h1
      refine ⟨_, _, rfl, ?_⟩
      simp_all
  · obtain ⟨ul, uk, uv, ur, rfl⟩ := red_of_isRedNode hr
    refine ⟨_, _, rfl, ?_⟩
    simp_all [paint]

theorem insAux_ok (cmp : κ → κ → Ordering) (t : RT κ ν) (x : κ) (y : ν) (hb : t.Bal) :
    ∃ t' st a d, insAux cmp t x y = some (t', st, a, d) ∧ t'.bh = t.bh ∧ InsOK t t' st := by
  induction t with
  | nil => exact ⟨_, _, _, _, rfl, by simp, by simp [InsOK]⟩
  | node l k v c r ihl ihr =>
    have hbl : l.Bal := hb.1
    have hbr : r.Bal := hb.2.1
    have he : l.bh = r.bh := hb.2.2.1
    obtain ⟨l', stl, al, dl, hl, hlb, hlo⟩ := ihl hbl
    obtain ⟨r', str, ar, dr, hr, hrb, hro⟩ := ihr hbr
    simp only [insAux]
    split
    · -- lt
      rw [hl]
      cases stl with
      | done =>
        refine ⟨_, _, _, _, rfl, ?_, ?_⟩
        · cases c <;> simp [hlb]
        · cases c <;> simp_all [InsOK]
      | node =>
        refine ⟨_, _, _, _, rfl, ?_, ?_⟩
        · cases c <;> simp [hlb]
        · cases c
          · simp only [atParent, isBlack_red, InsOK]
            simp_all [InsOK, RedChild]
            exact ⟨_, _, _, _, ⟨rfl, rfl, rfl, rfl⟩, by simp_all⟩
          · simp_all [atParent, InsOK]
      | child d' =>
        obtain ⟨hlr, a, pk, pv, b, rfl, ha, hb', hab, hd⟩ := hlo
        obtain ⟨gl, gk, gv, gr, rfl⟩ := red_of_not_black hlr
        have hcb : c = .black := by
          cases c
          · simp_all
          · rfl
        subst hcb
        obtain ⟨t, st, hg, h1, h2, h3⟩ :=
          atGparentL_ok (k := pk) (v := pv) (gk := k) (gv := v) ha hb' hab hd hbr (by simp_all)
        simp only [hg, Option.map_some]
        refine ⟨_, _, _, _, rfl, ?_, ?_⟩
        · simp_all
        · rcases h3 with ⟨rfl, h3⟩ | ⟨rfl, h3⟩ <;> simp_all [InsOK]
    · -- gt
      rw [hr]
      cases str with
      | done =>
        refine ⟨_, _, _, _, rfl, ?_, ?_⟩
        · cases c <;> simp
        · cases c <;> simp_all [InsOK]
      | node =>
        refine ⟨_, _, _, _, rfl, ?_, ?_⟩
        · cases c <;> simp
        · cases c
          · simp only [atParent, isBlack_red, InsOK]
            simp_all [InsOK, RedChild]
            exact ⟨_, _, _, _, ⟨rfl, rfl, rfl, rfl⟩, by simp_all⟩
          · simp_all [atParent, InsOK]
      | child d' =>
        obtain ⟨hlr, a, pk, pv, b, rfl, ha, hb', hab, hd⟩ := hro
        obtain ⟨gl, gk, gv, gr, rfl⟩ := red_of_not_black hlr
        have hcb : c = .black := by
          cases c
          · simp_all
          · rfl
        subst hcb
        obtain ⟨t, st, hg, h1, h2, h3⟩ :=
          atGparentR_ok (k := pk) (v := pv) (gk := k) (gv := v) ha hb' hab hd hbl (by simp_all)
        simp only [hg, Option.map_some]
        refine ⟨_, _, _, _, rfl, ?_, ?_⟩
        · simp_all
        · rcases h3 with ⟨rfl, h3⟩ | ⟨rfl, h3⟩ <;> simp_all [InsOK]
    · -- eq
      refine ⟨_, _, _, _, rfl, ?_, ?_⟩
      · cases c <;> simp
      · cases c <;> simp_all [InsOK]

theorem ins_ok [TransCmp cmp] (t : RT κ ν) (x : κ) (y : ν) (hi : t.Inv)
    (hs : SM.Sorted cmp t.toList) :
    ∃ t', ins cmp t x y =
        some (t', (SM.find cmp t.toList x).isNone, (SM.find cmp t.toList x).toList) ∧
      t'.toList = SM.insert cmp t.toList x y ∧ t'.Inv := by
  obtain ⟨t', st, a, d, h, _, ho⟩ := insAux_ok cmp t x y hi.2
  obtain ⟨e1, rfl, rfl⟩ := insAux_toList t x y h hs
  simp only [ins, h]
  cases st with
  | done => exact ⟨_, rfl, e1, ho.2 hi.1, ho.1⟩
  | node =>
    refine ⟨_, rfl, by simp [e1], ?_, Bal_paint_black ho.1⟩
    obtain ⟨_, _, _, _, rfl⟩ := red_of_not_black ho.2
    rfl
  | child d' =>
    have := ho.1
    simp [hi.1] at this

end RT

/-! ### removal: in-order listing -/

namespace RT

theorem fixLeft345_toList {n s : RT κ ν} {pk : κ} {pv : ν} {pc : Color} {t : RT κ ν} {dfc : Bool}
    (h : fixLeft345 n pk pv pc s = some (t, dfc)) :
    t.toList = n.toList ++ (pk, pv) :: s.toList := by
  unfold fixLeft345 at h
  split at h
  · simp at h
  · split at h
    · split at h <;>
      · simp only [Option.some.injEq, Prod.mk.injEq] at h
        rw [← h.1]; simp
    · split at h
      · split at h
        · simp at h
        · simp only [Option.some.injEq, Prod.mk.injEq] at h
          rw [← h.1]; simp
      · simp only [Option.some.injEq, Prod.mk.injEq] at h
        rw [← h.1]; simp

theorem fixRight345_toList {n s : RT κ ν} {pk : κ} {pv : ν} {pc : Color} {t : RT κ ν} {dfc : Bool}
    (h : fixRight345 s pk pv pc n = some (t, dfc)) :
    t.toList = s.toList ++ (pk, pv) :: n.toList := by
  unfold fixRight345 at h
  split at h
  · simp at h
  · split at h
    · split at h <;>
      · simp only [Option.some.injEq, Prod.mk.injEq] at h
        rw [← h.1]; simp
    · split at h
      · split at h
        · simp at h
        · simp only [Option.some.injEq, Prod.mk.injEq] at h
          rw [← h.1]; simp
      · simp only [Option.some.injEq, Prod.mk.injEq] at h
        rw [← h.1]; simp

theorem deficitLeft_toList {n s : RT κ ν} {pk : κ} {pv : ν} {pc : Color} {t : RT κ ν} {dfc : Bool}
    (h : deficitLeft n pk pv pc s = some (t, dfc)) :
    t.toList = n.toList ++ (pk, pv) :: s.toList := by
  unfold deficitLeft at h
  split at h
  · simp at h
  · split at h
    · split at h
      · simp at h
      · rename_i hf
        simp only [Option.some.injEq, Prod.mk.injEq] at h
        rw [← h.1]; simp [fixLeft345_toList hf]
    · exact fixLeft345_toList h

theorem deficitRight_toList {n s : RT κ ν} {pk : κ} {pv : ν} {pc : Color} {t : RT κ ν} {dfc : Bool}
    (h : deficitRight s pk pv pc n = some (t, dfc)) :
    t.toList = s.toList ++ (pk, pv) :: n.toList := by
  unfold deficitRight at h
  split at h
  · simp at h
  · split at h
    · split at h
      · simp at h
      · rename_i hf
        simp only [Option.some.injEq, Prod.mk.injEq] at h
        rw [← h.1]; simp [fixRight345_toList hf]
    · exact fixRight345_toList h

theorem unlink_toList (l r : RT κ ν) (c : Color) (h : l = nil ∨ r = nil) :
    (unlink l c r).1.toList = l.toList ++ r.toList := by
  cases l with
  | nil =>
    cases r with
    | nil => simp [unlink]
    | node rl rk rv rc rr => cases c <;> simp [unlink, paint]
  | node ll lk lv lc lr =>
    cases r with
    | nil => cases c <;> simp [unlink, paint]
    | node rl rk rv rc rr => simp at h

theorem delMax_toList (r : RT κ ν) : ∀ (l : RT κ ν) (k : κ) (v : ν) (c : Color) {t dfc p},
    delMax l k v c r = some (t, dfc, p) → t.toList ++ [p] = l.toList ++ (k, v) :: r.toList := by
  induction r with
  | nil =>
    intro l k v c t dfc p h
    simp only [delMax, Option.some.injEq, Prod.mk.injEq] at h
    obtain ⟨rfl, _, rfl⟩ := h
    simp [unlink_toList l nil c (Or.inr rfl)]
  | node rl rk rv rc rr _ ihr =>
    intro l k v c t dfc p h
    simp only [delMax] at h
    split at h
    · simp at h
    · rename_i r' dfc' p' hr
      have e := ihr rl rk rv rc hr
      split at h
      · simp only [Option.map_eq_some_iff] at h
        obtain ⟨⟨t2, d2⟩, hg, h⟩ := h
        simp only [Prod.mk.injEq] at h
        obtain ⟨rfl, _, rfl⟩ := h
        rw [deficitRight_toList hg]
        simp [← e]
      · simp only [Option.some.injEq, Prod.mk.injEq] at h
        obtain ⟨rfl, _, rfl⟩ := h
        simp [← e]

theorem delAux_toList [TransCmp cmp] (t : RT κ ν) (x : κ) :
    ∀ {t' dfc f d}, delAux cmp t x = some (t', dfc, f, d) → SM.Sorted cmp t.toList →
      t'.toList = SM.erase cmp t.toList x ∧ f = (SM.find cmp t.toList x).isSome ∧
      d = (SM.find cmp t.toList x).toList := by
  induction t with
  | nil =>
    intro t' dfc f d h _
    simp only [delAux, Option.some.injEq, Prod.mk.injEq] at h
    obtain ⟨rfl, _, rfl, rfl⟩ := h
    simp [SM.erase, SM.find]
  | node l k v c r ihl ihr =>
    intro t' dfc f d h hs
    rw [toList_node] at hs ⊢
    have hs' := SM.sorted_append_cons.mp hs
    simp only [delAux] at h
    split at h
    · -- lt
      rename_i hc
      rw [SM.erase_mid_lt hs hc, SM.find_mid_lt hs hc]
      split at h
      · simp at h
      · rename_i l' dfc' f' d' hl
        obtain ⟨e1, e2, e3⟩ := ihl hl hs'.1
        split at h
        · simp only [Option.map_eq_some_iff] at h
          obtain ⟨⟨t2, d2⟩, hg, h⟩ := h
          simp only [Prod.mk.injEq] at h
          obtain ⟨rfl, _, rfl, rfl⟩ := h
          rw [deficitLeft_toList hg]
          simp [e1, e2, e3]
        · simp only [Option.some.injEq, Prod.mk.injEq] at h
          obtain ⟨rfl, _, rfl, rfl⟩ := h
          simp [e1, e2, e3]
    · -- gt
      rename_i hc
      rw [SM.erase_mid_gt hs hc, SM.find_mid_gt hs hc]
      split at h
      · simp at h
      · rename_i r' dfc' f' d' hr
        obtain ⟨e1, e2, e3⟩ := ihr hr hs'.2.1
        split at h
        · simp only [Option.map_eq_some_iff] at h
          obtain ⟨⟨t2, d2⟩, hg, h⟩ := h
          simp only [Prod.mk.injEq] at h
          obtain ⟨rfl, _, rfl, rfl⟩ := h
          rw [deficitRight_toList hg]
          simp [e1, e2, e3]
        · simp only [Option.some.injEq, Prod.mk.injEq] at h
          obtain ⟨rfl, _, rfl, rfl⟩ := h
          simp [e1, e2, e3]
    · -- eq
      rename_i hc
      rw [SM.erase_mid_eq hs hc, SM.find_mid_eq hs hc]
      split at h
      · rename_i ll lk lv lc lr rl rk rv rc rr
        split at h
        · simp at h
        · rename_i l' dfc' p hm
          have e := delMax_toList lr ll lk lv lc hm
          rw [← toList_node ll lk lv lc lr] at e
          split at h
          · simp only [Option.map_eq_some_iff] at h
            obtain ⟨⟨t2, d2⟩, hg, h⟩ := h
            simp only [Prod.mk.injEq] at h
            obtain ⟨rfl, _, rfl, rfl⟩ := h
            rw [deficitLeft_toList hg, ← e]
            simp
          · simp only [Option.some.injEq, Prod.mk.injEq] at h
            obtain ⟨rfl, _, rfl, rfl⟩ := h
            rw [← e]
            simp
      · rename_i hnn
        have hor : l = nil ∨ r = nil := by
          cases l with
          | nil => exact Or.inl rfl
          | node ll lk lv lc lr =>
            cases r with
            | nil => exact Or.inr rfl
            | node rl rk rv rc rr => exact absurd rfl (hnn _ _ _ _ _ _ _ _ _ _ rfl)
        have e := unlink_toList l r c hor
        simp only [Option.some.injEq, Prod.mk.injEq] at h
        obtain ⟨rfl, _, rfl, rfl⟩ := h
        simp [e]

end RT

/-! ### removal: colour invariant -/

namespace RT

theorem bh_paint_black_of_red {t : RT κ ν} (h : t.isBlack = false) :
    (paint .black t).bh = t.bh + 1 := by
  obtain ⟨_, _, _, _, rfl⟩ := red_of_not_black h
  simp [paint]

theorem isBlack_paint_black (t : RT κ ν) : (paint .black t).isBlack = true := by
  cases t <;> rfl

/-- Cases 3–5, `node` on the left: `n` is one black node short of its black sibling `s` -/
theorem fixLeft345_ok {n s : RT κ ν} (pk : κ) (pv : ν) (pc : Color)
    (hn : n.Bal) (hs : s.Bal) (hbh : s.bh = n.bh + 1) (hsb : s.isBlack = true) :
    ∃ t dfc, fixLeft345 n pk pv pc s = some (t, dfc) ∧ t.Bal ∧
      t.bh + (if dfc = true then 1 else 0) = n.bh + 1 + (if pc = .black then 1 else 0) ∧
      (pc = .red → dfc = false) ∧ (pc = .black → t.isBlack = true) := by
  cases s with
  | nil => simp at hbh
  | node sl sk sv sc sr =>
    cases sc with
    | red => simp at hsb
    | black =>
      rw [Bal_black] at hs
      obtain ⟨hsl, hsr, he⟩ := hs
      simp only [bh_black, Nat.add_right_cancel_iff] at hbh
      cases hlb : sl.isBlack
      · cases hrb : sr.isBlack
        · -- Case 5
          simp only [fixLeft345, fixRight345, hlb, hrb, Bool.and_self, Bool.and_true, Bool.and_false,
            Bool.false_eq_true, beq_iff_eq, reduceCtorEq, ↓reduceIte]
          refine ⟨_, _, rfl, ?_⟩
          have := bh_paint_black_of_red hrb
          have := Bal_paint_black hsr
          cases pc <;> simp_all [isBlack_paint_black]
        · -- Case 4
          obtain ⟨a, ak, av, b, rfl⟩ := red_of_not_black hlb
          simp only [fixLeft345, fixRight345, hlb, hrb, Bool.and_self, Bool.and_true, Bool.and_false,
            Bool.false_eq_true, beq_iff_eq, reduceCtorEq, ↓reduceIte]
          refine ⟨_, _, rfl, ?_⟩
          cases pc <;> simp_all
      · cases hrb : sr.isBlack
        · -- Case 5
          simp only [fixLeft345, fixRight345, hlb, hrb, Bool.and_self, Bool.and_true, Bool.and_false,
            Bool.false_eq_true, beq_iff_eq, reduceCtorEq, ↓reduceIte]
          refine ⟨_, _, rfl, ?_⟩
          have := bh_paint_black_of_red hrb
          have := Bal_paint_black hsr
          cases pc <;> simp_all [isBlack_paint_black]
        · -- Case 3
          cases pc
          · simp only [fixLeft345, fixRight345, hlb, hrb, Bool.and_self, Bool.and_true, Bool.and_false,
              Bool.false_eq_true, beq_iff_eq, reduceCtorEq, ↓reduceIte]
            refine ⟨_, _, rfl, ?_⟩
            simp_all
          · simp only [fixLeft345, fixRight345, hlb, hrb, Bool.and_self, Bool.and_true, Bool.and_false,
              Bool.false_eq_true, beq_iff_eq, reduceCtorEq, ↓reduceIte]
            refine ⟨_, _, rfl, ?_⟩
            simp_all

theorem fixRight345_ok {n s : RT κ ν} (pk : κ) (pv : ν) (pc : Color)
    (hn : n.Bal) (hs : s.Bal) (hbh : s.bh = n.bh + 1) (hsb : s.isBlack = true) :
    ∃ t dfc, fixRight345 s pk pv pc n = some (t, dfc) ∧ t.Bal ∧
      t.bh + (if dfc = true then 1 else 0) = n.bh + 1 + (if pc = .black then 1 else 0) ∧
      (pc = .red → dfc = false) ∧ (pc = .black → t.isBlack = true) := by
  cases s with
  | nil => simp at hbh
  | node sl sk sv sc sr =>
    cases sc with
    | red => simp at hsb
    | black =>
      rw [Bal_black] at hs
      obtain ⟨hsl, hsr, he⟩ := hs
      simp only [bh_black, Nat.add_right_cancel_iff] at hbh
      cases hrb : sr.isBlack
      · cases hlb : sl.isBlack
        · -- Case 5
          simp only [fixLeft345, fixRight345, hlb, hrb, Bool.and_self, Bool.and_true, Bool.and_false,
            Bool.false_eq_true, beq_iff_eq, reduceCtorEq, ↓reduceIte]
          refine ⟨_, _, rfl, ?_⟩
          have := bh_paint_black_of_red hlb
          have := Bal_paint_black hsl
          cases pc <;> simp_all [isBlack_paint_black]
        · -- Case 4
          obtain ⟨a, ak, av, b, rfl⟩ := red_of_not_black hrb
          simp only [fixLeft345, fixRight345, hlb, hrb, Bool.and_self, Bool.and_true, Bool.and_false,
            Bool.false_eq_true, beq_iff_eq, reduceCtorEq, ↓reduceIte]
          refine ⟨_, _, rfl, ?_⟩
          cases pc <;> simp_all
      · cases hlb : sl.isBlack
        · -- Case 5
          simp only [fixLeft345, fixRight345, hlb, hrb, Bool.and_self, Bool.and_true, Bool.and_false,
            Bool.false_eq_true, beq_iff_eq, reduceCtorEq, ↓reduceIte]
          refine ⟨_, _, rfl, ?_⟩
          have := bh_paint_black_of_red hlb
          have := Bal_paint_black hsl
          cases pc <;> simp_all [isBlack_paint_black]
        · -- Case 3
          cases pc
          · simp only [fixLeft345, fixRight345, hlb, hrb, Bool.and_self, Bool.and_true, Bool.and_false,
              Bool.false_eq_true, beq_iff_eq, reduceCtorEq, ↓reduceIte]
            refine ⟨_, _, rfl, ?_⟩
            simp_all
          · simp only [fixLeft345, fixRight345, hlb, hrb, Bool.and_self, Bool.and_true, Bool.and_false,
              Bool.false_eq_true, beq_iff_eq, reduceCtorEq, ↓reduceIte]
            refine ⟨_, _, rfl, ?_⟩
            simp_all

/-- the left subtree `n` is one black node short of its sibling `s` (any colour) -/
theorem deficitLeft_ok {n s : RT κ ν} (pk : κ) (pv : ν) (pc : Color)
    (hn : n.Bal) (hs : s.Bal) (hbh : s.bh = n.bh + 1) (hc : pc = .red → s.isBlack = true) :
    ∃ t dfc, deficitLeft n pk pv pc s = some (t, dfc) ∧ t.Bal ∧
      t.bh + (if dfc = true then 1 else 0) = n.bh + 1 + (if pc = .black then 1 else 0) ∧
      (pc = .black → t.isBlack = true) := by
  cases s with
  | nil => simp at hbh
  | node sl sk sv sc sr =>
    cases sc with
    | black =>
      obtain ⟨t, dfc, h, h1, h2, _, h4⟩ := fixLeft345_ok pk pv pc hn hs hbh rfl
      exact ⟨t, dfc, by simpa [deficitLeft] using h, h1, h2, h4⟩
    | red =>
      have hpc : pc = .black := by
        cases pc
        · simp at hc
        · rfl
      subst hpc
      rw [Bal_red] at hs
      obtain ⟨hsl, hsr, he, hlb, hrb⟩ := hs
      simp only [bh_red] at hbh
      obtain ⟨p', dfc, h, h1, h2, h3, _⟩ := fixLeft345_ok pk pv .red hn hsl hbh hlb
      have := h3 rfl
      subst this
      simp only [deficitLeft, h, beq_self_eq_true, ↓reduceIte]
      refine ⟨_, _, rfl, ?_⟩
      simp_all

theorem deficitRight_ok {n s : RT κ ν} (pk : κ) (pv : ν) (pc : Color)
    (hn : n.Bal) (hs : s.Bal) (hbh : s.bh = n.bh + 1) (hc : pc = .red → s.isBlack = true) :
    ∃ t dfc, deficitRight s pk pv pc n = some (t, dfc) ∧ t.Bal ∧
      t.bh + (if dfc = true then 1 else 0) = n.bh + 1 + (if pc = .black then 1 else 0) ∧
      (pc = .black → t.isBlack = true) := by
  cases s with
  | nil => simp at hbh
  | node sl sk sv sc sr =>
    cases sc with
    | black =>
      obtain ⟨t, dfc, h, h1, h2, _, h4⟩ := fixRight345_ok pk pv pc hn hs hbh rfl
      exact ⟨t, dfc, by simpa [deficitRight] using h, h1, h2, h4⟩
    | red =>
      have hpc : pc = .black := by
        cases pc
        · simp at hc
        · rfl
      subst hpc
      rw [Bal_red] at hs
      obtain ⟨hsl, hsr, he, hlb, hrb⟩ := hs
      simp only [bh_red] at hbh
      obtain ⟨p', dfc, h, h1, h2, h3, _⟩ := fixRight345_ok pk pv .red hn hsr (by omega) hrb
      have := h3 rfl
      subst this
      simp only [deficitRight, h, beq_self_eq_true, ↓reduceIte]
      refine ⟨_, _, rfl, ?_⟩
      simp_all

theorem red_of_bh_zero {t : RT κ ν} (h : t.bh = 0) (hne : t ≠ nil) : t.isBlack = false := by
  cases t with
  | nil => simp at hne
  | node l k v c r => cases c <;> simp_all

theorem unlink_ok (l r : RT κ ν) (k : κ) (v : ν) (c : Color) (hb : (node l k v c r).Bal)
    (h : l = nil ∨ r = nil) :
    (unlink l c r).1.Bal ∧
      (unlink l c r).1.bh + (if (unlink l c r).2 = true then 1 else 0) = (node l k v c r).bh ∧
      (c = .black → (unlink l c r).1.isBlack = true) := by
  cases l with
  | nil =>
    cases r with
    | nil => cases c <;> simp [unlink]
    | node rl rk rv rc rr =>
      have hr : (node rl rk rv rc rr).isBlack = false :=
        red_of_bh_zero (by cases c <;> simp_all) (by simp)
      obtain ⟨_, _, _, _, e⟩ := red_of_not_black hr
      cases c <;> simp_all [unlink, paint]
  | node ll lk lv lc lr =>
    cases r with
    | nil =>
      have hr : (node ll lk lv lc lr).isBlack = false :=
        red_of_bh_zero (by cases c <;> simp_all) (by simp)
      obtain ⟨_, _, _, _, e⟩ := red_of_not_black hr
      cases c <;> simp_all [unlink, paint]
    | node rl rk rv rc rr => simp at h

theorem delMax_ok (r : RT κ ν) : ∀ (l : RT κ ν) (k : κ) (v : ν) (c : Color), (node l k v c r).Bal →
    ∃ t dfc p, delMax l k v c r = some (t, dfc, p) ∧ t.Bal ∧
      t.bh + (if dfc = true then 1 else 0) = (node l k v c r).bh ∧
      (c = .black → t.isBlack = true) := by
  induction r with
  | nil =>
    intro l k v c hb
    exact ⟨_, _, _, rfl, unlink_ok l nil k v c hb (Or.inr rfl)⟩
  | node rl rk rv rc rr _ ihr =>
    intro l k v c hb
    have hbl := hb.1
    have hbr := hb.2.1
    have he := hb.2.2.1
    have hc := hb.2.2.2
    obtain ⟨r', dfc, p, h, h1, h2, h3⟩ := ihr rl rk rv rc hbr
    simp only [delMax, h]
    cases dfc with
    | true =>
      simp only [if_true] at h2
      obtain ⟨t, d', hg, g1, g2, g3⟩ :=
        deficitRight_ok k v c h1 hbl (by omega) (fun hc' => (hc hc').1)
      simp only [hg, Option.map_some, if_true]
      refine ⟨_, _, _, rfl, g1, ?_, g3⟩
      cases c <;> simp_all <;> omega
    | false =>
      simp only [Bool.false_eq_true, if_false]
      refine ⟨_, _, _, rfl, ?_⟩
      cases c
      · have hrb := (hc rfl).2
        cases rc <;> simp_all
      · simp_all

theorem delAux_ok (cmp : κ → κ → Ordering) (t : RT κ ν) (x : κ) (hb : t.Bal) :
    ∃ t' dfc f d, delAux cmp t x = some (t', dfc, f, d) ∧ t'.Bal ∧
      t'.bh + (if dfc = true then 1 else 0) = t.bh ∧ (t.isBlack = true → t'.isBlack = true) := by
  induction t with
  | nil => exact ⟨_, _, _, _, rfl, by simp⟩
  | node l k v c r ihl ihr =>
    have hbl := hb.1
    have hbr := hb.2.1
    have he := hb.2.2.1
    have hc := hb.2.2.2
    simp only [delAux]
    split
    · -- lt
      obtain ⟨l', dfc, f, d, h, h1, h2, h3⟩ := ihl hbl
      simp only [h]
      cases dfc with
      | true =>
        simp only [if_true] at h2
        obtain ⟨t, d', hg, g1, g2, g3⟩ :=
          deficitLeft_ok k v c h1 hbr (by omega) (fun hc' => (hc hc').2)
        simp only [hg, Option.map_some, if_true]
        refine ⟨_, _, _, _, rfl, g1, ?_, ?_⟩
        · cases c <;> simp_all <;> omega
        · cases c <;> simp_all
      | false =>
        simp only [Bool.false_eq_true, if_false]
        refine ⟨_, _, _, _, rfl, ?_⟩
        cases c <;> simp_all
    · -- gt
      obtain ⟨r', dfc, f, d, h, h1, h2, h3⟩ := ihr hbr
      simp only [h]
      cases dfc with
      | true =>
        simp only [if_true] at h2
        obtain ⟨t, d', hg, g1, g2, g3⟩ :=
          deficitRight_ok k v c h1 hbl (by omega) (fun hc' => (hc hc').1)
        simp only [hg, Option.map_some, if_true]
        refine ⟨_, _, _, _, rfl, g1, ?_, ?_⟩
        · cases c <;> simp_all <;> omega
        · cases c <;> simp_all
      | false =>
        simp only [Bool.false_eq_true, if_false]
        refine ⟨_, _, _, _, rfl, ?_⟩
        cases c <;> simp_all
    · -- eq
      split
      · rename_i ll lk lv lc lr rl rk rv rc rr
        obtain ⟨l', dfc, p, h, h1, h2, h3⟩ := delMax_ok lr ll lk lv lc hbl
        simp only [h]
        cases dfc with
        | true =>
          simp only [if_true] at h2
          obtain ⟨t, d', hg, g1, g2, g3⟩ :=
            deficitLeft_ok p.1 p.2 c h1 hbr (by omega) (fun hc' => (hc hc').2)
          simp only [hg, Option.map_some, if_true]
          refine ⟨_, _, _, _, rfl, g1, ?_, ?_⟩
          · cases c <;> simp_all <;> omega
          · cases c <;> simp_all
        | false =>
          simp only [Bool.false_eq_true, if_false]
          refine ⟨_, _, _, _, rfl, ?_⟩
          cases c
          · have hlb := (hc rfl).1
            cases lc <;> simp_all
          · simp_all
      · rename_i hnn
        have hor : l = nil ∨ r = nil := by
          cases l with
          | nil => exact Or.inl rfl
          | node ll lk lv lc lr =>
            cases r with
            | nil => exact Or.inr rfl
            | node rl rk rv rc rr => exact absurd rfl (hnn _ _ _ _ _ _ _ _ _ _ rfl)
        have hu := unlink_ok l r k v c hb hor
        refine ⟨_, _, _, _, rfl, hu.1, hu.2.1, ?_⟩
        intro hk
        cases c
        · simp at hk
        · exact hu.2.2 rfl

theorem del_ok [TransCmp cmp] (t : RT κ ν) (x : κ) (hi : t.Inv) (hs : SM.Sorted cmp t.toList) :
    ∃ t', del cmp t x =
        some (t', (SM.find cmp t.toList x).isSome, (SM.find cmp t.toList x).toList) ∧
      t'.toList = SM.erase cmp t.toList x ∧ t'.Inv := by
  obtain ⟨t', dfc, f, d, h, h1, _, h3⟩ := delAux_ok cmp t x hi.2
  obtain ⟨e1, rfl, rfl⟩ := delAux_toList t x h hs
  exact ⟨t', by simp [del, h], e1, h3 hi.1, h1⟩

end RT

/-! ### the operation sequence -/

private theorem specRun_cons (l : List (κ × ν)) (op : Op κ ν) (ops : List (Op κ ν)) :
    specRun cmp l (op :: ops) =
      ((specRun cmp (specStep cmp l op).1 ops).1,
        (specStep cmp l op).2 :: (specRun cmp (specStep cmp l op).1 ops).2) := rfl

/-- the `ins` step alone (used twice: `p_tree_insert`, and the replace path of an insert under allocation failure) -/
theorem rbStep_refines_ins [TransCmp cmp] (k : κ) (v : ν) (t : RT κ ν) (n : Int)
    (ho : t.toBT.Ordered cmp) (hi : t.Inv) (hn : n = t.toList.length) :
    ∃ t' n', rbStep cmp (t, n) (.ins k v) = some ((t', n'), (specStep cmp t.toList (.ins k v)).2) ∧
      t'.toList = (specStep cmp t.toList (.ins k v)).1 ∧ t'.Inv ∧ t'.toBT.Ordered cmp ∧
      n' = (t'.toList.length : Int) := by
  have hs : SM.Sorted cmp t.toList := ho
  obtain ⟨t', h, e, hinv⟩ := RT.ins_ok t k v hi hs
  have hlen : (if (SM.find cmp t.toList k).isNone = true then n + 1 else n) =
      ((SM.insert cmp t.toList k v).length : Int) := by
    rw [SM.length_insert hs, hn]; split <;> simp
  refine ⟨t', ((SM.insert cmp t.toList k v).length : Int), ?_, e, hinv, ?_, ?_⟩
  · simp only [rbStep, h, Option.map_some, specStep, hlen]
  · show SM.Sorted cmp t'.toList
    rw [e]; exact SM.sorted_insert hs k v
  · rw [e]

theorem rbStep_refines [TransCmp cmp] (op : Op κ ν) (t : RT κ ν) (n : Int)
    (ho : t.toBT.Ordered cmp) (hi : t.Inv) (hn : n = t.toList.length) :
    ∃ t' n', rbStep cmp (t, n) op = some ((t', n'), (specStep cmp t.toList op).2) ∧
      t'.toList = (specStep cmp t.toList op).1 ∧ t'.Inv ∧ t'.toBT.Ordered cmp ∧
      n' = (t'.toList.length : Int) := by
  have hs : SM.Sorted cmp t.toList := ho
  cases op with
  | ins k v => exact rbStep_refines_ins k v t n ho hi hn
  | insf k v =>
    have hp : (t.toBT.lookup cmp k).isSome = (SM.find cmp t.toList k).isSome := BT.lookup_isSome t.toBT ho k
    by_cases hf : (SM.find cmp t.toList k).isSome = true
    · have e1 : rbStep cmp (t, n) (.insf k v) = rbStep cmp (t, n) (.ins k v) := by
        simp only [rbStep, hp, hf, if_true]
      have e2 : specStep cmp t.toList (.insf k v) = specStep cmp t.toList (.ins k v) := by
        simp only [specStep, hf, if_true]
      rw [e1, e2]
      exact rbStep_refines_ins k v t n ho hi hn
    · have e1 : rbStep cmp (t, n) (.insf k v) = some ((t, n), .ins n []) := by
        simp only [rbStep, hp, hf]; rfl
      have e2 : specStep cmp t.toList (.insf k v) = (t.toList, .ins t.toList.length []) := by
        simp only [specStep, hf]; rfl
      rw [e1, e2]
      exact ⟨t, n, by simp [hn], rfl, hi, ho, hn⟩
  | rem k =>
    obtain ⟨t', h, e, hinv⟩ := RT.del_ok t k hi hs
    have hlen : (if (SM.find cmp t.toList k).isSome = true then n - 1 else n) =
        ((SM.erase cmp t.toList k).length : Int) := by
      have := SM.length_erase hs k
      rw [hn]; split at this <;> simp_all <;> omega
    refine ⟨t', ((SM.erase cmp t.toList k).length : Int), ?_, e, hinv, ?_, ?_⟩
    · simp only [rbStep, h, Option.map_some, specStep, hlen]
    · show SM.Sorted cmp t'.toList
      rw [e]; exact SM.sorted_erase hs k
    · rw [e]
  | get k =>
    refine ⟨t, n, ?_, rfl, hi, ho, hn⟩
    simp only [rbStep, specStep, BT.lookup_refines t.toBT ho k]
    rfl
  | each j =>
    exact ⟨t, n, rfl, rfl, hi, ho, hn⟩
  | clear =>
    refine ⟨.nil, 0, ?_, rfl, by simp [RT.Inv], by simp [BT.Ordered, RT.toBT, BT.toList, SM.Sorted], ?_⟩
    · simp only [rbStep, specStep, hn, Int.sub_self]
    · simp [hn]
  | count =>
    refine ⟨t, n, ?_, rfl, hi, ho, hn⟩
    simp only [rbStep, specStep, hn]

theorem rbRun_refines [TransCmp cmp] (ops : List (Op κ ν)) (t : RT κ ν) (n : Int) (l : List (κ × ν))
    (ho : t.toBT.Ordered cmp) (hi : t.Inv) (hl : t.toList = l) (hn : n = l.length) :
    ∃ s, rbRun cmp (t, n) ops = some (s, (specRun cmp l ops).2) ∧
      s.1.toList = (specRun cmp l ops).1 ∧ s.1.Inv := by
  induction ops generalizing t n l with
  | nil => exact ⟨(t, n), rfl, hl, hi⟩
  | cons op ops ih =>
    subst hl
    obtain ⟨t', n', h, e, hinv, hord, hn'⟩ := rbStep_refines (cmp := cmp) op t n ho hi hn
    obtain ⟨s, h2, e2, hinv2⟩ := ih t' n' _ hord hinv e (by rw [← e]; exact hn')
    refine ⟨s, ?_, ?_, hinv2⟩
    · simp only [rbRun, h, h2, specRun_cons]
    · rw [specRun_cons]; exact e2

/-! ### bounds -/

/-- a red-black tree with black height `bh` has at least `2^bh − 1` nodes and height ≤ 2·bh -/
theorem RT.pow_bh_le_size (t : RT κ ν) (hb : t.Bal) : 2 ^ t.bh ≤ t.size + 1 := by
  induction t with
  | nil => simp [RT.size, RT.toBT, BT.size]
  | node l k v c r ihl ihr =>
    have hl := ihl hb.1
    have hr := ihr hb.2.1
    have he := hb.2.2.1
    simp only [RT.size, RT.toBT, BT.size] at *
    cases c
    · simp only [RT.bh_red]; omega
    · simp only [RT.bh_black, Nat.pow_succ]; rw [← he] at hr; omega

theorem RT.height_le_aux (t : RT κ ν) (hb : t.Bal) :
    t.height ≤ 2 * t.bh + (if t.isBlack = true then 0 else 1) := by
  induction t with
  | nil => simp [RT.height, RT.toBT, BT.height]
  | node l k v c r ihl ihr =>
    have hl := ihl hb.1
    have hr := ihr hb.2.1
    simp only [RT.height, RT.toBT, BT.height] at *
    cases c
    · rw [RT.Bal_red] at hb
      obtain ⟨_, _, he, h1, h2⟩ := hb
      simp only [h1, h2, if_true] at hl hr
      simp only [RT.bh_red, RT.isBlack_red]
      rw [← he] at hr
      simp; omega
    · rw [RT.Bal_black] at hb
      obtain ⟨_, _, he⟩ := hb
      simp only [RT.bh_black, RT.isBlack_black, if_true]
      rw [← he] at hr
      split at hl <;> split at hr <;> omega

theorem RT.height_le_two_bh (t : RT κ ν) (hi : t.Inv) : t.height ≤ 2 * t.bh := by
  have := RT.height_le_aux t hi.2
  simp only [hi.1, if_true] at this
  exact this

end PV.Tree

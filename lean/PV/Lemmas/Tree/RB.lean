import PV.Lemmas.Tree.BST
/-! Red-black: insertion/removal fix-ups keep the in-order listing right and the colour invariant. -/
namespace PV.Tree
open Std

variable {κ ν : Type} {cmp : κ → κ → Ordering}

theorem rbRun_refines [TransCmp cmp] (ops : List (Op κ ν)) (t : RT κ ν) (n : Int) (l : List (κ × ν))
    (ho : t.toBT.Ordered cmp) (hi : t.Inv) (hl : t.toList = l) (hn : n = l.length) :
    ∃ s, rbRun cmp (t, n) ops = some (s, (specRun cmp l ops).2) ∧
      s.1.toList = (specRun cmp l ops).1 ∧ s.1.Inv := by
  sorry

/-- a red-black tree with black height `bh` has at least `2^bh − 1` nodes and height ≤ 2·bh -/
theorem RT.pow_bh_le_size (t : RT κ ν) (hb : t.Bal) : 2 ^ t.bh ≤ t.size + 1 := by
  sorry

theorem RT.height_le_two_bh (t : RT κ ν) (hi : t.Inv) : t.height ≤ 2 * t.bh := by
  sorry

end PV.Tree

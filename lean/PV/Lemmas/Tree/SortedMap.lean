import PV.Lemmas.Tree.Defs
/-! List-level facts about the sorted-association-list spec, shared by the three tree variants. -/
namespace PV.SM
open Std

variable {κ ν : Type} {cmp : κ → κ → Ordering}

theorem sorted_append_cons {l r : List (κ × ν)} {p : κ × ν} :
    Sorted cmp (l ++ p :: r) ↔
      Sorted cmp l ∧ Sorted cmp r ∧ (∀ a ∈ l, cmp a.1 p.1 = .lt) ∧ (∀ b ∈ r, cmp p.1 b.1 = .lt) ∧
      (∀ a ∈ l, ∀ b ∈ r, cmp a.1 b.1 = .lt) := by
  simp only [Sorted, List.pairwise_append, List.pairwise_cons, List.mem_cons]
  constructor
  · rintro ⟨h1, ⟨h2, h3⟩, h4⟩
    exact ⟨h1, h3, fun a ha => h4 a ha p (Or.inl rfl), h2, fun a ha b hb => h4 a ha b (Or.inr hb)⟩
  · rintro ⟨h1, h2, h3, h4, h5⟩
    refine ⟨h1, ⟨h4, h2⟩, ?_⟩
    intro a ha b hb
    rcases hb with rfl | hb
    · exact h3 a ha
    · exact h5 a ha b hb

/-! ### auxiliary: skipping a prefix of smaller keys -/

private theorem insert_append_of_gt {l m : List (κ × ν)} {k : κ} {v : ν}
    (h : ∀ a ∈ l, cmp k a.1 = .gt) : insert cmp (l ++ m) k v = l ++ insert cmp m k v := by
  induction l with
  | nil => rfl
  | cons a l ih =>
    have ha : cmp k a.1 = .gt := h a (by simp)
    have := ih (fun b hb => h b (by simp [hb]))
    simp [insert, ha, this]

private theorem erase_append_of_gt {l m : List (κ × ν)} {k : κ}
    (h : ∀ a ∈ l, cmp k a.1 = .gt) : erase cmp (l ++ m) k = l ++ erase cmp m k := by
  induction l with
  | nil => rfl
  | cons a l ih =>
    have ha : cmp k a.1 = .gt := h a (by simp)
    have := ih (fun b hb => h b (by simp [hb]))
    simp [erase, ha, this]

private theorem find_append_of_gt {l m : List (κ × ν)} {k : κ}
    (h : ∀ a ∈ l, cmp k a.1 = .gt) : find cmp (l ++ m) k = find cmp m k := by
  induction l with
  | nil => rfl
  | cons a l ih =>
    have ha : cmp k a.1 = .gt := h a (by simp)
    have := ih (fun b hb => h b (by simp [hb]))
    simp only [find] at this ⊢
    simp [ha, this]

private theorem find_eq_none_of_lt {m : List (κ × ν)} {k : κ}
    (h : ∀ b ∈ m, cmp k b.1 = .lt) : find cmp m k = none := by
  simp only [find, List.find?_eq_none]
  intro b hb
  simp [h b hb]

private theorem gt_left_of_ge [TransCmp cmp] {l r : List (κ × ν)} {p : κ × ν} {k : κ}
    (hs : Sorted cmp (l ++ p :: r)) (h : cmp k p.1 ≠ .lt) : ∀ a ∈ l, cmp k a.1 = .gt := by
  intro a ha
  have hap := (sorted_append_cons.1 hs).2.2.1 a ha
  apply OrientedCmp.gt_of_lt
  cases hk : cmp k p.1 with
  | lt => exact absurd hk h
  | eq => exact TransCmp.lt_of_lt_of_eq hap (OrientedCmp.eq_symm hk)
  | gt => exact TransCmp.lt_trans hap (OrientedCmp.lt_of_gt hk)

private theorem lt_right_of_le [TransCmp cmp] {l r : List (κ × ν)} {p : κ × ν} {k : κ}
    (hs : Sorted cmp (l ++ p :: r)) (h : cmp k p.1 ≠ .gt) : ∀ b ∈ r, cmp k b.1 = .lt := by
  intro b hb
  have hpb := (sorted_append_cons.1 hs).2.2.2.1 b hb
  cases hk : cmp k p.1 with
  | lt => exact TransCmp.lt_trans hk hpb
  | eq => exact TransCmp.lt_of_eq_of_lt hk hpb
  | gt => exact absurd hk h

theorem insert_mid_lt [TransCmp cmp] {l r : List (κ × ν)} {p : κ × ν} {k : κ} {v : ν}
    (hs : Sorted cmp (l ++ p :: r)) (h : cmp k p.1 = .lt) :
    insert cmp (l ++ p :: r) k v = insert cmp l k v ++ p :: r := by
  have := hs; clear this hs
  induction l with
  | nil => simp [insert, h]
  | cons a l ih =>
    simp only [List.cons_append, insert]
    cases cmp k a.1 <;> simp [ih]

theorem insert_mid_gt [TransCmp cmp] {l r : List (κ × ν)} {p : κ × ν} {k : κ} {v : ν}
    (hs : Sorted cmp (l ++ p :: r)) (h : cmp k p.1 = .gt) :
    insert cmp (l ++ p :: r) k v = l ++ p :: insert cmp r k v := by
  rw [insert_append_of_gt (gt_left_of_ge hs (by simp [h]))]
  simp [insert, h]

theorem insert_mid_eq [TransCmp cmp] {l r : List (κ × ν)} {p : κ × ν} {k : κ} {v : ν}
    (hs : Sorted cmp (l ++ p :: r)) (h : cmp k p.1 = .eq) :
    insert cmp (l ++ p :: r) k v = l ++ (k, v) :: r := by
  rw [insert_append_of_gt (gt_left_of_ge hs (by simp [h]))]
  simp [insert, h]

theorem erase_mid_lt [TransCmp cmp] {l r : List (κ × ν)} {p : κ × ν} {k : κ}
    (hs : Sorted cmp (l ++ p :: r)) (h : cmp k p.1 = .lt) :
    erase cmp (l ++ p :: r) k = erase cmp l k ++ p :: r := by
  have := hs; clear this hs
  induction l with
  | nil => simp [erase, h]
  | cons a l ih =>
    simp only [List.cons_append, erase]
    cases cmp k a.1 <;> simp [ih]

theorem erase_mid_gt [TransCmp cmp] {l r : List (κ × ν)} {p : κ × ν} {k : κ}
    (hs : Sorted cmp (l ++ p :: r)) (h : cmp k p.1 = .gt) :
    erase cmp (l ++ p :: r) k = l ++ p :: erase cmp r k := by
  rw [erase_append_of_gt (gt_left_of_ge hs (by simp [h]))]
  simp [erase, h]

theorem erase_mid_eq [TransCmp cmp] {l r : List (κ × ν)} {p : κ × ν} {k : κ}
    (hs : Sorted cmp (l ++ p :: r)) (h : cmp k p.1 = .eq) :
    erase cmp (l ++ p :: r) k = l ++ r := by
  rw [erase_append_of_gt (gt_left_of_ge hs (by simp [h]))]
  simp [erase, h]

theorem find_mid_lt [TransCmp cmp] {l r : List (κ × ν)} {p : κ × ν} {k : κ}
    (hs : Sorted cmp (l ++ p :: r)) (h : cmp k p.1 = .lt) :
    find cmp (l ++ p :: r) k = find cmp l k := by
  have hr : find cmp (p :: r) k = none :=
    find_eq_none_of_lt (by
      intro b hb
      rcases List.mem_cons.1 hb with rfl | hb
      · exact h
      · exact lt_right_of_le hs (by simp [h]) b hb)
  simp only [find] at hr ⊢
  rw [List.find?_append, hr]
  simp

theorem find_mid_gt [TransCmp cmp] {l r : List (κ × ν)} {p : κ × ν} {k : κ}
    (hs : Sorted cmp (l ++ p :: r)) (h : cmp k p.1 = .gt) :
    find cmp (l ++ p :: r) k = find cmp r k := by
  rw [find_append_of_gt (gt_left_of_ge hs (by simp [h]))]
  simp [find, h]

theorem find_mid_eq [TransCmp cmp] {l r : List (κ × ν)} {p : κ × ν} {k : κ}
    (hs : Sorted cmp (l ++ p :: r)) (h : cmp k p.1 = .eq) :
    find cmp (l ++ p :: r) k = some p := by
  rw [find_append_of_gt (gt_left_of_ge hs (by simp [h]))]
  simp [find, h]

private theorem mem_insert {l : List (κ × ν)} {k : κ} {v : ν} {b : κ × ν}
    (hb : b ∈ insert cmp l k v) : b = (k, v) ∨ b ∈ l := by
  induction l with
  | nil => simp [insert] at hb; simp [hb]
  | cons a l ih =>
    simp only [insert] at hb
    cases hk : cmp k a.1 <;> simp only [hk, List.mem_cons] at hb ⊢
    · rcases hb with hb | hb | hb <;> simp [hb]
    · rcases hb with hb | hb <;> simp [hb]
    · rcases hb with hb | hb
      · simp [hb]
      · rcases ih hb with h | h <;> simp [h]

private theorem mem_erase {l : List (κ × ν)} {k : κ} {b : κ × ν}
    (hb : b ∈ erase cmp l k) : b ∈ l := by
  induction l with
  | nil => simp [erase] at hb
  | cons a l ih =>
    simp only [erase] at hb
    cases hk : cmp k a.1 <;> simp only [hk, List.mem_cons] at hb ⊢
    · exact hb
    · exact Or.inr hb
    · rcases hb with hb | hb
      · exact Or.inl hb
      · exact Or.inr (ih hb)

theorem sorted_insert [TransCmp cmp] {l : List (κ × ν)} (hs : Sorted cmp l) (k : κ) (v : ν) :
    Sorted cmp (insert cmp l k v) := by
  induction l with
  | nil => simp [insert, Sorted]
  | cons a l ih =>
    have hs' := hs
    simp only [Sorted, List.pairwise_cons] at hs'
    obtain ⟨ha, hl⟩ := hs'
    simp only [insert]
    cases hk : cmp k a.1 with
    | lt =>
      simp only [Sorted, List.pairwise_cons]
      refine ⟨?_, ha, hl⟩
      intro b hb
      rcases List.mem_cons.1 hb with rfl | hb
      · exact hk
      · exact TransCmp.lt_trans hk (ha b hb)
    | eq =>
      simp only [Sorted, List.pairwise_cons]
      exact ⟨fun b hb => TransCmp.lt_of_eq_of_lt hk (ha b hb), hl⟩
    | gt =>
      simp only [Sorted, List.pairwise_cons]
      refine ⟨?_, ih hl⟩
      intro b hb
      rcases mem_insert hb with rfl | hb
      · exact OrientedCmp.lt_of_gt hk
      · exact ha b hb

theorem sorted_erase [TransCmp cmp] {l : List (κ × ν)} (hs : Sorted cmp l) (k : κ) :
    Sorted cmp (erase cmp l k) := by
  induction l with
  | nil => simp [erase, Sorted]
  | cons a l ih =>
    have hs' := hs
    simp only [Sorted, List.pairwise_cons] at hs'
    obtain ⟨ha, hl⟩ := hs'
    simp only [erase]
    cases hk : cmp k a.1 with
    | lt => exact hs
    | eq => exact hl
    | gt =>
      simp only [Sorted, List.pairwise_cons]
      exact ⟨fun b hb => ha b (mem_erase hb), ih hl⟩

private theorem find_cons_of_le [TransCmp cmp] {a : κ × ν} {l : List (κ × ν)} {k : κ}
    (hs : Sorted cmp (a :: l)) (h : cmp k a.1 = .lt) : find cmp (a :: l) k = none := by
  apply find_eq_none_of_lt
  intro b hb
  simp only [Sorted, List.pairwise_cons] at hs
  rcases List.mem_cons.1 hb with rfl | hb
  · exact h
  · exact TransCmp.lt_trans h (hs.1 b hb)

private theorem find_cons_eq {a : κ × ν} {l : List (κ × ν)} {k : κ}
    (h : cmp k a.1 = .eq) : find cmp (a :: l) k = some a := by
  simp [find, h]

private theorem find_cons_gt {a : κ × ν} {l : List (κ × ν)} {k : κ}
    (h : cmp k a.1 = .gt) : find cmp (a :: l) k = find cmp l k := by
  simp [find, h]

/-- the length bookkeeping behind `nnodes` -/
theorem length_insert [TransCmp cmp] {l : List (κ × ν)} (hs : Sorted cmp l) (k : κ) (v : ν) :
    (insert cmp l k v).length = if (find cmp l k).isNone then l.length + 1 else l.length := by
  induction l with
  | nil => simp [insert, find]
  | cons a l ih =>
    have hl : Sorted cmp l := by
      simp only [Sorted, List.pairwise_cons] at hs; exact hs.2
    cases hk : cmp k a.1 with
    | lt => simp [insert, hk, find_cons_of_le hs hk]
    | eq => simp [insert, hk, find_cons_eq hk]
    | gt =>
      simp only [insert, hk, find_cons_gt hk, List.length_cons, ih hl]
      split <;> rfl

theorem length_erase [TransCmp cmp] {l : List (κ × ν)} (hs : Sorted cmp l) (k : κ) :
    (erase cmp l k).length + (if (find cmp l k).isSome then 1 else 0) = l.length := by
  induction l with
  | nil => simp [erase, find]
  | cons a l ih =>
    have hl : Sorted cmp l := by
      simp only [Sorted, List.pairwise_cons] at hs; exact hs.2
    cases hk : cmp k a.1 with
    | lt => simp [erase, hk, find_cons_of_le hs hk]
    | eq => simp [erase, hk, find_cons_eq hk]
    | gt =>
      simp only [erase, hk, find_cons_gt hk, List.length_cons]
      have := ih hl
      omega

/-- multiset bookkeeping behind "destroyed exactly once" -/
theorem perm_insert [TransCmp cmp] {l : List (κ × ν)} (hs : Sorted cmp l) (k : κ) (v : ν) :
    ((find cmp l k).toList ++ insert cmp l k v).Perm ((k, v) :: l) := by
  induction l with
  | nil => simp [insert, find]
  | cons a l ih =>
    have hl : Sorted cmp l := by
      simp only [Sorted, List.pairwise_cons] at hs; exact hs.2
    cases hk : cmp k a.1 with
    | lt => simp [insert, hk, find_cons_of_le hs hk]
    | eq =>
      simp only [insert, hk, find_cons_eq hk, Option.toList_some, List.singleton_append]
      exact List.Perm.swap _ _ _
    | gt =>
      simp only [insert, hk, find_cons_gt hk]
      exact (List.perm_middle.trans ((ih hl).cons a)).trans (List.Perm.swap _ _ _)

theorem perm_erase [TransCmp cmp] {l : List (κ × ν)} (hs : Sorted cmp l) (k : κ) :
    ((find cmp l k).toList ++ erase cmp l k).Perm l := by
  induction l with
  | nil => simp [erase, find]
  | cons a l ih =>
    have hl : Sorted cmp l := by
      simp only [Sorted, List.pairwise_cons] at hs; exact hs.2
    cases hk : cmp k a.1 with
    | lt => simp [erase, hk, find_cons_of_le hs hk]
    | eq => simp [erase, hk, find_cons_eq hk]
    | gt =>
      simp only [erase, hk, find_cons_gt hk]
      exact List.perm_middle.trans ((ih hl).cons a)

end PV.SM

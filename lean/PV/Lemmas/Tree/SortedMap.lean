import PV.Lemmas.Tree.Defs
/-! List-level facts about the sorted-association-list spec, shared by the three tree variants. -/
namespace PV.SM
open Std

variable {κ ν : Type} {cmp : κ → κ → Ordering}

theorem sorted_append_cons {l r : List (κ × ν)} {p : κ × ν} :
    Sorted cmp (l ++ p :: r) ↔
      Sorted cmp l ∧ Sorted cmp r ∧ (∀ a ∈ l, cmp a.1 p.1 = .lt) ∧ (∀ b ∈ r, cmp p.1 b.1 = .lt) ∧
      (∀ a ∈ l, ∀ b ∈ r, cmp a.1 b.1 = .lt) := by
  sorry

theorem insert_mid_lt [TransCmp cmp] {l r : List (κ × ν)} {p : κ × ν} {k : κ} {v : ν}
    (hs : Sorted cmp (l ++ p :: r)) (h : cmp k p.1 = .lt) :
    insert cmp (l ++ p :: r) k v = insert cmp l k v ++ p :: r := by
  sorry

theorem insert_mid_gt [TransCmp cmp] {l r : List (κ × ν)} {p : κ × ν} {k : κ} {v : ν}
    (hs : Sorted cmp (l ++ p :: r)) (h : cmp k p.1 = .gt) :
    insert cmp (l ++ p :: r) k v = l ++ p :: insert cmp r k v := by
  sorry

theorem insert_mid_eq [TransCmp cmp] {l r : List (κ × ν)} {p : κ × ν} {k : κ} {v : ν}
    (hs : Sorted cmp (l ++ p :: r)) (h : cmp k p.1 = .eq) :
    insert cmp (l ++ p :: r) k v = l ++ (k, v) :: r := by
  sorry

theorem erase_mid_lt [TransCmp cmp] {l r : List (κ × ν)} {p : κ × ν} {k : κ}
    (hs : Sorted cmp (l ++ p :: r)) (h : cmp k p.1 = .lt) :
    erase cmp (l ++ p :: r) k = erase cmp l k ++ p :: r := by
  sorry

theorem erase_mid_gt [TransCmp cmp] {l r : List (κ × ν)} {p : κ × ν} {k : κ}
    (hs : Sorted cmp (l ++ p :: r)) (h : cmp k p.1 = .gt) :
    erase cmp (l ++ p :: r) k = l ++ p :: erase cmp r k := by
  sorry

theorem erase_mid_eq [TransCmp cmp] {l r : List (κ × ν)} {p : κ × ν} {k : κ}
    (hs : Sorted cmp (l ++ p :: r)) (h : cmp k p.1 = .eq) :
    erase cmp (l ++ p :: r) k = l ++ r := by
  sorry

theorem find_mid_lt [TransCmp cmp] {l r : List (κ × ν)} {p : κ × ν} {k : κ}
    (hs : Sorted cmp (l ++ p :: r)) (h : cmp k p.1 = .lt) :
    find cmp (l ++ p :: r) k = find cmp l k := by
  sorry

theorem find_mid_gt [TransCmp cmp] {l r : List (κ × ν)} {p : κ × ν} {k : κ}
    (hs : Sorted cmp (l ++ p :: r)) (h : cmp k p.1 = .gt) :
    find cmp (l ++ p :: r) k = find cmp r k := by
  sorry

theorem find_mid_eq [TransCmp cmp] {l r : List (κ × ν)} {p : κ × ν} {k : κ}
    (hs : Sorted cmp (l ++ p :: r)) (h : cmp k p.1 = .eq) :
    find cmp (l ++ p :: r) k = some p := by
  sorry

theorem sorted_insert [TransCmp cmp] {l : List (κ × ν)} (hs : Sorted cmp l) (k : κ) (v : ν) :
    Sorted cmp (insert cmp l k v) := by
  sorry

theorem sorted_erase [TransCmp cmp] {l : List (κ × ν)} (hs : Sorted cmp l) (k : κ) :
    Sorted cmp (erase cmp l k) := by
  sorry

/-- the length bookkeeping behind `nnodes` -/
theorem length_insert [TransCmp cmp] {l : List (κ × ν)} (hs : Sorted cmp l) (k : κ) (v : ν) :
    (insert cmp l k v).length = if (find cmp l k).isNone then l.length + 1 else l.length := by
  sorry

theorem length_erase [TransCmp cmp] {l : List (κ × ν)} (hs : Sorted cmp l) (k : κ) :
    (erase cmp l k).length + (if (find cmp l k).isSome then 1 else 0) = l.length := by
  sorry

/-- multiset bookkeeping behind "destroyed exactly once" -/
theorem perm_insert [TransCmp cmp] {l : List (κ × ν)} (hs : Sorted cmp l) (k : κ) (v : ν) :
    ((find cmp l k).toList ++ insert cmp l k v).Perm ((k, v) :: l) := by
  sorry

theorem perm_erase [TransCmp cmp] {l : List (κ × ν)} (hs : Sorted cmp l) (k : κ) :
    ((find cmp l k).toList ++ erase cmp l k).Perm l := by
  sorry

end PV.SM

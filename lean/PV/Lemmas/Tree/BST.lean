import PV.Lemmas.Tree.SortedMap
/-! Plain BST (and the shape-level functions shared by all variants) refine the sorted list. -/
namespace PV.Tree
open Std

variable {κ ν : Type} {cmp : κ → κ → Ordering}

theorem BT.lookup_refines [TransCmp cmp] (t : BT κ ν) (ho : t.Ordered cmp) (k : κ) :
    t.lookup cmp k = SM.lookup cmp t.toList k := by
  sorry

/-- number of comparisons of a lookup ≤ height -/
theorem BT.lookupPath_le_height (t : BT κ ν) (k : κ) : (t.lookupPath cmp k).length ≤ t.height := by
  sorry

theorem BT.ins_refines [TransCmp cmp] (t : BT κ ν) (ho : t.Ordered cmp) (k : κ) (v : ν) :
    (t.ins cmp k v).1.toList = SM.insert cmp t.toList k v ∧
    (t.ins cmp k v).2.1 = (SM.find cmp t.toList k).isNone ∧
    (t.ins cmp k v).2.2 = (SM.find cmp t.toList k).toList := by
  sorry

theorem BT.del_refines [TransCmp cmp] (t : BT κ ν) (ho : t.Ordered cmp) (k : κ) :
    (t.del cmp k).1.toList = SM.erase cmp t.toList k ∧
    (t.del cmp k).2.1 = (SM.find cmp t.toList k).isSome ∧
    (t.del cmp k).2.2 = (SM.find cmp t.toList k).toList := by
  sorry

/-- invariant of `bstRun` from any related pair of states -/
theorem bstRun_refines [TransCmp cmp] (ops : List (Op κ ν)) (t : BT κ ν) (n : Int) (l : List (κ × ν))
    (ho : t.Ordered cmp) (hl : t.toList = l) (hn : n = l.length) :
    (bstRun cmp (t, n) ops).2 = (specRun cmp l ops).2 ∧
    (bstRun cmp (t, n) ops).1.1.toList = (specRun cmp l ops).1 := by
  sorry

end PV.Tree

import PV.Lemmas.Tree.SortedMap
/-! Plain BST (and the shape-level functions shared by all variants) refine the sorted list. -/
namespace PV.Tree
open Std

variable {κ ν : Type} {cmp : κ → κ → Ordering}

/-- order of a node: both subtrees are ordered (the bound facts stay in `SM.sorted_append_cons`) -/
theorem BT.Ordered.node_left {l r : BT κ ν} {k : κ} {v : ν}
    (ho : (BT.node l k v r).Ordered cmp) : l.Ordered cmp :=
  (SM.sorted_append_cons.1 ho).1

theorem BT.Ordered.node_right {l r : BT κ ν} {k : κ} {v : ν}
    (ho : (BT.node l k v r).Ordered cmp) : r.Ordered cmp :=
  (SM.sorted_append_cons.1 ho).2.1

/-- unlinking the right-most node keeps the in-order listing -/
theorem BT.delMax_toList (l : BT κ ν) (k : κ) (v : ν) (r : BT κ ν) :
    (BT.delMax l k v r).1.toList ++ [(BT.delMax l k v r).2] = (BT.node l k v r).toList := by
  induction r generalizing l k v with
  | nil => simp [BT.delMax, BT.toList]
  | node rl rk rv rr _ ih =>
    have := ih rl rk rv
    simp only [BT.delMax, BT.toList, List.append_assoc, List.cons_append] at this ⊢
    rw [this]

theorem BT.lookup_refines [TransCmp cmp] (t : BT κ ν) (ho : t.Ordered cmp) (k : κ) :
    t.lookup cmp k = SM.lookup cmp t.toList k := by
  induction t with
  | nil => simp [BT.lookup, BT.toList, SM.lookup, SM.find]
  | node l x v r ihl ihr =>
    have hs : SM.Sorted cmp (l.toList ++ (x, v) :: r.toList) := ho
    simp only [BT.lookup, BT.toList, SM.lookup]
    cases h : cmp k x with
    | lt => rw [SM.find_mid_lt hs h]; exact ihl ho.node_left
    | gt => rw [SM.find_mid_gt hs h]; exact ihr ho.node_right
    | eq => rw [SM.find_mid_eq hs h]; rfl

/-- number of comparisons of a lookup ≤ height -/
theorem BT.lookupPath_le_height (t : BT κ ν) (k : κ) : (t.lookupPath cmp k).length ≤ t.height := by
  induction t with
  | nil => simp [BT.lookupPath, BT.height]
  | node l x v r ihl ihr =>
    simp only [BT.lookupPath, BT.height]
    cases cmp k x <;> simp only [List.length_cons, List.length_nil] <;> omega

theorem BT.ins_refines [TransCmp cmp] (t : BT κ ν) (ho : t.Ordered cmp) (k : κ) (v : ν) :
    (t.ins cmp k v).1.toList = SM.insert cmp t.toList k v ∧
    (t.ins cmp k v).2.1 = (SM.find cmp t.toList k).isNone ∧
    (t.ins cmp k v).2.2 = (SM.find cmp t.toList k).toList := by
  induction t with
  | nil => simp [BT.ins, BT.toList, SM.insert, SM.find]
  | node l x y r ihl ihr =>
    have hs : SM.Sorted cmp (l.toList ++ (x, y) :: r.toList) := ho
    simp only [BT.ins, BT.toList]
    cases h : cmp k x with
    | lt =>
      obtain ⟨h1, h2, h3⟩ := ihl ho.node_left
      simp only [SM.insert_mid_lt hs h, SM.find_mid_lt hs h, BT.toList, h1, h2, h3, and_self]
    | gt =>
      obtain ⟨h1, h2, h3⟩ := ihr ho.node_right
      simp only [SM.insert_mid_gt hs h, SM.find_mid_gt hs h, BT.toList, h1, h2, h3, and_self]
    | eq =>
      simp [SM.insert_mid_eq hs h, SM.find_mid_eq hs h, BT.toList]

theorem BT.del_refines [TransCmp cmp] (t : BT κ ν) (ho : t.Ordered cmp) (k : κ) :
    (t.del cmp k).1.toList = SM.erase cmp t.toList k ∧
    (t.del cmp k).2.1 = (SM.find cmp t.toList k).isSome ∧
    (t.del cmp k).2.2 = (SM.find cmp t.toList k).toList := by
  induction t with
  | nil => simp [BT.del, BT.toList, SM.erase, SM.find]
  | node l x y r ihl ihr =>
    have hs : SM.Sorted cmp (l.toList ++ (x, y) :: r.toList) := ho
    cases h : cmp k x with
    | lt =>
      obtain ⟨h1, h2, h3⟩ := ihl ho.node_left
      simp only [BT.del, h, SM.erase_mid_lt hs h, SM.find_mid_lt hs h, BT.toList, h1, h2, h3, and_self]
    | gt =>
      obtain ⟨h1, h2, h3⟩ := ihr ho.node_right
      simp only [BT.del, h, SM.erase_mid_gt hs h, SM.find_mid_gt hs h, BT.toList, h1, h2, h3, and_self]
    | eq =>
      simp only [BT.toList, SM.erase_mid_eq hs h, SM.find_mid_eq hs h]
      cases l with
      | nil => simp [BT.del, h, BT.toList]
      | node ll lk lv lr =>
        cases r with
        | nil => simp [BT.del, h, BT.toList]
        | node rl rk rv rr =>
          have := BT.delMax_toList ll lk lv lr
          simp only [BT.toList] at this
          simp [BT.del, h, BT.toList, ← this]

/-- the search loop finds a node exactly when the map has the key -/
theorem BT.lookup_isSome [TransCmp cmp] (t : BT κ ν) (ho : t.Ordered cmp) (k : κ) :
    (t.lookup cmp k).isSome = (SM.find cmp t.toList k).isSome := by
  rw [BT.lookup_refines t ho k, SM.lookup, Option.isSome_map]

/-- the `ins` step alone (used twice: `p_tree_insert`, and the replace path of an insert under allocation failure) -/
theorem bstStep_refines_ins [TransCmp cmp] (k : κ) (v : ν) (t : BT κ ν) (n : Int)
    (ho : t.Ordered cmp) (hn : n = t.toList.length) :
    (bstStep cmp (t, n) (.ins k v)).2 = (specStep cmp t.toList (.ins k v)).2 ∧
    (bstStep cmp (t, n) (.ins k v)).1.1.Ordered cmp ∧
    (bstStep cmp (t, n) (.ins k v)).1.1.toList = (specStep cmp t.toList (.ins k v)).1 ∧
    (bstStep cmp (t, n) (.ins k v)).1.2 = ((specStep cmp t.toList (.ins k v)).1.length : Int) := by
  have hs : SM.Sorted cmp t.toList := ho
  obtain ⟨h1, h2, h3⟩ := BT.ins_refines t ho k v
  have hlen := SM.length_insert hs k v
  have hn' : (if (t.ins cmp k v).2.1 = true then n + 1 else n) = ((SM.insert cmp t.toList k v).length : Int) := by
    rw [h2, hlen, hn]
    split <;> simp
  refine ⟨?_, ?_, ?_, ?_⟩
  · simp only [bstStep, specStep, hn', h3]
  · show SM.Sorted cmp (t.ins cmp k v).1.toList
    rw [h1]; exact SM.sorted_insert hs k v
  · exact h1
  · exact hn'

/-- one public call: outputs agree and the relation between the states is kept -/
theorem bstStep_refines [TransCmp cmp] (op : Op κ ν) (t : BT κ ν) (n : Int) (l : List (κ × ν))
    (ho : t.Ordered cmp) (hl : t.toList = l) (hn : n = l.length) :
    (bstStep cmp (t, n) op).2 = (specStep cmp l op).2 ∧
    (bstStep cmp (t, n) op).1.1.Ordered cmp ∧
    (bstStep cmp (t, n) op).1.1.toList = (specStep cmp l op).1 ∧
    (bstStep cmp (t, n) op).1.2 = ((specStep cmp l op).1.length : Int) := by
  subst hl
  have hs : SM.Sorted cmp t.toList := ho
  cases op with
  | ins k v => exact bstStep_refines_ins k v t n ho hn
  | insf k v =>
    have hp := BT.lookup_isSome t ho k
    by_cases hf : (SM.find cmp t.toList k).isSome = true
    · have e1 : bstStep cmp (t, n) (.insf k v) = bstStep cmp (t, n) (.ins k v) := by
        simp only [bstStep, hp, hf, if_true]
      have e2 : specStep cmp t.toList (.insf k v) = specStep cmp t.toList (.ins k v) := by
        simp only [specStep, hf, if_true]
      rw [e1, e2]
      exact bstStep_refines_ins k v t n ho hn
    · have e1 : bstStep cmp (t, n) (.insf k v) = ((t, n), .ins n []) := by
        simp only [bstStep, hp, hf]; rfl
      have e2 : specStep cmp t.toList (.insf k v) = (t.toList, .ins t.toList.length []) := by
        simp only [specStep, hf]; rfl
      rw [e1, e2]
      exact ⟨by simp [hn], ho, rfl, hn⟩
  | rem k =>
    obtain ⟨h1, h2, h3⟩ := BT.del_refines t ho k
    have hlen := SM.length_erase hs k
    have hn' : (if (t.del cmp k).2.1 = true then n - 1 else n) = ((SM.erase cmp t.toList k).length : Int) := by
      rw [h2, hn]
      split at hlen <;> simp_all <;> omega
    refine ⟨?_, ?_, ?_, ?_⟩
    · rw [h2] at hn'
      simp only [bstStep, specStep, hn', h3, h2]
    · show SM.Sorted cmp (t.del cmp k).1.toList
      rw [h1]; exact SM.sorted_erase hs k
    · exact h1
    · exact hn'
  | get k => exact ⟨by simp [bstStep, specStep, BT.lookup_refines t ho k], ho, rfl, hn⟩
  | each j => exact ⟨by simp [bstStep, specStep, BT.foreachStop], ho, rfl, hn⟩
  | clear =>
    refine ⟨by simp [bstStep, specStep, hn], ?_, rfl, by simp [bstStep, specStep, hn]⟩
    simp [bstStep, BT.Ordered, BT.toList, SM.Sorted]
  | count => exact ⟨by simp [bstStep, specStep, hn], ho, rfl, hn⟩

/-- invariant of `bstRun` from any related pair of states -/
theorem bstRun_refines [TransCmp cmp] (ops : List (Op κ ν)) (t : BT κ ν) (n : Int) (l : List (κ × ν))
    (ho : t.Ordered cmp) (hl : t.toList = l) (hn : n = l.length) :
    (bstRun cmp (t, n) ops).2 = (specRun cmp l ops).2 ∧
    (bstRun cmp (t, n) ops).1.1.toList = (specRun cmp l ops).1 := by
  induction ops generalizing t n l with
  | nil => exact ⟨rfl, hl⟩
  | cons op ops ih =>
    obtain ⟨h1, h2, h3, h4⟩ := bstStep_refines op t n l ho hl hn
    obtain ⟨i1, i2⟩ := ih (bstStep cmp (t, n) op).1.1 (bstStep cmp (t, n) op).1.2
      (specStep cmp l op).1 h2 h3 h4
    simp only [bstRun, specRun]
    exact ⟨by rw [h1, i1], i2⟩

end PV.Tree

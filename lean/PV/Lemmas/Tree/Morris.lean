import PV.Model.Tree.Morris
/-!
Lemmas for the heap-level model of `p_tree_foreach`: heap algebra, framing of `ReprP`, the inner
walk, the single-iteration rules, and the subtree traversal lemma `trav`.
-/
namespace PV.Tree.Morris
open PV.Tree

variable {κ ν : Type}

/-! ### heap algebra -/

theorem Heap.get_set_ne (h : Heap κ ν) {a b : Nat} (n : Node κ ν) (hab : a ≠ b) :
    (h.set a n).get b = h.get b := by
  simp [Heap.get, Heap.set, List.getElem?_set_ne hab]

theorem Heap.get_set_eq (h : Heap κ ν) {a : Nat} {x : Node κ ν} (n : Node κ ν)
    (hx : h.get a = some x) : (h.set a n).get a = some n := by
  have hlt : a < h.cells.length := by
    by_cases hlt : a < h.cells.length
    · exact hlt
    · simp [Heap.get, List.getElem?_eq_none (Nat.le_of_not_lt hlt)] at hx
  simp [Heap.get, Heap.set, hlt]

theorem Heap.set_set (h : Heap κ ν) (a : Nat) (n n' : Node κ ν) :
    (h.set a n).set a n' = h.set a n' := by
  simp [Heap.set]

theorem Heap.set_get (h : Heap κ ν) {a : Nat} {n : Node κ ν} (hn : h.get a = some n) :
    h.set a n = h := by
  cases h with
  | mk cells =>
    simp only [Heap.get, Heap.set] at *
    congr 1
    apply List.ext_getElem?
    intro i
    by_cases hi : a = i
    · subst hi
      by_cases hlt : a < cells.length
      · simp [hlt] at hn ⊢
        exact hn.symm
      · simp [List.getElem?_eq_none (Nat.le_of_not_lt hlt)] at hn
    · simp [List.getElem?_set_ne hi]

/-! ### the callback log -/

/-- the callback offered a list of pairs in order -/
def visitL (j : Nat) (lg : Log κ ν) (xs : List (κ × ν)) : Log κ ν :=
  xs.foldl (fun lg p => callback j lg p.1 p.2) lg

@[simp] theorem visitL_nil (j : Nat) (lg : Log κ ν) : visitL j lg [] = lg := rfl

@[simp] theorem visitL_cons (j : Nat) (lg : Log κ ν) (k : κ) (v : ν) (xs : List (κ × ν)) :
    visitL j lg ((k, v) :: xs) = visitL j (callback j lg k v) xs := rfl

theorem visitL_append (j : Nat) (lg : Log κ ν) (xs ys : List (κ × ν)) :
    visitL j lg (xs ++ ys) = visitL j (visitL j lg xs) ys := by
  simp [visitL, List.foldl_append]

theorem visitL_stopped (j : Nat) (lg : Log κ ν) (hs : lg.needStop = true) (xs : List (κ × ν)) :
    visitL j lg xs = lg := by
  induction xs with
  | nil => rfl
  | cons x xs ih =>
    obtain ⟨k, v⟩ := x
    simp [callback, hs, ih]

theorem visitL_visited (j : Nat) (lg : Log κ ν) (xs : List (κ × ν))
    (hs : lg.needStop = false) (hc : lg.calls = lg.visited.length) (hj : j = 0 ∨ lg.calls < j) :
    (visitL j lg xs).visited =
      lg.visited ++ (if j = 0 then xs else xs.take (j - lg.calls)) ∧
    (visitL j lg xs).calls = (if j = 0 then lg.calls + xs.length else min j (lg.calls + xs.length)) := by
  induction xs generalizing lg with
  | nil => simp; omega
  | cons x xs ih =>
    obtain ⟨k, v⟩ := x
    rw [visitL_cons]
    by_cases hstop : lg.calls + 1 = j
    · have hcb : (callback j lg k v).needStop = true := by simp [callback, hs, hstop]
      rw [visitL_stopped j _ hcb]
      have hj0 : j ≠ 0 := by omega
      have h1 : j - lg.calls = 1 := by omega
      simp [callback, hs, hj0, h1]
      omega
    · have hcb : (callback j lg k v).needStop = false := by simp [callback, hs, hstop]
      have := ih (callback j lg k v) hcb (by simp [callback, hs, hc]) (by simp [callback, hs]; omega)
      rw [this.1, this.2]
      by_cases hj0 : j = 0
      · simp [callback, hs, hj0]; omega
      · have h1 : j - lg.calls = (j - (lg.calls + 1)) + 1 := by omega
        simp [callback, hs, hj0, h1]
        omega

/-- started from the empty log the callback sees `foreachStop` -/
theorem visitL_init (j : Nat) (xs : List (κ × ν)) :
    (visitL j ⟨false, [], 0⟩ xs).visited = if j = 0 then xs else xs.take j := by
  have := (visitL_visited j (⟨false, [], 0⟩ : Log κ ν) xs rfl rfl (by simp; omega)).1
  simpa using this

/-! ### `PT` facts -/

theorem PT.erase_size (t : PT κ ν) : t.erase.size = t.size := by
  induction t with
  | nil => rfl
  | node a l k v r ihl ihr => simp [PT.erase, BT.size, PT.size, ihl, ihr]

theorem PT.iters_le (t : PT κ ν) : t.iters ≤ 2 * t.size := by
  induction t with
  | nil => simp [PT.iters]
  | node a l k v r ihl ihr =>
    cases l with
    | nil => simp [PT.iters, PT.size]; omega
    | node b ll lk lv lr => simp only [PT.iters, PT.size] at *; omega

theorem PT.rmost_mem (a : Nat) (l : PT κ ν) (k : κ) (v : ν) (r : PT κ ν) :
    PT.rmost a r ∈ (PT.node a l k v r).addrs := by
  induction r generalizing a l k v with
  | nil => simp [PT.rmost, PT.addrs]
  | node b rl rk rv rr _ ih =>
    have := ih b rl rk rv
    simp only [PT.rmost, PT.addrs] at this ⊢
    simp only [List.mem_append, List.mem_cons] at this ⊢
    rcases this with h | h | h
    · exact Or.inr (Or.inr (Or.inl h))
    · exact Or.inr (Or.inr (Or.inr (Or.inl h)))
    · exact Or.inr (Or.inr (Or.inr (Or.inr h)))

/-! ### framing -/

/-- `ReprP` only looks at the cells of the tree -/
theorem ReprP.congr {h h' : Heap κ ν} {p : Option Nat} {t : PT κ ν} {ret : Option Nat}
    (hr : ReprP h p t ret) (hag : ∀ x ∈ t.addrs, h'.get x = h.get x) : ReprP h' p t ret := by
  induction t generalizing p ret with
  | nil => exact hr
  | node a l k v r ihl ihr =>
    obtain ⟨hp, n, hn, hk, hv, hl, hrr⟩ := hr
    refine ⟨hp, n, ?_, hk, hv, ihl hl ?_, ihr hrr ?_⟩
    · rw [hag a (by simp [PT.addrs])]; exact hn
    · intro x hx; exact hag x (by simp [PT.addrs, hx])
    · intro x hx; exact hag x (by simp [PT.addrs, hx])

/-- the right-most node of a non-empty tree holds `ret` in its `right` field, and overwriting that
    field changes `ret` and nothing else -/
theorem ReprP.rmost {h : Heap κ ν} {a : Nat} {l : PT κ ν} {k : κ} {v : ν} {r : PT κ ν}
    {ret : Option Nat}
    (hr : ReprP h (some a) (.node a l k v r) ret) (hnd : (PT.node a l k v r).addrs.Nodup) :
    ∃ nq, h.get (PT.rmost a r) = some nq ∧ nq.right = ret ∧
      ∀ ret', ReprP (h.set (PT.rmost a r) { nq with right := ret' }) (some a) (.node a l k v r) ret' := by
  induction r generalizing a l k v with
  | nil =>
    obtain ⟨_, n, hn, hk, hv, hl, hrr⟩ := hr
    simp only [ReprP] at hrr
    refine ⟨n, hn, hrr, fun ret' => ⟨rfl, { n with right := ret' }, ?_, hk, hv, ?_, ?_⟩⟩
    · exact Heap.get_set_eq _ _ hn
    · apply hl.congr
      intro x hx
      apply Heap.get_set_ne
      simp only [PT.addrs, PT.rmost] at hnd ⊢
      intro hax; subst hax
      simp [List.nodup_append] at hnd
      exact hnd.2 a hx rfl
    · simp [ReprP]
  | node b rl rk rv rr _ ih =>
    obtain ⟨_, n, hn, hk, hv, hl, hrr⟩ := hr
    have hrb : n.right = some b := hrr.1
    rw [hrb] at hrr
    have hndr : (PT.node b rl rk rv rr).addrs.Nodup := by
      simp only [PT.addrs] at hnd ⊢
      rw [List.nodup_append] at hnd
      exact (List.nodup_cons.1 hnd.2.1).2
    obtain ⟨nq, hq, hqr, hset⟩ := ih hrr hndr
    have hmem := PT.rmost_mem b rl rk rv rr
    refine ⟨nq, hq, hqr, fun ret' => ⟨rfl, n, ?_, hk, hv, ?_, ?_⟩⟩
    · rw [Heap.get_set_ne]; exact hn
      simp only [PT.rmost]
      intro hax
      rw [hax] at hmem
      simp only [PT.addrs] at hnd hmem
      rw [List.nodup_append] at hnd
      exact (List.nodup_cons.1 hnd.2.1).1 hmem
    · apply hl.congr
      intro x hx
      apply Heap.get_set_ne
      simp only [PT.rmost]
      intro hax
      rw [hax] at hmem
      simp only [PT.addrs] at hnd hmem
      rw [List.nodup_append] at hnd
      exact hnd.2.2 x hx x (List.mem_cons_of_mem _ hmem) rfl
    · rw [hrb]; exact hset ret'

/-! ### the inner walk -/

theorem walk_rmost {h : Heap κ ν} {c b : Nat} {l : PT κ ν} {k : κ} {v : ν} {r : PT κ ν}
    {ret : Option Nat} (hr : ReprP h (some b) (.node b l k v r) ret)
    (hc : c ∉ r.addrs) (hret : ret = none ∨ ret = some c) (wf : Nat)
    (hwf : (PT.node b l k v r).size ≤ wf) :
    walk h c wf b = .done (PT.rmost b r) := by
  induction r generalizing b l k v wf with
  | nil =>
    obtain ⟨_, n, hn, _, _, _, hrr⟩ := hr
    simp only [ReprP] at hrr
    obtain ⟨wf, rfl⟩ : ∃ w, wf = w + 1 := ⟨wf - 1, by simp [PT.size] at hwf; omega⟩
    rcases hret with hret | hret <;> simp [walk, hn, hrr, hret, PT.rmost]
  | node b' rl rk rv rr _ ih =>
    obtain ⟨_, n, hn, _, _, _, hrr⟩ := hr
    have hrb : n.right = some b' := hrr.1
    rw [hrb] at hrr
    obtain ⟨wf, rfl⟩ : ∃ w, wf = w + 1 := ⟨wf - 1, by simp [PT.size] at hwf; omega⟩
    have hne : b' ≠ c := by
      intro hbc; apply hc; simp [PT.addrs, hbc]
    have := ih hrr (by intro hm; apply hc; simp [PT.addrs, hm]) wf
      (by simp only [PT.size] at hwf ⊢; omega)
    simp [walk, hn, hrb, hne, PT.rmost, this]

/-! ### one iteration of the outer loop -/

theorem loop_succ (j wf f : Nat) (s : St κ ν) :
    loop j wf (f + 1) s =
      match body j wf s with
      | .done (.next s') => loop j wf f s'
      | .done (.ret s') => .done s'
      | .fault => .fault
      | .timeout => .timeout := rfl

/-- node without left child: visit, go right -/
theorem body_noleft {j wf : Nat} {s : St κ ν} {a : Nat} {n : Node κ ν}
    (hc : s.cur = some a) (hn : s.heap.get a = some n) (hl : n.left = none) :
    body j wf s = .done (.next { s with log := callback j s.log n.key n.val, cur := n.right }) := by
  simp [body, hc, hn, hl]

/-- first arrival at a node with a left child: thread, go left -/
theorem body_thread {j wf : Nat} {s : St κ ν} {a b q : Nat} {n nq : Node κ ν}
    (hc : s.cur = some a) (hn : s.heap.get a = some n) (hl : n.left = some b)
    (hw : walk s.heap a wf b = .done q) (hq : s.heap.get q = some nq) (hqr : nq.right = none) :
    body j wf s = .done (.next { s with
      heap := s.heap.set q { nq with right := some a }, cur := some b,
      modCounter := s.modCounter + 1 }) := by
  simp [body, hc, hn, hl, hw, hq, hqr]

/-- second arrival: visit, go right, unthread, maybe return -/
theorem body_unthread {j wf : Nat} {s : St κ ν} {a b q x : Nat} {n nq : Node κ ν}
    (hc : s.cur = some a) (hn : s.heap.get a = some n) (hl : n.left = some b)
    (hw : walk s.heap a wf b = .done q) (hq : s.heap.get q = some nq) (hqr : nq.right = some x) :
    body j wf s =
      let s' : St κ ν :=
        { heap := s.heap.set q { nq with right := none }, cur := n.right,
          modCounter := s.modCounter - 1, log := callback j s.log n.key n.val }
      if (callback j s.log n.key n.val).needStop && s.modCounter - 1 == 0 then .done (.ret s')
      else .done (.next s') := by
  simp [body, hc, hn, hl, hw, hq, hqr]

/-! ### traversal of a subtree -/

theorem node_right_none_eq {n : Node κ ν} (hr : n.right = none) (x : Option Nat) :
    ({ ({ n with right := x } : Node κ ν) with right := none } : Node κ ν) = n := by
  cases n; simp_all

/-- Started at the root `p` of a subtree `s` whose right end holds `ret` (`NULL`, or a thread to an
    ancestor), with `m ≥ 0` threads outstanding, the loop either

    * after exactly `s.iters` iterations is at `cur_node = ret` with the *same heap*, the same
      `mod_counter`, and the callback has been offered the in-order pairs of `s`; or
    * executes `return` (only possible with `m = 0` and after the stop request), again with the same
      heap and the callback having been offered the pairs of `s` (those after the stop request
      are not passed on: `visitL` ignores them). -/
theorem trav (j wf : Nat) (s : PT κ ν) :
    ∀ (h : Heap κ ν) (p ret : Option Nat) (m : Int) (lg : Log κ ν),
      ReprP h p s ret → s.addrs.Nodup → s.size ≤ wf → 0 ≤ m →
      (∀ f, loop j wf (s.iters + f) ⟨h, p, m, lg⟩ =
            loop j wf f ⟨h, ret, m, visitL j lg s.erase.toList⟩) ∨
      (m = 0 ∧ (visitL j lg s.erase.toList).needStop = true ∧
        ∃ c, ∀ f, loop j wf (s.iters + f) ⟨h, p, m, lg⟩ =
            .done ⟨h, c, 0, visitL j lg s.erase.toList⟩) := by
  induction s with
  | nil =>
    intro h p ret m lg hr _ _ _
    simp only [ReprP] at hr
    subst hr
    left; intro f
    simp [PT.iters, PT.erase, BT.toList]
  | node a l k v r ihl ihr =>
    intro h p ret m lg hr hnd hwf hm
    obtain ⟨rfl, n, hn, rfl, rfl, hl, hrr⟩ := hr
    have hnd' := hnd
    simp only [PT.addrs] at hnd'
    rw [List.nodup_append] at hnd'
    obtain ⟨hndl, hndar, hdisj⟩ := hnd'
    have hndr : r.addrs.Nodup := (List.nodup_cons.1 hndar).2
    have hal : a ∉ l.addrs := fun hx => hdisj a hx a (List.mem_cons_self) rfl
    have hwfr : r.size ≤ wf := by simp only [PT.size] at hwf; omega
    have hwfl : l.size ≤ wf := by simp only [PT.size] at hwf; omega
    simp only [PT.erase, BT.toList, visitL_append, visitL_cons]
    cases l with
    | nil =>
      have hleft : n.left = none := hl
      have step : ∀ f, loop j wf ((PT.node a .nil n.key n.val r).iters + f) ⟨h, some a, m, lg⟩ =
          loop j wf (r.iters + f) ⟨h, n.right, m, callback j lg n.key n.val⟩ := by
        intro f
        rw [show (PT.node a .nil n.key n.val r).iters + f = (r.iters + f) + 1 by
          simp only [PT.iters]; omega, loop_succ, body_noleft rfl hn hleft]
      simp only [PT.erase, BT.toList, visitL_nil]
      rcases ihr h n.right ret m (callback j lg n.key n.val) hrr hndr hwfr hm with
        h1 | ⟨h0, hs, c, h1⟩
      · left; intro f; rw [step, h1]
      · right; exact ⟨h0, hs, c, fun f => by rw [step, h1]⟩
    | node b ll lk lv lr =>
      have hleft : n.left = some b := hl.1
      rw [hleft] at hl
      -- the in-order predecessor `q` of `a`
      obtain ⟨nq, hq, hqr, hset⟩ := hl.rmost hndl
      have hqmem := PT.rmost_mem b ll lk lv lr
      have hqa : PT.rmost b lr ≠ a := fun hx => hal (hx ▸ hqmem)
      have halr : a ∉ lr.addrs := fun hx => hal (by simp [PT.addrs, hx])
      have hw1 : walk h a wf b = .done (PT.rmost b lr) :=
        walk_rmost hl halr (Or.inl rfl) wf hwfl
      -- heap with the thread `q->right = a`
      have hl1 := hset (some a)
      have hw2 : walk (h.set (PT.rmost b lr) { nq with right := some a }) a wf b
          = .done (PT.rmost b lr) :=
        walk_rmost hl1 halr (Or.inr rfl) wf hwfl
      have hn1 : (h.set (PT.rmost b lr) { nq with right := some a }).get a = some n := by
        rw [Heap.get_set_ne _ _ hqa]; exact hn
      have hq1 : (h.set (PT.rmost b lr) { nq with right := some a }).get (PT.rmost b lr)
          = some { nq with right := some a } := Heap.get_set_eq _ _ hq
      have hback : (h.set (PT.rmost b lr) { nq with right := some a }).set (PT.rmost b lr)
          { ({ nq with right := some a } : Node κ ν) with right := none } = h := by
        rw [Heap.set_set, node_right_none_eq hqr, Heap.set_get _ hq]
      have hm1 : (0 : Int) ≤ m + 1 := by omega
      -- iteration 1, then the left subtree
      rcases ihl _ (some b) (some a) (m + 1) lg hl1 hndl hwfl hm1 with h1 | ⟨h0, _⟩
      · have step : ∀ f, loop j wf ((PT.node a (.node b ll lk lv lr) n.key n.val r).iters + f)
              ⟨h, some a, m, lg⟩ =
            if (callback j (visitL j lg (PT.node b ll lk lv lr).erase.toList) n.key n.val).needStop
                && m == 0 then
              .done ⟨h, n.right, m, callback j (visitL j lg (PT.node b ll lk lv lr).erase.toList) n.key n.val⟩
            else loop j wf (r.iters + f)
              ⟨h, n.right, m, callback j (visitL j lg (PT.node b ll lk lv lr).erase.toList) n.key n.val⟩ := by
          intro f
          rw [show (PT.node a (.node b ll lk lv lr) n.key n.val r).iters + f =
              ((PT.node b ll lk lv lr).iters + ((r.iters + f) + 1)) + 1 by
            simp only [PT.iters]; omega]
          rw [loop_succ, body_thread rfl hn hleft hw1 hq hqr]
          simp only
          rw [h1, loop_succ, body_unthread rfl hn1 hleft hw2 hq1 rfl]
          simp only [hback, Int.add_sub_cancel]
          cases hc : ((callback j (visitL j lg (PT.node b ll lk lv lr).erase.toList)
            n.key n.val).needStop && m == 0) <;> simp
        by_cases hret : ((callback j (visitL j lg (PT.node b ll lk lv lr).erase.toList)
            n.key n.val).needStop && m == 0) = true
        · right
          simp only [Bool.and_eq_true, beq_iff_eq] at hret
          obtain ⟨hs, hm0⟩ := hret
          refine ⟨hm0, ?_, n.right, fun f => ?_⟩
          · rw [visitL_stopped j _ hs]; exact hs
          · rw [step, visitL_stopped j _ hs]; simp [hs, hm0]
        · rcases ihr h n.right ret m _ hrr hndr hwfr hm with h2 | ⟨h0, hs, c, h2⟩
          · left; intro f; rw [step, if_neg hret, h2]
          · right; exact ⟨h0, hs, c, fun f => by rw [step, if_neg hret, h2]⟩
      · omega

/-! ### more fuel never changes a finished run -/

theorem walk_mono {h : Heap κ ν} {c wf wf' p : Nat} {r : Res Nat}
    (hw : walk h c wf p = r) (hr : r ≠ .timeout) (hle : wf ≤ wf') : walk h c wf' p = r := by
  induction wf generalizing wf' p with
  | zero => simp [walk] at hw; exact absurd hw.symm hr
  | succ wf ih =>
    obtain ⟨wf', rfl⟩ : ∃ w, wf' = w + 1 := ⟨wf' - 1, by omega⟩
    simp only [walk] at hw ⊢
    split
    · simp_all
    · rename_i pn hpn
      simp only [hpn] at hw
      split
      · simp_all
      · rename_i x hx
        simp only [hx] at hw
        split
        · simp_all
        · rename_i hne
          simp only [hne, if_false] at hw
          exact ih hw (by omega)

theorem body_mono {j wf wf' : Nat} {s : St κ ν} {r : Res (Ctl (St κ ν))}
    (hb : body j wf s = r) (hr : r ≠ .timeout) (hle : wf ≤ wf') : body j wf' s = r := by
  unfold body at hb ⊢
  split
  · simp_all
  · rename_i c hc
    simp only [hc] at hb
    split
    · simp_all
    · rename_i cn hcn
      simp only [hcn] at hb
      split
      · simp_all
      · rename_i l hl
        simp only [hl] at hb
        cases hw : walk s.heap c wf l with
        | timeout => simp only [hw] at hb; exact absurd hb.symm hr
        | fault => rw [walk_mono hw (by simp) hle]; simpa only [hw] using hb
        | done p => rw [walk_mono hw (by simp) hle]; simpa only [hw] using hb

theorem loop_mono {j wf wf' f f' : Nat} {s : St κ ν} {r : Res (St κ ν)}
    (hl : loop j wf f s = r) (hr : r ≠ .timeout) (hwf : wf ≤ wf') (hf : f ≤ f') :
    loop j wf' f' s = r := by
  induction f generalizing f' s with
  | zero => simp [loop] at hl; exact absurd hl.symm hr
  | succ f ih =>
    obtain ⟨f', rfl⟩ : ∃ w, f' = w + 1 := ⟨f' - 1, by omega⟩
    rw [loop_succ] at hl ⊢
    cases hb : body j wf s with
    | timeout => simp only [hb] at hl; exact absurd hl.symm hr
    | fault => rw [body_mono hb (by simp) hwf]; simpa only [hb] using hl
    | done x =>
      rw [body_mono hb (by simp) hwf]
      simp only [hb] at hl
      cases x with
      | next s' => exact ih hl (by omega)
      | ret s' => exact hl

end PV.Tree.Morris

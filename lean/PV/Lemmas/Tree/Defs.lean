import PV.Model.Tree.Run
/-! Invariants and auxiliary definitions for the tree theorems (C12–C14). -/
namespace PV.Tree

variable {κ ν : Type}

/-- search-tree order: the in-order listing is strictly ascending -/
def BT.Ordered (cmp : κ → κ → Ordering) (t : BT κ ν) : Prop := SM.Sorted cmp t.toList

/-- AVL invariant: every stored balance factor is the height difference and lies in {−1,0,1} -/
def AT.Inv : AT κ ν → Prop
  | .nil => True
  | .node l _ _ b r => AT.Inv l ∧ AT.Inv r ∧ b = (l.height : Int) - (r.height : Int) ∧ -1 ≤ b ∧ b ≤ 1

/-- black height (along the left spine; equal on all paths when `Bal` holds) -/
def RT.bh : RT κ ν → Nat
  | .nil => 0
  | .node l _ _ c _ => RT.bh l + (if c = .black then 1 else 0)

/-- no red node has a red child, and all paths have the same number of black nodes -/
def RT.Bal : RT κ ν → Prop
  | .nil => True
  | .node l _ _ c r => RT.Bal l ∧ RT.Bal r ∧ RT.bh l = RT.bh r ∧ (c = .red → l.isBlack = true ∧ r.isBlack = true)

/-- red-black invariant -/
def RT.Inv (t : RT κ ν) : Prop := t.isBlack = true ∧ RT.Bal t

def fib : Nat → Nat
  | 0 => 0
  | 1 => 1
  | n + 2 => fib n + fib (n + 1)

/-- pairs inserted by an operation sequence, in call order -/
def inserted : List (Op κ ν) → List (κ × ν)
  | [] => []
  | .ins k v :: ops => (k, v) :: inserted ops
  | _ :: ops => inserted ops

/-- pairs that ENTERED the tree during an operation sequence started on the map `l`, in call order.  An insert whose node
    allocation fails (`insf`) hands its pair over only when an equal key is stored (replace path: no node is allocated);
    for a new key nothing enters — the pair stays the caller's.  Follows the spec state, call by call. -/
def entered (cmp : κ → κ → Ordering) : List (κ × ν) → List (Op κ ν) → List (κ × ν)
  | _, [] => []
  | l, .ins k v :: ops => (k, v) :: entered cmp (specStep cmp l (.ins k v)).1 ops
  | l, .insf k v :: ops =>
    (if (SM.find cmp l k).isSome then [(k, v)] else []) ++ entered cmp (specStep cmp l (.insf k v)).1 ops
  | l, op :: ops => entered cmp (specStep cmp l op).1 ops

/-- objects handed to the destroy notifiers by a sequence of calls, in call order -/
def destroyed : List (Out κ ν) → List (κ × ν)
  | [] => []
  | .ins _ d :: os => d ++ destroyed os
  | .rem _ _ d :: os => d ++ destroyed os
  | .cleared _ d :: os => d ++ destroyed os
  | _ :: os => destroyed os

end PV.Tree

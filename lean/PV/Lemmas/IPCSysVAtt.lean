import PV.Lemmas.IPCSysVSeg
/-! Attachments: every live PShm struct's address is an attachment of its process to the segment its `shm_hdl` names, for
every schedule of a system with one thread per process (the harness's workers).  Addresses are fresh, the addresses held by
structs at rest are pairwise distinct per process, and a `shmdt` in flight never carries the address of a struct at rest. -/
namespace PV.SysV
open PV.Generated.IPCSysV
set_option linter.unusedSimpArgs false

/-- the struct's address is an attachment of the process to the segment `shm_hdl` names -/
def attached (pr : Proc) (m : PShm) : Prop :=
  ∃ a att, m.addr = .at a ∧ findAtt pr a = some att ∧ m.hdl = some att.seg

/-! ## per system call: what happens to the attachment lists -/

/-- every call except `shmat` / `shmdt` leaves all attachment lists alone -/
theorem sysStep_procs (p : Pid) (intr : Bool) (c : Sys) (os : OS) (nm : Nat)
    (h1 : ∀ id fl, c ≠ .shmat id fl) (h2 : ∀ a, c ≠ .shmdt a) : (sysStep p intr c os nm).1.procs = os.procs := by
  unfold sysStep
  split
  · rfl
  · cases c with
    | «open» g fl m => simp only; unfold openF; (repeat' split) <;> rfl
    | close fd => rfl
    | stat g => simp only; split <;> rfl
    | ftok g pr => simp only; split <;> rfl
    | unlink g => simp only; unfold unlinkF; split <;> rfl
    | semget k n fl => simp only; unfold semgetF; (repeat' split) <;> rfl
    | semctl h cmd v => simp only; unfold semctlF; (repeat' split) <;> rfl
    | semop h n o fl => simp only; unfold semopF; (repeat' split) <;> simp only [OS.setSem] <;> (repeat' split) <;> rfl
    | shmget k sz fl => simp only; unfold shmgetF; (repeat' split) <;> rfl
    | shmctl h cmd => simp only; unfold shmctlF; (repeat' split) <;> rfl
    | shmat h fl => exact absurd rfl (h1 h fl)
    | shmdt a => exact absurd rfl (h2 a)

/-- a system call of process `p` never touches the attachment list of another process -/
theorem sysStep_procs_other (p q : Pid) (intr : Bool) (c : Sys) (os : OS) (nm : Nat) (hq : q ≠ p) :
    (sysStep p intr c os nm).1.procs q = os.procs q := by
  by_cases h1 : ∃ id fl, c = .shmat id fl
  · obtain ⟨id, fl, rfl⟩ := h1
    simp only [sysStep, Sys.interruptible, Bool.and_false, Bool.false_eq_true, if_false, shmatF]
    split <;> simp [OS.setProc, OS.setSeg, hq]
  · by_cases h2 : ∃ a, c = .shmdt a
    · obtain ⟨a, rfl⟩ := h2
      simp only [sysStep, Sys.interruptible, Bool.and_false, Bool.false_eq_true, if_false, shmdtF]
      split <;> simp [OS.setProc, OS.setSeg, hq]
    · rw [sysStep_procs p intr c os nm (fun id fl e => h1 ⟨id, fl, e⟩) (fun a e => h2 ⟨a, e⟩)]

theorem findAtt_cons_ne (pr : Proc) (x : Att) (a : Nat) (nx : Nat) (h : x.addr ≠ a) :
    findAtt { pr with atts := x :: pr.atts, nextAddr := nx } a = findAtt pr a := by
  simp [findAtt, List.find?_cons, h]

theorem find_filter_ne (l : List Att) (a b : Nat) (h : a ≠ b) :
    (l.filter (fun x => decide (x.addr ≠ b))).find? (fun x => decide (x.addr = a)) = l.find? (fun x => decide (x.addr = a)) := by
  induction l with
  | nil => rfl
  | cons y l ih =>
    by_cases hy : y.addr = b
    · have h1 : ¬ (decide (y.addr ≠ b) = true) := by simp [hy]
      have h2 : ¬ (decide (y.addr = a) = true) := by simp [hy, Ne.symm h]
      rw [List.filter_cons_of_neg (p := fun x : Att => decide (x.addr ≠ b)) h1, List.find?_cons_of_neg (p := fun x : Att => decide (x.addr = a)) h2, ih]
    · have h1 : decide (y.addr ≠ b) = true := by simp [hy]
      rw [List.filter_cons_of_pos (p := fun x : Att => decide (x.addr ≠ b)) h1]
      by_cases hya : y.addr = a
      · have h2 : decide (y.addr = a) = true := by simp [hya]
        rw [List.find?_cons_of_pos (p := fun x : Att => decide (x.addr = a)) h2, List.find?_cons_of_pos (p := fun x : Att => decide (x.addr = a)) h2]
      · have h2 : ¬ (decide (y.addr = a) = true) := by simp [hya]
        rw [List.find?_cons_of_neg (p := fun x : Att => decide (x.addr = a)) h2, List.find?_cons_of_neg (p := fun x : Att => decide (x.addr = a)) h2, ih]

theorem findAtt_filter_ne (pr : Proc) (a b : Nat) (h : a ≠ b) :
    findAtt { pr with atts := pr.atts.filter (fun x => decide (x.addr ≠ b)) } a = findAtt pr a := by
  simp only [findAtt]
  exact find_filter_ne pr.atts a b h

theorem findAtt_mem (pr : Proc) (a : Nat) (att : Att) (h : findAtt pr a = some att) : att ∈ pr.atts ∧ att.addr = a := by
  simp only [findAtt] at h
  exact ⟨List.mem_of_find?_eq_some h, by simpa using List.find?_some h⟩

/-! ## the invariant -/

abbrev HS := Hid → Option (Pid × Handle)

/-- no struct at rest of process `p` (other than slot `ex`) carries the address `ad` -/
def Clear (hs : HS) (p : Pid) (ad : Addr) (ex : Option Hid) : Prop :=
  ∀ h m', hs h = some (p, .shm m') → some h ≠ ex → m'.addr ≠ ad

/-- a call in flight of the (one) thread of process `p`: a `p_shm_new` has nothing attached before its `shmat`, holds a fresh
    attachment afterwards, and is failing when it cleans up; a `shmdt` about to be issued never carries the address of a struct
    at rest; a lock / unlock works on a copy of an attached struct -/
def Call.ainv (pr : Proc) (hs : HS) (p : Pid) : Call → Prop
  | .shmNew _ s =>
    match s.pc with
    | .cSem _ => attached pr s.h ∧ Clear hs p s.h.addr none
    | .kDt => s.failing.isSome = true ∧ Clear hs p s.h.addr none
    | .kStat | .kRmid | .kUnlink | .kSem _ => s.failing.isSome = true
    | _ => s.h.addr = .null
  | .shmFree s =>
    match s.pc with
    | .kDt => Clear hs p s.h.addr none
    | .kStat | .kRmid | .kUnlink | .kSem _ => True
    | _ => False
  | .lockOp hid m _ => attached pr m ∧ Clear hs p m.addr (some hid)
  | _ => True

structure AttInv (g : G) : Prop where
  inj : ∀ t t', g.pidOf t = g.pidOf t' → t = t'
  fresh : ∀ p att, att ∈ (g.os.procs p).atts → att.addr < (g.os.procs p).nextAddr
  hs : ∀ h p m, g.hs h = some (p, .shm m) → attached (g.os.procs p) m
  distinct : ∀ h1 h2 p m1 m2, g.hs h1 = some (p, .shm m1) → g.hs h2 = some (p, .shm m2) → m1.addr = m2.addr → h1 = h2
  calls : ∀ t c, g.calls t = some c → c.ainv (g.os.procs (g.pidOf t)) g.hs (g.pidOf t)

theorem clear_mono (hs hs' : HS) (p : Pid) (ad : Addr) (ex : Option Hid)
    (hsub : ∀ h m, hs' h = some (p, .shm m) → ∃ m0, hs h = some (p, .shm m0) ∧ m0.addr = m.addr) (hc : Clear hs p ad ex) : Clear hs' p ad ex := by
  intro h m' hm' hex
  obtain ⟨m0, h0, ha⟩ := hsub h m' hm'
  rw [← ha]; exact hc h m0 h0 hex

theorem ainv_mono (pr : Proc) (hs hs' : HS) (p : Pid) (c : Call)
    (hsub : ∀ h m, hs' h = some (p, .shm m) → ∃ m0, hs h = some (p, .shm m0) ∧ m0.addr = m.addr) (hc : c.ainv pr hs p) : c.ainv pr hs' p := by
  cases c with
  | shmNew hid s =>
    simp only [Call.ainv] at hc ⊢
    split <;> simp_all <;> first | exact ⟨hc.1, clear_mono hs hs' p _ _ hsub hc.2⟩ | exact clear_mono hs hs' p _ _ hsub hc.2 | exact clear_mono hs hs' p _ _ hsub hc
  | shmFree s =>
    simp only [Call.ainv] at hc ⊢
    split <;> simp_all
    exact clear_mono hs hs' p _ _ hsub hc
  | lockOp hid m s => exact ⟨hc.1, clear_mono hs hs' p _ _ hsub hc.2⟩
  | _ => trivial

/-- same attachment lists, no new segment struct at rest: the invariant carries over, given the invariant of the calls
    that are new -/
theorem attinv_of_sub (g g' : G) (hi : AttInv g) (hp : g'.os.procs = g.os.procs) (hpid : g'.pidOf = g.pidOf)
    (hsub : ∀ h p m, g'.hs h = some (p, .shm m) → ∃ m0, g.hs h = some (p, .shm m0) ∧ m0.addr = m.addr ∧ m0.hdl = m.hdl)
    (hcalls : ∀ t c, g'.calls t = some c → g.calls t = some c ∨ c.ainv (g.os.procs (g.pidOf t)) g'.hs (g.pidOf t)) : AttInv g' := by
  have hsub' : ∀ p h m, g'.hs h = some (p, .shm m) → ∃ m0, g.hs h = some (p, .shm m0) ∧ m0.addr = m.addr := by
    intro p h m hm; obtain ⟨m0, a, b, _⟩ := hsub h p m hm; exact ⟨m0, a, b⟩
  refine ⟨by rw [hpid]; exact hi.inj, by rw [hp]; exact hi.fresh, ?_, ?_, ?_⟩
  · intro h p m hm
    obtain ⟨m0, h0, ha, hh⟩ := hsub h p m hm
    obtain ⟨a, att, e1, e2, e3⟩ := hi.hs h p m0 h0
    rw [hp]
    exact ⟨a, att, by rw [← ha]; exact e1, e2, by rw [← hh]; exact e3⟩
  · intro h1 h2 p m1 m2 e1 e2 ea
    obtain ⟨n1, k1, a1, _⟩ := hsub h1 p m1 e1
    obtain ⟨n2, k2, a2, _⟩ := hsub h2 p m2 e2
    exact hi.distinct h1 h2 p n1 n2 k1 k2 (by rw [a1, a2]; exact ea)
  · intro t c hc
    rw [hp, hpid]
    rcases hcalls t c hc with h | h
    · exact ainv_mono _ g.hs g'.hs _ c (hsub' _) (hi.calls t c h)
    · exact h

/-! ## per machine step (system calls other than shmat / shmdt) -/

def ShmOut.ainv (pr : Proc) (hs : HS) (p : Pid) (hid : Hid) : ShmOut → Prop
  | .cont s' => (Call.shmNew hid s').ainv pr hs p
  | .done (h, .ok ()) => attached pr h ∧ Clear hs p h.addr none
  | .done (_, .error _) => True

/-- clean-up entry points of a failing `p_shm_new` -/
theorem shm_clean_ainv (pr : Proc) (hs : HS) (p : Pid) (hid : Hid) (s : ShmSt) (hf : s.failing.isSome = true) :
    ShmOut.ainv pr hs p hid s.cleanSem ∧ ShmOut.ainv pr hs p hid s.cleanFile ∧ ShmOut.ainv pr hs p hid s.afterClean := by
  have h4 : ShmOut.ainv pr hs p hid s.afterClean := by
    simp only [ShmSt.afterClean]
    cases hfl : s.failing with
    | none => rw [hfl] at hf; cases hf
    | some e => trivial
  have h1 : ShmOut.ainv pr hs p hid s.cleanSem := by
    simp only [ShmSt.cleanSem]
    split
    · exact h4
    · split
      · exact hf
      · exact h4
  refine ⟨h1, ?_, h4⟩
  simp only [ShmSt.cleanFile]; split
  · exact hf
  · exact h1

/-- … and its first step, given that its address is clear of the structs at rest -/
theorem shm_startClean_ainv (pr : Proc) (hs : HS) (p : Pid) (hid : Hid) (s : ShmSt) (hf : s.failing.isSome = true) (hc : Clear hs p s.h.addr none) :
    ShmOut.ainv pr hs p hid s.startClean := by
  simp only [ShmSt.startClean]; split
  · exact ⟨hf, hc⟩
  · exact (shm_clean_ainv pr hs p hid s hf).2.1

theorem clear_null (hs : HS) (p : Pid) (ex : Option Hid) (ad : Addr) (hn : ad = .null ∨ ad = .bad)
    (hat : ∀ h m, hs h = some (p, .shm m) → ∃ a, m.addr = .at a) : Clear hs p ad ex := by
  intro h m' hm' _ e
  obtain ⟨a, ha⟩ := hat h m' hm'
  rw [ha] at e
  rcases hn with hn | hn <;> rw [hn] at e <;> cases e

/-- one transition of a `p_shm_new` at a system call that is neither its `shmat` nor its `shmdt` -/
theorem shmNew_after_ainv (pr : Proc) (hs : HS) (p : Pid) (hid : Hid) (s : ShmSt) (r : Res)
    (hat : ∀ h m, hs h = some (p, .shm m) → ∃ a, m.addr = .at a)
    (hi : (Call.shmNew hid s).ainv pr hs p) (h1 : s.pc ≠ .cAt) (h2 : s.pc ≠ .kDt) : ShmOut.ainv pr hs p hid (s.after r) := by
  obtain ⟨isNew, h, req, pc, built, isExists, failing⟩ := s
  simp only [Call.ainv] at hi
  cases pc with
  | cAt => exact absurd rfl h1
  | kDt => exact absurd rfl h2
  | cSem st =>
    simp only at hi
    simp only [ShmSt.after]
    cases hr : st.after r with
    | cont st' => exact hi
    | done x =>
      obtain ⟨ps, e⟩ := x
      cases e with
      | ok u => exact ⟨by obtain ⟨a, att, e1, e2, e3⟩ := hi.1; exact ⟨a, att, e1, e2, e3⟩, hi.2⟩
      | error e => exact shm_startClean_ainv pr hs p hid _ rfl hi.2
  | kSem st =>
    simp only at hi
    simp only [ShmSt.after]
    cases hr : st.after r with
    | cont st' => exact hi
    | done x =>
      simp only [ShmSt.afterClean]
      cases hfl : failing with
      | none => rw [hfl] at hi; cases hi
      | some e => trivial
  | _ =>
    all_goals
      simp only at hi
      rcases r with v | ⟨sz, na⟩ | e | _ <;> simp only [ShmSt.after, ShmSt.fail, errOf] <;> (repeat' split) <;>
      first
      | exact hi
      | (refine (shm_clean_ainv pr hs p hid _ ?_).1 <;> first | rfl | exact hi | exact hi.1)
      | (refine (shm_clean_ainv pr hs p hid _ ?_).2.1 <;> first | rfl | exact hi | exact hi.1)
      | (refine (shm_clean_ainv pr hs p hid _ ?_).2.2 <;> first | rfl | exact hi | exact hi.1)
      | (refine shm_startClean_ainv pr hs p hid _ ?_ ?_ <;> first | rfl | (simp only; rw [hi]; exact clear_null hs p none _ (Or.inl rfl) hat))
      | (simp only [ShmOut.ainv, Call.ainv]; first | done | exact hi | trivial)

/-! ## the only way an attachment is lost -/

/-- One system call of ANY process `q` keeps the struct `m` of process `p` attached — unless it is a `shmdt` of `p` itself
    carrying exactly `m`'s address.  (`shmat` hands out fresh addresses: `hfresh`.) -/
theorem attached_sysStep (p q : Pid) (intr : Bool) (c : Sys) (os : OS) (nm : Nat) (m : PShm)
    (ha : attached (os.procs p) m) (hfresh : ∀ att, att ∈ (os.procs p).atts → att.addr < (os.procs p).nextAddr)
    (hdt : q = p → ∀ a, c = .shmdt (some a) → m.addr ≠ .at a) : attached ((sysStep q intr c os nm).1.procs p) m := by
  by_cases hq : p = q
  · subst hq
    by_cases h1 : ∃ id fl, c = .shmat id fl
    · obtain ⟨id, fl, rfl⟩ := h1
      obtain ⟨a, att, e1, e2, e3⟩ := ha
      have hlt := hfresh att (findAtt_mem _ a att e2).1
      have hadr := (findAtt_mem _ a att e2).2
      simp only [sysStep, Sys.interruptible, Bool.and_false, Bool.false_eq_true, if_false, shmatF]
      split
      · exact ⟨a, att, e1, e2, e3⟩
      · refine ⟨a, att, e1, ?_, e3⟩
        simp only [OS.setProc, OS.setSeg, if_true]
        rw [findAtt_cons_ne]
        · exact e2
        · simp only; omega
    · by_cases h2 : ∃ b, c = .shmdt b
      · obtain ⟨b, rfl⟩ := h2
        obtain ⟨a, att, e1, e2, e3⟩ := ha
        simp only [sysStep, Sys.interruptible, Bool.and_false, Bool.false_eq_true, if_false, shmdtF]
        split
        · exact ⟨a, att, e1, e2, e3⟩
        · rename_i x hx
          refine ⟨a, att, e1, ?_, e3⟩
          simp only [OS.setProc, OS.setSeg, if_true]
          cases b with
          | none => simp at hx
          | some b' =>
            simp only [Option.bind_some] at hx
            have hxa : x.addr = b' := by simpa using List.find?_some hx
            have hne : a ≠ b' := by
              intro e; subst e
              exact hdt rfl a rfl e1
            rw [hxa]
            rw [findAtt_filter_ne _ a b' hne]
            exact e2
      · rw [sysStep_procs p intr c os nm (fun id fl e => h1 ⟨id, fl, e⟩) (fun a e => h2 ⟨a, e⟩)]
        exact ha
  · rw [sysStep_procs_other q p intr c os nm hq]
    exact ha

/-! ## per action -/

theorem attinv_kill (g : G) (q : Pid) (hi : AttInv g) : AttInv (g.kill q) := by
  have hsub : ∀ h p m, (g.kill q).hs h = some (p, .shm m) → g.hs h = some (p, .shm m) ∧ p ≠ q := by
    intro h p m hm
    simp only [G.kill] at hm
    split at hm
    · rename_i p' x hx
      split at hm
      · cases hm
      · rename_i hne
        simp only [Option.some.injEq, Prod.mk.injEq] at hm
        obtain ⟨rfl, rfl⟩ := hm
        exact ⟨hx, hne⟩
    · cases hm
  have hprocs : ∀ p, p ≠ q → (g.kill q).os.procs p = g.os.procs p := by
    intro p hp; simp [G.kill, OS.kill, hp]
  refine ⟨hi.inj, ?_, ?_, ?_, ?_⟩
  · intro p att hatt
    by_cases hp : p = q
    · subst hp; simp [G.kill, OS.kill] at hatt
    · rw [hprocs p hp] at hatt ⊢; exact hi.fresh p att hatt
  · intro h p m hm
    obtain ⟨h0, hp⟩ := hsub h p m hm
    rw [hprocs p hp]; exact hi.hs h p m h0
  · intro h1 h2 p m1 m2 e1 e2 ea
    exact hi.distinct h1 h2 p m1 m2 (hsub h1 p m1 e1).1 (hsub h2 p m2 e2).1 ea
  · intro t c hc
    simp only [G.kill] at hc
    split at hc
    · cases hc
    · rename_i hne
      have hp : (g.kill q).pidOf t ≠ q := hne
      have hpid : (g.kill q).pidOf t = g.pidOf t := rfl
      rw [hprocs _ hp, hpid]
      refine ainv_mono _ g.hs _ _ c ?_ (hi.calls t c hc)
      intro h m hm
      exact ⟨m, (hsub h _ m hm).1, rfl⟩

/-- a step that changes no attachment list and does not store a segment struct -/
theorem attinv_step_plain (g : G) (t : Tid) (intr : Bool) (c : Call) (hi : AttInv g) (hc : g.calls t = some c)
    (hproc : (sysStep (g.pidOf t) intr c.next g.os c.name).1.procs = g.os.procs)
    (hout : match c.after (sysStep (g.pidOf t) intr c.next g.os c.name).2 with
            | .cont c' => c'.ainv (g.os.procs (g.pidOf t)) g.hs (g.pidOf t)
            | .done (_, some (_, some (.shm _))) => False
            | _ => True) : AttInv (g.step t intr) := by
  have hos := step_os g t intr c hc
  simp only [G.step, hc] at hos ⊢
  cases hr : c.after (sysStep (g.pidOf t) intr c.next g.os c.name).2 with
  | cont c' =>
    rw [hr] at hout
    simp only [hr] at hos ⊢
    refine attinv_of_sub g _ hi (by rw [hos]; exact hproc) rfl (fun h p m hm => ⟨m, hm, rfl, rfl⟩) ?_
    intro t' c'' h'
    simp only [G.setCall] at h'
    split at h'
    · rename_i e
      simp only [Option.some.injEq] at h'
      subst h'; subst e
      exact Or.inr hout
    · exact Or.inl h'
  | done y =>
    obtain ⟨ret, nh⟩ := y
    rw [hr] at hout
    simp only [hr] at hos ⊢
    have hcalls : ∀ (g' : G), g'.calls = (fun t'' => if t'' = t then none else g.calls t'') →
        ∀ t' c'', g'.calls t' = some c'' → g.calls t' = some c'' ∨ c''.ainv (g.os.procs (g.pidOf t')) g'.hs (g.pidOf t') := by
      intro g' hg' t' c'' h'
      rw [hg'] at h'
      simp only at h'
      split at h'
      · cases h'
      · exact Or.inl h'
    cases nh with
    | none =>
      exact attinv_of_sub g _ hi (by rw [hos]; exact hproc) rfl (fun h p m hm => ⟨m, hm, rfl, rfl⟩) (hcalls _ rfl)
    | some z =>
      obtain ⟨hid, ox⟩ := z
      cases ox with
      | none =>
        refine attinv_of_sub g _ hi (by rw [hos]; exact hproc) rfl ?_ (hcalls _ rfl)
        intro h p m hm
        simp only [G.setHandle, G.setRet, G.setCall] at hm
        split at hm
        · cases hm
        · exact ⟨m, hm, rfl, rfl⟩
      | some x =>
        cases x with
        | shm m => exact absurd hout id
        | sem sh =>
          refine attinv_of_sub g _ hi (by rw [hos]; exact hproc) rfl ?_ (hcalls _ rfl)
          intro h p m hm
          simp only [G.setHandle, G.setRet, G.setCall] at hm
          split at hm
          · simp at hm
          · exact ⟨m, hm, rfl, rfl⟩

/-- a step of the thread of process `p` that changes `p`'s attachment list but stores no struct -/
theorem attinv_step_procs (g : G) (t : Tid) (intr : Bool) (c c' : Call) (hi : AttInv g) (hc : g.calls t = some c)
    (hr : c.after (sysStep (g.pidOf t) intr c.next g.os c.name).2 = .cont c')
    (hfresh : ∀ att, att ∈ ((sysStep (g.pidOf t) intr c.next g.os c.name).1.procs (g.pidOf t)).atts →
      att.addr < ((sysStep (g.pidOf t) intr c.next g.os c.name).1.procs (g.pidOf t)).nextAddr)
    (hkeep : ∀ h m, g.hs h = some (g.pidOf t, .shm m) → attached ((sysStep (g.pidOf t) intr c.next g.os c.name).1.procs (g.pidOf t)) m)
    (hnew : c'.ainv ((sysStep (g.pidOf t) intr c.next g.os c.name).1.procs (g.pidOf t)) g.hs (g.pidOf t)) :
    AttInv (g.step t intr) := by
  have hos := step_os g t intr c hc
  have hother : ∀ q, q ≠ g.pidOf t → (sysStep (g.pidOf t) intr c.next g.os c.name).1.procs q = g.os.procs q :=
    fun q hq => sysStep_procs_other (g.pidOf t) q intr c.next g.os c.name hq
  simp only [G.step, hc, hr] at hos ⊢
  refine ⟨hi.inj, ?_, ?_, hi.distinct, ?_⟩
  · intro p att hatt
    simp only [G.setCall] at hatt ⊢
    by_cases hp : p = g.pidOf t
    · subst hp; exact hfresh att hatt
    · rw [hother p hp] at hatt ⊢; exact hi.fresh p att hatt
  · intro h p m hm
    simp only [G.setCall] at hm ⊢
    by_cases hp : p = g.pidOf t
    · subst hp; exact hkeep h m hm
    · rw [hother p hp]; exact hi.hs h p m hm
  · intro t' c'' h'
    simp only [G.setCall] at h' ⊢
    split at h'
    · rename_i e
      simp only [Option.some.injEq] at h'
      subst h'; subst e
      exact hnew
    · rename_i e
      have hp : g.pidOf t' ≠ g.pidOf t := fun e' => e (hi.inj t' t e')
      rw [hother _ hp]
      exact hi.calls t' c'' h'

/-- `shmdt (a)` of process `p`: the list shrinks, the next address stays -/
theorem shmdt_atts (os : OS) (p : Pid) (intr : Bool) (nm : Nat) (b : Option Nat) :
    (∀ att, att ∈ ((sysStep p intr (.shmdt b) os nm).1.procs p).atts → att ∈ (os.procs p).atts) ∧
    ((sysStep p intr (.shmdt b) os nm).1.procs p).nextAddr = (os.procs p).nextAddr := by
  simp only [sysStep, Sys.interruptible, Bool.and_false, Bool.false_eq_true, if_false, shmdtF]
  split
  · exact ⟨fun _ h => h, rfl⟩
  · simp only [OS.setProc, OS.setSeg, if_true]
    exact ⟨fun att h => (List.mem_filter.mp h).1, trivial⟩

/-- the `shmdt` step of a clean-up whose address is clear of the structs at rest -/
theorem attinv_step_shmdt (g : G) (t : Tid) (intr : Bool) (c c' : Call) (s : ShmSt) (hi : AttInv g) (hc : g.calls t = some c)
    (hn : c.next = .shmdt (addrOpt s.h.addr)) (hclear : Clear g.hs (g.pidOf t) s.h.addr none)
    (hr : c.after (sysStep (g.pidOf t) intr c.next g.os c.name).2 = .cont c')
    (hnew : ∀ pr, c'.ainv pr g.hs (g.pidOf t)) : AttInv (g.step t intr) := by
  refine attinv_step_procs g t intr c c' hi hc hr ?_ ?_ (hnew _)
  · intro att hatt
    rw [hn] at hatt ⊢
    have := shmdt_atts g.os (g.pidOf t) intr c.name (addrOpt s.h.addr)
    rw [this.2]
    exact hi.fresh _ att (this.1 att hatt)
  · intro h m hm
    refine attached_sysStep (g.pidOf t) (g.pidOf t) intr c.next g.os c.name m (hi.hs h _ m hm) (hi.fresh _) ?_
    intro _ a ha
    rw [hn] at ha
    simp only [Sys.shmdt.injEq] at ha
    have hne := hclear h m hm (by simp)
    intro e
    apply hne
    rw [e]
    cases hsa : s.h.addr with
    | null => rw [hsa] at ha; simp [addrOpt] at ha
    | bad => rw [hsa] at ha; simp [addrOpt] at ha
    | «at» a' => rw [hsa] at ha; simp only [addrOpt, Option.some.injEq] at ha; rw [ha]

/-- a completion that stores a segment struct (of `p_shm_new`, or of a lock / unlock) -/
theorem attinv_step_store (g : G) (t : Tid) (intr : Bool) (c : Call) (hid : Hid) (m : PShm) (ret : Ret) (hi : AttInv g)
    (hc : g.calls t = some c) (hproc : (sysStep (g.pidOf t) intr c.next g.os c.name).1.procs = g.os.procs)
    (hr : c.after (sysStep (g.pidOf t) intr c.next g.os c.name).2 = .done (ret, some (hid, some (.shm m))))
    (hatt : attached (g.os.procs (g.pidOf t)) m) (hcl : Clear g.hs (g.pidOf t) m.addr (some hid)) : AttInv (g.step t intr) := by
  have hproc' : (g.step t intr).os.procs = g.os.procs := by rw [step_os g t intr c hc]; exact hproc
  have hhs : (g.step t intr).hs = fun h => if h = hid then some (g.pidOf t, Handle.shm m) else g.hs h := by
    simp [G.step, hc, hr, G.setHandle, G.setRet, G.setCall]
  have hcalls : (g.step t intr).calls = fun t' => if t' = t then none else g.calls t' := by
    simp [G.step, hc, hr, G.setHandle, G.setRet, G.setCall]
  have hpid : (g.step t intr).pidOf = g.pidOf := by
    simp [G.step, hc, hr, G.setHandle, G.setRet, G.setCall]
  refine ⟨by rw [hpid]; exact hi.inj, by rw [hproc']; exact hi.fresh, ?_, ?_, ?_⟩
  · intro h p m' hm'
    rw [hproc']
    rw [hhs] at hm'
    simp only at hm'
    split at hm'
    · simp only [Option.some.injEq, Prod.mk.injEq, Handle.shm.injEq] at hm'
      obtain ⟨rfl, rfl⟩ := hm'
      exact hatt
    · exact hi.hs h p m' hm'
  · intro h1 h2 p m1 m2 e1 e2 ea
    rw [hhs] at e1 e2
    simp only at e1 e2
    split at e1 <;> split at e2
    · rename_i a b; rw [a, b]
    · rename_i a b
      simp only [Option.some.injEq, Prod.mk.injEq, Handle.shm.injEq] at e1
      obtain ⟨rfl, rfl⟩ := e1
      exact absurd ea.symm (hcl h2 m2 e2 (by simpa using b))
    · rename_i a b
      simp only [Option.some.injEq, Prod.mk.injEq, Handle.shm.injEq] at e2
      obtain ⟨rfl, rfl⟩ := e2
      exact absurd ea (hcl h1 m1 e1 (by simpa using a))
    · exact hi.distinct h1 h2 p m1 m2 e1 e2 ea
  · intro t' c'' h'
    rw [hcalls] at h'
    simp only at h'
    split at h'
    · cases h'
    · rename_i e
      have hp : g.pidOf t' ≠ g.pidOf t := fun e' => e (hi.inj t' t e')
      rw [hproc', hpid]
      refine ainv_mono _ g.hs _ _ c'' ?_ (hi.calls t' c'' h')
      intro h m0 hm0
      rw [hhs] at hm0
      simp only at hm0
      split at hm0
      · simp only [Option.some.injEq, Prod.mk.injEq] at hm0
        exact absurd hm0.1.symm hp
      · exact ⟨m0, hm0, rfl⟩

theorem hs_at (g : G) (hi : AttInv g) (p : Pid) : ∀ h m, g.hs h = some (p, .shm m) → ∃ a, m.addr = .at a := by
  intro h m hm
  obtain ⟨a, _, e, _, _⟩ := hi.hs h p m hm
  exact ⟨a, e⟩

/-- the `shmat` step of `p_shm_new` -/
theorem attinv_step_shmat (g : G) (t : Tid) (intr : Bool) (hid : Hid) (s : ShmSt) (hi : AttInv g)
    (hc : g.calls t = some (.shmNew hid s)) (hpc : s.pc = .cAt) : AttInv (g.step t intr) := by
  obtain ⟨isNew, h, req, pc, built, isExists, failing⟩ := s
  simp only at hpc
  subst hpc
  have hnull : h.addr = .null := by have := hi.calls t _ hc; simpa [Call.ainv] using this
  cases ha : segAlive g.os h.hdl with
  | none =>
    have hstep : sysStep (g.pidOf t) intr (Call.shmNew hid ⟨isNew, h, req, .cAt, built, isExists, failing⟩).next g.os
        (Call.shmNew hid ⟨isNew, h, req, .cAt, built, isExists, failing⟩).name = (g.os, .err .EINVAL) := by
      simp [Call.next, ShmSt.next, sysStep, Sys.interruptible, shmatF, ha]
    refine attinv_step_plain g t intr _ hi hc (by rw [hstep]) ?_
    rw [hstep]
    simp only [Call.after, ShmSt.after, ShmSt.fail, errOf, ShmSt.startClean]
    simp only [bne_iff_ne, ne_eq, reduceCtorEq, not_false_eq_true, if_true, Call.ainv]
    exact ⟨rfl, clear_null g.hs _ none _ (Or.inr rfl) (hs_at g hi _)⟩
  | some i =>
    obtain ⟨hh, hal⟩ := segAlive_some g.os h.hdl i ha
    have hstep : sysStep (g.pidOf t) intr (Call.shmNew hid ⟨isNew, h, req, .cAt, built, isExists, failing⟩).next g.os
        (Call.shmNew hid ⟨isNew, h, req, .cAt, built, isExists, failing⟩).name =
        (shmatF g.os (g.pidOf t) h.hdl (if h.ro = true then shmatFlagsRO else shmatFlagsRW)) := by
      simp [Call.next, ShmSt.next, sysStep, Sys.interruptible]
    have hres : (shmatF g.os (g.pidOf t) h.hdl (if h.ro = true then shmatFlagsRO else shmatFlagsRW)).2 = .ok (g.os.procs (g.pidOf t)).nextAddr := by
      simp [shmatF, ha]
    have hprocs : ((shmatF g.os (g.pidOf t) h.hdl (if h.ro = true then shmatFlagsRO else shmatFlagsRW)).1.procs (g.pidOf t)) =
        { (g.os.procs (g.pidOf t)) with
          atts := ⟨(g.os.procs (g.pidOf t)).nextAddr, i, hasFlag (if h.ro = true then shmatFlagsRO else shmatFlagsRW) SHM_RDONLY && (if h.ro = true then shmatFlagsRO else shmatFlagsRW) != 0⟩ :: (g.os.procs (g.pidOf t)).atts,
          nextAddr := (g.os.procs (g.pidOf t)).nextAddr + 1 } := by
      simp [shmatF, ha, OS.setProc, OS.setSeg]
    refine attinv_step_procs g t intr _ (.shmNew hid ⟨isNew, { h with addr := .at (g.os.procs (g.pidOf t)).nextAddr }, req, .cSem (ShmSt.lockSt ⟨isNew, h, req, .cAt, built, isExists, failing⟩), built, isExists, failing⟩) hi hc ?_ ?_ ?_ ?_
    · rw [hstep, hres]; simp [Call.after, ShmSt.after, ShmSt.lockSt]
    · intro att hatt
      rw [hstep, hprocs] at hatt ⊢
      simp only [List.mem_cons] at hatt ⊢
      rcases hatt with e | e
      · rw [e]; simp
      · have := hi.fresh _ att e; omega
    · intro h' m hm
      exact attached_sysStep (g.pidOf t) (g.pidOf t) intr _ g.os _ m (hi.hs h' _ m hm) (hi.fresh _)
        (by intro _ a e; simp [Call.next, ShmSt.next] at e)
    · rw [hstep, hprocs]
      simp only [Call.ainv]
      refine ⟨⟨(g.os.procs (g.pidOf t)).nextAddr, ⟨(g.os.procs (g.pidOf t)).nextAddr, i, hasFlag (if h.ro = true then shmatFlagsRO else shmatFlagsRW) SHM_RDONLY && (if h.ro = true then shmatFlagsRO else shmatFlagsRW) != 0⟩, rfl, ?_, ?_⟩, ?_⟩
      · simp [findAtt]
      · simpa using hh
      · intro h' m' hm' _ e
        obtain ⟨a, att, e1, e2, _⟩ := hi.hs h' _ m' hm'
        have hlt := hi.fresh _ att (findAtt_mem _ a att e2).1
        have hadr := (findAtt_mem _ a att e2).2
        rw [e1] at e
        simp only [Addr.at.injEq] at e
        omega

theorem sem_next_procs (p : Pid) (intr : Bool) (st : SemSt) (os : OS) (nm : Nat) : (sysStep p intr st.next os nm).1.procs = os.procs := by
  apply sysStep_procs
  · intro id fl e
    obtain ⟨api, sh, spc, _, _, _⟩ := st
    cases spc <;> simp [SemSt.next] at e
  · intro a e
    obtain ⟨api, sh, spc, _, _, _⟩ := st
    cases spc <;> simp [SemSt.next] at e

theorem attinv_step_semkinds (g : G) (t : Tid) (intr : Bool) (c : Call) (hi : AttInv g) (hc : g.calls t = some c)
    (hk : (∃ hid s, c = .semNew hid s) ∨ (∃ s, c = .semFree s) ∨ (∃ hid s, c = .semOp hid s)) : AttInv (g.step t intr) := by
  rcases hk with ⟨hid, s, rfl⟩ | ⟨s, rfl⟩ | ⟨hid, s, rfl⟩
  all_goals
    refine attinv_step_plain g t intr _ hi hc (sem_next_procs _ _ s _ _) ?_
    simp only [Call.next, Call.name, Call.after]
    cases hr : s.after (sysStep (g.pidOf t) intr s.next g.os 0).2 with
    | cont s' => trivial
    | done x =>
      obtain ⟨h, e⟩ := x
      first
      | (cases e <;> trivial)
      | trivial

theorem attinv_step_lock (g : G) (t : Tid) (intr : Bool) (hid : Hid) (m : PShm) (s : SemSt) (hi : AttInv g)
    (hc : g.calls t = some (.lockOp hid m s)) : AttInv (g.step t intr) := by
  have hinv := hi.calls t _ hc
  simp only [Call.ainv] at hinv
  cases hr : s.after (sysStep (g.pidOf t) intr s.next g.os 0).2 with
  | cont s' =>
    refine attinv_step_plain g t intr _ hi hc (sem_next_procs _ _ s _ _) ?_
    simp only [Call.next, Call.name, Call.after, hr]
    exact hinv
  | done x =>
    obtain ⟨h, e⟩ := x
    refine attinv_step_store g t intr _ hid { m with sem := some h } (retOf e) hi hc (sem_next_procs _ _ s _ _) ?_ ?_ hinv.2
    · simp only [Call.next, Call.name, Call.after, hr]
    · obtain ⟨a, att, e1, e2, e3⟩ := hinv.1
      exact ⟨a, att, e1, e2, e3⟩

theorem shm_next_procs (p : Pid) (intr : Bool) (s : ShmSt) (os : OS) (nm : Nat) (h1 : s.pc ≠ .cAt) (h2 : s.pc ≠ .kDt) :
    (sysStep p intr s.next os nm).1.procs = os.procs := by
  obtain ⟨isNew, h, req, pc, built, isExists, failing⟩ := s
  cases pc with
  | cAt => exact absurd rfl h1
  | kDt => exact absurd rfl h2
  | cSem st => simpa [ShmSt.next] using sem_next_procs p intr st os nm
  | kSem st => simpa [ShmSt.next] using sem_next_procs p intr st os nm
  | _ => all_goals (apply sysStep_procs <;> intros <;> simp [ShmSt.next])

theorem attinv_step_new (g : G) (t : Tid) (intr : Bool) (hid : Hid) (s : ShmSt) (hi : AttInv g)
    (hc : g.calls t = some (.shmNew hid s)) : AttInv (g.step t intr) := by
  by_cases h1 : s.pc = .cAt
  · exact attinv_step_shmat g t intr hid s hi hc h1
  · by_cases h2 : s.pc = .kDt
    · have hinv := hi.calls t _ hc
      obtain ⟨isNew, h, req, pc, built, isExists, failing⟩ := s
      simp only at h2
      subst h2
      simp only [Call.ainv] at hinv
      refine attinv_step_shmdt g t intr _ (.shmNew hid ⟨isNew, h, req, .kStat, built, isExists, failing⟩) ⟨isNew, h, req, .kDt, built, isExists, failing⟩ hi hc rfl hinv.2 ?_ ?_
      · simp [Call.after, ShmSt.after]
      · intro pr; simp only [Call.ainv]; exact hinv.1
    · have hproc := shm_next_procs (g.pidOf t) intr s g.os s.h.name h1 h2
      have hout := shmNew_after_ainv (g.os.procs (g.pidOf t)) g.hs (g.pidOf t) hid s (sysStep (g.pidOf t) intr s.next g.os s.h.name).2
        (hs_at g hi _) (hi.calls t _ hc) h1 h2
      cases hr : s.after (sysStep (g.pidOf t) intr s.next g.os s.h.name).2 with
      | cont s' =>
        rw [hr] at hout
        refine attinv_step_plain g t intr _ hi hc hproc ?_
        simp only [Call.next, Call.name, Call.after, hr]
        exact hout
      | done x =>
        obtain ⟨h, e⟩ := x
        rw [hr] at hout
        cases e with
        | error e =>
          refine attinv_step_plain g t intr _ hi hc hproc ?_
          simp only [Call.next, Call.name, Call.after, hr]
        | ok u =>
          refine attinv_step_store g t intr _ hid h (.shm h) hi hc hproc ?_ hout.1 ?_
          · simp only [Call.next, Call.name, Call.after, hr]
          · intro h' m' hm' _; exact hout.2 h' m' hm' (by simp)

end PV.SysV

import PV.Model.Inet6Text
import PV.Lemmas.SockAddr
/-! Helper lemmas for the glibc IPv6 text model (`PV.Model.Inet6Text`): the parser `go6` reads back what
`hexG` / `ntop4` print, one group at a time. -/
namespace PV.SockAddr

/-! ### digits -/

theorem hexVal_hexDigit : ∀ d, d < 16 → hexVal (hexDigit d) = some d := by decide

theorem hexDigit_ne_colon : ∀ d, d < 16 → hexDigit d ≠ 58 := by decide

theorem go6_digit (d : Nat) (hd : d < 16) (r : List UInt8) (st : P6) (hs : st.seen < 4)
    (hv : st.val * 16 + d ≤ 0xffff) :
    go6 (hexDigit d :: r) st = go6 r { st with seen := st.seen + 1, val := st.val * 16 + d } := by
  have h4 : st.seen ≠ 4 := by omega
  have hv' : ¬ st.val * 16 + d > 0xffff := by omega
  simp only [go6, hexVal_hexDigit d hd, h4, hv', if_false]

theorem hexG_length (w : Nat) : 1 ≤ (hexG w).length ∧ (hexG w).length ≤ 4 := by
  unfold hexG; split
  · simp
  · split
    · simp
    · split <;> simp

theorem hexG_ne_nil (w : Nat) : hexG w ≠ [] := by
  intro h; have := (hexG_length w).1; rw [h] at this; simp at this

/-- the digits of a group are read back as its value -/
theorem go6_hexG (w : Nat) (hw : w < 65536) (rest acc : List UInt8) (colon : Option Nat) (tok : List UInt8) :
    go6 (hexG w ++ rest) ⟨acc, colon, 0, 0, tok⟩ = go6 rest ⟨acc, colon, (hexG w).length, w, tok⟩ := by
  unfold hexG
  split
  · rw [List.cons_append, List.nil_append, go6_digit _ (by omega) _ _ (by simp) (by simp; omega)]
    simp
  · split
    · rw [List.cons_append, List.cons_append, List.nil_append, go6_digit _ (by omega) _ _ (by simp) (by simp; omega),
        go6_digit _ (by omega) _ _ (by simp) (by simp; omega)]
      simp; rw [show w / 16 * 16 + w % 16 = w by omega]
    · split
      · rw [List.cons_append, List.cons_append, List.cons_append, List.nil_append,
          go6_digit _ (by omega) _ _ (by simp) (by simp; omega),
          go6_digit _ (by omega) _ _ (by simp) (by simp; omega), go6_digit _ (by omega) _ _ (by simp) (by simp; omega)]
        simp; rw [show (w / 256 * 16 + w / 16 % 16) * 16 + w % 16 = w by omega]
      · rw [List.cons_append, List.cons_append, List.cons_append, List.cons_append, List.nil_append,
          go6_digit _ (by omega) _ _ (by simp) (by simp; omega),
          go6_digit _ (by omega) _ _ (by simp) (by simp; omega), go6_digit _ (by omega) _ _ (by simp) (by simp; omega),
          go6_digit _ (by omega) _ _ (by simp) (by simp; omega)]
        simp; rw [show ((w / 4096 % 16 * 16 + w / 256 % 16) * 16 + w / 16 % 16) * 16 + w % 16 = w by omega]

/-! ### one group at a time -/

theorem hexVal_colon : hexVal 58 = none := by decide
theorem hexVal_dot : hexVal 46 = none := by decide

theorem go6_colon_store (rest acc : List UInt8) (colon : Option Nat) (k v : Nat) (tok : List UInt8)
    (hk : 0 < k) (hr : rest ≠ []) (ha : acc.length + 2 ≤ 16) :
    go6 (58 :: rest) ⟨acc, colon, k, v, tok⟩ = go6 rest ⟨acc ++ valBytes v, colon, 0, 0, rest⟩ := by
  have hk' : k ≠ 0 := by omega
  have ha' : ¬ acc.length + 2 > 16 := by omega
  simp only [go6, hexVal_colon, hk', hr, ha', if_true, if_false]

theorem go6_colon_mark (rest acc tok : List UInt8) :
    go6 (58 :: rest) ⟨acc, none, 0, 0, tok⟩ = go6 rest ⟨acc, some acc.length, 0, 0, rest⟩ := by
  simp [go6, hexVal_colon]

theorem go6_group_colon (w : Nat) (hw : w < 65536) (rest : List UInt8) (hr : rest ≠ []) (acc : List UInt8)
    (colon : Option Nat) (tok : List UInt8) (ha : acc.length + 2 ≤ 16) :
    go6 (hexG w ++ 58 :: rest) ⟨acc, colon, 0, 0, tok⟩ = go6 rest ⟨acc ++ valBytes w, colon, 0, 0, rest⟩ := by
  rw [go6_hexG w hw, go6_colon_store _ _ _ _ _ _ (hexG_length w).1 hr ha]

theorem go6_group_end (w : Nat) (hw : w < 65536) (acc : List UInt8) (colon : Option Nat) (tok : List UInt8)
    (ha : acc.length + 2 ≤ 16) :
    go6 (hexG w) ⟨acc, colon, 0, 0, tok⟩ = finish6 (acc ++ valBytes w) colon := by
  have h := go6_hexG w hw [] acc colon tok
  rw [List.append_nil] at h
  have h1 : (hexG w).length > 0 := (hexG_length w).1
  have ha' : ¬ acc.length + 2 > 16 := by omega
  rw [h]
  simp only [go6, h1, ha', if_true, if_false]

/-! ### lists of groups -/

/-- a group followed by ':' -/
def grpColon (w : Nat) : List UInt8 := hexG w ++ [58]

/-- groups separated by ':' -/
def sepGroups : List Nat → List UInt8
  | [] => []
  | [w] => hexG w
  | w :: w' :: r => hexG w ++ 58 :: sepGroups (w' :: r)

/-- the bytes `inet_pton6` stores for a list of groups -/
def gbytes (ws : List Nat) : List UInt8 := ws.flatMap valBytes

theorem gbytes_length (ws : List Nat) : (gbytes ws).length = 2 * ws.length := by
  induction ws with
  | nil => rfl
  | cons w r ih => simp [gbytes, valBytes] at ih ⊢; omega

theorem gbytes_cons (w : Nat) (r : List Nat) : gbytes (w :: r) = valBytes w ++ gbytes r := by simp [gbytes]

theorem gbytes_append (x y : List Nat) : gbytes (x ++ y) = gbytes x ++ gbytes y := by simp [gbytes]

theorem sepGroups_ne_nil (w : Nat) (r : List Nat) : sepGroups (w :: r) ≠ [] := by
  cases r with
  | nil => exact hexG_ne_nil w
  | cons w' r => simp [sepGroups, hexG_ne_nil]

theorem go6_sepGroups (ws : List Nat) (hws : ∀ w ∈ ws, w < 65536) (acc : List UInt8) (colon : Option Nat)
    (tok : List UInt8) (ha : acc.length + 2 * ws.length ≤ 16) :
    go6 (sepGroups ws) ⟨acc, colon, 0, 0, tok⟩ = finish6 (acc ++ gbytes ws) colon := by
  induction ws generalizing acc tok with
  | nil => simp [sepGroups, go6, gbytes]
  | cons w r ih =>
    have hw : w < 65536 := hws w (by simp)
    simp only [List.length_cons] at ha
    cases r with
    | nil =>
      simp only [sepGroups]
      rw [go6_group_end w hw acc colon tok (by omega)]
      simp [gbytes]
    | cons w' r' =>
      simp only [sepGroups]
      rw [go6_group_colon w hw _ (sepGroups_ne_nil w' r') acc colon tok (by omega)]
      rw [ih (fun x hx => hws x (by simp [hx])) _ _ (by simp [valBytes] at ha ⊢; omega)]
      rw [gbytes_cons w (w' :: r'), List.append_assoc]

theorem go6_grpColons (ws : List Nat) (hws : ∀ w ∈ ws, w < 65536) (rest : List UInt8) (hr : rest ≠ [])
    (acc : List UInt8) (colon : Option Nat) (tok : List UInt8) (ha : acc.length + 2 * ws.length ≤ 16) :
    ∃ tok', go6 (ws.flatMap grpColon ++ rest) ⟨acc, colon, 0, 0, tok⟩ = go6 rest ⟨acc ++ gbytes ws, colon, 0, 0, tok'⟩ := by
  induction ws generalizing acc tok with
  | nil => exact ⟨tok, by simp [gbytes]⟩
  | cons w r ih =>
    have hw : w < 65536 := hws w (by simp)
    simp only [List.length_cons] at ha
    have hne : r.flatMap grpColon ++ rest ≠ [] := by simp [hr]
    obtain ⟨tok', h⟩ := ih (fun x hx => hws x (by simp [hx])) (acc ++ valBytes w) (r.flatMap grpColon ++ rest)
      (by simp [valBytes] at ha ⊢; omega)
    refine ⟨tok', ?_⟩
    have e : (w :: r).flatMap grpColon ++ rest = hexG w ++ 58 :: (r.flatMap grpColon ++ rest) := by
      simp [grpColon, List.flatMap_cons]
    rw [e, go6_group_colon w hw _ hne acc colon tok (by omega), h, gbytes_cons, List.append_assoc]

theorem hexG_head (w : Nat) (hw : w < 65536) : ∃ d t, d < 16 ∧ hexG w = hexDigit d :: t := by
  unfold hexG
  split
  · exact ⟨w, [], by omega, rfl⟩
  · split
    · exact ⟨w / 16, _, by omega, rfl⟩
    · split
      · exact ⟨w / 256, _, by omega, rfl⟩
      · exact ⟨w / 4096 % 16, _, by omega, rfl⟩

/-- a text that starts with a group is handed to the loop as it is -/
theorem pton6_hexG (w : Nat) (hw : w < 65536) (rest : List UInt8) :
    pton6 (hexG w ++ rest) = go6 (hexG w ++ rest) ⟨[], none, 0, 0, hexG w ++ rest⟩ := by
  obtain ⟨d, t, hd, e⟩ := hexG_head w hw
  rw [e]
  simp [pton6, hexDigit_ne_colon d hd]

theorem pton6_coloncolon (rest : List UInt8) : pton6 (58 :: 58 :: rest) = go6 rest ⟨[], some 0, 0, 0, rest⟩ := by
  simp [pton6, go6_colon_mark]

/-- the groups before and after a `::` come back with the zeros between them -/
theorem pton6_compressed (pre post : List Nat) (hpre : ∀ w ∈ pre, w < 65536) (hpost : ∀ w ∈ post, w < 65536)
    (hlen : pre.length + post.length < 8) :
    pton6 ((if pre = [] then [58] else []) ++ pre.flatMap grpColon ++ 58 :: sepGroups post) =
      vec16 (gbytes pre ++ List.replicate (16 - 2 * (pre.length + post.length)) 0 ++ gbytes post) := by
  have fin : ∀ tok, go6 (58 :: sepGroups post) ⟨gbytes pre, none, 0, 0, tok⟩ =
      vec16 (gbytes pre ++ List.replicate (16 - 2 * (pre.length + post.length)) 0 ++ gbytes post) := by
    intro tok
    rw [go6_colon_mark, go6_sepGroups post hpost _ _ _ (by rw [gbytes_length]; omega)]
    have hl : ¬ 16 ≤ (gbytes pre ++ gbytes post).length := by simp [gbytes_length]; omega
    simp only [finish6, hl, if_false]
    simp [gbytes_length]
    rw [show 2 * pre.length + 2 * post.length = 2 * (pre.length + post.length) by omega]
  cases pre with
  | nil =>
    simp only [if_true, List.flatMap_nil, List.append_nil, List.singleton_append]
    rw [pton6, ]
    simp only [if_true]
    exact fin _
  | cons w r =>
    have hw : w < 65536 := hpre w (by simp)
    have e : ((if (w :: r) = [] then [58] else []) ++ (w :: r).flatMap grpColon ++ 58 :: sepGroups post) =
        hexG w ++ (58 :: (r.flatMap grpColon ++ 58 :: sepGroups post)) := by
      simp [grpColon, List.flatMap_cons]
    obtain ⟨tok', h⟩ := go6_grpColons (w :: r) hpre (58 :: sepGroups post) (by simp) [] none
      (hexG w ++ (58 :: (r.flatMap grpColon ++ 58 :: sepGroups post))) (by simp at hlen ⊢; omega)
    rw [e, pton6_hexG w hw]
    have e2 : hexG w ++ (58 :: (r.flatMap grpColon ++ 58 :: sepGroups post)) =
        (w :: r).flatMap grpColon ++ 58 :: sepGroups post := by simp [grpColon, List.flatMap_cons]
    rw [e2] at h ⊢
    rw [h]
    simpa using fin tok'

/-- eight groups without `::` -/
theorem pton6_full (ws : List Nat) (hws : ∀ w ∈ ws, w < 65536) (hlen : ws.length = 8) :
    pton6 (sepGroups ws) = vec16 (gbytes ws) := by
  cases ws with
  | nil => simp at hlen
  | cons w r =>
    have hw : w < 65536 := hws w (by simp)
    have hs : ∃ rest, sepGroups (w :: r) = hexG w ++ rest := by
      cases r with
      | nil => exact ⟨[], by simp [sepGroups]⟩
      | cons w' r' => exact ⟨_, rfl⟩
    obtain ⟨rest, hs⟩ := hs
    have := pton6_hexG w hw rest
    rw [← hs] at this
    rw [this, go6_sepGroups (w :: r) hws _ _ _ (by rw [hlen]; simp)]
    simp [finish6]

def validRuns : List (Nat × Nat) := [(0, 2), (0, 3), (0, 4), (0, 5), (0, 6), (0, 7), (0, 8), (1, 2), (1, 3), (1, 4), (1, 5), (1, 6), (1, 7), (2, 2), (2, 3), (2, 4), (2, 5), (2, 6), (3, 2), (3, 3), (3, 4), (3, 5), (4, 2), (4, 3), (4, 4), (5, 2), (5, 3), (6, 2)]

end PV.SockAddr

import PV.Model.Inet6Text
import PV.Lemmas.SockAddr
/-! Helper lemmas for the glibc IPv6 text model (`PV.Model.Inet6Text`): the parser `go6` reads back what
`hexG` / `ntop4` print, one group at a time. -/
namespace PV.SockAddr

/-! ### digits -/

theorem hexVal_hexDigit : ∀ d, d < 16 → hexVal (hexDigit d) = some d := by decide

theorem hexDigit_ne_colon : ∀ d, d < 16 → hexDigit d ≠ 58 := by decide

theorem go6_digit (d : Nat) (hd : d < 16) (r : List UInt8) (st : P6) (hs : st.seen < 4)
    (hv : st.val * 16 + d ≤ 0xffff) :
    go6 (hexDigit d :: r) st = go6 r { st with seen := st.seen + 1, val := st.val * 16 + d } := by
  have h4 : st.seen ≠ 4 := by omega
  have hv' : ¬ st.val * 16 + d > 0xffff := by omega
  simp only [go6, hexVal_hexDigit d hd, h4, hv', if_false]

theorem hexG_length (w : Nat) : 1 ≤ (hexG w).length ∧ (hexG w).length ≤ 4 := by
  unfold hexG; split
  · simp
  · split
    · simp
    · split <;> simp

theorem hexG_ne_nil (w : Nat) : hexG w ≠ [] := by
  intro h; have := (hexG_length w).1; rw [h] at this; simp at this

/-- the digits of a group are read back as its value -/
theorem go6_hexG (w : Nat) (hw : w < 65536) (rest acc : List UInt8) (colon : Option Nat) (tok : List UInt8) :
    go6 (hexG w ++ rest) ⟨acc, colon, 0, 0, tok⟩ = go6 rest ⟨acc, colon, (hexG w).length, w, tok⟩ := by
  unfold hexG
  split
  · rw [List.cons_append, List.nil_append, go6_digit _ (by omega) _ _ (by simp) (by simp; omega)]
    simp
  · split
    · rw [List.cons_append, List.cons_append, List.nil_append, go6_digit _ (by omega) _ _ (by simp) (by simp; omega),
        go6_digit _ (by omega) _ _ (by simp) (by simp; omega)]
      simp; rw [show w / 16 * 16 + w % 16 = w by omega]
    · split
      · rw [List.cons_append, List.cons_append, List.cons_append, List.nil_append,
          go6_digit _ (by omega) _ _ (by simp) (by simp; omega),
          go6_digit _ (by omega) _ _ (by simp) (by simp; omega), go6_digit _ (by omega) _ _ (by simp) (by simp; omega)]
        simp; rw [show (w / 256 * 16 + w / 16 % 16) * 16 + w % 16 = w by omega]
      · rw [List.cons_append, List.cons_append, List.cons_append, List.cons_append, List.nil_append,
          go6_digit _ (by omega) _ _ (by simp) (by simp; omega),
          go6_digit _ (by omega) _ _ (by simp) (by simp; omega), go6_digit _ (by omega) _ _ (by simp) (by simp; omega),
          go6_digit _ (by omega) _ _ (by simp) (by simp; omega)]
        simp; rw [show ((w / 4096 % 16 * 16 + w / 256 % 16) * 16 + w / 16 % 16) * 16 + w % 16 = w by omega]

/-! ### one group at a time -/

theorem hexVal_colon : hexVal 58 = none := by decide
theorem hexVal_dot : hexVal 46 = none := by decide

theorem go6_colon_store (rest acc : List UInt8) (colon : Option Nat) (k v : Nat) (tok : List UInt8)
    (hk : 0 < k) (hr : rest ≠ []) (ha : acc.length + 2 ≤ 16) :
    go6 (58 :: rest) ⟨acc, colon, k, v, tok⟩ = go6 rest ⟨acc ++ valBytes v, colon, 0, 0, rest⟩ := by
  have hk' : k ≠ 0 := by omega
  have ha' : ¬ acc.length + 2 > 16 := by omega
  simp only [go6, hexVal_colon, hk', hr, ha', if_true, if_false]

theorem go6_colon_mark (rest acc tok : List UInt8) :
    go6 (58 :: rest) ⟨acc, none, 0, 0, tok⟩ = go6 rest ⟨acc, some acc.length, 0, 0, rest⟩ := by
  simp [go6, hexVal_colon]

theorem go6_group_colon (w : Nat) (hw : w < 65536) (rest : List UInt8) (hr : rest ≠ []) (acc : List UInt8)
    (colon : Option Nat) (tok : List UInt8) (ha : acc.length + 2 ≤ 16) :
    go6 (hexG w ++ 58 :: rest) ⟨acc, colon, 0, 0, tok⟩ = go6 rest ⟨acc ++ valBytes w, colon, 0, 0, rest⟩ := by
  rw [go6_hexG w hw, go6_colon_store _ _ _ _ _ _ (hexG_length w).1 hr ha]

theorem go6_group_end (w : Nat) (hw : w < 65536) (acc : List UInt8) (colon : Option Nat) (tok : List UInt8)
    (ha : acc.length + 2 ≤ 16) :
    go6 (hexG w) ⟨acc, colon, 0, 0, tok⟩ = finish6 (acc ++ valBytes w) colon := by
  have h := go6_hexG w hw [] acc colon tok
  rw [List.append_nil] at h
  have h1 : (hexG w).length > 0 := (hexG_length w).1
  have ha' : ¬ acc.length + 2 > 16 := by omega
  rw [h]
  simp only [go6, h1, ha', if_true, if_false]

/-! ### lists of groups -/

/-- a group followed by ':' -/
def grpColon (w : Nat) : List UInt8 := hexG w ++ [58]

/-- groups separated by ':' -/
def sepGroups : List Nat → List UInt8
  | [] => []
  | [w] => hexG w
  | w :: w' :: r => hexG w ++ 58 :: sepGroups (w' :: r)

/-- the bytes `inet_pton6` stores for a list of groups -/
def gbytes (ws : List Nat) : List UInt8 := ws.flatMap valBytes

theorem gbytes_length (ws : List Nat) : (gbytes ws).length = 2 * ws.length := by
  induction ws with
  | nil => rfl
  | cons w r ih => simp [gbytes, valBytes] at ih ⊢; omega

theorem gbytes_cons (w : Nat) (r : List Nat) : gbytes (w :: r) = valBytes w ++ gbytes r := by simp [gbytes]

theorem gbytes_append (x y : List Nat) : gbytes (x ++ y) = gbytes x ++ gbytes y := by simp [gbytes]

theorem sepGroups_ne_nil (w : Nat) (r : List Nat) : sepGroups (w :: r) ≠ [] := by
  cases r with
  | nil => exact hexG_ne_nil w
  | cons w' r => simp [sepGroups, hexG_ne_nil]

theorem go6_sepGroups (ws : List Nat) (hws : ∀ w ∈ ws, w < 65536) (acc : List UInt8) (colon : Option Nat)
    (tok : List UInt8) (ha : acc.length + 2 * ws.length ≤ 16) :
    go6 (sepGroups ws) ⟨acc, colon, 0, 0, tok⟩ = finish6 (acc ++ gbytes ws) colon := by
  induction ws generalizing acc tok with
  | nil => simp [sepGroups, go6, gbytes]
  | cons w r ih =>
    have hw : w < 65536 := hws w (by simp)
    simp only [List.length_cons] at ha
    cases r with
    | nil =>
      simp only [sepGroups]
      rw [go6_group_end w hw acc colon tok (by omega)]
      simp [gbytes]
    | cons w' r' =>
      simp only [sepGroups]
      rw [go6_group_colon w hw _ (sepGroups_ne_nil w' r') acc colon tok (by omega)]
      rw [ih (fun x hx => hws x (by simp [hx])) _ _ (by simp [valBytes] at ha ⊢; omega)]
      rw [gbytes_cons w (w' :: r'), List.append_assoc]

theorem go6_grpColons (ws : List Nat) (hws : ∀ w ∈ ws, w < 65536) (rest : List UInt8) (hr : rest ≠ [])
    (acc : List UInt8) (colon : Option Nat) (tok : List UInt8) (ha : acc.length + 2 * ws.length ≤ 16) :
    ∃ tok', go6 (ws.flatMap grpColon ++ rest) ⟨acc, colon, 0, 0, tok⟩ = go6 rest ⟨acc ++ gbytes ws, colon, 0, 0, tok'⟩ := by
  induction ws generalizing acc tok with
  | nil => exact ⟨tok, by simp [gbytes]⟩
  | cons w r ih =>
    have hw : w < 65536 := hws w (by simp)
    simp only [List.length_cons] at ha
    have hne : r.flatMap grpColon ++ rest ≠ [] := by simp [hr]
    obtain ⟨tok', h⟩ := ih (fun x hx => hws x (by simp [hx])) (acc ++ valBytes w) (r.flatMap grpColon ++ rest)
      (by simp [valBytes] at ha ⊢; omega)
    refine ⟨tok', ?_⟩
    have e : (w :: r).flatMap grpColon ++ rest = hexG w ++ 58 :: (r.flatMap grpColon ++ rest) := by
      simp [grpColon, List.flatMap_cons]
    rw [e, go6_group_colon w hw _ hne acc colon tok (by omega), h, gbytes_cons, List.append_assoc]

theorem hexG_head (w : Nat) (hw : w < 65536) : ∃ d t, d < 16 ∧ hexG w = hexDigit d :: t := by
  unfold hexG
  split
  · exact ⟨w, [], by omega, rfl⟩
  · split
    · exact ⟨w / 16, _, by omega, rfl⟩
    · split
      · exact ⟨w / 256, _, by omega, rfl⟩
      · exact ⟨w / 4096 % 16, _, by omega, rfl⟩

/-- a text that starts with a group is handed to the loop as it is -/
theorem pton6_hexG (w : Nat) (hw : w < 65536) (rest : List UInt8) :
    pton6 (hexG w ++ rest) = go6 (hexG w ++ rest) ⟨[], none, 0, 0, hexG w ++ rest⟩ := by
  obtain ⟨d, t, hd, e⟩ := hexG_head w hw
  rw [e]
  simp [pton6, hexDigit_ne_colon d hd]

theorem pton6_coloncolon (rest : List UInt8) : pton6 (58 :: 58 :: rest) = go6 rest ⟨[], some 0, 0, 0, rest⟩ := by
  simp [pton6, go6_colon_mark]

/-- the groups before and after a `::` come back with the zeros between them -/
theorem pton6_compressed (pre post : List Nat) (hpre : ∀ w ∈ pre, w < 65536) (hpost : ∀ w ∈ post, w < 65536)
    (hlen : pre.length + post.length < 8) :
    pton6 ((if pre = [] then [58] else []) ++ pre.flatMap grpColon ++ 58 :: sepGroups post) =
      vec16 (gbytes pre ++ List.replicate (16 - 2 * (pre.length + post.length)) 0 ++ gbytes post) := by
  have fin : ∀ tok, go6 (58 :: sepGroups post) ⟨gbytes pre, none, 0, 0, tok⟩ =
      vec16 (gbytes pre ++ List.replicate (16 - 2 * (pre.length + post.length)) 0 ++ gbytes post) := by
    intro tok
    rw [go6_colon_mark, go6_sepGroups post hpost _ _ _ (by rw [gbytes_length]; omega)]
    have hl : ¬ 16 ≤ (gbytes pre ++ gbytes post).length := by simp [gbytes_length]; omega
    simp only [finish6, hl, if_false]
    simp [gbytes_length]
    rw [show 2 * pre.length + 2 * post.length = 2 * (pre.length + post.length) by omega]
  cases pre with
  | nil =>
    simp only [if_true, List.flatMap_nil, List.append_nil, List.singleton_append]
    rw [pton6, ]
    simp only [if_true]
    exact fin _
  | cons w r =>
    have hw : w < 65536 := hpre w (by simp)
    have e : ((if (w :: r) = [] then [58] else []) ++ (w :: r).flatMap grpColon ++ 58 :: sepGroups post) =
        hexG w ++ (58 :: (r.flatMap grpColon ++ 58 :: sepGroups post)) := by
      simp [grpColon, List.flatMap_cons]
    obtain ⟨tok', h⟩ := go6_grpColons (w :: r) hpre (58 :: sepGroups post) (by simp) [] none
      (hexG w ++ (58 :: (r.flatMap grpColon ++ 58 :: sepGroups post))) (by simp at hlen ⊢; omega)
    rw [e, pton6_hexG w hw]
    have e2 : hexG w ++ (58 :: (r.flatMap grpColon ++ 58 :: sepGroups post)) =
        (w :: r).flatMap grpColon ++ 58 :: sepGroups post := by simp [grpColon, List.flatMap_cons]
    rw [e2] at h ⊢
    rw [h]
    simpa using fin tok'

/-- eight groups without `::` -/
theorem pton6_full (ws : List Nat) (hws : ∀ w ∈ ws, w < 65536) (hlen : ws.length = 8) :
    pton6 (sepGroups ws) = vec16 (gbytes ws) := by
  cases ws with
  | nil => simp at hlen
  | cons w r =>
    have hw : w < 65536 := hws w (by simp)
    have hs : ∃ rest, sepGroups (w :: r) = hexG w ++ rest := by
      cases r with
      | nil => exact ⟨[], by simp [sepGroups]⟩
      | cons w' r' => exact ⟨_, rfl⟩
    obtain ⟨rest, hs⟩ := hs
    have := pton6_hexG w hw rest
    rw [← hs] at this
    rw [this, go6_sepGroups (w :: r) hws _ _ _ (by rw [hlen]; simp)]
    simp [finish6]

def validRuns : List (Nat × Nat) := [(0, 2), (0, 3), (0, 4), (0, 5), (0, 6), (0, 7), (0, 8), (1, 2), (1, 3), (1, 4), (1, 5), (1, 6), (1, 7), (2, 2), (2, 3), (2, 4), (2, 5), (2, 6), (3, 2), (3, 3), (3, 4), (3, 5), (4, 2), (4, 3), (4, 4), (5, 2), (5, 3), (6, 2)]

/-! ### the chosen run -/

/-- the run `inet_ntop6` compresses has at least two groups, lies within the eight, and every group in it is zero -/
def runOk (zs : List Bool) : Bool :=
  match bestRun zs with
  | none => true
  | some (b, l) => decide ((b, l) ∈ validRuns) &&
      (List.range 8).all (fun i => !(decide (b ≤ i) && decide (i < b + l)) || zs.getD i false)

/-- … whatever the eight zero flags -/
theorem bestRun_spec : ∀ z0 z1 z2 z3 z4 z5 z6 z7 : Bool, runOk [z0, z1, z2, z3, z4, z5, z6, z7] = true := by
  decide

theorem len8 {α : Type} (l : List α) (h : l.length = 8) : ∃ a b c d e f g i, l = [a, b, c, d, e, f, g, i] := by
  match l, h with
  | [a, b, c, d, e, f, g, i], _ => exact ⟨a, b, c, d, e, f, g, i, rfl⟩

/-! ### the shapes `inet_ntop6` prints -/

theorem ntop6With_none (ws : List Nat) (hlen : ws.length = 8) (t4 : List UInt8) : ntop6With ws none t4 = sepGroups ws := by
  obtain ⟨a, b, c, d, e, f, g, i, rfl⟩ := len8 ws hlen
  simp [ntop6With, render6, inBest, v4Tail, trailingColon, sepGroups]

theorem ntop6With_tail6 (ws : List Nat) (hlen : ws.length = 8) (t4 : List UInt8) :
    ntop6With ws (some (0, 6)) t4 = 58 :: 58 :: t4 := by
  obtain ⟨a, b, c, d, e, f, g, i, rfl⟩ := len8 ws hlen
  simp [ntop6With, render6, inBest, isBase, v4Tail, trailingColon]

theorem ntop6With_tail5 (ws : List Nat) (hlen : ws.length = 8) (t4 : List UInt8) (h5 : ws.getD 5 0 = 0xffff) :
    ntop6With ws (some (0, 5)) t4 = 58 :: 58 :: (hexG 0xffff ++ 58 :: t4) := by
  obtain ⟨a, b, c, d, e, f, g, i, rfl⟩ := len8 ws hlen
  simp at h5
  subst h5
  simp [ntop6With, render6, inBest, isBase, v4Tail, trailingColon]

theorem ntop6With_compress (ws : List Nat) (hlen : ws.length = 8) (b l : Nat) (h : (b, l) ∈ validRuns)
    (ht : v4Tail (some (b, l)) (ws.getD 5 0) = false) (t4 : List UInt8) :
    ntop6With ws (some (b, l)) t4 =
      (if ws.take b = [] then [58] else []) ++ (ws.take b).flatMap grpColon ++ 58 :: sepGroups (ws.drop (b + l)) := by
  obtain ⟨w0, w1, w2, w3, w4, w5, w6, w7, rfl⟩ := len8 ws hlen
  simp only [validRuns, List.mem_cons, Prod.mk.injEq, List.mem_nil_iff, or_false] at h
  rcases h with h | h | h | h | h | h | h | h | h | h | h | h | h | h | h | h | h | h | h | h | h | h | h | h | h | h | h | h <;>
    (obtain ⟨rfl, rfl⟩ := h
     simp only [List.getD_eq_getElem?_getD, List.getElem?_cons_succ, List.getElem?_cons_zero, Option.getD_some] at ht
     simp [ntop6With, ht, render6, inBest, isBase, trailingColon, sepGroups, grpColon])

/-! ### the dotted tail -/

theorem decByte_eq (b : UInt8) : decByte b =
    if b.toNat ≥ 100 then [hexDigit (b.toNat / 100), hexDigit (b.toNat / 10 % 10), hexDigit (b.toNat % 10)]
    else if b.toNat ≥ 10 then [hexDigit (b.toNat / 10), hexDigit (b.toNat % 10)]
    else [hexDigit b.toNat] := by
  have hb := u8_lt b
  unfold decByte
  simp only []
  split
  · have h1 : b.toNat / 100 < 10 := by omega
    have h2 : b.toNat / 10 % 10 < 10 := by omega
    have h3 : b.toNat % 10 < 10 := by omega
    simp [hexDigit, h1, h2, h3]
  · split
    · have h1 : b.toNat / 10 < 10 := by omega
      have h3 : b.toNat % 10 < 10 := by omega
      simp [hexDigit, h1, h3]
    · have h1 : b.toNat < 10 := by omega
      simp [hexDigit, h1]

theorem go6_dot (rest acc : List UInt8) (colon : Option Nat) (k v : Nat) (tok : List UInt8) :
    go6 (46 :: rest) ⟨acc, colon, k, v, tok⟩ =
      if acc.length + 4 ≤ 16 then
        match pton4 tok with
        | some x => finish6 (acc ++ x.toList) colon
        | none => none
      else none := by
  have h : (46 : UInt8) ≠ 58 := by decide
  simp only [go6, hexVal_dot, h, if_false, true_and]
  rfl

/-- the first octet of a dotted quad is read as hex digits, the '.' then hands the token to `inet_pton4` -/
theorem go6_decByte_dot (b : UInt8) (rest acc : List UInt8) (colon : Option Nat) (tok : List UInt8) :
    go6 (decByte b ++ 46 :: rest) ⟨acc, colon, 0, 0, tok⟩ =
      if acc.length + 4 ≤ 16 then
        match pton4 tok with
        | some x => finish6 (acc ++ x.toList) colon
        | none => none
      else none := by
  have hb := u8_lt b
  rw [decByte_eq]
  split
  · rw [List.cons_append, List.cons_append, List.cons_append, List.nil_append,
      go6_digit _ (by omega) _ _ (by simp) (by simp; omega), go6_digit _ (by omega) _ _ (by simp) (by simp; omega),
      go6_digit _ (by omega) _ _ (by simp) (by simp; omega), go6_dot]
  · split
    · rw [List.cons_append, List.cons_append, List.nil_append,
        go6_digit _ (by omega) _ _ (by simp) (by simp; omega), go6_digit _ (by omega) _ _ (by simp) (by simp; omega), go6_dot]
    · rw [List.cons_append, List.nil_append, go6_digit _ (by omega) _ _ (by simp) (by simp; omega), go6_dot]

theorem ntop4_shape (t : Vector UInt8 4) : ∃ rest, ntop4 t = decByte t[0] ++ 46 :: rest := ⟨_, rfl⟩

theorem ntop4_ne_nil (t : Vector UInt8 4) : ntop4 t ≠ [] := by
  obtain ⟨r, h⟩ := ntop4_shape t
  rw [h]; simp

theorem go6_ntop4 (t : Vector UInt8 4) (acc : List UInt8) (colon : Option Nat) (ha : acc.length + 4 ≤ 16) :
    go6 (ntop4 t) ⟨acc, colon, 0, 0, ntop4 t⟩ = finish6 (acc ++ t.toList) colon := by
  obtain ⟨r, h⟩ := ntop4_shape t
  have := go6_decByte_dot t[0] r acc colon (ntop4 t)
  rw [← h] at this
  rw [this, pton4_ntop4]
  simp [ha]

/-- `::a.b.c.d` -/
theorem pton6_tail6 (t : Vector UInt8 4) :
    pton6 (58 :: 58 :: ntop4 t) = vec16 (List.replicate 12 0 ++ t.toList) := by
  rw [pton6_coloncolon, go6_ntop4 t [] (some 0) (by simp)]
  simp [finish6]

/-- `::ffff:a.b.c.d` -/
theorem pton6_tail5 (t : Vector UInt8 4) :
    pton6 (58 :: 58 :: (hexG 0xffff ++ 58 :: ntop4 t)) = vec16 (List.replicate 10 0 ++ valBytes 0xffff ++ t.toList) := by
  rw [pton6_coloncolon, go6_group_colon 0xffff (by decide) _ (ntop4_ne_nil t) [] (some 0) _ (by simp),
    go6_ntop4 t _ (some 0) (by simp [valBytes])]
  simp [finish6, valBytes]

/-! ### words and bytes -/

theorem valBytes_word (x y : UInt8) : valBytes (x.toNat * 256 + y.toNat) = [x, y] := by
  have hx := u8_lt x
  have hy := u8_lt y
  have e1 : (x.toNat * 256 + y.toNat) / 256 = x.toNat := by omega
  have e2 : (x.toNat * 256 + y.toNat) % 256 = y.toNat := by omega
  simp [valBytes, e1, e2]

theorem gbytes_words6 (a : Vector UInt8 16) : gbytes (words6 a) = a.toList := by
  simp [words6, gbytes, valBytes_word, toList16 a]

theorem words6_lt (a : Vector UInt8 16) : ∀ w ∈ words6 a, w < 65536 := by
  intro w hw
  simp only [words6, List.mem_cons, List.mem_nil_iff, or_false] at hw
  rcases hw with h | h | h | h | h | h | h | h <;>
    (subst h
     have h1 := u8_lt (a[0]); have h2 := u8_lt (a[1]); have h3 := u8_lt (a[2]); have h4 := u8_lt (a[3])
     have h5 := u8_lt (a[4]); have h6 := u8_lt (a[5]); have h7 := u8_lt (a[6]); have h8 := u8_lt (a[7])
     have h9 := u8_lt (a[8]); have h10 := u8_lt (a[9]); have h11 := u8_lt (a[10]); have h12 := u8_lt (a[11])
     have h13 := u8_lt (a[12]); have h14 := u8_lt (a[13]); have h15 := u8_lt (a[14]); have h16 := u8_lt (a[15])
     omega)

theorem vec16_toList (a : Vector UInt8 16) : vec16 a.toList = some a := by
  simp [vec16, Vector.toList]

theorem gbytes_replicate_zero (l : Nat) : gbytes (List.replicate l 0) = List.replicate (2 * l) 0 := by
  induction l with
  | zero => rfl
  | succ n ih =>
    rw [List.replicate_succ, gbytes_cons, ih, show 2 * (n + 1) = 2 * n + 1 + 1 by omega, List.replicate_succ, List.replicate_succ]
    simp [valBytes]

/-- a run of zero groups inside a list of groups, as bytes -/
theorem gbytes_zero_run (ws : List Nat) (b l : Nat) (hbl : b + l ≤ ws.length)
    (hz : ∀ i, b ≤ i → i < b + l → ws.getD i 1 = 0) :
    gbytes (ws.take b) ++ List.replicate (2 * l) 0 ++ gbytes (ws.drop (b + l)) = gbytes ws := by
  have hmid : (ws.drop b).take l = List.replicate l 0 := by
    apply List.ext_getElem
    · simp; omega
    · intro i h1 h2
      simp at h1
      have := hz (b + i) (by omega) (by omega)
      simp [List.getD_eq_getElem?_getD, List.getElem?_eq_getElem (show b + i < ws.length by omega)] at this
      simp [this]
  have hsplit : ws = ws.take b ++ ((ws.drop b).take l ++ ws.drop (b + l)) := by
    rw [← List.drop_drop, List.take_append_drop, List.take_append_drop]
  conv => rhs; rw [hsplit]
  rw [gbytes_append, gbytes_append, hmid, gbytes_replicate_zero, List.append_assoc]

theorem validRuns_bounds : ∀ p ∈ validRuns, 2 ≤ p.2 ∧ p.1 + p.2 ≤ 8 := by decide

theorem zero_of_flag (ws : List Nat) (i : Nat) (h : (ws.map (· == 0)).getD i false = true) : ws.getD i 1 = 0 := by
  simp only [List.getD_eq_getElem?_getD, List.getElem?_map] at h ⊢
  cases hi : ws[i]? with
  | none => simp [hi] at h
  | some x => simpa [hi] using h

/-! ### the round trip -/

theorem pton6_ntop6 (a : Vector UInt8 16) : pton6 (ntop6 a) = some a := by
  have hlen : (words6 a).length = 8 := rfl
  have hws := words6_lt a
  have hbytes := gbytes_words6 a
  have hspec : runOk ((words6 a).map (· == 0)) = true := bestRun_spec _ _ _ _ _ _ _ _
  unfold ntop6
  unfold runOk at hspec
  cases hb : bestRun ((words6 a).map (· == 0)) with
  | none => rw [ntop6With_none _ hlen, pton6_full _ hws hlen, hbytes, vec16_toList]
  | some r =>
    obtain ⟨b, l⟩ := r
    rw [hb] at hspec
    simp only [Bool.and_eq_true, decide_eq_true_eq, List.all_eq_true, List.mem_range, Bool.or_eq_true,
      Bool.not_eq_true', Bool.and_eq_false_imp] at hspec
    obtain ⟨hmem, hall⟩ := hspec
    obtain ⟨hl2, hbl⟩ := validRuns_bounds _ hmem
    simp only at hl2 hbl
    have hz : ∀ i, b ≤ i → i < b + l → (words6 a).getD i 1 = 0 := by
      intro i h1 h2
      apply zero_of_flag
      rcases hall i (by omega) with h | h
      · simp at h; omega
      · exact h
    have hrun := gbytes_zero_run (words6 a) b l (by rw [hlen]; exact hbl) hz
    rw [hbytes] at hrun
    by_cases ht : v4Tail (some (b, l)) ((words6 a).getD 5 0) = true
    · have hb0 : b = 0 ∧ (l = 6 ∨ (l = 5 ∧ (words6 a).getD 5 0 = 0xffff)) := by
        simpa [v4Tail] using ht
      obtain ⟨rfl, h6 | ⟨rfl, h5⟩⟩ := hb0
      · subst h6
        rw [ntop6With_tail6 _ hlen, pton6_tail6]
        have e : gbytes ((words6 a).drop (0 + 6)) = (#v[a[12], a[13], a[14], a[15]] : Vector UInt8 4).toList := by
          simp [words6, gbytes, valBytes_word]
        rw [e] at hrun
        simp only [List.take_zero] at hrun
        rw [show gbytes [] = [] from rfl, List.nil_append] at hrun
        rw [hrun, vec16_toList]
      · rw [ntop6With_tail5 _ hlen _ h5, pton6_tail5]
        have e : gbytes ((words6 a).drop (0 + 5)) = valBytes 0xffff ++ (#v[a[12], a[13], a[14], a[15]] : Vector UInt8 4).toList := by
          have : (words6 a).drop 5 = [(words6 a).getD 5 0, a[12].toNat * 256 + a[13].toNat, a[14].toNat * 256 + a[15].toNat] := by
            simp [words6]
          rw [Nat.zero_add, this, h5]
          simp [gbytes, valBytes_word]
        rw [e] at hrun
        simp only [List.take_zero] at hrun
        rw [show gbytes [] = [] from rfl, List.nil_append, ← List.append_assoc] at hrun
        rw [hrun, vec16_toList]
    · have ht' : v4Tail (some (b, l)) ((words6 a).getD 5 0) = false := by simpa using ht
      rw [ntop6With_compress _ hlen b l hmem ht']
      have hpl : ((words6 a).take b).length + ((words6 a).drop (b + l)).length < 8 := by
        simp [hlen]; omega
      rw [pton6_compressed _ _ (fun w hw => hws w (List.mem_of_mem_take hw)) (fun w hw => hws w (List.mem_of_mem_drop hw)) hpl]
      have e : 16 - 2 * (((words6 a).take b).length + ((words6 a).drop (b + l)).length) = 2 * l := by
        simp [hlen]; omega
      rw [e, hrun, vec16_toList]

/-! ### an IPv6 text always has a ':' and `inet_pton4` takes no text with ':' -/

theorem ntop6_has_colon (a : Vector UInt8 16) : (ntop6 a).contains 58 = true := by
  have hlen : (words6 a).length = 8 := rfl
  have hspec : runOk ((words6 a).map (· == 0)) = true := bestRun_spec _ _ _ _ _ _ _ _
  unfold ntop6
  unfold runOk at hspec
  cases hb : bestRun ((words6 a).map (· == 0)) with
  | none =>
    rw [ntop6With_none _ hlen]
    simp [words6, sepGroups]
  | some r =>
    obtain ⟨b, l⟩ := r
    rw [hb] at hspec
    simp only [Bool.and_eq_true, decide_eq_true_eq] at hspec
    obtain ⟨hmem, _⟩ := hspec
    by_cases ht : v4Tail (some (b, l)) ((words6 a).getD 5 0) = true
    · have hb0 : b = 0 ∧ (l = 6 ∨ (l = 5 ∧ (words6 a).getD 5 0 = 0xffff)) := by
        simpa [v4Tail] using ht
      obtain ⟨rfl, h6 | ⟨rfl, h5⟩⟩ := hb0
      · subst h6
        rw [ntop6With_tail6 _ hlen]; simp
      · rw [ntop6With_tail5 _ hlen _ h5]; simp
    · have ht' : v4Tail (some (b, l)) ((words6 a).getD 5 0) = false := by simpa using ht
      rw [ntop6With_compress _ hlen b l hmem ht']
      simp

theorem parseOctetGo_colon (f : List UInt8) (h : 58 ∈ f) (saw : Bool) (cur : Nat) : parseOctetGo f saw cur = none := by
  induction f generalizing saw cur with
  | nil => simp at h
  | cons c r ih =>
    by_cases hc : c = 58
    · subst hc
      simp [parseOctetGo]
    · have hr : 58 ∈ r := by
        rcases List.mem_cons.1 h with h | h
        · exact absurd h.symm hc
        · exact h
      unfold parseOctetGo
      split
      · simp only []
        split
        · rfl
        · split
          · rfl
          · exact ih hr _ _
      · rfl

theorem splitDot_mem (s : List UInt8) (c : UInt8) (hc : c ∈ s) (hd : c ≠ dot) :
    c ∈ (splitDot s).1 ∨ ∃ f ∈ (splitDot s).2, c ∈ f := by
  induction s with
  | nil => simp at hc
  | cons x r ih =>
    simp only [splitDot]
    by_cases hx : x = dot
    · have : c ∈ r := by
        rcases List.mem_cons.1 hc with h | h
        · exact absurd (h.trans hx) hd
        · exact h
      rcases ih this with h | ⟨f, hf, hcf⟩
      · exact Or.inr ⟨_, by simp [hx], h⟩
      · exact Or.inr ⟨f, by simp [hx, hf], hcf⟩
    · rcases List.mem_cons.1 hc with h | h
      · exact Or.inl (by simp [hx, h])
      · rcases ih h with h' | ⟨f, hf, hcf⟩
        · exact Or.inl (by simp [hx, h'])
        · exact Or.inr ⟨f, by simp [hx, hf], hcf⟩

theorem pton4_colon (s : List UInt8) (h : 58 ∈ s) : pton4 s = none := by
  have hm := splitDot_mem s 58 h (by decide)
  unfold pton4
  split
  · rename_i f0 f1 f2 f3 heq
    rw [heq] at hm
    have hp : ∀ f, 58 ∈ f → parseOctet f = none := fun f hf => parseOctetGo_colon f hf _ _
    rcases hm with h0 | ⟨f, hf, hcf⟩
    · simp [hp f0 h0]
    · simp only [List.mem_cons, List.mem_nil_iff, or_false] at hf
      rcases hf with rfl | rfl | rfl
      · simp [hp _ hcf]
      · simp [hp _ hcf]
      · simp [hp _ hcf]
  · rfl

end PV.SockAddr

import PV.Model.RWLock
/-! Lemmas for C02 (read-write lock, general model).

1. the packed counter words: `pack r w`, the four macros on it (bit level, counts < 2^15);
2. `localStepN`: the thread-local step of the reference configuration on natural-number counters,
   and the refinement `localStep Cfg.reference (pack …) (pack …) = localStepN …`;
3. the invariant `Inv` (refinement of the counters by the numbers of holders / waiters, mutex
   ownership, discipline of the programs, the wake-up invariants) and its preservation;
4. progress (`no_deadlock`) and the termination measure. -/
namespace PV.RWLock
open PV.Generated.RWLock

/-! ## 1. packed words -/

/-- the word holding `r` in the reader field and `w` in the writer field -/
def pack (r w : Nat) : Word := BitVec.ofNat 32 (r + w * 2^15)

theorem testBit_pack (r w : Nat) (hr : r < 2^15) (i : Nat) :
    (r + w * 2^15).testBit i = if i < 15 then r.testBit i else w.testBit (i - 15) := by
  rw [Nat.add_comm, Nat.mul_comm]
  exact Nat.testBit_two_pow_mul_add w hr i

theorem maskR_bits : ∀ i, i < 32 → (0x00007FFF : Nat).testBit i = decide (i < 15) := by decide
theorem maskW_bits : ∀ i, i < 32 → (0x3FFF8000 : Nat).testBit i = (decide (15 ≤ i) && decide (i < 30)) := by decide

theorem testBit_hi (w : Nat) (hw : w < 2^15) (j : Nat) (hj : 15 ≤ j) : w.testBit j = false := by
  apply Nat.testBit_lt_two_pow
  exact Nat.lt_of_lt_of_le hw (Nat.pow_le_pow_right (by decide) hj)

theorem READER_COUNT_pack (r w : Nat) (hr : r < 2^15) : READER_COUNT (pack r w) = BitVec.ofNat 32 r := by
  apply BitVec.eq_of_getLsbD_eq
  intro i hi
  simp only [READER_COUNT, pack, readerCountMask, BitVec.getLsbD_and, BitVec.getLsbD_ofNat, testBit_pack r w hr, maskR_bits i hi]
  by_cases h : i < 15
  · simp [h, hi]
  · simp [h, hi, testBit_hi r hr i (by omega)]

theorem WRITER_COUNT_pack (r w : Nat) (hr : r < 2^15) (hw : w < 2^15) : WRITER_COUNT (pack r w) = BitVec.ofNat 32 w := by
  apply BitVec.eq_of_getLsbD_eq
  intro i hi
  simp only [WRITER_COUNT, pack, writerCountMask, writerCountShift, BitVec.getLsbD_ushiftRight, BitVec.getLsbD_and,
    BitVec.getLsbD_ofNat, testBit_pack r w hr]
  by_cases h : 15 + i < 32
  · rw [maskW_bits _ h]
    by_cases h2 : i < 15
    · have : ¬ (15 + i < 15) := by omega
      have e : 15 + i - 15 = i := by omega
      simp [h, hi, this, e]; omega
    · simp [h, hi, testBit_hi w hw i (by omega)]; omega
  · simp [h, hi, testBit_hi w hw i (by omega)]

theorem SET_READERS_pack (r w r' : Nat) (hr : r < 2^15) (hr' : r' < 2^15) :
    SET_READERS (pack r w) (BitVec.ofNat 32 r') = pack r' w := by
  apply BitVec.eq_of_getLsbD_eq
  intro i hi
  simp only [SET_READERS, pack, setReadersMask, BitVec.getLsbD_or, BitVec.getLsbD_and, BitVec.getLsbD_not, BitVec.getLsbD_ofNat,
    testBit_pack r w hr, testBit_pack r' w hr', maskR_bits i hi]
  by_cases h : i < 15
  · simp [h, hi]
  · simp [h, hi, testBit_hi r' hr' i (by omega)]

theorem SET_WRITERS_pack (r w w' : Nat) (hr : r < 2^15) (hw : w < 2^15) (hw' : w' < 2^15) :
    SET_WRITERS (pack r w) (BitVec.ofNat 32 w') = pack r w' := by
  apply BitVec.eq_of_getLsbD_eq
  intro i hi
  simp only [SET_WRITERS, pack, setWritersMask, setWritersShift, BitVec.getLsbD_or, BitVec.getLsbD_and, BitVec.getLsbD_not,
    BitVec.getLsbD_shiftLeft, BitVec.getLsbD_ofNat, testBit_pack r w hr, testBit_pack r w' hr, maskW_bits i hi]
  by_cases h : i < 15
  · simp [h, hi]
  · by_cases h3 : i < 30
    · have h1 : 15 ≤ i := by omega
      have h2 : i - 15 < 32 := by omega
      simp [h, hi, h3, h1, h2]
    · simp [h, hi, h3, testBit_hi w' hw' (i-15) (by omega)]
      exact testBit_hi w hw (i-15) (by omega)

theorem ofNat32_inj (a b : Nat) (ha : a < 2^32) (hb : b < 2^32) : BitVec.ofNat 32 a = BitVec.ofNat 32 b ↔ a = b := by
  constructor
  · intro h
    have := congrArg BitVec.toNat h
    simpa [BitVec.toNat_ofNat, Nat.mod_eq_of_lt ha, Nat.mod_eq_of_lt hb] using this
  · intro h; rw [h]

theorem pack_eq_zero (r w : Nat) (hr : r < 2^15) (hw : w < 2^15) : pack r w = 0 ↔ r = 0 ∧ w = 0 := by
  have : pack r w = BitVec.ofNat 32 0 ↔ r + w * 2^15 = 0 := ofNat32_inj _ _ (by omega) (by decide)
  constructor
  · intro h; have := this.mp h; omega
  · intro h; apply this.mpr; omega

theorem ofNat32_eq_zero (a : Nat) (ha : a < 2^15) : BitVec.ofNat 32 a = 0#32 ↔ a = 0 :=
  ofNat32_inj a 0 (by omega) (by decide)

theorem ofNat32_eq_one (a : Nat) (ha : a < 2^15) : BitVec.ofNat 32 a = 1#32 ↔ a = 1 :=
  ofNat32_inj a 1 (by omega) (by decide)

theorem ofNat32_add_one (a : Nat) : BitVec.ofNat 32 a + 1#32 = BitVec.ofNat 32 (a + 1) := by
  apply BitVec.eq_of_toNat_eq; simp [BitVec.toNat_add, BitVec.toNat_ofNat]

theorem ofNat32_sub_one (a : Nat) (h1 : 1 ≤ a) (ha : a < 2^15) : BitVec.ofNat 32 a - 1#32 = BitVec.ofNat 32 (a - 1) := by
  apply BitVec.eq_of_toNat_eq
  have ha' : a < 2^32 := by omega
  simp [BitVec.toNat_sub, BitVec.toNat_ofNat, Nat.mod_eq_of_lt ha']
  omega

/-! the macros on an arbitrary word: SET then COUNT gives the value back, the other field is untouched -/

theorem ofNat_bits_hi (n : Nat) (hn : n < 2^15) (i : Nat) (hi : 15 ≤ i) : (BitVec.ofNat 32 n).getLsbD i = false := by
  simp [BitVec.getLsbD_ofNat, testBit_hi n hn i hi]

theorem ofNat_bits_hi' (n : Nat) (hn : n < 2^15) (i : Nat) (hi : 15 ≤ i) (h32 : i < 32) : (BitVec.ofNat 32 n)[i] = false := by
  have := ofNat_bits_hi n hn i hi
  rwa [BitVec.getLsbD_eq_getElem h32] at this

theorem READER_COUNT_SET_READERS (x : Word) (r : Nat) (hr : r < 2^15) : READER_COUNT (SET_READERS x (BitVec.ofNat 32 r)) = BitVec.ofNat 32 r := by
  apply BitVec.eq_of_getLsbD_eq
  intro i hi
  simp only [READER_COUNT, SET_READERS, readerCountMask, setReadersMask, BitVec.getLsbD_and, BitVec.getLsbD_or, BitVec.getLsbD_not,
    BitVec.getLsbD_ofNat (x := 0x00007FFF), maskR_bits i hi]
  by_cases h : i < 15
  · simp [h, hi]
  · simp [h, hi, ofNat_bits_hi' r hr i (by omega) hi]

theorem WRITER_COUNT_SET_READERS (x : Word) (r : Nat) (hr : r < 2^15) : WRITER_COUNT (SET_READERS x (BitVec.ofNat 32 r)) = WRITER_COUNT x := by
  apply BitVec.eq_of_getLsbD_eq
  intro i hi
  simp only [WRITER_COUNT, SET_READERS, writerCountMask, writerCountShift, setReadersMask, BitVec.getLsbD_ushiftRight, BitVec.getLsbD_and, BitVec.getLsbD_or, BitVec.getLsbD_not,
    BitVec.getLsbD_ofNat (x := 0x00007FFF), BitVec.getLsbD_ofNat (x := 0x3FFF8000)]
  by_cases h : 15 + i < 32
  · rw [maskR_bits _ h, maskW_bits _ h]
    have : ¬ (15 + i < 15) := by omega
    simp [h, this, ofNat_bits_hi' r hr (15+i) (by omega) h]
  · have : (BitVec.ofNat 32 r).getLsbD (15+i) = false := ofNat_bits_hi r hr _ (by omega)
    simp [h, this]

theorem WRITER_COUNT_SET_WRITERS (x : Word) (w : Nat) (hw : w < 2^15) : WRITER_COUNT (SET_WRITERS x (BitVec.ofNat 32 w)) = BitVec.ofNat 32 w := by
  apply BitVec.eq_of_getLsbD_eq
  intro i hi
  simp only [WRITER_COUNT, SET_WRITERS, writerCountMask, writerCountShift, setWritersMask, setWritersShift, BitVec.getLsbD_ushiftRight, BitVec.getLsbD_shiftLeft, BitVec.getLsbD_and, BitVec.getLsbD_or, BitVec.getLsbD_not,
    BitVec.getLsbD_ofNat (x := 0x3FFF8000)]
  by_cases h : 15 + i < 32
  · rw [maskW_bits _ h]
    by_cases h2 : i < 15
    · have e : 15 + i - 15 = i := by omega
      have : ¬ (15 + i < 15) := by omega
      have h30 : 15 + i < 30 := by omega
      simp [h, e, this, h30]
    · simp [h, ofNat_bits_hi w hw i (by omega)]
  · have : (BitVec.ofNat 32 w).getLsbD i = false := ofNat_bits_hi w hw _ (by omega)
    simp [h, this]

theorem READER_COUNT_SET_WRITERS (x : Word) (w : Word) : READER_COUNT (SET_WRITERS x w) = READER_COUNT x := by
  apply BitVec.eq_of_getLsbD_eq
  intro i hi
  simp only [READER_COUNT, SET_WRITERS, readerCountMask, setWritersMask, setWritersShift, BitVec.getLsbD_shiftLeft, BitVec.getLsbD_and, BitVec.getLsbD_or, BitVec.getLsbD_not,
    BitVec.getLsbD_ofNat (x := 0x00007FFF), BitVec.getLsbD_ofNat (x := 0x3FFF8000), maskR_bits i hi, maskW_bits i hi]
  by_cases h : i < 15
  · have : ¬ (15 ≤ i) := by omega
    simp [h, hi, this]
  · simp [h, hi]


end PV.RWLock

import PV.Lemmas.RWLock.Api
/-! C02 lemmas, part 6: the SAFETY half of the invariant survives failing primitive calls.

`Inv` (part 3) contains the liveness bookkeeping (who owns the internal mutex, no lost wake-up);
those clauses are false once a primitive call may fail (a failed `p_mutex_unlock` wedges the internal
mutex, a failed signal loses a wake-up).  `InvS` keeps the clauses the safety statements need — the
per-thread consistency, the two counter words = the numbers of (ghost) holders / of threads inside
the wait blocks, writer exclusion — and is preserved by thread steps, spurious wake-ups AND `failStep`. -/
namespace PV.RWLock

/-- per-thread consistency without the parts that failing calls break: a thread may have stopped
    (`done`) still holding, and a blocking acquire may be about to return FALSE -/
def TOKS (th : Thread) : Bool :=
  match th.pc with
  | .done => true
  | .atUnlock op ret =>
    if op.isAcq then Disc (op :: th.prog) && th.held == (if ret then op.heldBy else .none)
    else th.held == .none && Disc th.prog
  | _ => TOK th

theorem TOK_imp_TOKS {th : Thread} (h : TOK th = true) : TOKS th = true := by
  unfold TOKS
  cases hpc : th.pc with
  | done => rfl
  | atUnlock op ret =>
    unfold TOK at h; rw [hpc] at h
    by_cases ha : op.isAcq = true
    · simp only [ha, if_true, Bool.and_eq_true] at h ⊢; exact h.1
    · simp only [ha] at h ⊢; exact h
  | _ => exact h

theorem TOKS_wake (cv : Cv) (th : Thread) (hb : isBlockedOn cv th = true) : TOKS (wakeThread th) = TOKS th := by
  have h := TOK_wake cv th hb
  unfold isBlockedOn at hb
  cases hpc : th.pc <;> simp [hpc] at hb
  · rename_i op c
    have h1 : (wakeThread th).pc = .woken op c := by simp [wakeThread, hpc]
    unfold TOKS; rw [h1, hpc]; exact h

structure InvS (s : State) : Prop where
  tok : ∀ th ∈ s.threads, TOKS th = true
  len : s.threads.length < 2^15
  act : s.active = pack (cnt heldR s.threads) (cnt heldW s.threads)
  wai : s.waiting = pack (cnt (inWait .read) s.threads) (cnt (inWait .write) s.threads)
  /-- at most one writer holds, and then no reader holds -/
  safe : cnt heldW s.threads ≤ 1 ∧ (1 ≤ cnt heldW s.threads → cnt heldR s.threads = 0)

theorem Inv.toS {s : State} (h : Inv s) : InvS s :=
  ⟨fun th hth => TOK_imp_TOKS (h.tok th hth), h.len, h.act, h.wai, h.safe⟩

theorem localStep_refinesS (N : Nat) (hN : N < 2^15) (r w wr ww : Nat) (th : Thread)
    (htok : TOKS th = true)
    (h1 : Fits N r (heldR th)) (h2 : Fits N w (heldW th))
    (h3 : Fits N wr (inWait .read th)) (h4 : Fits N ww (inWait .write th)) :
    localStep Cfg.reference (pack r w) (pack wr ww) th = (localStepN r w wr ww th).map OutN.toOut := by
  cases hpc : th.pc with
  | done => simp [localStep, localStepN, hpc]
  | atUnlock op ret => simp [localStep, localStepN, OutN.toOut, hpc]
  | _ =>
    refine localStep_refines N hN r w wr ww th ?_ h1 h2 h3 h4
    unfold TOKS at htok; rw [hpc] at htok; exact htok

/-- what a step is, in terms of the counter-level local step (safety invariant only) -/
theorem step_specS {s s' : State} {t : Tid} {pick : Option Tid} (hinv : InvS s)
    (h : stepThread Cfg.reference s t pick = some s') :
    ∃ th o, s.threads[t]? = some th ∧
      localStepN (cnt heldR s.threads) (cnt heldW s.threads) (cnt (inWait .read) s.threads) (cnt (inWait .write) s.threads) th = some o ∧
      applyWake (s.threads.set t o.th) o.wake pick = some s'.threads ∧
      s'.active = pack o.r o.w ∧ s'.waiting = pack o.wr o.ww := by
  unfold stepThread at h
  cases hth : s.threads[t]? with
  | none => simp [hth] at h
  | some th =>
    simp only [hth] at h
    have hm : th ∈ s.threads := List.mem_of_getElem? hth
    have href := localStep_refinesS s.threads.length hinv.len _ _ _ _ th (hinv.tok th hm)
      (fits_of_get hth) (fits_of_get hth) (fits_of_get hth) (fits_of_get hth)
    rw [← hinv.act, ← hinv.wai] at href
    by_cases hmx : (th.pc.needsMutex && s.mutex.isSome) = true
    · simp [hmx] at h
    · simp only [hmx] at h
      rw [href] at h
      cases hl : localStepN (cnt heldR s.threads) (cnt heldW s.threads) (cnt (inWait .read) s.threads) (cnt (inWait .write) s.threads) th with
      | none => simp [hl] at h
      | some o =>
        simp only [hl, Option.map_some, OutN.toOut] at h
        cases hw : applyWake (s.threads.set t o.th) o.wake pick with
        | none => simp [hw] at h
        | some ths =>
          simp only [hw] at h
          have h' := Option.some.inj h
          subst h'
          exact ⟨th, o, rfl, hl, hw, rfl, rfl⟩

/-- `finish` restores the full per-thread consistency (the thread is at the entry of its next call) -/
theorem TOKS_finish (prog : List Op) (held : Held) (last) (op : Op) (ret : Bool)
    (h : TOKS { pc := .atUnlock op ret, prog := prog, held := held, last := last } = true) :
    TOK (finish { pc := .atUnlock op ret, prog := prog, held := held, last := last } op ret) = true := by
  by_cases ha : op.isAcq = true
  · simp only [TOKS, ha, if_true, Bool.and_eq_true] at h
    obtain ⟨hd, hh⟩ := h
    cases prog with
    | nil => simp [Disc] at hd
    | cons b rest =>
      obtain ⟨_, h2, h3⟩ := Disc_tail2 hd
      subst h2
      have hh' : held = (if ret = true then op.heldBy else Held.none) := by simpa using hh
      cases ret with
      | true =>
        simp only [finish, ha, Bool.not_true, Bool.and_false]
        cases op <;> simp_all [TOK, Op.isAcq, Op.rel, Op.heldBy]
      | false =>
        simp only [finish, ha, Bool.not_false, Bool.and_true, if_true]
        simp at hh'
        subst hh'
        exact TOK_start_of_Disc rest h3 _
  · have ha' : op.isAcq = false := by simpa using ha
    simp only [TOKS, ha'] at h
    simp at h
    obtain ⟨hh, hd⟩ := h
    subst hh
    simp only [finish, ha', Bool.false_and]
    exact TOK_start_of_Disc prog hd _

/-! ### preservation by a thread step -/

set_option hygiene false in
macro "deltasS" h:term "," a:term "with" es:Lean.Parser.Tactic.simpLemma,* : tactic => `(tactic| (
  have dR := countP_set_add heldR _ _ $a _ $h
  have dW := countP_set_add heldW _ _ $a _ $h
  have dwr := countP_set_add (inWait .read) _ _ $a _ $h
  have dww := countP_set_add (inWait .write) _ _ $a _ $h
  simp [heldR, heldW, inWait, $es,*] at dR dW dwr dww))

set_option hygiene false in
macro "finS" : tactic => `(tactic| (
  refine ⟨forall_mem_set tok (by first | assumption | simp_all [TOKS, TOK, waitOK, Op.isAcq, Op.heldBy, Op.isTry, Disc, Op.rel]), by simpa using len, ?_, ?_, ?_⟩
  all_goals dsimp only [cnt] at *
  · congr 1 <;> omega
  · congr 1 <;> omega
  · omega))

set_option hygiene false in
macro "scS" a:term : tactic => `(tactic| (
  obtain rfl := Option.some.inj hl
  simp [applyWake] at hw ha' hwt'
  subst hw ha' hwt'
  clear hl
  deltasS hth, $a with True
  finS))

set_option hygiene false in
macro "finWS" tk:term : tactic => `(tactic| (
  refine ⟨$tk, by first | (dsimp only; omega) | simpa using len, ?_, ?_, ?_⟩
  all_goals dsimp only [cnt] at *
  · congr 1 <;> omega
  · congr 1 <;> omega
  · omega))

set_option maxHeartbeats 2000000 in
theorem invS_step {s s' : State} {t : Tid} {pick : Option Tid} (hinv : InvS s)
    (h : stepThread Cfg.reference s t pick = some s') : InvS s' := by
  obtain ⟨th, o, hth, hl, hw, ha', hwt'⟩ := step_specS hinv h
  have htok := hinv.tok th (List.mem_of_getElem? hth)
  have fR : Fits _ _ _ := fits_of_get (p := heldR) hth
  have fW : Fits _ _ _ := fits_of_get (p := heldW) hth
  have fwr : Fits _ _ _ := fits_of_get (p := inWait .read) hth
  have fww : Fits _ _ _ := fits_of_get (p := inWait .write) hth
  obtain ⟨tok, len, act, wai, safe⟩ := hinv
  obtain ⟨mutex', active', waiting', threads'⟩ := s'
  simp only at hw ha' hwt'
  clear h
  obtain ⟨pc, prog, held, last⟩ := th
  dsimp only [cnt] at *
  have pR := fR.pos; have pW := fW.pos; have pwr := fwr.pos; have pww := fww.pos
  clear fR fW fwr fww
  cases pc with
  | lock op =>
    cases op with
    | rlock =>
      simp [TOKS, TOK, Op.isAcq] at htok; obtain ⟨hh, hd⟩ := htok; subst hh
      simp only [localStepN] at hl
      split at hl
      · scS ({ pc := PC.atWait Op.rlock Cv.read, prog := prog, held := Held.none, last := last } : Thread)
      · scS ({ pc := PC.atUnlock Op.rlock true, prog := prog, held := Held.r, last := last } : Thread)
    | wlock =>
      simp [TOKS, TOK, Op.isAcq] at htok; obtain ⟨hh, hd⟩ := htok; subst hh
      simp only [localStepN] at hl
      split at hl
      · scS ({ pc := PC.atWait Op.wlock Cv.write, prog := prog, held := Held.none, last := last } : Thread)
      · scS ({ pc := PC.atUnlock Op.wlock true, prog := prog, held := Held.w, last := last } : Thread)
    | rtry =>
      simp [TOKS, TOK, Op.isAcq] at htok; obtain ⟨hh, hd⟩ := htok; subst hh
      simp only [localStepN] at hl
      split at hl
      · scS ({ pc := PC.atUnlock Op.rtry false, prog := prog, held := Held.none, last := last } : Thread)
      · scS ({ pc := PC.atUnlock Op.rtry true, prog := prog, held := Held.r, last := last } : Thread)
    | wtry =>
      simp [TOKS, TOK, Op.isAcq] at htok; obtain ⟨hh, hd⟩ := htok; subst hh
      simp only [localStepN] at hl
      split at hl
      · scS ({ pc := PC.atUnlock Op.wtry false, prog := prog, held := Held.none, last := last } : Thread)
      · scS ({ pc := PC.atUnlock Op.wtry true, prog := prog, held := Held.w, last := last } : Thread)
    | runlock =>
      simp [TOKS, TOK, Op.isAcq] at htok; obtain ⟨hh, hd⟩ := htok; subst hh
      have pR := pR rfl
      simp only [localStepN] at hl
      split at hl
      · omega
      · by_cases hc : List.countP heldR s.threads = 1 ∧ List.countP (inWait Cv.write) s.threads ≠ 0
        · simp only [hc, and_self, ne_eq, not_false_eq_true, if_true] at hl
          scS ({ pc := PC.atSignal Op.runlock Cv.write, prog := prog, held := Held.none, last := last } : Thread)
        · simp only [hc, if_false] at hl
          scS ({ pc := PC.atUnlock Op.runlock true, prog := prog, held := Held.none, last := last } : Thread)
    | wunlock =>
      simp [TOKS, TOK, Op.isAcq] at htok; obtain ⟨hh, hd⟩ := htok; subst hh
      have pW := pW rfl
      simp only [localStepN] at hl
      by_cases hc : List.countP (inWait Cv.write) s.threads ≠ 0
      · simp only [hc, ne_eq, not_false_eq_true, if_true] at hl
        scS ({ pc := PC.atSignal Op.wunlock Cv.write, prog := prog, held := Held.none, last := last } : Thread)
      · simp only [hc, if_false] at hl
        by_cases hc2 : List.countP (inWait Cv.read) s.threads ≠ 0
        · simp only [hc2, ne_eq, not_false_eq_true, if_true] at hl
          scS ({ pc := PC.atBcast Op.wunlock Cv.read, prog := prog, held := Held.none, last := last } : Thread)
        · simp only [hc2, if_false] at hl
          scS ({ pc := PC.atUnlock Op.wunlock true, prog := prog, held := Held.none, last := last } : Thread)
  | atWait op cv =>
    cases op <;> cases cv <;> simp [TOKS, TOK, waitOK] at htok
    · obtain ⟨hh, hd⟩ := htok; subst hh
      simp only [localStepN] at hl
      scS ({ pc := PC.blocked Op.rlock Cv.read, prog := prog, held := Held.none, last := last } : Thread)
    · obtain ⟨hh, hd⟩ := htok; subst hh
      simp only [localStepN] at hl
      scS ({ pc := PC.blocked Op.wlock Cv.write, prog := prog, held := Held.none, last := last } : Thread)
  | blocked op cv => simp [localStepN] at hl
  | woken op cv =>
    cases op <;> cases cv <;> simp [TOKS, TOK, waitOK] at htok
    · obtain ⟨hh, hd⟩ := htok; subst hh
      have pwr := pwr rfl
      simp only [localStepN] at hl
      split at hl
      · scS ({ pc := PC.atWait Op.rlock Cv.read, prog := prog, held := Held.none, last := last } : Thread)
      · scS ({ pc := PC.atUnlock Op.rlock true, prog := prog, held := Held.r, last := last } : Thread)
    · obtain ⟨hh, hd⟩ := htok; subst hh
      have pww := pww rfl
      simp only [localStepN] at hl
      split at hl
      · scS ({ pc := PC.atWait Op.wlock Cv.write, prog := prog, held := Held.none, last := last } : Thread)
      · scS ({ pc := PC.atUnlock Op.wlock true, prog := prog, held := Held.w, last := last } : Thread)
  | done => simp [localStepN] at hl
  | atUnlock op ret =>
    have hT := TOK_imp_TOKS (TOKS_finish prog held last op ret htok)
    simp only [localStepN] at hl
    obtain rfl := Option.some.inj hl
    simp [applyWake] at hw ha' hwt'
    subst hw ha' hwt'
    clear hl
    rcases finish_pc { pc := PC.atUnlock op ret, prog := prog, held := held, last := last } op ret with hfp | ⟨o', hfp⟩
    · deltasS hth, (finish { pc := PC.atUnlock op ret, prog := prog, held := held, last := last } op ret) with finish_held, hfp
      finS
    · deltasS hth, (finish { pc := PC.atUnlock op ret, prog := prog, held := held, last := last } op ret) with finish_held, hfp
      finS
  | atBcast op cv =>
    simp [TOKS, TOK] at htok
    obtain ⟨⟨⟨hcv, hop⟩, hh⟩, hd⟩ := htok
    subst hcv hop hh
    simp only [localStepN] at hl
    obtain rfl := Option.some.inj hl
    simp [applyWake] at hw ha' hwt'
    subst hw ha' hwt'
    clear hl
    deltasS hth, ({ pc := PC.atUnlock Op.wunlock true, prog := prog, held := Held.none, last := last } : Thread) with True
    have hT1 : ∀ x ∈ s.threads.set t { pc := PC.atUnlock Op.wunlock true, prog := prog, held := Held.none, last := last }, TOKS x = true :=
      forall_mem_set tok (by simp [TOKS, Op.isAcq, hd])
    generalize hl1 : s.threads.set t { pc := PC.atUnlock Op.wunlock true, prog := prog, held := Held.none, last := last } = l1 at *
    have eR := cnt_broadcast_same (p := heldR) (cv := .read) l1 (fun th hb => heldR_wake _ th hb)
    have eW := cnt_broadcast_same (p := heldW) (cv := .read) l1 (fun th hb => heldW_wake _ th hb)
    have ewr := cnt_broadcast_same (p := inWait .read) (cv := .read) l1 (fun th hb => inWait_wake _ _ th hb)
    have eww := cnt_broadcast_same (p := inWait .write) (cv := .read) l1 (fun th hb => inWait_wake _ _ th hb)
    have hlen : (broadcastCv l1 .read).length = s.threads.length := by simp [broadcastCv, ← hl1]
    finWS (by
        intro x hx
        simp only [broadcastCv, List.mem_map] at hx
        obtain ⟨y, hy, rfl⟩ := hx
        by_cases hb : isBlockedOn .read y = true
        · simp only [hb, if_true, TOKS_wake _ y hb]; exact hT1 y hy
        · simp only [hb]; exact hT1 y hy)
  | atSignal op cv =>
    simp [TOKS, TOK] at htok
    obtain ⟨⟨⟨hcv, hop⟩, hh⟩, hd⟩ := htok
    subst hcv hh
    simp only [localStepN] at hl
    obtain rfl := Option.some.inj hl
    simp only [applyWake] at hw
    simp at ha' hwt'
    subst ha' hwt'
    clear hl
    deltasS hth, ({ pc := PC.atUnlock op true, prog := prog, held := Held.none, last := last } : Thread) with True
    have hT1 : ∀ x ∈ s.threads.set t { pc := PC.atUnlock op true, prog := prog, held := Held.none, last := last }, TOKS x = true :=
      forall_mem_set tok (by rcases hop with rfl | rfl <;> simp [TOKS, Op.isAcq, hd])
    have hlen : (s.threads.set t { pc := PC.atUnlock op true, prog := prog, held := Held.none, last := last }).length = s.threads.length := by simp
    generalize hl1 : s.threads.set t { pc := PC.atUnlock op true, prog := prog, held := Held.none, last := last } = l1 at *
    rcases signalCv_spec hw with ⟨rfl, hz⟩ | ⟨u, thu, hu, hb, rfl⟩
    · finWS hT1
    · have hlen2 : (l1.set u (wakeThread thu)).length = s.threads.length := by simp [hlen]
      have eR := countP_set_add heldR l1 u (wakeThread thu) thu hu
      have eW := countP_set_add heldW l1 u (wakeThread thu) thu hu
      have ewr := countP_set_add (inWait .read) l1 u (wakeThread thu) thu hu
      have eww := countP_set_add (inWait .write) l1 u (wakeThread thu) thu hu
      simp [heldR_wake _ thu hb, heldW_wake _ thu hb, inWait_wake _ _ thu hb] at eR eW ewr eww
      finWS (forall_mem_set hT1 (by rw [TOKS_wake _ thu hb]; exact hT1 thu (List.mem_of_getElem? hu)))

theorem invS_spur {s s' : State} {t : Tid} (hinv : InvS s) (h : spurious s t = some s') : InvS s' := by
  unfold spurious at h
  cases hth : s.threads[t]? with
  | none => simp [hth] at h
  | some th =>
    simp only [hth] at h
    have hb : ∃ cv, isBlockedOn cv th = true := by
      unfold isBlockedOn; cases hpc : th.pc <;> simp [hpc] at h ⊢
    obtain ⟨cv, hb⟩ := hb
    have hs' : s' = { s with threads := s.threads.set t (wakeThread th) } := by
      cases hpc : th.pc <;> simp [hpc] at h
      exact h.symm
    subst hs'
    have htok := hinv.tok th (List.mem_of_getElem? hth)
    obtain ⟨tok, len, act, wai, safe⟩ := hinv
    have eR := countP_set_add heldR s.threads t (wakeThread th) th hth
    have eW := countP_set_add heldW s.threads t (wakeThread th) th hth
    have ewr := countP_set_add (inWait .read) s.threads t (wakeThread th) th hth
    have eww := countP_set_add (inWait .write) s.threads t (wakeThread th) th hth
    simp [heldR_wake _ th hb, heldW_wake _ th hb, inWait_wake _ _ th hb] at eR eW ewr eww
    refine ⟨forall_mem_set tok (by rw [TOKS_wake _ th hb]; exact htok), by simpa using len, ?_, ?_, ?_⟩
    all_goals dsimp only [cnt] at *
    · rw [act]; congr 1 <;> omega
    · rw [wai]; congr 1 <;> omega
    · omega

/-! ### preservation by a failing primitive call -/

set_option hygiene false in
macro "finF" : tactic => `(tactic| (
  refine ⟨forall_mem_set tok hT, by simpa using len, ?_, ?_, ?_⟩
  all_goals dsimp only [cnt] at *
  · rw [act]; congr 1 <;> omega
  · rw [wai]; congr 1 <;> omega
  · omega))

theorem stop_counts (p : Thread → Bool) (th : Thread) (op : Op) (ret : Bool)
    (hp : p (stopThread th op ret) = p th) {l : List Thread} {t : Nat} (hth : l[t]? = some th) :
    (l.set t (stopThread th op ret)).countP p = l.countP p := by
  have := countP_set_add p l t (stopThread th op ret) th hth
  rw [hp] at this; omega

set_option maxHeartbeats 1000000 in
theorem invS_fail {s s' : State} {t : Tid} {zero : Bool} (hinv : InvS s)
    (h : failStep s t zero = some s') : InvS s' := by
  unfold failStep at h
  cases hth : s.threads[t]? with
  | none => simp [hth] at h
  | some th =>
    simp only [hth] at h
    have htok := hinv.tok th (List.mem_of_getElem? hth)
    have fwr : Fits _ _ _ := fits_of_get (p := inWait .read) hth
    have fww : Fits _ _ _ := fits_of_get (p := inWait .write) hth
    obtain ⟨tok, len, act, wai, safe⟩ := hinv
    have hlenb : ∀ p : Thread → Bool, s.threads.countP p < 2^15 := fun p => Nat.lt_of_le_of_lt List.countP_le_length len
    obtain ⟨pc, prog, held, last⟩ := th
    dsimp only [cnt] at *
    have pwr := fwr.pos; have pww := fww.pos
    clear fwr fww
    cases pc with
    | lock op =>
      simp only at h
      obtain rfl := Option.some.inj h
      by_cases ha : op.isAcq = true
      · -- `p_mutex_lock` of an acquire call failed: FALSE, nothing touched, next round
        have hh : held = .none ∧ Disc (op :: prog) = true := by
          have := htok; simp [TOKS, TOK, ha] at this; exact this
        obtain ⟨hh, hd⟩ := hh
        subst hh
        have hT : TOKS (finish { pc := PC.lock op, prog := prog, held := Held.none, last := last } op false) = true := by
          cases prog with
          | nil => simp [Disc] at hd
          | cons b rest =>
            obtain ⟨_, h2, h3⟩ := Disc_tail2 hd
            subst h2
            simp only [finish, ha, Bool.not_false, Bool.and_true, if_true]
            exact TOK_imp_TOKS (TOK_start_of_Disc rest h3 _)
        simp only [ha, if_true]
        rcases finish_pc { pc := PC.lock op, prog := prog, held := Held.none, last := last } op false with hfp | ⟨o', hfp⟩
        · deltasS hth, (finish { pc := PC.lock op, prog := prog, held := Held.none, last := last } op false) with finish_held, hfp
          finF
        · deltasS hth, (finish { pc := PC.lock op, prog := prog, held := Held.none, last := last } op false) with finish_held, hfp
          finF
      · -- `p_mutex_lock` of an unlock call failed: FALSE, the thread still holds and stops
        have ha' : op.isAcq = false := by simpa using ha
        simp only [ha', Bool.false_eq_true, if_false]
        have dR := stop_counts heldR { pc := PC.lock op, prog := prog, held := held, last := last } op false rfl hth
        have dW := stop_counts heldW { pc := PC.lock op, prog := prog, held := held, last := last } op false rfl hth
        have dwr := stop_counts (inWait .read) { pc := PC.lock op, prog := prog, held := held, last := last } op false rfl hth
        have dww := stop_counts (inWait .write) { pc := PC.lock op, prog := prog, held := held, last := last } op false rfl hth
        have hT : TOKS (stopThread { pc := PC.lock op, prog := prog, held := held, last := last } op false) = true := by simp [TOKS, stopThread]
        finF
    | atWait op cv =>
      cases op <;> cases cv <;> simp [TOKS, TOK, waitOK] at htok <;> simp only at h
      · -- reader_lock: wait failed
        obtain ⟨hh, hd⟩ := htok; subst hh
        obtain rfl := Option.some.inj h
        have pwr := pwr rfl
        have b1 := hlenb (inWait .read); have b2 := hlenb (inWait .write)
        deltasS hth, ({ pc := PC.atUnlock Op.rlock false, prog := prog, held := Held.none, last := last } : Thread) with True
        refine ⟨forall_mem_set tok (by simp [TOKS, Op.isAcq, hd]), by simpa using len, ?_, ?_, ?_⟩
        all_goals dsimp only [cnt] at *
        · rw [act]; congr 1 <;> omega
        · rw [wai]
          simp (disch := omega) only [READER_COUNT_pack, ofNat32_sub_one, SET_READERS_pack, BitVec.ofNat_eq_ofNat]
          congr 1 <;> omega
        · omega
      · -- writer_lock: wait failed
        obtain ⟨hh, hd⟩ := htok; subst hh
        obtain rfl := Option.some.inj h
        have pww := pww rfl
        have b1 := hlenb (inWait .read); have b2 := hlenb (inWait .write)
        deltasS hth, ({ pc := PC.atUnlock Op.wlock false, prog := prog, held := Held.none, last := last } : Thread) with True
        refine ⟨forall_mem_set tok (by simp [TOKS, Op.isAcq, hd]), by simpa using len, ?_, ?_, ?_⟩
        all_goals dsimp only [cnt] at *
        · rw [act]; congr 1 <;> omega
        · rw [wai]
          simp (disch := omega) only [WRITER_COUNT_pack, ofNat32_sub_one, SET_WRITERS_pack, BitVec.ofNat_eq_ofNat]
          congr 1 <;> omega
        · omega
    | blocked op cv => simp at h
    | woken op cv => simp at h
    | done => simp at h
    | atSignal op cv =>
      simp only at h
      obtain rfl := Option.some.inj h
      simp [TOKS, TOK] at htok
      obtain ⟨⟨⟨hcv, hop⟩, hh⟩, hd⟩ := htok
      subst hh
      deltasS hth, ({ pc := PC.atUnlock op false, prog := prog, held := Held.none, last := last } : Thread) with True
      have hT : TOKS ({ pc := PC.atUnlock op false, prog := prog, held := Held.none, last := last } : Thread) = true := by
        rcases hop with rfl | rfl <;> simp [TOKS, Op.isAcq, hd]
      finF
    | atBcast op cv =>
      simp only at h
      obtain rfl := Option.some.inj h
      simp [TOKS, TOK] at htok
      obtain ⟨⟨⟨hcv, hop⟩, hh⟩, hd⟩ := htok
      subst hh hop
      deltasS hth, ({ pc := PC.atUnlock Op.wunlock false, prog := prog, held := Held.none, last := last } : Thread) with True
      have hT : TOKS ({ pc := PC.atUnlock Op.wunlock false, prog := prog, held := Held.none, last := last } : Thread) = true := by
        simp [TOKS, Op.isAcq, hd]
      finF
    | atUnlock op ret =>
      simp only at h
      obtain rfl := Option.some.inj h
      have dR := stop_counts heldR { pc := PC.atUnlock op ret, prog := prog, held := held, last := last } op (zero && op == .runlock) rfl hth
      have dW := stop_counts heldW { pc := PC.atUnlock op ret, prog := prog, held := held, last := last } op (zero && op == .runlock) rfl hth
      have dwr := stop_counts (inWait .read) { pc := PC.atUnlock op ret, prog := prog, held := held, last := last } op (zero && op == .runlock) rfl hth
      have dww := stop_counts (inWait .write) { pc := PC.atUnlock op ret, prog := prog, held := held, last := last } op (zero && op == .runlock) rfl hth
      have hT : TOKS (stopThread { pc := PC.atUnlock op ret, prog := prog, held := held, last := last } op (zero && op == .runlock)) = true := by
        simp [TOKS, stopThread]
      finF

theorem reachF_invS {s : State} (h : ReachF Cfg.reference s) : InvS s := by
  induction h with
  | init progs hd hn => exact (inv_init progs hd hn).toS
  | step _ hs ih => exact invS_step ih hs
  | spur _ hs ih => exact invS_spur ih hs
  | fail _ hs ih => exact invS_fail ih hs

/-! ### what the failure branches do, at the API level -/

theorem toks_holder {th : Thread} (h : TOKS th = true) :
    (th.pc = .lock .runlock → th.held = .r) ∧ (th.pc = .lock .wunlock → th.held = .w) ∧
    (∀ op ret, op.isAcq = true → th.pc = .atUnlock op ret → th.held = if ret then op.heldBy else .none) ∧
    (∀ op, op.isAcq = true → th.pc = .lock op → th.held = .none) ∧
    (∀ op cv, th.pc = .atWait op cv ∨ th.pc = .blocked op cv ∨ th.pc = .woken op cv → th.held = .none) := by
  refine ⟨?_, ?_, ?_, ?_, ?_⟩
  · intro hpc; simp [TOKS, TOK, hpc, Op.isAcq] at h; exact h.1
  · intro hpc; simp [TOKS, TOK, hpc, Op.isAcq] at h; exact h.1
  · intro op ret ha hpc; simp [TOKS, hpc, ha] at h; exact h.2
  · intro op ha hpc; simp [TOKS, TOK, hpc, ha] at h; exact h.1
  · intro op cv hpc
    rcases hpc with hpc | hpc | hpc <;> (simp [TOKS, TOK, hpc] at h; exact h.1.2)

/-- counts of a predicate that the replaced thread satisfies neither before nor after -/
theorem cnt_set_same {p : Thread → Bool} {l : List Thread} {t : Nat} {th a : Thread} (hth : l[t]? = some th)
    (hp : p a = p th) : (l.set t a).countP p = l.countP p := by
  have := countP_set_add p l t a th hth
  rw [hp] at this; omega

/-- a failed `p_mutex_lock` in an acquire call: the call returns FALSE and NOTHING else changes —
    counters, internal mutex, every other thread, the numbers of holders; the caller holds nothing -/
theorem fail_lock_acquire {s s' : State} {t : Tid} {zero : Bool} {th : Thread} {op : Op} (hinv : InvS s)
    (hth : s.threads[t]? = some th) (hpc : th.pc = .lock op) (ha : op.isAcq = true)
    (h : failStep s t zero = some s') :
    s'.active = s.active ∧ s'.waiting = s.waiting ∧ s'.mutex = s.mutex ∧
    cnt heldR s'.threads = cnt heldR s.threads ∧ cnt heldW s'.threads = cnt heldW s.threads ∧
    (∀ u, u ≠ t → s'.threads[u]? = s.threads[u]?) ∧
    ∃ th', s'.threads[t]? = some th' ∧ th'.last = some (op, false) ∧ th'.held = .none ∧
      (th'.pc = .done ∨ ∃ o, th'.pc = .lock o) := by
  have hh : th.held = .none := (toks_holder (hinv.tok th (List.mem_of_getElem? hth))).2.2.2.1 op ha hpc
  unfold failStep at h
  simp only [hth, hpc, ha, if_true] at h
  obtain rfl := Option.some.inj h
  have hfh : (finish th op false).held = th.held := finish_held th op false
  refine ⟨rfl, rfl, rfl, ?_, ?_, ?_, _, getElem?_set_self' hth, finish_last _ _ _, by rw [hfh, hh], finish_pc _ _ _⟩
  · exact cnt_set_same hth (by simp [heldR, hfh])
  · exact cnt_set_same hth (by simp [heldW, hfh])
  · intro u hu; simp [List.getElem?_set_ne (Ne.symm hu)]

/-- a failed `p_cond_variable_wait` in `p_rwlock_reader_lock` / `p_rwlock_writer_lock`: `active_threads`
    and the numbers of holders do not change, the caller holds nothing and is at its final
    `p_mutex_unlock` with the return value FALSE decided -/
theorem fail_wait {s s' : State} {t : Tid} {zero : Bool} {th : Thread} {op : Op} {cv : Cv} (hinv : InvS s)
    (hth : s.threads[t]? = some th) (hpc : th.pc = .atWait op cv)
    (h : failStep s t zero = some s') :
    s'.active = s.active ∧ s'.mutex = s.mutex ∧
    cnt heldR s'.threads = cnt heldR s.threads ∧ cnt heldW s'.threads = cnt heldW s.threads ∧
    ∃ th', s'.threads[t]? = some th' ∧ th'.pc = .atUnlock op false ∧ th'.held = .none := by
  have hh : th.held = .none := (toks_holder (hinv.tok th (List.mem_of_getElem? hth))).2.2.2.2 op cv (Or.inl hpc)
  unfold failStep at h
  simp only [hth, hpc] at h
  cases op <;> simp at h
  all_goals
    subst h
    refine ⟨rfl, rfl, cnt_set_same hth (by simp [heldR]), cnt_set_same hth (by simp [heldW]), _, getElem?_set_self' hth, rfl, hh⟩

/-- the final step of a call that is going to return FALSE from an acquire (trylock not grantable,
    or a failed wait): always enabled, counters untouched, mutex released, the caller holds nothing -/
theorem return_false_step {s : State} {t : Tid} {th : Thread} {op : Op} (hinv : InvS s)
    (hth : s.threads[t]? = some th) (hpc : th.pc = .atUnlock op false) (ha : op.isAcq = true) :
    ∃ s', stepThread Cfg.reference s t none = some s' ∧ s'.active = s.active ∧ s'.waiting = s.waiting ∧ s'.mutex = none ∧
      cnt heldR s'.threads = cnt heldR s.threads ∧ cnt heldW s'.threads = cnt heldW s.threads ∧
      ∃ th', s'.threads[t]? = some th' ∧ th'.last = some (op, false) ∧ th'.held = .none := by
  have hh : th.held = .none := by
    have := (toks_holder (hinv.tok th (List.mem_of_getElem? hth))).2.2.1 op false ha hpc
    simpa using this
  have hfh : (finish th op false).held = th.held := finish_held th op false
  refine ⟨{ mutex := none, active := s.active, waiting := s.waiting, threads := s.threads.set t (finish th op false) }, ?_, rfl, rfl, rfl, ?_, ?_, _, getElem?_set_self' hth, finish_last _ _ _, by rw [hfh, hh]⟩
  · unfold stepThread
    simp [hth, hpc, PC.needsMutex, localStep, applyWake]
  · exact cnt_set_same hth (by simp [heldR, hfh])
  · exact cnt_set_same hth (by simp [heldW, hfh])

/-- a failed FINAL `p_mutex_unlock`: the call returns FALSE (TRUE only on the zero-count path of
    reader_unlock) and both counter words stay as the call left them — in particular a count bumped by
    a granted acquire stays bumped although the call reports failure -/
theorem fail_unlock {s s' : State} {t : Tid} {zero : Bool} {th : Thread} {op : Op} {ret : Bool}
    (hth : s.threads[t]? = some th) (hpc : th.pc = .atUnlock op ret)
    (h : failStep s t zero = some s') :
    s'.active = s.active ∧ s'.waiting = s.waiting ∧ s'.mutex = s.mutex ∧
    ∃ th', s'.threads[t]? = some th' ∧ th'.last = some (op, zero && op == .runlock) ∧ th'.held = th.held ∧ th'.pc = .done := by
  unfold failStep at h
  simp only [hth, hpc] at h
  obtain rfl := Option.some.inj h
  exact ⟨rfl, rfl, rfl, _, getElem?_set_self' hth, rfl, rfl, rfl⟩

end PV.RWLock

import PV.Lemmas.RWLock.Pack
import PV.Spec.RWLock
/-! C02 lemmas, part 2: the thread-local step of the reference configuration on natural-number
counters (`localStepN`) and its refinement by the bit-packed `localStep Cfg.reference`. -/
namespace PV.RWLock

/-! ### per-thread consistency -/

def waitOK (op : Op) (cv : Cv) : Bool := (op == .rlock && cv == .read) || (op == .wlock && cv == .write)

/-- consistency of a thread's pc, ghost `held` and remaining program (disciplined programs) -/
def TOK (th : Thread) : Bool :=
  match th.pc with
  | .lock op =>
    if op.isAcq then th.held == .none && Disc (op :: th.prog)
    else ((op == .runlock && th.held == .r) || (op == .wunlock && th.held == .w)) && Disc th.prog
  | .atWait op cv | .blocked op cv | .woken op cv => waitOK op cv && th.held == .none && Disc (op :: th.prog)
  | .atSignal op cv => cv == .write && (op == .runlock || op == .wunlock) && th.held == .none && Disc th.prog
  | .atBcast op cv => cv == .read && op == .wunlock && th.held == .none && Disc th.prog
  | .atUnlock op ret =>
    if op.isAcq then Disc (op :: th.prog) && th.held == (if ret then op.heldBy else .none) && (ret || op.isTry)
    else th.held == .none && Disc th.prog
  | .done => th.held == .none && th.prog == []

/-! ### the step on natural-number counters (reference configuration) -/

structure OutN where
  owns : Bool
  r : Nat
  w : Nat
  wr : Nat
  ww : Nat
  th : Thread
  wake : Wake := .none

def OutN.toOut (o : OutN) : Out :=
  { owns := o.owns, active := pack o.r o.w, waiting := pack o.wr o.ww, th := o.th, wake := o.wake }

/-- `localStep Cfg.reference` with `active = pack r w`, `waiting = pack wr ww` -/
def localStepN (r w wr ww : Nat) (th : Thread) : Option OutN :=
  match th.pc with
  | .lock .rlock =>
    if w ≠ 0 then some { owns := true, r, w, wr := wr + 1, ww, th := { th with pc := .atWait .rlock .read } }
    else some { owns := true, r := r + 1, w, wr, ww, th := { th with pc := .atUnlock .rlock true, held := .r } }
  | .lock .wlock =>
    if ¬ (r = 0 ∧ w = 0) then some { owns := true, r, w, wr, ww := ww + 1, th := { th with pc := .atWait .wlock .write } }
    else some { owns := true, r, w := 1, wr, ww, th := { th with pc := .atUnlock .wlock true, held := .w } }
  | .lock .rtry =>
    if w ≠ 0 then some { owns := true, r, w, wr, ww, th := { th with pc := .atUnlock .rtry false } }
    else some { owns := true, r := r + 1, w, wr, ww, th := { th with pc := .atUnlock .rtry true, held := .r } }
  | .lock .wtry =>
    if ¬ (r = 0 ∧ w = 0) then some { owns := true, r, w, wr, ww, th := { th with pc := .atUnlock .wtry false } }
    else some { owns := true, r, w := 1, wr, ww, th := { th with pc := .atUnlock .wtry true, held := .w } }
  | .lock .runlock =>
    if r = 0 then some { owns := true, r, w, wr, ww, th := { th with pc := .atUnlock .runlock true } }
    else some { owns := true, r := r - 1, w, wr, ww,
                th := { th with pc := if r = 1 ∧ ww ≠ 0 then .atSignal .runlock .write else .atUnlock .runlock true, held := .none } }
  | .lock .wunlock =>
    some { owns := true, r, w := 0, wr, ww,
           th := { th with pc := if ww ≠ 0 then .atSignal .wunlock .write
                                 else if wr ≠ 0 then .atBcast .wunlock .read else .atUnlock .wunlock true,
                           held := .none } }
  | .atWait op cv => some { owns := false, r, w, wr, ww, th := { th with pc := .blocked op cv } }
  | .blocked _ _ => none
  | .woken .rlock cv =>
    if w ≠ 0 then some { owns := true, r, w, wr, ww, th := { th with pc := .atWait .rlock cv } }
    else some { owns := true, r := r + 1, w, wr := wr - 1, ww, th := { th with pc := .atUnlock .rlock true, held := .r } }
  | .woken .wlock cv =>
    if ¬ (r = 0 ∧ w = 0) then some { owns := true, r, w, wr, ww, th := { th with pc := .atWait .wlock cv } }
    else some { owns := true, r, w := 1, wr, ww := ww - 1, th := { th with pc := .atUnlock .wlock true, held := .w } }
  | .woken _ _ => none
  | .atSignal op cv => some { owns := true, r, w, wr, ww, th := { th with pc := .atUnlock op true }, wake := .signal cv }
  | .atBcast op cv => some { owns := true, r, w, wr, ww, th := { th with pc := .atUnlock op true }, wake := .broadcast cv }
  | .atUnlock op ret => some { owns := false, r, w, wr, ww, th := finish th op ret }
  | .done => none

/-- a count `c` of a predicate over `N` threads, seen from a thread on which the predicate is `b` -/
structure Fits (N c : Nat) (b : Bool) : Prop where
  pos : b = true → 1 ≤ c
  room : c + (if b then 0 else 1) ≤ N

theorem Test_writerField_pack (r w : Nat) (hr : r < 2^15) (hw : w < 2^15) :
    Test.eval .writerField (pack r w) = decide (w ≠ 0) := by
  simp only [Test.eval, WRITER_COUNT_pack r w hr hw]
  by_cases h : w = 0
  · subst h; rfl
  · have : BitVec.ofNat 32 w ≠ 0 := fun e => h ((ofNat32_eq_zero w hw).mp e)
    simp [h]; exact this

theorem Test_wholeWord_pack (r w : Nat) (hr : r < 2^15) (hw : w < 2^15) :
    Test.eval .wholeWord (pack r w) = decide (¬ (r = 0 ∧ w = 0)) := by
  simp only [Test.eval]
  by_cases h : r = 0 ∧ w = 0
  · obtain ⟨h1, h2⟩ := h; subst h1; subst h2; rfl
  · have : pack r w ≠ 0 := fun e => h ((pack_eq_zero r w hr hw).mp e)
    simp [h]; exact this

/-- closes the word-level goals: the macros on `pack` under the bounds in context -/
macro "pk" : tactic => `(tactic| simp (disch := omega) [grantR, grantW, OutN.toOut, READER_COUNT_pack, WRITER_COUNT_pack, ofNat32_add_one, ofNat32_sub_one, SET_READERS_pack, SET_WRITERS_pack, ofNat32_eq_zero, ofNat32_eq_one, wakePc, *])

theorem localStep_refines (N : Nat) (hN : N < 2^15) (r w wr ww : Nat) (th : Thread)
    (htok : TOK th = true)
    (h1 : Fits N r (heldR th)) (h2 : Fits N w (heldW th))
    (h3 : Fits N wr (inWait .read th)) (h4 : Fits N ww (inWait .write th)) :
    localStep Cfg.reference (pack r w) (pack wr ww) th = (localStepN r w wr ww th).map OutN.toOut := by
  obtain ⟨pc, prog, held, last⟩ := th
  have hr : r < 2^15 := by have := h1.room; split at this <;> omega
  have hw : w < 2^15 := by have := h2.room; split at this <;> omega
  have hwr : wr < 2^15 := by have := h3.room; split at this <;> omega
  have hww : ww < 2^15 := by have := h4.room; split at this <;> omega
  have q1 := h1.room; have q2 := h2.room; have q3 := h3.room; have q4 := h4.room
  have p1 := h1.pos; have p2 := h2.pos; have p3 := h3.pos; have p4 := h4.pos
  cases pc with
  | lock op =>
    cases op with
    | rlock =>
      simp [TOK, Op.isAcq] at htok
      obtain ⟨hh, _⟩ := htok
      subst hh
      simp [heldR, heldW, inWait] at q1 q2 q3 q4
      simp only [localStep, localStepN, Cfg.reference, Test_writerField_pack r w hr hw]
      by_cases hw0 : w = 0
      · pk
      · pk
    | wlock =>
      simp [TOK, Op.isAcq] at htok
      obtain ⟨hh, _⟩ := htok
      subst hh
      simp [heldR, heldW, inWait] at q1 q2 q3 q4
      simp only [localStep, localStepN, Cfg.reference, Test_wholeWord_pack r w hr hw]
      by_cases hw0 : r = 0 ∧ w = 0
      · pk
      · pk
    | rtry =>
      simp [TOK, Op.isAcq] at htok
      obtain ⟨hh, _⟩ := htok
      subst hh
      simp [heldR, heldW, inWait] at q1 q2 q3 q4
      simp only [localStep, localStepN, Cfg.reference, Test_writerField_pack r w hr hw]
      by_cases hw0 : w = 0
      · pk
      · pk
    | wtry =>
      simp [TOK, Op.isAcq] at htok
      obtain ⟨hh, _⟩ := htok
      subst hh
      simp [heldR, heldW, inWait] at q1 q2 q3 q4
      simp only [localStep, localStepN, Cfg.reference, Test_wholeWord_pack r w hr hw]
      by_cases hw0 : r = 0 ∧ w = 0
      · pk
      · pk
    | runlock =>
      simp [TOK, Op.isAcq] at htok
      obtain ⟨hh, _⟩ := htok
      subst hh
      simp [heldR, heldW, inWait] at q1 q2 q3 q4 p1
      simp only [localStep, localStepN, Cfg.reference]
      have hr0 : r ≠ 0 := by omega
      pk
    | wunlock =>
      simp [TOK, Op.isAcq] at htok
      obtain ⟨hh, _⟩ := htok
      subst hh
      simp [heldR, heldW, inWait] at q1 q2 q3 q4 p2
      simp only [localStep, localStepN, Cfg.reference]
      pk
  | atWait op cv => simp [localStep, localStepN, OutN.toOut]
  | blocked op cv => simp [localStep, localStepN]
  | woken op cv =>
    cases op <;> cases cv <;> simp [TOK, waitOK] at htok
    · obtain ⟨hh, _⟩ := htok
      subst hh
      simp [heldR, heldW, inWait] at q1 q2 q3 q4 p3
      simp only [localStep, localStepN, Cfg.reference, Test_writerField_pack r w hr hw]
      by_cases hw0 : w = 0
      · pk
      · pk
    · obtain ⟨hh, _⟩ := htok
      subst hh
      simp [heldR, heldW, inWait] at q1 q2 q3 q4 p4
      simp only [localStep, localStepN, Cfg.reference, Test_wholeWord_pack r w hr hw]
      by_cases hw0 : r = 0 ∧ w = 0
      · pk
      · pk
  | atSignal op cv => simp [localStep, localStepN, OutN.toOut]
  | atBcast op cv => simp [localStep, localStepN, OutN.toOut]
  | atUnlock op ret => simp [localStep, localStepN, OutN.toOut]
  | done => simp [localStep, localStepN]

end PV.RWLock

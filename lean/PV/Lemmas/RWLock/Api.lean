import PV.Lemmas.RWLock.Live
/-! C02 lemmas, part 5: what the individual API calls do in a reachable state. -/
namespace PV.RWLock

theorem finish_last (th : Thread) (op : Op) (ret : Bool) : (finish th op ret).last = some (op, ret) := by
  unfold finish; simp only; split <;> rfl

/-- a step that performs no wake-up replaces exactly thread `t` -/
theorem step_no_wake {s s' : State} {t : Tid} {pick : Option Tid} {th : Thread} (hinv : Inv s)
    (hth : s.threads[t]? = some th) (h : stepThread Cfg.reference s t pick = some s') :
    ∃ o, localStepN (readers s) (writers s) (waitingReaders s) (waitingWriters s) th = some o ∧
      (o.wake = .none → s'.threads = s.threads.set t o.th) ∧ s'.mutex = (if o.owns then some t else none) := by
  obtain ⟨th', o, hth', _, hl, hw, hm, _, _⟩ := step_spec hinv h
  rw [hth] at hth'; obtain rfl := Option.some.inj hth'
  refine ⟨o, hl, ?_, hm⟩
  intro hn
  rw [hn] at hw
  simpa [applyWake] using hw.symm

/-- decision step of `p_rwlock_reader_trylock` -/
theorem rtry_step {s s' : State} {t : Tid} {pick : Option Tid} {th : Thread} (hinv : Inv s)
    (hth : s.threads[t]? = some th) (hpc : th.pc = .lock .rtry) (h : stepThread Cfg.reference s t pick = some s') :
    ∃ th', s'.threads[t]? = some th' ∧ th'.pc = .atUnlock .rtry (decide (writers s = 0)) := by
  obtain ⟨o, hl, hw, _⟩ := step_no_wake hinv hth h
  simp only [localStepN, hpc] at hl
  by_cases hw0 : writers s = 0
  · simp only [hw0, ne_eq, not_true_eq_false, if_false] at hl
    obtain rfl := Option.some.inj hl
    rw [hw rfl]
    exact ⟨_, getElem?_set_self' hth, by simp [hw0]⟩
  · simp only [hw0, ne_eq, not_false_eq_true, if_true] at hl
    obtain rfl := Option.some.inj hl
    rw [hw rfl]
    exact ⟨_, getElem?_set_self' hth, by simp [hw0]⟩

/-- decision step of `p_rwlock_writer_trylock` -/
theorem wtry_step {s s' : State} {t : Tid} {pick : Option Tid} {th : Thread} (hinv : Inv s)
    (hth : s.threads[t]? = some th) (hpc : th.pc = .lock .wtry) (h : stepThread Cfg.reference s t pick = some s') :
    ∃ th', s'.threads[t]? = some th' ∧ th'.pc = .atUnlock .wtry (decide (readers s = 0 ∧ writers s = 0)) := by
  obtain ⟨o, hl, hw, _⟩ := step_no_wake hinv hth h
  simp only [localStepN, hpc] at hl
  by_cases hw0 : readers s = 0 ∧ writers s = 0
  · simp only [hw0, and_self, not_true_eq_false, if_false] at hl
    obtain rfl := Option.some.inj hl
    rw [hw rfl]
    exact ⟨_, getElem?_set_self' hth, by simp [hw0]⟩
  · simp only [hw0, not_false_eq_true, if_true] at hl
    obtain rfl := Option.some.inj hl
    rw [hw rfl]
    exact ⟨_, getElem?_set_self' hth, by simp [hw0]⟩

/-- the last step of every API call (`p_mutex_unlock`, return): always enabled, returns the value
    decided earlier, the thread goes on with its program -/
theorem return_step {s : State} {t : Tid} {th : Thread} {op : Op} {ret : Bool} (hinv : Inv s)
    (hth : s.threads[t]? = some th) (hpc : th.pc = .atUnlock op ret) :
    ∃ s', stepThread Cfg.reference s t none = some s' ∧
      ∃ th', s'.threads[t]? = some th' ∧ th'.last = some (op, ret) ∧ (th'.pc = .done ∨ ∃ o, th'.pc = .lock o) := by
  obtain ⟨s', hs'⟩ := stepThread_some hinv hth (by simp [hpc, PC.needsMutex]) (by simp [localStepN, hpc])
  refine ⟨s', hs', ?_⟩
  obtain ⟨o, hl, hw, _⟩ := step_no_wake hinv hth hs'
  simp only [localStepN, hpc] at hl
  obtain rfl := Option.some.inj hl
  rw [hw rfl]
  exact ⟨_, getElem?_set_self' hth, finish_last _ _ _, finish_pc _ _ _⟩

/-- `p_rwlock_reader_lock` while no writer holds: granted in its first step, no condition-variable wait -/
theorem rlock_step_shared {s : State} {t : Tid} {th : Thread} (hinv : Inv s)
    (hth : s.threads[t]? = some th) (hpc : th.pc = .lock .rlock) (hm : s.mutex = none) (hw0 : writers s = 0) :
    ∃ s', stepThread Cfg.reference s t none = some s' ∧ readers s' = readers s + 1 ∧ writers s' = 0 ∧
      ∃ th', s'.threads[t]? = some th' ∧ th'.pc = .atUnlock .rlock true := by
  obtain ⟨s', hs'⟩ := stepThread_some hinv hth (fun _ => hm) (by simp only [localStepN, hpc]; split <;> simp)
  refine ⟨s', hs', ?_⟩
  obtain ⟨o, hl, hw, _⟩ := step_no_wake hinv hth hs'
  simp only [localStepN, hpc] at hl
  split at hl
  · rename_i hne; exact absurd hw0 hne
  · obtain rfl := Option.some.inj hl
    have htok := hinv.tok th (List.mem_of_getElem? hth)
    simp [TOK, hpc, Op.isAcq] at htok
    have e1 := countP_set_add heldR s.threads t ({ th with pc := PC.atUnlock Op.rlock true, held := Held.r }) th hth
    have e2 := countP_set_add heldW s.threads t ({ th with pc := PC.atUnlock Op.rlock true, held := Held.r }) th hth
    simp [heldR, heldW, htok.1] at e1 e2
    unfold readers writers at *
    rw [hw rfl]
    dsimp only
    exact ⟨e1, by omega, _, getElem?_set_self' hth, rfl⟩

/-- the two counter words change only in steps that start by acquiring the internal mutex and end
    with the stepping thread still owning it; spurious wake-ups never touch them -/
theorem counters_change {c : Cfg} {s s' : State} {t : Tid} {pick : Option Tid} (h : stepThread c s t pick = some s')
    (hne : s'.active ≠ s.active ∨ s'.waiting ≠ s.waiting) : s.mutex = none ∧ s'.mutex = some t := by
  unfold stepThread at h
  cases hth : s.threads[t]? with
  | none => simp [hth] at h
  | some th =>
    simp only [hth] at h
    split at h
    · simp at h
    · rename_i hmx
      cases hl : localStep c s.active s.waiting th with
      | none => simp [hl] at h
      | some o =>
        simp only [hl] at h
        cases hw : applyWake (s.threads.set t o.th) o.wake pick with
        | none => simp [hw] at h
        | some ths =>
          simp only [hw] at h
          have h' := Option.some.inj h
          subst h'
          simp only at hne ⊢
          -- steps from a pc that already owns the mutex, or that releases it, leave the words alone
          have key : (o.active ≠ s.active ∨ o.waiting ≠ s.waiting) → th.pc.needsMutex = true ∧ o.owns = true := by
            intro hch
            unfold localStep at hl
            cases hpc : th.pc with
            | lock op =>
              refine ⟨rfl, ?_⟩
              cases op <;> simp only [hpc] at hl <;> (repeat' (split at hl)) <;>
                (obtain rfl := Option.some.inj hl) <;> simp [grantR, grantW]
            | woken op cv =>
              refine ⟨rfl, ?_⟩
              cases op <;> simp only [hpc] at hl <;> (repeat' (split at hl)) <;>
                first | (obtain rfl := Option.some.inj hl; simp [grantR, grantW]) | (simp at hl)
            | atWait op cv => simp only [hpc] at hl; obtain rfl := Option.some.inj hl; simp at hch
            | blocked op cv => simp [hpc] at hl
            | atSignal op cv => simp only [hpc] at hl; obtain rfl := Option.some.inj hl; simp at hch
            | atBcast op cv => simp only [hpc] at hl; obtain rfl := Option.some.inj hl; simp at hch
            | atUnlock op ret => simp only [hpc] at hl; obtain rfl := Option.some.inj hl; simp at hch
            | done => simp [hpc] at hl
          obtain ⟨h1, h2⟩ := key hne
          simp [h1] at hmx
          exact ⟨hmx, by simp [h2]⟩

theorem spurious_counters {s s' : State} {t : Tid} (h : spurious s t = some s') :
    s'.active = s.active ∧ s'.waiting = s.waiting ∧ s'.mutex = s.mutex := by
  unfold spurious at h
  cases hth : s.threads[t]? with
  | none => simp [hth] at h
  | some th =>
    simp only [hth] at h
    cases hpc : th.pc <;> simp [hpc] at h
    subst h; exact ⟨rfl, rfl, rfl⟩

theorem tok_holder {th : Thread} (h : TOK th = true) :
    (th.pc = .lock .runlock → th.held = .r) ∧ (th.pc = .lock .wunlock → th.held = .w) ∧
    (∀ op, op.isAcq = true → th.pc = .atUnlock op true → th.held = op.heldBy) ∧
    (∀ op, op.isAcq = true → th.pc = .lock op → th.held = .none) := by
  refine ⟨?_, ?_, ?_, ?_⟩
  · intro hpc; simp [TOK, hpc, Op.isAcq] at h; exact h.1
  · intro hpc; simp [TOK, hpc, Op.isAcq] at h; exact h.1
  · intro op ha hpc; simp [TOK, hpc, ha] at h; exact h.2
  · intro op ha hpc; simp [TOK, hpc, ha] at h; exact h.1

/-- only the two blocking lock calls ever reach a condition-variable wait, each on its own
    condition variable; a trylock (or unlock) call is never at, inside, or returning from a wait -/
theorem tok_wait {th : Thread} {op : Op} {cv : Cv} (h : TOK th = true)
    (hpc : th.pc = .atWait op cv ∨ th.pc = .blocked op cv ∨ th.pc = .woken op cv) :
    (op = .rlock ∧ cv = .read) ∨ (op = .wlock ∧ cv = .write) := by
  rcases hpc with hpc | hpc | hpc <;>
    (simp [TOK, hpc, waitOK] at h
     rcases h with ⟨⟨h | h, _⟩, _⟩
     · exact Or.inl h
     · exact Or.inr h)

/-! ### posix wrapper over the trusted pthread rwlock -/
namespace Posix

theorem apiStep_spec {s s' : PState} {t : Tid} {op : Op} {ret : Bool} (h : ApiStep s t op ret s') :
    (ret = false → s' = s) ∧
    (ret = true → (op = .rlock ∨ op = .rtry) → s.writer = none ∧ s' = { s with readers := t :: s.readers }) ∧
    (ret = true → (op = .wlock ∨ op = .wtry) → s.writer = none ∧ s.readers = [] ∧ s' = { s with writer := some t }) := by
  obtain ⟨code, hp, hr⟩ := h
  subst hr
  generalize hc : callOf op = c at hp
  refine ⟨?_, ?_, ?_⟩
  · intro hf
    cases hp <;> simp [result] at hf
    rfl
  · intro _ ho
    rcases ho with rfl | rfl <;> simp [callOf] at hc <;> subst hc <;> cases hp <;> simp_all [result]
  · intro _ ho
    rcases ho with rfl | rfl <;> simp [callOf] at hc <;> subst hc <;> cases hp <;> simp_all [result]

theorem preach_safe {s : PState} (h : PReach s) : s.writer.isSome = true → s.readers = [] := by
  induction h with
  | init => intro h; simp at h
  | step _ hs ih =>
    obtain ⟨code, hp, _⟩ := hs
    generalize callOf _ = c at hp
    cases hp <;> simp_all

end Posix

end PV.RWLock

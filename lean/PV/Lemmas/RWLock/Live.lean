import PV.Lemmas.RWLock.Inv
/-! C02 lemmas, part 4: progress (no deadlock) and the termination measure. -/
namespace PV.RWLock

/-! ### progress -/

/-- a thread whose counter-level step is defined, and that does not need a mutex owned by somebody,
    can make a step (with the default signal choice) -/
theorem stepThread_some {s : State} {t : Tid} {th : Thread} (hinv : Inv s) (hth : s.threads[t]? = some th)
    (hmx : th.pc.needsMutex = true → s.mutex = none)
    (hl : (localStepN (cnt heldR s.threads) (cnt heldW s.threads) (cnt (inWait .read) s.threads) (cnt (inWait .write) s.threads) th).isSome) :
    ∃ s', stepThread Cfg.reference s t none = some s' := by
  unfold stepThread
  simp only [hth]
  have hm : th ∈ s.threads := List.mem_of_getElem? hth
  have href := localStep_refines s.threads.length hinv.len _ _ _ _ th (hinv.tok th hm)
    (fits_of_get hth) (fits_of_get hth) (fits_of_get hth) (fits_of_get hth)
  rw [← hinv.act, ← hinv.wai] at href
  have h1 : (th.pc.needsMutex && s.mutex.isSome) = false := by
    cases hn : th.pc.needsMutex
    · rfl
    · simp [hmx hn]
  simp only [h1, Bool.false_eq_true, if_false]
  rw [href]
  obtain ⟨o, ho⟩ := Option.isSome_iff_exists.mp hl
  simp only [cnt] at ho
  simp only [ho, Option.map_some]
  have : ∃ ths, applyWake (s.threads.set t o.toOut.th) o.toOut.wake none = some ths := by
    unfold applyWake
    cases o.toOut.wake with
    | none => exact ⟨_, rfl⟩
    | broadcast cv => exact ⟨_, rfl⟩
    | signal cv =>
      simp only [signalCv]
      split
      · split <;> exact ⟨_, rfl⟩
      · exact ⟨_, rfl⟩
  obtain ⟨ths, hths⟩ := this
  simp only [hths]
  exact ⟨_, rfl⟩

theorem no_deadlock_inv {s : State} (hinv : Inv s) (hnd : allDone s = false) :
    ∃ t s', stepThread Cfg.reference s t none = some s' := by
  cases hmu : s.mutex with
  | some u =>
    obtain ⟨th, hth, how⟩ := hinv.mtx u hmu
    have hn : th.pc.needsMutex = false := by
      unfold owns PC.ownsMutex at how; cases hpc : th.pc <;> simp [hpc, PC.needsMutex] at how ⊢
    obtain ⟨s', hs'⟩ := stepThread_some hinv hth (by simp [hn]) (by
      unfold owns PC.ownsMutex at how; cases hpc : th.pc <;> simp [hpc] at how <;> simp [localStepN, hpc])
    exact ⟨u, s', hs'⟩
  | none =>
    by_cases hex : ∃ (t : Nat) (th : Thread), s.threads[t]? = some th ∧ th.pc.needsMutex = true
    · obtain ⟨t, th, hth, hn⟩ := hex
      have htok := hinv.tok th (List.mem_of_getElem? hth)
      obtain ⟨s', hs'⟩ := stepThread_some hinv hth (fun _ => hmu) (by
        cases hpc : th.pc with
        | lock op => cases op <;> simp [localStepN, hpc] <;> split <;> simp
        | woken op cv =>
          cases op <;> cases cv <;> simp [TOK, hpc, waitOK] at htok <;> simp [localStepN, hpc] <;> split <;> simp
        | _ => simp [hpc, PC.needsMutex] at hn)
      exact ⟨t, s', hs'⟩
    · exfalso
      obtain ⟨tok, len, act, wai, safe, mtx, mcnt, aR, aW, lw, lr⟩ := hinv
      have mcnt0 : List.countP owns s.threads = 0 := by rw [cnt] at mcnt; rw [mcnt, hmu]; rfl
      have hall : ∀ th ∈ s.threads, th.pc = .done ∨ ∃ op cv, th.pc = .blocked op cv := by
        intro th hm
        obtain ⟨t, ht⟩ := List.mem_iff_getElem?.mp hm
        have h1 : th.pc.needsMutex = false := by
          cases hh : th.pc.needsMutex
          · rfl
          · exact absurd ⟨t, th, ht, hh⟩ hex
        have h2 : owns th = false := by
          have := List.countP_eq_zero.mp mcnt0 th hm
          simpa using this
        unfold owns PC.ownsMutex at h2
        cases hpc : th.pc <;> simp [hpc, PC.needsMutex] at h1 h2 ⊢
      have hheld : ∀ th ∈ s.threads, th.held = .none := by
        intro th hm
        have ht := tok th hm
        rcases hall th hm with h | ⟨op, cv, h⟩ <;> simp [TOK, h] at ht
        · exact ht.1
        · exact ht.1.2
      have zR : List.countP heldR s.threads = 0 := List.countP_eq_zero.mpr (fun th hm => by simp [heldR, hheld th hm])
      have zW : List.countP heldW s.threads = 0 := List.countP_eq_zero.mpr (fun th hm => by simp [heldW, hheld th hm])
      have zk : List.countP (isWoken .write) s.threads = 0 := List.countP_eq_zero.mpr (fun th hm => by
        rcases hall th hm with h | ⟨op, cv, h⟩ <;> simp [isWoken, h])
      have zs : List.countP (isAtSignal .write) s.threads = 0 := List.countP_eq_zero.mpr (fun th hm => by
        rcases hall th hm with h | ⟨op, cv, h⟩ <;> simp [isAtSignal, h])
      have zc : List.countP (isAtBcast .read) s.threads = 0 := List.countP_eq_zero.mpr (fun th hm => by
        rcases hall th hm with h | ⟨op, cv, h⟩ <;> simp [isAtBcast, h])
      dsimp only [cnt] at *
      have zbw : List.countP (isBlockedOn .write) s.threads = 0 := by omega
      have zww : List.countP (inWait .write) s.threads = 0 := List.countP_eq_zero.mpr (fun th hm => by
        have hb := List.countP_eq_zero.mp zbw th hm
        rcases hall th hm with h | ⟨op, cv, h⟩ <;> simp [inWait, isBlockedOn, h] at hb ⊢
        exact hb)
      have zbr : List.countP (isBlockedOn .read) s.threads = 0 := by omega
      have : allDone s = true := by
        unfold allDone
        rw [List.all_eq_true]
        intro th hm
        have hb1 := List.countP_eq_zero.mp zbw th hm
        have hb2 := List.countP_eq_zero.mp zbr th hm
        rcases hall th hm with h | ⟨op, cv, h⟩
        · simp [h]
        · cases cv <;> simp [isBlockedOn, h] at hb1 hb2
      rw [this] at hnd
      exact absurd hnd (by simp)


/-! ### the measure decreases on every non-spurious step (any configuration) -/

theorem finish_major_le (th : Thread) (op : Op) (ret : Bool) : (finish th op ret).major ≤ 2 * th.prog.length := by
  unfold finish
  cases h1 : (op.isAcq && !ret) <;> simp only [Bool.false_eq_true, if_false, if_true]
  · cases hp : th.prog with
    | nil => simp [Thread.major, PC.major]
    | cons o rest => simp [Thread.major, PC.major]; omega
  · cases hp : th.prog with
    | nil => simp [Thread.major, PC.major]
    | cons o rest =>
      by_cases ho : o = op.rel
      · simp only [ho, if_true]
        cases rest <;> simp [Thread.major, PC.major]; omega
      · simp only [ho, if_false]
        simp [Thread.major, PC.major]; omega

theorem major_lock (o : Op) : (PC.lock o).major = 2 := rfl
theorem minor_lock (o : Op) : (PC.lock o).minor = 4 := rfl

theorem wakePc_measure (op : Op) (wk : Wake) :
    (wakePc op wk).major < 2 ∨ ((wakePc op wk).major = 2 ∧ (wakePc op wk).minor < 4) := by
  cases wk <;> simp [wakePc, PC.major, PC.minor]

theorem local_measure (c : Cfg) (a w : Word) (th : Thread) (o : Out) (h : localStep c a w th = some o) :
    o.th.major < th.major ∨ (o.wake = .none ∧ o.th.major = th.major ∧ o.th.minor < th.minor) := by
  unfold localStep at h
  cases hpc : th.pc with
  | lock op =>
    cases op <;> simp only [hpc] at h
    case runlock =>
      split at h
      · obtain rfl := Option.some.inj h
        simp [Thread.major, PC.major, hpc]
      · obtain rfl := Option.some.inj h
        generalize hq : (if READER_COUNT a = 1 ∧ WRITER_COUNT w ≠ 0 then wakePc Op.runlock c.runlockWake
          else PC.atUnlock Op.runlock true) = q
        have hm : q.major < 2 ∨ (q.major = 2 ∧ q.minor < 4) := by
          rw [← hq]; split
          · exact wakePc_measure _ _
          · simp [PC.major]
        simp only [Thread.major, Thread.minor, hpc, major_lock, minor_lock]
        rcases hm with hm | ⟨hm1, hm2⟩
        · left; omega
        · right; exact ⟨trivial, by omega, by omega⟩
    case wunlock =>
      obtain rfl := Option.some.inj h
      generalize hq : (if WRITER_COUNT w ≠ 0 then wakePc Op.wunlock c.wunlockWakeW
              else if READER_COUNT w ≠ 0 then wakePc Op.wunlock c.wunlockWakeR else PC.atUnlock Op.wunlock true) = q
      have hm : q.major < 2 ∨ (q.major = 2 ∧ q.minor < 4) := by
        rw [← hq]; split
        · exact wakePc_measure _ _
        · split
          · exact wakePc_measure _ _
          · simp [PC.major]
      simp only [Thread.major, Thread.minor, hpc, major_lock, minor_lock]
      rcases hm with hm | ⟨hm1, hm2⟩
      · left; omega
      · right; exact ⟨trivial, by omega, by omega⟩
    all_goals (
      repeat' (split at h)
      all_goals (obtain rfl := Option.some.inj h)
      all_goals simp [Thread.major, Thread.minor, PC.major, PC.minor, grantR, grantW, hpc])
  | atWait op cv =>
    simp only [hpc] at h
    obtain rfl := Option.some.inj h
    simp [Thread.major, Thread.minor, PC.major, PC.minor, hpc]
  | blocked op cv => simp [hpc] at h
  | woken op cv =>
    cases op <;> simp only [hpc] at h
    case rlock =>
      repeat' (split at h)
      all_goals (obtain rfl := Option.some.inj h)
      all_goals simp [Thread.major, Thread.minor, PC.major, PC.minor, grantR, hpc]
    case wlock =>
      repeat' (split at h)
      all_goals (obtain rfl := Option.some.inj h)
      all_goals simp [Thread.major, Thread.minor, PC.major, PC.minor, grantW, hpc]
    all_goals simp at h
  | atSignal op cv =>
    simp only [hpc] at h
    obtain rfl := Option.some.inj h
    simp [Thread.major, Thread.minor, PC.major, PC.minor, hpc]
  | atBcast op cv =>
    simp only [hpc] at h
    obtain rfl := Option.some.inj h
    simp [Thread.major, Thread.minor, PC.major, PC.minor, hpc]
  | atUnlock op ret =>
    simp only [hpc] at h
    obtain rfl := Option.some.inj h
    left
    have := finish_major_le th op ret
    simp only [Thread.major, hpc, PC.major] at this ⊢
    omega
  | done => simp [hpc] at h


theorem sum_map_set_add (f : Thread → Nat) : ∀ (l : List Thread) (i : Nat) (a x : Thread), l[i]? = some x →
    ((l.set i a).map f).sum + f x = (l.map f).sum + f a
  | [], i, a, x, h => by simp at h
  | y :: l, 0, a, x, h => by
    simp at h; subst h
    simp; omega
  | y :: l, i+1, a, x, h => by
    simp at h
    have := sum_map_set_add f l i a x h
    simp only [List.set_cons_succ, List.map_cons, List.sum_cons]; omega

theorem major_wake (th : Thread) : (wakeThread th).major = th.major := by
  unfold wakeThread Thread.major
  cases hpc : th.pc <;> simp [PC.major, hpc]

theorem applyWake_major {l l' : List Thread} {wk : Wake} {pick : Option Tid} (h : applyWake l wk pick = some l') :
    (l'.map Thread.major).sum = (l.map Thread.major).sum := by
  unfold applyWake at h
  cases wk with
  | none => simp at h; rw [h]
  | signal cv =>
    simp only at h
    rcases signalCv_spec h with ⟨rfl, _⟩ | ⟨u, thu, hu, _, rfl⟩
    · rfl
    · have := sum_map_set_add Thread.major l u (wakeThread thu) thu hu
      rw [major_wake] at this; omega
  | broadcast cv =>
    simp only [Option.some.injEq] at h
    subst h
    unfold broadcastCv
    rw [List.map_map]
    congr 1
    apply List.map_congr_left
    intro th _
    simp only [Function.comp]
    split
    · exact major_wake th
    · rfl

theorem step_measure {c : Cfg} {s s' : State} {t : Tid} {pick : Option Tid} (h : stepThread c s t pick = some s') :
    major s' < major s ∨ (major s' = major s ∧ minor s' < minor s) := by
  unfold stepThread at h
  cases hth : s.threads[t]? with
  | none => simp [hth] at h
  | some th =>
    simp only [hth] at h
    split at h
    · simp at h
    · cases hl : localStep c s.active s.waiting th with
      | none => simp [hl] at h
      | some o =>
        simp only [hl] at h
        cases hw : applyWake (s.threads.set t o.th) o.wake pick with
        | none => simp [hw] at h
        | some ths =>
          simp only [hw] at h
          have h' := Option.some.inj h
          subst h'
          have hmaj := applyWake_major hw
          have e1 := sum_map_set_add Thread.major s.threads t o.th th hth
          rcases local_measure c _ _ th o hl with hlt | ⟨hwk, heq, hlt⟩
          · left; simp only [major]; omega
          · right
            rw [hwk] at hw
            simp [applyWake] at hw
            subst hw
            have e2 := sum_map_set_add Thread.minor s.threads t o.th th hth
            simp only [major, minor]
            omega

/-- `s'` is a non-spurious successor of `s` -/
def NSStep (c : Cfg) (s' s : State) : Prop := ∃ t pick, stepThread c s t pick = some s'

theorem nsstep_wf (c : Cfg) : WellFounded (NSStep c) := by
  have hwf : WellFounded (Prod.Lex (fun a b : Nat => a < b) (fun a b : Nat => a < b)) :=
    (Prod.lex Nat.lt_wfRel Nat.lt_wfRel).wf
  apply Subrelation.wf (r := InvImage (Prod.Lex (fun a b : Nat => a < b) (fun a b : Nat => a < b)) measure) _ (InvImage.wf measure hwf)
  intro s' s ⟨t, pick, h⟩
  rcases step_measure h with h1 | ⟨h1, h2⟩
  · exact Prod.Lex.left _ _ h1
  · show Prod.Lex _ _ (major s', minor s') (major s, minor s)
    rw [h1]; exact Prod.Lex.right _ h2

theorem no_infinite_descent {α : Type} {r : α → α → Prop} (hwf : WellFounded r) :
    ∀ (g : Nat → α), ¬ (∀ i, r (g (i+1)) (g i)) := by
  intro g
  have : ∀ x, ∀ g : Nat → α, g 0 = x → ¬ (∀ i, r (g (i+1)) (g i)) := by
    intro x
    induction x using hwf.induction with
    | _ x ih =>
      intro g hg hdesc
      exact ih (g 1) (hg ▸ hdesc 0) (fun i => g (i+1)) rfl (fun i => hdesc (i+1))
  exact this (g 0) g rfl

end PV.RWLock

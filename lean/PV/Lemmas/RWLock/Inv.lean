import PV.Lemmas.RWLock.Step
/-! C02 lemmas, part 3: the invariant of the general model and its preservation. -/
namespace PV.RWLock

/-! ### counting over the thread list -/

abbrev cnt (p : Thread → Bool) (l : List Thread) : Nat := l.countP p

theorem countP_set_add {α} (p : α → Bool) : ∀ (l : List α) (i : Nat) (a x : α), l[i]? = some x →
    (l.set i a).countP p + (if p x then 1 else 0) = l.countP p + (if p a then 1 else 0)
  | [], i, a, x, h => by simp at h
  | y :: l, 0, a, x, h => by
    simp at h; subst h
    simp [List.countP_cons]; omega
  | y :: l, i+1, a, x, h => by
    simp at h
    have := countP_set_add p l i a x h
    simp [List.countP_cons]; omega

theorem fits_of_get {p : Thread → Bool} {l : List Thread} {t : Nat} {th : Thread} (h : l[t]? = some th) :
    Fits l.length (l.countP p) (p th) := by
  have hm : th ∈ l := List.mem_of_getElem? h
  constructor
  · intro hp
    exact List.countP_pos_iff.mpr ⟨th, hm, hp⟩
  · by_cases hp : p th = true
    · simp [hp]; exact List.countP_le_length
    · have hp' : p th = false := by simpa using hp
      -- replace th by an element satisfying p: the count goes up by one and is still ≤ length
      have := countP_set_add (fun x => !p x) l t th th h
      have h2 : l.countP p + l.countP (fun x => !p x) = l.length := by
        rw [List.length_eq_countP_add_countP (p := p) (l := l)]
        congr 1
        apply List.countP_congr; intro x _; simp
      have h3 : 1 ≤ l.countP (fun x => !p x) := List.countP_pos_iff.mpr ⟨th, hm, by simp [hp']⟩
      simp [hp']; omega

theorem forall_mem_set {α} {P : α → Prop} {l : List α} {i : Nat} {a : α}
    (h : ∀ x ∈ l, P x) (ha : P a) : ∀ x ∈ l.set i a, P x := by
  intro x hx
  rcases List.mem_or_eq_of_mem_set hx with h1 | h1
  · exact h x h1
  · exact h1 ▸ ha

/-! ### effect of the wake-up calls -/

theorem signalCv_spec {l l' : List Thread} {cv : Cv} {pick : Option Tid} (h : signalCv l cv pick = some l') :
    (l' = l ∧ l.countP (isBlockedOn cv) = 0) ∨
    (∃ u thu, l[u]? = some thu ∧ isBlockedOn cv thu = true ∧ l' = l.set u (wakeThread thu)) := by
  unfold signalCv at h
  cases pick with
  | some u =>
    simp only at h
    cases hu : l[u]? with
    | none => simp [hu] at h
    | some thu =>
      simp only [hu] at h
      by_cases hb : isBlockedOn cv thu = true
      · simp [hb] at h
        exact Or.inr ⟨u, thu, hu, hb, h.symm⟩
      · simp [hb] at h
  | none =>
    simp only at h
    cases hf : l.findIdx? (isBlockedOn cv) with
    | none =>
      simp only [hf] at h
      left
      refine ⟨by simpa using h.symm, ?_⟩
      rw [List.countP_eq_zero]
      intro a ha
      have := List.findIdx?_eq_none_iff.mp hf a ha
      simp [this]
    | some u =>
      simp only [hf] at h
      obtain ⟨hlt, hp, _⟩ := List.findIdx?_eq_some_iff_getElem.mp hf
      have hu : l[u]? = some l[u] := by simp [hlt]
      simp only [hu] at h
      exact Or.inr ⟨u, l[u], hu, hp, by simpa using h.symm⟩

theorem cnt_broadcast_same {p : Thread → Bool} {cv : Cv} (l : List Thread)
    (hp : ∀ th, isBlockedOn cv th = true → p (wakeThread th) = p th) :
    (broadcastCv l cv).countP p = l.countP p := by
  unfold broadcastCv
  rw [List.countP_map]
  apply List.countP_congr
  intro x _
  simp only [Function.comp]
  by_cases hb : isBlockedOn cv x = true
  · simp [hb, hp x hb]
  · simp [hb]

theorem isBlockedOn_wake (cv c : Cv) (th : Thread) : isBlockedOn cv th = true → isBlockedOn c (wakeThread th) = false := by
  intro h; unfold isBlockedOn wakeThread at *; cases hpc : th.pc <;> simp_all

theorem cnt_broadcast_blocked (cv : Cv) (l : List Thread) : (broadcastCv l cv).countP (isBlockedOn cv) = 0 := by
  unfold broadcastCv
  rw [List.countP_map, List.countP_eq_zero]
  intro x _
  simp only [Function.comp]
  by_cases hb : isBlockedOn cv x = true
  · simp [hb, isBlockedOn_wake cv cv x hb]
  · simp [hb]

/-! pointwise effect of `wakeThread` on the counting predicates -/
section wake
variable (cv c : Cv) (th : Thread) (hb : isBlockedOn cv th = true)
include hb
theorem heldR_wake : heldR (wakeThread th) = heldR th := by
  unfold isBlockedOn at hb; unfold wakeThread heldR; cases hpc : th.pc <;> simp_all
theorem heldW_wake : heldW (wakeThread th) = heldW th := by
  unfold isBlockedOn at hb; unfold wakeThread heldW; cases hpc : th.pc <;> simp_all
theorem inWait_wake : inWait c (wakeThread th) = inWait c th := by
  unfold isBlockedOn at hb; unfold wakeThread inWait; cases hpc : th.pc <;> simp_all
theorem isAtWait_wake : isAtWait c (wakeThread th) = isAtWait c th := by
  unfold isBlockedOn at hb; unfold wakeThread isAtWait; cases hpc : th.pc <;> simp_all
theorem isAtSignal_wake : isAtSignal c (wakeThread th) = isAtSignal c th := by
  unfold isBlockedOn at hb; unfold wakeThread isAtSignal; cases hpc : th.pc <;> simp_all
theorem isAtBcast_wake : isAtBcast c (wakeThread th) = isAtBcast c th := by
  unfold isBlockedOn at hb; unfold wakeThread isAtBcast; cases hpc : th.pc <;> simp_all
theorem owns_wake : owns (wakeThread th) = owns th := by
  unfold isBlockedOn at hb; unfold wakeThread owns PC.ownsMutex; cases hpc : th.pc <;> simp_all
theorem isWoken_wake : isWoken c (wakeThread th) = (c == cv) := by
  unfold isBlockedOn at hb; unfold wakeThread isWoken; cases hpc : th.pc <;> simp_all
  rename_i op c'; subst hb; cases c <;> cases c' <;> rfl
theorem isWoken_blocked : isWoken c th = false := by
  unfold isBlockedOn at hb; unfold isWoken; cases hpc : th.pc <;> simp_all
theorem isBlockedOn_blocked : isBlockedOn c th = (c == cv) := by
  unfold isBlockedOn at hb ⊢; cases hpc : th.pc <;> simp_all
  rename_i op c'; subst hb; cases c <;> cases c' <;> rfl
theorem TOK_wake : TOK (wakeThread th) = TOK th := by
  unfold isBlockedOn at hb; unfold wakeThread TOK; cases hpc : th.pc <;> simp_all
end wake

/-! ### the invariant -/

structure Inv (s : State) : Prop where
  tok : ∀ th ∈ s.threads, TOK th = true
  len : s.threads.length < 2^15
  act : s.active = pack (cnt heldR s.threads) (cnt heldW s.threads)
  wai : s.waiting = pack (cnt (inWait .read) s.threads) (cnt (inWait .write) s.threads)
  /-- at most one writer holds, and then no reader holds -/
  safe : cnt heldW s.threads ≤ 1 ∧ (1 ≤ cnt heldW s.threads → cnt heldR s.threads = 0)
  /-- the owner of the internal mutex is at a pc inside a critical section -/
  mtx : ∀ t, s.mutex = some t → ∃ th, s.threads[t]? = some th ∧ owns th = true
  mcnt : cnt owns s.threads = if s.mutex.isSome then 1 else 0
  /-- a thread about to wait has seen the condition it waits for (it owns the mutex since) -/
  aR : 1 ≤ cnt (isAtWait .read) s.threads → cnt heldW s.threads = 1
  aW : 1 ≤ cnt (isAtWait .write) s.threads → 1 ≤ cnt heldR s.threads + cnt heldW s.threads
  /-- no lost wake-up for writers: a blocked writer has a holder that will signal, a woken peer,
      or a signal in flight -/
  lw : 1 ≤ cnt (isBlockedOn .write) s.threads →
        1 ≤ cnt heldR s.threads + cnt heldW s.threads ∨ 1 ≤ cnt (isWoken .write) s.threads ∨ 1 ≤ cnt (isAtSignal .write) s.threads
  /-- no lost wake-up for readers: a blocked reader has a writer holding, a writer in its wait
      block (who will hold and then release), or a broadcast in flight -/
  lr : 1 ≤ cnt (isBlockedOn .read) s.threads →
        cnt heldW s.threads = 1 ∨ 1 ≤ cnt (inWait .write) s.threads ∨ 1 ≤ cnt (isAtBcast .read) s.threads

/-- what a step is, in terms of the counter-level local step -/
theorem step_spec {s s' : State} {t : Tid} {pick : Option Tid} (hinv : Inv s)
    (h : stepThread Cfg.reference s t pick = some s') :
    ∃ th o, s.threads[t]? = some th ∧ (th.pc.needsMutex = true → s.mutex = none) ∧
      localStepN (cnt heldR s.threads) (cnt heldW s.threads) (cnt (inWait .read) s.threads) (cnt (inWait .write) s.threads) th = some o ∧
      applyWake (s.threads.set t o.th) o.wake pick = some s'.threads ∧
      s'.mutex = (if o.owns then some t else none) ∧ s'.active = pack o.r o.w ∧ s'.waiting = pack o.wr o.ww := by
  unfold stepThread at h
  cases hth : s.threads[t]? with
  | none => simp [hth] at h
  | some th =>
    simp only [hth] at h
    have hm : th ∈ s.threads := List.mem_of_getElem? hth
    have href := localStep_refines s.threads.length hinv.len _ _ _ _ th (hinv.tok th hm)
      (fits_of_get hth) (fits_of_get hth) (fits_of_get hth) (fits_of_get hth)
    rw [← hinv.act, ← hinv.wai] at href
    by_cases hmx : (th.pc.needsMutex && s.mutex.isSome) = true
    · simp [hmx] at h
    · simp only [hmx] at h
      rw [href] at h
      cases hl : localStepN (cnt heldR s.threads) (cnt heldW s.threads) (cnt (inWait .read) s.threads) (cnt (inWait .write) s.threads) th with
      | none => simp [hl] at h
      | some o =>
        simp only [hl, Option.map_some, OutN.toOut] at h
        cases hw : applyWake (s.threads.set t o.th) o.wake pick with
        | none => simp [hw] at h
        | some ths =>
          simp only [hw] at h
          have h' := Option.some.inj h
          subst h'
          refine ⟨th, o, rfl, ?_, hl, hw, rfl, rfl, rfl⟩
          intro hn
          simp [hn] at hmx
          exact hmx

/-! ### return from an API function -/

theorem finish_held (th : Thread) (op : Op) (ret : Bool) : (finish th op ret).held = th.held := by
  unfold finish; simp only; split <;> rfl

theorem finish_pc (th : Thread) (op : Op) (ret : Bool) :
    (finish th op ret).pc = .done ∨ ∃ o, (finish th op ret).pc = .lock o := by
  unfold finish; simp only; split
  · left; rfl
  · right; exact ⟨_, rfl⟩

theorem Disc_tail2 {a b : Op} {rest : List Op} (h : Disc (a :: b :: rest) = true) : a.isAcq = true ∧ b = a.rel ∧ Disc rest = true := by
  simpa [Disc, and_assoc] using h

theorem TOK_start_of_Disc (p : List Op) (hd : Disc p = true) (last) :
    TOK (match p with
      | [] => { pc := .done, prog := [], held := .none, last := last }
      | o :: rest => { pc := .lock o, prog := rest, held := .none, last := last }) = true := by
  cases p with
  | nil => simp [TOK]
  | cons o rest =>
    cases rest with
    | nil => simp [Disc] at hd
    | cons b rest =>
      obtain ⟨h1, h2, h3⟩ := Disc_tail2 hd
      simp [TOK, h1, Disc, h2, h3]

theorem TOK_finish (prog : List Op) (held : Held) (last) (op : Op) (ret : Bool)
    (h : TOK { pc := .atUnlock op ret, prog := prog, held := held, last := last } = true) :
    TOK (finish { pc := .atUnlock op ret, prog := prog, held := held, last := last } op ret) = true := by
  by_cases ha : op.isAcq = true
  · -- acquire op: prog = rel :: rest
    simp only [TOK, ha, if_true, Bool.and_eq_true] at h
    obtain ⟨⟨hd, hh⟩, hr⟩ := h
    cases prog with
    | nil => simp [Disc] at hd
    | cons b rest =>
      obtain ⟨_, h2, h3⟩ := Disc_tail2 hd
      subst h2
      have hh' : held = (if ret = true then op.heldBy else Held.none) := by simpa using hh
      cases ret with
      | true =>
        simp only [finish, ha, Bool.not_true, Bool.and_false]
        cases op <;> simp_all [TOK, Op.isAcq, Op.rel, Op.heldBy]
      | false =>
        simp only [finish, ha, Bool.not_false, Bool.and_true, if_true]
        simp at hh'
        subst hh'
        exact TOK_start_of_Disc rest h3 _
  · have ha' : op.isAcq = false := by simpa using ha
    simp only [TOK, ha'] at h
    simp at h
    obtain ⟨hh, hd⟩ := h
    subst hh
    simp only [finish, ha', Bool.false_and]
    exact TOK_start_of_Disc prog hd _


/-! ### preservation of the invariant by a thread step -/

set_option hygiene false in
macro "deltas" h:term "," a:term "with" es:Lean.Parser.Tactic.simpLemma,* : tactic => `(tactic| (
  have dR := countP_set_add heldR _ _ $a _ $h
  have dW := countP_set_add heldW _ _ $a _ $h
  have dwr := countP_set_add (inWait .read) _ _ $a _ $h
  have dww := countP_set_add (inWait .write) _ _ $a _ $h
  have dar := countP_set_add (isAtWait .read) _ _ $a _ $h
  have daw := countP_set_add (isAtWait .write) _ _ $a _ $h
  have dbr := countP_set_add (isBlockedOn .read) _ _ $a _ $h
  have dbw := countP_set_add (isBlockedOn .write) _ _ $a _ $h
  have dkw := countP_set_add (isWoken .write) _ _ $a _ $h
  have dsw := countP_set_add (isAtSignal .write) _ _ $a _ $h
  have dcb := countP_set_add (isAtBcast .read) _ _ $a _ $h
  have dow := countP_set_add owns _ _ $a _ $h
  simp [heldR, heldW, inWait, isAtWait, isBlockedOn, isWoken, isAtSignal, isAtBcast, owns, PC.ownsMutex, $es,*] at dR dW dwr dww dar daw dbr dbw dkw dsw dcb dow))

theorem getElem?_set_self' {α} {l : List α} {t : Nat} {x a : α} (h : l[t]? = some x) : (l.set t a)[t]? = some a := by
  have : t < l.length := (List.getElem?_eq_some_iff.mp h).1
  simp [this]

set_option hygiene false in
macro "fin" : tactic => `(tactic| (
  refine ⟨forall_mem_set tok (by first | assumption | simp_all [TOK, waitOK, Op.isAcq, Op.heldBy, Op.isTry, Disc, Op.rel]), by simpa using len, ?_, ?_, ?_, ?_, ?_, ?_, ?_, ?_, ?_⟩
  all_goals dsimp only [cnt] at *
  · congr 1 <;> omega
  · congr 1 <;> omega
  · omega
  · first
    | (intro t' ht'; cases ht'; exact ⟨_, getElem?_set_self' hth, rfl⟩)
    | (intro t' ht'; cases ht')
  · first
    | (simp only [Option.isSome_some, if_true]; omega)
    | (simp only [Option.isSome_none, Bool.false_eq_true, if_false]; omega)
  · omega
  · omega
  · omega
  · omega))

set_option hygiene false in
macro "sc" a:term : tactic => `(tactic| (
  obtain rfl := Option.some.inj hl
  simp [applyWake] at hw hm' ha' hwt'
  subst hw hm' ha' hwt'
  clear hl
  deltas hth, $a with True
  fin))

set_option hygiene false in
macro "finW" tk:term "," mx:term : tactic => `(tactic| (
  refine ⟨$tk, by first | (dsimp only; omega) | simpa using len, ?_, ?_, ?_, $mx, ?_, ?_, ?_, ?_, ?_⟩
  all_goals dsimp only [cnt] at *
  · congr 1 <;> omega
  · congr 1 <;> omega
  · omega
  · first
    | (simp only [Option.isSome_some, if_true]; omega)
    | (simp only [Option.isSome_none, Bool.false_eq_true, if_false]; omega)
  · omega
  · omega
  · omega
  · omega))

theorem cnt_mono {p q : Thread → Bool} (l : List Thread) (h : ∀ th, p th = true → q th = true) : cnt p l ≤ cnt q l :=
  List.countP_mono_left (fun x _ => h x)

theorem mono_facts (l : List Thread) :
    cnt (isAtWait .read) l ≤ cnt owns l ∧ cnt (isAtWait .write) l ≤ cnt owns l ∧
    cnt (isAtSignal .write) l ≤ cnt owns l ∧ cnt (isAtBcast .read) l ≤ cnt owns l ∧
    cnt (isAtWait .read) l ≤ cnt (inWait .read) l ∧ cnt (isAtWait .write) l ≤ cnt (inWait .write) l ∧
    cnt (isBlockedOn .read) l ≤ cnt (inWait .read) l ∧ cnt (isBlockedOn .write) l ≤ cnt (inWait .write) l ∧
    cnt (isWoken .write) l ≤ cnt (inWait .write) l := by
  refine ⟨?_, ?_, ?_, ?_, ?_, ?_, ?_, ?_, ?_⟩ <;> apply cnt_mono <;> intro th <;>
    simp only [isAtWait, isAtSignal, isAtBcast, owns, PC.ownsMutex, inWait, isBlockedOn, isWoken] <;>
    cases th.pc <;> simp

set_option maxHeartbeats 4000000 in
theorem inv_step {s s' : State} {t : Tid} {pick : Option Tid} (hinv : Inv s)
    (h : stepThread Cfg.reference s t pick = some s') : Inv s' := by
  obtain ⟨th, o, hth, hmx, hl, hw, hm', ha', hwt'⟩ := step_spec hinv h
  have htok := hinv.tok th (List.mem_of_getElem? hth)
  have fR : Fits _ _ _ := fits_of_get (p := heldR) hth
  have fW : Fits _ _ _ := fits_of_get (p := heldW) hth
  have fwr : Fits _ _ _ := fits_of_get (p := inWait .read) hth
  have fww : Fits _ _ _ := fits_of_get (p := inWait .write) hth
  have fow : Fits _ _ _ := fits_of_get (p := owns) hth
  have far : Fits _ _ _ := fits_of_get (p := isAtWait .read) hth
  have faw : Fits _ _ _ := fits_of_get (p := isAtWait .write) hth
  obtain ⟨tok, len, act, wai, safe, mtx, mcnt, aR, aW, lw, lr⟩ := hinv
  have mle : cnt owns s.threads ≤ 1 := by rw [mcnt]; split <;> omega
  obtain ⟨m1, m2, m3, m4, m5, m6, m7, m8, m9⟩ := mono_facts s.threads
  obtain ⟨mutex', active', waiting', threads'⟩ := s'
  simp only at hw hm' ha' hwt'
  clear h
  obtain ⟨pc, prog, held, last⟩ := th
  dsimp only [cnt] at *
  have pR := fR.pos; have pW := fW.pos; have pwr := fwr.pos; have pww := fww.pos; have pow := fow.pos
  have par := far.pos; have paw := faw.pos
  clear fR fW fwr fww fow far faw
  cases pc with
  | lock op =>
    have hmn := hmx rfl
    have mcnt0 : List.countP owns s.threads = 0 := by rw [mcnt, hmn]; rfl
    clear mcnt hmx
    cases op with
    | rlock =>
      simp [TOK, Op.isAcq] at htok; obtain ⟨hh, hd⟩ := htok; subst hh
      simp only [localStepN] at hl
      split at hl
      · sc ({ pc := PC.atWait Op.rlock Cv.read, prog := prog, held := Held.none, last := last } : Thread)
      · sc ({ pc := PC.atUnlock Op.rlock true, prog := prog, held := Held.r, last := last } : Thread)
    | wlock =>
      simp [TOK, Op.isAcq] at htok; obtain ⟨hh, hd⟩ := htok; subst hh
      simp only [localStepN] at hl
      split at hl
      · sc ({ pc := PC.atWait Op.wlock Cv.write, prog := prog, held := Held.none, last := last } : Thread)
      · sc ({ pc := PC.atUnlock Op.wlock true, prog := prog, held := Held.w, last := last } : Thread)
    | rtry =>
      simp [TOK, Op.isAcq] at htok; obtain ⟨hh, hd⟩ := htok; subst hh
      simp only [localStepN] at hl
      split at hl
      · sc ({ pc := PC.atUnlock Op.rtry false, prog := prog, held := Held.none, last := last } : Thread)
      · sc ({ pc := PC.atUnlock Op.rtry true, prog := prog, held := Held.r, last := last } : Thread)
    | wtry =>
      simp [TOK, Op.isAcq] at htok; obtain ⟨hh, hd⟩ := htok; subst hh
      simp only [localStepN] at hl
      split at hl
      · sc ({ pc := PC.atUnlock Op.wtry false, prog := prog, held := Held.none, last := last } : Thread)
      · sc ({ pc := PC.atUnlock Op.wtry true, prog := prog, held := Held.w, last := last } : Thread)
    | runlock =>
      simp [TOK, Op.isAcq] at htok; obtain ⟨hh, hd⟩ := htok; subst hh
      have pR := pR rfl
      simp only [localStepN] at hl
      split at hl
      · omega
      · by_cases hc : List.countP heldR s.threads = 1 ∧ List.countP (inWait Cv.write) s.threads ≠ 0
        · simp only [hc, and_self, ne_eq, not_false_eq_true, if_true] at hl
          sc ({ pc := PC.atSignal Op.runlock Cv.write, prog := prog, held := Held.none, last := last } : Thread)
        · simp only [hc, if_false] at hl
          sc ({ pc := PC.atUnlock Op.runlock true, prog := prog, held := Held.none, last := last } : Thread)
    | wunlock =>
      simp [TOK, Op.isAcq] at htok; obtain ⟨hh, hd⟩ := htok; subst hh
      have pW := pW rfl
      simp only [localStepN] at hl
      by_cases hc : List.countP (inWait Cv.write) s.threads ≠ 0
      · simp only [hc, ne_eq, not_false_eq_true, if_true] at hl
        sc ({ pc := PC.atSignal Op.wunlock Cv.write, prog := prog, held := Held.none, last := last } : Thread)
      · simp only [hc, if_false] at hl
        by_cases hc2 : List.countP (inWait Cv.read) s.threads ≠ 0
        · simp only [hc2, ne_eq, not_false_eq_true, if_true] at hl
          sc ({ pc := PC.atBcast Op.wunlock Cv.read, prog := prog, held := Held.none, last := last } : Thread)
        · simp only [hc2, if_false] at hl
          sc ({ pc := PC.atUnlock Op.wunlock true, prog := prog, held := Held.none, last := last } : Thread)
  | atWait op cv =>
    have pow := pow rfl
    cases op <;> cases cv <;> simp [TOK, waitOK] at htok
    · obtain ⟨hh, hd⟩ := htok; subst hh
      have par := par rfl
      simp only [localStepN] at hl
      sc ({ pc := PC.blocked Op.rlock Cv.read, prog := prog, held := Held.none, last := last } : Thread)
    · obtain ⟨hh, hd⟩ := htok; subst hh
      have paw := paw rfl
      simp only [localStepN] at hl
      sc ({ pc := PC.blocked Op.wlock Cv.write, prog := prog, held := Held.none, last := last } : Thread)
  | blocked op cv => simp [localStepN] at hl
  | woken op cv =>
    have hmn := hmx rfl
    have mcnt0 : List.countP owns s.threads = 0 := by rw [mcnt, hmn]; rfl
    clear mcnt hmx
    cases op <;> cases cv <;> simp [TOK, waitOK] at htok
    · obtain ⟨hh, hd⟩ := htok; subst hh
      have pwr := pwr rfl
      simp only [localStepN] at hl
      split at hl
      · sc ({ pc := PC.atWait Op.rlock Cv.read, prog := prog, held := Held.none, last := last } : Thread)
      · sc ({ pc := PC.atUnlock Op.rlock true, prog := prog, held := Held.r, last := last } : Thread)
    · obtain ⟨hh, hd⟩ := htok; subst hh
      have pww := pww rfl
      simp only [localStepN] at hl
      split at hl
      · sc ({ pc := PC.atWait Op.wlock Cv.write, prog := prog, held := Held.none, last := last } : Thread)
      · sc ({ pc := PC.atUnlock Op.wlock true, prog := prog, held := Held.w, last := last } : Thread)
  | done => simp [localStepN] at hl
  | atUnlock op ret =>
    have pow := pow rfl
    have hT := TOK_finish prog held last op ret htok
    simp only [localStepN] at hl
    obtain rfl := Option.some.inj hl
    simp [applyWake] at hw hm' ha' hwt'
    subst hw hm' ha' hwt'
    clear hl
    rcases finish_pc { pc := PC.atUnlock op ret, prog := prog, held := held, last := last } op ret with hfp | ⟨o', hfp⟩
    · deltas hth, (finish { pc := PC.atUnlock op ret, prog := prog, held := held, last := last } op ret) with finish_held, hfp
      fin
    · deltas hth, (finish { pc := PC.atUnlock op ret, prog := prog, held := held, last := last } op ret) with finish_held, hfp
      fin
  | atBcast op cv =>
    have pow := pow rfl
    simp [TOK] at htok
    obtain ⟨⟨⟨hcv, hop⟩, hh⟩, hd⟩ := htok
    subst hcv hop hh
    simp only [localStepN] at hl
    obtain rfl := Option.some.inj hl
    simp [applyWake] at hw hm' ha' hwt'
    subst hw hm' ha' hwt'
    clear hl
    deltas hth, ({ pc := PC.atUnlock Op.wunlock true, prog := prog, held := Held.none, last := last } : Thread) with True
    have hT1 : ∀ x ∈ s.threads.set t { pc := PC.atUnlock Op.wunlock true, prog := prog, held := Held.none, last := last }, TOK x = true :=
      forall_mem_set tok (by simp [TOK, Op.isAcq, hd])
    generalize hl1 : s.threads.set t { pc := PC.atUnlock Op.wunlock true, prog := prog, held := Held.none, last := last } = l1 at *
    have eR := cnt_broadcast_same (p := heldR) (cv := .read) l1 (fun th hb => heldR_wake _ th hb)
    have eW := cnt_broadcast_same (p := heldW) (cv := .read) l1 (fun th hb => heldW_wake _ th hb)
    have ewr := cnt_broadcast_same (p := inWait .read) (cv := .read) l1 (fun th hb => inWait_wake _ _ th hb)
    have eww := cnt_broadcast_same (p := inWait .write) (cv := .read) l1 (fun th hb => inWait_wake _ _ th hb)
    have ear := cnt_broadcast_same (p := isAtWait .read) (cv := .read) l1 (fun th hb => isAtWait_wake _ _ th hb)
    have eaw := cnt_broadcast_same (p := isAtWait .write) (cv := .read) l1 (fun th hb => isAtWait_wake _ _ th hb)
    have ebr := cnt_broadcast_blocked .read l1
    have ebw := cnt_broadcast_same (p := isBlockedOn .write) (cv := .read) l1
      (fun th hb => by rw [isBlockedOn_wake _ _ th hb, isBlockedOn_blocked _ _ th hb]; rfl)
    have ekw := cnt_broadcast_same (p := isWoken .write) (cv := .read) l1
      (fun th hb => by rw [isWoken_wake _ _ th hb, isWoken_blocked _ _ th hb]; rfl)
    have esw := cnt_broadcast_same (p := isAtSignal .write) (cv := .read) l1 (fun th hb => isAtSignal_wake _ _ th hb)
    have ecb := cnt_broadcast_same (p := isAtBcast .read) (cv := .read) l1 (fun th hb => isAtBcast_wake _ _ th hb)
    have eow := cnt_broadcast_same (p := owns) (cv := .read) l1 (fun th hb => owns_wake _ th hb)
    have hlen : (broadcastCv l1 .read).length = s.threads.length := by simp [broadcastCv, ← hl1]
    finW (by
        intro x hx
        simp only [broadcastCv, List.mem_map] at hx
        obtain ⟨y, hy, rfl⟩ := hx
        by_cases hb : isBlockedOn .read y = true
        · simp only [hb, if_true, TOK_wake _ y hb]; exact hT1 y hy
        · simp only [hb]; exact hT1 y hy),
      (by
        intro t' ht'; cases ht'
        refine ⟨{ pc := PC.atUnlock Op.wunlock true, prog := prog, held := Held.none, last := last }, ?_, rfl⟩
        have : l1[t]? = some { pc := PC.atUnlock Op.wunlock true, prog := prog, held := Held.none, last := last } := by
          rw [← hl1]; exact getElem?_set_self' hth
        simp [broadcastCv, List.getElem?_map, this, isBlockedOn])
  | atSignal op cv =>
    have pow := pow rfl
    simp [TOK] at htok
    obtain ⟨⟨⟨hcv, hop⟩, hh⟩, hd⟩ := htok
    subst hcv hh
    simp only [localStepN] at hl
    obtain rfl := Option.some.inj hl
    simp only [applyWake] at hw
    simp at hm' ha' hwt'
    subst hm' ha' hwt'
    clear hl
    deltas hth, ({ pc := PC.atUnlock op true, prog := prog, held := Held.none, last := last } : Thread) with True
    have hT1 : ∀ x ∈ s.threads.set t { pc := PC.atUnlock op true, prog := prog, held := Held.none, last := last }, TOK x = true :=
      forall_mem_set tok (by rcases hop with rfl | rfl <;> simp [TOK, Op.isAcq, hd])
    have hself : (s.threads.set t { pc := PC.atUnlock op true, prog := prog, held := Held.none, last := last })[t]? =
        some { pc := PC.atUnlock op true, prog := prog, held := Held.none, last := last } := getElem?_set_self' hth
    have hlen : (s.threads.set t { pc := PC.atUnlock op true, prog := prog, held := Held.none, last := last }).length = s.threads.length := by simp
    generalize hl1 : s.threads.set t { pc := PC.atUnlock op true, prog := prog, held := Held.none, last := last } = l1 at *
    rcases signalCv_spec hw with ⟨rfl, hz⟩ | ⟨u, thu, hu, hb, rfl⟩
    · finW hT1, (by intro t' ht'; cases ht'; exact ⟨_, hself, rfl⟩)
    · have hut : u ≠ t := by
        intro e; subst e
        rw [hself] at hu
        have := Option.some.inj hu
        subst this
        simp [isBlockedOn] at hb
      have hlen2 : (l1.set u (wakeThread thu)).length = s.threads.length := by simp [hlen]
      have eR := countP_set_add heldR l1 u (wakeThread thu) thu hu
      have eW := countP_set_add heldW l1 u (wakeThread thu) thu hu
      have ewr := countP_set_add (inWait .read) l1 u (wakeThread thu) thu hu
      have eww := countP_set_add (inWait .write) l1 u (wakeThread thu) thu hu
      have ear := countP_set_add (isAtWait .read) l1 u (wakeThread thu) thu hu
      have eaw := countP_set_add (isAtWait .write) l1 u (wakeThread thu) thu hu
      have ebr := countP_set_add (isBlockedOn .read) l1 u (wakeThread thu) thu hu
      have ebw := countP_set_add (isBlockedOn .write) l1 u (wakeThread thu) thu hu
      have ekw := countP_set_add (isWoken .write) l1 u (wakeThread thu) thu hu
      have esw := countP_set_add (isAtSignal .write) l1 u (wakeThread thu) thu hu
      have ecb := countP_set_add (isAtBcast .read) l1 u (wakeThread thu) thu hu
      have eow := countP_set_add owns l1 u (wakeThread thu) thu hu
      simp [heldR_wake _ thu hb, heldW_wake _ thu hb, inWait_wake _ _ thu hb, isAtWait_wake _ _ thu hb,
        isAtSignal_wake _ _ thu hb, isAtBcast_wake _ _ thu hb, owns_wake _ thu hb, isWoken_wake _ _ thu hb,
        isWoken_blocked _ _ thu hb, isBlockedOn_blocked _ _ thu hb, isBlockedOn_wake _ _ thu hb]
        at eR eW ewr eww ear eaw ebr ebw ekw esw ecb eow
      finW (forall_mem_set hT1 (by rw [TOK_wake _ thu hb]; exact hT1 thu (List.mem_of_getElem? hu))),
        (by intro t' ht'; cases ht'; exact ⟨_, by rw [List.getElem?_set_ne hut]; exact hself, rfl⟩)

/-! ### spurious wake-ups, initial states, reachable states -/

theorem inv_spur {s s' : State} {t : Tid} (hinv : Inv s) (h : spurious s t = some s') : Inv s' := by
  unfold spurious at h
  cases hth : s.threads[t]? with
  | none => simp [hth] at h
  | some th =>
    simp only [hth] at h
    have hb : ∃ cv, isBlockedOn cv th = true := by
      unfold isBlockedOn; cases hpc : th.pc <;> simp [hpc] at h ⊢
    obtain ⟨cv, hb⟩ := hb
    have hs' : s' = { s with threads := s.threads.set t (wakeThread th) } := by
      cases hpc : th.pc <;> simp [hpc] at h
      exact h.symm
    subst hs'
    have htok := hinv.tok th (List.mem_of_getElem? hth)
    obtain ⟨tok, len, act, wai, safe, mtx, mcnt, aR, aW, lw, lr⟩ := hinv
    obtain ⟨m1, m2, m3, m4, m5, m6, m7, m8, m9⟩ := mono_facts s.threads
    have eR := countP_set_add heldR s.threads t (wakeThread th) th hth
    have eW := countP_set_add heldW s.threads t (wakeThread th) th hth
    have ewr := countP_set_add (inWait .read) s.threads t (wakeThread th) th hth
    have eww := countP_set_add (inWait .write) s.threads t (wakeThread th) th hth
    have ear := countP_set_add (isAtWait .read) s.threads t (wakeThread th) th hth
    have eaw := countP_set_add (isAtWait .write) s.threads t (wakeThread th) th hth
    have ebr := countP_set_add (isBlockedOn .read) s.threads t (wakeThread th) th hth
    have ebw := countP_set_add (isBlockedOn .write) s.threads t (wakeThread th) th hth
    have ekw := countP_set_add (isWoken .write) s.threads t (wakeThread th) th hth
    have esw := countP_set_add (isAtSignal .write) s.threads t (wakeThread th) th hth
    have ecb := countP_set_add (isAtBcast .read) s.threads t (wakeThread th) th hth
    have eow := countP_set_add owns s.threads t (wakeThread th) th hth
    have hne : ∀ u, s.mutex = some u → u ≠ t := by
      intro u hu e; subst e
      obtain ⟨th', h1, h2⟩ := mtx u hu
      rw [hth] at h1; obtain rfl := Option.some.inj h1
      unfold isBlockedOn at hb; unfold owns PC.ownsMutex at h2
      cases hpc : th.pc <;> simp_all
    cases cv <;>
    · simp [heldR_wake _ th hb, heldW_wake _ th hb, inWait_wake _ _ th hb, isAtWait_wake _ _ th hb,
        isAtSignal_wake _ _ th hb, isAtBcast_wake _ _ th hb, owns_wake _ th hb, isWoken_wake _ _ th hb,
        isWoken_blocked _ _ th hb, isBlockedOn_blocked _ _ th hb, isBlockedOn_wake _ _ th hb]
        at eR eW ewr eww ear eaw ebr ebw ekw esw ecb eow
      refine ⟨forall_mem_set tok (by rw [TOK_wake _ th hb]; exact htok), by simpa using len, ?_, ?_, ?_, ?_, ?_, ?_, ?_, ?_, ?_⟩
      all_goals dsimp only [cnt] at *
      · rw [act]; congr 1 <;> omega
      · rw [wai]; congr 1 <;> omega
      · omega
      · intro u hu
        obtain ⟨th', h1, h2⟩ := mtx u hu
        exact ⟨th', by rw [List.getElem?_set_ne (Ne.symm (hne u hu))]; exact h1, h2⟩
      · rw [← mcnt]; omega
      · omega
      · omega
      · omega
      · omega


theorem TOK_start (p : List Op) (hd : Disc p = true) : TOK (Thread.start p) = true := by
  unfold Thread.start
  cases p with
  | nil => simp [TOK]
  | cons o rest => exact TOK_start_of_Disc (o :: rest) hd none

theorem start_pc (p : List Op) : (Thread.start p).pc = .done ∨ ∃ o, (Thread.start p).pc = .lock o := by
  unfold Thread.start; cases p with
  | nil => left; rfl
  | cons o rest => right; exact ⟨o, rfl⟩

theorem start_held (p : List Op) : (Thread.start p).held = .none := by
  unfold Thread.start; cases p <;> rfl

theorem cnt_init_zero (q : Thread → Bool) (progs : List (List Op)) (h : ∀ p, q (Thread.start p) = false) :
    cnt q (progs.map Thread.start) = 0 := by
  rw [cnt, List.countP_eq_zero]
  intro a ha
  obtain ⟨p, _, rfl⟩ := List.mem_map.mp ha
  simp [h p]

theorem inv_init (progs : List (List Op)) (hd : ∀ p ∈ progs, Disc p = true) (hn : progs.length < 2^15) :
    Inv (init progs) := by
  have z1 := cnt_init_zero heldR progs (fun p => by simp [heldR, start_held])
  have z2 := cnt_init_zero heldW progs (fun p => by simp [heldW, start_held])
  have hq : ∀ (q : Thread → Bool), (∀ th, (th.pc = .done ∨ ∃ o, th.pc = .lock o) → q th = false) →
      cnt q (progs.map Thread.start) = 0 := fun q h => cnt_init_zero q progs (fun p => h _ (start_pc p))
  have z3 := hq (inWait .read) (by intro th h; unfold inWait; rcases h with h | ⟨o, h⟩ <;> simp [h])
  have z4 := hq (inWait .write) (by intro th h; unfold inWait; rcases h with h | ⟨o, h⟩ <;> simp [h])
  have z5 := hq (isAtWait .read) (by intro th h; unfold isAtWait; rcases h with h | ⟨o, h⟩ <;> simp [h])
  have z6 := hq (isAtWait .write) (by intro th h; unfold isAtWait; rcases h with h | ⟨o, h⟩ <;> simp [h])
  have z7 := hq (isBlockedOn .read) (by intro th h; unfold isBlockedOn; rcases h with h | ⟨o, h⟩ <;> simp [h])
  have z8 := hq (isBlockedOn .write) (by intro th h; unfold isBlockedOn; rcases h with h | ⟨o, h⟩ <;> simp [h])
  have z9 := hq owns (by intro th h; unfold owns PC.ownsMutex; rcases h with h | ⟨o, h⟩ <;> simp [h])
  refine ⟨?_, by simpa [init] using hn, ?_, ?_, ?_, ?_, ?_, ?_, ?_, ?_, ?_⟩
  all_goals simp only [init]
  · intro th hth
    obtain ⟨p, hp, rfl⟩ := List.mem_map.mp hth
    exact TOK_start p (hd p hp)
  · rw [z1, z2]; rfl
  · rw [z3, z4]; rfl
  · omega
  · intro t h; cases h
  · rw [z9]; rfl
  · omega
  · omega
  · omega
  · omega

theorem reach_inv {s : State} (h : Reach Cfg.reference s) : Inv s := by
  induction h with
  | init progs hd hn => exact inv_init progs hd hn
  | step _ hs ih => exact inv_step ih hs
  | spur _ hs ih => exact inv_spur ih hs

end PV.RWLock

import PV.Model.UThreadOwners
import PV.Lemmas.UThread
/-! Invariants of the per-thread ownership layer: the pooled ghost counter `userRefs h` is the sum of
what the individual threads hold, so the per-thread discipline implies the pooled one. -/
namespace PV.UThread
open PV.Generated.UThread

theorem gstep_ok {g g' : GState} {e : Ev} (h : gstep g e = .ok g') : step g.s e = .ok g'.s ∧ g'.owns = ownsAfter g e := by
  unfold gstep at h
  split at h
  · rename_i s' hs; injection h with h; subst h; exact ⟨hs, rfl⟩
  · cases h

theorem sumTo_congr {f f' : Nat → Nat} : ∀ {n : Nat}, (∀ t, t < n → f t = f' t) → sumTo f n = sumTo f' n
  | 0, _ => rfl
  | n + 1, h => by
    unfold sumTo
    rw [sumTo_congr (fun t ht => h t (by omega)), h n (by omega)]

theorem sumTo_zero {f : Nat → Nat} : ∀ {n : Nat}, (∀ t, t < n → f t = 0) → sumTo f n = 0
  | 0, _ => rfl
  | n + 1, h => by unfold sumTo; rw [sumTo_zero (fun t ht => h t (by omega)), h n (by omega)]

theorem le_sumTo {f : Nat → Nat} : ∀ {n t : Nat}, t < n → f t ≤ sumTo f n
  | n + 1, t, h => by
    unfold sumTo
    by_cases e : t = n
    · subst e; omega
    · have := le_sumTo (f := f) (n := n) (t := t) (by omega); omega

/-- changing the summand at one index below the bound -/
theorem sumTo_update {f f' : Nat → Nat} : ∀ {n t : Nat}, t < n → (∀ t', t' ≠ t → f' t' = f t') →
    sumTo f' n + f t = sumTo f n + f' t
  | n + 1, t, h, hne => by
    unfold sumTo
    by_cases e : t = n
    · subst e
      rw [sumTo_congr (f := f') (f' := f) (fun t' ht' => hne t' (by omega))]; omega
    · have := sumTo_update (f := f) (f' := f') (n := n) (t := t) (by omega) hne
      rw [hne n (Ne.symm e)]; omega

structure OInv (g : GState) : Prop where
  oT : ∀ t h, g.s.nT ≤ t → g.owns t h = 0
  oH : ∀ t h, g.s.nH ≤ h → g.owns t h = 0
  oS : ∀ c, g.s.spin = some c → c.by_ < g.s.nT
  /-- the pooled counter is what the threads hold together -/
  oU : ∀ h, (g.s.hdl h).userRefs = heldBy g h

theorem OInv.init : OInv ginit := by
  refine ⟨fun _ _ _ => rfl, fun _ _ _ => rfl, ?_, ?_⟩
  · intro c hc; simp [ginit, PV.UThread.init] at hc
  · intro h; simp [ginit, PV.UThread.init, heldBy, sumTo]

/-- the user-reference counters are not touched by the destructors of a terminating thread -/
theorem unrefCore_own_userRefs {s s' : State} {h : Nat} (hs : unrefCore s h true = .ok s') :
    ∀ h', (s'.hdl h').userRefs = (s.hdl h').userRefs := by
  intro h'
  obtain ⟨_, ⟨_, rfl⟩ | ⟨_, rfl⟩⟩ := unrefCore_ok hs <;>
  · by_cases e : h' = h
    · subst e; simp [decd]
    · simp only; rw [upd_ne _ _ e]

theorem runDtors_userRefs {t : Nat} : ∀ {l : List Nat} {s s' : State}, runDtors t s l = .ok s' →
    (∀ h', (s'.hdl h').userRefs = (s.hdl h').userRefs) ∧ s'.nH = s.nH ∧ s'.spin = s.spin
  | [], s, s', hs => by unfold runDtors at hs; injection hs with hs; subst hs; exact ⟨fun _ => rfl, rfl, rfl⟩
  | n :: r, s, s', hs => by
    obtain ⟨s1, h1, h2⟩ := runDtors_cons_ok hs
    have a : (∀ h', (s1.hdl h').userRefs = (s.hdl h').userRefs) ∧ s1.nH = s.nH ∧ s1.spin = s.spin := by
      rcases dtorOne_ok h1 with ⟨_, rfl⟩ | ⟨_, _, rfl⟩ | ⟨_, _, hu⟩
      · exact ⟨fun _ => rfl, rfl, rfl⟩
      · exact ⟨fun _ => rfl, rfl, rfl⟩
      · refine ⟨fun h' => (unrefCore_own_userRefs hu h').trans rfl, ?_, ?_⟩
        · obtain ⟨_, ⟨_, rfl⟩ | ⟨_, rfl⟩⟩ := unrefCore_ok hu <;> rfl
        · obtain ⟨_, ⟨_, rfl⟩ | ⟨_, rfl⟩⟩ := unrefCore_ok hu <;> rfl
    have b := runDtors_userRefs h2
    exact ⟨fun h' => (b.1 h').trans (a.1 h'), b.2.1.trans a.2.1, b.2.2.trans a.2.2⟩

theorem currentCore_userRefs (s : State) (t n : Nat) (hB : ∀ h, s.nH ≤ h → s.hdl h = {}) :
    (∀ h', ((currentCore s t n).1.hdl h').userRefs = (s.hdl h').userRefs) ∧ s.nH ≤ (currentCore s t n).1.nH ∧
    (currentCore s t n).1.nH ≤ s.nH + 1 ∧ (currentCore s t n).1.spin = s.spin := by
  unfold currentCore; split
  · exact ⟨fun _ => rfl, Nat.le_refl _, Nat.le_succ _, rfl⟩
  · refine ⟨fun h' => ?_, by simp, by simp, rfl⟩
    by_cases e : h' = s.nH
    · subst e; simp [hB _ (Nat.le_refl _)]
    · simp only; rw [upd_ne _ _ e]

/-- events that touch neither the counters nor the thread / handle bounds downwards -/
theorem OInv.frame {g : GState} {s' : State} (ho : OInv g) (e1 : ∀ h, (s'.hdl h).userRefs = (g.s.hdl h).userRefs)
    (e2 : s'.nT = g.s.nT) (e3 : g.s.nH ≤ s'.nH) (e4 : s'.spin = g.s.spin) : OInv { s := s', owns := g.owns } := by
  refine ⟨fun t h ht => ho.oT t h (e2 ▸ ht), fun t h hh => ho.oH t h (by simp only at hh; omega), ?_, ?_⟩
  · intro c hc; simp only at hc ⊢; rw [e4] at hc; rw [e2]; exact ho.oS c hc
  · intro h; simp only [heldBy]; rw [e1, e2]; exact ho.oU h

theorem OInv.step {g g' : GState} {e : Ev} (ho : OInv g) (hk : KInv g.s) (hi : HInv g.s) (hp : PermittedT g e)
    (hs : gstep g e = .ok g') : OInv g' := by
  obtain ⟨hs, hown⟩ := gstep_ok hs
  have hg' : g' = { s := g'.s, owns := ownsAfter g e } := by cases g'; simp_all
  rw [hg']
  cases e with
  | spawn =>
    have := spawn_ok hs; rw [this]
    refine ⟨fun t h ht => ho.oT t h (by simp only at ht; omega), ho.oH, fun c hc => by have := ho.oS c hc; simp only; omega, ?_⟩
    intro h; simp only [heldBy, sumTo, ownsAfter]; rw [ho.oT _ h (Nat.le_refl _)]; exact ho.oU h
  | createBegin a j n =>
    obtain ⟨hc, _, e'⟩ := createBegin_ok hs; rw [e']
    have ha := hk.thr_lt (t := a) (by rw [hc.1]; simp)
    refine ⟨fun t h ht => ho.oT t h (by simp only at ht; omega), fun t h hh => ho.oH t h (by simp only at hh; omega), ?_, ?_⟩
    · intro c hc'; simp only at hc' ⊢; injection hc' with hc'; subst hc'; simp only; omega
    · intro h; simp only [heldBy, sumTo, ownsAfter]; rw [ho.oT _ h (Nat.le_refl _)]
      by_cases e : h = g.s.nH
      · subst e; simp
        have := ho.oU g.s.nH; rw [hi.hB _ (Nat.le_refl _)] at this; simpa [heldBy] using this
      · rw [upd_ne _ _ e]; exact ho.oU h
  | createEnd a =>
    obtain ⟨c, hspin, hby, e'⟩ := createEnd_ok hs; rw [e']
    have ha : a < g.s.nT := hby ▸ ho.oS c hspin
    have hu := hi.hU c.h (hi.sC c hspin).2.1
    simp only [ownsAfter, hspin]
    refine ⟨?_, ?_, fun c' hc' => by simp at hc', ?_⟩
    · intro t h ht; simp only at ht; simp only [bump]
      rw [if_neg (by intro x; omega)]; exact ho.oT t h ht
    · intro t h hh; simp only at hh; simp only [bump]
      have := (hi.sC c hspin).1
      rw [if_neg (by intro x; omega)]; exact ho.oH t h hh
    · intro h; simp only [heldBy]
      by_cases e : h = c.h
      · subst e
        have := sumTo_update (f := fun t => g.owns t c.h) (f' := fun t => bump g.owns a c.h (· + 1) t c.h) (n := g.s.nT) (t := a) ha
          (by intro t' ht'; simp [bump, ht'])
        have h0 := ho.oU c.h; rw [hu.2.1] at h0; simp only [heldBy] at h0
        simp [bump] at this ⊢; omega
      · rw [upd_ne _ _ e, ho.oU h]; simp only [heldBy]
        exact sumTo_congr (fun t _ => by simp [bump, e])
  | start t =>
    obtain ⟨_, _, _, _, _, _, _, _, _, e'⟩ := start_ok hs; rw [e']
    exact ho.frame (fun _ => rfl) rfl (Nat.le_refl _) rfl
  | exit t c =>
    obtain ⟨n, _, _, _, _, hcase⟩ := exit_ok hs
    have cc := currentCore_userRefs g.s t n hi.hB
    rcases hcase with ⟨_, e'⟩ | ⟨_, e'⟩ <;> rw [e']
    · exact ho.frame cc.1 (currentCore_nT _ _ _) cc.2.1 cc.2.2.2
    · refine ho.frame ?_ (currentCore_nT _ _ _) cc.2.1 cc.2.2.2
      intro h; simp only
      by_cases e : h = (currentCore g.s t n).2
      · rw [e]; simp; exact cc.1 _
      · rw [upd_ne _ _ e]; exact cc.1 h
  | ret t => obtain ⟨_, _, e'⟩ := ret_ok hs; rw [e']; exact ho.frame (fun _ => rfl) rfl (Nat.le_refl _) rfl
  | threadEnd t =>
    obtain ⟨_, s1, hr, e'⟩ := threadEnd_ok hs; rw [e']
    have r := runDtors_userRefs hr
    exact ho.frame r.1 (runDtors_thr hr).2 (by rw [r.2.1]; exact Nat.le_refl _) r.2.2
  | ref a h =>
    obtain ⟨hc, _, _, _, e'⟩ := ref_ok hs; rw [e']
    have ha := hk.thr_lt (t := a) (by rw [hc.1]; simp)
    simp only [ownsAfter]
    refine ⟨?_, ?_, ho.oS, ?_⟩
    · intro t h' ht; simp only at ht; simp only [bump]; rw [if_neg (by intro x; omega)]; exact ho.oT t h' ht
    · intro t h' hh; simp only at hh; simp only [bump]
      rw [if_neg (by intro x; omega)]; exact ho.oH t h' hh
    · intro h'; simp only [heldBy]
      by_cases e : h' = h
      · subst e
        have := sumTo_update (f := fun t => g.owns t h') (f' := fun t => bump g.owns a h' (· + 1) t h') (n := g.s.nT) (t := a) ha
          (by intro t' ht'; simp [bump, ht'])
        have h0 := ho.oU h'; simp only [heldBy] at h0
        simp [bump] at this ⊢; omega
      · rw [upd_ne _ _ e, ho.oU h']; simp only [heldBy]
        exact sumTo_congr (fun t _ => by simp [bump, e])
  | unref a h =>
    obtain ⟨hc, hlt, _, hu⟩ := unref_ok hs
    have ha := hk.thr_lt (t := a) (by rw [hc.1]; simp)
    have hp' : 0 < g.owns a h := hp
    have hupd := sumTo_update (f := fun t => g.owns t h) (f' := fun t => bump g.owns a h (· - 1) t h) (n := g.s.nT) (t := a) ha
      (by intro t' ht'; simp [bump, ht'])
    have h0 := ho.oU h; simp only [heldBy] at h0
    simp only [ownsAfter]
    have key : ∀ x' : Handle, x'.userRefs = (g.s.hdl h).userRefs - 1 → ∀ fl,
        OInv { s := { g.s with hdl := upd g.s.hdl h x', freeLog := fl }, owns := bump g.owns a h (· - 1) } := by
      intro x' hx fl
      refine ⟨?_, ?_, ho.oS, ?_⟩
      · intro t h' ht; simp only at ht; simp only [bump]; rw [if_neg (by intro x; omega)]; exact ho.oT t h' ht
      · intro t h' hh; simp only at hh; simp only [bump]
        rw [if_neg (by intro x; omega)]; exact ho.oH t h' hh
      · intro h'; simp only [heldBy]
        by_cases e : h' = h
        · subst e; simp [bump] at hupd ⊢; rw [hx]; omega
        · rw [upd_ne _ _ e, ho.oU h']; simp only [heldBy]
          exact sumTo_congr (fun t _ => by simp [bump, e])
    obtain ⟨_, ⟨_, e'⟩ | ⟨_, e'⟩⟩ := unrefCore_ok hu <;> rw [e']
    · exact key _ (by simp [decd]) _
    · have := key (decd (g.s.hdl h) false) (by simp [decd]) g.s.freeLog
      exact this
  | join a h =>
    obtain ⟨_, _, _, _, ⟨_, e'⟩ | ⟨_, _, _, e'⟩⟩ := join_ok hs <;> rw [e']
    · exact ho.frame (fun _ => rfl) rfl (Nat.le_refl _) rfl
    · refine ho.frame ?_ rfl (Nat.le_refl _) rfl
      intro h'; simp only
      by_cases e : h' = h
      · subst e; simp
      · rw [upd_ne _ _ e]
  | current t =>
    obtain ⟨n, _, _, _, e'⟩ := current_ok hs; rw [e']
    have cc := currentCore_userRefs g.s t n hi.hB
    exact ho.frame cc.1 (currentCore_nT _ _ _) cc.2.1 cc.2.2.2
  | localNew a n => obtain ⟨_, e'⟩ := localNew_ok hs; rw [e']; exact ho.frame (fun _ => rfl) rfl (Nat.le_refl _) rfl
  | localFree a k =>
    obtain ⟨_, _, _, _, ⟨_, e'⟩ | ⟨n, _, e'⟩⟩ := localFree_ok hs <;> rw [e'] <;>
      exact ho.frame (fun _ => rfl) rfl (Nat.le_refl _) rfl
  | keyCreate t k => obtain ⟨_, _, _, _, _, e'⟩ := keyCreate_ok hs; rw [e']; exact ho.frame (fun _ => rfl) rfl (Nat.le_refl _) rfl
  | keyCas t k =>
    obtain ⟨n, _, _, ⟨_, e'⟩ | ⟨_, e'⟩⟩ := keyCas_ok hs <;> rw [e'] <;> exact ho.frame (fun _ => rfl) rfl (Nat.le_refl _) rfl
  | setLocal t k v => obtain ⟨n, _, _, _, _, _, e'⟩ := setLocal_ok hs; rw [e']; exact ho.frame (fun _ => rfl) rfl (Nat.le_refl _) rfl
  | replaceLocal t k v => obtain ⟨n, _, _, _, _, _, e'⟩ := replaceLocal_ok hs; rw [e']; exact ho.frame (fun _ => rfl) rfl (Nat.le_refl _) rfl
  | getLocal t k => obtain ⟨n, _, _, _, _, _, e'⟩ := getLocal_ok hs; rw [e']; exact ho.frame (fun _ => rfl) rfl (Nat.le_refl _) rfl
  | createFail a =>
    obtain ⟨_, _, e'⟩ := createFail_ok hs; rw [e']
    refine ho.frame ?_ rfl (Nat.le_succ _) rfl
    intro h; simp only
    by_cases e : h = g.s.nH
    · subst e; simp [hi.hB _ (Nat.le_refl _)]
    · rw [upd_ne _ _ e]
  | joinFail a h => obtain ⟨_, _, _, _, _, e'⟩ := joinFail_ok hs; rw [e']; exact ho.frame (fun _ => rfl) rfl (Nat.le_refl _) rfl
  | tlsFail t k gt => obtain ⟨_, _, _, _, _, e'⟩ := tlsFail_ok hs; rw [e']; exact ho.frame (fun _ => rfl) rfl (Nat.le_refl _) rfl
  | storeFail t k r => obtain ⟨n, _, _, _, _, _, e'⟩ := storeFail_ok hs; rw [e']; exact ho.frame (fun _ => rfl) rfl (Nat.le_refl _) rfl
  | startUnstored t =>
    obtain ⟨h, _, _, _, _, _, _, e'⟩ := startUnstored_ok hs; rw [e']
    refine ho.frame ?_ rfl (Nat.le_refl _) rfl
    intro h'; simp only
    by_cases e : h' = h
    · subst e; simp [upd]
    · rw [upd_ne _ _ e]
  | retUnstored t h =>
    obtain ⟨_, _, s1, hu, e'⟩ := retUnstored_ok hs; rw [e']
    have r := unrefCore_own_userRefs hu
    have r2 : s1.nH = g.s.nH ∧ s1.spin = g.s.spin := by
      obtain ⟨_, ⟨_, rfl⟩ | ⟨_, rfl⟩⟩ := unrefCore_ok hu <;> exact ⟨rfl, rfl⟩
    exact ho.frame r (unrefCore_thr hu).2 (by simp only; rw [r2.1]; exact Nat.le_refl _) r2.2
  | currentFail t =>
    obtain ⟨_, _, e'⟩ := currentFail_ok hs; rw [e']
    refine ho.frame ?_ rfl (Nat.le_succ _) rfl
    intro h; simp only
    by_cases e : h = g.s.nH
    · subst e; simp [hi.hB _ (Nat.le_refl _)]
    · rw [upd_ne _ _ e]

/-- a thread that holds a reference of its own is among the pooled holders -/
theorem OInv.pooled {g : GState} (ho : OInv g) {a h : Nat} (hp : 0 < g.owns a h) : 0 < (g.s.hdl h).userRefs := by
  have ha : a < g.s.nT := by
    apply Classical.byContradiction; intro hn
    have := ho.oT a h (by omega); omega
  have := le_sumTo (f := fun t => g.owns t h) ha
  rw [ho.oU h]; simp only [heldBy]; omega

/-- the per-thread discipline implies the pooled one -/
theorem PermittedT.permitted {g : GState} {e : Ev} (ho : OInv g) (hp : PermittedT g e) : Permitted g.s e := by
  cases e with
  | ref a h => exact hp.imp ho.pooled id
  | join a h => exact ⟨hp.1.imp ho.pooled id, hp.2⟩
  | unref a h => exact ho.pooled hp
  | joinFail a h => exact ⟨hp.1.imp ho.pooled id, hp.2⟩
  | _ => trivial

theorem TReach.inv {g : GState} (h : TReach g) : DReach g.s ∧ OInv g := by
  induction h with
  | init => exact ⟨.init, OInv.init⟩
  | step e _ hp hs ih =>
    obtain ⟨hk, hi, _⟩ := ih.1.inv
    exact ⟨.step e ih.1 (hp.permitted ih.2) (gstep_ok hs).1, ih.2.step hk hi hp hs⟩


/-! executable run / discipline check of the ghost layer (for the non-vacuity examples) -/

def grun : GState → List Ev → Except Err GState
  | g, [] => .ok g
  | g, e :: r => match gstep g e with | .error x => .error x | .ok g' => grun g' r

def checkDiscT : GState → List Ev → Bool
  | _, [] => true
  | g, e :: r => decide (PermittedT g e) && (match gstep g e with | .ok g' => checkDiscT g' r | .error _ => true)

theorem TReach.grun : ∀ {es : List Ev} {g g' : GState}, TReach g → checkDiscT g es = true → grun g es = .ok g' → TReach g'
  | [], g, g', hr, _, hs => by unfold PV.UThread.grun at hs; injection hs with hs; exact hs ▸ hr
  | e :: r, g, g', hr, hc, hs => by
    unfold PV.UThread.grun at hs
    unfold checkDiscT at hc
    simp only [Bool.and_eq_true, decide_eq_true_eq] at hc
    split at hs
    · cases hs
    · rename_i g1 h1
      have h2 := hc.2; rw [h1] at h2
      exact TReach.grun (.step e hr hc.1 h1) h2 hs

end PV.UThread

import PV.Lemmas.SocketCalls
/-!
# C10 `getters_reflect_run`: the mode/lifecycle fields of the model socket equal the spec record

* `call_refines_spec` (+ `call_identity`, `call_fd`, `call_closed_fd`): one call, every script.
* `new_spec`, `newFromFd_spec`, `accept_spec`: the constructors.
* `getters_reflect_run`: every sequence of world calls, starting from the empty world.
-/
set_option linter.unusedSimpArgs false
set_option linter.unusedVariables false
namespace PV.Socket
open PV.Generated.Socket

/-! ## monad laws of `M` (as equalities of functions) -/

theorem M.pure_bind' {α β} (a : α) (k : α → M β) : (Pure.pure a >>= k) = k a := by
  funext st
  show M.bind (M.pure a) k st = k a st
  unfold M.bind M.pure
  simp only []
  cases k a st <;> simp

theorem M.bind_assoc' {α β γ} (m : M α) (f : α → M β) (k : β → M γ) :
    ((m >>= f) >>= k) = (m >>= fun a => f a >>= k) := by
  funext st
  show M.bind (M.bind m f) k st = M.bind m (fun a => M.bind (f a) k) st
  unfold M.bind
  cases m st with
  | stop w => simp
  | ok a st' e1 =>
    simp only []
    cases f a st' with
    | stop w => simp
    | ok b st'' e2 =>
      simp only []
      cases k b st'' <;> simp [List.append_assoc]

/-! ## a predicate on (value, trace) of a computation, on every script -/

/-- whenever `m` returns, its value and the native calls it made satisfy `P` -/
def ResAll {α} (P : α → List Ev → Prop) (m : M α) : Prop :=
  ∀ st, match m st with
    | .ok a _ evs => P a evs
    | .stop _ => True

theorem ResAll.pure {α} {P : α → List Ev → Prop} (a : α) (h : P a []) : ResAll P (Pure.pure a : M α) := by
  intro st; simpa [Pure.pure, M.pure] using h

theorem ResAll.stopWith {α} {P : α → List Ev → Prop} (w : Stop) : ResAll P (stopWith w : M α) := by
  intro st; simp [PV.Socket.stopWith]

theorem ResAll.mono {α} {P P' : α → List Ev → Prop} {m : M α} (h : ∀ a evs, P a evs → P' a evs)
    (hm : ResAll P m) : ResAll P' m := by
  intro st
  have := hm st
  cases hms : m st with
  | stop w => simp
  | ok a st' evs => simp only [hms] at this ⊢; exact h _ _ this

theorem ResAll.bind {α β} {Q : α → List Ev → Prop} {P : β → List Ev → Prop} {m : M α} {k : α → M β}
    (hm : ResAll Q m) (hk : ∀ a, ResAll (fun b e2 => ∀ e1, Q a e1 → P b (e1 ++ e2)) (k a)) :
    ResAll P (m >>= k) := by
  intro st
  have h1 := hm st
  show match M.bind m k st with | .ok a _ evs => P a evs | .stop _ => True
  unfold M.bind
  cases hms : m st with
  | stop w => simp
  | ok a st' evs =>
    simp only [hms] at h1
    have h2 := hk a st'
    simp only []
    cases hks : k a st' with
    | stop w => simp
    | ok b st'' evs' =>
      simp only [hks] at h2
      exact h2 evs h1

/-- a bind whose first part is not looked at -/
theorem ResAll.bind_any {α β} {P : β → List Ev → Prop} {m : M α} {k : α → M β}
    (hk : ∀ a, ResAll (fun b e2 => ∀ e1 : List Ev, P b (e1 ++ e2)) (k a)) : ResAll P (m >>= k) := by
  refine ResAll.bind (Q := fun _ _ => True) ?_ ?_
  · intro st; cases m st <;> simp
  · intro a; exact ResAll.mono (fun b e2 h e1 _ => h e1) (hk a)

theorem ResAll.bind_sys {α} {P : α → List Ev → Prop} (c : Issued) (k : Res → M α)
    (hk : ∀ r, ResAll (fun b e2 => P b (⟨c, r⟩ :: e2)) (k r)) : ResAll P (sys c >>= k) := by
  refine ResAll.bind (Q := fun r e1 => e1 = [⟨c, r⟩]) ?_ ?_
  · intro st
    unfold PV.Socket.sys
    cases st.script with
    | nil => simp
    | cons r s => by_cases hs : r.sys = c.sys <;> simp [hs]
  · intro r; exact ResAll.mono (fun b e2 h e1 he => by subst he; exact h) (hk r)

theorem ResAll.bind_errnoErr {α} {P : α → List Ev → Prop} (msg : String) (b : Bool) (k : PErr → M α)
    (hk : ∀ e : PErr, e.msg = msg → ResAll P (k e)) : ResAll P (errnoErr msg b >>= k) := by
  intro st
  show match M.bind (errnoErr msg b) k st with | .ok a _ evs => P a evs | .stop _ => True
  unfold M.bind errnoErr
  simp only []
  have := hk { code := ioFromSystem st.errno, native := st.errno, msg := msg, stale := b } rfl st
  cases hks : k { code := ioFromSystem st.errno, native := st.errno, msg := msg, stale := b } st with
  | stop w => simp
  | ok x st'' evs' => simp only [hks] at this; simpa using this

theorem ResAll.bind_getErrno {α} {P : α → List Ev → Prop} (k : Int → M α)
    (hk : ∀ e : Int, ResAll P (k e)) : ResAll P (getErrno >>= k) := by
  intro st
  show match M.bind getErrno k st with | .ok a _ evs => P a evs | .stop _ => True
  unfold M.bind getErrno
  simp only []
  have := hk st.errno st
  cases hks : k st.errno st with
  | stop w => simp
  | ok x st'' evs' => simp only [hks] at this; simpa using this

theorem ResAll.bind_pure {α β} {P : β → List Ev → Prop} (a : α) (k : α → M β)
    (hk : ResAll P (k a)) : ResAll P (Pure.pure a >>= k) := by
  rw [M.pure_bind']; exact hk

theorem ResAll.bind_assoc {α β γ} {P : γ → List Ev → Prop} (m : M α) (f : α → M β) (k : β → M γ)
    (h : ResAll P (m >>= fun a => f a >>= k)) : ResAll P ((m >>= f) >>= k) := by
  rw [M.bind_assoc']; exact h

theorem ResAll.of_trAll {α} {p : Ev → Prop} {m : M α} (h : TrAll p m) : ResAll (fun _ evs => ∀ ev ∈ evs, p ev) m := by
  unfold TrAll at h
  exact h

theorem ResAll.of_runM {α} {P : α → List Ev → Prop} {m : M α} (h : ResAll P m) (script : Script) (e : Int)
    (a : α) (st : St) (evs : List Ev) (hr : runM m script e = .ok (a, st, evs)) : P a evs := by
  have := h { script := script, errno := e }
  unfold runM at hr
  cases hm : m { script := script, errno := e } with
  | stop w => simp [hm] at hr
  | ok a' st' evs' =>
    simp only [hm] at this hr
    injection hr with hr
    simp only [Prod.mk.injEq] at hr
    obtain ⟨h1, h2, h3⟩ := hr
    subst h1; subst h3
    exact this

theorem ResAll.of_call {P : Sock × Outcome → List Ev → Prop} (s : Sock) (c : Call) (h : ResAll P (callM s c))
    (script : Script) (e : Int) (r : CallResult) (hr : call s c script e = .ok r) : P (r.sock, r.out) r.tr := by
  have := h { script := script, errno := e }
  unfold call at hr
  cases hm : callM s c { script := script, errno := e } with
  | stop w => simp [hm] at hr
  | ok a st evs =>
    simp only [hm] at this hr
    obtain ⟨s', o⟩ := a
    injection hr with hr; subst hr
    exact this

attribute [irreducible] ResAll

/-- decompose a `ResAll` goal along the structure of a `do` block; `t` proves the property at a `pure` leaf -/
macro "res_all" "(" t:tactic ")" : tactic => `(tactic|
  repeat' (first
    | with_reducible apply ResAll.bind_sys
    | with_reducible apply ResAll.bind_errnoErr
    | with_reducible apply ResAll.bind_getErrno
    | with_reducible apply ResAll.bind_pure
    | with_reducible apply ResAll.bind_assoc
    | (with_reducible apply ResAll.pure; $t; done)
    | with_reducible apply ResAll.stopWith
    | split
    | intro _
    | dsimp only
    | with_reducible apply ResAll.bind_any))

/-- the same, with the tactic `u` tried first on every goal (for binds whose first part has its own lemma) and
    no bind is ever skipped -/
macro "res_all_with" "(" u:tactic ")" "(" t:tactic ")" : tactic => `(tactic|
  repeat' (first
    | ($u:tactic)
    | with_reducible apply ResAll.bind_sys
    | with_reducible apply ResAll.bind_errnoErr
    | with_reducible apply ResAll.bind_getErrno
    | with_reducible apply ResAll.bind_pure
    | with_reducible apply ResAll.bind_assoc
    | (with_reducible apply ResAll.pure; $t; done)
    | with_reducible apply ResAll.stopWith
    | split
    | intro _
    | dsimp only))

/-! ## part 1: one call -/

/-- what one call does to the object, stated against the spec record -/
def Good (s : Sock) (c : Call) (p : Sock × Outcome) (tr : List Ev) : Prop :=
  Spec.flagsOf p.1 = Spec.step (Spec.flagsOf s) c p.2 tr ∧
  p.1.family = s.family ∧ p.1.type = s.type ∧ p.1.protocol = s.protocol ∧
  ((p.1.fd = s.fd ∧ p.1.closed = s.closed) ∨ (c = .close ∧ p.1.fd = -1)) ∧
  (c ≠ .accept → p.2.sock = none)

theorem good_same (s : Sock) (c : Call) (o : Outcome) (tr : List Ev)
    (hc : ∀ f, Spec.step f c o tr = f) (hs : c ≠ .accept → o.sock = none) : Good s c (s, o) tr :=
  ⟨(hc _).symm, rfl, rfl, rfl, Or.inl ⟨rfl, rfl⟩, hs⟩

theorem listen_good (s : Sock) : ResAll (Good s .listen) (listen s) := by
  unfold listen
  res_all (simp [Good, Spec.step, Spec.flagsOf, failOut])


theorem shutdown_good (s : Sock) (rd wr : Bool) : ResAll (Good s (.shutdown rd wr)) (shutdown s rd wr) := by
  unfold shutdown
  res_all (simp_all [Good, Spec.step, Spec.flagsOf, failOut])

theorem checkConnectResult_good (s : Sock) : ResAll (Good s .checkConnectResult) (checkConnectResult s) := by
  unfold checkConnectResult
  res_all (simp_all [Good, Spec.step, Spec.flagsOf, failOut, Spec.errIsLayer, Spec.layerMsg])

theorem close_good (s : Sock) :
    ResAll (fun x tr => Good s .close (x.1, { ret := b2i x.2.2, err := x.2.1 }) tr) (close s) := by
  unfold close
  res_all (simp_all [Good, Spec.step, Spec.flagsOf, b2i])

theorem setKeepalive_good (s : Sock) (b : Bool) :
    ResAll (fun s' tr => Good s (.setKeepalive b) (s', voidOut) tr) (setKeepalive s b) := by
  unfold setKeepalive
  res_all (simp_all [Good, Spec.step, Spec.flagsOf, voidOut, Spec.keepaliveSet])


/-! the calls that leave the object alone never hand out a socket -/

def noSock (o : Outcome) (_ : List Ev) : Prop := o.sock = none

theorem bind_noSock (s : Sock) (a : Addr) (r : Bool) : ResAll noSock (bind s a r) := by
  unfold bind; res_all (simp [noSock, failOut])
theorem receive_noSock (s : Sock) (bn : Bool) (n : Nat) : ResAll noSock (receive s bn n) := by
  unfold receive; res_all (simp [noSock, failOut])
theorem receiveFrom_noSock (s : Sock) (w bn : Bool) (n : Nat) : ResAll noSock (receiveFrom s w bn n) := by
  unfold receiveFrom; res_all (simp [noSock, failOut])
theorem send_noSock (s : Sock) (b : Option Bytes) (n : Nat) : ResAll noSock (send s b n) := by
  unfold send; res_all (simp [noSock, failOut])
theorem sendTo_noSock (s : Sock) (a : Addr) (b : Option Bytes) (n : Nat) : ResAll noSock (sendTo s a b n) := by
  unfold sendTo; res_all (simp [noSock, failOut])
theorem setBufferSize_noSock (s : Sock) (d : Int) (n : Nat) : ResAll noSock (setBufferSize s d n) := by
  unfold setBufferSize; res_all (simp [noSock, failOut])
theorem getAddress_noSock (s : Sock) (b : Bool) : ResAll noSock (getAddress s b) := by
  unfold getAddress; res_all (simp [noSock, failOut])

/-- `do let o ← m; return (s, o)` for a call the spec record ignores -/
theorem wrap_good (s : Sock) (c : Call) (m : M Outcome) (hm : ResAll noSock m)
    (hc : ∀ f o tr, Spec.step f c o tr = f) : ResAll (Good s c) (m >>= fun o => Pure.pure (s, o)) := by
  refine ResAll.bind hm ?_
  intro o
  apply ResAll.pure
  intro e1 h1
  exact good_same s c o _ (fun f => hc f o _) (fun _ => h1)


/-! connect -/

theorem connLoop_never_fails (call : Issued) : ∀ (t : List Res) (e : Int) (pe : PErr), (connLoop call t e).fin ≠ .fail pe := by
  intro t
  induction t with
  | nil => intro e pe; simp [connLoop]
  | cons r t ih =>
    intro e pe
    rw [connLoop_cons]
    by_cases h1 : r.sys ≠ .connect
    · simp [h1]
    · simp only [h1, if_false]
      by_cases h2 : r.ret = .ok 0
      · simp [h2]
      · simp only [h2, if_false]
        split <;> split <;> first | (simp only [LoopR.cons]; exact ih _ _) | simp

theorem pollLoop_fail_msg (call : Issued) : ∀ (t : List Res) (e : Int) (pe : PErr),
    (pollLoop call t e).fin = .fail pe → pe.msg = msgTimedOut ∨ pe.msg = msgPollFailed := by
  intro t
  induction t with
  | nil => intro e pe h; simp [pollLoop] at h
  | cons r t ih =>
    intro e pe h
    rw [pollLoop_cons] at h
    split at h
    · cases h
    · cases hp : pollStep r e with
      | again e' => simp only [hp] at h; exact ih _ _ (by simpa [LoopR.cons] using h)
      | ready => simp only [hp] at h; cases h
      | fail pe' e' =>
        simp only [hp] at h
        injection h with h; subst h
        unfold pollStep at hp
        cases hr : r.ret with
        | ok v =>
          simp only [hr] at hp
          split at hp
          · cases hp
          · split at hp <;> (injection hp with hp1 hp2; subst hp1; simp)
        | err x =>
          simp only [hr] at hp
          split at hp
          · cases hp
          · injection hp with hp1 hp2; subst hp1; simp

theorem connect_good (s : Sock) (a : Addr) (script : Script) (e : Int) (r : CallResult)
    (h : call s (.connect a) script e = .ok r) : Good s (.connect a) (r.sock, r.out) r.tr := by
  cases hc : s.closed with
  | true =>
    cases a <;>
      (simp [call, callM, connect, check, hc, M.bind, M.pure, pure] at h
       subst h
       simp [Good, Spec.step, Spec.flagsOf, failOut, Spec.errIsLayer, Spec.layerMsg, invalidArg])
  | false =>
    cases a with
    | null =>
      simp [call, callM, connect, check, hc, M.bind, M.pure, pure] at h
      subst h
      simp [Good, Spec.step, Spec.flagsOf, failOut, Spec.errIsLayer, Spec.layerMsg, invalidArg]
    | bad =>
      simp [call, callM, connect, check, hc, M.bind, M.pure, pure] at h
      subst h
      simp [Good, Spec.step, Spec.flagsOf, failOut, Spec.errIsLayer, Spec.layerMsg, invalidArg]
    | native sa =>
      rw [connect_eq s hc] at h
      unfold connectResult at h
      have hnf := connLoop_never_fails (connCall s sa) script e
      generalize connLoop (connCall s sa) script e = L at h hnf
      cases hf : L.fin with
      | stop w => simp [hf] at h
      | fail pe => exact absurd hf (hnf pe)
      | done x =>
        simp only [hf] at h
        unfold connectAfter at h
        have hpm := pollLoop_fail_msg (pollCall s P_SOCKET_IO_CONDITION_POLLOUT) L.rest L.errno
        simp only [] at h
        generalize pollLoop (pollCall s P_SOCKET_IO_CONDITION_POLLOUT) L.rest L.errno = Pl at h hpm
        repeat' split at h
        all_goals first
          | (cases h; done)
          | (injection h with h; subst h
             simp [Good, Spec.step, Spec.flagsOf, failOut, Spec.errIsLayer, Spec.layerMsg, msgConnNonBlock, msgConnFailed]
             done)
          | (injection h with h; subst h
             rename_i pe hpe
             rcases hpm _ hpe with hm | hm <;>
               simp [Good, Spec.step, Spec.flagsOf, failOut, Spec.errIsLayer, Spec.layerMsg, hm, msgTimedOut, msgPollFailed])


/-- every call except `connect` (which has its own lemma), at the level of the computation -/
theorem callM_good (s : Sock) (c : Call) (hcn : ∀ a, c ≠ .connect a) : ResAll (Good s c) (callM s c) := by
  cases c <;> simp only [callM]
  case connect a => exact absurd rfl (hcn a)
  case bind a r => exact wrap_good _ _ _ (bind_noSock _ _ _) (fun _ _ _ => rfl)
  case receive bn n => exact wrap_good _ _ _ (receive_noSock _ _ _) (fun _ _ _ => rfl)
  case receiveFrom w bn n => exact wrap_good _ _ _ (receiveFrom_noSock _ _ _ _) (fun _ _ _ => rfl)
  case send b n => exact wrap_good _ _ _ (send_noSock _ _ _) (fun _ _ _ => rfl)
  case sendTo a b n => exact wrap_good _ _ _ (sendTo_noSock _ _ _ _) (fun _ _ _ => rfl)
  case setBufferSize d n => exact wrap_good _ _ _ (setBufferSize_noSock _ _ _) (fun _ _ _ => rfl)
  case getLocal => exact wrap_good _ _ _ (getAddress_noSock _ _) (fun _ _ _ => rfl)
  case getRemote => exact wrap_good _ _ _ (getAddress_noSock _ _) (fun _ _ _ => rfl)
  case accept =>
    apply ResAll.bind_any
    intro o
    apply ResAll.pure
    intro e1
    exact good_same _ _ _ _ (fun _ => rfl) (fun h => absurd rfl h)
  case ioWait cnd => res_all (simp [Good, Spec.step, failOut])
  case listen => exact listen_good s
  case shutdown rd wr => exact shutdown_good s rd wr
  case checkConnectResult => exact checkConnectResult_good s
  case close =>
    refine ResAll.bind (close_good s) ?_
    intro x
    obtain ⟨s', e, ok⟩ := x
    apply ResAll.pure
    intro e1 h1
    simpa using h1
  case setKeepalive b =>
    refine ResAll.bind (setKeepalive_good s b) ?_
    intro s'
    apply ResAll.pure
    intro e1 h1
    simpa using h1
  case setBlocking b => apply ResAll.pure; simp [Good, Spec.step, Spec.flagsOf, setBlocking, voidOut]
  case setTimeout n => apply ResAll.pure; simp [Good, Spec.step, Spec.flagsOf, setTimeout, voidOut]
  case setBacklog n =>
    apply ResAll.pure
    unfold setListenBacklog
    cases hl : s.listening <;> simp [Good, Spec.step, Spec.flagsOf, voidOut, hl]

theorem call_good (s : Sock) (c : Call) (script : Script) (e : Int) (r : CallResult)
    (h : call s c script e = .ok r) : Good s c (r.sock, r.out) r.tr := by
  by_cases hcn : ∀ a, c ≠ .connect a
  · exact ResAll.of_call s c (callM_good s c hcn) script e r h
  · have : ∃ a, c = .connect a := by
      cases c <;> simp at hcn ⊢
    obtain ⟨a, rfl⟩ := this
    exact connect_good s a script e r h

/-- **call_refines_spec**: for every call and every script, the mode/lifecycle fields of the object after the
    call are the spec record updated by the obvious rules -/
theorem call_refines_spec (s : Sock) (c : Call) (script : Script) (e : Int) (r : CallResult)
    (h : call s c script e = .ok r) :
    Spec.flagsOf r.sock = Spec.step (Spec.flagsOf s) c r.out r.tr :=
  (call_good s c script e r h).1

/-- the identity fields are never changed -/
theorem call_identity (s : Sock) (c : Call) (script : Script) (e : Int) (r : CallResult)
    (h : call s c script e = .ok r) :
    r.sock.family = s.family ∧ r.sock.type = s.type ∧ r.sock.protocol = s.protocol :=
  let g := call_good s c script e r h
  ⟨g.2.1, g.2.2.1, g.2.2.2.1⟩

/-- the descriptor is kept, except that `close` may set it to −1 -/
theorem call_fd (s : Sock) (c : Call) (script : Script) (e : Int) (r : CallResult)
    (h : call s c script e = .ok r) :
    r.sock.fd = s.fd ∨ (c = .close ∧ r.sock.fd = -1) := by
  rcases (call_good s c script e r h).2.2.2.2.1 with h1 | h1
  · exact Or.inl h1.1
  · exact Or.inr h1

/-- `closed → fd = −1` is an invariant of every call -/
theorem call_closed_fd (s : Sock) (c : Call) (script : Script) (e : Int) (r : CallResult)
    (h : call s c script e = .ok r) :
    (s.closed = true → s.fd = -1) → (r.sock.closed = true → r.sock.fd = -1) := by
  intro hi hcl
  rcases (call_good s c script e r h).2.2.2.2.1 with h1 | h1
  · rw [h1.1]; exact hi (by rw [← h1.2]; exact hcl)
  · exact h1.2

/-- only `accept` hands out a socket -/
theorem call_sock_none (s : Sock) (c : Call) (script : Script) (e : Int) (r : CallResult)
    (h : call s c script e = .ok r) (hc : c ≠ .accept) : r.out.sock = none :=
  (call_good s c script e r h).2.2.2.2.2 hc


/-! ## part 2: the constructors -/

/-- `p_socket_new` -/
theorem new_res (f t p : Int) :
    ResAll (fun (x : Option Sock × Option PErr) _ =>
      ∀ s, x.1 = some s → Spec.flagsOf s = Spec.fresh ∧ s.family = f ∧ s.type = t ∧ s.protocol = p ∧ s.closed = false)
      (new f t p) := by
  unfold new
  res_all (simp_all [Spec.flagsOf, Spec.fresh])

theorem new_spec (f t p : Int) (script : Script) (e : Int) (s : Sock) (err : Option PErr) (st : St) (evs : List Ev)
    (h : runM (new f t p) script e = .ok ((some s, err), st, evs)) :
    Spec.flagsOf s = Spec.fresh ∧ s.family = f ∧ s.type = t ∧ s.protocol = p := by
  have := ResAll.of_runM (new_res f t p) script e _ st evs h s rfl
  exact ⟨this.1, this.2.1, this.2.2.1, this.2.2.2.1⟩

/-- the two things `Spec.adopted` reads off the trace -/
def connOf (tr : List Ev) : Bool :=
  tr.any fun ev => match ev.call with | .getpeername .. => !ev.res.failed | _ => false
def kaOf (tr : List Ev) : Bool :=
  tr.any fun ev => match ev.call with
    | .getsockopt _ _ opt _ => opt = SO_KEEPALIVE && ev.res.ret = .ok 0 && ev.res.val ≠ 0
    | _ => false

theorem adopted_eq (tr : List Ev) : Spec.adopted tr = { Spec.fresh with connected := connOf tr, keepalive := kaOf tr } := rfl

theorem connOf_append (a b : List Ev) : connOf (a ++ b) = (connOf a || connOf b) := by simp [connOf, List.any_append]
theorem kaOf_append (a b : List Ev) : kaOf (a ++ b) = (kaOf a || kaOf b) := by simp [kaOf, List.any_append]

theorem setDetails_res (s : Sock) :
    ResAll (fun (x : Sock × Option PErr) evs => x.2 = none →
      x.1.connected = (s.connected || connOf evs) ∧ x.1.keepalive = kaOf evs ∧ x.1.fd = s.fd ∧
      x.1.listening = s.listening ∧ x.1.closed = s.closed) (setDetailsFromFd s) := by
  unfold setDetailsFromFd
  res_all_with (fail) (simp_all [connOf, kaOf, SO_TYPE, SO_KEEPALIVE, SO_DOMAIN])


theorem setFdBlocking_quiet (fd : Int) (b : Bool) :
    ResAll (fun _ evs => connOf evs = false ∧ kaOf evs = false) (setFdBlocking fd b) := by
  unfold setFdBlocking
  res_all_with (fail) (simp [connOf, kaOf])

/-- `p_socket_new_from_fd` -/
theorem newFromFd_res (fd : Int) :
    ResAll (fun (x : Option Sock × Option PErr) evs =>
      ∀ s, x.1 = some s → Spec.flagsOf s = Spec.adopted evs ∧ s.fd = fd ∧ s.closed = false) (newFromFd fd) := by
  unfold newFromFd
  res_all_with (first
      | apply ResAll.bind (setDetails_res _)
      | apply ResAll.bind (setFdBlocking_quiet _ _))
    ((intros; simp_all [adopted_eq, connOf_append, kaOf_append, Spec.flagsOf, Spec.fresh]
      try (subst_vars; simp_all [Spec.flagsOf])))

theorem newFromFd_spec (fd : Int) (script : Script) (e : Int) (s : Sock) (err : Option PErr) (st : St) (evs : List Ev)
    (h : runM (newFromFd fd) script e = .ok ((some s, err), st, evs)) :
    Spec.flagsOf s = Spec.adopted evs ∧ s.fd = fd := by
  have := ResAll.of_runM (newFromFd_res fd) script e _ st evs h s rfl
  exact ⟨this.1, this.2.1⟩


/-- a native call `Spec.adopted` does not look at -/
def quietEv (ev : Ev) : Prop := ev.call.sys ≠ .getpeername ∧ ev.call.sys ≠ .getsockopt

theorem quiet_of_all : ∀ (evs : List Ev), (∀ ev ∈ evs, quietEv ev) → connOf evs = false ∧ kaOf evs = false := by
  intro evs
  induction evs with
  | nil => intro _; simp [connOf, kaOf]
  | cons a t ih =>
    intro h
    have ha := h a (by simp)
    have ht := ih (fun ev hev => h ev (by simp [hev]))
    unfold connOf kaOf at ht ⊢
    obtain ⟨c, r⟩ := a
    cases c <;> simp_all [quietEv, Issued.sys]

theorem runLoop_quiet (s : Sock) (cond : Int) (call : Issued) (msg : String)
    (h1 : call.sys ≠ .getpeername) (h2 : call.sys ≠ .getsockopt) :
    ResAll (fun _ evs => connOf evs = false ∧ kaOf evs = false) (runLoop (loopCfg s cond call msg)) := by
  refine ResAll.mono (fun _ evs h => quiet_of_all evs h) (ResAll.of_trAll ?_)
  unfold runLoop
  apply TrAll.liftLoop
  intro sc e ev hev
  rcases ioLoop_calls _ _ _ _ ev hev with h | h
  · have : ev.call = pollCall s cond := by simpa [loopCfg] using h
    simp [quietEv, this, pollCall, Issued.sys]
  · have : ev.call = call := by simpa [loopCfg] using h
    rw [quietEv, this]; exact ⟨h1, h2⟩

theorem cloexecBlock_quiet (p : Bool) (a b c d e : Int) :
    ResAll (fun _ evs => connOf evs = false ∧ kaOf evs = false) (fdCloexecBlock p a b c d e) := by
  unfold fdCloexecBlock
  res_all_with (fail) (simp [connOf, kaOf])

/-- `p_socket_accept` -/
theorem accept_res (s : Sock) :
    ResAll (fun (o : Outcome) evs =>
      ∀ ns, o.sock = some ns → Spec.flagsOf ns = Spec.adopted evs ∧ ns.protocol = s.protocol ∧ ns.closed = false) (accept s) := by
  unfold accept
  res_all_with (first
      | with_reducible apply ResAll.bind (runLoop_quiet _ _ _ _ (by simp [Issued.sys]) (by simp [Issued.sys]))
      | with_reducible apply ResAll.bind (cloexecBlock_quiet _ _ _ _ _ _)
      | with_reducible apply ResAll.bind (newFromFd_res _))
    ((intros; simp_all [adopted_eq, connOf_append, kaOf_append, Spec.flagsOf, Spec.fresh, failOut]
      try (subst_vars; simp_all [Spec.flagsOf])))

theorem accept_spec (s : Sock) (script : Script) (e : Int) (r : CallResult) (ns : Sock)
    (h : call s .accept script e = .ok r) (hs : r.out.sock = some ns) :
    Spec.flagsOf ns = Spec.adopted r.tr ∧ ns.protocol = s.protocol := by
  have key : ResAll (fun (x : Sock × Outcome) evs =>
      ∀ ns, x.2.sock = some ns → Spec.flagsOf ns = Spec.adopted evs ∧ ns.protocol = s.protocol ∧ ns.closed = false)
      (callM s .accept) := by
    simp only [callM]
    refine ResAll.bind (accept_res s) ?_
    intro o
    apply ResAll.pure
    intro e1 h1
    simpa using h1
  have := ResAll.of_call s .accept key script e r h ns hs
  exact ⟨this.1, this.2.1⟩


/-! ## part 3: sequences of calls in a world of sockets -/

/-- the spec side of the world: the record a user keeps for every socket he holds -/
abbrev SWorld := List (Nat × Spec.Flags)

def SWorld.get (w : SWorld) (slot : Nat) : Option Spec.Flags := (w.find? (·.1 = slot)).map (·.2)
def SWorld.del (w : SWorld) (slot : Nat) : SWorld := w.filter (·.1 ≠ slot)
def SWorld.set (w : SWorld) (slot : Nat) (f : Spec.Flags) : SWorld := (slot, f) :: SWorld.del w slot

theorem find_filter_ne {β} (w : List (Nat × β)) (a b : Nat) :
    (w.filter (fun x => decide (x.1 ≠ a))).find? (fun x => decide (x.1 = b)) =
      if b = a then none else w.find? (fun x => decide (x.1 = b)) := by
  induction w with
  | nil => simp
  | cons x t ih =>
    simp only [List.filter_cons]
    by_cases hx : x.1 = a
    · have h1 : decide (x.1 ≠ a) = false := by simp [hx]
      simp only [h1, Bool.false_eq_true, if_false]
      rw [ih]
      by_cases hb : b = a
      · simp [hb]
      · have h2 : decide (x.1 = b) = false := by
          simp only [decide_eq_false_iff_not, hx]; exact fun h => hb h.symm
        simp only [hb, if_false, List.find?_cons, h2]
    · have h1 : decide (x.1 ≠ a) = true := by simp [hx]
      simp only [h1, if_true, List.find?_cons]
      by_cases hxb : x.1 = b
      · have h2 : decide (x.1 = b) = true := by simp [hxb]
        have h3 : ¬ b = a := by rw [← hxb]; exact hx
        simp only [h2, h3, if_false]
      · have h2 : decide (x.1 = b) = false := by simp [hxb]
        simp only [h2]
        exact ih

theorem World.get_del (w : World) (a b : Nat) : World.get (World.del w a) b = if b = a then none else World.get w b := by
  unfold World.get World.del
  rw [find_filter_ne]; split <;> simp
theorem World.get_set (w : World) (a b : Nat) (s : Sock) :
    World.get (World.set w a s) b = if b = a then some s else World.get w b := by
  by_cases h : b = a
  · simp [World.get, World.set, h]
  · have h' : ¬ a = b := fun x => h x.symm
    have := World.get_del w a b
    simp only [h, if_false] at this ⊢
    rw [← this]
    simp [World.get, World.set, List.find?_cons, h']
theorem SWorld.get_del (w : SWorld) (a b : Nat) : SWorld.get (SWorld.del w a) b = if b = a then none else SWorld.get w b := by
  unfold SWorld.get SWorld.del
  rw [find_filter_ne]; split <;> simp
theorem SWorld.get_set (w : SWorld) (a b : Nat) (f : Spec.Flags) :
    SWorld.get (SWorld.set w a f) b = if b = a then some f else SWorld.get w b := by
  by_cases h : b = a
  · simp [SWorld.get, SWorld.set, h]
  · have h' : ¬ a = b := fun x => h x.symm
    have := SWorld.get_del w a b
    simp only [h, if_false] at this ⊢
    rw [← this]
    simp [SWorld.get, SWorld.set, List.find?_cons, h']

/-- the spec world after one world call, updated exactly as the driver (`PV.Driver.Socket.doCall`) does -/
def sstep (sw : SWorld) (c : WCall) (r : WResult) : SWorld :=
  match c with
  | .new slot _ _ _ => if r.out.sock.isSome then SWorld.set sw slot Spec.fresh else sw
  | .newFromFd slot _ => if r.out.sock.isSome then SWorld.set sw slot (Spec.adopted r.tr) else sw
  | .on slot c newSlot =>
    let sw' := match SWorld.get sw slot with
      | some f => SWorld.set sw slot (Spec.step f c r.out r.tr)
      | none => sw
    if c = .accept ∧ r.out.sock.isSome then SWorld.set sw' newSlot (Spec.adopted r.tr) else sw'
  | .free slot => SWorld.del sw slot
  | .initOnce => sw

/-- every socket of the world has the flags the spec world records for its slot -/
def Inv (w : World) (sw : SWorld) : Prop := ∀ slot, (World.get w slot).map Spec.flagsOf = SWorld.get sw slot

theorem inv_set {w : World} {sw : SWorld} (h : Inv w sw) (a : Nat) (s : Sock) (f : Spec.Flags) (hf : Spec.flagsOf s = f) :
    Inv (World.set w a s) (SWorld.set sw a f) := by
  intro b
  rw [World.get_set, SWorld.get_set]
  split
  · simp [hf]
  · exact h b

theorem inv_del {w : World} {sw : SWorld} (h : Inv w sw) (a : Nat) : Inv (World.del w a) (SWorld.del sw a) := by
  intro b
  rw [World.get_del, SWorld.get_del]
  split
  · rfl
  · exact h b

theorem call_of_runM (s : Sock) (c : Call) (sc : Script) (e : Int) (s' : Sock) (o : Outcome) (st : St) (evs : List Ev)
    (h : runM (callM s c) sc e = .ok ((s', o), st, evs)) :
    call s c sc e = .ok { sock := s', out := o, tr := evs, rest := st.script, errno := st.errno } := by
  unfold runM at h
  unfold call
  cases hm : callM s c { script := sc, errno := e } with
  | stop w => simp [hm] at h
  | ok a st' evs' =>
    simp only [hm] at h ⊢
    injection h with h
    simp only [Prod.mk.injEq] at h
    obtain ⟨h1, h2, h3⟩ := h
    subst h1; subst h2; subst h3
    rfl

theorem nullCall_sock (c : Call) : (nullCall c).sock = none := by cases c <;> rfl


/-- one world call keeps the two worlds in step -/
theorem wstep_inv (w : World) (sw : SWorld) (h : Inv w sw) (c : WCall) (sc : Script) (e : Int) (r : WResult)
    (hr : wstep w c sc e = .ok r) : Inv r.world (sstep sw c r) := by
  cases c with
  | new slot f t p =>
    unfold wstep at hr
    simp only [] at hr
    cases hm : runM (new f t p) sc e with
    | error x => simp [hm] at hr
    | ok v =>
      obtain ⟨⟨so, err⟩, st, evs⟩ := v
      simp only [hm] at hr
      injection hr with hr; subst hr
      cases so with
      | none => simpa [sstep] using h
      | some s =>
        have := new_spec f t p sc e s err st evs hm
        simp only [sstep, Option.isSome_some, if_true]
        exact inv_set h _ _ _ this.1
  | newFromFd slot fd =>
    unfold wstep at hr
    simp only [] at hr
    cases hm : runM (newFromFd fd) sc e with
    | error x => simp [hm] at hr
    | ok v =>
      obtain ⟨⟨so, err⟩, st, evs⟩ := v
      simp only [hm] at hr
      injection hr with hr; subst hr
      cases so with
      | none => simpa [sstep] using h
      | some s =>
        have := newFromFd_spec fd sc e s err st evs hm
        simp only [sstep, Option.isSome_some, if_true]
        exact inv_set h _ _ _ this.1
  | on slot c ns =>
    unfold wstep at hr
    simp only [] at hr
    cases hg : World.get w slot with
    | none =>
      simp only [hg] at hr
      injection hr with hr; subst hr
      have hsw : SWorld.get sw slot = none := by rw [← h slot, hg]; rfl
      simpa [sstep, hsw, nullCall_sock] using h
    | some s =>
      simp only [hg] at hr
      cases hm : runM (callM s c) sc e with
      | error x => simp [hm] at hr
      | ok v =>
        obtain ⟨⟨s', o⟩, st, evs⟩ := v
        simp only [hm] at hr
        injection hr with hr; subst hr
        have hcall := call_of_runM s c sc e s' o st evs hm
        have g := call_good s c sc e _ hcall
        have hsw : SWorld.get sw slot = some (Spec.flagsOf s) := by rw [← h slot, hg]; rfl
        have inv1 : Inv (World.set w slot s') (SWorld.set sw slot (Spec.step (Spec.flagsOf s) c o evs)) :=
          inv_set h slot s' _ g.1
        cases ho : o.sock with
        | none => simpa [sstep, hsw, ho] using inv1
        | some n =>
          have hacc : c = .accept := by
            by_cases hne : c = .accept
            · exact hne
            · have := g.2.2.2.2.2 hne
              simp [ho] at this
          subst hacc
          have hn := accept_spec s sc e _ n hcall ho
          simp only [sstep, hsw, ho, Option.isSome_some, and_self, if_true]
          exact inv_set inv1 _ _ _ hn.1
  | free slot =>
    unfold wstep at hr
    simp only [] at hr
    cases hg : World.get w slot with
    | none =>
      simp only [hg] at hr
      injection hr with hr; subst hr
      have hsw : SWorld.get sw slot = none := by rw [← h slot, hg]; rfl
      intro b
      simp only [sstep]
      rw [SWorld.get_del]
      split
      · rename_i hb; subst hb; rw [hg]; rfl
      · exact h b
    | some s =>
      simp only [hg] at hr
      cases hm : runM (free s) sc e with
      | error x => simp [hm] at hr
      | ok v =>
        obtain ⟨u, st, evs⟩ := v
        simp only [hm] at hr
        injection hr with hr; subst hr
        exact inv_del h slot
  | initOnce =>
    unfold wstep at hr
    simp only [] at hr
    cases hm : runM initOnce sc e with
    | error x => simp [hm] at hr
    | ok v =>
      obtain ⟨u, st, evs⟩ := v
      simp only [hm] at hr
      injection hr with hr; subst hr
      exact h

/-- run a list of world calls, each with the script of native answers it gets; `errno` is carried from call to
    call; a call that ends in a `Stop` (script exhausted / mismatch / fault) ends the run -/
def run : World → SWorld → Int → List (WCall × Script) → World × SWorld
  | w, sw, _, [] => (w, sw)
  | w, sw, e, (c, sc) :: rest =>
    match wstep w c sc e with
    | .error _ => (w, sw)
    | .ok r => run r.world (sstep sw c r) r.errno rest

theorem run_inv : ∀ (steps : List (WCall × Script)) (w : World) (sw : SWorld) (e : Int),
    Inv w sw → Inv (run w sw e steps).1 (run w sw e steps).2 := by
  intro steps
  induction steps with
  | nil => intro w sw e h; exact h
  | cons x rest ih =>
    intro w sw e h
    obtain ⟨c, sc⟩ := x
    unfold run
    cases hr : wstep w c sc e with
    | error x => exact h
    | ok r => exact ih _ _ _ (wstep_inv w sw h c sc e r hr)

/-- **getters_reflect_run**: after any sequence of API calls on any sockets, with any native answers, starting from
    nothing, the mode/lifecycle fields of every socket held are exactly what the spec record says -/
theorem getters_reflect_run (steps : List (WCall × Script)) (e : Int) (slot : Nat) :
    (World.get (run [] [] e steps).1 slot).map Spec.flagsOf = SWorld.get (run [] [] e steps).2 slot :=
  run_inv steps [] [] e (fun _ => rfl) slot

/-- non-vacuity: adopt descriptor 5 (connected, keepalive on), clamp a negative timeout, set the backlog, listen,
    try to change the backlog (frozen), shut down both directions, close twice, talk to an empty slot -/
def demoSteps : List (WCall × Script) :=
  [ (.newFromFd 0 5,
      [ { sys := .getsockopt, ret := .ok 0, val := 1 }, { sys := .getsockname, ret := .ok 0, sa := [2, 0, 0, 0] },
        { sys := .getpeername, ret := .ok 0 }, { sys := .getsockopt, ret := .ok 0, val := 1 },
        { sys := .fcntl, ret := .ok 0 }, { sys := .fcntl, ret := .ok 0 } ]),
    (.on 0 (.setTimeout (-3)), []),
    (.on 0 (.setBacklog 9), []),
    (.on 0 .listen, [{ sys := .listen, ret := .ok 0 }]),
    (.on 0 (.setBacklog 11), []),
    (.on 0 (.shutdown true true), [{ sys := .shutdown, ret := .ok 0 }]),
    (.on 0 .close, [{ sys := .close, ret := .ok 0 }]),
    (.on 0 .close, []),
    (.on 1 (.setTimeout 5), []) ]

example : (run [] [] 0 demoSteps).2 =
    [(0, { timeout := 0, backlog := 9, blocking := true, keepalive := true, connected := false, closed := true,
           listening := false })] := by decide
example : (run [] [] 0 demoSteps).1.map (fun p => (p.1, Spec.flagsOf p.2)) = (run [] [] 0 demoSteps).2 := by decide
/-- … and half-way (before the shutdown): connected, listening, backlog 9 -/
example : (run [] [] 0 (demoSteps.take 5)).2 =
    [(0, { timeout := 0, backlog := 9, blocking := true, keepalive := true, connected := true, listening := true })] := by
  decide

/-- non-vacuity of the `connect` rules: an adopted, connected socket; a blocking `connect` that is in progress,
    becomes writable and then reports `SO_ERROR = 111` ("Error in socket layer") clears `connected` in both worlds -/
def demoConnect : List (WCall × Script) :=
  [ (.newFromFd 3 8,
      [ { sys := .getsockopt, ret := .ok 0, val := 1 }, { sys := .getsockname, ret := .ok 0, sa := [2, 0, 0, 0] },
        { sys := .getpeername, ret := .ok 0 }, { sys := .getsockopt, ret := .ok 0, val := 0 },
        { sys := .fcntl, ret := .ok 0 }, { sys := .fcntl, ret := .ok 0 } ]),
    (.on 3 (.connect (.native [2, 0, 0, 80])),
      [ { sys := .connect, ret := .err EINPROGRESS }, { sys := .poll, ret := .ok 1 },
        { sys := .getsockopt, ret := .ok 0, val := 111 } ]) ]

example : (run [] [] 0 (demoConnect.take 1)).2 =
    [(3, { timeout := 0, backlog := 5, blocking := true, keepalive := false, connected := true })] := by decide
example : (run [] [] 0 demoConnect).2 =
    [(3, { timeout := 0, backlog := 5, blocking := true, keepalive := false, connected := false })] := by decide
example : (run [] [] 0 demoConnect).1.map (fun p => (p.1, Spec.flagsOf p.2)) = (run [] [] 0 demoConnect).2 := by decide

end PV.Socket

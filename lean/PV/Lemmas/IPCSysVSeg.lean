import PV.Lemmas.IPCSysVInv
/-! One segment per name (System V shared-memory machine): the binding `SegBound`, what each system call does to it, what
each machine step does to it, and the invariant over arbitrary action lists.  Same layers as `IPCSysVInv`. -/
namespace PV.SysV
open PV.Generated.IPCSysV
set_option linter.unusedSimpArgs false
set_option linter.unnecessarySimpa false

/-- key file `f` has inode `i`, whose ftok key names the live, unmarked segment `sid`; nothing else refers to `i` / `sid`;
    inode numbers are not reused -/
structure SegBound (os : OS) (f : KeyFile) (i : Ino) (sid : SegId) : Prop where
  file : os.files f = some i
  key : os.shmKeys (ftokOf i) = some sid
  alive : (os.segs sid).alive = true
  unmarked : (os.segs sid).rmid = false
  sidlt : sid < os.nextSeg
  uniq : ∀ k, os.shmKeys k = some sid → k = ftokOf i
  inj : ∀ g, os.files g = some i → g = f
  ilt : i < os.nextIno
  noreuse : os.reuse = false

/-! ## per system call -/

theorem segbound_open (os : OS) (f g : KeyFile) (i : Ino) (sid : SegId) (flags : Nat) (hb : SegBound os f i sid) :
    SegBound (openF os g flags).1 f i sid := by
  unfold openF
  cases hg : os.files g with
  | some j => simp only; split <;> exact hb
  | none =>
    have hgf : g ≠ f := by intro e; rw [e, hb.file] at hg; cases hg
    simp only [hb.noreuse]
    split
    · refine ⟨?_, hb.key, hb.alive, hb.unmarked, hb.sidlt, hb.uniq, ?_, ?_, rfl⟩
      · simp [Ne.symm hgf, hb.file]
      · intro g' hg'
        simp only at hg'
        split at hg'
        · exact absurd (Option.some.inj hg') (Nat.ne_of_gt hb.ilt)
        · exact hb.inj g' hg'
      · exact Nat.lt_succ_of_lt hb.ilt
    · exact hb

theorem segbound_unlink (os : OS) (f g : KeyFile) (i : Ino) (sid : SegId) (hb : SegBound os f i sid) (hg : g ≠ f) :
    SegBound (unlinkF os g).1 f i sid := by
  unfold unlinkF
  cases hj : os.files g with
  | none => exact hb
  | some j =>
    refine ⟨?_, hb.key, hb.alive, hb.unmarked, hb.sidlt, hb.uniq, ?_, hb.ilt, hb.noreuse⟩
    · simp [Ne.symm hg, hb.file]
    · intro g' hg'
      simp only at hg'
      split at hg'
      · cases hg'
      · exact hb.inj g' hg'

theorem segbound_of_eq (os os' : OS) (f : KeyFile) (i : Ino) (sid : SegId) (hb : SegBound os f i sid)
    (h1 : os'.files = os.files) (h2 : os'.shmKeys = os.shmKeys) (h3 : os'.segs = os.segs) (h4 : os'.nextSeg = os.nextSeg)
    (h5 : os'.nextIno = os.nextIno) (h6 : os'.reuse = os.reuse) : SegBound os' f i sid :=
  ⟨by rw [h1]; exact hb.file, by rw [h2]; exact hb.key, by rw [h3]; exact hb.alive, by rw [h3]; exact hb.unmarked,
   by rw [h4]; exact hb.sidlt, by rw [h2]; exact hb.uniq, by rw [h1]; exact hb.inj, by rw [h5]; exact hb.ilt, by rw [h6]; exact hb.noreuse⟩

theorem sem_calls_frame (os : OS) (p : Pid) (k : Key) (flags cmd v flg : Nat) (id : Option SemId) (o : Int) :
    (∀ os', os' = (semgetF os k flags).1 ∨ os' = (semctlF os id cmd v).1 ∨ os' = (semopF os p id o flg).1 →
      os'.files = os.files ∧ os'.shmKeys = os.shmKeys ∧ os'.segs = os.segs ∧ os'.nextSeg = os.nextSeg ∧ os'.nextIno = os.nextIno ∧ os'.reuse = os.reuse) := by
  intro os' h
  rcases h with h | h | h <;> subst h
  · unfold semgetF; (repeat' split) <;> simp
  · unfold semctlF; (repeat' split) <;> simp [OS.setSem]
  · unfold semopF; (repeat' split) <;> simp only [OS.setSem] <;> (repeat' split) <;> simp

theorem segbound_shmget (os : OS) (f : KeyFile) (i : Ino) (sid : SegId) (k : Key) (size flags nm : Nat) (hb : SegBound os f i sid) :
    SegBound (shmgetF os k size flags nm).1 f i sid ∧ ((shmgetF os k size flags nm).1.segs sid = os.segs sid) ∧
    (k ≠ ftokOf i → ∀ j, (shmgetF os k size flags nm).2 = .ok j → j ≠ sid) := by
  unfold shmgetF
  cases hk : os.shmKeys k with
  | some j =>
    simp only
    split
    · exact ⟨hb, rfl, fun _ j' h => by cases h⟩
    · refine ⟨hb, rfl, fun hne j' h => ?_⟩
      simp only [Res.ok.injEq] at h
      subst h
      intro e; subst e
      exact hne (hb.uniq k hk)
  | none =>
    simp only
    split
    · split
      · exact ⟨hb, rfl, fun _ j h => by cases h⟩
      · have hne : k ≠ ftokOf i := by intro e; rw [e, hb.key] at hk; cases hk
        have hid : sid ≠ os.nextSeg := Nat.ne_of_lt hb.sidlt
        refine ⟨⟨hb.file, ?_, ?_, ?_, ?_, ?_, hb.inj, hb.ilt, hb.noreuse⟩, ?_, ?_⟩
        · simp [Ne.symm hne, hb.key]
        · simp [hid, hb.alive]
        · simp [hid, hb.unmarked]
        · exact Nat.lt_succ_of_lt hb.sidlt
        · intro k' hk'
          simp only at hk'
          split at hk'
          · simp only [Option.some.injEq] at hk'; exact absurd hk'.symm hid
          · exact hb.uniq k' hk'
        · simp [hid]
        · intro _ j h
          simp only [Res.ok.injEq] at h
          subst h; exact Ne.symm hid
    · exact ⟨hb, rfl, fun _ j h => by cases h⟩

theorem shmget_bound_result (os : OS) (f : KeyFile) (i : Ino) (sid : SegId) (size perm nm : Nat) (hb : SegBound os f i sid)
    (hp : perm = shmPermRO ∨ perm = shmPermRW) :
    (shmgetF os (ftokOf i) size (shmgetExclFlags ||| perm) nm).2 = .err .EEXIST ∧
    (shmgetF os (ftokOf i) shmgetPlainSize (shmgetPlainFlags ||| perm) nm).2 = .ok sid := by
  rcases hp with hp | hp <;> subst hp <;>
    simp [shmgetF, hb.key, hasFlag, shmgetExclFlags, shmgetPlainFlags, shmPermRO, shmPermRW, IPC_CREAT, IPC_EXCL]

theorem segAlive_some (os : OS) (h : Option SegId) (j : SegId) (ha : segAlive os h = some j) : h = some j ∧ (os.segs j).alive = true := by
  unfold segAlive at ha
  cases h with
  | none => cases ha
  | some j' => simp only at ha; split at ha <;> simp_all

theorem segbound_shmctl (os : OS) (f : KeyFile) (i : Ino) (sid : SegId) (h : Option SegId) (cmd : Nat) (hb : SegBound os f i sid)
    (hq : h = some sid → cmd ≠ IPC_RMID) : SegBound (shmctlF os h cmd).1 f i sid := by
  unfold shmctlF
  cases ha : segAlive os h with
  | none => exact hb
  | some j =>
    have hj := (segAlive_some os h j ha).1
    simp only
    split
    · exact hb
    · split
      · rename_i hc
        have e' : sid ≠ j := by intro e; subst e; exact hq hj hc
        refine ⟨hb.file, ?_, ?_, ?_, hb.sidlt, ?_, hb.inj, hb.ilt, hb.noreuse⟩
        · simp only [hb.key, Option.some.injEq, e', if_false]
        · simp [OS.setSeg, e', hb.alive]
        · simp [OS.setSeg, e', hb.unmarked]
        · intro k hk
          simp only at hk
          split at hk
          · cases hk
          · exact hb.uniq k hk
      · exact hb

theorem segbound_setSeg (os : OS) (f : KeyFile) (i : Ino) (sid j : SegId) (s' : Seg) (hb : SegBound os f i sid)
    (h1 : j = sid → s'.alive = true ∧ s'.rmid = false) : SegBound (os.setSeg j s') f i sid := by
  refine ⟨hb.file, hb.key, ?_, ?_, hb.sidlt, hb.uniq, hb.inj, hb.ilt, hb.noreuse⟩
  · simp only [OS.setSeg]; split
    · rename_i e; exact (h1 e.symm).1
    · exact hb.alive
  · simp only [OS.setSeg]; split
    · rename_i e; exact (h1 e.symm).2
    · exact hb.unmarked

theorem segbound_setProc (os : OS) (f : KeyFile) (i : Ino) (sid : SegId) (p : Pid) (pr : Proc) (hb : SegBound os f i sid) :
    SegBound (os.setProc p pr) f i sid :=
  segbound_of_eq os _ f i sid hb rfl rfl rfl rfl rfl rfl

theorem segbound_shmat (os : OS) (f : KeyFile) (i : Ino) (sid : SegId) (p : Pid) (h : Option SegId) (flags : Nat) (hb : SegBound os f i sid) :
    SegBound (shmatF os p h flags).1 f i sid := by
  unfold shmatF
  cases ha : segAlive os h with
  | none => exact hb
  | some j =>
    simp only
    refine segbound_setProc _ f i sid p _ (segbound_setSeg os f i sid j _ hb ?_)
    intro e; subst e; exact ⟨hb.alive, hb.unmarked⟩

theorem segbound_shmdt (os : OS) (f : KeyFile) (i : Ino) (sid : SegId) (p : Pid) (a : Option Nat) (hb : SegBound os f i sid) :
    SegBound (shmdtF os p a).1 f i sid := by
  simp only [shmdtF]
  split
  · exact hb
  · rename_i att _
    refine segbound_setProc _ f i sid p _ (segbound_setSeg os f i sid att.seg _ hb ?_)
    intro e
    rw [e]
    simp [Seg.detach, hb.unmarked, hb.alive]

/-- one system call keeps the segment binding unless it is `unlink f` or IPC_RMID of `sid`; no system call changes the bytes
    of an existing segment -/
theorem sysStep_segbound (p : Pid) (intr : Bool) (c : Sys) (os : OS) (nm : Nat) (f : KeyFile) (i : Ino) (sid : SegId) (hb : SegBound os f i sid)
    (h1 : c ≠ .unlink f) (h2 : c ≠ .shmctl (some sid) IPC_RMID) :
    SegBound (sysStep p intr c os nm).1 f i sid := by
  unfold sysStep
  split
  · exact hb
  · cases c with
    | «open» g fl m => simp only; exact segbound_open os f g i sid fl hb
    | close fd => exact hb
    | stat g => simp only; split <;> exact hb
    | ftok g pr => simp only; split <;> exact hb
    | unlink g =>
      have hg : g ≠ f := by intro e; exact h1 (by rw [e])
      simp only
      exact segbound_unlink os f g i sid hb hg
    | semget k n fl =>
      have := sem_calls_frame os p k fl 0 0 0 none 0 _ (Or.inl rfl)
      simp only
      exact segbound_of_eq os _ f i sid hb this.1 this.2.1 this.2.2.1 this.2.2.2.1 this.2.2.2.2.1 this.2.2.2.2.2
    | semctl h cmd v =>
      have := sem_calls_frame os p 0 0 cmd v 0 h 0 _ (Or.inr (Or.inl rfl))
      simp only
      exact segbound_of_eq os _ f i sid hb this.1 this.2.1 this.2.2.1 this.2.2.2.1 this.2.2.2.2.1 this.2.2.2.2.2
    | semop h n o fl =>
      have := sem_calls_frame os p 0 0 0 0 fl h o _ (Or.inr (Or.inr rfl))
      simp only
      exact segbound_of_eq os _ f i sid hb this.1 this.2.1 this.2.2.1 this.2.2.2.1 this.2.2.2.2.1 this.2.2.2.2.2
    | shmget k sz fl => simp only; exact (segbound_shmget os f i sid k sz fl nm hb).1
    | shmctl h cmd =>
      simp only
      exact segbound_shmctl os f i sid h cmd hb (by intro e c'; exact h2 (by rw [e, c']))
    | shmat h fl => simp only; exact segbound_shmat os f i sid p h fl hb
    | shmdt a => simp only; exact segbound_shmdt os f i sid p a hb

/-! ## per machine step -/

/-- semaphore structs never carry a segment key file (their key files are `.sem n` / `.lock n`) -/
def PSem.nshm (h : PSem) : Prop := ∀ n, h.file ≠ .shm n

/-- a PShm struct at rest: a handle of name `n` refers to `sid`, a handle of another name does not -/
def PShm.sinv (n : Nat) (sid : SegId) (m : PShm) : Prop :=
  (if m.name = n then m.hdl = some sid else m.hdl ≠ some sid) ∧ (∀ ps, m.sem = some ps → ps.nshm)

theorem sem_after_file (s : SemSt) (r : Res) :
    (∀ s', s.after r = .cont s' → s'.h.file = s.h.file) ∧ (∀ h x, s.after r = .done (h, x) → h.file = s.h.file) := by
  obtain ⟨api, h, pc, built, failing, recreated⟩ := s
  constructor <;> intros <;> rename_i hh <;>
    (cases pc <;> rcases r with v | ⟨sz, na⟩ | e | _ <;>
      simp only [SemSt.after, SemSt.fail, SemSt.startClean, SemSt.afterClean, SemSt.afterGet, SemSt.created, SemSt.startCreate,
        PSem.cleaned, errOf] at hh <;>
      (repeat' split at hh) <;> (cases hh <;> first | rfl | simp [PSem.cleaned]))

/-- a segment machine between two of its system calls -/
def ShmSt.sinv (n : Nat) (i : Ino) (sid : SegId) (s : ShmSt) : Prop :=
  (∀ ps, s.h.sem = some ps → ps.nshm) ∧
  (match s.pc with
   | .cSem st => st.h.nshm
   | .kSem st => st.h.nshm
   | _ => True) ∧
  (s.isNew = true → match s.pc with
    | .kDt | .kStat | .kRmid | .kUnlink | .kSem _ => s.failing.isSome = true
    | _ => True) ∧
  (if s.h.name = n then
    match s.pc with
    | .cGetExcl | .cGetPlain => s.h.unixKey = some (ftokOf i)
    | .cStatSeg | .cAt | .cSem _ => s.h.hdl = some sid
    | _ => True
  else
    match s.pc with
    | .cOpen | .cClose _ | .cStat | .cFtok => s.h.addr = .null
    | .cGetExcl | .cGetPlain => s.h.addr = .null ∧ ∃ k, s.h.unixKey = some k ∧ k ≠ ftokOf i
    | .cStatSeg => s.h.addr = .null ∧ s.h.hdl ≠ some sid
    | .cAt | .cSem _ | .kDt | .kStat | .kRmid => s.h.hdl ≠ some sid
    | .kUnlink | .kSem _ => True)

/-- no clean-up of name `n` is at its IPC_RMID (the last detach of ANY handle, owner or not) or at its unlink (owner) -/
def ShmSt.squiet (n : Nat) (s : ShmSt) : Prop := s.h.name = n → s.pc ≠ .kRmid ∧ s.pc ≠ .kUnlink

def ShmOut.sinv (n : Nat) (i : Ino) (sid : SegId) (isNew : Bool) : ShmOut → Prop
  | .cont s' => s'.sinv n i sid ∧ s'.isNew = isNew
  | .done (h, r) => isNew = true → r = .ok () → h.sinv n sid

/-- the clean-up entry points, for a struct whose lock handle is a semaphore struct and — for another name — whose id is
    not `sid` once something is attached; a `p_shm_new` in clean-up is failing -/
theorem shm_clean_sinv (n : Nat) (i : Ino) (sid : SegId) (s : ShmSt) (b : Bool) (hs : ∀ ps, s.h.sem = some ps → ps.nshm)
    (hn : s.isNew = true → s.failing.isSome = true) (hb : s.isNew = b) :
    ShmOut.sinv n i sid b s.cleanSem ∧ ShmOut.sinv n i sid b s.cleanFile ∧ ShmOut.sinv n i sid b s.afterClean := by
  subst hb
  have h4 : ShmOut.sinv n i sid s.isNew s.afterClean := by
    simp only [ShmSt.afterClean]
    split
    · intro _ e; cases e
    · rename_i hfail
      intro hnew _
      have := hn hnew
      have hfail' : s.failing = none := hfail
      rw [hfail'] at this; cases this
  have h1 : ShmOut.sinv n i sid s.isNew s.cleanSem := by
    simp only [ShmSt.cleanSem]
    split
    · exact h4
    · rename_i ps hps
      split
      · rename_i st hst
        have hfile : st.h.file = ps.file := by
          simp only [SemSt.startClean, SemSt.afterClean] at hst
          (repeat' split at hst) <;> simp only [Out.cont.injEq, reduceCtorEq] at hst <;> subst hst <;> rfl
        refine ⟨⟨hs, ?_, fun hnew => hn hnew, ?_⟩, rfl⟩
        · simp only; intro k; rw [hfile]; exact hs ps hps k
        · simp only; split <;> trivial
      · exact h4
  refine ⟨h1, ?_, h4⟩
  simp only [ShmSt.cleanFile]; split
  · refine ⟨⟨hs, trivial, fun hnew => hn hnew, ?_⟩, rfl⟩
    simp only; split <;> trivial
  · exact h1

theorem shm_startClean_sinv (n : Nat) (i : Ino) (sid : SegId) (s : ShmSt) (b : Bool) (hs : ∀ ps, s.h.sem = some ps → ps.nshm)
    (hf : s.h.name ≠ n → s.h.addr ≠ .null → s.h.hdl ≠ some sid) (hn : s.isNew = true → s.failing.isSome = true) (hb : s.isNew = b) :
    ShmOut.sinv n i sid b s.startClean := by
  have h2 := (shm_clean_sinv n i sid s b hs hn hb).2.1
  subst hb
  simp only [ShmSt.startClean]; split
  · rename_i ha
    refine ⟨⟨hs, trivial, fun hnew => hn hnew, ?_⟩, rfl⟩
    simp only
    split
    · trivial
    · rename_i hne
      exact hf hne (by simpa using ha)
  · exact h2

theorem lockSt_nshm (s : ShmSt) : s.lockSt.h.nshm := by
  intro k e; simp [ShmSt.lockSt] at e

/-- a transition of the segment machine at one of its own system calls, given what a bound OS answers at the `ftok` / `shmget`
    sites (own name: the key of `i`, EEXIST, `sid`; another name: another key, another id) -/
theorem shm_after_sinv_plain (n : Nat) (i : Ino) (sid : SegId) (s : ShmSt) (r : Res) (hi : s.sinv n i sid)
    (hpc : match s.pc with | .cSem _ => False | .kSem _ => False | _ => True)
    (o1 : s.h.name = n → s.pc = .cFtok → ∀ k, r = .ok k → k = ftokOf i)
    (o2 : s.h.name = n → s.pc = .cGetExcl → r = .err .EEXIST)
    (o3 : s.h.name = n → s.pc = .cGetPlain → ∀ j, r = .ok j → j = sid)
    (f1 : s.h.name ≠ n → s.pc = .cFtok → ∀ k, r = .ok k → k ≠ ftokOf i)
    (f2 : s.h.name ≠ n → (s.pc = .cGetExcl ∨ s.pc = .cGetPlain) → ∀ j, r = .ok j → j ≠ sid) :
    ShmOut.sinv n i sid s.isNew (s.after r) := by
  obtain ⟨isNew, h, req, pc, built, isExists, failing⟩ := s
  obtain ⟨hs, _, hn, hm⟩ := hi
  simp only at hs hn hm o1 o2 o3 f1 f2
  by_cases hname : h.name = n
  · have o1 := o1 hname
    have o2 := o2 hname
    have o3 := o3 hname
    clear f1 f2
    rw [if_pos hname] at hm
    subst hname
    cases pc <;> simp only at hpc <;> simp only [true_implies, reduceCtorEq, false_implies] at hm o1 o2 o3 hn <;>
      rcases r with v | ⟨sz, na⟩ | e | _ <;>
      (try (simp only [reduceCtorEq] at o2)) <;>
      simp only [ShmSt.after, ShmSt.fail, errOf] <;> (repeat' split) <;>
      first
      | (refine (shm_clean_sinv _ i sid _ _ ?_ ?_ ?_).1 <;> first | rfl | exact hs | (simpa using hs) | exact hn | (simpa using hn) | (intro _; rfl))
      | (refine (shm_clean_sinv _ i sid _ _ ?_ ?_ ?_).2.1 <;> first | rfl | exact hs | (simpa using hs) | exact hn | (simpa using hn) | (intro _; rfl))
      | (refine (shm_clean_sinv _ i sid _ _ ?_ ?_ ?_).2.2 <;> first | rfl | exact hs | (simpa using hs) | exact hn | (simpa using hn) | (intro _; rfl))
      | (refine shm_startClean_sinv _ i sid _ _ ?_ ?_ ?_ ?_ <;> first | rfl | exact hs | (simpa using hs) | exact hn | (simpa using hn) | (intro _; rfl) | (intro hne; exact absurd rfl hne))
      | (simp [*, ShmOut.sinv, ShmSt.sinv, PShm.sinv, lockSt_nshm, Errno.num, shmgetExistsErrno, PV.Generated.IPCSysV.EEXIST]; first | done | exact hs | simp_all)
      | (simp [ShmOut.sinv, ShmSt.sinv, PShm.sinv, lockSt_nshm, Errno.num, shmgetExistsErrno, PV.Generated.IPCSysV.EEXIST]; first | done | exact hs)
  · have f1 := f1 hname
    have f2 := f2 hname
    clear o1 o2 o3
    rw [if_neg hname] at hm
    cases pc <;> simp only at hpc <;> simp only [true_implies, reduceCtorEq, false_implies, or_false, or_true, false_or] at hm f1 f2 hn <;>
      rcases r with v | ⟨sz, na⟩ | e | _ <;>
      simp only [ShmSt.after, ShmSt.fail, errOf] <;> (repeat' split) <;>
      first
      | (refine (shm_clean_sinv _ i sid _ _ ?_ ?_ ?_).1 <;> simp_all; done)
      | (refine (shm_clean_sinv _ i sid _ _ ?_ ?_ ?_).2.1 <;> simp_all; done)
      | (refine (shm_clean_sinv _ i sid _ _ ?_ ?_ ?_).2.2 <;> simp_all; done)
      | (refine shm_startClean_sinv _ i sid _ _ ?_ ?_ ?_ ?_ <;> simp_all; done)
      | (simp_all [ShmOut.sinv, ShmSt.sinv, PShm.sinv, lockSt_nshm]; done)


/-- one transition of the segment machine (of any name) in a bound OS -/
theorem shm_step_sinv (p : Pid) (intr : Bool) (nm : Nat) (s : ShmSt) (os : OS) (n : Nat) (i : Ino) (sid : SegId)
    (hb : SegBound os (.shm n) i sid) (hi : s.sinv n i sid) (hq : s.squiet n) :
    SegBound (sysStep p intr s.next os nm).1 (.shm n) i sid ∧ ShmOut.sinv n i sid s.isNew (s.after (sysStep p intr s.next os nm).2) := by
  constructor
  · have semnext : ∀ st : SemSt, st.h.nshm → st.next ≠ .unlink (.shm n) ∧ st.next ≠ .shmctl (some sid) IPC_RMID := by
      intro st hst
      obtain ⟨api, sh, spc, _, _, _⟩ := st
      constructor <;> intro e <;> cases spc <;> simp [SemSt.next] at e
      exact hst n e
    refine sysStep_segbound p intr s.next os nm (.shm n) i sid hb ?_ ?_
    · intro e
      obtain ⟨isNew, h, req, pc, built, isExists, failing⟩ := s
      obtain ⟨hs, hsub, _, _⟩ := hi
      cases pc with
      | cSem st => exact (semnext st hsub).1 (by simpa [ShmSt.next] using e)
      | kSem st => exact (semnext st hsub).1 (by simpa [ShmSt.next] using e)
      | kUnlink =>
        simp only [ShmSt.next, Sys.unlink.injEq, KeyFile.shm.injEq] at e
        exact (hq e).2 rfl
      | _ => simp [ShmSt.next] at e
    · intro e
      obtain ⟨isNew, h, req, pc, built, isExists, failing⟩ := s
      obtain ⟨hs, hsub, _, hm⟩ := hi
      cases pc with
      | cSem st => exact (semnext st hsub).2 (by simpa [ShmSt.next] using e)
      | kSem st => exact (semnext st hsub).2 (by simpa [ShmSt.next] using e)
      | kRmid =>
        simp only [ShmSt.next, Sys.shmctl.injEq] at e
        by_cases hname : h.name = n
        · exact (hq hname).1 rfl
        · simp only [hname, if_false] at hm; exact hm e.1
      | _ => simp [ShmSt.next, shmStatCmd, shmCleanStatCmd, IPC_RMID] at e
  · obtain ⟨isNew, h, req, pc, built, isExists, failing⟩ := s
    cases pc with
    | cSem st =>
      obtain ⟨hs, hsub, hn, hm⟩ := hi
      simp only at hs hsub hn hm
      have hfile := sem_after_file st (sysStep p intr st.next os nm).2
      simp only [ShmSt.next, ShmSt.after]
      cases hr : st.after (sysStep p intr st.next os nm).2 with
      | cont st' =>
        refine ⟨⟨hs, ?_, fun _ => trivial, ?_⟩, rfl⟩
        · simp only; intro k; rw [hfile.1 st' hr]; exact hsub k
        · simpa using hm
      | done x =>
        obtain ⟨ps, e⟩ := x
        cases e with
        | ok u =>
          intro _ _
          refine ⟨by simpa using hm, ?_⟩
          intro ps' hps'
          simp only [Option.some.injEq] at hps'
          subst hps'
          intro k; rw [hfile.2 ps _ hr]; exact hsub k
        | error e =>
          simp only [ShmSt.fail]
          refine shm_startClean_sinv n i sid _ _ (by simpa using hs) ?_ (by simp) rfl
          intro hne _
          simp only at hne
          simpa [hne] using hm
    | kSem st =>
      obtain ⟨hs, hsub, hn, hm⟩ := hi
      simp only at hs hsub hn hm
      have hfile := sem_after_file st (sysStep p intr st.next os nm).2
      simp only [ShmSt.next, ShmSt.after]
      cases hr : st.after (sysStep p intr st.next os nm).2 with
      | cont st' =>
        refine ⟨⟨hs, ?_, fun hnew => hn hnew, ?_⟩, rfl⟩
        · simp only; intro k; rw [hfile.1 st' hr]; exact hsub k
        · simp only; split <;> trivial
      | done x => exact (shm_clean_sinv n i sid _ _ (by simpa using hs) (by simpa using hn) rfl).2.2
    | cFtok =>
      refine shm_after_sinv_plain n i sid _ _ hi trivial (fun hname _ => ?_) (fun _ hp => by simp at hp) (fun _ hp => by simp at hp)
        (fun hname _ => ?_) (fun _ hp => by simp at hp)
      · intro k hk
        simp only at hname
        simp [ShmSt.next, sysStep, Sys.interruptible, hname, hb.file] at hk
        exact hk.symm
      · intro k hk
        simp only at hname
        simp only [ShmSt.next, sysStep, Sys.interruptible, Bool.and_false, Bool.false_eq_true, if_false] at hk
        cases hj : os.files (.shm h.name) with
        | none => simp [hj] at hk
        | some j =>
          simp only [hj, Res.ok.injEq] at hk
          subst hk
          intro e
          simp only [ftokOf] at e
          subst e
          have := hb.inj _ hj
          simp only [KeyFile.shm.injEq] at this
          exact hname this
    | cGetExcl =>
      refine shm_after_sinv_plain n i sid _ _ hi trivial (fun _ hp => by simp at hp) (fun hname _ => ?_) (fun _ hp => by simp at hp)
        (fun _ hp => by simp at hp) (fun hname _ => ?_)
      · simp only at hname
        have hu : h.unixKey = some (ftokOf i) := by
          have := hi.2.2.2; simp only [hname, if_true] at this; exact this
        have := (shmget_bound_result os (.shm n) i sid h.size (if h.ro = true then shmPermRO else shmPermRW) nm hb (by split <;> simp)).1
        simp [ShmSt.next, ShmSt.perm, sysStep, Sys.interruptible, hu, this]
      · intro j hj
        simp only at hname
        have hm := hi.2.2.2
        simp only [hname, if_false] at hm
        obtain ⟨_, k, hk, hkn⟩ := hm
        simp only [ShmSt.next, hk, Option.getD_some, sysStep, Sys.interruptible, Bool.and_false, Bool.false_eq_true, if_false] at hj
        exact (segbound_shmget os (.shm n) i sid k _ _ nm hb).2.2 hkn j hj
    | cGetPlain =>
      refine shm_after_sinv_plain n i sid _ _ hi trivial (fun _ hp => by simp at hp) (fun _ hp => by simp at hp) (fun hname _ => ?_)
        (fun _ hp => by simp at hp) (fun hname _ => ?_)
      · intro j hj
        simp only at hname
        have hu : h.unixKey = some (ftokOf i) := by
          have := hi.2.2.2; simp only [hname, if_true] at this; exact this
        have := (shmget_bound_result os (.shm n) i sid 0 (if h.ro = true then shmPermRO else shmPermRW) nm hb (by split <;> simp)).2
        simp only [ShmSt.next, ShmSt.perm, hu, Option.getD_some, sysStep, Sys.interruptible, Bool.and_false, Bool.false_eq_true, if_false] at hj
        rw [this] at hj
        exact (Res.ok.inj hj).symm
      · intro j hj
        simp only at hname
        have hm := hi.2.2.2
        simp only [hname, if_false] at hm
        obtain ⟨_, k, hk, hkn⟩ := hm
        simp only [ShmSt.next, hk, Option.getD_some, sysStep, Sys.interruptible, Bool.and_false, Bool.false_eq_true, if_false] at hj
        exact (segbound_shmget os (.shm n) i sid k _ _ nm hb).2.2 hkn j hj
    | _ =>
      all_goals
        exact shm_after_sinv_plain n i sid _ _ hi trivial (fun _ hp => by simp at hp) (fun _ hp => by simp at hp) (fun _ hp => by simp at hp)
          (fun _ hp => by simp at hp) (fun _ hp => by simp at hp)

/-! ### calls in flight, actions, action lists -/

theorem sem_next_seg (n : Nat) (sid : SegId) (st : SemSt) (hst : st.h.nshm) :
    st.next ≠ .unlink (.shm n) ∧ st.next ≠ .shmctl (some sid) IPC_RMID := by
  obtain ⟨api, sh, spc, _, _, _⟩ := st
  constructor <;> intro e <;> cases spc <;> simp [SemSt.next] at e
  exact hst n e

def Handle.sinv (n : Nat) (sid : SegId) : Handle → Prop
  | .sem h => h.nshm
  | .shm m => m.sinv n sid

def Call.sinv (n : Nat) (i : Ino) (sid : SegId) : Call → Prop
  | .semNew _ s => s.h.nshm
  | .semFree s => s.h.nshm
  | .semOp _ s => s.h.nshm
  | .shmNew _ s => s.sinv n i sid ∧ s.isNew = true
  | .shmFree s => s.sinv n i sid
  | .lockOp _ m s => s.h.nshm ∧ m.sinv n sid

/-- no clean-up of segment name `n` is at its IPC_RMID / unlink -/
def Call.squiet (n : Nat) : Call → Prop
  | .shmNew _ s => s.squiet n
  | .shmFree s => s.squiet n
  | _ => True

def CallOut.sinv (n : Nat) (i : Ino) (sid : SegId) : Out Call (Ret × Option (Hid × Option Handle)) → Prop
  | .cont c' => c'.sinv n i sid
  | .done (_, some (_, some x)) => x.sinv n sid
  | .done _ => True

theorem call_step_sinv (p : Pid) (intr : Bool) (c : Call) (os : OS) (n : Nat) (i : Ino) (sid : SegId)
    (hb : SegBound os (.shm n) i sid) (hi : c.sinv n i sid) (hq : c.squiet n) :
    SegBound (sysStep p intr c.next os c.name).1 (.shm n) i sid ∧ CallOut.sinv n i sid (c.after (sysStep p intr c.next os c.name).2) := by
  cases c with
  | semNew hid s =>
    have hn := sem_next_seg n sid s hi
    have hf := sem_after_file s (sysStep p intr s.next os 0).2
    refine ⟨sysStep_segbound p intr s.next os 0 _ i sid hb hn.1 hn.2, ?_⟩
    simp only [Call.next, Call.name, Call.after]
    cases hr : s.after (sysStep p intr s.next os 0).2 with
    | cont s' => intro k; rw [hf.1 s' hr]; exact hi k
    | done x =>
      obtain ⟨h, e⟩ := x
      cases e with
      | ok u => intro k; rw [hf.2 h _ hr]; exact hi k
      | error e => trivial
  | semFree s =>
    have hn := sem_next_seg n sid s hi
    have hf := sem_after_file s (sysStep p intr s.next os 0).2
    refine ⟨sysStep_segbound p intr s.next os 0 _ i sid hb hn.1 hn.2, ?_⟩
    simp only [Call.next, Call.name, Call.after]
    cases hr : s.after (sysStep p intr s.next os 0).2 with
    | cont s' => intro k; rw [hf.1 s' hr]; exact hi k
    | done x => trivial
  | semOp hid s =>
    have hn := sem_next_seg n sid s hi
    have hf := sem_after_file s (sysStep p intr s.next os 0).2
    refine ⟨sysStep_segbound p intr s.next os 0 _ i sid hb hn.1 hn.2, ?_⟩
    simp only [Call.next, Call.name, Call.after]
    cases hr : s.after (sysStep p intr s.next os 0).2 with
    | cont s' => intro k; rw [hf.1 s' hr]; exact hi k
    | done x =>
      obtain ⟨h, e⟩ := x
      intro k; rw [hf.2 h _ hr]; exact hi k
  | lockOp hid m s =>
    have hn := sem_next_seg n sid s hi.1
    have hf := sem_after_file s (sysStep p intr s.next os 0).2
    refine ⟨sysStep_segbound p intr s.next os 0 _ i sid hb hn.1 hn.2, ?_⟩
    simp only [Call.next, Call.name, Call.after]
    cases hr : s.after (sysStep p intr s.next os 0).2 with
    | cont s' => exact ⟨by intro k; rw [hf.1 s' hr]; exact hi.1 k, hi.2⟩
    | done x =>
      obtain ⟨h, e⟩ := x
      refine ⟨hi.2.1, ?_⟩
      intro ps hps
      simp only [Option.some.injEq] at hps
      subst hps
      intro k; rw [hf.2 _ _ hr]; exact hi.1 k
  | shmNew hid s =>
    have := shm_step_sinv p intr s.h.name s os n i sid hb hi.1 hq
    refine ⟨this.1, ?_⟩
    have h2 := this.2
    simp only [Call.next, Call.name, Call.after]
    cases hr : s.after (sysStep p intr s.next os s.h.name).2 with
    | cont s' => rw [hr] at h2; exact ⟨h2.1, by rw [h2.2]; exact hi.2⟩
    | done x =>
      obtain ⟨h, e⟩ := x
      rw [hr] at h2
      cases e with
      | ok u => exact h2 hi.2 rfl
      | error e => trivial
  | shmFree s =>
    have := shm_step_sinv p intr 0 s os n i sid hb hi hq
    refine ⟨this.1, ?_⟩
    have h2 := this.2
    simp only [Call.next, Call.name, Call.after]
    cases hr : s.after (sysStep p intr s.next os 0).2 with
    | cont s' => rw [hr] at h2; exact h2.1
    | done x => trivial

/-- name `n` is bound to segment `sid`; every live struct and every machine in flight respects it -/
structure SegInv (n : Nat) (i : Ino) (sid : SegId) (g : G) : Prop where
  bound : SegBound g.os (.shm n) i sid
  hs : ∀ h p x, g.hs h = some (p, x) → x.sinv n sid
  calls : ∀ t c, g.calls t = some c → c.sinv n i sid

def SegQuiet (n : Nat) (g : G) : Prop := ∀ t c, g.calls t = some c → c.squiet n

theorem seginv_step (n : Nat) (i : Ino) (sid : SegId) (g : G) (t : Tid) (intr : Bool)
    (hi : SegInv n i sid g) (hq : SegQuiet n g) : SegInv n i sid (g.step t intr) := by
  cases hc : g.calls t with
  | none => rw [step_none g t intr hc]; exact hi
  | some c =>
    have := call_step_sinv (g.pidOf t) intr c g.os n i sid hi.bound (hi.calls t c hc) (hq t c hc)
    refine ⟨by rw [step_os g t intr c hc]; exact this.1, ?_, ?_⟩
    · have h2 := this.2
      intro h p x hx
      simp only [G.step, hc] at hx
      cases hr : c.after (sysStep (g.pidOf t) intr c.next g.os c.name).2 with
      | cont c' => simp only [hr, G.setCall] at hx; exact hi.hs h p x hx
      | done y =>
        obtain ⟨ret, nh⟩ := y
        rw [hr] at h2
        cases nh with
        | none => simp only [hr, G.setCall, G.setRet] at hx; exact hi.hs h p x hx
        | some z =>
          obtain ⟨hid, ox⟩ := z
          cases ox with
          | none =>
            simp only [hr, G.setCall, G.setRet, G.setHandle] at hx
            split at hx
            · cases hx
            · exact hi.hs h p x hx
          | some x' =>
            simp only [hr, G.setCall, G.setRet, G.setHandle] at hx
            split at hx
            · simp only [Option.some.injEq, Prod.mk.injEq] at hx
              rw [← hx.2]; exact h2
            · exact hi.hs h p x hx
    · have h2 := this.2
      intro t' c' hc'
      simp only [G.step, hc] at hc'
      cases hr : c.after (sysStep (g.pidOf t) intr c.next g.os c.name).2 with
      | cont c'' =>
        rw [hr] at h2
        simp only [hr, G.setCall] at hc'
        split at hc'
        · simp only [Option.some.injEq] at hc'; rw [← hc']; exact h2
        · exact hi.calls t' c' hc'
      | done y =>
        obtain ⟨ret, nh⟩ := y
        have key : ∀ g' : G, g'.calls = (fun t'' => if t'' = t then none else g.calls t'') → g'.calls t' = some c' → c'.sinv n i sid := by
          intro g' hg' h'
          rw [hg'] at h'
          simp only at h'
          split at h'
          · cases h'
          · exact hi.calls t' c' h'
        cases nh with
        | none => simp only [hr] at hc'; exact key _ rfl hc'
        | some z =>
          obtain ⟨hid, ox⟩ := z
          cases ox <;> (simp only [hr] at hc'; exact key _ rfl hc')

theorem seginv_kill (n : Nat) (i : Ino) (sid : SegId) (g : G) (p : Pid) (hi : SegInv n i sid g) : SegInv n i sid (g.kill p) := by
  refine ⟨?_, ?_, ?_⟩
  · have hb := hi.bound
    refine ⟨hb.file, hb.key, ?_, ?_, hb.sidlt, hb.uniq, hb.inj, hb.ilt, hb.noreuse⟩
    · simp only [G.kill, OS.kill]; split
      · exact hb.alive
      · simp [hb.unmarked, hb.alive]
    · simp only [G.kill, OS.kill]; split
      · exact hb.unmarked
      · simp [hb.unmarked]
  · intro h q x hx
    simp only [G.kill] at hx
    split at hx
    · split at hx
      · cases hx
      · rename_i q' x' hq' _
        simp only [Option.some.injEq, Prod.mk.injEq] at hx
        exact hi.hs h q' x (by rw [hq', hx.2])
    · cases hx
  · intro t c hc
    simp only [G.kill] at hc
    split at hc
    · cases hc
    · exact hi.calls t c hc

theorem seginv_setRet (n : Nat) (i : Ino) (sid : SegId) (g : G) (t : Tid) (r : Ret) (hi : SegInv n i sid g) : SegInv n i sid (g.setRet t r) :=
  ⟨hi.bound, hi.hs, hi.calls⟩

theorem seginv_setCall (n : Nat) (i : Ino) (sid : SegId) (g : G) (t : Tid) (c : Call) (hi : SegInv n i sid g) (hc : c.sinv n i sid) :
    SegInv n i sid (g.setCall t (some c)) := by
  refine ⟨hi.bound, hi.hs, ?_⟩
  intro t' c' h'
  simp only [G.setCall] at h'
  split at h'
  · simp only [Option.some.injEq] at h'; rw [← h']; exact hc
  · exact hi.calls t' c' h'

theorem seginv_setHandle (n : Nat) (i : Ino) (sid : SegId) (g : G) (h : Hid) (v : Option (Pid × Handle)) (hi : SegInv n i sid g)
    (hv : ∀ p x, v = some (p, x) → x.sinv n sid) : SegInv n i sid (g.setHandle h v) := by
  refine ⟨hi.bound, ?_, hi.calls⟩
  intro h' p x hx
  simp only [G.setHandle] at hx
  split at hx
  · exact hv p x hx
  · exact hi.hs h' p x hx

theorem seginv_startOut (n : Nat) (i : Ino) (sid : SegId) (g : G) (t : Tid) (o : Out Call (Ret × Option (Hid × Option Handle)))
    (hi : SegInv n i sid g) (ho : CallOut.sinv n i sid o) : SegInv n i sid (startOut g t o) := by
  cases o with
  | cont c => exact seginv_setCall n i sid g t c hi ho
  | done y =>
    obtain ⟨ret, nh⟩ := y
    cases nh with
    | none => exact seginv_setRet n i sid g t ret hi
    | some z =>
      obtain ⟨hid, ox⟩ := z
      cases ox with
      | none => exact seginv_setHandle n i sid _ hid none (seginv_setRet n i sid g t ret hi) (by intro p x e; cases e)
      | some x =>
        refine seginv_setHandle n i sid _ hid _ (seginv_setRet n i sid g t ret hi) ?_
        intro p x' e
        simp only [Option.some.injEq, Prod.mk.injEq] at e
        rw [← e.2]; exact ho

theorem semFreeStart_sinv (n : Nat) (i : Ino) (sid : SegId) (s : PSem) (hs : s.nshm) : CallOut.sinv n i sid (semFreeStart s) := by
  simp only [semFreeStart]
  split
  · rename_i st hst
    have hfile : st.h.file = s.file := by
      simp only [SemSt.startClean, SemSt.afterClean] at hst
      (repeat' split at hst) <;> simp only [Out.cont.injEq, reduceCtorEq] at hst <;> subst hst <;> rfl
    intro k; rw [hfile]; exact hs k
  · trivial

theorem shmFreeStart_sinv (n : Nat) (i : Ino) (sid : SegId) (m : PShm) (hm : m.sinv n sid) : CallOut.sinv n i sid (shmFreeStart m) := by
  simp only [shmFreeStart]
  have := shm_startClean_sinv n i sid ({ isNew := false, h := m, pc := .kDt } : ShmSt) false hm.2
    (by intro hne _; have := hm.1; simp only at hne; simpa [hne] using this) (by intro e; cases e) rfl
  split
  · rename_i st hst
    rw [hst] at this
    exact this.1
  · trivial

theorem seginv_start (n : Nat) (i : Ino) (sid : SegId) (g : G) (t : Tid) (op : Op) (hi : SegInv n i sid g) : SegInv n i sid (g.start t op) := by
  unfold G.start
  split
  · exact seginv_setRet n i sid g t _ hi
  · cases op with
    | newSem h n' init m =>
      simp only
      split
      · exact seginv_setRet n i sid g t _ hi
      · refine seginv_setCall n i sid g t _ hi ?_
        intro k e; cases e
    | newShm h n' size ro =>
      simp only
      split
      · exact seginv_setRet n i sid g t _ hi
      · refine seginv_setCall n i sid g t _ hi ⟨⟨(by intro ps e; cases e), trivial, fun _ => trivial, ?_⟩, rfl⟩
        simp only; split <;> simp
    | acq h =>
      simp only
      split
      · rename_i s hs
        exact seginv_setCall n i sid g t _ hi (hi.hs h _ _ (handleOf_hs g t h _ hs))
      · exact seginv_setRet n i sid g t _ hi
    | rel h =>
      simp only
      split
      · rename_i s hs
        exact seginv_setCall n i sid g t _ hi (hi.hs h _ _ (handleOf_hs g t h _ hs))
      · exact seginv_setRet n i sid g t _ hi
    | lock h =>
      simp only
      split
      · rename_i m hm
        have := hi.hs h _ _ (handleOf_hs g t h _ hm)
        split
        · rename_i s hs
          exact seginv_setCall n i sid g t _ hi ⟨this.2 s hs, this⟩
        · exact seginv_setRet n i sid g t _ hi
      · exact seginv_setRet n i sid g t _ hi
    | unlock h =>
      simp only
      split
      · rename_i m hm
        have := hi.hs h _ _ (handleOf_hs g t h _ hm)
        split
        · rename_i s hs
          exact seginv_setCall n i sid g t _ hi ⟨this.2 s hs, this⟩
        · exact seginv_setRet n i sid g t _ hi
      · exact seginv_setRet n i sid g t _ hi
    | own h =>
      simp only
      split
      · rename_i s hs
        have := hi.hs h _ _ (handleOf_hs g t h _ hs)
        refine seginv_setRet n i sid _ t _ (seginv_setHandle n i sid g h _ hi ?_)
        intro p x e
        simp only [Option.some.injEq, Prod.mk.injEq] at e
        rw [← e.2]
        exact this
      · rename_i m hm
        have := hi.hs h _ _ (handleOf_hs g t h _ hm)
        refine seginv_setRet n i sid _ t _ (seginv_setHandle n i sid g h _ hi ?_)
        intro p x e
        simp only [Option.some.injEq, Prod.mk.injEq] at e
        rw [← e.2]
        refine ⟨this.1, ?_⟩
        intro ps hps
        simp only [Option.map_eq_some_iff] at hps
        obtain ⟨s0, hs0, rfl⟩ := hps
        exact this.2 s0 hs0
      · exact seginv_setRet n i sid g t _ hi
    | free h =>
      simp only
      split
      · rename_i s hs
        have := hi.hs h _ _ (handleOf_hs g t h _ hs)
        exact seginv_startOut n i sid _ t _ (seginv_setHandle n i sid g h none hi (by intro p x e; cases e)) (semFreeStart_sinv n i sid s this)
      · rename_i m hm
        have := hi.hs h _ _ (handleOf_hs g t h _ hm)
        exact seginv_startOut n i sid _ t _ (seginv_setHandle n i sid g h none hi (by intro p x e; cases e)) (shmFreeStart_sinv n i sid m this)
      · exact seginv_setRet n i sid g t _ hi
    | size h => simp only; split <;> exact seginv_setRet n i sid g t _ hi
    | rd h off => simp only; (repeat' split) <;> exact seginv_setRet n i sid g t _ hi
    | wr h off b =>
      simp only
      cases hh : g.handleOf t h with
      | none => exact seginv_setRet n i sid g t _ hi
      | some x =>
        cases x with
        | sem s0 => exact seginv_setRet n i sid g t _ hi
        | shm m =>
          simp only
          cases hos : ((addrOpt m.addr).bind fun a => g.os.store (g.pidOf t) a off b) with
          | none => exact seginv_setRet n i sid g t _ hi
          | some os' =>
            simp only
            refine seginv_setRet n i sid _ t _ ⟨?_, hi.hs, hi.calls⟩
            cases ha : addrOpt m.addr with
            | none => simp [ha] at hos
            | some a =>
              simp only [ha, Option.bind_some, OS.store] at hos
              (repeat' split at hos) <;> simp only [Option.some.injEq, reduceCtorEq] at hos
              subst hos
              refine segbound_setSeg g.os _ i sid _ _ hi.bound ?_
              intro e
              rw [e]
              exact ⟨hi.bound.alive, hi.bound.unmarked⟩

theorem seginv_exec (n : Nat) (i : Ino) (sid : SegId) (g : G) (a : Action) (hi : SegInv n i sid g) (hq : SegQuiet n g) :
    SegInv n i sid (exec g a) := by
  cases a with
  | start t op => exact seginv_start n i sid g t op hi
  | step t intr => exact seginv_step n i sid g t intr hi hq
  | kill p => exact seginv_kill n i sid g p hi

/-- no clean-up of segment name `n` reaches its IPC_RMID / unlink in between -/
def SegQuietRun (n : Nat) : G → List Action → Prop
  | _, [] => True
  | g, a :: as => SegQuiet n g ∧ SegQuietRun n (exec g a) as

theorem seginv_execAll (n : Nat) (i : Ino) (sid : SegId) (as : List Action) :
    ∀ g, SegInv n i sid g → SegQuietRun n g as → SegInv n i sid (execAll g as) := by
  induction as with
  | nil => intro g h _; exact h
  | cons a as ih =>
    intro g h hq
    simp only [execAll, List.foldl_cons]
    exact ih (exec g a) (seginv_exec n i sid g a h hq.1) hq.2

end PV.SysV
